(** C14 — Resampling keeps the record: bounded step, retained samples, band-limited exact (statements; proofs in P_C14).
    Model: model/M_timestep.v ([interp_approx even values dt target] = interp_array_to_approx_dt / interp_to_approx_dt,
    [resample_approx RS even values dt target] = resample_to_approx_dt with scipy.signal.resample as the oracle [RS]).
    Stated at T := R (exact arithmetic) for every record, every dt > 0 and target > 0 and both values of [even].
    The "length" of a record in time is (number of samples) x step. *)
From Coq Require Import ZArith QArith Qabs Qreals Reals List Lia Lra.
From EQ Require Import lib.Num lib.NpList lib.B64 model.M_timestep model.M_timestep_fl proofs.P_C14 proofs.P_C14_fl
  proofs.P_C14_b64.
Import ListNotations.
Local Open Scope R_scope.

(** the returned step does not exceed the target ... *)
Theorem C14_step_le_target : forall even (v : list R) dt tg, 0 < dt -> 0 < tg ->
  snd (interp_approx even v dt tg) <= tg.
Proof. exact P_C14.C14_step_le_target. Qed.
(** ... its ratio to the original step is an integer (refinement) or the reciprocal of an integer (decimation) ... *)
Theorem C14_ratio_integer_or_reciprocal : forall even (v : list R) dt tg, 0 < dt -> 0 < tg ->
  exists k : Z, (1 <= k)%Z /\
    (dt = IZR k * snd (interp_approx even v dt tg) \/ snd (interp_approx even v dt tg) = IZR k * dt).
Proof. exact P_C14.C14_ratio. Qed.
(** ... and it is the largest such step: equal steps are kept; when refining, dt/k with one division less exceeds the
    target; when decimating, one more multiple of dt exceeds the target (this is what separates ceil from floor) *)
Theorem C14_step_is_best : forall even (v : list R) dt tg, 0 < dt -> 0 < tg ->
  let nd := snd (interp_approx even v dt tg) in
  (dt = tg -> nd = dt) /\
  (tg < dt -> exists k, (2 <= k)%Z /\ nd = dt / IZR k /\ tg < dt / IZR (k - 1)) /\
  (dt < tg -> exists m, (1 <= m)%Z /\ nd = IZR m * dt /\ tg < IZR (m + 1) * dt).
Proof. exact P_C14.C14_step_best. Qed.

(** dt == target: the record is returned unchanged (minus its last sample when an even length is forced on an odd one) *)
Theorem C14_identity_when_equal : forall even (v : list R) dt, 0 < dt ->
  interp_approx even v dt dt = (firstn (if even then 2 * (length v / 2) else length v) v, dt).
Proof. exact P_C14.C14_identity_when_equal. Qed.

(** refining: every original sample i reappears unchanged at output index k*i (which exists), k = dt / new step *)
Theorem C14_refine_retains : forall even (v : list R) dt tg, 0 < tg -> tg < dt ->
  exists k, (2 <= k)%Z /\ dt = IZR k * snd (interp_approx even v dt tg) /\
    forall i, (i < length v)%nat ->
      (Z.to_nat k * i < length (fst (interp_approx even v dt tg)))%nat /\
      nth (Z.to_nat k * i) (fst (interp_approx even v dt tg)) 0 = nth i v 0.
Proof. exact P_C14.C14_refine_retains. Qed.
(** decimating: the output is the subsequence of the input at indices 0, m, 2m, ... (all inside the record) *)
Theorem C14_decimate_subsequence : forall even (v : list R) dt tg, 0 < dt -> dt < tg ->
  exists m, (1 <= m)%Z /\ snd (interp_approx even v dt tg) = IZR m * dt /\
    forall i, (i < length (fst (interp_approx even v dt tg)))%nat ->
      (Z.to_nat m * i < length v)%nat /\
      nth i (fst (interp_approx even v dt tg)) 0 = nth (Z.to_nat m * i) v 0.
Proof. exact P_C14.C14_decimate_subsequence. Qed.
(** values never leave the input's range (no hypothesis on dt, target: holds for every factor) *)
Theorem C14_range : forall even (v : list R) dt tg y, v <> [] ->
  In y (fst (interp_approx even v dt tg)) -> amin v <= y <= amax v.
Proof. exact P_C14.C14_range. Qed.
(** the covered duration changes by less than two steps (of the coarser of the two grids) *)
Theorem C14_duration : forall even (v : list R) dt tg, 0 < dt -> 0 < tg ->
  let out := interp_approx even v dt tg in
  Rabs (IZR (Z.of_nat (length (fst out))) * snd out - IZR (Z.of_nat (length v)) * dt) < 2 * Rmax dt (snd out).
Proof. exact P_C14.C14_duration. Qed.
(** the length is even when requested *)
Theorem C14_even : forall (v : list R) dt tg, 0 < dt -> 0 < tg ->
  Z.even (Z.of_nat (length (fst (interp_approx true v dt tg)))) = true.
Proof. exact P_C14.C14_even. Qed.
(** under the property's guard (duration >= 2*max(dt, target)) at least two samples come out *)
Theorem C14_nonempty : forall even (v : list R) dt tg, 0 < dt -> 0 < tg ->
  2 * Rmax dt tg <= IZR (Z.of_nat (length v)) * dt -> (2 <= length (fst (interp_approx even v dt tg)))%nat.
Proof. exact P_C14.C14_nonempty. Qed.

(** The array clauses for ANY well-formed factor (integer >= 1), i.e. also for the factor the binary64 chain picks
    when the floating-point quotient lands next to an integer and differs from [factor_kind]: *)
Theorem C14_any_factor_refine_retains : forall k (v : list R) cnt i, (1 <= k)%Z -> (i < length v)%nat ->
  (Z.to_nat k * i < cnt)%nat -> nth (Z.to_nat k * i) (interp_at (fac_val (FRef k)) v cnt) 0 = nth i v 0.
Proof. exact P_C14.refine_retains. Qed.
Theorem C14_any_factor_decimate_picks : forall m (v : list R) cnt i, (1 <= m)%Z -> (i < cnt)%nat ->
  (Z.to_nat m * i < length v)%nat -> nth i (interp_at (fac_val (FDec m)) v cnt) 0 = nth (Z.to_nat m * i) v 0.
Proof. exact P_C14.decimate_picks. Qed.
Theorem C14_any_factor_range : forall (f : R) (v : list R) cnt y, v <> [] -> In y (interp_at f v cnt) -> amin v <= y <= amax v.
Proof. exact P_C14.interp_at_range. Qed.
Theorem C14_any_factor_length_duration_parity : forall even f n dt, 0 < dt -> fac_wf f ->
  let n' := new_npts even f n in
  (0 <= n')%Z /\ (even = true -> Z.even n' = true) /\
  Rabs (IZR n' * (dt / fac_val f) - IZR (Z.of_nat n) * dt) < 2 * Rmax dt (dt / fac_val f).
Proof.
  intros even f n dt Hdt Hwf n'. destruct (new_npts_bounds even f n Hwf) as (_ & H1 & H2).
  split; [exact H1|]. split; [exact H2|]. now apply duration_bound.
Qed.

(** Periodic (Fourier) resampling: the same step rule (the returned step is literally the same expression) ... *)
Theorem C14_resample_step : forall (RS : list R -> nat -> list R) even (v : list R) dt tg, 0 < dt -> 0 < tg ->
  snd (resample_approx RS even v dt tg) = snd (interp_approx even v dt tg) /\ snd (resample_approx RS even v dt tg) <= tg.
Proof. intros RS even v dt tg Hdt Htg. split; [reflexivity|]. change (snd (interp_approx even v dt tg) <= tg). now apply P_C14.C14_step_le_target. Qed.
(** ... even length when requested and duration within two steps, for any oracle that returns the requested number of samples *)
Theorem C14_resample_even : forall (RS : list R -> nat -> list R), (forall v num, length (RS v num) = num) ->
  forall (v : list R) dt tg, 0 < dt -> 0 < tg ->
  Z.even (Z.of_nat (length (fst (resample_approx RS true v dt tg)))) = true.
Proof. exact P_C14.C14_resample_even. Qed.
Theorem C14_resample_duration : forall (RS : list R -> nat -> list R), (forall v num, length (RS v num) = num) ->
  forall even (v : list R) dt tg, 0 < dt -> 0 < tg ->
  let out := resample_approx RS even v dt tg in
  Rabs (IZR (Z.of_nat (length (fst out))) * snd out - IZR (Z.of_nat (length v)) * dt) < 2 * Rmax dt (snd out).
Proof. exact P_C14.C14_resample_duration. Qed.

(** Rounded arithmetic.  [newdt_rnd rnd dt tg] (model/M_timestep_fl.v) is the scalar chain of the code with a rounding
    [rnd] applied at every float division (same structure as the executable binary64 kernel [factor_b64]).  For ANY
    monotone rounding with relative error u <= 1/16 that fixes 1, the returned step exceeds the target by at most the
    factor 1 + 8u -- whatever side of an integer the rounded quotient lands on. *)
Theorem C14_rounded_step_le_target : forall (u : R) (rnd : R -> R), 0 <= u <= 1 / 16 ->
  (forall x, Rabs (rnd x - x) <= u * Rabs x) -> (forall x y, x <= y -> rnd x <= rnd y) -> rnd 1 = 1 ->
  forall dt tg, 0 < dt -> 0 < tg -> newdt_rnd rnd dt tg <= tg * (1 + 8 * u).
Proof. intros u rnd Hu He Hm H1. exact (P_C14_fl.rounded_step_le_target u Hu rnd He Hm H1). Qed.
(** The bound for round-to-nearest-even with 53 significant bits and unbounded exponent (Flocq's FLX format, [rnd53]);
    the hypotheses of the theorem above are discharged from Flocq's relative-error, monotonicity and representability
    lemmas.  (The strict bound <= target is FALSE in binary64: dt = 1, target = 49 returns 49.00000000000001, see
    [C14_b64_nonvacuous] below.)  Kept under its historical name; the theorems that follow it close the gap between
    [rnd53] and the executable kernel, so [C14_b64_step_le_target] is the full statement. *)
Theorem C14_b64_step_le_target_partial : forall dt tg, 0 < dt -> 0 < tg ->
  newdt_rnd rnd53 dt tg <= tg * (1 + / 1125899906842624).
Proof. exact P_C14_fl.flx53_step_le_target. Qed.

(** The executable binary64 kernel (lib/B64.v: Flocq's [b64_div mode_NE], [binary_normalize]; model/M_timestep.v:
    [factor_b64], [newdt_b64] -- the terms the correspondence runs under vm_compute and compares bit for bit with the
    implementation).  Observables: [fQ x] is the exact rational value of the float x (0 for infinities and NaN, so a
    positive lower bound on [fQ x] says "x is finite and positive"), [ffinite x] its finiteness flag.
    One division: away from the subnormal range and from overflow (2^-1022 <= |a/b| <= 2^1023), Flocq's executable
    division IS [rnd53] of the exact quotient (Bdiv_correct + agreement of FLT and FLX rounding), and is finite. *)
Theorem C14_b64_div_is_rnd53 : forall a b : b64,
  (1 # 2 ^ 1022 <= Qabs (fQ a / fQ b) <= inject_Z (2 ^ 1023))%Q ->
  Q2R (fQ (fdiv a b)) = rnd53 (Q2R (fQ a) / Q2R (fQ b)) /\ ffinite (fdiv a b) = true.
Proof. exact P_C14_b64.b64_div_is_rnd53_Q. Qed.
(** The whole chain: for binary64 dt, target with dt, target and dt/target in [2^-1000, 2^1000] (no other hypothesis:
    no bound on the integers k, m -- the ceiling / floor of a 53-bit number >= 1 is itself a 53-bit number, so the
    int -> float conversions are exact; every intermediate quotient is shown to stay inside [2^-1002, 2^1002]),
    the value the kernel returns is the rounded chain of the theorems above, and it is finite. *)
Theorem C14_b64_chain_is_rnd53 : forall dt tg : b64,
  (1 # 2 ^ 1000 <= fQ dt <= inject_Z (2 ^ 1000))%Q -> (1 # 2 ^ 1000 <= fQ tg <= inject_Z (2 ^ 1000))%Q ->
  (1 # 2 ^ 1000 <= fQ dt / fQ tg <= inject_Z (2 ^ 1000))%Q ->
  Q2R (fQ (newdt_b64 dt tg)) = newdt_rnd rnd53 (Q2R (fQ dt)) (Q2R (fQ tg)) /\ ffinite (newdt_b64 dt tg) = true.
Proof. exact P_C14_b64.newdt_b64_is_rnd53_Q. Qed.
(** ... hence the step bound for [newdt_b64] itself (full statement; exact rationals, no reals in the statement) *)
Theorem C14_b64_step_le_target : forall dt tg : b64,
  (1 # 2 ^ 1000 <= fQ dt <= inject_Z (2 ^ 1000))%Q -> (1 # 2 ^ 1000 <= fQ tg <= inject_Z (2 ^ 1000))%Q ->
  (1 # 2 ^ 1000 <= fQ dt / fQ tg <= inject_Z (2 ^ 1000))%Q ->
  ffinite (newdt_b64 dt tg) = true /\ (fQ (newdt_b64 dt tg) <= fQ tg * (1 + (1 # 2 ^ 50)))%Q.
Proof. exact P_C14_b64.b64_step_le_target. Qed.
(** ... and the factor the kernel returns is 1.0, an integer k >= 2 (exactly), or the binary64 reciprocal fl(1/m) of
    an integer m >= 1 (m exactly representable); k, m are the ceiling / floor taken by the rounded chain, with
    q = fl(dt/target) *)
Theorem C14_b64_factor_integer_or_reciprocal : forall dt tg : b64,
  (1 # 2 ^ 1000 <= fQ dt <= inject_Z (2 ^ 1000))%Q -> (1 # 2 ^ 1000 <= fQ tg <= inject_Z (2 ^ 1000))%Q ->
  (1 # 2 ^ 1000 <= fQ dt / fQ tg <= inject_Z (2 ^ 1000))%Q ->
  let q := rnd53 (Q2R (fQ dt) / Q2R (fQ tg)) in
  ffinite (snd (factor_b64 dt tg)) = true /\
  Q2R (fQ (snd (factor_b64 dt tg))) = factor_rnd rnd53 (Q2R (fQ dt)) (Q2R (fQ tg)) /\
  match fst (factor_b64 dt tg) with
  | FSame => q = 1 /\ (fQ (snd (factor_b64 dt tg)) == 1)%Q
  | FRef k => 1 < q /\ k = nceil q /\ (2 <= k)%Z /\ (fQ (snd (factor_b64 dt tg)) == inject_Z k)%Q
  | FDec m => q < 1 /\ m = nfloor (rnd53 (1 / q)) /\ (1 <= m)%Z /\ (fQ (fofZ m) == inject_Z m)%Q /\
              snd (factor_b64 dt tg) = fdiv fone (fofZ m) /\
              Q2R (fQ (snd (factor_b64 dt tg))) = rnd53 (1 / IZR m)
  end.
Proof. exact P_C14_b64.b64_factor_shape. Qed.

(** the number of samples requested from the oracle is exactly factor * npts whenever that is an integer (always when
    refining or keeping the step; when m divides npts for decimation): the resampled grid then spans exactly the
    record's period with step dt / factor, so no time warp; the even-trimming is a [firstn] afterwards *)
Theorem C14_resample_count_exact : forall (v : list R) dt tg, 0 < dt -> 0 < tg ->
  let k := factor_kind dt tg in let c := rs_count k (length v) in
  (match k with FDec m => (Z.of_nat (length v) mod m = 0)%Z | _ => True end) ->
  IZR c * (dt / fac_val k) = IZR (Z.of_nat (length v)) * dt.
Proof. exact P_C14.C14_resample_count_exact. Qed.
Theorem C14_resample_trims_after : forall (RS : list R -> nat -> list R) (v : list R) dt tg,
  fst (resample_approx RS true v dt tg) =
  firstn (Z.to_nat (new_npts_rs true (factor_kind dt tg) (length v))) (fst (resample_approx RS false v dt tg)).
Proof. reflexivity. Qed.

(** NOT proved (correspondence only):
    - "reproduces exactly any signal that is periodic over the record and band-limited below the new Nyquist frequency":
      scipy.signal.resample is an oracle here; the clause is measured on implementation outputs on every run (on-grid
      sinusoid sums, enclosures proved by the [interval] tactic) whenever factor * npts is an integer (otherwise no
      periodic resampling onto the grid i * new_dt exists).
    - binary64: the scalar chain dt/target -> factor -> new_dt IS now a theorem about the executable kernel
      ([C14_b64_div_is_rnd53], [C14_b64_chain_is_rnd53], [C14_b64_step_le_target],
      [C14_b64_factor_integer_or_reciprocal]) for dt, target, dt/target in [2^-1000, 2^1000].  Still NOT proved:
      (a) the chain outside that range (subnormal / overflowing quotients: there FLT and FLX rounding differ, and
      np.ceil(inf) raises in the code); (b) the binary64 sample count [npts_b64] / [rs_count_b64] (float product
      fl(1.0*len), quotient fl(len/m), int(), 2*int(x/2)) and the interpolated VALUES in binary64 (np.interp's own
      roundings are not modelled: values are compared with the Q model under a tolerance); (c) that the kernel equals
      the code: that is the correspondence (bit-for-bit on every case), and the bound is also checked with slack
      2^-50 on every implementation output. *)

(** non-vacuity: dt = 2, target = 3/4 is refined by exactly k = 3 *)
Example C14_nonvacuous : snd (interp_approx true [1; 3; 2] 2 (3/4)) = 2/3.
Proof.
  pose proof (P_C14.C14_step_le_target true [1; 3; 2] 2 (3/4) ltac:(lra) ltac:(lra)) as Hle.
  destruct (P_C14.C14_step_best true [1; 3; 2] 2 (3/4) ltac:(lra) ltac:(lra)) as (_ & Href & _).
  destruct (Href ltac:(lra)) as (k & Hk & Hnd & Hbest). rewrite Hnd in *.
  assert (Hk0 : 0 < IZR k) by (apply IZR_lt; lia). assert (Hk1 : 0 < IZR (k - 1)) by (apply IZR_lt; lia).
  assert (H1 : 8 <= 3 * IZR k).
  { apply Rmult_le_compat_r with (r := IZR k) in Hle; [|lra]. unfold Rdiv in Hle. rewrite Rmult_assoc, Rinv_l in Hle by lra. lra. }
  assert (H2 : 3 * IZR (k - 1) < 8).
  { apply Rmult_lt_compat_r with (r := IZR (k - 1)) in Hbest; [|lra]. unfold Rdiv in Hbest. rewrite (Rmult_assoc 2), Rinv_l in Hbest by lra. lra. }
  assert (k = 3%Z).
  { assert (IZR 2 < IZR k) by lra. assert (IZR (k - 1) < IZR 3) by lra. apply lt_IZR in H, H0. lia. }
  subst k. reflexivity.
Qed.
(** non-vacuity of the binary64 theorems: dt = 1.0, target = 49.0 (bit patterns) satisfy the range hypotheses; the
    kernel decimates by m = 49 and returns 49.00000000000001 > target (one ulp above: the strict bound is false in
    binary64, the slack 2^-50 is needed) *)
Example C14_b64_nonvacuous :
  let dt := b64_bits 4607182418800017408 in let tg := b64_bits 4632092954238910464 in
  ((1 # 2 ^ 1000 <= fQ dt <= inject_Z (2 ^ 1000))%Q /\ (1 # 2 ^ 1000 <= fQ tg <= inject_Z (2 ^ 1000))%Q /\
   (1 # 2 ^ 1000 <= fQ dt / fQ tg <= inject_Z (2 ^ 1000))%Q) /\
  fst (factor_b64 dt tg) = FDec 49 /\ bits_b64 (newdt_b64 dt tg) = 4632092954238910465%Z /\
  (fQ tg < fQ (newdt_b64 dt tg))%Q.
Proof.
  cbv zeta. repeat split; try (apply Qle_bool_iff; vm_compute; reflexivity); vm_compute; reflexivity.
Qed.
(** the executable instance (T := Q) on a small input: refinement by 2 with the clamped tail, and decimation by 2 *)
Example C14_run_Q :
  interp_approx (T:=Q) false [1; 3; 2]%Q 2%Q 1%Q = ([1; 2; 3; 5 # 2; 2; 2]%Q, 1%Q) /\
  interp_approx (T:=Q) true [1; 3; 2; 7; 5]%Q 1%Q 2%Q = ([1; 2]%Q, 2%Q).
Proof. split; vm_compute; reflexivity. Qed.

(** * Source-text tie.  translator/py2coq_c14.py (Python ast, fail closed, re-run by every check) turns
    interp_array_to_approx_dt, interp_to_approx_dt and resample_to_approx_dt of eqsig/fns/time_step.py into
    gen/Gen_c14.v: one definition per function, every assignment a `let` named by its position (a renamed temporary gives
    the same text), generic over a record [FlOps F] of float operations; Python's int / float arithmetic is the fixed
    Gallina text in the header of that file ([pynum], [py_div], [py_mul], [py_int], [py_int_ceil], [np_floor],
    [np_arange], ...).  np.interp and scipy.signal.resample are variables of the generated Section (oracles).
    The theorems below read the SAME generated text twice -- with the exact operations [FlNum] of [NumOps R] and with the
    binary64 operations [FlB64] of lib/B64.v (fdiv, fmul, fofZ, fcmp, ffloor, fceil, ftrunc) -- and prove it equal to the
    hand model for ALL inputs (proofs/P_gen_c14.v).  A changed operand, operator, literal, comparison, branch or call in
    the source changes the generated text and breaks one of these proofs.
    Trusted: the translator's reading listed in the header of gen/Gen_c14.v; for the array function, that np.interp on
    the unit grid np.arange(len(v)) is the model's [np_interp] (hypothesis of the theorems, met by the model itself:
    [C14_source_nonvacuous]; tied to NumPy by the correspondence). *)
From EQ Require Import gen.Gen_c14 proofs.P_gen_c14.

(** exact reading: the generated functions ARE [interp_approx] / [resample_approx] *)
Theorem C14_interp_array_is_source : forall (I : list R -> list R -> list R -> list R),
  (forall ts v, I ts (map IZR (zrange (Z.of_nat (length v)))) v = map (np_interp v) ts) ->
  forall even (v : list R) dt tg,
  let r := gen_interp_array_to_approx_dt FlNum I even v dt tg in
  (fst r, to_f FlNum (snd r)) = interp_approx even v dt tg.
Proof. exact P_gen_c14.gen_interp_array_R. Qed.
Theorem C14_interp_is_source : forall (I : list R -> list R -> list R -> list R),
  (forall ts v, I ts (map IZR (zrange (Z.of_nat (length v)))) v = map (np_interp v) ts) ->
  forall even (v : list R) dt tg,
  gen_interp_to_approx_dt FlNum I even v dt tg = interp_approx even v dt tg.
Proof. exact P_gen_c14.gen_interp_R. Qed.
Theorem C14_resample_is_source : forall (RS : list R -> nat -> list R) even (v : list R) dt tg,
  gen_resample_to_approx_dt FlNum RS even v dt tg = resample_approx RS even v dt tg.
Proof. exact P_gen_c14.gen_resample_R. Qed.

(** for ANY float operations the generated functions are compositions of five scalar observables with the oracles:
    [g_factor] = `factor` after the if / elif / else, [g_raw] = `new_npts` before the even rule, [g_npts] = the number of
    grid points (2 * int(x / 2) or len(np.arange(x))), [g_rs] = the count given to scipy, [g_newdt] = dt / factor *)
Theorem C14_generated_shape : forall (F : Type) (ops : FlOps F) (I : list F -> list F -> list F -> list F)
    (RS : list F -> nat -> list F) even (v : list F) dt tg,
  let n := Z.of_nat (length v) in
  gen_interp_to_approx_dt ops I even v dt tg =
    (I (map (fun i => f_div ops (f_ofZ ops i) (to_f ops (g_factor ops dt tg))) (zrange (g_npts ops even dt tg n)))
       (map (f_ofZ ops) (zrange n)) v, g_newdt ops dt tg) /\
  gen_resample_to_approx_dt ops RS even v dt tg =
    (let out := RS v (Z.to_nat (g_rs ops dt tg n)) in
     if even then firstn (Z.to_nat (g_half ops (PInt (g_rs ops dt tg n)))) out else out, g_newdt ops dt tg).
Proof.
  intros F ops I RS even v dt tg n. split; [exact (P_gen_c14.gen_interp_shape ops I even v dt tg)|].
  exact (P_gen_c14.gen_resample_shape ops RS even v dt tg).
Qed.
(** binary64 reading of the scalar observables = the kernel of model/M_timestep.v (no hypothesis at all) *)
Theorem C14_scalars_are_source_b64 : forall (dt tg : b64) (n : Z),
  to_f FlB64 (g_factor FlB64 dt tg) = snd (factor_b64 dt tg) /\
  g_newdt FlB64 dt tg = newdt_b64 dt tg /\
  pyQ (g_raw FlB64 dt tg n) = npts_raw_b64 (factor_b64 dt tg) n /\
  g_npts FlB64 false dt tg n = npts_b64 false dt tg n /\
  g_rs FlB64 dt tg n = rs_count_b64 dt tg n.
Proof.
  intros dt tg n. split; [exact (P_gen_c14.g_factor_b64 dt tg)|]. split; [exact (P_gen_c14.g_newdt_b64 dt tg)|].
  split; [exact (P_gen_c14.g_raw_b64 dt tg n)|]. split; [exact (P_gen_c14.g_npts_odd_b64 dt tg n)|].
  exact (P_gen_c14.g_rs_b64 dt tg n).
Qed.
(** the even rule `2 * int(x / 2)`: for EVERY binary64 x (finite or not, normal or subnormal) the truncation of the
    binary64 quotient x / 2.0 is the truncation of the exact half -- so the model's exact x / 2 is not an idealisation *)
Theorem C14_even_rule_b64 : forall x : b64, ftrunc (fdiv x (fofZ 2)) = Qtrunc (fQ x / 2).
Proof. exact P_gen_c14.half_b64. Qed.
(** binary64 reading of the whole functions.  Guard (only when even = True, only where an INT meets the even rule): the
    int is in [0, 2^53], so that its conversion to float is exact (the model divides the exact integer); this is
    k * len in the refinement branch of the interpolation, and the resampled count in the Fourier variant. *)
Theorem C14_interp_array_is_source_b64 : forall (I : list b64 -> list b64 -> list b64 -> list b64) even (v : list b64) dt tg,
  let n := Z.of_nat (length v) in
  (even = true -> match fst (factor_b64 dt tg) with FRef k => (0 <= k * n <= 2 ^ 53)%Z | _ => True end) ->
  gen_interp_array_to_approx_dt FlB64 I even v dt tg =
  (I (map (fun i => fdiv (fofZ i) (snd (factor_b64 dt tg))) (zrange (npts_b64 even dt tg n))) (map fofZ (zrange n)) v,
   PFloat (newdt_b64 dt tg)).
Proof. exact P_gen_c14.gen_interp_array_b64. Qed.
Theorem C14_interp_is_source_b64 : forall (I : list b64 -> list b64 -> list b64 -> list b64) even (v : list b64) dt tg,
  let n := Z.of_nat (length v) in
  (even = true -> match fst (factor_b64 dt tg) with FRef k => (0 <= k * n <= 2 ^ 53)%Z | _ => True end) ->
  gen_interp_to_approx_dt FlB64 I even v dt tg =
  (I (map (fun i => fdiv (fofZ i) (snd (factor_b64 dt tg))) (zrange (npts_b64 even dt tg n))) (map fofZ (zrange n)) v,
   newdt_b64 dt tg).
Proof. exact P_gen_c14.gen_interp_b64. Qed.
Theorem C14_resample_is_source_b64 : forall (RS : list b64 -> nat -> list b64) even (v : list b64) dt tg,
  let n := Z.of_nat (length v) in
  (even = true -> (0 <= rs_count_b64 dt tg n <= 2 ^ 53)%Z) ->
  gen_resample_to_approx_dt FlB64 RS even v dt tg =
  (let out := RS v (Z.to_nat (rs_count_b64 dt tg n)) in
   if even then firstn (Z.to_nat (npts_rs_b64 true dt tg n)) out else out,
   newdt_b64 dt tg).
Proof. exact P_gen_c14.gen_resample_b64. Qed.
(** the defaults of the three signatures *)
Theorem C14_defaults_are_source :
  gen_interp_array_to_approx_dt_default_target_dt = (1 # 100)%Q /\ gen_interp_array_to_approx_dt_default_even = true /\
  gen_interp_to_approx_dt_default_target_dt = (1 # 100)%Q /\ gen_interp_to_approx_dt_default_even = true /\
  gen_resample_to_approx_dt_default_target_dt = (1 # 100)%Q /\ gen_resample_to_approx_dt_default_even = true.
Proof. repeat split; reflexivity. Qed.

(** NOT covered by the source-text tie: np.interp and scipy.signal.resample themselves (oracles: the first one enters
    through its value on the unit grid, which is the model's [np_interp]; the second one is arbitrary); the translator's
    reading of Python / NumPy arithmetic (header of gen/Gen_c14.v: int vs float operands, int / int as the float
    quotient of the converted operands, np.arange(x) as ceil(x) entries, v[:k] as firstn for k >= 0, .npts as len);
    in binary64, the even rule applied to an INT above 2^53 (the guard above).
    Relative to the NOT-proved list further up: item (b) is narrowed -- the binary64 sample counts [npts_b64],
    [rs_count_b64], [npts_rs_b64] are now what the SOURCE TEXT computes when read in binary64 (float product fl(q * len),
    quotient fl(len / m), int(), ceil), and the model's exact x / 2 in the even rule is proved to be the binary64
    computation for every float ([C14_even_rule_b64]); still NOT proved there: the property clauses (duration, parity,
    retained samples) for these binary64 counts, and np.interp's own roundings.  Item (c) "kernel = code" now has a
    static half: kernel = generated reading of the source (this section); generated reading = NumPy's execution remains
    the correspondence. *)

(** non-vacuity: the hypothesis on the oracle is met by the model's np.interp; the generated text runs at Q and gives the
    run of [C14_run_Q]; in binary64 (dt = 1.0, target = 49.0, 100 samples, even) the guard holds and 2 grid points at
    step 49.00000000000001 come out, the first grid point being 0 / fl(1/49) *)
Example C14_source_nonvacuous :
  (forall ts (v : list R), (fun ts _ v => map (np_interp v) ts) ts (map IZR (zrange (Z.of_nat (length v)))) v = map (np_interp v) ts) /\
  gen_interp_to_approx_dt (FlNum (T:=Q)) (fun ts _ v => map (np_interp v) ts) false [1; 3; 2]%Q 2%Q 1%Q =
    ([1; 2; 3; 5 # 2; 2; 2]%Q, 1%Q) /\
  gen_interp_to_approx_dt (FlNum (T:=Q)) (fun ts _ v => map (np_interp v) ts) true [1; 3; 2; 7; 5]%Q 1%Q 2%Q = ([1; 2]%Q, 2%Q) /\
  (let dt := b64_bits 4607182418800017408 in let tg := b64_bits 4632092954238910464 in
   let v := repeat dt 100 in
   let r := gen_interp_to_approx_dt FlB64 (fun ts _ _ => ts) true v dt tg in
   match fst (factor_b64 dt tg) with FRef k => (0 <= k * 100 <= 2 ^ 53)%Z | _ => True end /\
   map bits_b64 (fst r) = [0; 4632092954238910465]%Z /\ bits_b64 (snd r) = 4632092954238910465%Z).
Proof.
  split; [intros ts v; reflexivity|]. split; [vm_compute; reflexivity|]. split; [vm_compute; reflexivity|].
  cbv zeta. split; [vm_compute; exact I|]. split; vm_compute; reflexivity.
Qed.
