(** C14 — Resampling keeps the record: bounded step, retained samples, band-limited exact (statements; proofs in P_C14).
    Model: model/M_timestep.v ([interp_approx even values dt target] = interp_array_to_approx_dt / interp_to_approx_dt,
    [resample_approx RS even values dt target] = resample_to_approx_dt with scipy.signal.resample as the oracle [RS]).
    Stated at T := R (exact arithmetic) for every record, every dt > 0 and target > 0 and both values of [even].
    The "length" of a record in time is (number of samples) x step. *)
From Coq Require Import ZArith QArith Qabs Qreals Reals List Lia Lra.
From EQ Require Import lib.Num lib.NpList lib.B64 model.M_timestep model.M_timestep_fl proofs.P_C14 proofs.P_C14_fl
  proofs.P_C14_b64.
Import ListNotations.
Local Open Scope R_scope.

(** the returned step does not exceed the target ... *)
Theorem C14_step_le_target : forall even (v : list R) dt tg, 0 < dt -> 0 < tg ->
  snd (interp_approx even v dt tg) <= tg.
Proof. exact P_C14.C14_step_le_target. Qed.
(** ... its ratio to the original step is an integer (refinement) or the reciprocal of an integer (decimation) ... *)
Theorem C14_ratio_integer_or_reciprocal : forall even (v : list R) dt tg, 0 < dt -> 0 < tg ->
  exists k : Z, (1 <= k)%Z /\
    (dt = IZR k * snd (interp_approx even v dt tg) \/ snd (interp_approx even v dt tg) = IZR k * dt).
Proof. exact P_C14.C14_ratio. Qed.
(** ... and it is the largest such step: equal steps are kept; when refining, dt/k with one division less exceeds the
    target; when decimating, one more multiple of dt exceeds the target (this is what separates ceil from floor) *)
Theorem C14_step_is_best : forall even (v : list R) dt tg, 0 < dt -> 0 < tg ->
  let nd := snd (interp_approx even v dt tg) in
  (dt = tg -> nd = dt) /\
  (tg < dt -> exists k, (2 <= k)%Z /\ nd = dt / IZR k /\ tg < dt / IZR (k - 1)) /\
  (dt < tg -> exists m, (1 <= m)%Z /\ nd = IZR m * dt /\ tg < IZR (m + 1) * dt).
Proof. exact P_C14.C14_step_best. Qed.

(** dt == target: the record is returned unchanged (minus its last sample when an even length is forced on an odd one) *)
Theorem C14_identity_when_equal : forall even (v : list R) dt, 0 < dt ->
  interp_approx even v dt dt = (firstn (if even then 2 * (length v / 2) else length v) v, dt).
Proof. exact P_C14.C14_identity_when_equal. Qed.

(** refining: every original sample i reappears unchanged at output index k*i (which exists), k = dt / new step *)
Theorem C14_refine_retains : forall even (v : list R) dt tg, 0 < tg -> tg < dt ->
  exists k, (2 <= k)%Z /\ dt = IZR k * snd (interp_approx even v dt tg) /\
    forall i, (i < length v)%nat ->
      (Z.to_nat k * i < length (fst (interp_approx even v dt tg)))%nat /\
      nth (Z.to_nat k * i) (fst (interp_approx even v dt tg)) 0 = nth i v 0.
Proof. exact P_C14.C14_refine_retains. Qed.
(** decimating: the output is the subsequence of the input at indices 0, m, 2m, ... (all inside the record) *)
Theorem C14_decimate_subsequence : forall even (v : list R) dt tg, 0 < dt -> dt < tg ->
  exists m, (1 <= m)%Z /\ snd (interp_approx even v dt tg) = IZR m * dt /\
    forall i, (i < length (fst (interp_approx even v dt tg)))%nat ->
      (Z.to_nat m * i < length v)%nat /\
      nth i (fst (interp_approx even v dt tg)) 0 = nth (Z.to_nat m * i) v 0.
Proof. exact P_C14.C14_decimate_subsequence. Qed.
(** values never leave the input's range (no hypothesis on dt, target: holds for every factor) *)
Theorem C14_range : forall even (v : list R) dt tg y, v <> [] ->
  In y (fst (interp_approx even v dt tg)) -> amin v <= y <= amax v.
Proof. exact P_C14.C14_range. Qed.
(** the covered duration changes by less than two steps (of the coarser of the two grids) *)
Theorem C14_duration : forall even (v : list R) dt tg, 0 < dt -> 0 < tg ->
  let out := interp_approx even v dt tg in
  Rabs (IZR (Z.of_nat (length (fst out))) * snd out - IZR (Z.of_nat (length v)) * dt) < 2 * Rmax dt (snd out).
Proof. exact P_C14.C14_duration. Qed.
(** the length is even when requested *)
Theorem C14_even : forall (v : list R) dt tg, 0 < dt -> 0 < tg ->
  Z.even (Z.of_nat (length (fst (interp_approx true v dt tg)))) = true.
Proof. exact P_C14.C14_even. Qed.
(** under the property's guard (duration >= 2*max(dt, target)) at least two samples come out *)
Theorem C14_nonempty : forall even (v : list R) dt tg, 0 < dt -> 0 < tg ->
  2 * Rmax dt tg <= IZR (Z.of_nat (length v)) * dt -> (2 <= length (fst (interp_approx even v dt tg)))%nat.
Proof. exact P_C14.C14_nonempty. Qed.

(** The array clauses for ANY well-formed factor (integer >= 1), i.e. also for the factor the binary64 chain picks
    when the floating-point quotient lands next to an integer and differs from [factor_kind]: *)
Theorem C14_any_factor_refine_retains : forall k (v : list R) cnt i, (1 <= k)%Z -> (i < length v)%nat ->
  (Z.to_nat k * i < cnt)%nat -> nth (Z.to_nat k * i) (interp_at (fac_val (FRef k)) v cnt) 0 = nth i v 0.
Proof. exact P_C14.refine_retains. Qed.
Theorem C14_any_factor_decimate_picks : forall m (v : list R) cnt i, (1 <= m)%Z -> (i < cnt)%nat ->
  (Z.to_nat m * i < length v)%nat -> nth i (interp_at (fac_val (FDec m)) v cnt) 0 = nth (Z.to_nat m * i) v 0.
Proof. exact P_C14.decimate_picks. Qed.
Theorem C14_any_factor_range : forall (f : R) (v : list R) cnt y, v <> [] -> In y (interp_at f v cnt) -> amin v <= y <= amax v.
Proof. exact P_C14.interp_at_range. Qed.
Theorem C14_any_factor_length_duration_parity : forall even f n dt, 0 < dt -> fac_wf f ->
  let n' := new_npts even f n in
  (0 <= n')%Z /\ (even = true -> Z.even n' = true) /\
  Rabs (IZR n' * (dt / fac_val f) - IZR (Z.of_nat n) * dt) < 2 * Rmax dt (dt / fac_val f).
Proof.
  intros even f n dt Hdt Hwf n'. destruct (new_npts_bounds even f n Hwf) as (_ & H1 & H2).
  split; [exact H1|]. split; [exact H2|]. now apply duration_bound.
Qed.

(** Periodic (Fourier) resampling: the same step rule (the returned step is literally the same expression) ... *)
Theorem C14_resample_step : forall (RS : list R -> nat -> list R) even (v : list R) dt tg, 0 < dt -> 0 < tg ->
  snd (resample_approx RS even v dt tg) = snd (interp_approx even v dt tg) /\ snd (resample_approx RS even v dt tg) <= tg.
Proof. intros RS even v dt tg Hdt Htg. split; [reflexivity|]. change (snd (interp_approx even v dt tg) <= tg). now apply P_C14.C14_step_le_target. Qed.
(** ... even length when requested and duration within two steps, for any oracle that returns the requested number of samples *)
Theorem C14_resample_even : forall (RS : list R -> nat -> list R), (forall v num, length (RS v num) = num) ->
  forall (v : list R) dt tg, 0 < dt -> 0 < tg ->
  Z.even (Z.of_nat (length (fst (resample_approx RS true v dt tg)))) = true.
Proof. exact P_C14.C14_resample_even. Qed.
Theorem C14_resample_duration : forall (RS : list R -> nat -> list R), (forall v num, length (RS v num) = num) ->
  forall even (v : list R) dt tg, 0 < dt -> 0 < tg ->
  let out := resample_approx RS even v dt tg in
  Rabs (IZR (Z.of_nat (length (fst out))) * snd out - IZR (Z.of_nat (length v)) * dt) < 2 * Rmax dt (snd out).
Proof. exact P_C14.C14_resample_duration. Qed.

(** Rounded arithmetic.  [newdt_rnd rnd dt tg] (model/M_timestep_fl.v) is the scalar chain of the code with a rounding
    [rnd] applied at every float division (same structure as the executable binary64 kernel [factor_b64]).  For ANY
    monotone rounding with relative error u <= 1/16 that fixes 1, the returned step exceeds the target by at most the
    factor 1 + 8u -- whatever side of an integer the rounded quotient lands on. *)
Theorem C14_rounded_step_le_target : forall (u : R) (rnd : R -> R), 0 <= u <= 1 / 16 ->
  (forall x, Rabs (rnd x - x) <= u * Rabs x) -> (forall x y, x <= y -> rnd x <= rnd y) -> rnd 1 = 1 ->
  forall dt tg, 0 < dt -> 0 < tg -> newdt_rnd rnd dt tg <= tg * (1 + 8 * u).
Proof. intros u rnd Hu He Hm H1. exact (P_C14_fl.rounded_step_le_target u Hu rnd He Hm H1). Qed.
(** The bound for round-to-nearest-even with 53 significant bits and unbounded exponent (Flocq's FLX format, [rnd53]);
    the hypotheses of the theorem above are discharged from Flocq's relative-error, monotonicity and representability
    lemmas.  (The strict bound <= target is FALSE in binary64: dt = 1, target = 49 returns 49.00000000000001, see
    [C14_b64_nonvacuous] below.)  Kept under its historical name; the theorems that follow it close the gap between
    [rnd53] and the executable kernel, so [C14_b64_step_le_target] is the full statement. *)
Theorem C14_b64_step_le_target_partial : forall dt tg, 0 < dt -> 0 < tg ->
  newdt_rnd rnd53 dt tg <= tg * (1 + / 1125899906842624).
Proof. exact P_C14_fl.flx53_step_le_target. Qed.

(** The executable binary64 kernel (lib/B64.v: Flocq's [b64_div mode_NE], [binary_normalize]; model/M_timestep.v:
    [factor_b64], [newdt_b64] -- the terms the correspondence runs under vm_compute and compares bit for bit with the
    implementation).  Observables: [fQ x] is the exact rational value of the float x (0 for infinities and NaN, so a
    positive lower bound on [fQ x] says "x is finite and positive"), [ffinite x] its finiteness flag.
    One division: away from the subnormal range and from overflow (2^-1022 <= |a/b| <= 2^1023), Flocq's executable
    division IS [rnd53] of the exact quotient (Bdiv_correct + agreement of FLT and FLX rounding), and is finite. *)
Theorem C14_b64_div_is_rnd53 : forall a b : b64,
  (1 # 2 ^ 1022 <= Qabs (fQ a / fQ b) <= inject_Z (2 ^ 1023))%Q ->
  Q2R (fQ (fdiv a b)) = rnd53 (Q2R (fQ a) / Q2R (fQ b)) /\ ffinite (fdiv a b) = true.
Proof. exact P_C14_b64.b64_div_is_rnd53_Q. Qed.
(** The whole chain: for binary64 dt, target with dt, target and dt/target in [2^-1000, 2^1000] (no other hypothesis:
    no bound on the integers k, m -- the ceiling / floor of a 53-bit number >= 1 is itself a 53-bit number, so the
    int -> float conversions are exact; every intermediate quotient is shown to stay inside [2^-1002, 2^1002]),
    the value the kernel returns is the rounded chain of the theorems above, and it is finite. *)
Theorem C14_b64_chain_is_rnd53 : forall dt tg : b64,
  (1 # 2 ^ 1000 <= fQ dt <= inject_Z (2 ^ 1000))%Q -> (1 # 2 ^ 1000 <= fQ tg <= inject_Z (2 ^ 1000))%Q ->
  (1 # 2 ^ 1000 <= fQ dt / fQ tg <= inject_Z (2 ^ 1000))%Q ->
  Q2R (fQ (newdt_b64 dt tg)) = newdt_rnd rnd53 (Q2R (fQ dt)) (Q2R (fQ tg)) /\ ffinite (newdt_b64 dt tg) = true.
Proof. exact P_C14_b64.newdt_b64_is_rnd53_Q. Qed.
(** ... hence the step bound for [newdt_b64] itself (full statement; exact rationals, no reals in the statement) *)
Theorem C14_b64_step_le_target : forall dt tg : b64,
  (1 # 2 ^ 1000 <= fQ dt <= inject_Z (2 ^ 1000))%Q -> (1 # 2 ^ 1000 <= fQ tg <= inject_Z (2 ^ 1000))%Q ->
  (1 # 2 ^ 1000 <= fQ dt / fQ tg <= inject_Z (2 ^ 1000))%Q ->
  ffinite (newdt_b64 dt tg) = true /\ (fQ (newdt_b64 dt tg) <= fQ tg * (1 + (1 # 2 ^ 50)))%Q.
Proof. exact P_C14_b64.b64_step_le_target. Qed.
(** ... and the factor the kernel returns is 1.0, an integer k >= 2 (exactly), or the binary64 reciprocal fl(1/m) of
    an integer m >= 1 (m exactly representable); k, m are the ceiling / floor taken by the rounded chain, with
    q = fl(dt/target) *)
Theorem C14_b64_factor_integer_or_reciprocal : forall dt tg : b64,
  (1 # 2 ^ 1000 <= fQ dt <= inject_Z (2 ^ 1000))%Q -> (1 # 2 ^ 1000 <= fQ tg <= inject_Z (2 ^ 1000))%Q ->
  (1 # 2 ^ 1000 <= fQ dt / fQ tg <= inject_Z (2 ^ 1000))%Q ->
  let q := rnd53 (Q2R (fQ dt) / Q2R (fQ tg)) in
  ffinite (snd (factor_b64 dt tg)) = true /\
  Q2R (fQ (snd (factor_b64 dt tg))) = factor_rnd rnd53 (Q2R (fQ dt)) (Q2R (fQ tg)) /\
  match fst (factor_b64 dt tg) with
  | FSame => q = 1 /\ (fQ (snd (factor_b64 dt tg)) == 1)%Q
  | FRef k => 1 < q /\ k = nceil q /\ (2 <= k)%Z /\ (fQ (snd (factor_b64 dt tg)) == inject_Z k)%Q
  | FDec m => q < 1 /\ m = nfloor (rnd53 (1 / q)) /\ (1 <= m)%Z /\ (fQ (fofZ m) == inject_Z m)%Q /\
              snd (factor_b64 dt tg) = fdiv fone (fofZ m) /\
              Q2R (fQ (snd (factor_b64 dt tg))) = rnd53 (1 / IZR m)
  end.
Proof. exact P_C14_b64.b64_factor_shape. Qed.

(** the number of samples requested from the oracle is exactly factor * npts whenever that is an integer (always when
    refining or keeping the step; when m divides npts for decimation): the resampled grid then spans exactly the
    record's period with step dt / factor, so no time warp; the even-trimming is a [firstn] afterwards *)
Theorem C14_resample_count_exact : forall (v : list R) dt tg, 0 < dt -> 0 < tg ->
  let k := factor_kind dt tg in let c := rs_count k (length v) in
  (match k with FDec m => (Z.of_nat (length v) mod m = 0)%Z | _ => True end) ->
  IZR c * (dt / fac_val k) = IZR (Z.of_nat (length v)) * dt.
Proof. exact P_C14.C14_resample_count_exact. Qed.
Theorem C14_resample_trims_after : forall (RS : list R -> nat -> list R) (v : list R) dt tg,
  fst (resample_approx RS true v dt tg) =
  firstn (Z.to_nat (new_npts_rs true (factor_kind dt tg) (length v))) (fst (resample_approx RS false v dt tg)).
Proof. reflexivity. Qed.

(** NOT proved (correspondence only):
    - "reproduces exactly any signal that is periodic over the record and band-limited below the new Nyquist frequency":
      scipy.signal.resample is an oracle here; the clause is measured on implementation outputs on every run (on-grid
      sinusoid sums, enclosures proved by the [interval] tactic) whenever factor * npts is an integer (otherwise no
      periodic resampling onto the grid i * new_dt exists).
    - binary64: the scalar chain dt/target -> factor -> new_dt IS now a theorem about the executable kernel
      ([C14_b64_div_is_rnd53], [C14_b64_chain_is_rnd53], [C14_b64_step_le_target],
      [C14_b64_factor_integer_or_reciprocal]) for dt, target, dt/target in [2^-1000, 2^1000].  Still NOT proved:
      (a) the chain outside that range (subnormal / overflowing quotients: there FLT and FLX rounding differ, and
      np.ceil(inf) raises in the code); (b) the binary64 sample count [npts_b64] / [rs_count_b64] (float product
      fl(1.0*len), quotient fl(len/m), int(), 2*int(x/2)) and the interpolated VALUES in binary64 (np.interp's own
      roundings are not modelled: values are compared with the Q model under a tolerance); (c) that the kernel equals
      the code: that is the correspondence (bit-for-bit on every case), and the bound is also checked with slack
      2^-50 on every implementation output. *)

(** non-vacuity: dt = 2, target = 3/4 is refined by exactly k = 3 *)
Example C14_nonvacuous : snd (interp_approx true [1; 3; 2] 2 (3/4)) = 2/3.
Proof.
  pose proof (P_C14.C14_step_le_target true [1; 3; 2] 2 (3/4) ltac:(lra) ltac:(lra)) as Hle.
  destruct (P_C14.C14_step_best true [1; 3; 2] 2 (3/4) ltac:(lra) ltac:(lra)) as (_ & Href & _).
  destruct (Href ltac:(lra)) as (k & Hk & Hnd & Hbest). rewrite Hnd in *.
  assert (Hk0 : 0 < IZR k) by (apply IZR_lt; lia). assert (Hk1 : 0 < IZR (k - 1)) by (apply IZR_lt; lia).
  assert (H1 : 8 <= 3 * IZR k).
  { apply Rmult_le_compat_r with (r := IZR k) in Hle; [|lra]. unfold Rdiv in Hle. rewrite Rmult_assoc, Rinv_l in Hle by lra. lra. }
  assert (H2 : 3 * IZR (k - 1) < 8).
  { apply Rmult_lt_compat_r with (r := IZR (k - 1)) in Hbest; [|lra]. unfold Rdiv in Hbest. rewrite (Rmult_assoc 2), Rinv_l in Hbest by lra. lra. }
  assert (k = 3%Z).
  { assert (IZR 2 < IZR k) by lra. assert (IZR (k - 1) < IZR 3) by lra. apply lt_IZR in H, H0. lia. }
  subst k. reflexivity.
Qed.
(** non-vacuity of the binary64 theorems: dt = 1.0, target = 49.0 (bit patterns) satisfy the range hypotheses; the
    kernel decimates by m = 49 and returns 49.00000000000001 > target (one ulp above: the strict bound is false in
    binary64, the slack 2^-50 is needed) *)
Example C14_b64_nonvacuous :
  let dt := b64_bits 4607182418800017408 in let tg := b64_bits 4632092954238910464 in
  ((1 # 2 ^ 1000 <= fQ dt <= inject_Z (2 ^ 1000))%Q /\ (1 # 2 ^ 1000 <= fQ tg <= inject_Z (2 ^ 1000))%Q /\
   (1 # 2 ^ 1000 <= fQ dt / fQ tg <= inject_Z (2 ^ 1000))%Q) /\
  fst (factor_b64 dt tg) = FDec 49 /\ bits_b64 (newdt_b64 dt tg) = 4632092954238910465%Z /\
  (fQ tg < fQ (newdt_b64 dt tg))%Q.
Proof.
  cbv zeta. repeat split; try (apply Qle_bool_iff; vm_compute; reflexivity); vm_compute; reflexivity.
Qed.
(** the executable instance (T := Q) on a small input: refinement by 2 with the clamped tail, and decimation by 2 *)
Example C14_run_Q :
  interp_approx (T:=Q) false [1; 3; 2]%Q 2%Q 1%Q = ([1; 2; 3; 5 # 2; 2; 2]%Q, 1%Q) /\
  interp_approx (T:=Q) true [1; 3; 2; 7; 5]%Q 1%Q 2%Q = ([1; 2]%Q, 2%Q).
Proof. split; vm_compute; reflexivity. Qed.
