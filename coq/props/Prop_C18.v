(** C18 — Two-component rotation and cluster alignment do what they say (statements; proofs in P_C18).
    Models: model/M_multiple.v. All statements over R.
    [combine_at_angle ns we d] = combine (cos (d PI/180)) (sin (d PI/180)) ns we, [compute_rotated measure off points ns we] the
    scan with an arbitrary [measure : list R -> R] (attribute, callable or final Arias value: any function of the combination);
    [time_match_vals steps master sigs] / [time_match] the cluster lag matching (values / values with ndarray tag and returned lag),
    [same_start master si ei sigs] the alignment on the index window given by [time_indices dt start end]. *)
From Coq Require Import ZArith Reals List Lia Lra Bool.
From EQ Require Import lib.Num lib.NpList model.M_multiple proofs.P_C18.
Import ListNotations.
Local Open Scope R_scope.

(** * Rotation *)
(** the combination at angle d is ns*cos(d) + we*sin(d), sample by sample, and has the components' length
    (guard: the components are equally sampled; compute_rotated asserts it, numpy raises otherwise) *)
Theorem C18_combination_formula : forall (ns we : list R) d i, length ns = length we -> (i < length ns)%nat ->
  length (combine_at_angle ns we d) = length ns /\
  nth i (combine_at_angle ns we d) 0 = nth i ns 0 * cos (d * PI / 180) + nth i we 0 * sin (d * PI / 180).
Proof. intros ns we d i Hl Hi. split; [now apply P_C18.combine_length|now apply P_C18.angle_formula]. Qed.
Theorem C18_angle_0 : forall (ns we : list R), length ns = length we -> combine_at_angle ns we 0 = ns.
Proof. exact P_C18.angle_0. Qed.
Theorem C18_angle_90 : forall (ns we : list R), length ns = length we -> combine_at_angle ns we 90 = we.
Proof. exact P_C18.angle_90. Qed.
Theorem C18_angle_plus_180 : forall (ns we : list R) d, combine_at_angle ns we (d + 180) = map Ropp (combine_at_angle ns we d).
Proof. exact P_C18.angle_plus_180. Qed.
(** reducing the angle modulo 360 (what the scan does) does not change the combination *)
Theorem C18_angle_mod_360 : forall (ns we : list R) d,
  0 <= mod360 d < 360 /\ mod360 d = d - 360 * IZR (nfloor (d / 360)) /\ combine_at_angle ns we (mod360 d) = combine_at_angle ns we d.
Proof. intros. destruct (P_C18.mod360_spec d). repeat split; try tauto. apply P_C18.combine_at_angle_mod360. Qed.

(** the scan returns, for each returned angle, exactly the measure of the combination at that angle *)
Theorem C18_scan_is_measure_of_combination : forall (measure : list R -> R) off points (ns we : list R),
  let r := compute_rotated measure off points ns we in
  length (fst r) = points /\ length (snd r) = points /\
  snd r = map (fun d => measure (combine_at_angle ns we d)) (fst r).
Proof.
  intros measure off points ns we r. split; [|split].
  - apply P_C18.scan_angles_length.
  - unfold r. rewrite P_C18.scan_is_measure, map_length. apply P_C18.scan_angles_length.
  - apply P_C18.scan_is_measure.
Qed.
(** the requested angles: [points] equally spaced angles from -off to 180-off (a half circle, offset respected), reduced to [0,360) *)
Theorem C18_scan_angles : forall (off : R) points i, (2 <= points)%nat -> (i < points)%nat ->
  nth i (scan_angles off points) 0 = mod360 (- off + INR i * (180 / INR (points - 1))) /\
  nth 0 (scan_angles off points) 0 = mod360 (- off) /\
  nth (points - 1) (scan_angles off points) 0 = mod360 (180 - off).
Proof.
  intros off points i Hp Hi. split; [now apply P_C18.scan_angles_nth|]. split.
  - rewrite P_C18.scan_angles_nth by lia. f_equal. cbn [INR]. lra.
  - rewrite P_C18.scan_angles_nth by lia. f_equal.
    assert (0 < INR (points - 1)) by (apply lt_0_INR; lia). field. lra.
Qed.
Theorem C18_scan_single_point : forall off : R, scan_angles off 1 = [mod360 (- off)].
Proof. exact P_C18.scan_angles_1. Qed.
(** ... hence value i is the measure of the combination at the un-reduced angle -off + i*180/(points-1) *)
Theorem C18_scan_value_at_requested_angle : forall (measure : list R -> R) off points (ns we : list R) i,
  (2 <= points)%nat -> (i < points)%nat ->
  nth i (snd (compute_rotated measure off points ns we)) 0 = measure (combine_at_angle ns we (- off + INR i * (180 / INR (points - 1)))).
Proof. exact P_C18.scan_value_nth. Qed.

(** * Lag matching *)
(** candidates = lag 0 (initial error), then +0..+(steps-1) (slave lags master), then -0..-(steps-1), with the squared
    error over the first npts-steps samples. The search returns the FIRST candidate of minimal error (strict < updates). *)
Theorem C18_find_lag_is_first_minimum : forall steps (bm om : list R),
  exists pre post, all_candidates steps bm om = pre ++ find_lag_st steps bm om :: post /\
    (forall c, In c pre -> snd (find_lag_st steps bm om) < snd c) /\
    (forall c, In c post -> snd (find_lag_st steps bm om) <= snd c).
Proof. exact P_C18.find_lag_first_min. Qed.
Theorem C18_find_lag_range : forall steps (bm om : list R),
  (Z.abs (find_lag steps bm om) < Z.of_nat steps)%Z \/ find_lag steps bm om = 0%Z.
Proof. exact P_C18.find_lag_range. Qed.

(** "finds and removes any integer lag smaller than the search window in either direction".
    Guard: all signals have the same length n (a 2-d values array) and there are at least two of them.
    Hypothesis [nondegenerate]: every other candidate lag has a strictly positive squared error (a periodic or constant
    record matches itself at several lags; then the first minimum is returned, see C18_find_lag_is_first_minimum). *)
Theorem C18_time_match_finds_delay : forall steps master n (sigs : list (list R)) i L,
  (2 <= length sigs)%nat -> (forall v, In v sigs -> length v = n) ->
  (master < length sigs)%nat -> (i < length sigs)%nat -> i <> master -> (L < steps)%nat ->
  delayed_by L (nth master sigs []) (nth i sigs []) ->
  nondegenerate steps (Z.of_nat L) (nth master sigs []) (nth i sigs []) ->
  find_lag steps (nth master sigs []) (nth i sigs []) = Z.of_nat L /\
  forall k, (k + L < n)%nat -> nth k (nth i (time_match_vals steps master sigs) []) 0 = nth k (nth master sigs []) 0.
Proof.
  intros steps master n sigs i L H2 Hn Hm Hi Hne HL Hd Hnd. split; [now apply P_C18.finds_delay|].
  now apply (P_C18.time_match_removes_delay steps master n sigs H2 Hn i L).
Qed.
Theorem C18_time_match_finds_advance : forall steps master n (sigs : list (list R)) i L,
  (2 <= length sigs)%nat -> (forall v, In v sigs -> length v = n) ->
  (master < length sigs)%nat -> (i < length sigs)%nat -> i <> master -> (L < steps)%nat ->
  advanced_by L (nth master sigs []) (nth i sigs []) ->
  nondegenerate steps (- Z.of_nat L) (nth master sigs []) (nth i sigs []) ->
  find_lag steps (nth master sigs []) (nth i sigs []) = (- Z.of_nat L)%Z /\
  forall k, (k + L < n)%nat -> nth (k + L) (nth i (time_match_vals steps master sigs) []) 0 = nth (k + L) (nth master sigs []) 0.
Proof.
  intros steps master n sigs i L H2 Hn Hm Hi Hne HL Hd Hnd. split; [now apply P_C18.finds_advance|].
  now apply (P_C18.time_match_removes_advance steps master n sigs H2 Hn i L).
Qed.
(** without the non-degeneracy hypothesis: whenever the slave is the master shifted by some L < steps (either direction), the
    lag that is found has zero residual, so after its removal slave and master coincide on a window of npts-steps samples
    (from sample 0 when the found lag is >= 0, from sample |lag| when it is negative) *)
Theorem C18_time_match_removes_lag_on_window : forall steps master n (sigs : list (list R)) i L,
  (2 <= length sigs)%nat -> (forall v, In v sigs -> length v = n) ->
  (master < length sigs)%nat -> (i < length sigs)%nat -> i <> master -> (L < steps)%nat ->
  delayed_by L (nth master sigs []) (nth i sigs []) \/ advanced_by L (nth master sigs []) (nth i sigs []) ->
  let l := find_lag steps (nth master sigs []) (nth i sigs []) in
  let out := nth i (time_match_vals steps master sigs) [] in
  snd (find_lag_st steps (nth master sigs []) (nth i sigs [])) = 0 /\
  forall k, (k < neg_stop n steps)%nat ->
    ((0 <= l)%Z -> nth k out 0 = nth k (nth master sigs []) 0) /\
    ((l < 0)%Z -> nth (k + Z.abs_nat l) out 0 = nth (k + Z.abs_nat l) (nth master sigs []) 0).
Proof.
  intros steps master n sigs i L H2 Hn Hm Hi Hne HL Hp l out.
  assert (Hz := P_C18.residual_zero steps L _ _ HL Hp). split; [exact Hz|].
  unfold out. rewrite (P_C18.time_match_slave steps master n sigs H2 Hn) by auto.
  apply (P_C18.window_coincides steps n); auto; apply Hn, nth_In; auto.
Qed.
(** an already matched pair is left alone (no non-degeneracy needed) *)
Theorem C18_time_match_zero_lag : forall steps (bm om : list R), delayed_by 0 bm om -> find_lag steps bm om = 0%Z.
Proof. exact P_C18.finds_zero. Qed.
(** whatever the data: number of signals and every length unchanged, master untouched, every stored value an array,
    and each non-master is its own samples moved by the found lag and padded with its first / last value *)
Theorem C18_time_match_shape : forall steps master n (sigs : list (list R)),
  (2 <= length sigs)%nat -> (forall v, In v sigs -> length v = n) -> (master < length sigs)%nat ->
  length (time_match_vals steps master sigs) = length sigs /\
  (forall i, (i < length sigs)%nat -> length (nth i (time_match_vals steps master sigs) []) = n) /\
  nth master (time_match_vals steps master sigs) [] = nth master sigs [] /\
  (forall t, In t (fst (time_match steps master sigs)) -> snd t = true) /\
  (forall i, (i < length sigs)%nat -> i <> master ->
     nth i (time_match_vals steps master sigs) [] =
     apply_lag (find_lag steps (nth master sigs []) (nth i sigs [])) (nth i sigs [])).
Proof.
  intros steps master n sigs H2 Hn Hm. split; [apply P_C18.time_match_vals_length|]. split.
  { intros i Hi. now apply (P_C18.time_match_lengths steps master n sigs H2 Hn). }
  split; [now apply P_C18.time_match_master|]. split; [apply P_C18.time_match_tags|].
  intros i Hi Hne. now apply (P_C18.time_match_slave steps master n sigs H2 Hn).
Qed.
Theorem C18_apply_lag_moves_samples : forall (L : nat) (om : list R) k, (k + L < length om)%nat ->
  nth k (apply_lag (Z.of_nat L) om) 0 = nth (k + L) om 0 /\ nth (k + L) (apply_lag (- Z.of_nat L) om) 0 = nth k om 0.
Proof. intros. split; [now apply P_C18.apply_lag_pos_nth|now apply P_C18.apply_lag_neg_nth]. Qed.

(** * Same-start alignment *)
(** for any master index and any number of signals: master unchanged, lengths unchanged, every non-master is shifted by a
    constant, and its section average afterwards equals the master's.
    Guard: the section of the signal is non-empty (np.mean of an empty slice is nan) *)
Theorem C18_same_start_aligns : forall master si ei (sigs : list (list R)), (master < length sigs)%nat ->
  let out := same_start master si ei sigs in
  length out = length sigs /\
  nth master out [] = nth master sigs [] /\
  (forall i, (i < length sigs)%nat -> length (nth i out []) = length (nth i sigs [])) /\
  (forall i, (i < length sigs)%nat -> i <> master -> exists d, nth i out [] = map (fun x => x - d) (nth i sigs [])) /\
  (forall i, (i < length sigs)%nat -> section si ei (nth i sigs []) <> [] ->
     section_average si ei (nth i out []) = section_average si ei (nth master sigs [])).
Proof.
  intros master si ei sigs Hm out. split; [apply P_C18.same_start_length|]. split; [now apply P_C18.same_start_master|].
  split; [intros; now apply P_C18.same_start_sig_length|]. split.
  - intros i Hi Hne. unfold out. rewrite P_C18.same_start_nth by auto. apply Nat.eqb_neq in Hne. rewrite Hne. eexists. reflexivity.
  - intros i Hi Hs. now apply P_C18.same_start_aligns.
Qed.
(** the window: start/end times -> indices int(start/dt), int(end/dt)+1 (end = -1 is kept as index -1), sliced as Python does *)
Theorem C18_same_start_window : forall (dt start stop : R) master (sigs : list (list R)),
  same_start_time master dt start stop sigs = same_start master (fst (time_indices dt start stop)) (snd (time_indices dt start stop)) sigs /\
  (0 <= start / dt -> 0 <= stop / dt -> stop <> -1 ->
     time_indices dt start stop = (nfloor (start / dt), Z.succ (nfloor (stop / dt)))) /\
  snd (time_indices dt start (-1)) = (-1)%Z.
Proof.
  intros. split; [unfold same_start_time; now destruct (time_indices dt start stop)|].
  split; [apply P_C18.time_indices_spec|apply P_C18.time_indices_end_m1].
Qed.
Theorem C18_section_is_slice : forall (a b : nat) (l : list R) k, (a <= b <= length l)%nat -> (k < b - a)%nat ->
  length (section (Z.of_nat a) (Z.of_nat b) l) = (b - a)%nat /\ nth k (section (Z.of_nat a) (Z.of_nat b) l) 0 = nth (a + k) l 0.
Proof. exact P_C18.section_nth. Qed.

(** * the hypotheses are satisfiable by non-trivial inputs *)
Example C18_nonvacuous_rotation : let ns := [1; 2; -3] in let we := [0; 1; 4] in
  length ns = length we /\ combine_at_angle ns we 90 = we /\ combine_at_angle ns we (0 + 180) = [-1; -2; - -3].
Proof.
  cbv zeta. split; [reflexivity|]. split; [now apply P_C18.angle_90|].
  rewrite P_C18.angle_plus_180, P_C18.angle_0 by reflexivity. reflexivity.
Qed.
(** a 3-signal cluster, master = 1; signal 0 is the master delayed by 1 (padded with 7), signal 2 the master advanced by 1 *)
Example C18_nonvacuous_time_match :
  let bm := [0; 1; 3; -2; 5; 4] in let s0 := [7; 0; 1; 3; -2; 5] in let s2 := [1; 3; -2; 5; 4; 9] in
  let sigs := [s0; bm; s2] in
  delayed_by 1 bm s0 /\ nondegenerate 2 1 bm s0 /\ advanced_by 1 bm s2 /\ nondegenerate 2 (-1) bm s2 /\
  time_match_vals 2 1 sigs = [[0; 1; 3; -2; 5; 5]; bm; [1; 1; 3; -2; 5; 4]].
Proof.
  cbv zeta.
  assert (D : delayed_by 1 [0; 1; 3; -2; 5; 4] [7; 0; 1; 3; -2; 5]).
  { split; [reflexivity|]. intros k Hk. cbn in Hk. do 5 (destruct k as [|k]; [reflexivity|]). lia. }
  assert (A : advanced_by 1 [0; 1; 3; -2; 5; 4] [1; 3; -2; 5; 4; 9]).
  { split; [reflexivity|]. intros k Hk. cbn in Hk. do 5 (destruct k as [|k]; [reflexivity|]). lia. }
  assert (N1 : nondegenerate 2 1 [0; 1; 3; -2; 5; 4] [7; 0; 1; 3; -2; 5]).
  { intros c Hc Hne. cbn in Hc. numR.
    destruct Hc as [<-|[<-|[<-|[<-|[<-|[]]]]]]; cbn [fst snd] in *; try lra; try lia. }
  assert (N2 : nondegenerate 2 (-1) [0; 1; 3; -2; 5; 4] [1; 3; -2; 5; 4; 9]).
  { intros c Hc Hne. cbn in Hc. numR.
    destruct Hc as [<-|[<-|[<-|[<-|[<-|[]]]]]]; cbn [fst snd] in *; try lra; try lia. }
  repeat split; auto; try apply D; try apply A.
  set (sigs := [[7; 0; 1; 3; -2; 5]; [0; 1; 3; -2; 5; 4]; [1; 3; -2; 5; 4; 9]]).
  assert (Hn : forall v, In v sigs -> length v = 6%nat) by (intros v [<-|[<-|[<-|[]]]]; reflexivity).
  assert (H2 : (2 <= length sigs)%nat) by (cbn; lia).
  apply (nth_ext _ _ [] []); [rewrite P_C18.time_match_vals_length; reflexivity|].
  rewrite P_C18.time_match_vals_length. intros i Hi. cbn in Hi.
  destruct i as [|[|[|i]]]; try lia.
  - rewrite (P_C18.time_match_slave 2 1 6 sigs H2 Hn) by (cbn; lia). cbn [nth sigs].
    rewrite (P_C18.finds_delay 2 1) by (auto; lia). reflexivity.
  - rewrite (P_C18.time_match_master 2 1 sigs) by (cbn; lia). reflexivity.
  - rewrite (P_C18.time_match_slave 2 1 6 sigs H2 Hn) by (cbn; lia). cbn [nth sigs].
    rewrite (P_C18.finds_advance 2 1) by (auto; lia). reflexivity.
Qed.
(** three signals, master = 2, window [1:3) *)
Example C18_nonvacuous_same_start :
  let sigs := [[1; 2; 4; 0]; [5; 5; 7; 1]; [0; 10; 20; 3]] in
  section 1 3 (nth 0 sigs []) <> [] /\ section_average 1 3 (nth 2 sigs []) = 15 /\
  nth 0 (same_start 2 1 3 sigs) [] = [13; 14; 16; 12].
Proof.
  cbv zeta.
  assert (E0 : section 1 3 [1; 2; 4; 0] = [2; 4]) by reflexivity.
  assert (E2 : section 1 3 [0; 10; 20; 3] = [10; 20]) by reflexivity.
  cbn [nth]. split; [rewrite E0; discriminate|]. split.
  - unfold section_average. rewrite E2. unfold mean. cbn. numR. lra.
  - rewrite P_C18.same_start_nth by (cbn; lia). cbn [Nat.eqb nth]. unfold section_average. rewrite E0, E2.
    unfold mean. cbn. numR. repeat f_equal; lra.
Qed.
