(** C18 — Two-component rotation and cluster alignment do what they say (statements; proofs in P_C18).
    Models: model/M_multiple.v. All statements over R.
    [combine_at_angle ns we d] = combine (cos (d PI/180)) (sin (d PI/180)) ns we, [compute_rotated measure off points ns we] the
    scan with an arbitrary [measure : list R -> R] (attribute, callable or final Arias value: any function of the combination);
    [time_match_vals steps master sigs] / [time_match] the cluster lag matching (values / values with ndarray tag and returned lag),
    [same_start master si ei sigs] the alignment on the index window given by [time_indices dt start end]. *)
From Coq Require Import ZArith Reals List Lia Lra Bool.
From EQ Require Import lib.Num lib.NpList model.M_multiple proofs.P_C18.
Import ListNotations.
Local Open Scope R_scope.

(** * Rotation *)
(** the combination at angle d is ns*cos(d) + we*sin(d), sample by sample, and has the components' length
    (guard: the components are equally sampled; compute_rotated asserts it, numpy raises otherwise) *)
Theorem C18_combination_formula : forall (ns we : list R) d i, length ns = length we -> (i < length ns)%nat ->
  length (combine_at_angle ns we d) = length ns /\
  nth i (combine_at_angle ns we d) 0 = nth i ns 0 * cos (d * PI / 180) + nth i we 0 * sin (d * PI / 180).
Proof. intros ns we d i Hl Hi. split; [now apply P_C18.combine_length|now apply P_C18.angle_formula]. Qed.
Theorem C18_angle_0 : forall (ns we : list R), length ns = length we -> combine_at_angle ns we 0 = ns.
Proof. exact P_C18.angle_0. Qed.
Theorem C18_angle_90 : forall (ns we : list R), length ns = length we -> combine_at_angle ns we 90 = we.
Proof. exact P_C18.angle_90. Qed.
Theorem C18_angle_plus_180 : forall (ns we : list R) d, combine_at_angle ns we (d + 180) = map Ropp (combine_at_angle ns we d).
Proof. exact P_C18.angle_plus_180. Qed.
(** reducing the angle modulo 360 (what the scan does) does not change the combination *)
Theorem C18_angle_mod_360 : forall (ns we : list R) d,
  0 <= mod360 d < 360 /\ mod360 d = d - 360 * IZR (nfloor (d / 360)) /\ combine_at_angle ns we (mod360 d) = combine_at_angle ns we d.
Proof. intros. destruct (P_C18.mod360_spec d). repeat split; try tauto. apply P_C18.combine_at_angle_mod360. Qed.

(** the scan returns, for each returned angle, exactly the measure of the combination at that angle *)
Theorem C18_scan_is_measure_of_combination : forall (measure : list R -> R) off points (ns we : list R),
  let r := compute_rotated measure off points ns we in
  length (fst r) = points /\ length (snd r) = points /\
  snd r = map (fun d => measure (combine_at_angle ns we d)) (fst r).
Proof.
  intros measure off points ns we r. split; [|split].
  - apply P_C18.scan_angles_length.
  - unfold r. rewrite P_C18.scan_is_measure, map_length. apply P_C18.scan_angles_length.
  - apply P_C18.scan_is_measure.
Qed.
(** the requested angles: [points] equally spaced angles from -off to 180-off (a half circle, offset respected), reduced to [0,360) *)
Theorem C18_scan_angles : forall (off : R) points i, (2 <= points)%nat -> (i < points)%nat ->
  nth i (scan_angles off points) 0 = mod360 (- off + INR i * (180 / INR (points - 1))) /\
  nth 0 (scan_angles off points) 0 = mod360 (- off) /\
  nth (points - 1) (scan_angles off points) 0 = mod360 (180 - off).
Proof.
  intros off points i Hp Hi. split; [now apply P_C18.scan_angles_nth|]. split.
  - rewrite P_C18.scan_angles_nth by lia. f_equal. cbn [INR]. lra.
  - rewrite P_C18.scan_angles_nth by lia. f_equal.
    assert (0 < INR (points - 1)) by (apply lt_0_INR; lia). field. lra.
Qed.
Theorem C18_scan_single_point : forall off : R, scan_angles off 1 = [mod360 (- off)].
Proof. exact P_C18.scan_angles_1. Qed.
(** ... hence value i is the measure of the combination at the un-reduced angle -off + i*180/(points-1) *)
Theorem C18_scan_value_at_requested_angle : forall (measure : list R -> R) off points (ns we : list R) i,
  (2 <= points)%nat -> (i < points)%nat ->
  nth i (snd (compute_rotated measure off points ns we)) 0 = measure (combine_at_angle ns we (- off + INR i * (180 / INR (points - 1)))).
Proof. exact P_C18.scan_value_nth. Qed.

(** * Lag matching *)
(** candidates = lag 0 (initial error), then +0..+(steps-1) (slave lags master), then -0..-(steps-1), with the squared
    error over the first npts-steps samples. The search returns the FIRST candidate of minimal error (strict < updates). *)
Theorem C18_find_lag_is_first_minimum : forall steps (bm om : list R),
  exists pre post, all_candidates steps bm om = pre ++ find_lag_st steps bm om :: post /\
    (forall c, In c pre -> snd (find_lag_st steps bm om) < snd c) /\
    (forall c, In c post -> snd (find_lag_st steps bm om) <= snd c).
Proof. exact P_C18.find_lag_first_min. Qed.
Theorem C18_find_lag_range : forall steps (bm om : list R),
  (Z.abs (find_lag steps bm om) < Z.of_nat steps)%Z \/ find_lag steps bm om = 0%Z.
Proof. exact P_C18.find_lag_range. Qed.

(** "finds and removes any integer lag smaller than the search window in either direction".
    Guard: all signals have the same length n (a 2-d values array) and there are at least two of them.
    Hypothesis [nondegenerate]: every other candidate lag has a strictly positive squared error (a periodic or constant
    record matches itself at several lags; then the first minimum is returned, see C18_find_lag_is_first_minimum). *)
Theorem C18_time_match_finds_delay : forall steps master n (sigs : list (list R)) i L,
  (2 <= length sigs)%nat -> (forall v, In v sigs -> length v = n) ->
  (master < length sigs)%nat -> (i < length sigs)%nat -> i <> master -> (L < steps)%nat ->
  delayed_by L (nth master sigs []) (nth i sigs []) ->
  nondegenerate steps (Z.of_nat L) (nth master sigs []) (nth i sigs []) ->
  find_lag steps (nth master sigs []) (nth i sigs []) = Z.of_nat L /\
  forall k, (k + L < n)%nat -> nth k (nth i (time_match_vals steps master sigs) []) 0 = nth k (nth master sigs []) 0.
Proof.
  intros steps master n sigs i L H2 Hn Hm Hi Hne HL Hd Hnd. split; [now apply P_C18.finds_delay|].
  now apply (P_C18.time_match_removes_delay steps master n sigs H2 Hn i L).
Qed.
Theorem C18_time_match_finds_advance : forall steps master n (sigs : list (list R)) i L,
  (2 <= length sigs)%nat -> (forall v, In v sigs -> length v = n) ->
  (master < length sigs)%nat -> (i < length sigs)%nat -> i <> master -> (L < steps)%nat ->
  advanced_by L (nth master sigs []) (nth i sigs []) ->
  nondegenerate steps (- Z.of_nat L) (nth master sigs []) (nth i sigs []) ->
  find_lag steps (nth master sigs []) (nth i sigs []) = (- Z.of_nat L)%Z /\
  forall k, (k + L < n)%nat -> nth (k + L) (nth i (time_match_vals steps master sigs) []) 0 = nth (k + L) (nth master sigs []) 0.
Proof.
  intros steps master n sigs i L H2 Hn Hm Hi Hne HL Hd Hnd. split; [now apply P_C18.finds_advance|].
  now apply (P_C18.time_match_removes_advance steps master n sigs H2 Hn i L).
Qed.
(** without the non-degeneracy hypothesis: whenever the slave is the master shifted by some L < steps (either direction), the
    lag that is found has zero residual, so after its removal slave and master coincide on a window of npts-steps samples
    (from sample 0 when the found lag is >= 0, from sample |lag| when it is negative) *)
Theorem C18_time_match_removes_lag_on_window : forall steps master n (sigs : list (list R)) i L,
  (2 <= length sigs)%nat -> (forall v, In v sigs -> length v = n) ->
  (master < length sigs)%nat -> (i < length sigs)%nat -> i <> master -> (L < steps)%nat ->
  delayed_by L (nth master sigs []) (nth i sigs []) \/ advanced_by L (nth master sigs []) (nth i sigs []) ->
  let l := find_lag steps (nth master sigs []) (nth i sigs []) in
  let out := nth i (time_match_vals steps master sigs) [] in
  snd (find_lag_st steps (nth master sigs []) (nth i sigs [])) = 0 /\
  forall k, (k < neg_stop n steps)%nat ->
    ((0 <= l)%Z -> nth k out 0 = nth k (nth master sigs []) 0) /\
    ((l < 0)%Z -> nth (k + Z.abs_nat l) out 0 = nth (k + Z.abs_nat l) (nth master sigs []) 0).
Proof.
  intros steps master n sigs i L H2 Hn Hm Hi Hne HL Hp l out.
  assert (Hz := P_C18.residual_zero steps L _ _ HL Hp). split; [exact Hz|].
  unfold out. rewrite (P_C18.time_match_slave steps master n sigs H2 Hn) by auto.
  apply (P_C18.window_coincides steps n); auto; apply Hn, nth_In; auto.
Qed.
(** an already matched pair is left alone (no non-degeneracy needed) *)
Theorem C18_time_match_zero_lag : forall steps (bm om : list R), delayed_by 0 bm om -> find_lag steps bm om = 0%Z.
Proof. exact P_C18.finds_zero. Qed.
(** whatever the data: number of signals and every length unchanged, master untouched, every stored value an array,
    and each non-master is its own samples moved by the found lag and padded with its first / last value *)
Theorem C18_time_match_shape : forall steps master n (sigs : list (list R)),
  (2 <= length sigs)%nat -> (forall v, In v sigs -> length v = n) -> (master < length sigs)%nat ->
  length (time_match_vals steps master sigs) = length sigs /\
  (forall i, (i < length sigs)%nat -> length (nth i (time_match_vals steps master sigs) []) = n) /\
  nth master (time_match_vals steps master sigs) [] = nth master sigs [] /\
  (forall t, In t (fst (time_match steps master sigs)) -> snd t = true) /\
  (forall i, (i < length sigs)%nat -> i <> master ->
     nth i (time_match_vals steps master sigs) [] =
     apply_lag (find_lag steps (nth master sigs []) (nth i sigs [])) (nth i sigs [])).
Proof.
  intros steps master n sigs H2 Hn Hm. split; [apply P_C18.time_match_vals_length|]. split.
  { intros i Hi. now apply (P_C18.time_match_lengths steps master n sigs H2 Hn). }
  split; [now apply P_C18.time_match_master|]. split; [apply P_C18.time_match_tags|].
  intros i Hi Hne. now apply (P_C18.time_match_slave steps master n sigs H2 Hn).
Qed.
Theorem C18_apply_lag_moves_samples : forall (L : nat) (om : list R) k, (k + L < length om)%nat ->
  nth k (apply_lag (Z.of_nat L) om) 0 = nth (k + L) om 0 /\ nth (k + L) (apply_lag (- Z.of_nat L) om) 0 = nth k om 0.
Proof. intros. split; [now apply P_C18.apply_lag_pos_nth|now apply P_C18.apply_lag_neg_nth]. Qed.

(** * Same-start alignment *)
(** for any master index and any number of signals: master unchanged, lengths unchanged, every non-master is shifted by a
    constant, and its section average afterwards equals the master's.
    Guard: the section of the signal is non-empty (np.mean of an empty slice is nan) *)
Theorem C18_same_start_aligns : forall master si ei (sigs : list (list R)), (master < length sigs)%nat ->
  let out := same_start master si ei sigs in
  length out = length sigs /\
  nth master out [] = nth master sigs [] /\
  (forall i, (i < length sigs)%nat -> length (nth i out []) = length (nth i sigs [])) /\
  (forall i, (i < length sigs)%nat -> i <> master -> exists d, nth i out [] = map (fun x => x - d) (nth i sigs [])) /\
  (forall i, (i < length sigs)%nat -> section si ei (nth i sigs []) <> [] ->
     section_average si ei (nth i out []) = section_average si ei (nth master sigs [])).
Proof.
  intros master si ei sigs Hm out. split; [apply P_C18.same_start_length|]. split; [now apply P_C18.same_start_master|].
  split; [intros; now apply P_C18.same_start_sig_length|]. split.
  - intros i Hi Hne. unfold out. rewrite P_C18.same_start_nth by auto. apply Nat.eqb_neq in Hne. rewrite Hne. eexists. reflexivity.
  - intros i Hi Hs. now apply P_C18.same_start_aligns.
Qed.
(** the window: start/end times -> indices int(start/dt), int(end/dt)+1 (end = -1 is kept as index -1), sliced as Python does *)
Theorem C18_same_start_window : forall (dt start stop : R) master (sigs : list (list R)),
  same_start_time master dt start stop sigs = same_start master (fst (time_indices dt start stop)) (snd (time_indices dt start stop)) sigs /\
  (0 <= start / dt -> 0 <= stop / dt -> stop <> -1 ->
     time_indices dt start stop = (nfloor (start / dt), Z.succ (nfloor (stop / dt)))) /\
  snd (time_indices dt start (-1)) = (-1)%Z.
Proof.
  intros. split; [unfold same_start_time; now destruct (time_indices dt start stop)|].
  split; [apply P_C18.time_indices_spec|apply P_C18.time_indices_end_m1].
Qed.
Theorem C18_section_is_slice : forall (a b : nat) (l : list R) k, (a <= b <= length l)%nat -> (k < b - a)%nat ->
  length (section (Z.of_nat a) (Z.of_nat b) l) = (b - a)%nat /\ nth k (section (Z.of_nat a) (Z.of_nat b) l) 0 = nth (a + k) l 0.
Proof. exact P_C18.section_nth. Qed.

(** * the hypotheses are satisfiable by non-trivial inputs *)
Example C18_nonvacuous_rotation : let ns := [1; 2; -3] in let we := [0; 1; 4] in
  length ns = length we /\ combine_at_angle ns we 90 = we /\ combine_at_angle ns we (0 + 180) = [-1; -2; - -3].
Proof.
  cbv zeta. split; [reflexivity|]. split; [now apply P_C18.angle_90|].
  rewrite P_C18.angle_plus_180, P_C18.angle_0 by reflexivity. reflexivity.
Qed.
(** a 3-signal cluster, master = 1; signal 0 is the master delayed by 1 (padded with 7), signal 2 the master advanced by 1 *)
Example C18_nonvacuous_time_match :
  let bm := [0; 1; 3; -2; 5; 4] in let s0 := [7; 0; 1; 3; -2; 5] in let s2 := [1; 3; -2; 5; 4; 9] in
  let sigs := [s0; bm; s2] in
  delayed_by 1 bm s0 /\ nondegenerate 2 1 bm s0 /\ advanced_by 1 bm s2 /\ nondegenerate 2 (-1) bm s2 /\
  time_match_vals 2 1 sigs = [[0; 1; 3; -2; 5; 5]; bm; [1; 1; 3; -2; 5; 4]].
Proof.
  cbv zeta.
  assert (D : delayed_by 1 [0; 1; 3; -2; 5; 4] [7; 0; 1; 3; -2; 5]).
  { split; [reflexivity|]. intros k Hk. cbn in Hk. do 5 (destruct k as [|k]; [reflexivity|]). lia. }
  assert (A : advanced_by 1 [0; 1; 3; -2; 5; 4] [1; 3; -2; 5; 4; 9]).
  { split; [reflexivity|]. intros k Hk. cbn in Hk. do 5 (destruct k as [|k]; [reflexivity|]). lia. }
  assert (N1 : nondegenerate 2 1 [0; 1; 3; -2; 5; 4] [7; 0; 1; 3; -2; 5]).
  { intros c Hc Hne. cbn in Hc. numR.
    destruct Hc as [<-|[<-|[<-|[<-|[<-|[]]]]]]; cbn [fst snd] in *; try lra; try lia. }
  assert (N2 : nondegenerate 2 (-1) [0; 1; 3; -2; 5; 4] [1; 3; -2; 5; 4; 9]).
  { intros c Hc Hne. cbn in Hc. numR.
    destruct Hc as [<-|[<-|[<-|[<-|[<-|[]]]]]]; cbn [fst snd] in *; try lra; try lia. }
  repeat split; auto; try apply D; try apply A.
  set (sigs := [[7; 0; 1; 3; -2; 5]; [0; 1; 3; -2; 5; 4]; [1; 3; -2; 5; 4; 9]]).
  assert (Hn : forall v, In v sigs -> length v = 6%nat) by (intros v [<-|[<-|[<-|[]]]]; reflexivity).
  assert (H2 : (2 <= length sigs)%nat) by (cbn; lia).
  apply (nth_ext _ _ [] []); [rewrite P_C18.time_match_vals_length; reflexivity|].
  rewrite P_C18.time_match_vals_length. intros i Hi. cbn in Hi.
  destruct i as [|[|[|i]]]; try lia.
  - rewrite (P_C18.time_match_slave 2 1 6 sigs H2 Hn) by (cbn; lia). cbn [nth sigs].
    rewrite (P_C18.finds_delay 2 1) by (auto; lia). reflexivity.
  - rewrite (P_C18.time_match_master 2 1 sigs) by (cbn; lia). reflexivity.
  - rewrite (P_C18.time_match_slave 2 1 6 sigs H2 Hn) by (cbn; lia). cbn [nth sigs].
    rewrite (P_C18.finds_advance 2 1) by (auto; lia). reflexivity.
Qed.
(** three signals, master = 2, window [1:3) *)
Example C18_nonvacuous_same_start :
  let sigs := [[1; 2; 4; 0]; [5; 5; 7; 1]; [0; 10; 20; 3]] in
  section 1 3 (nth 0 sigs []) <> [] /\ section_average 1 3 (nth 2 sigs []) = 15 /\
  nth 0 (same_start 2 1 3 sigs) [] = [13; 14; 16; 12].
Proof.
  cbv zeta.
  assert (E0 : section 1 3 [1; 2; 4; 0] = [2; 4]) by reflexivity.
  assert (E2 : section 1 3 [0; 10; 20; 3] = [10; 20]) by reflexivity.
  cbn [nth]. split; [rewrite E0; discriminate|]. split.
  - unfold section_average. rewrite E2. unfold mean. cbn. numR. lra.
  - rewrite P_C18.same_start_nth by (cbn; lia). cbn [Nat.eqb nth]. unfold section_average. rewrite E0, E2.
    unfold mean. cbn. numR. repeat f_equal; lra.
Qed.

(** * Source-text tie: the model's pieces are what eqsig/multiple.py, eqsig/fns/time_shift.py, eqsig/fns/average.py say
    gen/Gen_c18.v is re-translated from the sources on every run by translator/py2coq_c18.py (fail closed; a renamed temporary
    gives the same text, a changed operand / index / sign / literal / comparison gives another text and breaks one of the
    theorems below).  Readings of the Python / NumPy primitives: lib/PySeq.v.  NOT translated (parameters of the generated
    definitions): np.cos, np.sin, the constant pi of np.radians, eqsig.im.calc_arias_intensity (tied by C09), getattr, the
    user's callable.  The outer `for s in range(len(self.signals))` loop of the two Cluster methods is read by the MODEL
    (mapi over the signals; the returned variable keeps the lag of the last non-master signal): the translator checks the
    shape of its header and of the `return`, and generates the pass; [C18_time_match_is_source] / [C18_same_start_is_source]
    say that every pass of the model's loop is the generated pass.  Still decided only by the correspondence check: that
    reading of the outer loop, Signal.reset_values / the constructor (values stored as arrays, npts = len(values), one dt for
    the cluster), the `set_step is not False` and `index is not False` paths (not taken by these entry points), floating-point
    rounding. *)
From Coq Require Import String List.
From EQ Require Import lib.PySeq gen.Gen_c18 proofs.P_gen_c18.

(** combine_at_angle(acc_sig_ns, acc_sig_we, angle): off_rad = np.radians(angle); values * cos(off_rad) + values * sin(off_rad);
    AccSignal(combo, acc_sig_ns.dt).  Generic in the number type and in the kernel; at R with cos, sin, PI it is the model. *)
Theorem C18_combine_at_angle_is_source_generic : forall (T : Type) (ops : NumOps T) (cos_ sin_ : T -> T) (pi_ : T)
  (ns : list T) (dt_ns : T) (we : list T) (dt_we angle : T),
  gen_combine_at_angle cos_ sin_ pi_ ns dt_ns we dt_we angle
  = (M_multiple.combine (cos_ (np_radians pi_ angle)) (sin_ (np_radians pi_ angle)) ns we, dt_ns).
Proof. exact (@P_gen_c18.gen_combine_eq). Qed.
Theorem C18_combine_at_angle_is_source : forall (ns we : list R) (dt_ns dt_we d : R),
  gen_combine_at_angle cos sin PI ns dt_ns we dt_we d = (combine_at_angle ns we d, dt_ns).
Proof. exact P_gen_c18.gen_combine_R. Qed.

(** compute_rotated: degrees = np.mod(np.linspace(0 - angle_off_ns, 180. - angle_off_ns, points), 360) *)
Theorem C18_scan_angles_is_source : forall (T : Type) (ops : NumOps T) (off : T) (points : nat),
  gen_rotated_degrees off (Z.of_nat points) = scan_angles off points.
Proof. exact (@P_gen_c18.gen_degrees_eq). Qed.
(** the asserts: same dt, same npts (the isinstance asserts are the types of the inputs) *)
Theorem C18_rotated_guard_is_source : forall (T : Type) (ops : NumOps T) (ns : list T) (dt_ns : T) (we : list T) (dt_we : T),
  gen_rotated_guard ns dt_ns we dt_we = true <-> neqb dt_ns dt_we = true /\ length ns = length we.
Proof. exact (@P_gen_c18.gen_guard_true). Qed.
(** the loop `for i in range(len(degrees))`: new_sig = combine_at_angle(ns, we, degrees[i]); one append per pass.  Whatever
    selects the measure: if every pass appends m(combination), the call returns the model's scan (degrees, values) *)
Theorem C18_compute_rotated_is_source : forall (arias_ : list R * R -> list R) (getattr_ : list R * R -> string -> R)
  (parameter : option string) (func : option (list R * R -> R + list R)) (m : list R -> R)
  (ns we : list R) (dt_ns dt_we off : R) (points : nat),
  gen_rotated_guard ns dt_ns we dt_we = true ->
  (forall d, gen_rotated_item cos sin PI arias_ getattr_ parameter func ns dt_ns we dt_we d = Some (m (combine_at_angle ns we d))) ->
  gen_compute_rotated cos sin PI arias_ getattr_ parameter func ns dt_ns we dt_we off (Z.of_nat points)
  = Some (compute_rotated m off points ns we).
Proof. exact P_gen_c18.gen_rotated_scan_R. Qed.
(** the three ways the measure is selected, in the code's order (generic in the number type and the kernel):
    parameter == "arias_intensity" -> calc_arias_intensity(new_sig)[-1]  (guard: not the empty array, else IndexError) *)
Theorem C18_compute_rotated_arias_is_source : forall (T : Type) (ops : NumOps T) (cos_ sin_ : T -> T) (pi_ : T)
  (arias_ : list T * T -> list T) (getattr_ : list T * T -> string -> T) (func : option (list T * T -> T + list T))
  (ns : list T) (dt_ns : T) (we : list T) (dt_we off : T) (points : nat),
  gen_rotated_guard ns dt_ns we dt_we = true -> (forall v, arias_ (v, dt_ns) <> []) ->
  gen_compute_rotated cos_ sin_ pi_ arias_ getattr_ (Some "arias_intensity"%string) func ns dt_ns we dt_we off (Z.of_nat points)
  = Some (rotated_scan (fun d => (cos_ (np_radians pi_ d), sin_ (np_radians pi_ d))) (fun v => last (arias_ (v, dt_ns)) n0) off points ns we).
Proof. exact (@P_gen_c18.gen_rotated_arias). Qed.
(** any other parameter string (func must be None) -> getattr(new_sig, parameter) *)
Theorem C18_compute_rotated_attribute_is_source : forall (T : Type) (ops : NumOps T) (cos_ sin_ : T -> T) (pi_ : T)
  (arias_ : list T * T -> list T) (getattr_ : list T * T -> string -> T) (p : string)
  (ns : list T) (dt_ns : T) (we : list T) (dt_we off : T) (points : nat),
  gen_rotated_guard ns dt_ns we dt_we = true -> p <> "arias_intensity"%string ->
  gen_compute_rotated cos_ sin_ pi_ arias_ getattr_ (Some p) None ns dt_ns we dt_we off (Z.of_nat points)
  = Some (rotated_scan (fun d => (cos_ (np_radians pi_ d), sin_ (np_radians pi_ d))) (fun v => getattr_ (v, dt_ns) p) off points ns we).
Proof. exact (@P_gen_c18.gen_rotated_attr). Qed.
(** parameter None, func given -> func(new_sig), its last item when it has a length (guard: not an empty array) *)
Theorem C18_compute_rotated_func_is_source : forall (T : Type) (ops : NumOps T) (cos_ sin_ : T -> T) (pi_ : T)
  (arias_ : list T * T -> list T) (getattr_ : list T * T -> string -> T) (f : list T * T -> T + list T)
  (ns : list T) (dt_ns : T) (we : list T) (dt_we off : T) (points : nat),
  gen_rotated_guard ns dt_ns we dt_we = true -> (forall v l, f (v, dt_ns) = inr l -> l <> []) ->
  gen_compute_rotated cos_ sin_ pi_ arias_ getattr_ None (Some f) ns dt_ns we dt_we off (Z.of_nat points)
  = Some (rotated_scan (fun d => (cos_ (np_radians pi_ d), sin_ (np_radians pi_ d)))
            (fun v => match f (v, dt_ns) with inl x => x | inr l => last l n0 end) off points ns we).
Proof. exact (@P_gen_c18.gen_rotated_func). Qed.
(** the ways the call raises: a failing assert; neither parameter nor func (ValueError in the first pass); a parameter other
    than "arias_intensity" together with a func (`assert func is None`) *)
Theorem C18_compute_rotated_raises_is_source : forall (T : Type) (ops : NumOps T) (cos_ sin_ : T -> T) (pi_ : T)
  (arias_ : list T * T -> list T) (getattr_ : list T * T -> string -> T) (ns : list T) (dt_ns : T) (we : list T) (dt_we off : T),
  (forall parameter func points, gen_rotated_guard ns dt_ns we dt_we = false ->
     gen_compute_rotated cos_ sin_ pi_ arias_ getattr_ parameter func ns dt_ns we dt_we off points = None) /\
  (forall points, (1 <= points)%nat ->
     gen_compute_rotated cos_ sin_ pi_ arias_ getattr_ None None ns dt_ns we dt_we off (Z.of_nat points) = None) /\
  (forall p f d, p <> "arias_intensity"%string ->
     gen_rotated_item cos_ sin_ pi_ arias_ getattr_ (Some p) (Some f) ns dt_ns we dt_we d = None).
Proof.
  intros. split; [|split].
  - intros; now apply P_gen_c18.gen_rotated_guard_fails.
  - intros; now apply P_gen_c18.gen_rotated_neither.
  - intros; now apply P_gen_c18.gen_item_attr_and_func.
Qed.

(** Cluster.time_match: length_check = min(npts of signal 0, npts of signal 1); bm = master.values[:length_check];
    om = slave.values[:length_check] *)
Theorem C18_time_match_slices_is_source : forall (T : Type) (ops : NumOps T) (master : nat) (sigs : list (list T)) (v : list T),
  gen_tm_length_check sigs = Z.of_nat (length_check sigs) /\
  gen_tm_bm master sigs = firstn (length_check sigs) (nth master sigs []) /\
  gen_tm_om sigs v = firstn (length_check sigs) v.
Proof. intros. split; [apply P_gen_c18.gen_length_check_eq|]. split; [apply P_gen_c18.gen_bm_eq|apply P_gen_c18.gen_om_eq]. Qed.
(** the search: min_diff = np.sum((bm[0:-steps] - om[0:-steps]) ** 2), min_ind = 0; for i in range(steps):
    diff = sum((om[i:-steps + i] - bm[0:-steps]) ** 2); if diff < min_diff: min_diff = diff; min_ind = i + 0; then the same with
    bm[i:-steps + i] - om[0:-steps] and min_ind = -i - 0: the model's candidates, in the model's order, with the model's strict < *)
Theorem C18_time_match_search_is_source : forall (T : Type) (ops : NumOps T) (steps : nat) (bm om : list T),
  gen_tm_search (Z.of_nat steps) bm om = find_lag_st steps bm om.
Proof. exact (@P_gen_c18.gen_search_eq). Qed.
Theorem C18_time_match_candidates_is_source : forall (T : Type) (ops : NumOps T) (steps i : nat) (bm om : list T) (st : Z * T),
  gen_tm_init (Z.of_nat steps) bm om = (0%Z, prof_init steps bm om) /\
  ((i < steps)%nat -> gen_tm_step1 (Z.of_nat steps) bm om st (Z.of_nat i) = lag_upd st (Z.of_nat i, prof_pos steps bm om i)) /\
  ((i < steps)%nat -> gen_tm_step2 (Z.of_nat steps) bm om st (Z.of_nat i) = lag_upd st ((- Z.of_nat i)%Z, prof_neg steps bm om i)).
Proof.
  intros. split; [apply P_gen_c18.gen_init_eq|]. split; intros; [now apply P_gen_c18.gen_step1_eq|now apply P_gen_c18.gen_step2_eq].
Qed.
(** the padding: min_ind < 0 -> [om[0]] * abs(min_ind) + list(om[:min_ind]); min_ind > 0 -> list(om[min_ind:]) + [om[-1]] * abs(min_ind);
    else continue.  (om[0], om[-1] are read with a default: C18_time_match_no_index_error) *)
Theorem C18_time_match_padding_is_source : forall (T : Type) (ops : NumOps T) (lag : Z) (om : list T),
  gen_tm_after lag om = if (lag =? 0)%Z then None else Some (apply_lag lag om).
Proof. exact (@P_gen_c18.gen_after_eq). Qed.
Theorem C18_time_match_no_index_error : forall (steps : nat) (bm : list R),
  find_lag steps bm [] = 0%Z /\ gen_tm_after (fst (gen_tm_search (Z.of_nat steps) bm [])) [] = None.
Proof. intros. split; [apply P_gen_c18.find_lag_empty_slave|apply P_gen_c18.gen_after_empty_slave]. Qed.
(** one pass of `for s in range(len(self.signals))` (`if s != self.master_index: .. else: continue`), and the whole call *)
Theorem C18_time_match_pass_is_source : forall (T : Type) (ops : NumOps T) (steps master : nat) (sigs : list (list T)) (s : nat) (v : list T),
  tm_one steps master sigs s v
  = let g := gen_tm_iter (Z.of_nat steps) master sigs s v in ((match fst g with Some m => m | None => v end, true), snd g).
Proof. exact (@P_gen_c18.gen_iter_eq). Qed.
Theorem C18_time_match_is_source : forall (T : Type) (ops : NumOps T) (steps master : nat) (sigs : list (list T)),
  time_match steps master sigs
  = (mapi (fun s v => (match fst (gen_tm_iter (Z.of_nat steps) master sigs s v) with Some m => m | None => v end, true)) sigs,
     last_some (mapi (fun s v => snd (gen_tm_iter (Z.of_nat steps) master sigs s v)) sigs)).
Proof. exact (@P_gen_c18.gen_time_match_eq). Qed.
Theorem C18_time_match_vals_is_source : forall (steps master : nat) (sigs : list (list R)) (i : nat), (i < length sigs)%nat ->
  nth i (time_match_vals steps master sigs) []
  = match fst (gen_tm_iter (Z.of_nat steps) master sigs i (nth i sigs [])) with Some m => m | None => nth i sigs [] end.
Proof. exact P_gen_c18.gen_time_match_vals_R. Qed.
Theorem C18_time_match_default_steps_is_source : gen_tm_default_steps = 10%Z.
Proof. exact eq_refl. Qed.

(** time_indices(npts, dt, start, end, index=False): s_index = int(start / dt); e_index = int(end / dt) + 1 unless end == -1
    (then e_index = end); `if e_index > npts: raise` *)
Theorem C18_time_indices_is_source : forall (npts : Z) (dt start stop : R),
  gen_time_indices npts dt start stop
  = if (snd (time_indices dt start stop) >? npts)%Z then None else Some (time_indices dt start stop).
Proof. exact P_gen_c18.gen_time_indices_R. Qed.
(** get_section_average(series, start, end): np.mean(series.values[s_index:e_index]) on the indices of
    time_indices(series.npts, series.dt, start, end, index) *)
Theorem C18_section_average_is_source : forall (v : list R) (dt start stop : R),
  gen_section_average v dt start stop
  = if indices_ok (snd (time_indices dt start stop)) v
    then Some (section_average (fst (time_indices dt start stop)) (snd (time_indices dt start stop)) v) else None.
Proof. exact P_gen_c18.gen_section_average_R. Qed.
(** Cluster.same_start: master_average first, then for every i != master_index:
    slave_signal.reset_values(slave_signal.values - (slave_average - master_average)).
    Guard: no signal is shorter than the end index (otherwise time_indices raises: second theorem) *)
Theorem C18_same_start_is_source : forall (master : nat) (dt start stop : R) (sigs : list (list R)), (master < length sigs)%nat ->
  (forall v, In v sigs -> indices_ok (snd (time_indices dt start stop)) v = true) ->
  let ma := section_average (fst (time_indices dt start stop)) (snd (time_indices dt start stop)) (nth master sigs []) in
  gen_ss_master_average master dt start stop sigs = Some ma /\
  forall i, (i < length sigs)%nat ->
    gen_ss_iter master dt start stop ma i (nth i sigs [])
    = Some (if Nat.eqb i master then None else Some (nth i (same_start_time master dt start stop sigs) [])).
Proof. exact P_gen_c18.gen_same_start_R. Qed.
Theorem C18_same_start_raises_is_source : forall (master : nat) (dt start stop ma : R) (i : nat) (v : list R), i <> master ->
  indices_ok (snd (time_indices dt start stop)) v = false -> gen_ss_iter master dt start stop ma i v = None.
Proof. exact P_gen_c18.gen_ss_raises. Qed.
Theorem C18_same_start_defaults_is_source : @gen_ss_default_start R _ = 0 /\ @gen_ss_default_end R _ = 1.
Proof. exact (conj eq_refl eq_refl). Qed.

(** the hypotheses of the source-tie theorems are met by concrete inputs *)
Example C18_nonvacuous_source :
  gen_rotated_guard [1; 2; -3] (1 / 2) [0; 1; 4] (1 / 2) = true /\
  (forall v, In v [[1; 2; 4; 0]; [5; 5; 7; 1]] -> indices_ok 3 v = true) /\ indices_ok 5 [1; 2; 4; 0] = false.
Proof.
  split; [|split].
  - apply P_gen_c18.gen_guard_true. split; [apply Reqb_true; reflexivity|reflexivity].
  - intros v [<-|[<-|[]]]; reflexivity.
  - reflexivity.
Qed.
