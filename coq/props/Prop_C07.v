(** C07 — Konno-Ohmachi smoothing is a normalised non-negative log-frequency window (statements; proofs in P_C07).

    Model: model/M_smooth.v. [ko_w b f fc] is the window as coded (argument x = b*log10(f/fc), value 1 where x = 0,
    (sin x / x)^4 elsewhere); [ko_raw b freqs fc] the un-normalised column of weights of one target frequency fc,
    [ko_weights] the column after division by its sum; [smooth b freqs amps targets] = calc_smooth_fa_spectrum
    (drops a leading zero frequency together with its amplitude); [smoothing_matrix] / [smooth_w_matrix] the matrix
    route; [bandwidth_freqs ratio s freqs] = calc_bandwidth_freqs (None where the code raises IndexError).

    Hypothesis used below: [0 < nsum (ko_raw b freqs fc)] (the column of raw weights does not vanish). It is not an
    assumption about the code path: C07_sum_pos_on_grid and C07_sum_pos_main_lobe show it holds whenever the target is
    a Fourier frequency, or some Fourier frequency lies in the main lobe |b*log10(f/fc)| < PI of the target. A column
    whose every argument is a non-zero multiple of PI would be 0/0 in the code as well (unreachable in floats). *)
From Coq Require Import QArith Qreals Reals List Lia Lra.
From EQ Require Import lib.Num lib.NpList lib.Quad lib.Where model.M_smooth proofs.P_C07.
Import ListNotations.
Local Open Scope R_scope.

(** ** the window *)
Theorem C07_window_nonneg_le_one : forall b f fc, 0 <= ko_w b f fc <= 1.
Proof. intros; split; [apply P_C07.ko_w_nonneg | apply P_C07.ko_w_le_one]. Qed.
(** weight 1 at f = fc: the 0/0 of the formula is replaced, never evaluated *)
Theorem C07_on_grid_weight_one : forall b fc, fc <> 0 -> ko_w b fc fc = 1.
Proof. exact P_C07.ko_w_on_grid. Qed.
(** everywhere else it is the Konno-Ohmachi formula with exponent 4 and base-10 logarithm, and its argument is non-zero *)
Theorem C07_off_grid_formula : forall b f fc, 0 < f -> 0 < fc -> f <> fc -> b <> 0 ->
  b * (ln (f / fc) / ln 10) <> 0 /\
  ko_w b f fc = (sin (b * (ln (f / fc) / ln 10)) / (b * (ln (f / fc) / ln 10))) ^ 4.
Proof. intros b f fc Hf Hfc Hne Hb. split; [exact (P_C07.ko_arg_off_grid b f fc Hf Hfc Hne Hb) | exact (P_C07.ko_w_off_grid b f fc Hf Hfc Hne Hb)]. Qed.
(** a window in log-frequency: a function of the ratio f/fc only, symmetric under exchanging f and fc *)
Theorem C07_log_frequency_window : forall b k f fc, k <> 0 -> fc <> 0 -> ko_w b (k * f) (k * fc) = ko_w b f fc.
Proof. exact P_C07.ko_w_ratio. Qed.
Theorem C07_window_symmetric : forall b f fc, 0 < f -> 0 < fc -> ko_w b fc f = ko_w b f fc.
Proof. exact P_C07.ko_w_symmetric. Qed.

(** ** when the normalisation is well defined *)
Theorem C07_sum_pos_on_grid : forall b freqs fc, In fc freqs -> fc <> 0 -> 1 <= nsum (ko_raw b freqs fc).
Proof. exact P_C07.ko_sum_ge_one_on_grid. Qed.
Theorem C07_sum_pos_main_lobe : forall b freqs fc,
  (exists f, In f freqs /\ Rabs (b * (ln (f / fc) / ln 10)) < PI) -> 0 < nsum (ko_raw b freqs fc).
Proof. exact P_C07.ko_sum_pos_lobe. Qed.

(** ** normalised weights: non-negative (and at most 1), sum to one, given by the window *)
Theorem C07_weights_nonneg : forall b freqs fc, 0 < nsum (ko_raw b freqs fc) ->
  forall y, In y (ko_weights b freqs fc) -> 0 <= y <= 1.
Proof. exact P_C07.C07_weights_nonneg. Qed.
Theorem C07_weights_sum_one : forall b freqs fc, 0 < nsum (ko_raw b freqs fc) -> nsum (ko_weights b freqs fc) = 1.
Proof. exact P_C07.C07_weights_sum_one. Qed.
Theorem C07_weights_are_window : forall b freqs fc i, (i < length freqs)%nat ->
  nth i (ko_weights b freqs fc) 0 = ko_w b (nth i freqs 0) fc / nsum (ko_raw b freqs fc).
Proof. exact P_C07.C07_weight_formula. Qed.

(** ** the smoothed spectrum *)
(** one value per target; each is the weighted mean of the |amplitudes| that remain after the zero-bin drop *)
Theorem C07_smooth_is_weighted_mean : forall b freqs amps targets,
  length (smooth b freqs amps targets) = length targets /\
  forall k, (k < length targets)%nat ->
    nth k (smooth b freqs amps targets) 0 =
    nsum (map2 (fun a wn => Rabs a * wn) (drop_zero_a freqs amps) (ko_weights b (drop_zero_f freqs) (nth k targets 0))).
Proof. intros. split; [apply P_C07.smooth_length | intros k Hk; now apply P_C07.smooth_nth]. Qed.

Theorem C07_between_min_max : forall b freqs amps targets,
  let fr := drop_zero_f freqs in let am := drop_zero_a freqs amps in
  length am = length fr -> (forall fc, In fc targets -> 0 < nsum (ko_raw b fr fc)) ->
  forall y, In y (smooth b freqs amps targets) -> amin (vabs am) <= y <= amax (vabs am).
Proof. exact P_C07.C07_between_min_max. Qed.
Theorem C07_constant_reproduced : forall b c freqs amps targets,
  let fr := drop_zero_f freqs in let am := drop_zero_a freqs amps in
  length am = length fr -> (forall fc, In fc targets -> 0 < nsum (ko_raw b fr fc)) ->
  (forall a, In a am -> Rabs a = c) ->
  smooth b freqs amps targets = map (fun _ => c) targets.
Proof. exact P_C07.C07_constant_reproduced. Qed.
(** homogeneous of degree one in the spectrum (no hypothesis at all), additive on non-negative spectra *)
Theorem C07_scales_linearly : forall b al freqs amps targets,
  smooth b freqs (map (Rmult al) amps) targets = map (Rmult (Rabs al)) (smooth b freqs amps targets).
Proof. exact P_C07.C07_scales_linearly. Qed.
Theorem C07_additive_on_nonneg_spectra : forall b freqs a1 a2 targets,
  length a1 = length a2 -> all_nonneg a1 -> all_nonneg a2 ->
  smooth b freqs (map2 Rplus a1 a2) targets = map2 Rplus (smooth b freqs a1 targets) (smooth b freqs a2 targets).
Proof. exact P_C07.C07_additive_nonneg. Qed.
(** a target that coincides with a Fourier frequency needs no side condition: the value is finite and between min and max *)
Theorem C07_finite_on_grid : forall b freqs amps targets,
  let fr := drop_zero_f freqs in let am := drop_zero_a freqs amps in
  length am = length fr -> (forall fc, In fc targets -> In fc fr /\ fc <> 0) ->
  forall y, In y (smooth b freqs amps targets) -> amin (vabs am) <= y <= amax (vabs am).
Proof.
  intros b freqs amps targets fr am Hlen Hgrid. apply P_C07.C07_between_min_max; [exact Hlen|].
  now apply P_C07.pos_cols_on_grid.
Qed.
(** with / without the zero-frequency bin *)
Theorem C07_zero_bin_dropped : forall b fr a0 amps targets,
  smooth b (0 :: fr) (a0 :: amps) targets = map (fun fc => wmean amps (ko_weights b fr fc)) targets.
Proof.
  intros. unfold smooth, smooth_gen, drop_zero_f, drop_zero_a. cbv zeta. numR.
  now rewrite (proj2 (Reqb_true 0 0) eq_refl).
Qed.
Theorem C07_no_zero_bin_keeps_all : forall b f0 fr amps targets, f0 <> 0 ->
  smooth b (f0 :: fr) amps targets = map (fun fc => wmean amps (ko_weights b (f0 :: fr) fc)) targets.
Proof. exact P_C07.C07_no_zero_bin. Qed.

(** matrix form = direct form (frequency array starting with the zero bin, as every Signal produces; the matrix
    route calc_smooth_fa_spectrum_w_custom_matrix always discards bin 0 of the spectrum) *)
Theorem C07_matrix_eq_direct : forall b fr amps targets,
  smooth_w_matrix amps (smoothing_matrix b (0 :: fr) targets) = smooth b (0 :: fr) amps targets.
Proof. exact P_C07.C07_matrix_eq_direct. Qed.

(** ** bandwidth limits *)
(** definition: first and last index whose value exceeds ratio*max; None (IndexError in the code) iff no value does *)
Theorem C07_bandwidth_def : forall ratio (s : list R),
  match bw_idx ratio s with
  | None => forall k, (k < length s)%nat -> nth k s 0 <= amax s * ratio
  | Some (i, j) => first_last 0 (fun x => Rltb (amax s * ratio) x) s i j
  end.
Proof. exact P_C07.C07_bandwidth_def. Qed.
Theorem C07_bandwidth_ordered : forall ratio (s freqs : list R) fmin fmax,
  (forall i j, (i <= j < length freqs)%nat -> nth i freqs 0 <= nth j freqs 0) -> (length s <= length freqs)%nat ->
  bandwidth_freqs ratio s freqs = Some (fmin, fmax) -> fmin <= fmax.
Proof. exact P_C07.C07_bandwidth_ordered. Qed.
(** for 0 < ratio < 1 and a positive maximum the limits exist and bracket every frequency at which the maximum is attained *)
Theorem C07_bandwidth_brackets_peak : forall ratio (s freqs : list R) k,
  (forall i j, (i <= j < length freqs)%nat -> nth i freqs 0 <= nth j freqs 0) -> length s = length freqs ->
  0 < ratio < 1 -> 0 < amax s -> (k < length s)%nat -> nth k s 0 = amax s ->
  exists fmin fmax, bandwidth_freqs ratio s freqs = Some (fmin, fmax) /\ fmin <= nth k freqs 0 <= fmax.
Proof. exact P_C07.C07_bandwidth_brackets_peak. Qed.
Theorem C07_peak_exists : forall s : list R, s <> [] -> exists k, (k < length s)%nat /\ nth k s 0 = amax s.
Proof. exact P_C07.amax_attained. Qed.
(** the guard: with ratio >= 1 (and a non-negative maximum) nothing qualifies and the code raises *)
Theorem C07_bandwidth_none : forall ratio (s freqs : list R), 0 <= amax s -> 1 <= ratio -> bandwidth_freqs ratio s freqs = None.
Proof. exact P_C07.C07_bandwidth_none. Qed.

(** get_sig_freq_range (limit max/ratio): same characterisation; brackets the peak for ratio > 1 *)
Theorem C07_sig_range_def : forall ratio (s : list R),
  match sig_idx_range ratio s with
  | None => forall k, (k < length s)%nat -> nth k s 0 <= amax s / ratio
  | Some (i, j) => first_last 0 (fun x => Rltb (amax s / ratio) x) s i j
  end.
Proof. exact P_C07.C07_sig_range_def. Qed.
Theorem C07_sig_range_brackets_peak : forall ratio (s freqs : list R) k,
  (forall i j, (i <= j < length freqs)%nat -> nth i freqs 0 <= nth j freqs 0) -> length s = length freqs ->
  1 < ratio -> 0 < amax s -> (k < length s)%nat -> nth k s 0 = amax s ->
  exists fmin fmax, sig_freq_range ratio s freqs = Some (fmin, fmax) /\ fmin <= nth k freqs 0 <= fmax.
Proof. exact P_C07.C07_sig_range_brackets_peak. Qed.

(** ** the exact-domain runs (T := Q, vm_compute) evaluate the same definitions the theorems are about:
    index results coincide, numeric results are related by Q2R *)
Theorem C07_Q_run_bandwidth : forall (r : Q) (s : list Q),
  bw_idx r s = bw_idx (Q2R r) (map Q2R s) /\ sig_idx_range r s = sig_idx_range (Q2R r) (map Q2R s).
Proof.
  intros r s. assert (HF : Forall2 rel s (map Q2R s)) by (induction s; cbn; constructor; [reflexivity | assumption]).
  split; [apply P_C07.bw_idx_transfer | apply P_C07.sig_idx_range_transfer]; (reflexivity || exact HF).
Qed.
Theorem C07_Q_run_matrix_form : forall (a : list Q) (cols : list (list Q)),
  Forall2 rel (smooth_w_matrix a cols) (smooth_w_matrix (map Q2R a) (map (map Q2R) cols)).
Proof.
  intros a cols. assert (HF : forall l : list Q, Forall2 rel l (map Q2R l)) by (induction l; cbn; constructor; [reflexivity | assumption]).
  apply P_C07.smooth_w_matrix_transfer; [apply HF|]. induction cols; cbn; constructor; [apply HF | assumption].
Qed.

(** ** non-vacuity: a two-frequency grid {1, 2} Hz, target on the grid; the positivity hypothesis holds, the
    weights are a genuine mixture (the off-grid weight is strictly positive for b = 5: |5 log10 2| < PI) *)
Example C07_nonvacuous :
  0 < nsum (ko_raw 5 [1; 2] 1) /\ nth 0 (ko_raw 5 [1; 2] 1) 0 = 1 /\ 0 < nth 1 (ko_raw 5 [1; 2] 1) 0 /\
  bandwidth_freqs (1/2) [1; 3; 2; 1] [1; 2; 3; 4] = Some (2, 3).
Proof.
  assert (H1 : ko_w 5 1 1 = 1) by (apply P_C07.ko_w_on_grid; lra).
  assert (H2 : 0 < ko_w 5 2 1).
  { apply P_C07.ko_w_pos_lobe. unfold ko_arg, log10. replace (2 / 1) with 2 by field.
    assert (0 < ln 2) by (rewrite <- ln_1; apply ln_increasing; lra).
    assert (ln 2 < ln 10 / 2).
    { assert (ln 4 < ln 10) by (apply ln_increasing; lra). replace 4 with (2 * 2) in H0 by ring. rewrite ln_mult in H0 by lra. lra. }
    pose proof P_C07.ln10_pos. pose proof PI2_3_2. unfold PI2 in *.
    assert (0 < ln 2 / ln 10 < 1 / 2).
    { split; [apply Rdiv_lt_0_compat; lra|]. apply Rmult_lt_reg_r with (ln 10); [lra|]. unfold Rdiv. rewrite Rmult_assoc, Rinv_l by lra. lra. }
    rewrite Rabs_right by nra. nra. }
  unfold ko_raw, raw_col. cbn [map nth]. rewrite !nsum_cons, nsum_nil, H1. repeat split; try lra.
  assert (Hm : amax [1; 3; 2; 1] = 3).
  { unfold amax. cbn [fold_left]. rewrite !nmax_R. rewrite (Rmax_right 1 3) by lra. rewrite (Rmax_left 3 2) by lra. apply Rmax_left. lra. }
  unfold bandwidth_freqs, bw_idx. rewrite Hm. unfold first_last_above, where_idx. cbn [where_from]. numR.
  repeat match goal with |- context [Rltb ?a ?b] =>
    let H := fresh in destruct (Rltb a b) eqn:H; [apply Rltb_true in H|apply Rltb_false in H]; try lra end; reflexivity.
Qed.
