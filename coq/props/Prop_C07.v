(** C07 — Konno-Ohmachi smoothing is a normalised non-negative log-frequency window (statements; proofs in P_C07).

    Model: model/M_smooth.v. [ko_w b f fc] is the window as coded (argument x = b*log10(f/fc), value 1 where x = 0,
    (sin x / x)^4 elsewhere); [ko_raw b freqs fc] the un-normalised column of weights of one target frequency fc,
    [ko_weights] the column after division by its sum; [smooth b freqs amps targets] = calc_smooth_fa_spectrum
    (drops a leading zero frequency together with its amplitude); [smoothing_matrix] / [smooth_w_matrix] the matrix
    route; [bandwidth_freqs ratio s freqs] = calc_bandwidth_freqs (None where the code raises IndexError).

    Hypothesis used below: [0 < nsum (ko_raw b freqs fc)] (the column of raw weights does not vanish). It is not an
    assumption about the code path: C07_sum_pos_on_grid and C07_sum_pos_main_lobe show it holds whenever the target is
    a Fourier frequency, or some Fourier frequency lies in the main lobe |b*log10(f/fc)| < PI of the target. A column
    whose every argument is a non-zero multiple of PI would be 0/0 in the code as well (unreachable in floats). *)
From Coq Require Import QArith Qreals Reals List Lia Lra.
From EQ Require Import lib.Num lib.NpList lib.Quad lib.Where model.M_smooth proofs.P_C07.
Import ListNotations.
Local Open Scope R_scope.

(** ** the window *)
Theorem C07_window_nonneg_le_one : forall b f fc, 0 <= ko_w b f fc <= 1.
Proof. intros; split; [apply P_C07.ko_w_nonneg | apply P_C07.ko_w_le_one]. Qed.
(** weight 1 at f = fc: the 0/0 of the formula is replaced, never evaluated *)
Theorem C07_on_grid_weight_one : forall b fc, fc <> 0 -> ko_w b fc fc = 1.
Proof. exact P_C07.ko_w_on_grid. Qed.
(** everywhere else it is the Konno-Ohmachi formula with exponent 4 and base-10 logarithm, and its argument is non-zero *)
Theorem C07_off_grid_formula : forall b f fc, 0 < f -> 0 < fc -> f <> fc -> b <> 0 ->
  b * (ln (f / fc) / ln 10) <> 0 /\
  ko_w b f fc = (sin (b * (ln (f / fc) / ln 10)) / (b * (ln (f / fc) / ln 10))) ^ 4.
Proof. intros b f fc Hf Hfc Hne Hb. split; [exact (P_C07.ko_arg_off_grid b f fc Hf Hfc Hne Hb) | exact (P_C07.ko_w_off_grid b f fc Hf Hfc Hne Hb)]. Qed.
(** a window in log-frequency: a function of the ratio f/fc only, symmetric under exchanging f and fc *)
Theorem C07_log_frequency_window : forall b k f fc, k <> 0 -> fc <> 0 -> ko_w b (k * f) (k * fc) = ko_w b f fc.
Proof. exact P_C07.ko_w_ratio. Qed.
Theorem C07_window_symmetric : forall b f fc, 0 < f -> 0 < fc -> ko_w b fc f = ko_w b f fc.
Proof. exact P_C07.ko_w_symmetric. Qed.

(** ** when the normalisation is well defined *)
Theorem C07_sum_pos_on_grid : forall b freqs fc, In fc freqs -> fc <> 0 -> 1 <= nsum (ko_raw b freqs fc).
Proof. exact P_C07.ko_sum_ge_one_on_grid. Qed.
Theorem C07_sum_pos_main_lobe : forall b freqs fc,
  (exists f, In f freqs /\ Rabs (b * (ln (f / fc) / ln 10)) < PI) -> 0 < nsum (ko_raw b freqs fc).
Proof. exact P_C07.ko_sum_pos_lobe. Qed.

(** ** normalised weights: non-negative (and at most 1), sum to one, given by the window *)
Theorem C07_weights_nonneg : forall b freqs fc, 0 < nsum (ko_raw b freqs fc) ->
  forall y, In y (ko_weights b freqs fc) -> 0 <= y <= 1.
Proof. exact P_C07.C07_weights_nonneg. Qed.
Theorem C07_weights_sum_one : forall b freqs fc, 0 < nsum (ko_raw b freqs fc) -> nsum (ko_weights b freqs fc) = 1.
Proof. exact P_C07.C07_weights_sum_one. Qed.
Theorem C07_weights_are_window : forall b freqs fc i, (i < length freqs)%nat ->
  nth i (ko_weights b freqs fc) 0 = ko_w b (nth i freqs 0) fc / nsum (ko_raw b freqs fc).
Proof. exact P_C07.C07_weight_formula. Qed.

(** ** the smoothed spectrum *)
(** one value per target; each is the weighted mean of the |amplitudes| that remain after the zero-bin drop *)
Theorem C07_smooth_is_weighted_mean : forall b freqs amps targets,
  length (smooth b freqs amps targets) = length targets /\
  forall k, (k < length targets)%nat ->
    nth k (smooth b freqs amps targets) 0 =
    nsum (map2 (fun a wn => Rabs a * wn) (drop_zero_a freqs amps) (ko_weights b (drop_zero_f freqs) (nth k targets 0))).
Proof. intros. split; [apply P_C07.smooth_length | intros k Hk; now apply P_C07.smooth_nth]. Qed.

Theorem C07_between_min_max : forall b freqs amps targets,
  let fr := drop_zero_f freqs in let am := drop_zero_a freqs amps in
  length am = length fr -> (forall fc, In fc targets -> 0 < nsum (ko_raw b fr fc)) ->
  forall y, In y (smooth b freqs amps targets) -> amin (vabs am) <= y <= amax (vabs am).
Proof. exact P_C07.C07_between_min_max. Qed.
Theorem C07_constant_reproduced : forall b c freqs amps targets,
  let fr := drop_zero_f freqs in let am := drop_zero_a freqs amps in
  length am = length fr -> (forall fc, In fc targets -> 0 < nsum (ko_raw b fr fc)) ->
  (forall a, In a am -> Rabs a = c) ->
  smooth b freqs amps targets = map (fun _ => c) targets.
Proof. exact P_C07.C07_constant_reproduced. Qed.
(** homogeneous of degree one in the spectrum (no hypothesis at all), additive on non-negative spectra *)
Theorem C07_scales_linearly : forall b al freqs amps targets,
  smooth b freqs (map (Rmult al) amps) targets = map (Rmult (Rabs al)) (smooth b freqs amps targets).
Proof. exact P_C07.C07_scales_linearly. Qed.
Theorem C07_additive_on_nonneg_spectra : forall b freqs a1 a2 targets,
  length a1 = length a2 -> all_nonneg a1 -> all_nonneg a2 ->
  smooth b freqs (map2 Rplus a1 a2) targets = map2 Rplus (smooth b freqs a1 targets) (smooth b freqs a2 targets).
Proof. exact P_C07.C07_additive_nonneg. Qed.
(** a target that coincides with a Fourier frequency needs no side condition: the value is finite and between min and max *)
Theorem C07_finite_on_grid : forall b freqs amps targets,
  let fr := drop_zero_f freqs in let am := drop_zero_a freqs amps in
  length am = length fr -> (forall fc, In fc targets -> In fc fr /\ fc <> 0) ->
  forall y, In y (smooth b freqs amps targets) -> amin (vabs am) <= y <= amax (vabs am).
Proof.
  intros b freqs amps targets fr am Hlen Hgrid. apply P_C07.C07_between_min_max; [exact Hlen|].
  now apply P_C07.pos_cols_on_grid.
Qed.
(** with / without the zero-frequency bin *)
Theorem C07_zero_bin_dropped : forall b fr a0 amps targets,
  smooth b (0 :: fr) (a0 :: amps) targets = map (fun fc => wmean amps (ko_weights b fr fc)) targets.
Proof.
  intros. unfold smooth, smooth_gen, drop_zero_f, drop_zero_a. cbv zeta. numR.
  now rewrite (proj2 (Reqb_true 0 0) eq_refl).
Qed.
Theorem C07_no_zero_bin_keeps_all : forall b f0 fr amps targets, f0 <> 0 ->
  smooth b (f0 :: fr) amps targets = map (fun fc => wmean amps (ko_weights b (f0 :: fr) fc)) targets.
Proof. exact P_C07.C07_no_zero_bin. Qed.

(** matrix form = direct form (frequency array starting with the zero bin, as every Signal produces; the matrix
    route calc_smooth_fa_spectrum_w_custom_matrix always discards bin 0 of the spectrum) *)
Theorem C07_matrix_eq_direct : forall b fr amps targets,
  smooth_w_matrix amps (smoothing_matrix b (0 :: fr) targets) = smooth b (0 :: fr) amps targets.
Proof. exact P_C07.C07_matrix_eq_direct. Qed.

(** ** bandwidth limits *)
(** definition: first and last index whose value exceeds ratio*max; None (IndexError in the code) iff no value does *)
Theorem C07_bandwidth_def : forall ratio (s : list R),
  match bw_idx ratio s with
  | None => forall k, (k < length s)%nat -> nth k s 0 <= amax s * ratio
  | Some (i, j) => first_last 0 (fun x => Rltb (amax s * ratio) x) s i j
  end.
Proof. exact P_C07.C07_bandwidth_def. Qed.
Theorem C07_bandwidth_ordered : forall ratio (s freqs : list R) fmin fmax,
  (forall i j, (i <= j < length freqs)%nat -> nth i freqs 0 <= nth j freqs 0) -> (length s <= length freqs)%nat ->
  bandwidth_freqs ratio s freqs = Some (fmin, fmax) -> fmin <= fmax.
Proof. exact P_C07.C07_bandwidth_ordered. Qed.
(** for 0 < ratio < 1 and a positive maximum the limits exist and bracket every frequency at which the maximum is attained *)
Theorem C07_bandwidth_brackets_peak : forall ratio (s freqs : list R) k,
  (forall i j, (i <= j < length freqs)%nat -> nth i freqs 0 <= nth j freqs 0) -> length s = length freqs ->
  0 < ratio < 1 -> 0 < amax s -> (k < length s)%nat -> nth k s 0 = amax s ->
  exists fmin fmax, bandwidth_freqs ratio s freqs = Some (fmin, fmax) /\ fmin <= nth k freqs 0 <= fmax.
Proof. exact P_C07.C07_bandwidth_brackets_peak. Qed.
Theorem C07_peak_exists : forall s : list R, s <> [] -> exists k, (k < length s)%nat /\ nth k s 0 = amax s.
Proof. exact P_C07.amax_attained. Qed.
(** the guard: with ratio >= 1 (and a non-negative maximum) nothing qualifies and the code raises *)
Theorem C07_bandwidth_none : forall ratio (s freqs : list R), 0 <= amax s -> 1 <= ratio -> bandwidth_freqs ratio s freqs = None.
Proof. exact P_C07.C07_bandwidth_none. Qed.

(** get_sig_freq_range (limit max/ratio): same characterisation; brackets the peak for ratio > 1 *)
Theorem C07_sig_range_def : forall ratio (s : list R),
  match sig_idx_range ratio s with
  | None => forall k, (k < length s)%nat -> nth k s 0 <= amax s / ratio
  | Some (i, j) => first_last 0 (fun x => Rltb (amax s / ratio) x) s i j
  end.
Proof. exact P_C07.C07_sig_range_def. Qed.
Theorem C07_sig_range_brackets_peak : forall ratio (s freqs : list R) k,
  (forall i j, (i <= j < length freqs)%nat -> nth i freqs 0 <= nth j freqs 0) -> length s = length freqs ->
  1 < ratio -> 0 < amax s -> (k < length s)%nat -> nth k s 0 = amax s ->
  exists fmin fmax, sig_freq_range ratio s freqs = Some (fmin, fmax) /\ fmin <= nth k freqs 0 <= fmax.
Proof. exact P_C07.C07_sig_range_brackets_peak. Qed.

(** ** the exact-domain runs (T := Q, vm_compute) evaluate the same definitions the theorems are about:
    index results coincide, numeric results are related by Q2R *)
Theorem C07_Q_run_bandwidth : forall (r : Q) (s : list Q),
  bw_idx r s = bw_idx (Q2R r) (map Q2R s) /\ sig_idx_range r s = sig_idx_range (Q2R r) (map Q2R s).
Proof.
  intros r s. assert (HF : Forall2 rel s (map Q2R s)) by (induction s; cbn; constructor; [reflexivity | assumption]).
  split; [apply P_C07.bw_idx_transfer | apply P_C07.sig_idx_range_transfer]; (reflexivity || exact HF).
Qed.
Theorem C07_Q_run_matrix_form : forall (a : list Q) (cols : list (list Q)),
  Forall2 rel (smooth_w_matrix a cols) (smooth_w_matrix (map Q2R a) (map (map Q2R) cols)).
Proof.
  intros a cols. assert (HF : forall l : list Q, Forall2 rel l (map Q2R l)) by (induction l; cbn; constructor; [reflexivity | assumption]).
  apply P_C07.smooth_w_matrix_transfer; [apply HF|]. induction cols; cbn; constructor; [apply HF | assumption].
Qed.

(** ** non-vacuity: a two-frequency grid {1, 2} Hz, target on the grid; the positivity hypothesis holds, the
    weights are a genuine mixture (the off-grid weight is strictly positive for b = 5: |5 log10 2| < PI) *)
Example C07_nonvacuous :
  0 < nsum (ko_raw 5 [1; 2] 1) /\ nth 0 (ko_raw 5 [1; 2] 1) 0 = 1 /\ 0 < nth 1 (ko_raw 5 [1; 2] 1) 0 /\
  bandwidth_freqs (1/2) [1; 3; 2; 1] [1; 2; 3; 4] = Some (2, 3).
Proof.
  assert (H1 : ko_w 5 1 1 = 1) by (apply P_C07.ko_w_on_grid; lra).
  assert (H2 : 0 < ko_w 5 2 1).
  { apply P_C07.ko_w_pos_lobe. unfold ko_arg, log10. replace (2 / 1) with 2 by field.
    assert (0 < ln 2) by (rewrite <- ln_1; apply ln_increasing; lra).
    assert (ln 2 < ln 10 / 2).
    { assert (ln 4 < ln 10) by (apply ln_increasing; lra). replace 4 with (2 * 2) in H0 by ring. rewrite ln_mult in H0 by lra. lra. }
    pose proof P_C07.ln10_pos. pose proof PI2_3_2. unfold PI2 in *.
    assert (0 < ln 2 / ln 10 < 1 / 2).
    { split; [apply Rdiv_lt_0_compat; lra|]. apply Rmult_lt_reg_r with (ln 10); [lra|]. unfold Rdiv. rewrite Rmult_assoc, Rinv_l by lra. lra. }
    rewrite Rabs_right by nra. nra. }
  unfold ko_raw, raw_col. cbn [map nth]. rewrite !nsum_cons, nsum_nil, H1. repeat split; try lra.
  assert (Hm : amax [1; 3; 2; 1] = 3).
  { unfold amax. cbn [fold_left]. rewrite !nmax_R. rewrite (Rmax_right 1 3) by lra. rewrite (Rmax_left 3 2) by lra. apply Rmax_left. lra. }
  unfold bandwidth_freqs, bw_idx. rewrite Hm. unfold first_last_above, where_idx. cbn [where_from]. numR.
  repeat match goal with |- context [Rltb ?a ?b] =>
    let H := fresh in destruct (Rltb a b) eqn:H; [apply Rltb_true in H|apply Rltb_false in H]; try lra end; reflexivity.
Qed.

(** ** source-text tie (translator/py2coq_c07.py -> gen/Gen_c07.v, re-generated from the repository on every run)

    The [gen_*] definitions are the statements of eqsig/fns/frequency.py (calc_smooth_fa_spectrum, its deprecated alias
    generate_smooth_fa_spectrum, calc_smoothing_matrix_konno_1998, calc_smooth_fa_spectrum_w_custom_matrix,
    get_sig_array_indexes_range, get_sig_freq_range) and eqsig/im.py (calc_bandwidth_freqs / f_min / f_max) read by a fail-closed
    Python-ast translator: temporaries substituted, the 2-d broadcasting read column by column (one column per target
    frequency), np.sin / np.log10 kept as parameters [sin], [log10], every partial read ([v[0]], [max(v)],
    [np.where(..)[0][0]], [v[k]], np.take) a [match] whose [None] branch is the exception ([PyRaise IndexError / ValueError]).
    The theorems below say: for ALL inputs, every [NumOps] instance and every kernel pair the generated definition is the
    model of model/M_smooth.v behind the guard under which the code returns at all; at R with the real sine and
    log10 = ln / ln 10 the window is [ko_w], so the generated smoothing IS [smooth] / [smoothing_matrix] the theorems above are
    about.  A changed operand / index / sign / literal / comparison in those functions changes the generated text and breaks
    one of these proofs.
    Trusted in this tie: the translator's reading of each accepted statement shape (header of translator/py2coq_c07.py,
    lib/PyRes.v), in particular the column-wise reading of the (n,1) x (1,m) broadcasts (NumPy raises or stretches a length-1
    axis where the [.._shapes] predicate is false) and the object layer (which arrays the attributes hold).  Still with the
    correspondence only: the float kernels (np.sin, np.log10, the 0/0 -> nan that np.where then replaces), binary64 rounding,
    (the Signal-level callers -- smooth_fa_spectrum property, gen_smooth_fa_spectrum, setters -- have their own tie at the end
    of this file: gen/Gen_c07_obj.v). *)
From EQ Require Import lib.PyVal lib.NpHelpers lib.PyRes gen.Gen_c07 proofs.P_gen_c07.

(** calc_smooth_fa_spectrum: raises IndexError on an empty frequency array, otherwise the model with the window
    (sin(a)/a)^4, a = band*log10(f/fc), 1 where a == 0; smooth_fa_frequencies=None uses the non-zero Fourier frequencies *)
Theorem C07_smooth_fa_is_source : forall (T : Type) (ops : NumOps T) (sin log10 : T -> T) (band : T) (freqs amps : list T)
    (targets : option (list T)),
  let w := fun f fc => let a := nmul band (log10 (ndiv f fc)) in if neqb a n0 then n1 else npow (ndiv (sin a) a) 4 in
  gen_smooth_fa sin log10 band freqs amps targets =
  match freqs with
  | [] => PyRaise IndexError
  | _ :: _ => PyOk (match targets with Some t => smooth_gen w freqs amps t | None => smooth_gen_default w freqs amps end)
  end.
Proof. intros T ops sin log10 band freqs amps targets. cbv zeta. exact (P_gen_c07.gen_smooth_fa_eq sin log10 band freqs amps targets). Qed.
Theorem C07_smooth_fa_is_source_R : forall (b : R) (freqs amps targets : list R),
  gen_smooth_fa sin M_smooth.log10 b freqs amps (Some targets) =
    match freqs with [] => PyRaise IndexError | _ :: _ => PyOk (smooth b freqs amps targets) end /\
  gen_smooth_fa sin M_smooth.log10 b freqs amps None =
    match freqs with [] => PyRaise IndexError | _ :: _ => PyOk (smooth_default b freqs amps) end.
Proof. intros b freqs amps targets. split; [exact (P_gen_c07.gen_smooth_fa_R b freqs amps targets) | exact (P_gen_c07.gen_smooth_fa_default_R b freqs amps)]. Qed.
(** the deprecated alias generate_smooth_fa_spectrum passes its arguments on in the right order *)
Theorem C07_smooth_fa_alias_is_source : forall (T : Type) (ops : NumOps T) (sin log10 : T -> T) (band : T) (freqs amps : list T)
    (targets : option (list T)),
  gen_smooth_fa_alias sin log10 band freqs amps targets = gen_smooth_fa sin log10 band freqs amps targets.
Proof. intros. exact (P_gen_c07.gen_smooth_fa_alias_eq sin log10 band freqs amps targets). Qed.
(** the broadcast abs(fa_spectrum)[:, np.newaxis] * wb_vals is legal exactly under the hypothesis [length am = length fr] of
    C07_between_min_max / C07_constant_reproduced *)
Theorem C07_smooth_fa_shapes_is_source : forall (T : Type) (ops : NumOps T) (band : T) (freqs amps : list T) (targets : option (list T)),
  freqs <> [] ->
  (gen_smooth_fa_shapes band freqs amps targets = true <-> length (drop_zero_a freqs amps) = length (drop_zero_f freqs)).
Proof. intros T ops. exact (@P_gen_c07.gen_smooth_fa_shapes_iff T ops). Qed.

(** calc_smoothing_matrix_konno_1998 (the matrix as the list of its columns) *)
Theorem C07_smoothing_matrix_is_source : forall (T : Type) (ops : NumOps T) (sin log10 : T -> T) (band : T) (freqs : list T)
    (targets : option (list T)),
  let w := fun f fc => let a := nmul band (log10 (ndiv f fc)) in if neqb a n0 then n1 else npow (ndiv (sin a) a) 4 in
  gen_smoothing_matrix sin log10 band freqs targets =
  match freqs with
  | [] => PyRaise IndexError
  | _ :: _ => PyOk (matrix_gen w freqs (match targets with Some t => t | None => drop_zero_f freqs end))
  end.
Proof. intros T ops sin log10 band freqs targets. cbv zeta. exact (P_gen_c07.gen_smoothing_matrix_eq sin log10 band freqs targets). Qed.
Theorem C07_smoothing_matrix_is_source_R : forall (b : R) (freqs targets : list R),
  gen_smoothing_matrix sin M_smooth.log10 b freqs (Some targets) =
    match freqs with [] => PyRaise IndexError | _ :: _ => PyOk (smoothing_matrix b freqs targets) end /\
  gen_smoothing_matrix sin M_smooth.log10 b freqs None =
    match freqs with [] => PyRaise IndexError | _ :: _ => PyOk (smoothing_matrix b freqs (drop_zero_f freqs)) end.
Proof. intros b freqs targets. split; [exact (P_gen_c07.gen_smoothing_matrix_R b freqs targets) | exact (P_gen_c07.gen_smoothing_matrix_default_R b freqs)]. Qed.

(** calc_smooth_fa_spectrum_w_custom_matrix: np.dot(abs(fa_spectrum[1:]), M), never raises in this reading; the product is
    NumPy's when every column has the length of the spectrum without bin 0 *)
Theorem C07_custom_matrix_is_source : forall (T : Type) (ops : NumOps T) (amps : list T) (cols : list (list T)),
  gen_smooth_w_matrix amps cols = PyOk (smooth_w_matrix amps cols) /\
  gen_smooth_w_matrix_shapes amps cols = forallb (fun col => Nat.eqb (length (tl amps)) (length col)) cols.
Proof. intros T ops amps cols. split; [exact (P_gen_c07.gen_smooth_w_matrix_eq amps cols) | exact (P_gen_c07.gen_smooth_w_matrix_shapes_eq amps cols)]. Qed.

(** bandwidth limits: ValueError from max() on an empty spectrum, IndexError when no sample exceeds the limit or when the
    frequency array is too short for an index, otherwise the frequencies at the model's first / last index *)
Theorem C07_sig_idx_range_is_source : forall (T : Type) (ops : NumOps T) (ratio : T) (s : list T),
  gen_sig_idx_range ratio s =
  match s with
  | [] => PyRaise ValueError
  | _ :: _ => match sig_idx_range ratio s with None => PyRaise IndexError | Some p => PyOk p end
  end.
Proof. intros T ops ratio s. exact (P_gen_c07.gen_sig_idx_range_eq ratio s). Qed.
Theorem C07_sig_freq_range_is_source : forall (T : Type) (ops : NumOps T) (ratio : T) (s freqs : list T),
  gen_sig_freq_range ratio s freqs =
  match s with
  | [] => PyRaise ValueError
  | _ :: _ =>
    match sig_idx_range ratio s with
    | None => PyRaise IndexError
    | Some (i, j) =>
      match nth_error freqs i with
      | None => PyRaise IndexError
      | Some a => match nth_error freqs j with None => PyRaise IndexError | Some b => PyOk [a; b] end
      end
    end
  end.
Proof. intros T ops ratio s freqs. exact (P_gen_c07.gen_sig_freq_range_eq ratio s freqs). Qed.
Theorem C07_bandwidth_freqs_is_source : forall (T : Type) (ops : NumOps T) (ratio : T) (s freqs : list T),
  gen_bandwidth_freqs ratio s freqs =
  match s with
  | [] => PyRaise ValueError
  | _ :: _ =>
    match bw_idx ratio s with
    | None => PyRaise IndexError
    | Some (i, j) =>
      match nth_error freqs i with
      | None => PyRaise IndexError
      | Some a => match nth_error freqs j with None => PyRaise IndexError | Some b => PyOk (a, b) end
      end
    end
  end.
Proof. intros T ops ratio s freqs. exact (P_gen_c07.gen_bandwidth_freqs_eq ratio s freqs). Qed.
Theorem C07_bandwidth_f_min_f_max_is_source : forall (T : Type) (ops : NumOps T) (ratio : T) (s freqs : list T),
  let one (r : option nat) : pyres T :=
    match s with
    | [] => PyRaise ValueError
    | _ :: _ => match r with
                | None => PyRaise IndexError
                | Some i => match nth_error freqs i with None => PyRaise IndexError | Some a => PyOk a end
                end
    end in
  gen_bandwidth_f_min ratio s freqs = one (option_map fst (bw_idx ratio s)) /\
  gen_bandwidth_f_max ratio s freqs = one (option_map snd (bw_idx ratio s)).
Proof.
  intros T ops ratio s freqs. cbv zeta.
  split; [exact (P_gen_c07.gen_bandwidth_f_min_eq ratio s freqs) | exact (P_gen_c07.gen_bandwidth_f_max_eq ratio s freqs)].
Qed.
(** with a frequency array at least as long as the spectrum (the object holds arrays of equal length) no look-up fails and the
    value of the call ([None] = it raises) is the model's [bandwidth_freqs] / [sig_freq_range] of the theorems above *)
Theorem C07_bandwidth_value_is_source : forall (T : Type) (ops : NumOps T) (ratio : T) (s freqs : list T),
  (length s <= length freqs)%nat ->
  res_value (gen_bandwidth_freqs ratio s freqs) = bandwidth_freqs ratio s freqs /\
  res_value (gen_bandwidth_f_min ratio s freqs) = option_map fst (bandwidth_freqs ratio s freqs) /\
  res_value (gen_bandwidth_f_max ratio s freqs) = option_map snd (bandwidth_freqs ratio s freqs) /\
  res_value (gen_sig_freq_range ratio s freqs) = option_map (fun p => [fst p; snd p]) (sig_freq_range ratio s freqs).
Proof.
  intros T ops ratio s freqs Hlen. repeat split.
  - exact (P_gen_c07.gen_bandwidth_freqs_value ratio s freqs Hlen).
  - exact (P_gen_c07.gen_bandwidth_f_min_value ratio s freqs Hlen).
  - exact (P_gen_c07.gen_bandwidth_f_max_value ratio s freqs Hlen).
  - exact (P_gen_c07.gen_sig_freq_range_value ratio s freqs Hlen).
Qed.
(** the defaults of the Python signatures: band=40, smooth_fa_frequencies=None, ratio=15 / 0.707 *)
Theorem C07_defaults_are_source :
  @gen_smooth_fa_default_band R _ = 40 /\ @gen_smooth_fa_alias_default_band R _ = 40 /\ @gen_smoothing_matrix_default_band R _ = 40 /\
  @gen_smooth_fa_default_smooth_fa_frequencies R = None /\ @gen_smoothing_matrix_default_smooth_fa_frequencies R = None /\
  @gen_sig_idx_range_default_ratio R _ = 15 /\ @gen_sig_freq_range_default_ratio R _ = 15 /\
  @gen_bandwidth_freqs_default_ratio R _ = 0.707 /\ @gen_bandwidth_f_min_default_ratio R _ = 0.707 /\
  @gen_bandwidth_f_max_default_ratio R _ = 0.707.
Proof. exact P_gen_c07.gen_c07_defaults_R. Qed.

(** end to end: whatever the SOURCE returns for explicit targets (operands of equal length, columns not identically zero) lies
    between the smallest and the largest remaining |amplitude| *)
Theorem C07_source_between_min_max : forall (b : R) (freqs amps targets out : list R),
  gen_smooth_fa sin M_smooth.log10 b freqs amps (Some targets) = PyOk out ->
  gen_smooth_fa_shapes b freqs amps (Some targets) = true ->
  (forall fc, In fc targets -> 0 < nsum (ko_raw b (drop_zero_f freqs) fc)) ->
  forall y, In y out -> amin (vabs (drop_zero_a freqs amps)) <= y <= amax (vabs (drop_zero_a freqs amps)).
Proof. exact P_gen_c07.source_between_min_max. Qed.
(** non-vacuity of the tie: a source run that returns, and one that raises *)
Example C07_source_nonvacuous :
  gen_bandwidth_freqs (1/2) [1; 3; 2; 1] [1; 2; 3; 4] = PyOk (2, 3) /\
  gen_bandwidth_freqs (1/2) ([] : list R) [1; 2; 3; 4] = PyRaise ValueError /\
  gen_smooth_fa_shapes 5 [0; 1; 2] [7; 1; 3] (Some [1]) = true /\
  exists out, gen_smooth_fa sin M_smooth.log10 5 [0; 1; 2] [7; 1; 3] (Some [1]) = PyOk out /\ length out = 1%nat.
Proof.
  split; [|split; [reflexivity|split]].
  - pose proof (proj1 (C07_bandwidth_value_is_source R _ (1/2) [1; 3; 2; 1] [1; 2; 3; 4] (le_n _))) as Hv.
    rewrite (proj2 (proj2 (proj2 C07_nonvacuous))) in Hv.
    destruct (gen_bandwidth_freqs _ _ _); cbn [res_value] in Hv; [now injection Hv as -> | discriminate].
  - apply C07_smooth_fa_shapes_is_source; [discriminate|].
    unfold drop_zero_a, drop_zero_f. numR. rewrite (proj2 (Reqb_true 0 0) eq_refl). reflexivity.
  - eexists. split; [exact (proj1 (C07_smooth_fa_is_source_R 5 [0; 1; 2] [7; 1; 3] [1]))|]. apply P_C07.smooth_length.
Qed.

(** ** Source-text tie for the object layer (translator/py2coq_objlayer.py -> gen/Gen_c07_obj.v, proofs in P_gen_c07_obj)

    Every run re-translates eqsig/single.py: Signal.gen_smooth_fa_spectrum, generate_smooth_fa_spectrum, the lazy getter
    smooth_fa_spectrum, the getters and setters smooth_fa_freqs / smooth_fa_frequencies and
    set_smooth_fa_frequecies_by_range by symbolic execution over the record [obj] (o_fa_freqs / o_fa_spectrum = what the
    properties fa_freqs / fa_spectrum return: property C06; _smooth_fa_freqs, _smooth_fa_spectrum, _smooth_freq_range,
    _cached_smooth_fa).  SM = calc_smooth_fa_spectrum(fa_frequencies, fa_spectrum, smooth_fa_frequencies, band) is a parameter
    (its tie: C07_*_is_source above); LOG10 / LOGSPACE = np.log10 / np.logspace(., ., n, base=10).  PROVED for every [NumOps]
    instance and ALL inputs: the targets are the argument if given (stored first) else the stored ones; SM gets (fa_freqs,
    fa_spectrum, targets, band) in this order; the result is stored in _smooth_fa_spectrum and the flag set; the lazy getter
    computes with band = 40 (the default of generate_smooth_fa_spectrum) only when the flag is clear; both setters store the
    new targets and clear the flag without touching the stored spectrum; by-range builds the targets from the two entries of
    log10(limits), remembers the limits and clears the flag.  A changed operand / order / keyword / default / flag changes
    the generated text and breaks one of these theorems; renamed temporaries give the same text.
    NOT covered: SM, np.log10, np.logspace themselves, `np.array(freqs, dtype=float)` read as the same list (a copy; a
    non-float input would be converted), the deprecated smooth_freq_range / smooth_freq_points accessors. *)
From EQ Require Import gen.Gen_c07_obj proofs.P_gen_c07_obj.

Theorem C07_object_smoothing_is_source : forall (T : Type) (ops : NumOps T) (SM : list T -> list T -> list T -> T -> list T)
    (targets : option (list T)) (band : T) (st : @Gen_c07_obj.obj T),
  let fs := match targets with Some f => f | None => o_smooth_fa_freqs st end in
  gen_gen_smooth_fa_spectrum SM targets band st
  = PyRes.PyOk (mk_obj (o_fa_freqs st) (o_fa_spectrum st) fs (SM (o_fa_freqs st) (o_fa_spectrum st) fs band) (o_smooth_freq_range st) true) /\
  gen_generate_smooth_fa_spectrum SM band st = gen_gen_smooth_fa_spectrum SM None band st.
Proof. intros. split; [apply P_gen_c07_obj.gen_gen_smooth_eq | now rewrite P_gen_c07_obj.gen_generate_smooth_eq, P_gen_c07_obj.gen_gen_smooth_eq]. Qed.
Theorem C07_lazy_smooth_spectrum_is_source : forall (T : Type) (ops : NumOps T) (SM : list T -> list T -> list T -> T -> list T)
    (st : @Gen_c07_obj.obj T),
  gen_smooth_fa_spectrum_get SM st
  = let st' := if o_cached_smooth_fa st then st
               else mk_obj (o_fa_freqs st) (o_fa_spectrum st) (o_smooth_fa_freqs st)
                      (SM (o_fa_freqs st) (o_fa_spectrum st) (o_smooth_fa_freqs st) (nofZ 40)) (o_smooth_freq_range st) true in
    PyRes.PyOk (st', o_smooth_fa_spectrum st').
Proof. intros. apply P_gen_c07_obj.gen_smooth_get_eq. Qed.
Theorem C07_smoothing_frequency_accessors_are_source : forall (T : Type) (ops : NumOps T) (fs : list T) (st : @Gen_c07_obj.obj T),
  let st' := mk_obj (o_fa_freqs st) (o_fa_spectrum st) fs (o_smooth_fa_spectrum st) (o_smooth_freq_range st) false in
  gen_set_smooth_fa_freqs fs st = PyRes.PyOk st' /\ gen_set_smooth_fa_frequencies fs st = PyRes.PyOk st' /\
  gen_smooth_fa_freqs_get st = PyRes.PyOk (st, o_smooth_fa_freqs st) /\ gen_smooth_fa_frequencies_get st = PyRes.PyOk (st, o_smooth_fa_freqs st).
Proof. intros. split; [apply P_gen_c07_obj.gen_setters_eq|]. split; [apply P_gen_c07_obj.gen_setters_eq | apply P_gen_c07_obj.gen_freqs_get_eq]. Qed.
Theorem C07_smoothing_by_range_is_source : forall (T : Type) (ops : NumOps T) (LOG10 : list T -> list T) (LOGSPACE : T -> T -> Z -> list T)
    (limits : list T) (n : Z) (st : @Gen_c07_obj.obj T),
  gen_set_smooth_fa_frequecies_by_range LOG10 LOGSPACE limits n st
  = match LOG10 limits with
    | a :: b :: _ => PyRes.PyOk (mk_obj (o_fa_freqs st) (o_fa_spectrum st) (LOGSPACE a b n) (o_smooth_fa_spectrum st) limits false)
    | _ => PyRes.PyRaise PyRes.IndexError
    end.
Proof. intros. apply P_gen_c07_obj.gen_by_range_eq. Qed.
Theorem C07_object_defaults_are_source :
  gen_gen_smooth_fa_spectrum_default_smooth_fa_freqs_is_none = true /\ gen_gen_smooth_fa_spectrum_default_band = 40%Z /\
  gen_generate_smooth_fa_spectrum_default_band = 40%Z.
Proof. exact P_gen_c07_obj.gen_c07_obj_defaults. Qed.
