(** The Q -> R transfer layer (DESIGN 2.2), statements only.

    Models are written once over [NumOps T]; the correspondence check EXECUTES them at [T := Q] (exact rationals shipped
    from the implementation), the property theorems are STATED at [T := R].  This file closes the gap between the two
    instances for the model functions listed below: on [rel]-related inputs ([rel q r := Q2R q = r], lib/Num.v) the Q
    instance and the R instance return related outputs --
      * numbers: [rel];  series: [relL = Forall2 rel];  matrices: [relLL];  (u, v, a) triples of series: [relL3];
        pairs / options: [relP] / [relO] (lib/Transfer.v);
      * indices, integer parts, flags, index lists (peaks, crossings, duration indices, refinement factors): EQUAL.
    Every theorem is for all inputs (no length or magnitude bound); proofs are by induction over [Forall2] /
    the recursion of the model and by composing the primitive lemmas of lib/Transfer.v (proofs/P_Transfer*.v).
    In particular the integer part agrees: [Qfloor q = up (Q2R q) - 1] ([Transfer_nfloor]).

    Auxiliary relations (defined next to the proofs, characterised here by [..._def] theorems):
      [relC]   the eight recurrence coefficients of an oscillator are pairwise [rel]-related;
      [relRed] up_red / down_red are both scalars or both arrays, [rel]-related;
      [relF]   a pair of unary functions mapping related arguments to related results (the power kernels of M_cycles);
      [relRS]  a pair of resampling oracles mapping related series to related series (scipy.signal.resample);
      [relF2]  the same for binary functions (the smoothing window of M_smooth);  [relM] a pair of measures list -> number;
      [relK]   a pair of (cos, sin) kernels;  [relTw] a pair of pointwise related twiddle tables (lib/Dft.v);
      [relSig] signals with related dt and values;  [relS] error-or-result sums: the same error, or related results;
      [relFF] / [relPF]  pairs of scipy butter+filtfilt / np.polyfit oracles mapping related inputs to related outputs;
      [relTag] = [relP relL eq]: values and the ndarray flag of a stored signal (M_multiple).
    Name clashes: several models define the same short name ([nceil], [ntrunc], [ofnat], [xat], [mean], [npow],
    [slice], ...).  With the imports below the unqualified name is that of the module imported LAST; every other
    one is written qualified ([M_surface.ntrunc], [M_helpers.mean], [M_peaks.npow], ...).

    NOT covered: M_cache, M_loader (no numeric Q/R pair: state machine / decimal text); the binary64 kernel of
    M_timestep (not a [NumOps] instance); the kernels built on transcendental functions, which exist only at R
    (M_sdof_R coefficients, Konno-Ohmachi window, cos/sin of an angle, real powers): the theorems about the functions
    that use them are stated for an ARBITRARY related pair of kernels ([relF], [relF2], [relK], [relC] coefficients),
    and whether a particular table of kernel values shipped to the Q-run is related to the real kernel is a per-case
    enclosure check of the property concerned (interval goals), not part of this file.  For the DFT the table
    [Qtwc]/[Qtws] is related to [Rtwc]/[Rtws] only where [tw_ok] (N | 4 j): [relTw Qtwc Rtwc] does NOT hold in
    general, so the [relTw]-theorems below do not instantiate at the real twiddles; the instance under the [tw_ok]
    side condition is proofs/P_C06.v [dft_transfer]. *)
From Coq Require Import ZArith QArith Reals List Bool.
From EQ Require Import lib.Num lib.NpList lib.Transfer.
From EQ Require Import model.M_displacements model.M_im model.M_sdof model.M_spectra model.M_peaks model.M_cycles
  model.M_surface model.M_helpers model.M_timestep lib.Dft model.M_smooth model.M_multiple model.M_fourier model.M_signalops.
From EQ Require proofs.P_Transfer proofs.P_Transfer_peaks proofs.P_Transfer_misc proofs.P_Transfer_more
  proofs.P_Transfer_sigops proofs.P_Transfer_Q2R.
Import ListNotations.
Notation relC := P_Transfer.relC.
Notation relF := P_Transfer_peaks.relF.
Notation relRed := P_Transfer_misc.relRed.
Notation relRS := P_Transfer_misc.relRS.
Notation relF2 := P_Transfer_more.relF2.
Notation relM := P_Transfer_more.relM.
Notation relK := P_Transfer_more.relK.
Notation relTw := P_Transfer_more.relTw.
Notation relTag := (relP relL (@eq bool)).
Notation relSig := P_Transfer_sigops.relSig.
Notation relS := P_Transfer_sigops.relS.
Notation relFF := P_Transfer_sigops.relFF.
Notation relPF := P_Transfer_sigops.relPF.


(** * M_displacements *)
Theorem Transfer_velo_trap :
  forall (dt : Q) (dt' : R) (a : list Q) (a' : list R),
    rel dt dt' -> relL a a' -> relL (velo_trap dt a) (velo_trap dt' a').
Proof. exact P_Transfer.velo_trap_transfer. Qed.
Theorem Transfer_disp_trap :
  forall (dt : Q) (dt' : R) (a : list Q) (a' : list R),
    rel dt dt' -> relL a a' -> relL (disp_trap dt a) (disp_trap dt' a').
Proof. exact P_Transfer.disp_trap_transfer. Qed.
Theorem Transfer_velo_rect_full :
  forall (dt : Q) (dt' : R) (a : list Q) (a' : list R),
    rel dt dt' -> relL a a' -> relL (velo_rect_full dt a) (velo_rect_full dt' a').
Proof. exact P_Transfer.velo_rect_full_transfer. Qed.
Theorem Transfer_velo_rect :
  forall (dt : Q) (dt' : R) (a : list Q) (a' : list R),
    rel dt dt' -> relL a a' -> relL (velo_rect dt a) (velo_rect dt' a').
Proof. exact P_Transfer.velo_rect_transfer. Qed.
Theorem Transfer_disp_rect :
  forall (dt : Q) (dt' : R) (a : list Q) (a' : list R),
    rel dt dt' -> relL a a' -> relL (disp_rect dt a) (disp_rect dt' a').
Proof. exact P_Transfer.disp_rect_transfer. Qed.
Theorem Transfer_velo_disp :
  forall (trap : bool) (dt : Q) (dt' : R) (a : list Q) (a' : list R),
    rel dt dt' -> relL a a' -> relP relL relL (velo_disp trap dt a) (velo_disp trap dt' a').
Proof. exact P_Transfer.velo_disp_transfer. Qed.
Theorem Transfer_calc_peak :
  forall (m : list Q) (m' : list R), relL m m' -> rel (calc_peak m) (calc_peak m').
Proof. exact P_Transfer.calc_peak_transfer. Qed.

(** * M_im *)
Theorem Transfer_trapz :
  forall (dx : Q) (dx' : R) (l : list Q) (l' : list R),
    rel dx dx' -> relL l l' -> rel (trapz dx l) (trapz dx' l').
Proof. exact P_Transfer.trapz_transfer. Qed.
Theorem Transfer_arias :
  forall (c : Q) (c' : R) (dt : Q) (dt' : R) (a : list Q) (a' : list R),
    rel c c' -> rel dt dt' -> relL a a' -> relL (arias c dt a) (arias c' dt' a').
Proof. exact P_Transfer.arias_transfer. Qed.
Theorem Transfer_cav :
  forall (dt : Q) (dt' : R) (a : list Q) (a' : list R),
    rel dt dt' -> relL a a' -> relL (cav dt a) (cav dt' a').
Proof. exact P_Transfer.cav_transfer. Qed.
Theorem Transfer_isv :
  forall (dt : Q) (dt' : R) (a : list Q) (a' : list R),
    rel dt dt' -> relL a a' -> relL (isv dt a) (isv dt' a').
Proof. exact P_Transfer.isv_transfer. Qed.
Theorem Transfer_int_abs :
  forall (dt : Q) (dt' : R) (x : list Q) (x' : list R),
    rel dt dt' -> relL x x' -> relL (int_abs dt x) (int_abs dt' x').
Proof. exact P_Transfer.int_abs_transfer. Qed.
Theorem Transfer_int_abs_acc :
  forall (dt : Q) (dt' : R) (a : list Q) (a' : list R),
    rel dt dt' -> relL a a' -> relL (int_abs_acc dt a) (int_abs_acc dt' a').
Proof. exact P_Transfer.int_abs_acc_transfer. Qed.
Theorem Transfer_int_abs_vel :
  forall (dt : Q) (dt' : R) (a : list Q) (a' : list R),
    rel dt dt' -> relL a a' -> relL (int_abs_vel dt a) (int_abs_vel dt' a').
Proof. exact P_Transfer.int_abs_vel_transfer. Qed.
Theorem Transfer_kin_energy :
  forall (v : list Q) (v' : list R), relL v v' -> relL (kin_energy v) (kin_energy v').
Proof. exact P_Transfer.kin_energy_transfer. Qed.
Theorem Transfer_unit_ke :
  forall (dt : Q) (dt' : R) (a : list Q) (a' : list R),
    rel dt dt' -> relL a a' -> relL (unit_ke dt a) (unit_ke dt' a').
Proof. exact P_Transfer.unit_ke_transfer. Qed.
Theorem Transfer_interp_grid :
  forall (fp : list Q) (fp' : list R) (t : Q) (t' : R),
    relL fp fp' -> rel t t' -> rel (interp_grid fp t) (interp_grid fp' t').
Proof. exact P_Transfer.interp_grid_transfer. Qed.
Theorem Transfer_window :
  forall (start len : nat) (l : list Q) (l' : list R),
    relL l l' -> relL (window start len l) (window start len l').
Proof. exact P_Transfer.window_transfer. Qed.
Theorem Transfer_cavdp_windows :
  forall (thr : Q) (thr' : R) (dt : Q) (dt' : R) (pps nwin start : nat) (acc : Q) 
    (acc' : R) (ag : list Q) (ag' : list R),
    rel thr thr' ->
    rel dt dt' ->
    rel acc acc' ->
    relL ag ag' ->
    relL (cavdp_windows thr dt pps nwin start acc ag) (cavdp_windows thr' dt' pps nwin start acc' ag').
Proof. exact P_Transfer.cavdp_windows_transfer. Qed.
Theorem Transfer_times :
  forall (dt : Q) (dt' : R) (n : nat), rel dt dt' -> relL (times dt n) (times dt' n).
Proof. exact P_Transfer.times_transfer. Qed.
Theorem Transfer_cav_dp :
  forall (g : Q) (g' : R) (thr : Q) (thr' : R) (dt : Q) (dt' : R) (pps nwin : nat) 
    (a : list Q) (a' : list R),
    rel g g' ->
    rel thr thr' ->
    rel dt dt' -> relL a a' -> relL (cav_dp g thr dt pps nwin a) (cav_dp g' thr' dt' pps nwin a').
Proof. exact P_Transfer.cav_dp_transfer. Qed.
Theorem Transfer_between :
  forall (lo : Q) (lo' : R) (hi : Q) (hi' : R) (tot : Q) (tot' : R) (x : Q) (x' : R),
    rel lo lo' -> rel hi hi' -> rel tot tot' -> rel x x' -> between lo hi tot x = between lo' hi' tot' x'.
Proof. exact P_Transfer.between_transfer. Qed.
Theorem Transfer_sig_dur_idx :
  forall (lo : Q) (lo' : R) (hi : Q) (hi' : R) (cum : list Q) (cum' : list R),
    rel lo lo' -> rel hi hi' -> relL cum cum' -> sig_dur_idx lo hi cum = sig_dur_idx lo' hi' cum'.
Proof. exact P_Transfer.sig_dur_idx_transfer. Qed.
Theorem Transfer_sig_dur_vals_idx :
  forall (lo : Q) (lo' : R) (hi : Q) (hi' : R) (a : list Q) (a' : list R),
    rel lo lo' -> rel hi hi' -> relL a a' -> sig_dur_vals_idx lo hi a = sig_dur_vals_idx lo' hi' a'.
Proof. exact P_Transfer.sig_dur_vals_idx_transfer. Qed.
Theorem Transfer_idx_time :
  forall (dt : Q) (dt' : R) (i : nat), rel dt dt' -> rel (idx_time dt i) (idx_time dt' i).
Proof. exact P_Transfer.idx_time_transfer. Qed.
Theorem Transfer_sig_dur_se :
  forall (dt : Q) (dt' : R) (lo : Q) (lo' : R) (hi : Q) (hi' : R) (cum : list Q) (cum' : list R),
    rel dt dt' ->
    rel lo lo' ->
    rel hi hi' ->
    relL cum cum' -> relO (relP rel rel) (sig_dur_se dt lo hi cum) (sig_dur_se dt' lo' hi' cum').
Proof. exact P_Transfer.sig_dur_se_transfer. Qed.
Theorem Transfer_brac_idx :
  forall (thr : Q) (thr' : R) (a : list Q) (a' : list R),
    rel thr thr' -> relL a a' -> brac_idx thr a = brac_idx thr' a'.
Proof. exact P_Transfer.brac_idx_transfer. Qed.
Theorem Transfer_brac_dur_se :
  forall (dt : Q) (dt' : R) (thr : Q) (thr' : R) (a : list Q) (a' : list R),
    rel dt dt' ->
    rel thr thr' -> relL a a' -> relO (relP rel rel) (brac_dur_se dt thr a) (brac_dur_se dt' thr' a').
Proof. exact P_Transfer.brac_dur_se_transfer. Qed.
Theorem Transfer_brac_dur :
  forall (dt : Q) (dt' : R) (thr : Q) (thr' : R) (a : list Q) (a' : list R),
    rel dt dt' -> rel thr thr' -> relL a a' -> rel (brac_dur dt thr a) (brac_dur dt' thr' a').
Proof. exact P_Transfer.brac_dur_transfer. Qed.

(** * M_sdof *)
Theorem Transfer_nj_step :
  forall (c : coeffs Q) (c' : coeffs R) (s : Q * Q) (s' : R * R) (f0 : Q) (f0' : R) (f1 : Q) (f1' : R),
    relC c c' ->
    relP rel rel s s' ->
    rel f0 f0' -> rel f1 f1' -> relP rel rel (nj_step c s f0 f1) (nj_step c' s' f0' f1').
Proof. exact P_Transfer.nj_step_transfer. Qed.
Theorem Transfer_nj_run :
  forall (c : coeffs Q) (c' : coeffs R) (s : Q * Q) (s' : R * R) (f0 : Q) (f0' : R) 
    (rest : list Q) (rest' : list R),
    relC c c' ->
    relP rel rel s s' ->
    rel f0 f0' -> relL rest rest' -> Forall2 (relP rel rel) (nj_run c s f0 rest) (nj_run c' s' f0' rest').
Proof. exact P_Transfer.nj_run_transfer. Qed.
Theorem Transfer_nj_series :
  forall (c : coeffs Q) (c' : coeffs R) (rec : list Q) (rec' : list R),
    relC c c' -> relL rec rec' -> Forall2 (relP rel rel) (nj_series c rec) (nj_series c' rec').
Proof. exact P_Transfer.nj_series_transfer. Qed.
Theorem Transfer_resp_acc :
  forall (xi : Q) (xi' : R) (w : Q) (w' : R) (s : Q * Q) (s' : R * R),
    rel xi xi' -> rel w w' -> relP rel rel s s' -> rel (resp_acc xi w s) (resp_acc xi' w' s').
Proof. exact P_Transfer.resp_acc_transfer. Qed.
Theorem Transfer_row :
  forall (c : coeffs Q) (c' : coeffs R) (xi : Q) (xi' : R) (w : Q) (w' : R) 
    (rec : list Q) (rec' : list R),
    relC c c' -> rel xi xi' -> rel w w' -> relL rec rec' -> relL3 (row c xi w rec) (row c' xi' w' rec').
Proof. exact P_Transfer.row_transfer. Qed.
Theorem Transfer_zero_row :
  forall (rec : list Q) (rec' : list R), relL rec rec' -> relL3 (zero_row rec) (zero_row rec').
Proof. exact P_Transfer.zero_row_transfer. Qed.
Theorem Transfer_w_of :
  forall (c2pi : Q) (c2pi' : R) (P : Q) (P' : R),
    rel c2pi c2pi' -> rel P P' -> rel (w_of c2pi P) (w_of c2pi' P').
Proof. exact P_Transfer.w_of_transfer. Qed.
Theorem Transfer_osc_periods :
  forall (ps : list Q) (ps' : list R), relL ps ps' -> relL (osc_periods ps) (osc_periods ps').
Proof. exact P_Transfer.osc_periods_transfer. Qed.
Theorem Transfer_leading_zero :
  forall (ps : list Q) (ps' : list R), relL ps ps' -> leading_zero ps = leading_zero ps'.
Proof. exact P_Transfer.leading_zero_transfer. Qed.
Theorem Transfer_response_with :
  forall (cfs : list (coeffs Q)) (cfs' : list (coeffs R)) (c2pi : Q) (c2pi' : R) 
    (xi : Q) (xi' : R) (ps : list Q) (ps' : list R) (rec : list Q) (rec' : list R),
    Forall2 relC cfs cfs' ->
    rel c2pi c2pi' ->
    rel xi xi' ->
    relL ps ps' ->
    relL rec rec' ->
    Forall2 relL3 (response_with cfs c2pi xi ps rec) (response_with cfs' c2pi' xi' ps' rec').
Proof. exact P_Transfer.response_with_transfer. Qed.
Theorem Transfer_us :
  forall (r : list (list Q * list Q * list Q)) (r' : list (list R * list R * list R)),
    Forall2 relL3 r r' -> relLL (us r) (us r').
Proof. exact P_Transfer.us_transfer. Qed.
Theorem Transfer_vs :
  forall (r : list (list Q * list Q * list Q)) (r' : list (list R * list R * list R)),
    Forall2 relL3 r r' -> relLL (vs r) (vs r').
Proof. exact P_Transfer.vs_transfer. Qed.
Theorem Transfer_accs :
  forall (r : list (list Q * list Q * list Q)) (r' : list (list R * list R * list R)),
    Forall2 relL3 r r' -> relLL (accs r) (accs r').
Proof. exact P_Transfer.accs_transfer. Qed.

(** * M_spectra *)
Theorem Transfer_absmax :
  forall (l : list Q) (l' : list R), relL l l' -> rel (absmax l) (absmax l').
Proof. exact P_Transfer.absmax_transfer. Qed.
Theorem Transfer_ws_pseudo :
  forall (pi2 : Q) (pi2' : R) (ps : list Q) (ps' : list R),
    rel pi2 pi2' -> relL ps ps' -> relL (ws_pseudo pi2 ps) (ws_pseudo pi2' ps').
Proof. exact P_Transfer.ws_pseudo_transfer. Qed.
Theorem Transfer_pga_cut :
  forall (dt : Q) (dt' : R) (ps : list Q) (ps' : list R) (m : list Q) (m' : list R) 
    (sas : list Q) (sas' : list R),
    rel dt dt' ->
    relL ps ps' -> relL m m' -> relL sas sas' -> relL (pga_cut dt ps m sas) (pga_cut dt' ps' m' sas').
Proof. exact P_Transfer.pga_cut_transfer. Qed.
Theorem Transfer_pseudo_spectra :
  forall (pi2 : Q) (pi2' : R) (dt : Q) (dt' : R) (ps : list Q) (ps' : list R) 
    (m : list Q) (m' : list R) (resp : list (list Q * list Q * list Q))
    (resp' : list (list R * list R * list R)),
    rel pi2 pi2' ->
    rel dt dt' ->
    relL ps ps' ->
    relL m m' ->
    Forall2 relL3 resp resp' ->
    relL3 (pseudo_spectra pi2 dt ps m resp) (pseudo_spectra pi2' dt' ps' m' resp').
Proof. exact P_Transfer.pseudo_spectra_transfer. Qed.
Theorem Transfer_true_spectra :
  forall (dt : Q) (dt' : R) (ps : list Q) (ps' : list R) (m : list Q) (m' : list R)
    (resp : list (list Q * list Q * list Q)) (resp' : list (list R * list R * list R)),
    rel dt dt' ->
    relL ps ps' ->
    relL m m' ->
    Forall2 relL3 resp resp' -> relL3 (true_spectra dt ps m resp) (true_spectra dt' ps' m' resp').
Proof. exact P_Transfer.true_spectra_transfer. Qed.
Theorem Transfer_min_nonzero_period :
  forall (ps : list Q) (ps' : list R),
    relL ps ps' -> rel (min_nonzero_period ps) (min_nonzero_period ps').
Proof. exact P_Transfer.min_nonzero_period_transfer. Qed.
Theorem Transfer_target_dt :
  forall (dt : Q) (dt' : R) (ratio : Q) (ratio' : R) (ps : list Q) (ps' : list R),
    rel dt dt' ->
    rel ratio ratio' -> relL ps ps' -> rel (target_dt dt ratio ps) (target_dt dt' ratio' ps').
Proof. exact P_Transfer.target_dt_transfer. Qed.
Theorem Transfer_nceil :
  forall (x : Q) (x' : R), rel x x' -> M_spectra.nceil x = M_spectra.nceil x'.
Proof. exact P_Transfer.nceil_transfer. Qed.
Theorem Transfer_obj_factor :
  forall (dt : Q) (dt' : R) (ratio : Q) (ratio' : R) (ps : list Q) (ps' : list R),
    rel dt dt' -> rel ratio ratio' -> relL ps ps' -> obj_factor dt ratio ps = obj_factor dt' ratio' ps'.
Proof. exact P_Transfer.obj_factor_transfer. Qed.
Theorem Transfer_interp_pos :
  forall (vals : list Q) (vals' : list R) (m : Z) (k : nat),
    relL vals vals' -> rel (interp_pos vals m k) (interp_pos vals' m k).
Proof. exact P_Transfer.interp_pos_transfer. Qed.
Theorem Transfer_interp_record :
  forall (vals : list Q) (vals' : list R) (m : Z),
    relL vals vals' -> relL (interp_record vals m) (interp_record vals' m).
Proof. exact P_Transfer.interp_record_transfer. Qed.
Theorem Transfer_uke_row :
  forall (v : list Q) (v' : list R), relL v v' -> rel (uke_row v) (uke_row v').
Proof. exact P_Transfer.uke_row_transfer. Qed.
Theorem Transfer_input_energy_series :
  forall (dt : Q) (dt' : R) (m : list Q) (m' : list R) (v : list Q) (v' : list R),
    rel dt dt' ->
    relL m m' -> relL v v' -> relL (input_energy_series dt m v) (input_energy_series dt' m' v').
Proof. exact P_Transfer.input_energy_series_transfer. Qed.
Theorem Transfer_input_energy :
  forall (dt : Q) (dt' : R) (m : list Q) (m' : list R) (v : list Q) (v' : list R),
    rel dt dt' -> relL m m' -> relL v v' -> rel (input_energy dt m v) (input_energy dt' m' v').
Proof. exact P_Transfer.input_energy_transfer. Qed.

(** * M_peaks *)
Theorem Transfer_xat :
  forall (xs : list Q) (xs' : list R) (i : nat),
    relL xs xs' -> rel (M_peaks.xat xs i) (M_peaks.xat xs' i).
Proof. exact P_Transfer_peaks.xat_transfer. Qed.
Theorem Transfer_next_diff_from :
  forall (v : Q) (v' : R) (j : nat) (l : list Q) (l' : list R),
    rel v v' -> relL l l' -> next_diff_from v j l = next_diff_from v' j l'.
Proof. exact P_Transfer_peaks.next_diff_from_transfer. Qed.
Theorem Transfer_next_diff :
  forall (xs : list Q) (xs' : list R) (i : nat), relL xs xs' -> next_diff xs i = next_diff xs' i.
Proof. exact P_Transfer_peaks.next_diff_transfer. Qed.
Theorem Transfer_pstart :
  forall (xs : list Q) (xs' : list R) (i : nat), relL xs xs' -> pstart xs i = pstart xs' i.
Proof. exact P_Transfer_peaks.pstart_transfer. Qed.
Theorem Transfer_final_start :
  forall (xs : list Q) (xs' : list R), relL xs xs' -> final_start xs = final_start xs'.
Proof. exact P_Transfer_peaks.final_start_transfer. Qed.
Theorem Transfer_turning :
  forall (xs : list Q) (xs' : list R) (i : nat), relL xs xs' -> turning xs i = turning xs' i.
Proof. exact P_Transfer_peaks.turning_transfer. Qed.
Theorem Transfer_is_peak :
  forall (xs : list Q) (xs' : list R) (fs i : nat), relL xs xs' -> is_peak xs fs i = is_peak xs' fs i.
Proof. exact P_Transfer_peaks.is_peak_transfer. Qed.
Theorem Transfer_peaks :
  forall (xs : list Q) (xs' : list R), relL xs xs' -> peaks xs = peaks xs'.
Proof. exact P_Transfer_peaks.peaks_transfer. Qed.
Theorem Transfer_first_up :
  forall (xs : list Q) (xs' : list R), relL xs xs' -> first_up xs = first_up xs'.
Proof. exact P_Transfer_peaks.first_up_transfer. Qed.
Theorem Transfer_peaks_sel :
  forall (ptype : nat) (xs : list Q) (xs' : list R),
    relL xs xs' -> peaks_sel ptype xs = peaks_sel ptype xs'.
Proof. exact P_Transfer_peaks.peaks_sel_transfer. Qed.
Theorem Transfer_interp_pts :
  forall (xp : list nat) (fp : list Q) (fp' : list R) (i : nat),
    relL fp fp' -> rel (interp_pts xp fp i) (interp_pts xp fp' i).
Proof. exact P_Transfer_peaks.interp_pts_transfer. Qed.
Theorem Transfer_half :
  rel half half.
Proof. exact P_Transfer_peaks.half_transfer. Qed.
Theorem Transfer_quarter :
  rel quarter quarter.
Proof. exact P_Transfer_peaks.quarter_transfer. Qed.
Theorem Transfer_n_cyc_of :
  forall (indys : list nat) (origin : bool) (n : nat),
    relL (n_cyc_of indys origin n) (n_cyc_of indys origin n).
Proof. exact P_Transfer_peaks.n_cyc_of_transfer. Qed.
Theorem Transfer_zc_test :
  forall (keep : bool) (xs : list Q) (xs' : list R) (i : nat),
    relL xs xs' -> zc_test keep xs i = zc_test keep xs' i.
Proof. exact P_Transfer_peaks.zc_test_transfer. Qed.
Theorem Transfer_zc0 :
  forall (keep : bool) (xs : list Q) (xs' : list R), relL xs xs' -> zc0 keep xs = zc0 keep xs'.
Proof. exact P_Transfer_peaks.zc0_transfer. Qed.
Theorem Transfer_maxabs_range :
  forall (xs : list Q) (xs' : list R) (a b : nat),
    relL xs xs' -> rel (maxabs_range xs a b) (maxabs_range xs' a b).
Proof. exact P_Transfer_peaks.maxabs_range_transfer. Qed.
Theorem Transfer_zc_prune :
  forall (fuel : nat) (tol : Q) (tol' : R) (xs : list Q) (xs' : list R) (l : list nat),
    rel tol tol' -> relL xs xs' -> zc_prune fuel tol xs l = zc_prune fuel tol' xs' l.
Proof. exact P_Transfer_peaks.zc_prune_transfer. Qed.
Theorem Transfer_zero_crossings :
  forall (keep : bool) (tol : Q) (tol' : R) (xs : list Q) (xs' : list R),
    rel tol tol' -> relL xs xs' -> zero_crossings keep tol xs = zero_crossings keep tol' xs'.
Proof. exact P_Transfer_peaks.zero_crossings_transfer. Qed.
Theorem Transfer_nsign :
  forall (x : Q) (x' : R), rel x x' -> rel (nsign x) (nsign x').
Proof. exact P_Transfer_peaks.nsign_transfer. Qed.
Theorem Transfer_sp_loop :
  forall (tol : Q) (tol' : R) (xs : list Q) (xs' : list R) (lst : Q) (lst' : R) 
    (bestv : Q) (bestv' : R) (besti : nat) (ps out : list nat),
    rel tol tol' ->
    relL xs xs' ->
    rel lst lst' ->
    rel bestv bestv' -> sp_loop tol xs lst bestv besti ps out = sp_loop tol' xs' lst' bestv' besti ps out.
Proof. exact P_Transfer_peaks.sp_loop_transfer. Qed.
Theorem Transfer_switched_peaks_of :
  forall (tol : Q) (tol' : R) (xs : list Q) (xs' : list R) (ps : list nat),
    rel tol tol' -> relL xs xs' -> switched_peaks_of tol xs ps = switched_peaks_of tol' xs' ps.
Proof. exact P_Transfer_peaks.switched_peaks_of_transfer. Qed.
Theorem Transfer_switched_peaks :
  forall (tol : Q) (tol' : R) (xs : list Q) (xs' : list R),
    rel tol tol' -> relL xs xs' -> switched_peaks tol xs = switched_peaks tol' xs'.
Proof. exact P_Transfer_peaks.switched_peaks_transfer. Qed.
Theorem Transfer_place :
  forall (n : nat) (idx : list nat) (vals : list Q) (vals' : list R),
    relL vals vals' -> relL (place n idx vals) (place n idx vals').
Proof. exact P_Transfer_peaks.place_transfer. Qed.
Theorem Transfer_sgn_first :
  forall (xs : list Q) (xs' : list R), relL xs xs' -> rel (sgn_first xs) (sgn_first xs').
Proof. exact P_Transfer_peaks.sgn_first_transfer. Qed.
Theorem Transfer_peaks_delta :
  forall (xs : list Q) (xs' : list R), relL xs xs' -> relL (peaks_delta xs) (peaks_delta xs').
Proof. exact P_Transfer_peaks.peaks_delta_transfer. Qed.
Theorem Transfer_alt_signs :
  forall (neg : bool) (l : list Q) (l' : list R), relL l l' -> relL (alt_signs neg l) (alt_signs neg l').
Proof. exact P_Transfer_peaks.alt_signs_transfer. Qed.
Theorem Transfer_pseudo_cyclic :
  forall (xs : list Q) (xs' : list R), relL xs xs' -> relL (pseudo_cyclic xs) (pseudo_cyclic xs').
Proof. exact P_Transfer_peaks.pseudo_cyclic_transfer. Qed.
Theorem Transfer_total_variation :
  forall (xs : list Q) (xs' : list R), relL xs xs' -> rel (total_variation xs) (total_variation xs').
Proof. exact P_Transfer_peaks.total_variation_transfer. Qed.
Theorem Transfer_npow :
  forall (x : Q) (x' : R) (e : nat), rel x x' -> rel (M_peaks.npow x e) (M_peaks.npow x' e).
Proof. exact P_Transfer_peaks.npow_transfer. Qed.
Theorem Transfer_prev_pts :
  forall (xp : list nat) (fp : list Q) (fp' : list R) (cur : Q) (cur' : R) (i : nat),
    relL fp fp' -> rel cur cur' -> rel (prev_pts xp fp cur i) (prev_pts xp fp' cur' i).
Proof. exact P_Transfer_peaks.prev_pts_transfer. Qed.
Theorem Transfer_n_cyc_power :
  forall (e : nat) (a_ref : Q) (a_ref' : R) (cut : Q) (cut' : R) (tiny : Q) 
    (tiny' : R) (xs : list Q) (xs' : list R),
    rel a_ref a_ref' ->
    rel cut cut' ->
    rel tiny tiny' ->
    relL xs xs' -> relL (n_cyc_power e a_ref cut tiny xs) (n_cyc_power e a_ref' cut' tiny' xs').
Proof. exact P_Transfer_peaks.n_cyc_power_transfer. Qed.
Theorem Transfer_cyc_amp_pow :
  forall (e : nat) (ncyc : Q) (ncyc' : R) (xs : list Q) (xs' : list R),
    rel ncyc ncyc' -> relL xs xs' -> relL (cyc_amp_pow e ncyc xs) (cyc_amp_pow e ncyc' xs').
Proof. exact P_Transfer_peaks.cyc_amp_pow_transfer. Qed.
Theorem Transfer_cyc_amp_combined_pow :
  forall (e : nat) (ncyc : Q) (ncyc' : R) (xs : list Q) (xs' : list R) (ys : list Q) (ys' : list R),
    rel ncyc ncyc' ->
    relL xs xs' ->
    relL ys ys' -> relL (cyc_amp_combined_pow e ncyc xs ys) (cyc_amp_combined_pow e ncyc' xs' ys').
Proof. exact P_Transfer_peaks.cyc_amp_combined_pow_transfer. Qed.

(** * M_cycles  (the real powers enter as function parameters: any pair of [rel]-respecting functions) *)
Theorem Transfer_scatter :
  forall (i n : nat) (idx : list nat) (vals : list Q) (vals' : list R),
    relL vals vals' -> relL (scatter i n idx vals) (scatter i n idx vals').
Proof. exact P_Transfer_peaks.scatter_transfer. Qed.
Theorem Transfer_delta_series :
  forall (xs : list Q) (xs' : list R), relL xs xs' -> relL (delta_series xs) (delta_series xs').
Proof. exact P_Transfer_peaks.delta_series_transfer. Qed.
Theorem Transfer_pseudo_series :
  forall (xs : list Q) (xs' : list R), relL xs xs' -> relL (pseudo_series xs) (pseudo_series xs').
Proof. exact P_Transfer_peaks.pseudo_series_transfer. Qed.
Theorem Transfer_tv :
  forall (xs : list Q) (xs' : list R), relL xs xs' -> rel (tv xs) (tv xs').
Proof. exact P_Transfer_peaks.tv_transfer. Qed.
Theorem Transfer_sgn_final :
  forall (xs : list Q) (xs' : list R), relL xs xs' -> rel (sgn_final xs) (sgn_final xs').
Proof. exact P_Transfer_peaks.sgn_final_transfer. Qed.
Theorem Transfer_shift :
  forall (c : Q) (c' : R) (xs : list Q) (xs' : list R),
    rel c c' -> relL xs xs' -> relL (shift c xs) (shift c' xs').
Proof. exact P_Transfer_peaks.shift_transfer. Qed.
Theorem Transfer_sw_series :
  forall (xs : list Q) (xs' : list R), relL xs xs' -> relL (sw_series xs) (sw_series xs').
Proof. exact P_Transfer_peaks.sw_series_transfer. Qed.
Theorem Transfer_amp_core :
  forall (pw : Q -> Q) (pw' : R -> R) (ncyc : Q) (ncyc' : R) (xs : list Q) (xs' : list R),
    relF pw pw' -> rel ncyc ncyc' -> relL xs xs' -> relL (amp_core pw ncyc xs) (amp_core pw' ncyc' xs').
Proof. exact P_Transfer_peaks.amp_core_transfer. Qed.
Theorem Transfer_cyc_amp :
  forall (pw : Q -> Q) (pw' : R -> R) (pwb : Q -> Q) (pwb' : R -> R) (ncyc : Q) 
    (ncyc' : R) (xs : list Q) (xs' : list R),
    relF pw pw' ->
    relF pwb pwb' ->
    rel ncyc ncyc' -> relL xs xs' -> relL (cyc_amp pw pwb ncyc xs) (cyc_amp pw' pwb' ncyc' xs').
Proof. exact P_Transfer_peaks.cyc_amp_transfer. Qed.
Theorem Transfer_comb_core :
  forall (pw : Q -> Q) (pw' : R -> R) (ncyc : Q) (ncyc' : R) (xs : list Q) (xs' : list R) 
    (ys : list Q) (ys' : list R),
    relF pw pw' ->
    rel ncyc ncyc' ->
    relL xs xs' -> relL ys ys' -> relL (comb_core pw ncyc xs ys) (comb_core pw' ncyc' xs' ys').
Proof. exact P_Transfer_peaks.comb_core_transfer. Qed.
Theorem Transfer_cyc_amp_combined :
  forall (pw : Q -> Q) (pw' : R -> R) (pwb : Q -> Q) (pwb' : R -> R) (ncyc : Q) 
    (ncyc' : R) (xs : list Q) (xs' : list R) (ys : list Q) (ys' : list R),
    relF pw pw' ->
    relF pwb pwb' ->
    rel ncyc ncyc' ->
    relL xs xs' ->
    relL ys ys' -> relL (cyc_amp_combined pw pwb ncyc xs ys) (cyc_amp_combined pw' pwb' ncyc' xs' ys').
Proof. exact P_Transfer_peaks.cyc_amp_combined_transfer. Qed.
Theorem Transfer_cyc_amp_gm :
  forall (sq : Q -> Q) (sq' : R -> R) (pw : Q -> Q) (pw' : R -> R) (pwb : Q -> Q) 
    (pwb' : R -> R) (ncyc : Q) (ncyc' : R) (xs : list Q) (xs' : list R) (ys : list Q) 
    (ys' : list R),
    relF sq sq' ->
    relF pw pw' ->
    relF pwb pwb' ->
    rel ncyc ncyc' ->
    relL xs xs' ->
    relL ys ys' -> relL (cyc_amp_gm sq pw pwb ncyc xs ys) (cyc_amp_gm sq' pw' pwb' ncyc' xs' ys').
Proof. exact P_Transfer_peaks.cyc_amp_gm_transfer. Qed.
Theorem Transfer_peak_amps :
  forall (cut : Q) (cut' : R) (tiny : Q) (tiny' : R) (xs : list Q) (xs' : list R),
    rel cut cut' ->
    rel tiny tiny' -> relL xs xs' -> relL (peak_amps cut tiny xs) (peak_amps cut' tiny' xs').
Proof. exact P_Transfer_peaks.peak_amps_transfer. Qed.
Theorem Transfer_n_cyc_core :
  forall (kn : Q -> Q) (kn' : R -> R) (cut : Q) (cut' : R) (tiny : Q) (tiny' : R) 
    (xs : list Q) (xs' : list R),
    relF kn kn' ->
    rel cut cut' ->
    rel tiny tiny' -> relL xs xs' -> relL (n_cyc_core kn cut tiny xs) (n_cyc_core kn' cut' tiny' xs').
Proof. exact P_Transfer_peaks.n_cyc_core_transfer. Qed.
Theorem Transfer_n_cyc_pl :
  forall (pw : Q -> Q) (pw' : R -> R) (a_ref : Q) (a_ref' : R) (cut : Q) (cut' : R) 
    (tiny : Q) (tiny' : R) (xs : list Q) (xs' : list R),
    relF pw pw' ->
    rel a_ref a_ref' ->
    rel cut cut' ->
    rel tiny tiny' ->
    relL xs xs' -> relL (n_cyc_pl pw a_ref cut tiny xs) (n_cyc_pl pw' a_ref' cut' tiny' xs').
Proof. exact P_Transfer_peaks.n_cyc_pl_transfer. Qed.

(** * M_surface *)
Theorem Transfer_surface_ntrunc :
  forall (x : Q) (x' : R), rel x x' -> M_surface.ntrunc x = M_surface.ntrunc x'.
Proof. exact P_Transfer_misc.s_ntrunc_transfer. Qed.
Theorem Transfer_surface_ofnat :
  forall i : nat, rel (M_surface.ofnat i) (M_surface.ofnat i).
Proof. exact P_Transfer_misc.s_ofnat_transfer. Qed.
Theorem Transfer_interp_grid0 :
  forall (v : list Q) (v' : list R) (x : Q) (x' : R),
    relL v v' -> rel x x' -> rel (interp_grid0 v x) (interp_grid0 v' x').
Proof. exact P_Transfer_misc.interp_grid0_transfer. Qed.
Theorem Transfer_red_at :
  forall (r : red Q) (r' : red R) (j : nat), relRed r r' -> rel (red_at r j) (red_at r' j).
Proof. exact P_Transfer_misc.red_at_transfer. Qed.
Theorem Transfer_shifts_of :
  forall (dt : Q) (dt' : R) (tts : list Q) (tts' : list R),
    rel dt dt' -> relL tts tts' -> relL (shifts_of dt tts) (shifts_of dt' tts').
Proof. exact P_Transfer_misc.shifts_of_transfer. Qed.
Theorem Transfer_max_shift :
  forall (dt : Q) (dt' : R) (tts : list Q) (tts' : list R),
    rel dt dt' -> relL tts tts' -> max_shift dt tts = max_shift dt' tts'.
Proof. exact P_Transfer_misc.max_shift_transfer. Qed.
Theorem Transfer_up_padded :
  forall (vals : list Q) (vals' : list R) (m : nat),
    relL vals vals' -> relL (up_padded vals m) (up_padded vals' m).
Proof. exact P_Transfer_misc.up_padded_transfer. Qed.
Theorem Transfer_down_wave :
  forall (vals : list Q) (vals' : list R) (len : nat) (s : Q) (s' : R),
    relL vals vals' -> rel s s' -> relL (down_wave vals len s) (down_wave vals' len s').
Proof. exact P_Transfer_misc.down_wave_transfer. Qed.
Theorem Transfer_acc_row :
  forall (nodal : bool) (vals : list Q) (vals' : list R) (m : nat) (ur : Q) 
    (ur' : R) (dr : Q) (dr' : R) (s : Q) (s' : R),
    relL vals vals' ->
    rel ur ur' ->
    rel dr dr' -> rel s s' -> relL (acc_row nodal vals m ur dr s) (acc_row nodal vals' m ur' dr' s').
Proof. exact P_Transfer_misc.acc_row_transfer. Qed.
Theorem Transfer_acc_rows :
  forall (nodal : bool) (dt : Q) (dt' : R) (vals : list Q) (vals' : list R) 
    (tts : list Q) (tts' : list R) (ur : red Q) (ur' : red R) (dr : red Q) (dr' : red R),
    rel dt dt' ->
    relL vals vals' ->
    relL tts tts' ->
    relRed ur ur' ->
    relRed dr dr' -> relLL (acc_rows nodal dt vals tts ur dr) (acc_rows nodal dt' vals' tts' ur' dr').
Proof. exact P_Transfer_misc.acc_rows_transfer. Qed.
Theorem Transfer_trim_row :
  forall (npts : nat) (si : Z) (row : list Q) (row' : list R),
    relL row row' -> relL (trim_row npts si row) (trim_row npts si row').
Proof. exact P_Transfer_misc.trim_row_transfer. Qed.
Theorem Transfer_trim_to_length :
  forall (npts : nat) (sds : list Z) (ss : Z) (trim start : bool) (vals : list (list Q))
    (vals' : list (list R)),
    relLL vals vals' ->
    relLL (trim_to_length npts sds ss trim start vals) (trim_to_length npts sds ss trim start vals').
Proof. exact P_Transfer_misc.trim_to_length_transfer. Qed.
Theorem Transfer_depth_shifts :
  forall (dt : Q) (dt' : R) (tts : list Q) (tts' : list R),
    rel dt dt' -> relL tts tts' -> depth_shifts dt tts = depth_shifts dt' tts'.
Proof. exact P_Transfer_misc.depth_shifts_transfer. Qed.
Theorem Transfer_start_shift :
  forall (dt : Q) (dt' : R) (stt : Q) (stt' : R),
    rel dt dt' -> rel stt stt' -> start_shift dt stt = start_shift dt' stt'.
Proof. exact P_Transfer_misc.start_shift_transfer. Qed.
Theorem Transfer_energy_rows :
  forall (nodal : bool) (dt : Q) (dt' : R) (vals : list Q) (vals' : list R) 
    (tts : list Q) (tts' : list R) (ur : red Q) (ur' : red R) (dr : red Q) (dr' : red R),
    rel dt dt' ->
    relL vals vals' ->
    relL tts tts' ->
    relRed ur ur' ->
    relRed dr dr' ->
    relLL (energy_rows nodal dt vals tts ur dr) (energy_rows nodal dt' vals' tts' ur' dr').
Proof. exact P_Transfer_misc.energy_rows_transfer. Qed.
Theorem Transfer_surface_energy :
  forall (nodal trim start : bool) (dt : Q) (dt' : R) (vals : list Q) (vals' : list R) 
    (tts : list Q) (tts' : list R) (ur : red Q) (ur' : red R) (dr : red Q) (dr' : red R) 
    (stt : Q) (stt' : R),
    rel dt dt' ->
    relL vals vals' ->
    relL tts tts' ->
    relRed ur ur' ->
    relRed dr dr' ->
    rel stt stt' ->
    relLL (surface_energy nodal trim start dt vals tts ur dr stt)
    (surface_energy nodal trim start dt' vals' tts' ur' dr' stt').
Proof. exact P_Transfer_misc.surface_energy_transfer. Qed.
Theorem Transfer_cum_abs_row :
  forall (e : list Q) (e' : list R), relL e e' -> relL (cum_abs_row e) (cum_abs_row e').
Proof. exact P_Transfer_misc.cum_abs_row_transfer. Qed.
Theorem Transfer_cum_abs_surface_energy :
  forall (nodal trim start : bool) (dt : Q) (dt' : R) (vals : list Q) (vals' : list R) 
    (tts : list Q) (tts' : list R) (ur : red Q) (ur' : red R) (dr : red Q) (dr' : red R) 
    (stt : Q) (stt' : R),
    rel dt dt' ->
    relL vals vals' ->
    relL tts tts' ->
    relRed ur ur' ->
    relRed dr dr' ->
    rel stt stt' ->
    relLL (cum_abs_surface_energy nodal trim start dt vals tts ur dr stt)
    (cum_abs_surface_energy nodal trim start dt' vals' tts' ur' dr' stt').
Proof. exact P_Transfer_misc.cum_abs_surface_energy_transfer. Qed.
Theorem Transfer_time_shift_motions :
  forall (nodal trim start : bool) (dt : Q) (dt' : R) (vals : list Q) (vals' : list R) 
    (tts : list Q) (tts' : list R) (ur : red Q) (ur' : red R) (dr : red Q) (dr' : red R) 
    (stt : Q) (stt' : R),
    rel dt dt' ->
    relL vals vals' ->
    relL tts tts' ->
    relRed ur ur' ->
    relRed dr dr' ->
    rel stt stt' ->
    relLL (time_shift_motions nodal trim start dt vals tts ur dr stt)
    (time_shift_motions nodal trim start dt' vals' tts' ur' dr' stt').
Proof. exact P_Transfer_misc.time_shift_motions_transfer. Qed.
Theorem Transfer_put_row :
  forall (width off : nat) (vals : list Q) (vals' : list R),
    relL vals vals' -> relL (put_row width off vals) (put_row width off vals').
Proof. exact P_Transfer_misc.put_row_transfer. Qed.
Theorem Transfer_put_in_2d :
  forall (vals : list Q) (vals' : list R) (shifts : list Z) (clip : nat),
    relL vals vals' -> relLL (put_in_2d vals shifts clip) (put_in_2d vals' shifts clip).
Proof. exact P_Transfer_misc.put_in_2d_transfer. Qed.
Theorem Transfer_join_w_shifts :
  forall (add : bool) (vals : list Q) (vals' : list R) (shifts : list Z),
    relL vals vals' -> relLL (join_w_shifts add vals shifts) (join_w_shifts add vals' shifts).
Proof. exact P_Transfer_misc.join_w_shifts_transfer. Qed.

(** * M_helpers *)
Theorem Transfer_helpers_ofnat :
  forall k : nat, rel (ofnat k) (ofnat k).
Proof. exact P_Transfer_misc.h_ofnat_transfer. Qed.
Theorem Transfer_helpers_xat :
  forall (l : list Q) (l' : list R) (i : nat), relL l l' -> rel (xat l i) (xat l' i).
Proof. exact P_Transfer_misc.h_xat_transfer. Qed.
Theorem Transfer_argmin_from :
  forall (best : Q) (best' : R) (bi i : nat) (l : list Q) (l' : list R),
    rel best best' -> relL l l' -> argmin_from best bi i l = argmin_from best' bi i l'.
Proof. exact P_Transfer_misc.argmin_from_transfer. Qed.
Theorem Transfer_argmin :
  forall (l : list Q) (l' : list R), relL l l' -> argmin l = argmin l'.
Proof. exact P_Transfer_misc.argmin_transfer. Qed.
Theorem Transfer_lin_row :
  forall (s1 : Q) (s1' : R) (s0 : Q) (s0' : R) (f0 : list Q) (f0' : list R) (f1 : list Q) (f1' : list R),
    rel s1 s1' ->
    rel s0 s0' -> relL f0 f0' -> relL f1 f1' -> relL (lin_row s1 s0 f0 f1) (lin_row s1' s0' f0' f1').
Proof. exact P_Transfer_misc.lin_row_transfer. Qed.
Theorem Transfer_interp2d_row :
  forall (eps : Q) (eps' : R) (xf : list Q) (xf' : list R) (f : list (list Q)) 
    (f' : list (list R)) (x : Q) (x' : R),
    rel eps eps' ->
    relL xf xf' -> relLL f f' -> rel x x' -> relL (interp2d_row eps xf f x) (interp2d_row eps' xf' f' x').
Proof. exact P_Transfer_misc.interp2d_row_transfer. Qed.
Theorem Transfer_interp2d :
  forall (eps : Q) (eps' : R) (x : list Q) (x' : list R) (xf : list Q) (xf' : list R)
    (f : list (list Q)) (f' : list (list R)),
    rel eps eps' ->
    relL x x' -> relL xf xf' -> relLL f f' -> relLL (interp2d eps x xf f) (interp2d eps' x' xf' f').
Proof. exact P_Transfer_misc.interp2d_transfer. Qed.
Theorem Transfer_ss_right :
  forall (q : Q) (q' : R) (x : list Q) (x' : list R),
    rel q q' -> relL x x' -> ss_right q x = ss_right q' x'.
Proof. exact P_Transfer_misc.ss_right_transfer. Qed.
Theorem Transfer_left_index :
  forall (x : list Q) (x' : list R) (q : Q) (q' : R),
    relL x x' -> rel q q' -> left_index x q = left_index x' q'.
Proof. exact P_Transfer_misc.left_index_transfer. Qed.
Theorem Transfer_interp_left :
  forall (x0 : list Q) (x0' : list R) (x : list Q) (x' : list R) (y : list Q) (y' : list R),
    relL x0 x0' -> relL x x' -> relL y y' -> relO relL (interp_left x0 x y) (interp_left x0' x' y').
Proof. exact P_Transfer_misc.interp_left_transfer. Qed.
Theorem Transfer_arange :
  forall n : nat, relL (arange n) (arange n).
Proof. exact P_Transfer_misc.arange_transfer. Qed.
Theorem Transfer_interp_left_noy :
  forall (x0 : list Q) (x0' : list R) (x : list Q) (x' : list R),
    relL x0 x0' -> relL x x' -> relO relL (interp_left_noy x0 x) (interp_left_noy x0' x').
Proof. exact P_Transfer_misc.interp_left_noy_transfer. Qed.
Theorem Transfer_roll_ext :
  forall (steps : nat) (m : rmode) (v : list Q) (v' : list R),
    relL v v' -> relL (roll_ext steps m v) (roll_ext steps m v').
Proof. exact P_Transfer_misc.roll_ext_transfer. Qed.
Theorem Transfer_roll_av :
  forall (steps : nat) (m : rmode) (v : list Q) (v' : list R),
    relL v v' -> relL (roll_av steps m v) (roll_av steps m v').
Proof. exact P_Transfer_misc.roll_av_transfer. Qed.
Theorem Transfer_npw :
  forall (x : Q) (x' : R) (e : nat), rel x x' -> rel (npw x e) (npw x' e).
Proof. exact P_Transfer_misc.npw_transfer. Qed.
Theorem Transfer_helpers_mean :
  forall (l : list Q) (l' : list R), relL l l' -> rel (M_helpers.mean l) (M_helpers.mean l').
Proof. exact P_Transfer_misc.mean_transfer. Qed.
Theorem Transfer_dev :
  forall (p : nat) (m : Q) (m' : R) (l : list Q) (l' : list R),
    rel m m' -> relL l l' -> rel (dev p m l) (dev p m' l').
Proof. exact P_Transfer_misc.dev_transfer. Qed.
Theorem Transfer_tril_row :
  forall (n i : nat) (v : list Q) (v' : list R), relL v v' -> relL (tril_row n i v) (tril_row n i v').
Proof. exact P_Transfer_misc.tril_row_transfer. Qed.
Theorem Transfer_triu_row :
  forall (n i : nat) (v : list Q) (v' : list R), relL v v' -> relL (triu_row n i v) (triu_row n i v').
Proof. exact P_Transfer_misc.triu_row_transfer. Qed.
Theorem Transfer_side_mean :
  forall (cnt : nat) (row : list Q) (row' : list R),
    relL row row' -> rel (side_mean cnt row) (side_mean cnt row').
Proof. exact P_Transfer_misc.side_mean_transfer. Qed.
Theorem Transfer_side_err :
  forall (p n cnt : nat) (row : list Q) (row' : list R),
    relL row row' -> rel (side_err p n cnt row) (side_err p n cnt row').
Proof. exact P_Transfer_misc.side_err_transfer. Qed.
Theorem Transfer_pre_mean :
  forall (v : list Q) (v' : list R) (i : nat), relL v v' -> rel (pre_mean v i) (pre_mean v' i).
Proof. exact P_Transfer_misc.pre_mean_transfer. Qed.
Theorem Transfer_post_mean :
  forall (v : list Q) (v' : list R) (i : nat), relL v v' -> rel (post_mean v i) (post_mean v' i).
Proof. exact P_Transfer_misc.post_mean_transfer. Qed.
Theorem Transfer_err_pre :
  forall (p : nat) (v : list Q) (v' : list R) (i : nat),
    relL v v' -> rel (err_pre p v i) (err_pre p v' i).
Proof. exact P_Transfer_misc.err_pre_transfer. Qed.
Theorem Transfer_err_post :
  forall (p : nat) (v : list Q) (v' : list R) (i : nat),
    relL v v' -> rel (err_post p v i) (err_post p v' i).
Proof. exact P_Transfer_misc.err_post_transfer. Qed.
Theorem Transfer_step_err_raw :
  forall (p : nat) (v : list Q) (v' : list R), relL v v' -> relL (step_err_raw p v) (step_err_raw p v').
Proof. exact P_Transfer_misc.step_err_raw_transfer. Qed.
Theorem Transfer_step_err :
  forall (p : nat) (d : sdir) (v : list Q) (v' : list R),
    relL v v' -> relL (step_err p d v) (step_err p d v').
Proof. exact P_Transfer_misc.step_err_transfer. Qed.
Theorem Transfer_step_err_spec :
  forall (p : nat) (v : list Q) (v' : list R) (i : nat),
    relL v v' -> rel (step_err_spec p v i) (step_err_spec p v' i).
Proof. exact P_Transfer_misc.step_err_spec_transfer. Qed.
Theorem Transfer_step_levels :
  forall (v : list Q) (v' : list R) (ind : nat),
    relL v v' -> relP rel rel (step_levels v ind) (step_levels v' ind).
Proof. exact P_Transfer_misc.step_levels_transfer. Qed.
Theorem Transfer_step_levels_auto :
  forall (v : list Q) (v' : list R),
    relL v v' -> relP rel rel (step_levels_auto v) (step_levels_auto v').
Proof. exact P_Transfer_misc.step_levels_auto_transfer. Qed.

(** * M_timestep (generic layer; the binary64 kernel of that file is not an instance of [NumOps]) *)
Theorem Transfer_timestep_nceil :
  forall (x : Q) (x' : R), rel x x' -> nceil x = nceil x'.
Proof. exact P_Transfer_misc.t_nceil_transfer. Qed.
Theorem Transfer_timestep_ntrunc :
  forall (x : Q) (x' : R), rel x x' -> ntrunc x = ntrunc x'.
Proof. exact P_Transfer_misc.t_ntrunc_transfer. Qed.
Theorem Transfer_factor_kind :
  forall (dt : Q) (dt' : R) (tg : Q) (tg' : R),
    rel dt dt' -> rel tg tg' -> factor_kind dt tg = factor_kind dt' tg'.
Proof. exact P_Transfer_misc.factor_kind_transfer. Qed.
Theorem Transfer_fac_val :
  forall f : fac, rel (fac_val f) (fac_val f).
Proof. exact P_Transfer_misc.fac_val_transfer. Qed.
Theorem Transfer_factor :
  forall (dt : Q) (dt' : R) (tg : Q) (tg' : R),
    rel dt dt' -> rel tg tg' -> rel (factor dt tg) (factor dt' tg').
Proof. exact P_Transfer_misc.factor_transfer. Qed.
Theorem Transfer_np_interp :
  forall (v : list Q) (v' : list R) (t : Q) (t' : R),
    relL v v' -> rel t t' -> rel (np_interp v t) (np_interp v' t').
Proof. exact P_Transfer_misc.np_interp_transfer. Qed.
Theorem Transfer_npts_raw : forall (k : fac) (n : nat), rel (npts_raw (T:=Q) k n) (npts_raw (T:=R) k n).
Proof. exact P_Transfer_misc.npts_raw_transfer. Qed.
Theorem Transfer_new_npts :
  forall (even : bool) (k : fac) (n : nat), new_npts (T:=Q) even k n = new_npts (T:=R) even k n.
Proof. exact P_Transfer_misc.new_npts_transfer. Qed.
Theorem Transfer_interp_at :
  forall (f : Q) (f' : R) (v : list Q) (v' : list R) (cnt : nat),
    rel f f' -> relL v v' -> relL (interp_at f v cnt) (interp_at f' v' cnt).
Proof. exact P_Transfer_misc.interp_at_transfer. Qed.
Theorem Transfer_interp_approx :
  forall (even : bool) (v : list Q) (v' : list R) (dt : Q) (dt' : R) (tg : Q) (tg' : R),
    relL v v' ->
    rel dt dt' -> rel tg tg' -> relP relL rel (interp_approx even v dt tg) (interp_approx even v' dt' tg').
Proof. exact P_Transfer_misc.interp_approx_transfer. Qed.
Theorem Transfer_rs_count : forall (k : fac) (n : nat), rs_count (T:=Q) k n = rs_count (T:=R) k n.
Proof. exact P_Transfer_misc.rs_count_transfer. Qed.
Theorem Transfer_new_npts_rs :
  forall (even : bool) (k : fac) (n : nat), new_npts_rs (T:=Q) even k n = new_npts_rs (T:=R) even k n.
Proof. exact P_Transfer_misc.new_npts_rs_transfer. Qed.
Theorem Transfer_resample_approx :
  forall (RS : list Q -> nat -> list Q) (RS' : list R -> nat -> list R) (even : bool) 
    (v : list Q) (v' : list R) (dt : Q) (dt' : R) (tg : Q) (tg' : R),
    relRS RS RS' ->
    relL v v' ->
    rel dt dt' ->
    rel tg tg' -> relP relL rel (resample_approx RS even v dt tg) (resample_approx RS' even v' dt' tg').
Proof. exact P_Transfer_misc.resample_approx_transfer. Qed.

(** * M_smooth (generic in the window function [w]) *)
Theorem Transfer_drop_zero_f :
  forall (fr : list Q) (fr' : list R), relL fr fr' -> relL (drop_zero_f fr) (drop_zero_f fr').
Proof. exact P_Transfer_more.drop_zero_f_transfer. Qed.
Theorem Transfer_drop_zero_a :
  forall (fr : list Q) (fr' : list R) (am : list Q) (am' : list R),
    relL fr fr' -> relL am am' -> relL (drop_zero_a fr am) (drop_zero_a fr' am').
Proof. exact P_Transfer_more.drop_zero_a_transfer. Qed.
Theorem Transfer_raw_col :
  forall (w : Q -> Q -> Q) (w' : R -> R -> R) (fr : list Q) (fr' : list R) (fc : Q) (fc' : R),
    relF2 w w' -> relL fr fr' -> rel fc fc' -> relL (raw_col w fr fc) (raw_col w' fr' fc').
Proof. exact P_Transfer_more.raw_col_transfer. Qed.
Theorem Transfer_norm_col :
  forall (col : list Q) (col' : list R), relL col col' -> relL (norm_col col) (norm_col col').
Proof. exact P_Transfer_more.norm_col_transfer. Qed.
Theorem Transfer_ko_col :
  forall (w : Q -> Q -> Q) (w' : R -> R -> R) (fr : list Q) (fr' : list R) (fc : Q) (fc' : R),
    relF2 w w' -> relL fr fr' -> rel fc fc' -> relL (ko_col w fr fc) (ko_col w' fr' fc').
Proof. exact P_Transfer_more.ko_col_transfer. Qed.
Theorem Transfer_wmean :
  forall (am : list Q) (am' : list R) (col : list Q) (col' : list R),
    relL am am' -> relL col col' -> rel (wmean am col) (wmean am' col').
Proof. exact P_Transfer_more.wmean_transfer. Qed.
Theorem Transfer_smooth_gen :
  forall (w : Q -> Q -> Q) (w' : R -> R -> R) (fr : list Q) (fr' : list R) (am : list Q) 
    (am' : list R) (tg : list Q) (tg' : list R),
    relF2 w w' ->
    relL fr fr' -> relL am am' -> relL tg tg' -> relL (smooth_gen w fr am tg) (smooth_gen w' fr' am' tg').
Proof. exact P_Transfer_more.smooth_gen_transfer. Qed.
Theorem Transfer_smooth_gen_default :
  forall (w : Q -> Q -> Q) (w' : R -> R -> R) (fr : list Q) (fr' : list R) (am : list Q) (am' : list R),
    relF2 w w' ->
    relL fr fr' -> relL am am' -> relL (smooth_gen_default w fr am) (smooth_gen_default w' fr' am').
Proof. exact P_Transfer_more.smooth_gen_default_transfer. Qed.
Theorem Transfer_matrix_gen :
  forall (w : Q -> Q -> Q) (w' : R -> R -> R) (fr : list Q) (fr' : list R) (tg : list Q) (tg' : list R),
    relF2 w w' -> relL fr fr' -> relL tg tg' -> relLL (matrix_gen w fr tg) (matrix_gen w' fr' tg').
Proof. exact P_Transfer_more.matrix_gen_transfer. Qed.
Theorem Transfer_smooth_w_matrix :
  forall (am : list Q) (am' : list R) (cols : list (list Q)) (cols' : list (list R)),
    relL am am' -> relLL cols cols' -> relL (smooth_w_matrix am cols) (smooth_w_matrix am' cols').
Proof. exact P_Transfer_more.smooth_w_matrix_transfer. Qed.
Theorem Transfer_first_last_above :
  forall (lim : Q) (lim' : R) (s : list Q) (s' : list R),
    rel lim lim' -> relL s s' -> first_last_above lim s = first_last_above lim' s'.
Proof. exact P_Transfer_more.first_last_above_transfer. Qed.
Theorem Transfer_bw_idx :
  forall (r : Q) (r' : R) (s : list Q) (s' : list R), rel r r' -> relL s s' -> bw_idx r s = bw_idx r' s'.
Proof. exact P_Transfer_more.bw_idx_transfer. Qed.
Theorem Transfer_sig_idx_range :
  forall (r : Q) (r' : R) (s : list Q) (s' : list R),
    rel r r' -> relL s s' -> sig_idx_range r s = sig_idx_range r' s'.
Proof. exact P_Transfer_more.sig_idx_range_transfer. Qed.
Theorem Transfer_take_pair :
  forall (fr : list Q) (fr' : list R) (r : option (nat * nat)),
    relL fr fr' -> relO (relP rel rel) (take_pair fr r) (take_pair fr' r).
Proof. exact P_Transfer_more.take_pair_transfer. Qed.
Theorem Transfer_bandwidth_freqs :
  forall (r : Q) (r' : R) (s : list Q) (s' : list R) (fr : list Q) (fr' : list R),
    rel r r' ->
    relL s s' -> relL fr fr' -> relO (relP rel rel) (bandwidth_freqs r s fr) (bandwidth_freqs r' s' fr').
Proof. exact P_Transfer_more.bandwidth_freqs_transfer. Qed.
Theorem Transfer_sig_freq_range :
  forall (r : Q) (r' : R) (s : list Q) (s' : list R) (fr : list Q) (fr' : list R),
    rel r r' ->
    relL s s' -> relL fr fr' -> relO (relP rel rel) (sig_freq_range r s fr) (sig_freq_range r' s' fr').
Proof. exact P_Transfer_more.sig_freq_range_transfer. Qed.

(** * M_multiple *)
Theorem Transfer_multiple_combine :
  forall (c : Q) (c' : R) (s : Q) (s' : R) (ns : list Q) (ns' : list R) (we : list Q) (we' : list R),
    rel c c' -> rel s s' -> relL ns ns' -> relL we we' -> relL (combine c s ns we) (combine c' s' ns' we').
Proof. exact P_Transfer_more.combine_transfer. Qed.
Theorem Transfer_linspace :
  forall (a : Q) (a' : R) (b : Q) (b' : R) (points : nat),
    rel a a' -> rel b b' -> relL (linspace a b points) (linspace a' b' points).
Proof. exact P_Transfer_more.linspace_transfer. Qed.
Theorem Transfer_mod360 :
  forall (x : Q) (x' : R), rel x x' -> rel (mod360 x) (mod360 x').
Proof. exact P_Transfer_more.mod360_transfer. Qed.
Theorem Transfer_scan_angles :
  forall (off : Q) (off' : R) (points : nat),
    rel off off' -> relL (scan_angles off points) (scan_angles off' points).
Proof. exact P_Transfer_more.scan_angles_transfer. Qed.
Theorem Transfer_scan_values :
  forall (m : list Q -> Q) (m' : list R -> R) (ks : list (Q * Q)) (ks' : list (R * R)) 
    (ns : list Q) (ns' : list R) (we : list Q) (we' : list R),
    relM m m' ->
    Forall2 (relP rel rel) ks ks' ->
    relL ns ns' -> relL we we' -> relL (scan_values m ks ns we) (scan_values m' ks' ns' we').
Proof. exact P_Transfer_more.scan_values_transfer. Qed.
Theorem Transfer_rotated_scan :
  forall (k : Q -> Q * Q) (k' : R -> R * R) (m : list Q -> Q) (m' : list R -> R) 
    (off : Q) (off' : R) (points : nat) (ns : list Q) (ns' : list R) (we : list Q) 
    (we' : list R),
    relK k k' ->
    relM m m' ->
    rel off off' ->
    relL ns ns' ->
    relL we we' ->
    relP relL relL (rotated_scan k m off points ns we) (rotated_scan k' m' off' points ns' we').
Proof. exact P_Transfer_more.rotated_scan_transfer. Qed.
Theorem Transfer_pyslice :
  forall (a b : nat) (l : list Q) (l' : list R), relL l l' -> relL (pyslice a b l) (pyslice a b l').
Proof. exact P_Transfer_more.pyslice_transfer. Qed.
Theorem Transfer_sqdiff :
  forall (x : list Q) (x' : list R) (y : list Q) (y' : list R),
    relL x x' -> relL y y' -> rel (sqdiff x y) (sqdiff x' y').
Proof. exact P_Transfer_more.sqdiff_transfer. Qed.
Theorem Transfer_prof_pos :
  forall (steps : nat) (bm : list Q) (bm' : list R) (om : list Q) (om' : list R) (i : nat),
    relL bm bm' -> relL om om' -> rel (prof_pos steps bm om i) (prof_pos steps bm' om' i).
Proof. exact P_Transfer_more.prof_pos_transfer. Qed.
Theorem Transfer_prof_neg :
  forall (steps : nat) (bm : list Q) (bm' : list R) (om : list Q) (om' : list R) (i : nat),
    relL bm bm' -> relL om om' -> rel (prof_neg steps bm om i) (prof_neg steps bm' om' i).
Proof. exact P_Transfer_more.prof_neg_transfer. Qed.
Theorem Transfer_prof_init :
  forall (steps : nat) (bm : list Q) (bm' : list R) (om : list Q) (om' : list R),
    relL bm bm' -> relL om om' -> rel (prof_init steps bm om) (prof_init steps bm' om').
Proof. exact P_Transfer_more.prof_init_transfer. Qed.
Theorem Transfer_lag_candidates :
  forall (steps : nat) (bm : list Q) (bm' : list R) (om : list Q) (om' : list R),
    relL bm bm' ->
    relL om om' -> Forall2 (relP eq rel) (lag_candidates steps bm om) (lag_candidates steps bm' om').
Proof. exact P_Transfer_more.lag_candidates_transfer. Qed.
Theorem Transfer_lag_upd :
  forall (st : Z * Q) (st' : Z * R) (c : Z * Q) (c' : Z * R),
    relP eq rel st st' -> relP eq rel c c' -> relP eq rel (lag_upd st c) (lag_upd st' c').
Proof. exact P_Transfer_more.lag_upd_transfer. Qed.
Theorem Transfer_find_lag_st :
  forall (steps : nat) (bm : list Q) (bm' : list R) (om : list Q) (om' : list R),
    relL bm bm' -> relL om om' -> relP eq rel (find_lag_st steps bm om) (find_lag_st steps bm' om').
Proof. exact P_Transfer_more.find_lag_st_transfer. Qed.
Theorem Transfer_find_lag :
  forall (steps : nat) (bm : list Q) (bm' : list R) (om : list Q) (om' : list R),
    relL bm bm' -> relL om om' -> find_lag steps bm om = find_lag steps bm' om'.
Proof. exact P_Transfer_more.find_lag_transfer. Qed.
Theorem Transfer_all_candidates :
  forall (steps : nat) (bm : list Q) (bm' : list R) (om : list Q) (om' : list R),
    relL bm bm' ->
    relL om om' -> Forall2 (relP eq rel) (all_candidates steps bm om) (all_candidates steps bm' om').
Proof. exact P_Transfer_more.all_candidates_transfer. Qed.
Theorem Transfer_apply_lag :
  forall (lag : Z) (om : list Q) (om' : list R),
    relL om om' -> relL (apply_lag lag om) (apply_lag lag om').
Proof. exact P_Transfer_more.apply_lag_transfer. Qed.
Theorem Transfer_reset_values :
  forall (v : list Q) (v' : list R), relL v v' -> relTag (reset_values v) (reset_values v').
Proof. exact P_Transfer_more.reset_values_transfer. Qed.
Theorem Transfer_length_check :
  forall (sigs : list (list Q)) (sigs' : list (list R)),
    relLL sigs sigs' -> length_check sigs = length_check sigs'.
Proof. exact P_Transfer_more.length_check_transfer. Qed.
Theorem Transfer_tm_one :
  forall (steps master : nat) (sigs : list (list Q)) (sigs' : list (list R)) 
    (s : nat) (v : list Q) (v' : list R),
    relLL sigs sigs' ->
    relL v v' -> relP relTag eq (tm_one steps master sigs s v) (tm_one steps master sigs' s v').
Proof. exact P_Transfer_more.tm_one_transfer. Qed.
Theorem Transfer_time_match :
  forall (steps master : nat) (sigs : list (list Q)) (sigs' : list (list R)),
    relLL sigs sigs' ->
    relP (Forall2 relTag) eq (time_match steps master sigs) (time_match steps master sigs').
Proof. exact P_Transfer_more.time_match_transfer. Qed.
Theorem Transfer_time_match_vals :
  forall (steps master : nat) (sigs : list (list Q)) (sigs' : list (list R)),
    relLL sigs sigs' -> relLL (time_match_vals steps master sigs) (time_match_vals steps master sigs').
Proof. exact P_Transfer_more.time_match_vals_transfer. Qed.
Theorem Transfer_multiple_trunc :
  forall (x : Q) (x' : R), rel x x' -> trunc x = trunc x'.
Proof. exact P_Transfer_more.trunc_transfer. Qed.
Theorem Transfer_time_indices :
  forall (dt : Q) (dt' : R) (start : Q) (start' : R) (stop : Q) (stop' : R),
    rel dt dt' ->
    rel start start' -> rel stop stop' -> time_indices dt start stop = time_indices dt' start' stop'.
Proof. exact P_Transfer_more.time_indices_transfer. Qed.
Theorem Transfer_section :
  forall (si ei : Z) (l : list Q) (l' : list R), relL l l' -> relL (section si ei l) (section si ei l').
Proof. exact P_Transfer_more.section_transfer. Qed.
Theorem Transfer_multiple_mean :
  forall (l : list Q) (l' : list R), relL l l' -> rel (M_multiple.mean l) (M_multiple.mean l').
Proof. exact P_Transfer_more.mean_transfer. Qed.
Theorem Transfer_section_average :
  forall (si ei : Z) (l : list Q) (l' : list R),
    relL l l' -> rel (section_average si ei l) (section_average si ei l').
Proof. exact P_Transfer_more.section_average_transfer. Qed.
Theorem Transfer_indices_ok :
  forall (ei : Z) (l : list Q) (l' : list R), relL l l' -> indices_ok ei l = indices_ok ei l'.
Proof. exact P_Transfer_more.indices_ok_transfer. Qed.
Theorem Transfer_same_start :
  forall (master : nat) (si ei : Z) (sigs : list (list Q)) (sigs' : list (list R)),
    relLL sigs sigs' -> relLL (same_start master si ei sigs) (same_start master si ei sigs').
Proof. exact P_Transfer_more.same_start_transfer. Qed.
Theorem Transfer_same_start_time :
  forall (master : nat) (dt : Q) (dt' : R) (start : Q) (start' : R) (stop : Q) 
    (stop' : R) (sigs : list (list Q)) (sigs' : list (list R)),
    rel dt dt' ->
    rel start start' ->
    rel stop stop' ->
    relLL sigs sigs' ->
    relLL (same_start_time master dt start stop sigs) (same_start_time master dt' start' stop' sigs').
Proof. exact P_Transfer_more.same_start_time_transfer. Qed.

(** * M_fourier and lib/Dft.v *)
Theorem Transfer_wsum_from :
  forall (f : Z -> Q) (f' : Z -> R) (i : Z) (x : list Q) (x' : list R),
    (forall n : Z, rel (f n) (f' n)) -> relL x x' -> rel (wsum_from f i x) (wsum_from f' i x').
Proof. exact P_Transfer_more.wsum_from_transfer. Qed.
Theorem Transfer_pad_trunc :
  forall (N : nat) (x : list Q) (x' : list R), relL x x' -> relL (pad_trunc N x) (pad_trunc N x').
Proof. exact P_Transfer_more.pad_trunc_transfer. Qed.
Theorem Transfer_dft_re :
  forall (twc : Z -> Z -> Q) (twc' : Z -> Z -> R) (N : Z) (x : list Q) (x' : list R) (k : Z),
    relTw twc twc' -> relL x x' -> rel (dft_re twc N x k) (dft_re twc' N x' k).
Proof. exact P_Transfer_more.dft_re_transfer. Qed.
Theorem Transfer_dft_im :
  forall (tws : Z -> Z -> Q) (tws' : Z -> Z -> R) (N : Z) (x : list Q) (x' : list R) (k : Z),
    relTw tws tws' -> relL x x' -> rel (dft_im tws N x k) (dft_im tws' N x' k).
Proof. exact P_Transfer_more.dft_im_transfer. Qed.
Theorem Transfer_idft_re :
  forall (twc : Z -> Z -> Q) (twc' : Z -> Z -> R) (tws : Z -> Z -> Q) (tws' : Z -> Z -> R) 
    (N : Z) (re : list Q) (re' : list R) (im : list Q) (im' : list R) (n : Z),
    relTw twc twc' ->
    relTw tws tws' ->
    relL re re' -> relL im im' -> rel (idft_re twc tws N re im n) (idft_re twc' tws' N re' im' n).
Proof. exact P_Transfer_more.idft_re_transfer. Qed.
Theorem Transfer_idft_im :
  forall (twc : Z -> Z -> Q) (twc' : Z -> Z -> R) (tws : Z -> Z -> Q) (tws' : Z -> Z -> R) 
    (N : Z) (re : list Q) (re' : list R) (im : list Q) (im' : list R) (n : Z),
    relTw twc twc' ->
    relTw tws tws' ->
    relL re re' -> relL im im' -> rel (idft_im twc tws N re im n) (idft_im twc' tws' N re' im' n).
Proof. exact P_Transfer_more.idft_im_transfer. Qed.
Theorem Transfer_fas_re :
  forall (twc : Z -> Z -> Q) (twc' : Z -> Z -> R) (N : Z) (dt : Q) (dt' : R) (x : list Q) (x' : list R),
    relTw twc twc' -> rel dt dt' -> relL x x' -> relL (fas_re twc N dt x) (fas_re twc' N dt' x').
Proof. exact P_Transfer_more.fas_re_transfer. Qed.
Theorem Transfer_fas_im :
  forall (tws : Z -> Z -> Q) (tws' : Z -> Z -> R) (N : Z) (dt : Q) (dt' : R) (x : list Q) (x' : list R),
    relTw tws tws' -> rel dt dt' -> relL x x' -> relL (fas_im tws N dt x) (fas_im tws' N dt' x').
Proof. exact P_Transfer_more.fas_im_transfer. Qed.
Theorem Transfer_fa_freqs :
  forall (N : Z) (dt : Q) (dt' : R), rel dt dt' -> relL (fa_freqs N dt) (fa_freqs N dt').
Proof. exact P_Transfer_more.fa_freqs_transfer. Qed.
Theorem Transfer_spectrum :
  forall (twc : Z -> Z -> Q) (twc' : Z -> Z -> R) (tws : Z -> Z -> Q) (tws' : Z -> Z -> R) 
    (N : Z) (dt : Q) (dt' : R) (x : list Q) (x' : list R),
    relTw twc twc' ->
    relTw tws tws' ->
    rel dt dt' -> relL x x' -> relL3 (spectrum twc tws N dt x) (spectrum twc' tws' N dt' x').
Proof. exact P_Transfer_more.spectrum_transfer. Qed.
Theorem Transfer_npts_of :
  forall (x : list Q) (x' : list R), relL x x' -> npts_of x = npts_of x'.
Proof. exact P_Transfer_more.npts_of_transfer. Qed.
Theorem Transfer_sig_spectrum :
  forall (twc : Z -> Z -> Q) (twc' : Z -> Z -> R) (tws : Z -> Z -> Q) (tws' : Z -> Z -> R) 
    (p2 : Z) (nopt : option Z) (dt : Q) (dt' : R) (x : list Q) (x' : list R),
    relTw twc twc' ->
    relTw tws tws' ->
    rel dt dt' ->
    relL x x' -> relL3 (sig_spectrum twc tws p2 nopt dt x) (sig_spectrum twc' tws' p2 nopt dt' x').
Proof. exact P_Transfer_more.sig_spectrum_transfer. Qed.
Theorem Transfer_calc_spectrum :
  forall (twc : Z -> Z -> Q) (twc' : Z -> Z -> R) (tws : Z -> Z -> Q) (tws' : Z -> Z -> R)
    (nopt p2opt : option Z) (dt : Q) (dt' : R) (x : list Q) (x' : list R),
    relTw twc twc' ->
    relTw tws tws' ->
    rel dt dt' ->
    relL x x' -> relL3 (calc_spectrum twc tws nopt p2opt dt x) (calc_spectrum twc' tws' nopt p2opt dt' x').
Proof. exact P_Transfer_more.calc_spectrum_transfer. Qed.
Theorem Transfer_gen_spectrum :
  forall (twc : Z -> Z -> Q) (twc' : Z -> Z -> R) (tws : Z -> Z -> Q) (tws' : Z -> Z -> R)
    (n_pad : bool) (dt : Q) (dt' : R) (x : list Q) (x' : list R),
    relTw twc twc' ->
    relTw tws tws' ->
    rel dt dt' ->
    relL x x' -> relL3 (gen_spectrum twc tws n_pad dt x) (gen_spectrum twc' tws' n_pad dt' x').
Proof. exact P_Transfer_more.gen_spectrum_transfer. Qed.
Theorem Transfer_herm_re :
  forall (dt : Q) (dt' : R) (re : list Q) (re' : list R),
    rel dt dt' -> relL re re' -> relL (herm_re dt re) (herm_re dt' re').
Proof. exact P_Transfer_more.herm_re_transfer. Qed.
Theorem Transfer_herm_im :
  forall (dt : Q) (dt' : R) (im : list Q) (im' : list R),
    rel dt dt' -> relL im im' -> relL (herm_im dt im) (herm_im dt' im').
Proof. exact P_Transfer_more.herm_im_transfer. Qed.
Theorem Transfer_fas2values_re :
  forall (twc : Z -> Z -> Q) (twc' : Z -> Z -> R) (tws : Z -> Z -> Q) (tws' : Z -> Z -> R) 
    (re : list Q) (re' : list R) (im : list Q) (im' : list R) (dt : Q) (dt' : R),
    relTw twc twc' ->
    relTw tws tws' ->
    relL re re' ->
    relL im im' ->
    rel dt dt' -> relL (fas2values_re twc tws re im dt) (fas2values_re twc' tws' re' im' dt').
Proof. exact P_Transfer_more.fas2values_re_transfer. Qed.
Theorem Transfer_fas2values_im :
  forall (twc : Z -> Z -> Q) (twc' : Z -> Z -> R) (tws : Z -> Z -> Q) (tws' : Z -> Z -> R) 
    (re : list Q) (re' : list R) (im : list Q) (im' : list R) (dt : Q) (dt' : R),
    relTw twc twc' ->
    relTw tws tws' ->
    relL re re' ->
    relL im im' ->
    rel dt dt' -> relL (fas2values_im twc tws re im dt) (fas2values_im twc' tws' re' im' dt').
Proof. exact P_Transfer_more.fas2values_im_transfer. Qed.
Theorem Transfer_amp2 :
  forall (re : list Q) (re' : list R) (im : list Q) (im' : list R),
    relL re re' -> relL im im' -> relL (amp2 re im) (amp2 re' im').
Proof. exact P_Transfer_more.amp2_transfer. Qed.
Theorem Transfer_max_fa_bin :
  forall (re : list Q) (re' : list R) (im : list Q) (im' : list R),
    relL re re' -> relL im im' -> max_fa_bin re im = max_fa_bin re' im'.
Proof. exact P_Transfer_more.max_fa_bin_transfer. Qed.
Theorem Transfer_max_fa_period :
  forall (re : list Q) (re' : list R) (im : list Q) (im' : list R) (fr : list Q) (fr' : list R),
    relL re re' ->
    relL im im' -> relL fr fr' -> relO rel (max_fa_period re im fr) (max_fa_period re' im' fr').
Proof. exact P_Transfer_more.max_fa_period_transfer. Qed.

(** * M_signalops *)
Theorem Transfer_lastn :
  forall (k : nat) (l : list Q) (l' : list R), relL l l' -> relL (lastn k l) (lastn k l').
Proof. exact P_Transfer_sigops.lastn_transfer. Qed.
Theorem Transfer_dot :
  forall (u : list Q) (u' : list R) (v : list Q) (v' : list R),
    relL u u' -> relL v v' -> rel (dot u v) (dot u' v').
Proof. exact P_Transfer_sigops.dot_transfer. Qed.
Theorem Transfer_signalops_mean :
  forall (l : list Q) (l' : list R), relL l l' -> rel (mean l) (mean l').
Proof. exact P_Transfer_sigops.mean_transfer. Qed.
Theorem Transfer_nyquist :
  forall (dt : Q) (dt' : R), rel dt dt' -> rel (nyquist dt) (nyquist dt').
Proof. exact P_Transfer_sigops.nyquist_transfer. Qed.
Theorem Transfer_butter_args :
  forall (cont : container) (cut : list (option Q)) (cut' : list (option R)) (dt : Q) (dt' : R),
    Forall2 (relO rel) cut cut' ->
    rel dt dt' -> relS (relP eq relL) (butter_args cont cut dt) (butter_args cont cut' dt').
Proof. exact P_Transfer_sigops.butter_args_transfer. Qed.
Theorem Transfer_gibbs_pad :
  forall (grange nl s f : nat) (x : list Q) (x' : list R),
    relL x x' -> relL (gibbs_pad grange nl s f x) (gibbs_pad grange nl s f x').
Proof. exact P_Transfer_sigops.gibbs_pad_transfer. Qed.
Theorem Transfer_butter_pass :
  forall (FF : nat -> btype -> list Q -> list Q -> list Q)
    (FF' : nat -> btype -> list R -> list R -> list R) (order : nat) (cont : container)
    (cut : list (option Q)) (cut' : list (option R)) (g : gibbs) (extra grange : nat) 
    (s s' : signal),
    relFF FF FF' ->
    Forall2 (relO rel) cut cut' ->
    relSig s s' ->
    relS relSig (butter_pass FF order cont cut g extra grange s)
    (butter_pass FF' order cont cut' g extra grange s').
Proof. exact P_Transfer_sigops.butter_pass_transfer. Qed.
Theorem Transfer_butter_pass_scipy_args :
  forall (order : nat) (cont : container) (cut : list (option Q)) (cut' : list (option R)) 
    (g : gibbs) (extra grange : nat) (s s' : signal),
    Forall2 (relO rel) cut cut' ->
    relSig s s' ->
    relS (relP (relP eq relL) relL) (butter_pass_scipy_args order cont cut g extra grange s)
    (butter_pass_scipy_args order cont cut' g extra grange s').
Proof. exact P_Transfer_sigops.butter_pass_scipy_args_transfer. Qed.
Theorem Transfer_signalops_npow :
  forall (x : Q) (x' : R) (e : nat), rel x x' -> rel (npow x e) (npow x' e).
Proof. exact P_Transfer_sigops.npow_transfer. Qed.
Theorem Transfer_butter_gain2 :
  forall (bt : btype) (order : nat) (t : Q) (t' : R) (tc : list Q) (tc' : list R),
    rel t t' -> relL tc tc' -> rel (butter_gain2 bt order t tc) (butter_gain2 bt order t' tc').
Proof. exact P_Transfer_sigops.butter_gain2_transfer. Qed.
Theorem Transfer_linspace01 :
  forall n : nat, relL (linspace01 n) (linspace01 n).
Proof. exact P_Transfer_sigops.linspace01_transfer. Qed.
Theorem Transfer_prow :
  forall (k : nat) (x : Q) (x' : R), rel x x' -> relL (prow k x) (prow k x').
Proof. exact P_Transfer_sigops.prow_transfer. Qed.
Theorem Transfer_design :
  forall (k : nat) (xs : list Q) (xs' : list R), relL xs xs' -> relLL (design k xs) (design k xs').
Proof. exact P_Transfer_sigops.design_transfer. Qed.
Theorem Transfer_mv :
  forall (A : list (list Q)) (A' : list (list R)) (c : list Q) (c' : list R),
    relLL A A' -> relL c c' -> relL (mv A c) (mv A' c').
Proof. exact P_Transfer_sigops.mv_transfer. Qed.
Theorem Transfer_col :
  forall (j : nat) (A : list (list Q)) (A' : list (list R)), relLL A A' -> relL (col j A) (col j A').
Proof. exact P_Transfer_sigops.col_transfer. Qed.
Theorem Transfer_remove_poly_with :
  forall (k : nat) (c : list Q) (c' : list R) (y : list Q) (y' : list R),
    relL c c' -> relL y y' -> relL (remove_poly_with k c y) (remove_poly_with k c' y').
Proof. exact P_Transfer_sigops.remove_poly_with_transfer. Qed.
Theorem Transfer_remove_poly :
  forall (pf : nat -> list Q -> list Q -> list Q) (pf' : nat -> list R -> list R -> list R) 
    (k : nat) (y : list Q) (y' : list R),
    relPF pf pf' -> relL y y' -> relL (remove_poly pf k y) (remove_poly pf' k y').
Proof. exact P_Transfer_sigops.remove_poly_transfer. Qed.
Theorem Transfer_remove_poly_sig :
  forall (pf : nat -> list Q -> list Q -> list Q) (pf' : nat -> list R -> list R -> list R) 
    (k : nat) (s s' : signal),
    relPF pf pf' -> relSig s s' -> relSig (remove_poly_sig pf k s) (remove_poly_sig pf' k s').
Proof. exact P_Transfer_sigops.remove_poly_sig_transfer. Qed.
Theorem Transfer_normal_okb :
  forall (A : list (list Q)) (A' : list (list R)) (y : list Q) (y' : list R) 
    (c : list Q) (c' : list R) (m : nat),
    relLL A A' -> relL y y' -> relL c c' -> normal_okb A y c m = normal_okb A' y' c' m.
Proof. exact P_Transfer_sigops.normal_okb_transfer. Qed.
Theorem Transfer_normal_aug :
  forall (A : list (list Q)) (A' : list (list R)) (y : list Q) (y' : list R) (m : nat),
    relLL A A' -> relL y y' -> relLL (normal_aug A y m) (normal_aug A' y' m).
Proof. exact P_Transfer_sigops.normal_aug_transfer. Qed.
Theorem Transfer_find_pivot :
  forall (j : nat) (rows : list (list Q)) (rows' : list (list R)),
    relLL rows rows' -> relO (relP relL relLL) (find_pivot j rows) (find_pivot j rows').
Proof. exact P_Transfer_sigops.find_pivot_transfer. Qed.
Theorem Transfer_gauss_jordan :
  forall (cols j : nat) (done : list (list Q)) (done' : list (list R)) (todo : list (list Q))
    (todo' : list (list R)),
    relLL done done' ->
    relLL todo todo' -> relO relLL (gauss_jordan cols j done todo) (gauss_jordan cols j done' todo').
Proof. exact P_Transfer_sigops.gauss_jordan_transfer. Qed.
Theorem Transfer_lstsq_poly :
  forall (k : nat) (xs : list Q) (xs' : list R) (y : list Q) (y' : list R),
    relL xs xs' -> relL y y' -> relL (lstsq_poly k xs y) (lstsq_poly k xs' y').
Proof. exact P_Transfer_sigops.lstsq_poly_transfer. Qed.
Theorem Transfer_add_constant :
  forall (c : Q) (c' : R) (s s' : signal),
    rel c c' -> relSig s s' -> relSig (add_constant c s) (add_constant c' s').
Proof. exact P_Transfer_sigops.add_constant_transfer. Qed.
Theorem Transfer_add_series :
  forall (ser : list Q) (ser' : list R) (s s' : signal),
    relL ser ser' -> relSig s s' -> relS relSig (add_series ser s) (add_series ser' s').
Proof. exact P_Transfer_sigops.add_series_transfer. Qed.
Theorem Transfer_add_signal :
  forall (o o' : option signal) (s s' : signal),
    relO relSig o o' -> relSig s s' -> relS relSig (add_signal o s) (add_signal o' s').
Proof. exact P_Transfer_sigops.add_signal_transfer. Qed.
Theorem Transfer_running_average_at :
  forall (w : nat) (x : list Q) (x' : list R) (i : nat),
    relL x x' -> rel (running_average_at w x i) (running_average_at w x' i).
Proof. exact P_Transfer_sigops.running_average_at_transfer. Qed.
Theorem Transfer_running_average :
  forall (w : nat) (x : list Q) (x' : list R),
    relL x x' -> relL (running_average w x) (running_average w x').
Proof. exact P_Transfer_sigops.running_average_transfer. Qed.
Theorem Transfer_running_average_sig :
  forall (w : nat) (s s' : signal),
    relSig s s' -> relSig (running_average_sig w s) (running_average_sig w s').
Proof. exact P_Transfer_sigops.running_average_sig_transfer. Qed.
Theorem Transfer_window_mean :
  forall (w : nat) (x : list Q) (x' : list R) (i : nat),
    relL x x' -> rel (window_mean w x i) (window_mean w x' i).
Proof. exact P_Transfer_sigops.window_mean_transfer. Qed.

(** * Primitives (lib/Transfer.v) *)
Theorem Transfer_nfloor : forall (a : Q) (x : R), rel a x -> nfloor a = nfloor x.
Proof. exact rel_floor. Qed.
Theorem Transfer_Qfloor_up : forall q : Q, Qround.Qfloor q = (up (Q2R q) - 1)%Z.
Proof. exact Qfloor_up. Qed.
Theorem Transfer_amax : forall (l : list Q) (l' : list R), relL l l' -> rel (amax l) (amax l').
Proof. exact rel_amax. Qed.
Theorem Transfer_amin : forall (l : list Q) (l' : list R), relL l l' -> rel (amin l) (amin l').
Proof. exact rel_amin. Qed.
Theorem Transfer_nsum : forall (l : list Q) (l' : list R), relL l l' -> rel (nsum l) (nsum l').
Proof. exact rel_nsum. Qed.
Theorem Transfer_diff : forall (l : list Q) (l' : list R), relL l l' -> relL (diff l) (diff l').
Proof. exact relL_diff. Qed.
Theorem Transfer_argmax : forall (l : list Q) (l' : list R), relL l l' -> argmax l = argmax l'.
Proof. exact argmax_transfer. Qed.
Theorem Transfer_where_idx :
  forall (p : Q -> bool) (q : R -> bool) (l : list Q) (l' : list R),
    (forall a a', rel a a' -> p a = q a') -> relL l l' -> where_idx p l = where_idx q l'.
Proof. exact (F2_where_idx rel). Qed.
Theorem Transfer_relL_iff : forall (l : list Q) (l' : list R), relL l l' <-> l' = map Q2R l.
Proof. exact relL_iff. Qed.
Theorem Transfer_relLL_iff : forall (l : list (list Q)) (l' : list (list R)), relLL l l' <-> l' = map (map Q2R) l.
Proof. exact relLL_iff. Qed.

(** * The auxiliary relations *)
Theorem Transfer_relC_def : forall (c : coeffs Q) (c' : coeffs R),
  relC c c' <->
  rel (a11 c) (a11 c') /\ rel (a12 c) (a12 c') /\ rel (a21 c) (a21 c') /\ rel (a22 c) (a22 c') /\
  rel (b11 c) (b11 c') /\ rel (b12 c) (b12 c') /\ rel (b21 c) (b21 c') /\ rel (b22 c) (b22 c').
Proof. intros; reflexivity. Qed.
Theorem Transfer_relRed_def : forall (r : red Q) (r' : red R),
  relRed r r' <-> (exists x x', r = RScalar x /\ r' = RScalar x' /\ rel x x') \/
                  (exists l l', r = RArr l /\ r' = RArr l' /\ relL l l').
Proof. exact P_Transfer_misc.relRed_def. Qed.
Theorem Transfer_relF_def : forall (f : Q -> Q) (g : R -> R), relF f g <-> forall a x, rel a x -> rel (f a) (g x).
Proof. intros; reflexivity. Qed.
Theorem Transfer_relRS_def : forall (RS : list Q -> nat -> list Q) (RS' : list R -> nat -> list R),
  relRS RS RS' <-> forall v v' n, relL v v' -> relL (RS v n) (RS' v' n).
Proof. intros; reflexivity. Qed.

Theorem Transfer_relF2_def : forall (w : Q -> Q -> Q) (w' : R -> R -> R),
  relF2 w w' <-> forall a x b y, rel a x -> rel b y -> rel (w a b) (w' x y).
Proof. intros; reflexivity. Qed.
Theorem Transfer_relM_def : forall (m : list Q -> Q) (m' : list R -> R),
  relM m m' <-> forall l l', relL l l' -> rel (m l) (m' l').
Proof. intros; reflexivity. Qed.
Theorem Transfer_relK_def : forall (k : Q -> Q * Q) (k' : R -> R * R),
  relK k k' <-> forall a x, rel a x -> relP rel rel (k a) (k' x).
Proof. intros; reflexivity. Qed.
Theorem Transfer_relTw_def : forall (tw : Z -> Z -> Q) (tw' : Z -> Z -> R), relTw tw tw' <-> forall N j, rel (tw N j) (tw' N j).
Proof. intros; reflexivity. Qed.
Theorem Transfer_relSig_def : forall (s : signal (T:=Q)) (s' : signal (T:=R)),
  relSig s s' <-> rel (s_dt s) (s_dt s') /\ relL (s_vals s) (s_vals s').
Proof. intros; reflexivity. Qed.
Theorem Transfer_relS_def : forall (E A A' : Type) (RA : A -> A' -> Prop) (x : E + A) (x' : E + A'),
  relS RA x x' <-> (exists e, x = inl e /\ x' = inl e) \/ (exists a a', x = inr a /\ x' = inr a' /\ RA a a').
Proof. exact P_Transfer_sigops.relS_def. Qed.
Theorem Transfer_relFF_def : forall (FF : nat -> btype -> list Q -> list Q -> list Q) (FF' : nat -> btype -> list R -> list R -> list R),
  relFF FF FF' <-> forall order bt wn wn' x x', relL wn wn' -> relL x x' -> relL (FF order bt wn x) (FF' order bt wn' x').
Proof. intros; reflexivity. Qed.
Theorem Transfer_relPF_def : forall (pf : nat -> list Q -> list Q -> list Q) (pf' : nat -> list R -> list R -> list R),
  relPF pf pf' <-> forall k xs xs' y y', relL xs xs' -> relL y y' -> relL (pf k xs y) (pf' k xs' y').
Proof. intros; reflexivity. Qed.
(** the executable exact least-squares solver of M_signalops is a legitimate np.polyfit oracle pair *)
Theorem Transfer_lstsq_poly_relPF : relPF lstsq_poly lstsq_poly.
Proof. exact P_Transfer_sigops.lstsq_poly_relPF. Qed.

(** * The form of DESIGN 2.2: a Q-run is the R-model evaluated on the injected rationals (entry points) *)
Theorem Transfer_velo_disp_Q2R : forall (trap : bool) (dt : Q) (a : list Q),
  velo_disp trap (Q2R dt) (map Q2R a) = (map Q2R (fst (velo_disp trap dt a)), map Q2R (snd (velo_disp trap dt a))).
Proof. exact P_Transfer_Q2R.velo_disp_Q2R. Qed.
Theorem Transfer_calc_peak_Q2R : forall m : list Q, calc_peak (map Q2R m) = Q2R (calc_peak m).
Proof. exact P_Transfer_Q2R.calc_peak_Q2R. Qed.
Theorem Transfer_arias_Q2R : forall (c dt : Q) (a : list Q), arias (Q2R c) (Q2R dt) (map Q2R a) = map Q2R (arias c dt a).
Proof. exact P_Transfer_Q2R.arias_Q2R. Qed.
Theorem Transfer_cav_Q2R : forall (dt : Q) (a : list Q), cav (Q2R dt) (map Q2R a) = map Q2R (cav dt a).
Proof. exact P_Transfer_Q2R.cav_Q2R. Qed.
Theorem Transfer_isv_Q2R : forall (dt : Q) (a : list Q), isv (Q2R dt) (map Q2R a) = map Q2R (isv dt a).
Proof. exact P_Transfer_Q2R.isv_Q2R. Qed.
Theorem Transfer_unit_ke_Q2R : forall (dt : Q) (a : list Q), unit_ke (Q2R dt) (map Q2R a) = map Q2R (unit_ke dt a).
Proof. exact P_Transfer_Q2R.unit_ke_Q2R. Qed.
Theorem Transfer_cav_dp_Q2R : forall (g thr dt : Q) (pps nwin : nat) (a : list Q),
  cav_dp (Q2R g) (Q2R thr) (Q2R dt) pps nwin (map Q2R a) = map Q2R (cav_dp g thr dt pps nwin a).
Proof. exact P_Transfer_Q2R.cav_dp_Q2R. Qed.
Theorem Transfer_sig_dur_idx_Q2R : forall (lo hi : Q) (cum : list Q),
  sig_dur_idx (Q2R lo) (Q2R hi) (map Q2R cum) = sig_dur_idx lo hi cum.
Proof. exact P_Transfer_Q2R.sig_dur_idx_Q2R. Qed.
Theorem Transfer_brac_idx_Q2R : forall (thr : Q) (a : list Q), brac_idx (Q2R thr) (map Q2R a) = brac_idx thr a.
Proof. exact P_Transfer_Q2R.brac_idx_Q2R. Qed.
Theorem Transfer_brac_dur_Q2R : forall (dt thr : Q) (a : list Q),
  brac_dur (Q2R dt) (Q2R thr) (map Q2R a) = Q2R (brac_dur dt thr a).
Proof. exact P_Transfer_Q2R.brac_dur_Q2R. Qed.
Theorem Transfer_nj_series_Q2R : forall (c : coeffs Q) (rec : list Q),
  nj_series (P_Transfer_Q2R.coeffs_Q2R c) (map Q2R rec) = map P_Transfer_Q2R.state_Q2R (nj_series c rec).
Proof. exact P_Transfer_Q2R.nj_series_Q2R. Qed.
Theorem Transfer_absmax_Q2R : forall l : list Q, absmax (map Q2R l) = Q2R (absmax l).
Proof. exact P_Transfer_Q2R.absmax_Q2R. Qed.
Theorem Transfer_obj_factor_Q2R : forall (dt ratio : Q) (ps : list Q),
  obj_factor (Q2R dt) (Q2R ratio) (map Q2R ps) = obj_factor dt ratio ps.
Proof. exact P_Transfer_Q2R.obj_factor_Q2R. Qed.
Theorem Transfer_interp_record_Q2R : forall (vals : list Q) (m : Z),
  interp_record (map Q2R vals) m = map Q2R (interp_record vals m).
Proof. exact P_Transfer_Q2R.interp_record_Q2R. Qed.
Theorem Transfer_peaks_Q2R : forall xs : list Q, peaks (map Q2R xs) = peaks xs.
Proof. exact P_Transfer_Q2R.peaks_Q2R. Qed.
Theorem Transfer_peaks_sel_Q2R : forall (ptype : nat) (xs : list Q), peaks_sel ptype (map Q2R xs) = peaks_sel ptype xs.
Proof. exact P_Transfer_Q2R.peaks_sel_Q2R. Qed.
Theorem Transfer_zero_crossings_Q2R : forall (keep : bool) (tol : Q) (xs : list Q),
  zero_crossings keep (Q2R tol) (map Q2R xs) = zero_crossings keep tol xs.
Proof. exact P_Transfer_Q2R.zero_crossings_Q2R. Qed.
Theorem Transfer_switched_peaks_Q2R : forall (tol : Q) (xs : list Q),
  switched_peaks (Q2R tol) (map Q2R xs) = switched_peaks tol xs.
Proof. exact P_Transfer_Q2R.switched_peaks_Q2R. Qed.

(** * Non-vacuity: the hypotheses are met by every rational input ([relL l (map Q2R l)]), and the theorems turn a
    Q-run into a fact about the R-model: *)
Example Transfer_nonvacuous_inputs : forall l : list Q, relL l (map Q2R l).
Proof. exact relL_map_Q2R. Qed.
Example Transfer_nonvacuous_cav : cav (Q2R (1#2)) (map Q2R [1; -2; 3]%Q) = map Q2R [0; 3#4; 2]%Q.
Proof. exact P_Transfer_Q2R.cav_example. Qed.
Example Transfer_nonvacuous_peaks : peaks (map Q2R [0; 1; 0; 2; 2; 1]%Q) = [0; 1; 2; 3; 5]%nat.
Proof. exact P_Transfer_Q2R.peaks_example. Qed.
