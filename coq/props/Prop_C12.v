(** C12 — Zero crossings and per-half-cycle (switched) peaks are exact (statements; proofs in P_C12). *)
From Coq Require Import Reals List Lia Lra Bool.
From EQ Require Import lib.Num lib.NpList lib.Where model.M_peaks proofs.P_C11 proofs.P_C12.
Import ListNotations.
Local Open Scope R_scope.

(** zero crossings at zero tolerance are exactly: index 0, every exact zero (only the first of a run unless adjacent
    zeros are kept) and the first sample after each strict sign change; ascending, without duplicates *)
Theorem C12_zc_exact : forall keep (xs : list R) i, xs <> [] ->
  (In i (zero_crossings keep 0 xs) <-> (i < length xs)%nat /\
     (i = 0%nat \/ exists i', i = S i' /\
        ((xat xs i = 0 /\ (keep = true \/ xat xs i' <> 0)) \/ sign_change (xat xs i') (xat xs i)))).
Proof. intros keep xs i H. rewrite (P_C12.C12_zc_exact keep xs i H), zc_test_spec. reflexivity. Qed.
Theorem C12_zc_ascending : forall keep (xs : list R), ascending (zero_crossings keep 0 xs).
Proof. exact P_C12.C12_zc_ascending. Qed.
Theorem C12_zc_starts_at_0 : forall keep (xs : list R), hd 1%nat (zero_crossings keep 0 xs) = 0%nat.
Proof. exact P_C12.C12_zc_starts_at_0. Qed.
(** with a positive tolerance the result is a subsequence of the zero-tolerance result *)
Theorem C12_zc_tol_subsequence : forall keep tol (xs : list R), 0 <= tol ->
  subl (zero_crossings keep tol xs) (zero_crossings keep 0 xs).
Proof. exact P_C12.C12_zc_tol_subsequence. Qed.

(** switched peaks: a subsequence of the C11 peak list for every tolerance, hence strictly ascending and made of
    reported local extrema / end points only *)
Theorem C12_sp_subsequence_of_peaks : forall tol (xs : list R), subl (switched_peaks tol xs) (peaks xs).
Proof. exact P_C12.C12_sp_subsequence_of_peaks. Qed.
Theorem C12_sp_ascending : forall tol (xs : list R), ascending (switched_peaks tol xs).
Proof. exact P_C12.C12_sp_ascending. Qed.

(** * switched peaks at zero tolerance, excursion by excursion
    [excursion xs s a b] (P_C12): [a..b] is a maximal run of samples of strict sign [s] (s = 1 or -1): every sample of the run
    has 0 < s*x, the sample before [a] (if any) and the sample after [b] (if any) do not. *)
Theorem C12_excursion_spec : forall (xs : list R) s a b, excursion xs s a b <->
  sdir s /\ (a <= b < length xs)%nat /\ (forall k, (a <= k <= b)%nat -> 0 < s * xat xs k) /\
  (a = 0%nat \/ s * xat xs (a - 1) <= 0) /\ (S b = length xs \/ s * xat xs (S b) <= 0).
Proof. intros; reflexivity. Qed.
(** every non-zero sample lies in an excursion *)
Theorem C12_excursion_exists : forall (xs : list R) k, (k < length xs)%nat -> xat xs k <> 0 ->
  exists s a b, excursion xs s a b /\ (a <= k <= b)%nat.
Proof. exact P_C12.excursion_exists. Qed.
(** each excursion contains exactly one switched peak, and it attains the largest |value| of the excursion *)
Theorem C12_sp_one_per_excursion : forall (xs : list R) s a b, excursion xs s a b ->
  exists p, In p (switched_peaks 0 xs) /\ (a <= p <= b)%nat /\
    (forall k, (a <= k <= b)%nat -> Rabs (xat xs k) <= Rabs (xat xs p)) /\
    (forall q, In q (switched_peaks 0 xs) -> (a <= q <= b)%nat -> q = p).
Proof. exact P_C12.C12_sp_one_per_excursion. Qed.
(** ... more precisely it is the first sample of the excursion that attains it *)
Theorem C12_sp_first_largest : forall (xs : list R) s a b p, excursion xs s a b -> In p (switched_peaks 0 xs) ->
  (a <= p <= b)%nat -> forall k, (a <= k < p)%nat -> Rabs (xat xs k) < Rabs (xat xs p).
Proof. exact P_C12.C12_sp_first_largest. Qed.
(** any other switched peak is a zero-valued reported peak (index 0, a turning point or the final plateau: C11_exact) *)
Theorem C12_sp_zero_or_in_excursion : forall (xs : list R) p, In p (switched_peaks 0 xs) ->
  In p (peaks xs) /\ (xat xs p = 0 \/ exists s a b, excursion xs s a b /\ (a <= p <= b)%nat).
Proof. exact P_C12.C12_sp_zero_or_in_excursion. Qed.
(** consecutive switched peaks do not share a strict sign *)
Theorem C12_sp_consecutive_signs : forall (xs : list R) l1 p q l2,
  switched_peaks 0 xs = l1 ++ p :: q :: l2 -> xat xs p * xat xs q <= 0.
Proof. exact P_C12.C12_sp_consecutive_signs. Qed.
(** therefore the global absolute maximum is always included *)
Theorem C12_sp_global_abs_max : forall (xs : list R), xs <> [] ->
  exists p, In p (switched_peaks 0 xs) /\ forall k, (k < length xs)%nat -> Rabs (xat xs k) <= Rabs (xat xs p).
Proof. exact P_C12.C12_sp_global_abs_max. Qed.
(** with a positive tolerance the switched peaks are a subsequence of the zero-tolerance switched peaks *)
Theorem C12_sp_tol_subsequence : forall tol (xs : list R), 0 <= tol ->
  subl (switched_peaks tol xs) (switched_peaks 0 xs).
Proof. exact P_C12.C12_sp_tol_subsequence. Qed.

(** Every clause of the property is now a theorem about the model. That the declarative model ([peaks] as a filter, [sp_loop] as a
    fold, [zc_prune]) is what the ediff1d/where/take pipeline, the rem_i loop and the switched-peak Python loop compute is
    proved in props/Prop_C11_pipeline.v; the reading of that transcription against the source remains with the correspondence. *)

(** the excursion hypotheses are met by a concrete series: [0; 2; 3; -1] has the excursion [1..2] of sign +1 *)
Example C12_excursion_nonvacuous : excursion [0; 2; 3; -1]%R 1 1 2.
Proof.
  split; [now left|]. split; [cbn; lia|]. split.
  - intros k Hk. assert (Hc : k = 1%nat \/ k = 2%nat) by lia. destruct Hc as [-> | ->]; unfold xat; cbn; lra.
  - split; [right|right]; unfold xat; cbn; lra.
Qed.
Example C12_nonvacuous : zero_crossings false 0 [1; 0; -1; 0; 2]%R = [0; 1; 3]%nat.
Proof.
  unfold zero_crossings, zc0, zc_test, xat. cbn [length seq filter nth]. numR.
  repeat match goal with
  | |- context [Reqb ?a ?b] => let H := fresh in destruct (Reqb a b) eqn:H; [apply Reqb_true in H|apply Reqb_false in H]; try lra
  | |- context [Rltb ?a ?b] => let H := fresh in destruct (Rltb a b) eqn:H; [apply Rltb_true in H|apply Rltb_false in H]; try lra
  end; cbn; try reflexivity.
Qed.
