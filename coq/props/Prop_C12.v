(** C12 — Zero crossings and per-half-cycle (switched) peaks are exact (statements; proofs in P_C12). *)
From Coq Require Import Reals List Lia Lra Bool.
From EQ Require Import lib.Num lib.NpList lib.Where model.M_peaks proofs.P_C11 proofs.P_C12.
Import ListNotations.
Local Open Scope R_scope.

(** zero crossings at zero tolerance are exactly: index 0, every exact zero (only the first of a run unless adjacent
    zeros are kept) and the first sample after each strict sign change; ascending, without duplicates *)
Theorem C12_zc_exact : forall keep (xs : list R) i, xs <> [] ->
  (In i (zero_crossings keep 0 xs) <-> (i < length xs)%nat /\
     (i = 0%nat \/ exists i', i = S i' /\
        ((xat xs i = 0 /\ (keep = true \/ xat xs i' <> 0)) \/ sign_change (xat xs i') (xat xs i)))).
Proof. intros keep xs i H. rewrite (P_C12.C12_zc_exact keep xs i H), zc_test_spec. reflexivity. Qed.
Theorem C12_zc_ascending : forall keep (xs : list R), ascending (zero_crossings keep 0 xs).
Proof. exact P_C12.C12_zc_ascending. Qed.
Theorem C12_zc_starts_at_0 : forall keep (xs : list R), hd 1%nat (zero_crossings keep 0 xs) = 0%nat.
Proof. exact P_C12.C12_zc_starts_at_0. Qed.
(** with a positive tolerance the result is a subsequence of the zero-tolerance result *)
Theorem C12_zc_tol_subsequence : forall keep tol (xs : list R), 0 <= tol ->
  subl (zero_crossings keep tol xs) (zero_crossings keep 0 xs).
Proof. exact P_C12.C12_zc_tol_subsequence. Qed.

(** switched peaks: a subsequence of the C11 peak list for every tolerance, hence strictly ascending and made of
    reported local extrema / end points only *)
Theorem C12_sp_subsequence_of_peaks : forall tol (xs : list R), subl (switched_peaks tol xs) (peaks xs).
Proof. exact P_C12.C12_sp_subsequence_of_peaks. Qed.
Theorem C12_sp_ascending : forall tol (xs : list R), ascending (switched_peaks tol xs).
Proof. exact P_C12.C12_sp_ascending. Qed.

(** NOT proved (partial; decided by the exhaustive correspondence + the subsequence checker on implementation outputs):
    exactly one switched peak per excursion at its largest |value|, other reported indices are zero-valued turning
    points, consecutive ones do not share a strict sign, the global absolute maximum is included, and the
    tol>0 switched-peak result is a subsequence of the tol=0 one. *)

Example C12_nonvacuous : zero_crossings false 0 [1; 0; -1; 0; 2]%R = [0; 1; 3]%nat.
Proof.
  unfold zero_crossings, zc0, zc_test, xat. cbn [length seq filter nth]. numR.
  repeat match goal with
  | |- context [Reqb ?a ?b] => let H := fresh in destruct (Reqb a b) eqn:H; [apply Reqb_true in H|apply Reqb_false in H]; try lra
  | |- context [Rltb ?a ?b] => let H := fresh in destruct (Rltb a b) eqn:H; [apply Rltb_true in H|apply Rltb_false in H]; try lra
  end; cbn; try reflexivity.
Qed.
