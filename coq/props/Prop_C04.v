(** C04 — Derived quantities of a signal object never go stale (statements; proofs in proofs/P_C04.v).

    The object is the state machine of model/M_cache.v.  Every statement is for an arbitrary signature [S]: arbitrary
    types of values / settings / results / arguments, arbitrary numeric functions ([f_fa], [f_sm], [f_resp], [f_dv],
    [f_pga], [f_pgv], [f_pgd], [f_rs]), arbitrary value transformers of the mutators ([gmut]) and of the setters
    ([gsf], [grt]).  Histories are arbitrary finite lists of operations of the alphabet
    (21 reads, 10 argument-less methods, 16 mutator forms, 6 smoothing-frequency changes, 4 response-period changes).
    The only hypothesis is the contract [inplace_keeps_length] (the mutators that write the array in place do not
    change the number of samples) - needed for [npts]/[time], which are computed from the stored [_npts].

    [reachable s] : s is the state after some finite history from a freshly constructed object.
    [fresh_of s]  : a freshly constructed object with the same values, dt and settings as s.
    [out o s]     : what operation o returns in state s;  [post o s] : the state after it;
    [outs h s]    : everything returned along history h.  *)
From Coq Require Import List Bool.
From EQ Require Import model.M_cache model.K_C04 proofs.P_C04.
Import ListNotations.

(** Main clause: after any history, every read returns what a freshly constructed object with the same values, dt and
    settings returns for that read. *)
Theorem C04_no_stale_read : forall (S : sig), inplace_keeps_length S ->
  forall (s : st S) (r : reader), reachable s -> out (Read r) s = out (Read r) (fresh_of s).
Proof. intros S H. exact (P_C04.no_stale_read H). Qed.

(** ... and that value is the numeric function of the current sources alone ([spec] in M_cache.v: npts/time from the
    length of the current values, the Fourier spectrum of the current values, the smoothed spectrum of that spectrum at
    the current smoothing frequencies, the response spectra of the current values at the current periods, ...) *)
Theorem C04_read_is_function_of_sources : forall (S : sig), inplace_keeps_length S ->
  forall (s : st S) (r : reader), reachable s -> out (Read r) s = Some (spec r (vals s) (sfq s) (rtm s)).
Proof. intros S H. exact (P_C04.read_is_spec H). Qed.
Theorem C04_fresh_object_reports_spec : forall (S : sig) (r : reader) v sf rt,
  out (S:=S) (Read r) (init v sf rt) = Some (spec r v sf rt).
Proof. intros S. exact P_C04.fresh_is_spec. Qed.

(** Strongest form: an object reached by any history and a fresh object with the same sources cannot be told apart by
    any further history - every value returned (reads, response_series) is the same, and they end with the same
    sources.  This covers the reads that mutators perform internally (rebase_displacement reads the displacement,
    set_zero_residual_velocity reads velocity and pga, ...). *)
Theorem C04_indistinguishable_from_fresh : forall (S : sig), inplace_keeps_length S ->
  forall (s : st S), reachable s -> forall h : list (op S),
  outs h s = outs h (fresh_of s) /\ src (run h s) = src (run h (fresh_of s)).
Proof. intros S H. exact (P_C04.fresh_bisim H). Qed.

(** The invariant behind it: whatever is flagged valid is not stale. *)
Theorem C04_inv_init : forall (S : sig) v sf rt, Inv (init (S:=S) v sf rt).
Proof. intros S. exact P_C04.inv_init. Qed.
Theorem C04_inv_step : forall (S : sig), inplace_keeps_length S ->
  forall (o : op S) (s : st S), Inv s -> Inv (post o s).
Proof. intros S H. exact (P_C04.inv_step H). Qed.
Theorem C04_inv_reachable : forall (S : sig), inplace_keeps_length S -> forall s : st S, reachable s -> Inv s.
Proof. intros S H. exact (P_C04.inv_reachable H). Qed.

(** Reads are idempotent ... *)
Theorem C04_read_idempotent : forall (S : sig), inplace_keeps_length S ->
  forall (s : st S) (r : reader), reachable s -> out (Read r) (post (Read r) s) = out (Read r) s.
Proof. intros S H. exact (P_C04.read_idempotent H). Qed.
(** ... change no source ... *)
Theorem C04_read_keeps_sources : forall (S : sig) (s : st S) (r : reader), src (post (Read r) s) = src s.
Proof. intros S. exact P_C04.read_src. Qed.
(** ... and change no other observable: every later history returns the same values whether or not the read happened.
    The same holds for the argument-less generate_* / clear_cache methods. *)
Theorem C04_read_changes_no_observable : forall (S : sig), inplace_keeps_length S ->
  forall (s : st S) (r : reader), reachable s -> forall h : list (op S), outs h (post (Read r) s) = outs h s.
Proof. intros S H. exact (P_C04.read_unobservable H). Qed.
Theorem C04_generate_changes_no_observable : forall (S : sig), inplace_keeps_length S ->
  forall (s : st S) (g : generator), reachable s -> forall h : list (op S), outs h (post (Gen g) s) = outs h s.
Proof. intros S H. exact (P_C04.gen_unobservable H). Qed.

(** What the operations do to the sources: a mutator applies its transformer to the current values, the true length and
    the *current* velocity/displacement and pga where it reads them (never a stale copy); a setter only changes its
    setting. *)
Theorem C04_mutator_effect : forall (S : sig), inplace_keeps_length S ->
  forall (s : st S) (m : mutator) (a : tA S), reachable s ->
  src (post (Mut m a) s) =
  (gmut m a (vals s) (len (vals s))
        (if uses_dv m then Some (f_dv (vals s)) else None)
        (if uses_pga m then Some (f_pga (vals s)) else None), sfq s, rtm s).
Proof. intros S H. exact (P_C04.mut_sources H). Qed.
Theorem C04_sf_setter_effect : forall (S : sig) (s : st S) t a, src (post (SetSF t a) s) = (vals s, gsf t a (sfq s), rtm s).
Proof. intros S. exact P_C04.sf_sources. Qed.
Theorem C04_rt_setter_effect : forall (S : sig) (s : st S) t a, src (post (SetRT t a) s) = (vals s, sfq s, grt t a (rtm s)).
Proof. intros S. exact P_C04.rt_sources. Qed.

(** Flags: every mutator leaves all flags cleared; a smoothed spectrum is only ever valid together with the Fourier
    spectrum, pgv/pgd only together with the velocity/displacement series. *)
Theorem C04_mutator_clears_all_flags : forall (S : sig) (s : st S) m a, mask (post (Mut m a) s) = 0.
Proof. intros S. exact P_C04.mut_clears. Qed.
Theorem C04_flag_structure : forall (S : sig) (s : st S), reachable s -> FlagInv s.
Proof. intros S. exact P_C04.flaginv_reachable. Qed.

(** The flag states (which validity flags / memo keys are set) that any history can reach, for any signature, are among
    the 60 states [reach_masks] computed in model/K_C04.v - the set the exhaustive part of the tie must visit. *)
Theorem C04_reachable_flag_states : forall (S : sig) (h : list (op S)) v sf rt,
  In (mask (run h (init (S:=S) v sf rt))) reach_masks.
Proof. exact P_C04.reachable_masks_init. Qed.
Theorem C04_sixty_flag_states : List.length reach_masks = 60.
Proof. exact P_C04.reach_count. Qed.

(** Non-vacuity: in the free ("term") signature - values, settings are numbers, results are the terms that name how
    they were computed - the history  s_a ; response_times := 7 ; s_a ; add_constant ; s_a ; pgv ; smooth spectrum
    returns three different response spectra, each the one of the sources current at that time, with caches set in
    between (flag words 4, 0, 4, 0, 4, 44, 47). *)
Definition Sterm : sig :=
  Sig nat nat nat (list nat) nat (fun _ => 5)
      (fun v => [1; v]) (fun x sf => 2 :: sf :: x) (fun v rt => [3; v; rt]) (fun v => [4; v])
      (fun v => [5; v]) (fun x => 6 :: x) (fun x => 7 :: x) (fun v rt => [8; v; rt])
      (fun m a v n dv pg => S v) (fun t a sf => a) (fun t a rt => a) [].
Definition demo : list (op Sterm) :=
  [Read R_s_a; SetRT (S:=Sterm) T_response_times 7; Read R_s_a; Mut (S:=Sterm) M_add_constant 0; Read R_s_a; Read R_pgv; Read R_smooth_fa_spectrum].
Example C04_nonvacuous :
  outs demo (init (S:=Sterm) 10 20 30) =
    [Some (@O_x Sterm [3; 10; 30]); None; Some (@O_x Sterm [3; 10; 7]); None; Some (@O_x Sterm [3; 11; 7]); Some (@O_x Sterm [6; 4; 11]); Some (@O_x Sterm [2; 20; 1; 11])]
  /\ masks demo (init (S:=Sterm) 10 20 30) = [4; 0; 4; 0; 4; 44; 47]
  /\ inplace_keeps_length Sterm.
Proof. split; [reflexivity|split; [reflexivity|]]. intros m a v n dv pg _. reflexivity. Qed.
