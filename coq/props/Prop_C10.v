(** C10 — Significant and bracketed durations locate threshold crossings exactly (statements; proofs in P_C10). *)
From Coq Require Import Reals List Lia Lra.
From EQ Require Import lib.Num lib.NpList lib.Quad lib.Where model.M_displacements model.M_im proofs.P_C10.
Import ListNotations.
Local Open Scope R_scope.

(** the result is exactly (first, last) index whose cumulative value lies strictly between the two fractions of
    the final value; None iff no sample qualifies (the implementation raises IndexError there; excluded by the
    property's hypothesis). [first_last] is defined in lib/Where.v. *)
Theorem C10_sig_def : forall lo hi (cum : list R), sig_spec lo hi cum (sig_dur_idx lo hi cum).
Proof. exact P_C10.C10_sig_def. Qed.
Theorem C10_sig_def_unique : forall lo hi cum r r', sig_spec lo hi cum r -> sig_spec lo hi cum r' -> r = r'.
Proof. exact P_C10.sig_spec_unique. Qed.

Theorem C10_sig_ordered : forall dt lo hi (cum : list R) s e, 0 <= dt -> sig_dur_se dt lo hi cum = Some (s, e) ->
  0 <= s /\ s <= e /\ e <= idx_time dt (length cum - 1).
Proof. exact P_C10.C10_sig_ordered. Qed.

Theorem C10_sig_scale_invariant_vals : forall al lo hi (a : list R), al <> 0 ->
  sig_dur_vals_idx lo hi (map (Rmult al) a) = sig_dur_vals_idx lo hi a.
Proof. exact P_C10.C10_sig_scale_invariant_vals. Qed.
Theorem C10_sig_scale_invariant_arias : forall c dt al lo hi (a : list R), al <> 0 ->
  sig_dur_idx lo hi (arias c dt (map (Rmult al) a)) = sig_dur_idx lo hi (arias c dt a).
Proof. exact P_C10.C10_sig_scale_invariant_arias. Qed.
(** any user-supplied cumulative measure that scales by a positive factor *)
Theorem C10_sig_scale_invariant_measure : forall c lo hi (cum : list R), 0 < c ->
  sig_dur_idx lo hi (map (Rmult c) cum) = sig_dur_idx lo hi cum.
Proof. exact P_C10.sig_dur_idx_scale. Qed.

Theorem C10_sig_shift_vals : forall lo hi k (a : list R), a <> [] -> 0 <= lo ->
  sig_dur_vals_idx lo hi (repeat 0 k ++ a) = shift_pair k (sig_dur_vals_idx lo hi a).
Proof. exact P_C10.C10_sig_shift_vals. Qed.
(** Arias variant: exact when the record starts at zero (otherwise the new first panel changes the total) *)
Theorem C10_sig_shift_arias : forall c dt lo hi k (a : list R), a <> [] -> nth 0 a 0 = 0 -> 0 <= lo -> 0 <= c -> 0 <= dt ->
  sig_dur_idx lo hi (arias c dt (repeat 0 k ++ a)) = shift_pair k (sig_dur_idx lo hi (arias c dt a)).
Proof. exact P_C10.C10_sig_shift_arias. Qed.

Theorem C10_sig_widen : forall lo hi lo' hi' (cum : list R) i j, 0 <= last0 cum -> lo' <= lo -> hi <= hi' ->
  sig_dur_idx lo hi cum = Some (i, j) ->
  exists i' j', sig_dur_idx lo' hi' cum = Some (i', j') /\ (i' <= i)%nat /\ (j <= j')%nat.
Proof. exact P_C10.C10_sig_widen. Qed.

Theorem C10_brac_def : forall thr (a : list R), brac_spec thr a (brac_idx thr a).
Proof. exact P_C10.C10_brac_def. Qed.
Theorem C10_brac_empty : forall dt thr (a : list R), (forall k, (k < length a)%nat -> Rabs (nth k a 0) <= thr) ->
  brac_dur_se dt thr a = None /\ brac_dur dt thr a = 0.
Proof. exact P_C10.C10_brac_empty. Qed.
Theorem C10_brac_antitone : forall dt thr thr' (a : list R), 0 <= dt -> thr <= thr' -> brac_dur dt thr' a <= brac_dur dt thr a.
Proof. exact P_C10.C10_brac_dur_antitone. Qed.
Theorem C10_brac_joint_scale : forall al thr (a : list R), al <> 0 ->
  brac_idx (Rabs al * thr) (map (Rmult al) a) = brac_idx thr a.
Proof. exact P_C10.C10_brac_joint_scale. Qed.

Example C10_nonvacuous : sig_dur_vals_idx (1/4) (3/4) [1; 1; 1; 1; 1; 1; 1; 1] = Some (2%nat, 4%nat).
Proof.
  unfold sig_dur_vals_idx, sig_dur_idx, where_idx, last0, between, cumsum, vsq. cbn [map cumsum_from last where_from].
  numR. repeat match goal with |- context [Rltb ?a ?b] =>
    let H := fresh in destruct (Rltb a b) eqn:H; [apply Rltb_true in H|apply Rltb_false in H]; try lra end; reflexivity.
Qed.

(** *** The models are the source (translator tie).
    gen/Gen_durations.v is re-translated from /repo's eqsig/im.py at the start of every run of this check
    (translator/py2coq_durations.py: Python [ast], the whitelist grammar of translator/py2coq_numpy.py extended by the
    element-wise strict/non-strict comparisons, [&], [np.where(..)[0]], [v[0]] / [v[-1]] as PARTIAL reads (IndexError on an
    empty array), [np.arange(asig.npts) * asig.dt], fancy indexing by the np.where result, the [se] switch,
    [if im is None], and [try .. except IndexError]; fail-closed).  A call returns a [pyval] (lib/PyVal.v):
    [PyScalar x] = [return x], [PyPair x y] = [return x, y], [PyNonePair] = [return None, None], [PyIndexError] = an
    IndexError that nothing caught.
    PROVED, for every [NumOps] instance (the Q run of the correspondence and the R theorems above alike) and for ALL inputs
    (empty records and the no-qualifying-sample case included):
    - the translation of calc_sig_dur_vals IS [sig_dur_se] on [cumsum (vsq motion)]: se=True returns the pair, se=False
      end - start, and it raises IndexError exactly where the model is [None];
    - the translation of calc_sig_dur IS [sig_dur_se] on the measure: for im=None the (generated, inlined) Arias series
      [arias (np.pi / (2 * 9.81)) dt values], np.pi an input; otherwise the series the user's callable returned, which is an
      input [Some v] of the generated function;
    - the translation of calc_brac_dur IS [brac_dur_se] / [brac_dur], the caught IndexError giving (None, None) / 0;
    - the deprecated alias calc_significant_duration is calc_sig_dur_vals with se=False;
    - the defaults of the signatures (start=0.05, end=0.95, se=False, im=None);
    - composed with the theorems above, at R: what the SOURCE returns is the (first, last) qualifying sample times dt
      ([C10_source_*_def]).
    NOT proved (still only decided by the correspondence): that NumPy's cumsum, **2, abs, >, <, &, where, arange and
    fancy indexing are the list primitives of lib/NpList.v / lib/PyVal.v (the translator's reading of each whitelisted
    call), that AccSignal.npts is len(values) and .values/.dt are the stored record and step (object layer), what a
    user-supplied callable computes, binary64 rounding of the threshold products, and the DeprecationWarning side effect. *)
From EQ Require Import lib.PyVal gen.Gen_quadrature gen.Gen_durations proofs.P_gen_durations.

Theorem C10_sig_dur_vals_is_source : forall (T : Type) (ops : NumOps T) (dt lo hi : T) (m : list T),
  gen_sig_dur_vals true dt lo hi m =
    match sig_dur_se dt lo hi (cumsum (vsq m)) with Some (s, e) => PyPair s e | None => PyIndexError end /\
  gen_sig_dur_vals false dt lo hi m =
    match sig_dur_se dt lo hi (cumsum (vsq m)) with Some (s, e) => PyScalar (nsub e s) | None => PyIndexError end.
Proof.
  intros T ops dt lo hi m. rewrite !P_gen_durations.gen_sig_dur_vals_eq.
  destruct (sig_dur_se dt lo hi (cumsum (vsq m))) as [[s e]|]; split; reflexivity.
Qed.
Theorem C10_sig_dur_is_source : forall (T : Type) (ops : NumOps T) (pi dt lo hi : T) (im : option (list T)) (a : list T),
  let cum := match im with
             | None => arias (ndiv pi (nmul (nofZ 2) (ndiv (nofZ 981) (nofZ 100)))) dt a
             | Some v => v
             end in
  gen_sig_dur pi true dt lo hi im a =
    match sig_dur_se dt lo hi cum with Some (s, e) => PyPair s e | None => PyIndexError end /\
  gen_sig_dur pi false dt lo hi im a =
    match sig_dur_se dt lo hi cum with Some (s, e) => PyScalar (nsub e s) | None => PyIndexError end.
Proof.
  intros T ops pi dt lo hi im a. cbv zeta. rewrite !P_gen_durations.gen_sig_dur_eq.
  change (P_gen_durations.sig_dur_measure pi dt im a)
    with (match im with None => arias (ndiv pi (nmul (nofZ 2) (ndiv (nofZ 981) (nofZ 100)))) dt a | Some v => v end).
  destruct (sig_dur_se dt lo hi _) as [[s e]|]; split; reflexivity.
Qed.
(** the series used for im=None is the generated calc_arias_intensity of C09 (C09_arias_is_source) *)
Theorem C10_sig_dur_default_measure_is_source : forall (T : Type) (ops : NumOps T) (pi dt : T) (a : list T),
  arias (ndiv pi (nmul (nofZ 2) (ndiv (nofZ 981) (nofZ 100)))) dt a = gen_arias pi dt a.
Proof. intros. reflexivity. Qed.
Theorem C10_sig_dur_is_source_R : forall (dt lo hi : R) (a : list R),
  gen_sig_dur PI true dt lo hi None a =
    match sig_dur_se dt lo hi (arias (PI / (2 * 9.81)) dt a) with Some (s, e) => PyPair s e | None => PyIndexError end.
Proof. intros dt lo hi a. exact (proj1 (C10_sig_dur_is_source R _ PI dt lo hi None a)). Qed.
Theorem C10_brac_dur_is_source : forall (T : Type) (ops : NumOps T) (dt thr : T) (a : list T),
  gen_brac_dur true dt thr a = match brac_dur_se dt thr a with Some (s, e) => PyPair s e | None => PyNonePair end /\
  gen_brac_dur false dt thr a = PyScalar (brac_dur dt thr a).
Proof.
  intros T ops dt thr a. split; [|exact (P_gen_durations.gen_brac_dur_scalar dt thr a)].
  rewrite P_gen_durations.gen_brac_dur_eq. destruct (brac_dur_se dt thr a) as [[s e]|]; reflexivity.
Qed.
Theorem C10_significant_duration_alias_is_source : forall (T : Type) (ops : NumOps T) (dt lo hi : T) (m : list T),
  gen_significant_duration dt lo hi m = gen_sig_dur_vals false dt lo hi m.
Proof. exact (@P_gen_durations.gen_significant_duration_eq). Qed.
Theorem C10_duration_defaults_are_source :
  gen_sig_dur_vals_default_se = false /\ gen_sig_dur_default_se = false /\ gen_brac_dur_default_se = false /\
  gen_sig_dur_default_im_is_none = true /\
  @gen_sig_dur_vals_default_start R _ = 0.05 /\ @gen_sig_dur_vals_default_end R _ = 0.95 /\
  @gen_sig_dur_default_start R _ = 0.05 /\ @gen_sig_dur_default_end R _ = 0.95 /\
  @gen_significant_duration_default_start R _ = 0.05 /\ @gen_significant_duration_default_end R _ = 0.95.
Proof.
  destruct P_gen_durations.gen_dur_default_flags as (F1 & F2 & F3 & F4).
  destruct P_gen_durations.gen_dur_default_fractions_R as (D1 & D2 & D3 & D4 & D5 & D6). repeat split; assumption.
Qed.

(** what the source returns, at R, through C10_sig_def / C10_brac_def: the (first, last) qualifying sample, times dt *)
Theorem C10_source_sig_dur_vals_def : forall dt lo hi (m : list R),
  let cum := cumsum (vsq m) in
  match gen_sig_dur_vals true dt lo hi m with
  | PyPair s e => exists i j, first_last 0 (between lo hi (last0 cum)) cum i j /\ s = idx_time dt i /\ e = idx_time dt j
  | PyIndexError => forall k, (k < length cum)%nat -> between lo hi (last0 cum) (nth k cum 0) = false
  | _ => False
  end.
Proof. exact P_gen_durations.source_sig_dur_vals_def. Qed.
Theorem C10_source_sig_dur_def : forall pi dt lo hi (im : option (list R)) (a : list R),
  let cum := match im with None => arias (pi / (2 * 9.81)) dt a | Some v => v end in
  match gen_sig_dur pi true dt lo hi im a with
  | PyPair s e => exists i j, first_last 0 (between lo hi (last0 cum)) cum i j /\ s = idx_time dt i /\ e = idx_time dt j
  | PyIndexError => forall k, (k < length cum)%nat -> between lo hi (last0 cum) (nth k cum 0) = false
  | _ => False
  end.
Proof. exact P_gen_durations.source_sig_dur_def. Qed.
Theorem C10_source_sig_dur_vals_diff : forall dt lo hi (m : list R) s e,
  gen_sig_dur_vals true dt lo hi m = PyPair s e -> gen_sig_dur_vals false dt lo hi m = PyScalar (e - s).
Proof. exact P_gen_durations.source_sig_dur_vals_diff. Qed.
Theorem C10_source_brac_dur_def : forall dt thr (a : list R),
  match gen_brac_dur true dt thr a with
  | PyPair s e => exists i j, first_last 0 (exceeds thr) a i j /\ s = idx_time dt i /\ e = idx_time dt j
                  /\ gen_brac_dur false dt thr a = PyScalar (e - s)
  | PyNonePair => (forall k, (k < length a)%nat -> Rabs (nth k a 0) <= thr) /\ gen_brac_dur false dt thr a = PyScalar 0
  | _ => False
  end.
Proof. exact P_gen_durations.source_brac_dur_def. Qed.

(** the translated functions return real results on a concrete record (non-vacuity of the source theorems) *)
Example C10_source_nonvacuous :
  gen_brac_dur true (1/2) 2 [0; 3; -4; 1; -5; 0] = PyPair (idx_time (1/2) 1) (idx_time (1/2) 4) /\
  gen_brac_dur true (1/2) 9 [0; 3; -4; 1; -5; 0] = PyNonePair /\
  gen_sig_dur_vals true (1/2) (1/4) (3/4) [1; 1; 1; 1; 1; 1; 1; 1] = PyPair (idx_time (1/2) 2) (idx_time (1/2) 4).
Proof. exact P_gen_durations.source_nonvacuous. Qed.
