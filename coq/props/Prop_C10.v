(** C10 — Significant and bracketed durations locate threshold crossings exactly (statements; proofs in P_C10). *)
From Coq Require Import Reals List Lia Lra.
From EQ Require Import lib.Num lib.NpList lib.Quad lib.Where model.M_displacements model.M_im proofs.P_C10.
Import ListNotations.
Local Open Scope R_scope.

(** the result is exactly (first, last) index whose cumulative value lies strictly between the two fractions of
    the final value; None iff no sample qualifies (the implementation raises IndexError there; excluded by the
    property's hypothesis). [first_last] is defined in lib/Where.v. *)
Theorem C10_sig_def : forall lo hi (cum : list R), sig_spec lo hi cum (sig_dur_idx lo hi cum).
Proof. exact P_C10.C10_sig_def. Qed.
Theorem C10_sig_def_unique : forall lo hi cum r r', sig_spec lo hi cum r -> sig_spec lo hi cum r' -> r = r'.
Proof. exact P_C10.sig_spec_unique. Qed.

Theorem C10_sig_ordered : forall dt lo hi (cum : list R) s e, 0 <= dt -> sig_dur_se dt lo hi cum = Some (s, e) ->
  0 <= s /\ s <= e /\ e <= idx_time dt (length cum - 1).
Proof. exact P_C10.C10_sig_ordered. Qed.

Theorem C10_sig_scale_invariant_vals : forall al lo hi (a : list R), al <> 0 ->
  sig_dur_vals_idx lo hi (map (Rmult al) a) = sig_dur_vals_idx lo hi a.
Proof. exact P_C10.C10_sig_scale_invariant_vals. Qed.
Theorem C10_sig_scale_invariant_arias : forall c dt al lo hi (a : list R), al <> 0 ->
  sig_dur_idx lo hi (arias c dt (map (Rmult al) a)) = sig_dur_idx lo hi (arias c dt a).
Proof. exact P_C10.C10_sig_scale_invariant_arias. Qed.
(** any user-supplied cumulative measure that scales by a positive factor *)
Theorem C10_sig_scale_invariant_measure : forall c lo hi (cum : list R), 0 < c ->
  sig_dur_idx lo hi (map (Rmult c) cum) = sig_dur_idx lo hi cum.
Proof. exact P_C10.sig_dur_idx_scale. Qed.

Theorem C10_sig_shift_vals : forall lo hi k (a : list R), a <> [] -> 0 <= lo ->
  sig_dur_vals_idx lo hi (repeat 0 k ++ a) = shift_pair k (sig_dur_vals_idx lo hi a).
Proof. exact P_C10.C10_sig_shift_vals. Qed.
(** Arias variant: exact when the record starts at zero (otherwise the new first panel changes the total) *)
Theorem C10_sig_shift_arias : forall c dt lo hi k (a : list R), a <> [] -> nth 0 a 0 = 0 -> 0 <= lo -> 0 <= c -> 0 <= dt ->
  sig_dur_idx lo hi (arias c dt (repeat 0 k ++ a)) = shift_pair k (sig_dur_idx lo hi (arias c dt a)).
Proof. exact P_C10.C10_sig_shift_arias. Qed.

Theorem C10_sig_widen : forall lo hi lo' hi' (cum : list R) i j, 0 <= last0 cum -> lo' <= lo -> hi <= hi' ->
  sig_dur_idx lo hi cum = Some (i, j) ->
  exists i' j', sig_dur_idx lo' hi' cum = Some (i', j') /\ (i' <= i)%nat /\ (j <= j')%nat.
Proof. exact P_C10.C10_sig_widen. Qed.

Theorem C10_brac_def : forall thr (a : list R), brac_spec thr a (brac_idx thr a).
Proof. exact P_C10.C10_brac_def. Qed.
Theorem C10_brac_empty : forall dt thr (a : list R), (forall k, (k < length a)%nat -> Rabs (nth k a 0) <= thr) ->
  brac_dur_se dt thr a = None /\ brac_dur dt thr a = 0.
Proof. exact P_C10.C10_brac_empty. Qed.
Theorem C10_brac_antitone : forall dt thr thr' (a : list R), 0 <= dt -> thr <= thr' -> brac_dur dt thr' a <= brac_dur dt thr a.
Proof. exact P_C10.C10_brac_dur_antitone. Qed.
Theorem C10_brac_joint_scale : forall al thr (a : list R), al <> 0 ->
  brac_idx (Rabs al * thr) (map (Rmult al) a) = brac_idx thr a.
Proof. exact P_C10.C10_brac_joint_scale. Qed.

Example C10_nonvacuous : sig_dur_vals_idx (1/4) (3/4) [1; 1; 1; 1; 1; 1; 1; 1] = Some (2%nat, 4%nat).
Proof.
  unfold sig_dur_vals_idx, sig_dur_idx, where_idx, last0, between, cumsum, vsq. cbn [map cumsum_from last where_from].
  numR. repeat match goal with |- context [Rltb ?a ?b] =>
    let H := fresh in destruct (Rltb a b) eqn:H; [apply Rltb_true in H|apply Rltb_false in H]; try lra end; reflexivity.
Qed.
