(** C11 — Local-peak detection is sound and complete on every series (statements; proofs in P_C11).
    Stated over R; only the order of the samples is used. [peaks], [turning], [final_start], [pstart] are in model/M_peaks.v. *)
From Coq Require Import Reals List Lia Lra Bool.
From EQ Require Import lib.Num lib.NpList lib.Where model.M_peaks proofs.P_C11.
Import ListNotations.
Local Open Scope R_scope.

(** "every turning point and nothing else": membership characterisation *)
Theorem C11_exact : forall (xs : list R) i,
  In i (peaks xs) <-> (i < length xs)%nat /\ (i = 0%nat \/ i = final_start xs \/ turning xs i = true).
Proof. exact P_C11.C11_exact. Qed.
(** what [turning] means: first sample of a plateau entered by a strict move and left by a strict move of opposite sign *)
Theorem C11_turning_spec : forall (xs : list R) i, turning xs i = true <->
  exists i' j, i = S i' /\ next_diff xs i = Some j /\
    ((xat xs i' < xat xs i /\ xat xs j < xat xs i) \/ (xat xs i < xat xs i' /\ xat xs i < xat xs j)).
Proof. exact P_C11.turning_spec. Qed.
Theorem C11_next_diff_spec : forall (xs : list R) i j, next_diff xs i = Some j ->
  (i < j < length xs)%nat /\ xat xs j <> xat xs i /\ forall k, (i < k < j)%nat -> xat xs k = xat xs i.
Proof. exact P_C11.next_diff_spec. Qed.
(** what [final_start] means: first sample of the final constant run *)
Theorem C11_final_start_spec : forall (xs : list R), xs <> [] ->
  (final_start xs < length xs)%nat /\ pstart xs (final_start xs) = true /\
  forall k, (final_start xs <= k < length xs)%nat -> xat xs k = xat xs (final_start xs).
Proof. intros xs H. split; [now apply final_start_lt|]. split; [now apply final_start_pstart|]. apply final_run_constant. Qed.

Theorem C11_ascending : forall (xs : list R), ascending (peaks xs).
Proof. exact P_C11.C11_ascending. Qed.
Theorem C11_first_is_0 : forall (xs : list R), xs <> [] -> hd 1%nat (peaks xs) = 0%nat.
Proof. exact P_C11.C11_first_is_0. Qed.
Theorem C11_last_is_final_plateau : forall (xs : list R), xs <> [] -> last (peaks xs) 0%nat = final_start xs.
Proof. exact P_C11.C11_last_is_final_plateau. Qed.
Theorem C11_reported_are_plateau_starts : forall (xs : list R) i, xs <> [] -> In i (peaks xs) -> pstart xs i = true.
Proof. exact P_C11.C11_reported_are_plateau_starts. Qed.

(** between consecutive reported indices the series is monotone with a strict net change ... *)
Theorem C11_monotone_between : forall (xs : list R) p q, In p (peaks xs) -> In q (peaks xs) -> (p < q)%nat ->
  no_reported_between xs p q -> mono_between 1 xs p q \/ mono_between (-1) xs p q.
Proof. exact P_C11.C11_monotone_between. Qed.
(** ... and the direction strictly alternates from one segment to the next *)
Theorem C11_alternates : forall (xs : list R) p q r, In p (peaks xs) -> In q (peaks xs) -> In r (peaks xs) ->
  (p < q < r)%nat -> no_reported_between xs p q -> no_reported_between xs q r ->
  (mono_between 1 xs p q /\ mono_between (-1) xs q r) \/ (mono_between (-1) xs p q /\ mono_between 1 xs q r).
Proof. exact P_C11.C11_alternates. Qed.

Theorem C11_ncyc_length : forall (indys : list nat) origin n, length (n_cyc_of (T:=R) indys origin n) = n.
Proof. exact P_C11.C11_ncyc_length. Qed.

(** NOT proved (partial; decided by the exhaustive correspondence only): that the parity selection [peaks_sel 1/2]
    returns exactly the local maxima/minima, and the +0.5 / 0.25 step clauses of the cycle counter. *)

Example C11_nonvacuous : peaks [1; 1; 2; 1]%R = [0; 2; 3]%nat.
Proof.
  unfold peaks, is_peak, final_start, pstart, turning, next_diff, xat.
  cbn [length seq filter skipn next_diff_from nth Nat.eqb orb andb negb last]. numR.
  repeat match goal with
  | |- context [Reqb ?a ?b] => let H := fresh in destruct (Reqb a b) eqn:H; [apply Reqb_true in H|apply Reqb_false in H]; try lra
  | |- context [Rltb ?a ?b] => let H := fresh in destruct (Rltb a b) eqn:H; [apply Rltb_true in H|apply Rltb_false in H]; try lra
  end; cbn; try reflexivity.
Qed.
