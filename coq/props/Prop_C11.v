(** C11 — Local-peak detection is sound and complete on every series (statements; proofs in P_C11).
    Stated over R; only the order of the samples is used. [peaks], [turning], [final_start], [pstart] are in model/M_peaks.v. *)
From Coq Require Import Reals List Lia Lra Bool.
From EQ Require Import lib.Num lib.NpList lib.Quad lib.Where model.M_peaks proofs.P_C11 proofs.P_C11_sel.
Import ListNotations.
Local Open Scope R_scope.

(** "every turning point and nothing else": membership characterisation *)
Theorem C11_exact : forall (xs : list R) i,
  In i (peaks xs) <-> (i < length xs)%nat /\ (i = 0%nat \/ i = final_start xs \/ turning xs i = true).
Proof. exact P_C11.C11_exact. Qed.
(** what [turning] means: first sample of a plateau entered by a strict move and left by a strict move of opposite sign *)
Theorem C11_turning_spec : forall (xs : list R) i, turning xs i = true <->
  exists i' j, i = S i' /\ next_diff xs i = Some j /\
    ((xat xs i' < xat xs i /\ xat xs j < xat xs i) \/ (xat xs i < xat xs i' /\ xat xs i < xat xs j)).
Proof. exact P_C11.turning_spec. Qed.
Theorem C11_next_diff_spec : forall (xs : list R) i j, next_diff xs i = Some j ->
  (i < j < length xs)%nat /\ xat xs j <> xat xs i /\ forall k, (i < k < j)%nat -> xat xs k = xat xs i.
Proof. exact P_C11.next_diff_spec. Qed.
(** what [final_start] means: first sample of the final constant run *)
Theorem C11_final_start_spec : forall (xs : list R), xs <> [] ->
  (final_start xs < length xs)%nat /\ pstart xs (final_start xs) = true /\
  forall k, (final_start xs <= k < length xs)%nat -> xat xs k = xat xs (final_start xs).
Proof. intros xs H. split; [now apply final_start_lt|]. split; [now apply final_start_pstart|]. apply final_run_constant. Qed.

Theorem C11_ascending : forall (xs : list R), ascending (peaks xs).
Proof. exact P_C11.C11_ascending. Qed.
Theorem C11_first_is_0 : forall (xs : list R), xs <> [] -> hd 1%nat (peaks xs) = 0%nat.
Proof. exact P_C11.C11_first_is_0. Qed.
Theorem C11_last_is_final_plateau : forall (xs : list R), xs <> [] -> last (peaks xs) 0%nat = final_start xs.
Proof. exact P_C11.C11_last_is_final_plateau. Qed.
Theorem C11_reported_are_plateau_starts : forall (xs : list R) i, xs <> [] -> In i (peaks xs) -> pstart xs i = true.
Proof. exact P_C11.C11_reported_are_plateau_starts. Qed.

(** between consecutive reported indices the series is monotone with a strict net change ... *)
Theorem C11_monotone_between : forall (xs : list R) p q, In p (peaks xs) -> In q (peaks xs) -> (p < q)%nat ->
  no_reported_between xs p q -> mono_between 1 xs p q \/ mono_between (-1) xs p q.
Proof. exact P_C11.C11_monotone_between. Qed.
(** ... and the direction strictly alternates from one segment to the next *)
Theorem C11_alternates : forall (xs : list R) p q r, In p (peaks xs) -> In q (peaks xs) -> In r (peaks xs) ->
  (p < q < r)%nat -> no_reported_between xs p q -> no_reported_between xs q r ->
  (mono_between 1 xs p q /\ mono_between (-1) xs q r) \/ (mono_between (-1) xs p q /\ mono_between 1 xs q r).
Proof. exact P_C11.C11_alternates. Qed.

Theorem C11_ncyc_length : forall (indys : list nat) origin n, length (n_cyc_of (T:=R) indys origin n) = n.
Proof. exact P_C11.C11_ncyc_length. Qed.

(** * max / min selection (non-constant series: guard [first_up xs <> None]; the code's list for a constant series is [0,0])
    [lmax xs i] / [lmin xs i] (P_C11_sel): for a plateau start i of the plateau-compressed series, the previous sample (if i > 0)
    and the next different sample (if any) are both strictly lower / higher. For index 0 this is "the first strict move goes
    down / up", for the final plateau "the last strict move goes up / down", as the code assigns them. *)
Theorem C11_lmax_spec : forall (xs : list R) i, lmax xs i <->
  (i = 0%nat \/ xat xs (i - 1) < xat xs i) /\ (forall j, next_diff xs i = Some j -> xat xs j < xat xs i).
Proof. intros; reflexivity. Qed.
Theorem C11_lmin_spec : forall (xs : list R) i, lmin xs i <->
  (i = 0%nat \/ xat xs i < xat xs (i - 1)) /\ (forall j, next_diff xs i = Some j -> xat xs i < xat xs j).
Proof. intros; reflexivity. Qed.
(** ptype='max' / 'min' return exactly the reported indices that are local maxima / minima *)
Theorem C11_sel_max : forall (xs : list R) i, first_up xs <> None ->
  (In i (peaks_sel 1 xs) <-> In i (peaks xs) /\ lmax xs i).
Proof. exact P_C11_sel.C11_sel_max. Qed.
Theorem C11_sel_min : forall (xs : list R) i, first_up xs <> None ->
  (In i (peaks_sel 2 xs) <-> In i (peaks xs) /\ lmin xs i).
Proof. exact P_C11_sel.C11_sel_min. Qed.

(** in particular index 0 is a 'max' iff the first strict move goes down, the final plateau is a 'max' iff the last strict
    move goes up (and dually for 'min') *)
Theorem C11_sel_index0 : forall (xs : list R), first_up xs <> None ->
  (In 0%nat (peaks_sel 1 xs) <-> first_up xs = Some false) /\ (In 0%nat (peaks_sel 2 xs) <-> first_up xs = Some true).
Proof. exact P_C11_sel.C11_sel_index0. Qed.
Theorem C11_sel_final : forall (xs : list R), first_up xs <> None ->
  (In (final_start xs) (peaks_sel 1 xs) <-> xat xs (final_start xs - 1) < xat xs (final_start xs)) /\
  (In (final_start xs) (peaks_sel 2 xs) <-> xat xs (final_start xs) < xat xs (final_start xs - 1)).
Proof. exact P_C11_sel.C11_sel_final. Qed.

(** * cycle counter [n_cyc_of indys origin n] = np.interp(arange(n), ind, cyc) for any strictly ascending index list [indys]
    (the C11 peak list or the C12 switched-peak list): [ncyc_ind indys] is [indys] with index 0 prepended when missing,
    [ncyc_val origin k] = 0 for k = 0 and k/2 - 1/4 (origin) or k/2 (peak) for k >= 1 *)
Theorem C11_ncyc_val_spec : forall origin k, ncyc_val origin k = if Nat.eqb k 0 then 0 else / 2 * INR k + (if origin then - / 4 else 0).
Proof. intros; reflexivity. Qed.
(** value at the k-th reported index ... *)
Theorem C11_ncyc_at_reported : forall indys origin n k, ascending indys -> (k < length (ncyc_ind indys))%nat ->
  (nth k (ncyc_ind indys) 0 < n)%nat ->
  nth (nth k (ncyc_ind indys) 0%nat) (n_cyc_of (T:=R) indys origin n) 0 = ncyc_val origin k.
Proof. exact P_C11_sel.C11_ncyc_at_reported. Qed.
(** ... hence +0.5 between consecutive reported peaks, and 0.25 (origin) / 0.5 (peak) from index 0 to the first one *)
Theorem C11_ncyc_half_step : forall origin k, (1 <= k)%nat -> ncyc_val origin (S k) - ncyc_val origin k = / 2.
Proof. intros origin k Hk. unfold ncyc_val. destruct k as [|k]; [lia|]. cbn [Nat.eqb]. rewrite !S_INR. lra. Qed.
Theorem C11_ncyc_first_step : ncyc_val true 1 - ncyc_val true 0 = / 4 /\ ncyc_val false 1 - ncyc_val false 0 = / 2.
Proof. unfold ncyc_val. cbn [Nat.eqb INR]. split; lra. Qed.
(** non-decreasing *)
Theorem C11_ncyc_nondecreasing : forall indys origin n, ascending indys -> nondecreasing (n_cyc_of (T:=R) indys origin n).
Proof. exact P_C11_sel.C11_ncyc_nondecreasing. Qed.
(** constant after the last reported index *)
Theorem C11_ncyc_after_last : forall indys origin n i, ascending indys -> (List.last (ncyc_ind indys) 0 <= i < n)%nat ->
  nth i (n_cyc_of (T:=R) indys origin n) 0 = ncyc_val origin (length (ncyc_ind indys) - 1).
Proof. exact P_C11_sel.C11_ncyc_after_last. Qed.
(** the two index lists the code feeds to the counter are strictly ascending *)
Theorem C11_ncyc_inputs_ascending : forall (xs : list R), ascending (peaks xs) /\ ascending (switched_peaks 0 xs).
Proof. intros xs. split; [apply P_C11.C11_ascending|apply P_C12.C12_sp_ascending]. Qed.

(** Every clause of the property is now a theorem about the model. Between two reported indices the counter is the linear
    interpolant (np.interp), so it is NOT constant there; what is proved is: the values at the reported indices, monotonicity
    everywhere, and constancy after the last reported index. That the declarative model ([peaks] as a filter over indices) is what the
    ediff1d/where/take pipeline computes is proved in props/Prop_C11_pipeline.v; only np.interp = [interp_pts] and the reading
    of the statement-by-statement transcription (model/M_peaks_pipeline.v) against the source remain with the correspondence. *)

Example C11_nonvacuous : peaks [1; 1; 2; 1]%R = [0; 2; 3]%nat.
Proof.
  unfold peaks, is_peak, final_start, pstart, turning, next_diff, xat.
  cbn [length seq filter skipn next_diff_from nth Nat.eqb orb andb negb last]. numR.
  repeat match goal with
  | |- context [Reqb ?a ?b] => let H := fresh in destruct (Reqb a b) eqn:H; [apply Reqb_true in H|apply Reqb_false in H]; try lra
  | |- context [Rltb ?a ?b] => let H := fresh in destruct (Rltb a b) eqn:H; [apply Rltb_true in H|apply Rltb_false in H]; try lra
  end; cbn; try reflexivity.
Qed.
Example C11_sel_nonvacuous : first_up [1; 1; 2; 1]%R <> None.
Proof.
  unfold first_up, next_diff, xat. cbn [skipn next_diff_from nth]. numR.
  repeat match goal with
  | |- context [Reqb ?a ?b] => let H := fresh in destruct (Reqb a b) eqn:H; [apply Reqb_true in H|apply Reqb_false in H]; try lra
  end; cbn; discriminate.
Qed.
