(** C15 — Stockwell transform: definition, Fourier marginal and exact inverse (statements; proofs in P_C15).
    Everything is about the R instance of model/M_stockwell.v (built on lib/Dft.v):
      half_len x = n/2 (floored), st_N (n/2) = 2 (n/2) = N : the even length the record is truncated to,
      st_re_R x / st_im_R x : real / imaginary parts of what transform(x) and transform_w_scipy_fft(x) return
                              (list of rows, row r = voice k = n/2 - r),
      st_cell_re_R n2 x k t / st_cell_im_R : cell (voice k, time t),
      dft_re_R N x z / dft_im_R N x z : real / imaginary part of X[z] = sum_n x_n e^{-2 pi i z n/N} (C06),
      Rgauss k m = exp(-2 pi^2 m^2/k^2), sidx (n/2) j = signed FFT index of column j,
      ist_R re im : itransform of a complex matrix, max_freq re im dt : get_max_stockwell_freq / get_max_tifq_vals_freq.
    [rsum g n] is the textbook sum of g j over j < n.
    NOT claimed at proof level: the last clause of the property (the dominant-frequency trace of a stationary on-grid
    sinusoid equals its frequency over the middle half of the record).  It needs quantitative bounds on sums of
    Gaussians with a razor-thin margin; the harness evaluates it on the implementation as a TEST (site "dominant:test"). *)
From Coq Require Import ZArith QArith Reals List Lia Lra.
From EQ Require Import lib.Num lib.NpList lib.Dft model.M_fourier model.M_stockwell proofs.P_C06 proofs.P_C15.
Import ListNotations.
Local Open Scope R_scope.

(** ** shape: (n/2) rows of 2(n/2) cells; row r is voice n/2 - r: Nyquist (k = n/2) first, first harmonic (k = 1) last *)
Theorem C15_shape : forall (x : list R),
  length (st_re_R x) = half_len x /\ length (st_im_R x) = half_len x /\
  forall r t, (r < half_len x)%nat -> (t < 2 * half_len x)%nat ->
    length (nth r (st_re_R x) []) = (2 * half_len x)%nat /\ length (nth r (st_im_R x) []) = (2 * half_len x)%nat /\
    nth t (nth r (st_re_R x) []) 0 = st_cell_re_R (half_len x) x (Z.of_nat (half_len x - r)) (Z.of_nat t) /\
    nth t (nth r (st_im_R x) []) 0 = st_cell_im_R (half_len x) x (Z.of_nat (half_len x - r)) (Z.of_nat t).
Proof.
  intros x. destruct (P_C15.st_rows x) as (H1 & H2 & _). split; [exact H1|]. split; [exact H2|].
  intros r t Hr Ht. now apply P_C15.st_shape.
Qed.

(** ** the spectrum the cells are built from is the textbook DFT of the record truncated to N = 2(n/2) samples
       (only j < N enters the sum), at any integer frequency index z *)
Theorem C15_spectrum : forall (N : nat) (x : list R) (z : Z),
  dft_re_R (Z.of_nat N) x z = rsum (fun j => nth j x 0 * cos (2 * PI * IZR (z * Z.of_nat j) / IZR (Z.of_nat N))) N /\
  dft_im_R (Z.of_nat N) x z = - rsum (fun j => nth j x 0 * sin (2 * PI * IZR (z * Z.of_nat j) / IZR (Z.of_nat N))) N.
Proof. intros. split; [apply P_C06.dft_re_rsum|apply P_C06.dft_im_rsum]. Qed.

(** ** definition: every cell is the complex conjugate of the discrete S-transform (Stockwell et al. 1996)
         S[k,t] = (1/N) sum_{m<N} X[(m+k) mod N] exp(-2 pi^2 ms^2/k^2) e^{+2 pi i m t/N}     (ms = signed index of m)
       whose Gaussian is the Fourier transform of a time window of standard deviation 1/f.  Real and imaginary parts
       of S are written out; the record is real (it is a [list R]), which is what the reflection X[-m] = conj X[m] uses.
       Holds for every voice k and time t (in particular 1 <= k <= n/2, t < N). *)
Theorem C15_is_conj_S_transform : forall (n2 : nat) (x : list R) (k t : Z),
  let N := st_N n2 in
  let Xre := fun z => dft_re_R N x (z mod N) in let Xim := fun z => dft_im_R N x (z mod N) in
  let th := fun m : nat => 2 * PI * IZR (Z.of_nat m * t) / IZR N in
  let g := fun m : nat => Rgauss k (sidx n2 (Z.of_nat m)) in
  st_cell_re_R n2 x k t = rsum (fun m => g m * (Xre (Z.of_nat m + k)%Z * cos (th m) - Xim (Z.of_nat m + k)%Z * sin (th m))) (2 * n2) / IZR N /\
  st_cell_im_R n2 x k t = - (rsum (fun m => g m * (Xre (Z.of_nat m + k)%Z * sin (th m) + Xim (Z.of_nat m + k)%Z * cos (th m))) (2 * n2) / IZR N).
Proof. exact P_C15.st_is_conj_S. Qed.
(** the window: value 1 at m = 0, even in m, positive; the signed index is j up to the Nyquist column and j - N above *)
Theorem C15_window : forall k m, Rgauss k m = exp (- (2 * (PI * PI) * (IZR m * IZR m)) / (IZR k * IZR k)) /\
  Rgauss k 0 = 1 /\ Rgauss k (- m) = Rgauss k m /\ 0 < Rgauss k m.
Proof. intros. split; [reflexivity|]. split; [apply P_C15.gauss_0|]. split; [apply P_C15.gauss_even|apply P_C15.gauss_pos]. Qed.
Theorem C15_signed_index : forall (n2 : nat) (j : Z),
  ((j <= Z.of_nat n2)%Z -> sidx n2 j = j) /\ ((Z.of_nat n2 < j)%Z -> sidx n2 j = (j - 2 * Z.of_nat n2)%Z).
Proof. intros. unfold sidx, st_N. destruct (Z.leb_spec j (Z.of_nat n2)); split; intros; try reflexivity; lia. Qed.

(** ** both provided implementations: the same function of the record (they differ only in the FFT library that
       evaluates the sums).  This equality is by construction of the model; that EACH implementation is this model is
       what the correspondence check measures (every sampled cell of both, plus cell-by-cell agreement). *)
Theorem C15_impls_agree : forall x : list R, transform_R x = transform_w_scipy_fft_R x.
Proof. reflexivity. Qed.

(** ** linearity (records of equal length): every cell, and the whole matrices *)
Theorem C15_linear : forall a b (x y : list R), length x = length y ->
  st_re_R (map2 (fun u v => a * u + b * v) x y) = map2 (map2 (fun u v => a * u + b * v)) (st_re_R x) (st_re_R y) /\
  st_im_R (map2 (fun u v => a * u + b * v) x y) = map2 (map2 (fun u v => a * u + b * v)) (st_im_R x) (st_im_R y).
Proof. exact P_C15.st_linear. Qed.
Theorem C15_linear_cell : forall n2 a b (x y : list R) k t, length x = length y ->
  st_cell_re_R n2 (map2 (fun u v => a * u + b * v) x y) k t = a * st_cell_re_R n2 x k t + b * st_cell_re_R n2 y k t /\
  st_cell_im_R n2 (map2 (fun u v => a * u + b * v) x y) k t = a * st_cell_im_R n2 x k t + b * st_cell_im_R n2 y k t.
Proof. exact P_C15.st_cell_linear. Qed.

(** ** Fourier marginal: summing voice k over time gives the conjugate Fourier coefficient conj X[k] *)
Theorem C15_marginal : forall (n2 : nat) (x : list R) (k : Z), (1 <= n2)%nat -> (0 <= k)%Z ->
  rsum (fun t => st_cell_re_R n2 x k (Z.of_nat t)) (2 * n2) = dft_re_R (st_N n2) x k /\
  rsum (fun t => st_cell_im_R n2 x k (Z.of_nat t)) (2 * n2) = - dft_im_R (st_N n2) x k.
Proof. exact P_C15.st_marginal. Qed.
(** the same on the returned matrix: its row sums (what itransform forms) are conj X[k] for k = n/2, ..., 1 *)
Theorem C15_marginal_rows : forall x : list R, (1 <= half_len x)%nat ->
  row_sums (st_re_R x) = map (fun k => dft_re_R (st_N (half_len x)) x k) (st_ks (half_len x)) /\
  row_sums (st_im_R x) = map (fun k => - dft_im_R (st_N (half_len x)) x k) (st_ks (half_len x)).
Proof. exact P_C15.st_row_sums. Qed.

(** ** exact inverse: for every record with at least 2 samples, itransform(transform(x)) has N = 2(n/2) samples and
       sample n = x_n - mean - (-1)^n (Nyquist coefficient)/N, mean and Nyquist coefficient of the truncated record *)
Theorem C15_inverse : forall x : list R, (1 <= half_len x)%nat ->
  let N := (2 * half_len x)%nat in
  length (ist_R (st_re_R x) (st_im_R x)) = N /\
  forall n, (n < N)%nat ->
    nth n (ist_R (st_re_R x) (st_im_R x)) 0
    = nth n x 0 - rsum (fun j => nth j x 0) N / INR N - (-1) ^ n * (rsum (fun j => nth j x 0 * (-1) ^ j) N / INR N).
Proof.
  intros x HM N. split; [now apply P_C15.ist_st_length|]. intros n Hn. now apply P_C15.ist_st_nth.
Qed.

(** ** dominant-frequency trace (get_max_stockwell_freq / get_max_tifq_vals_freq) of ANY complex matrix with P rows:
       at time t it reports (P - r)/(2 P dt), i.e. voice k = P - r on the axis k/(N dt), for the FIRST row r (highest
       frequency) maximising |cell| (squared amplitudes are compared: |z| is monotone in |z|^2).
       Which voice that is for a sinusoid is the clause that is NOT proved (see the header). *)
Theorem C15_max_freq_axis : forall (re im : list (list R)) (dt : R) (t : nat),
  re <> [] -> length im = length re -> (t < length (nth 0 re []))%nat ->
  let P := fun r => nth t (nth r re []) 0 * nth t (nth r re []) 0 + nth t (nth r im []) 0 * nth t (nth r im []) 0 in
  let r := max_row re im t in
  (r < length re)%nat /\ (forall j, (j < length re)%nat -> P j <= P r) /\ (forall j, (j < r)%nat -> P j < P r) /\
  nth t (max_freq re im dt) 0 = INR (length re - r) / (INR (2 * length re) * dt).
Proof. exact P_C15.max_freq_spec. Qed.

(** the trace of the record's own transform (get_max_stockwell_freq on an object without a cached transform): at every
    time t < N it reports k/(N dt) for a voice k in 1..n/2 of largest amplitude, the highest such voice if several tie *)
Theorem C15_max_freq_record : forall (x : list R) (dt : R) (t : nat), (1 <= half_len x)%nat -> (t < 2 * half_len x)%nat ->
  let n2 := half_len x in
  let A := fun k : nat => st_cell_re_R n2 x (Z.of_nat k) (Z.of_nat t) * st_cell_re_R n2 x (Z.of_nat k) (Z.of_nat t)
                        + st_cell_im_R n2 x (Z.of_nat k) (Z.of_nat t) * st_cell_im_R n2 x (Z.of_nat k) (Z.of_nat t) in
  exists k, (1 <= k <= n2)%nat /\ (forall k', (1 <= k' <= n2)%nat -> A k' <= A k) /\ (forall k', (k < k' <= n2)%nat -> A k' < A k) /\
    nth t (max_stockwell_freq_R x dt) 0 = INR k / (INR (2 * n2) * dt).
Proof. exact P_C15.max_stockwell_freq_record. Qed.

(** ** the Q runs of the correspondence checker are evaluations of the R model: itransform at the samples whose
       twiddles are representable, and the dominant-frequency trace (the DFT bins used by the marginal check are
       covered by C06_q_run_transfer) *)
Theorem C15_q_run_itransform : forall (re im : list (list Q)) (re' im' : list (list R)) (n : Z),
  Forall2 (Forall2 rel) re re' -> Forall2 (Forall2 rel) im im' ->
  let N := (2 * Z.of_nat (length (row_sums re)))%Z in
  tw_ok N n = true ->
  rel (idft_re Qtwc Qtws N (ist_spec_re (row_sums re)) (ist_spec_im (row_sums im)) n)
      (idft_re Rtwc Rtws N (ist_spec_re (row_sums re')) (ist_spec_im (row_sums im')) n).
Proof. exact P_C15.ist_sample_transfer. Qed.
Theorem C15_q_run_max_freq : forall (re im : list (list Q)) (re' im' : list (list R)) (dt : Q) (dt' : R),
  Forall2 (Forall2 rel) re re' -> Forall2 (Forall2 rel) im im' -> rel dt dt' ->
  Forall2 rel (max_freq re im dt) (max_freq re' im' dt').
Proof. exact P_C15.max_freq_transfer. Qed.

(** non-vacuity: a 5-sample record is truncated to N = 4: two rows (Nyquist k = 2, then k = 1) of four cells; the
    hypotheses of the marginal and inverse theorems hold; the row sums are conj X[2] = x0-x1+x2-x3 and
    conj X[1] = (x0 - x2) + i (x1 - x3) -> real part 1 - 4, imaginary part -(-(2 - 8)) ... evaluated below;
    the inverse returns sample 0 = x0 - mean - Nyquist/N. *)
Example C15_nonvacuous : let x := [1; 2; 4; 8; 16] in
  half_len x = 2%nat /\ (1 <= half_len x)%nat /\ length (st_re_R x) = 2%nat /\ length (nth 0 (st_re_R x) []) = 4%nat /\
  st_ks (half_len x) = [2%Z; 1%Z] /\
  row_sums (st_re_R x) = [dft_re_R 4 x 2; dft_re_R 4 x 1] /\ dft_re_R 4 x 2 = 1 - 2 + 4 - 8 /\
  nth 0 (ist_R (st_re_R x) (st_im_R x)) 0 = 1 - 15 / 4 - (-5) / 4.
Proof.
  cbv zeta. split; [reflexivity|]. split; [cbn; lia|].
  destruct (C15_shape [1; 2; 4; 8; 16]) as (L & _ & Hs). split; [exact L|].
  destruct (Hs 0%nat 0%nat ltac:(cbn; lia) ltac:(cbn; lia)) as (L0 & _). split; [exact L0|].
  split; [reflexivity|].
  destruct (C15_marginal_rows [1; 2; 4; 8; 16] ltac:(cbn; lia)) as [Hr _]. split; [exact Hr|].
  split.
  - destruct (P_C06.dft_nyquist 2 [1; 2; 4; 8; 16] ltac:(lia)) as [H _]. change (Z.of_nat (2 * 2)) with 4%Z in H.
    change (Z.of_nat 2) with 2%Z in H. rewrite H. cbn [rsum nth pow Nat.mul Nat.add]. lra.
  - destruct (C15_inverse [1; 2; 4; 8; 16] ltac:(cbn; lia)) as [_ H]. rewrite (H 0%nat ltac:(cbn; lia)).
    change (half_len [1; 2; 4; 8; 16]) with 2%nat. cbn [rsum nth pow Nat.mul Nat.add INR]. lra.
Qed.

(** non-vacuity of the Q-run theorems and of the trace theorem: a 2 x 2 complex matrix; sample 1 of N = 4 has
    representable twiddles and itransform gives 1/2 there; at time 0 rows 0 and 1 tie (|1| = |i|) and the first row
    (voice 2, frequency 2/(4 dt) = 1) is reported, at time 1 row 1 (voice 1, frequency 1/2) *)
Example C15_q_run_nonvacuous :
  let re := [[1%Q; 2%Q]; [3%Q; 4%Q]] in let im := [[0%Q; 1%Q]; [1%Q; 0%Q]] in
  tw_ok (2 * Z.of_nat (length (row_sums re))) 1 = true /\
  idft_re Qtwc Qtws 4 (ist_spec_re (row_sums re)) (ist_spec_im (row_sums im)) 1 = (1 # 2)%Q /\
  max_freq [[1%Q; 0%Q]; [0%Q; 2%Q]] [[0%Q; 0%Q]; [1%Q; 0%Q]] (1 # 2)%Q = [1%Q; (1 # 2)%Q] /\
  [[1; 0]; [0; 2]]%R <> [] /\ (0 < length (nth 0 [[1; 0]; [0; 2]]%R []))%nat.
Proof. cbv zeta. repeat split; try (vm_compute; reflexivity); [discriminate|cbn; lia]. Qed.

(** ** SOURCE-TEXT TIE.  gen/Gen_c15.v is re-translated from eqsig/stockwell.py on every run of the check by the fail-closed
    translator translator/py2coq_c15.py (one definition per function: generate_gaussian, transform, transform_w_scipy_fft,
    itransform, get_max_tifq_vals_freq, get_max_stockwell_freq; temporaries substituted).  The theorems below say that the
    generated text IS the model the theorems above are about, for ALL inputs, so a changed operand / index / sign / literal /
    slice bound in one of those statements changes the generated text and breaks a proof obligation of this file.
    NOT translated (they are parameters of the generated definitions): np.fft.fft / np.fft.ifft and scipy.fftpack.fft / ifft
    (instantiated with the array-level reading [model_fft_*], [model_ifft_*] of the defining sums of lib/Dft.v), np.exp (exp),
    np.pi (PI), the modulus inside abs() (sqrt), the float expression of `npts` (the real expression 1 - up(-2^(ln n/ln 2)), or
    ANY integer >= n in the generic theorem).  The readings of the NumPy / SciPy array statements themselves (lib/NpMat.v,
    lib/NpArr.v: toeplitz, transpose, outer, slices, set_slice, sum_axis1, argmax_axis0) are trusted definitions; that NumPy
    and SciPy behave as these readings and the transforms as the sums is what the correspondence check measures.
    Binary64 rounding is not modelled (in particular `npts` is read in exact arithmetic; the generic theorem covers a float
    evaluation that lands on n + 1).  The `interp` parameter of the two transforms is unused by the source (any use makes the
    translator fail); `overwrite_x=True` of the SciPy call concerns the caller's array, not the returned value.
    Guards: a record of at least 2 samples (np.fft.fft(acc, 0) raises below that); a complex matrix with at least one row. *)
From EQ Require Import lib.PyVal lib.NpArr lib.NpMat gen.Gen_c06 proofs.P_gen_c06 gen.Gen_c15 proofs.P_gen_c15.

(** generate_gaussian(n_d2): row k - 1, column j is the model's window exp(-2 pi^2 m^2 / k^2) at the signed index m = sidx j
    (f_half = arange(0, n_d2 + 1) / (2 n_d2), f = concatenate(f_half, flipud(-f_half[1:-1])), p = 2 pi outer(f, 1 / f_half[1:]),
    exp(-p^2 / 2) transposed) *)
Theorem C15_gaussian_is_source : forall n2 : nat, (1 <= n2)%nat ->
  gen_generate_gaussian exp PI (Z.of_nat n2)
  = map (fun i => map (fun j => Rgauss (Z.of_nat i + 1) (sidx n2 (Z.of_nat j))) (seq 0 (2 * n2))) (seq 0 n2).
Proof. exact P_gen_c15.gen_gaussian_R. Qed.
Theorem C15_gaussian_cell_is_source : forall n2 k j : nat, (1 <= k <= n2)%nat -> (j < 2 * n2)%nat ->
  nth j (nth (k - 1) (gen_generate_gaussian exp PI (Z.of_nat n2)) []) 0 = Rgauss (Z.of_nat k) (sidx n2 (Z.of_nat j)).
Proof. exact P_gen_c15.gen_gaussian_R_nth. Qed.

(** transform(acc): n_d2 = int(len(acc) / 2), fa = fft(acc, 2 n_d2), toeplitz(conj(fa[:n_d2 + 1]), fa)[1:n_d2 + 1, :] times
    the window, ifft along the rows, flipud.  Generic in the number type (the structure needs no arithmetic law), given that
    the generated window is the model's; at R the window hypothesis is C15_gaussian_is_source. *)
Theorem C15_transform_is_source_generic : forall (T : Type) (ops : NumOps T) (twc tws gau : Z -> Z -> T) (exp_ : T -> T) (pi_ : T)
  (a : list T), (1 <= half_len a)%nat ->
  gen_generate_gaussian exp_ pi_ (Z.of_nat (half_len a))
  = map (fun i => map (fun j => gau (Z.of_nat i + 1)%Z (sidx (half_len a) (Z.of_nat j))) (seq 0 (2 * half_len a))) (seq 0 (half_len a)) ->
  gen_transform (model_fft_re twc) (model_fft_im tws) (model_ifft_re twc tws) (model_ifft_im twc tws) exp_ pi_ a
  = (st_re twc tws gau a, st_im twc tws gau a).
Proof. exact (@P_gen_c15.gen_transform_eq). Qed.
Theorem C15_transform_is_source : forall a : list R, (1 <= half_len a)%nat ->
  gen_transform (model_fft_re Rtwc) (model_fft_im Rtws) (model_ifft_re Rtwc Rtws) (model_ifft_im Rtwc Rtws) exp PI a = transform_R a.
Proof. exact P_gen_c15.gen_transform_R. Qed.

(** transform_w_scipy_fft(acc): the same statements with scipy.fftpack.fft / ifft in the place of np.fft.fft / ifft (the
    first theorem is an identity of generated TEXTS: any difference between the two bodies breaks it) *)
Theorem C15_transform_w_scipy_fft_same_text : forall (T : Type) (ops : NumOps T) (fr fi : option Z -> list T -> list T)
  (ir ii : list T -> list T -> list T) (exp_ : T -> T) (pi_ : T) (a : list T),
  gen_transform_w_scipy_fft fr fi ir ii exp_ pi_ a = gen_transform fr fi ir ii exp_ pi_ a.
Proof. exact (@P_gen_c15.gen_transform_scipy_eq). Qed.
Theorem C15_transform_w_scipy_fft_is_source : forall a : list R, (1 <= half_len a)%nat ->
  gen_transform_w_scipy_fft (model_fft_re Rtwc) (model_fft_im Rtws) (model_ifft_re Rtwc Rtws) (model_ifft_im Rtwc Rtws) exp PI a
  = transform_w_scipy_fft_R a.
Proof. exact P_gen_c15.gen_transform_scipy_R. Qed.

(** itransform(stock): ss = sum(stock, axis=1), n = 2 len(ss), zeros(n), the two slice assignments (flip(conj(ss[1:])) and
    ss[1:]), ifft, real([:npts]).  Generic in the number type and in the reading [cpl] of the float expression
    int(ceil(2 ** (log(n) / log(2)))), as long as it is at least n; in exact (real) arithmetic it is n. *)
Theorem C15_itransform_is_source_generic : forall (T : Type) (ops : NumOps T) (twc tws : Z -> Z -> T) (cpl : Z -> Z -> Z -> Z)
  (re im : list (list T)), re <> [] -> length im = length re ->
  (2 * Z.of_nat (length re) <= cpl 2 (2 * Z.of_nat (length re)) 2)%Z ->
  gen_itransform (model_ifft_re twc tws) cpl re im = ist twc tws re im.
Proof. exact (@P_gen_c15.gen_itransform_eq). Qed.
Theorem C15_npts_is_source : forall n : Z, (1 <= n)%Z -> (1 - up (- Rpower (IZR 2) (ln (IZR n) / ln (IZR 2))))%Z = n.
Proof. exact P_gen_c15.R_cpl_pow2. Qed.
Theorem C15_itransform_is_source : forall re im : list (list R), re <> [] -> length im = length re ->
  gen_itransform (model_ifft_re Rtwc Rtws) (fun a b c => (1 - up (- Rpower (IZR a) (ln (IZR b) / ln (IZR c))))%Z) re im = ist_R re im.
Proof. exact P_gen_c15.gen_itransform_R. Qed.

(** get_max_tifq_vals_freq(tifq_values, dt): points = len, freqs = flipud(arange(1, points + 1) / (2 points dt)) is the
    model's axis (generic); argmax(abs(.), axis=0) and take give the model's trace (R: |z| is monotone in |z|^2).
    Guards: at least one row; real and imaginary parts rectangular of the same shape. *)
Theorem C15_freq_axis_is_source : forall (T : Type) (ops : NumOps T) (sqrt_ : T -> T) (re im : list (list T)) (dt : T),
  gen_get_max_tifq_vals_freq sqrt_ re im dt
  = take n0 (st_freqs (length re) dt) (argmax_axis0 (mmap2 (fun x y => sqrt_ (x * x + y * y)%num) re im)).
Proof. exact (@P_gen_c15.gen_tifq_shape). Qed.
Theorem C15_max_tifq_is_source : forall (re im : list (list R)) (dt : R), re <> [] -> length im = length re ->
  Forall (fun r => length r = length (nth 0 re [])) re -> Forall (fun r => length r = length (nth 0 re [])) im ->
  gen_get_max_tifq_vals_freq sqrt re im dt = max_freq re im dt.
Proof. exact P_gen_c15.gen_tifq_R. Qed.

(** get_max_stockwell_freq(asig): `if not hasattr(asig, "swtf"): asig.swtf = transform(asig.values)`, then the statements of
    get_max_tifq_vals_freq on asig.swtf with asig.dt.  With a cached transform c it is the trace of c; without one it is the
    trace of the record's own transform, the model's max_stockwell_freq_R. *)
Theorem C15_max_stockwell_cached_is_source : forall (T : Type) (ops : NumOps T) fr fi ir ii (exp_ sqrt_ : T -> T) (pi_ dt : T)
  (a : list T) (c : list (list T) * list (list T)),
  gen_get_max_stockwell_freq fr fi ir ii exp_ sqrt_ pi_ (Some c) dt a = gen_get_max_tifq_vals_freq sqrt_ (fst c) (snd c) dt.
Proof. intros. reflexivity. Qed.
Theorem C15_max_stockwell_is_source : forall (a : list R) (dt : R), (1 <= half_len a)%nat ->
  gen_get_max_stockwell_freq (model_fft_re Rtwc) (model_fft_im Rtws) (model_ifft_re Rtwc Rtws) (model_ifft_im Rtwc Rtws)
    exp sqrt PI None dt a = max_stockwell_freq_R a dt.
Proof. exact P_gen_c15.gen_max_stockwell_R. Qed.

(** what the source computes for itransform(transform(x)), through C15_inverse: N samples, sample n = x_n - mean - Nyquist *)
Theorem C15_source_inverse : forall a : list R, (1 <= half_len a)%nat ->
  let s := gen_transform (model_fft_re Rtwc) (model_fft_im Rtws) (model_ifft_re Rtwc Rtws) (model_ifft_im Rtwc Rtws) exp PI a in
  let y := gen_itransform (model_ifft_re Rtwc Rtws) (fun a b c => (1 - up (- Rpower (IZR a) (ln (IZR b) / ln (IZR c))))%Z) (fst s) (snd s) in
  let N := (2 * half_len a)%nat in
  length y = N /\
  forall n, (n < N)%nat ->
    nth n y 0 = nth n a 0 - rsum (fun j => nth j a 0) N / INR N - (-1) ^ n * (rsum (fun j => nth j a 0 * (-1) ^ j) N / INR N).
Proof.
  intros a Hn. cbv zeta. change (fun a b c : Z => (1 - up (- Rpower (IZR a) (ln (IZR b) / ln (IZR c))))%Z) with P_gen_c15.R_cpl.
  rewrite (P_gen_c15.source_roundtrip a Hn). exact (C15_inverse a Hn).
Qed.

(** non-vacuity of the guards of the source theorems: a 2 x 2 complex matrix is non-empty and rectangular; a 5-sample record
    has half length 2; the generated window of a 4-point transform has Rgauss 1 (-1) in row 0, column 3 *)
Example C15_source_nonvacuous :
  let re := [[1; 0]; [0; 2]] in let im := [[0; 0]; [1; 0]] in
  re <> [] /\ length im = length re /\ Forall (fun r => length r = length (nth 0 re [])) re /\
  Forall (fun r => length r = length (nth 0 re [])) im /\ (1 <= half_len [1; 2; 4; 8; 16])%nat /\
  nth 3 (nth (1 - 1) (gen_generate_gaussian exp PI (Z.of_nat 2)) []) 0 = Rgauss 1 (-1).
Proof.
  cbv zeta. split; [discriminate|]. split; [reflexivity|]. split; [repeat constructor|]. split; [repeat constructor|].
  split; [cbn; lia|]. exact (C15_gaussian_cell_is_source 2 1 3 ltac:(lia) ltac:(lia)).
Qed.
