(** Python / NumPy sequence readings used by the generated C18 functions (gen/Gen_c18.v, written by
    translator/py2coq_c18.py).  Definitions only; the lemmas that relate them to the vocabulary of model/M_multiple.v are in
    proofs/P_gen_c18.v.  Python ints are read as [Z], floats as [T] (any [NumOps] instance), 1-d arrays and lists as [list T].

      l[a:b], l[:b], l[a:]  (int bounds)   -> [py_slice (Some a) (Some b) l], [py_slice None (Some b) l], [py_slice (Some a) None l]
                                              a negative bound counts from the end; both are clipped to [0, len(l)]
      l[k]  (int k, negative from the end)  -> [py_item l k] : option (None = IndexError);  [py_get l k] = the same with n0 for None
      [x] * k                               -> [py_rep x k]  (k <= 0 gives the empty list)
      range(n)                              -> [py_range n]  (n <= 0 gives the empty range)
      np.radians(x)                         -> [np_radians pi x] = x * pi / 180
      np.linspace(a, b, num)                -> [np_linspace a b num]  (endpoint included; num = 0 -> [], num = 1 -> [a])
      np.mod(x, m)                          -> [np_mod x m] = x - m * floor(x / m)
      int(x)  (float x)                     -> [py_int x]  truncation towards zero
      np.mean(v)                            -> [np_mean v] = sum / len   (nan = 0/0 on an empty array: in Coq, [n0 / nofZ 0])
      p == "literal"  (p a str or None)     -> [py_opt_streq p "literal"]
      a list comprehension / loop that may raise -> [opt_all]: [None] as soon as one item is [None] *)
From Coq Require Import String ZArith List Bool.
From EQ Require Import lib.Num lib.NpList.
Import ListNotations.
Local Open Scope num_scope.

Definition py_bound (n : nat) (i : Z) : nat :=
  if (i <? 0)%Z then Z.to_nat (Z.max 0 (Z.of_nat n + i)) else Nat.min (Z.to_nat i) n.
Definition py_slice {A} (lo hi : option Z) (l : list A) : list A :=
  let a := match lo with Some i => py_bound (length l) i | None => 0%nat end in
  let b := match hi with Some i => py_bound (length l) i | None => length l end in
  firstn (b - a) (skipn a l).
Definition py_item {A} (l : list A) (i : Z) : option A :=
  if (i <? 0)%Z then (if (Z.of_nat (length l) + i <? 0)%Z then None else nth_error l (Z.to_nat (Z.of_nat (length l) + i)))
  else nth_error l (Z.to_nat i).
Definition py_rep {A} (x : A) (k : Z) : list A := repeat x (Z.to_nat k).
Definition py_range (n : Z) : list Z := map Z.of_nat (seq 0 (Z.to_nat n)).
(** [p == "literal"] on an optional string parameter (None == ".." is False) *)
Definition py_opt_streq (p : option string) (s : string) : bool :=
  match p with Some q => String.eqb q s | None => false end.
Fixpoint opt_all {A} (l : list (option A)) : option (list A) :=
  match l with
  | [] => Some []
  | None :: _ => None
  | Some x :: r => match opt_all r with Some r' => Some (x :: r') | None => None end
  end.

Section Generic.
Context {T : Type} `{NumOps T}.
Definition py_get (l : list T) (i : Z) : T := match py_item l i with Some x => x | None => n0 end.
Definition np_radians (pi x : T) : T := x * pi / nofZ 180.
Definition np_linspace (a b : T) (num : nat) : list T :=
  match num with
  | O => []
  | S O => [a]
  | S p => map (fun i => a + nofZ (Z.of_nat i) * ((b - a) / nofZ (Z.of_nat p))) (seq 0 num)
  end.
Definition np_mod (x m : T) : T := x - m * nofZ (nfloor (x / m)).
Definition py_int (x : T) : Z := if x <? n0 then (- nfloor (nopp x))%Z else nfloor x.
Definition np_mean (l : list T) : T := nsum l / nofZ (Z.of_nat (length l)).
End Generic.
