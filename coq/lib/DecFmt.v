(** Decimal text <-> exact rationals, and round-to-nearest-even onto the binary64 grid.
    Definitions only (all lemmas are in proofs/P_C16.v).

    [fmt_fixed d x]   : C / Python ["%.df" % x] for an exactly known value x (CPython formats the exact binary
                        value, correctly rounded, ties to even; sign printed also when the result rounds to zero)
    [dec_int n]       : ["%i" % n] for n >= 0
    [parse_dec s]     : the rational denoted by  [+-]?digits[.digits]
    [parse_float s]   : the same, with an optional exponent part  [eE][+-]?digits
    [round_b64 x]     : the binary64 number nearest to x (ties to even; subnormal grid below 2^-1022; overflow is
                        NOT modelled: inputs of magnitude >= 2^1024 are outside every generator)
    Text is [list ascii] (bytes); [txt] converts a Coq string literal. *)
From Coq Require Import ZArith QArith Qround Qabs Qpower List Bool Ascii String.
Import ListNotations.
Local Open Scope Z_scope.

Definition text := list ascii.
Definition txt (s : string) : text := list_ascii_of_string s.

Fixpoint text_eqb (a b : text) : bool :=
  match a, b with
  | [], [] => true
  | x :: r, y :: s => Ascii.eqb x y && text_eqb r s
  | _, _ => false
  end.

(** ** digits *)
Definition digit_char (k : Z) : ascii := ascii_of_N (Z.to_N (48 + k)).
Definition char_digit (c : ascii) : option Z :=
  let n := Z.of_N (N_of_ascii c) in if (48 <=? n) && (n <=? 57) then Some (n - 48) else None.

(** the [w] least significant decimal digits of [n], most significant first *)
Fixpoint digits_w (w : nat) (n : Z) : text :=
  match w with O => [] | S w' => digits_w w' (n / 10) ++ [digit_char (n mod 10)] end.

(** value of a digit string read after the prefix value [a]; [None] if a non-digit occurs *)
Fixpoint val_from (a : Z) (s : text) : option Z :=
  match s with
  | [] => Some a
  | c :: r => match char_digit c with Some k => val_from (10 * a + k) r | None => None end
  end.

Definition pow10 (d : nat) : Z := 10 ^ Z.of_nat d.

(** number of decimal digits of n >= 0 (at least 1): least w >= 1 with n < 10^w *)
Fixpoint ndig_from (fuel w : nat) (n : Z) : nat :=
  match fuel with O => w | S f => if n <? pow10 w then w else ndig_from f (S w) n end.
Definition ndig (n : Z) : nat := ndig_from (Z.to_nat (Z.log2 n)) 1 n.

Definition dec_int (n : Z) : text := digits_w (ndig n) n.

(** ** rounding to an integer, ties to even *)
Definition Qltb' (x y : Q) : bool := match Qcompare x y with Lt => true | _ => false end.
Definition round_half_even (q : Q) : Z :=
  let f := Qfloor q in
  match Qcompare (q - inject_Z f) (1 # 2) with
  | Lt => f
  | Gt => f + 1
  | Eq => if Z.even f then f else f + 1
  end.

(** x rounded to d decimals (the rational that ["%.df" % x] denotes) *)
Definition dec_scaled (d : nat) (x : Q) : Z := round_half_even (Qabs x * inject_Z (pow10 d)).
Definition dec_round (d : nat) (x : Q) : Q :=
  let r := dec_scaled d x # Z.to_pos (pow10 d) in Qred (if Qltb' x 0 then - r else r).

(** ** "%.df": [sb] is the sign bit (true for negative values AND for the float -0.0) *)
Definition fmt_fixed_sb (sb : bool) (d : nat) (x : Q) : text :=
  let N := dec_scaled d x in
  (if sb then ["-"%char] else []) ++ dec_int (N / pow10 d) ++
  match d with O => [] | _ => "."%char :: digits_w d (N mod pow10 d) end.
Definition fmt_fixed (d : nat) (x : Q) : text := fmt_fixed_sb (Qltb' x 0) d x.
(** the sign bit agrees with the sign of the value (it is free only for zero: +0.0 / -0.0) *)
Definition sb_ok (sb : bool) (x : Q) : Prop := (x < 0 -> sb = true)%Q /\ (0 < x -> sb = false)%Q.

(** ** parsing *)
(** split at the first occurrence of [c] *)
Fixpoint break_at (c : ascii) (s : text) : text * option text :=
  match s with
  | [] => ([], None)
  | a :: r => if Ascii.eqb a c then ([], Some r) else let (p, q) := break_at c r in (a :: p, q)
  end.

Definition parse_unsigned (s : text) : option Q :=
  let (ip, fo) := break_at "."%char s in
  let fp := match fo with Some f => f | None => [] end in
  match ip, fp with
  | [], [] => None
  | _, _ => match val_from 0 ip, val_from 0 fp with
            | Some i, Some f => Some (Qred (inject_Z i + (f # Z.to_pos (pow10 (List.length fp)))))
            | _, _ => None
            end
  end.
Definition parse_dec (s : text) : option Q :=
  match s with
  | [] => None
  | c :: r => if Ascii.eqb c "-"%char then option_map (fun q => Qred (- q)) (parse_unsigned r)
              else if Ascii.eqb c "+"%char then parse_unsigned r else parse_unsigned s
  end.

Definition parse_int (s : text) : option Z :=
  match s with
  | [] => None
  | c :: r => if Ascii.eqb c "-"%char then match r with [] => None | _ => option_map Z.opp (val_from 0 r) end
              else if Ascii.eqb c "+"%char then match r with [] => None | _ => val_from 0 r end
              else val_from 0 s
  end.

Definition is_e (c : ascii) : bool := Ascii.eqb c "e"%char || Ascii.eqb c "E"%char.
Fixpoint break_e (s : text) : text * option text :=
  match s with
  | [] => ([], None)
  | a :: r => if is_e a then ([], Some r) else let (p, q) := break_e r in (a :: p, q)
  end.
Definition parse_float (s : text) : option Q :=
  match break_e s with
  | (m, None) => parse_dec m
  | (m, Some e) => match parse_dec m, parse_int e with
                   | Some q, Some k => Some (Qred (q * Qpower 10 k))
                   | _, _ => None
                   end
  end.

(** ** nearest binary64 (as an exact rational) *)
Definition ilog2 (y : Q) : Z :=            (* floor(log2 y) for y > 0 *)
  let e0 := Z.log2 (Qnum y) - Z.log2 (Zpos (Qden y)) in
  if Qle_bool (Qpower 2 e0) y then e0 else e0 - 1.
Definition round_b64 (x : Q) : Q :=
  if Qeq_bool x 0 then 0%Q else
  let y := Qabs x in
  let s := Z.max (ilog2 y - 52) (-1074) in
  let m := round_half_even (y * Qpower 2 (- s)) in
  let r := (inject_Z m * Qpower 2 s)%Q in
  Qred (if Qltb' x 0 then - r else r).
