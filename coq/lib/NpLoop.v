(** Python / NumPy / SciPy readings used by the generated standardised-CAV function (gen/Gen_cavdp.v, written by
    translator/py2coq_cavdp.py; property C09, eqsig/im.py: calc_cav_dp).  Definitions only (fixed, NOT generated from the source);
    the lemmas are in proofs/P_gen_cavdp.v.  Python ints are read as [Z], floats as [T] (any [NumOps] instance), 1-d arrays and
    lists of floats as [list T], boolean arrays as [list bool]; a statement that can raise is a [pyres] (lib/PyRes.v) and
    the statements after it are the continuation of [res_bind].

      statements in sequence, one of which may raise        -> [res_bind r (fun x => ..)]   (the exception propagates)
      for _ in range(lo, hi): <body on the carried names>   -> [res_iter (Z.to_nat (hi - lo)) step state]  (an exception ends it)
      v[-1]                                                 -> [of_opt IndexError (py_last v)]
      out = []; for j in range(lo, hi): out.append(v[j])    -> [py_gather v lo hi]  (IndexError as soon as one j is outside
                                                               [-len v, len v); a negative j counts from the end)
      np.arange(lo, hi, step)  (floats)                     -> [np_arange3 lo hi step]: ceil((hi - lo) / step) values lo + i*step
      np.arange(n)  (int n)                                 -> [np_arange1 n]: 0, 1, ..., n-1 (as floats where they meet floats)
      (a <= v), (v <= a)  (array v, scalar a)               -> [map (fun x => a <=? x) v], [map (fun x => x <=? a) v]
      m1 * m2  (boolean arrays of equal length)             -> [map2 andb m1 m2]
      v[np.where(m)]                                        -> [np_select v m]  (IndexError when a True position is beyond v)
      scipy.integrate.trapezoid(y, x)                       -> [np_trapezoid_res y x] = sum of diff(x) * (y[1:] + y[:-1]) / 2
                                                               (ValueError when the lengths differ: the shapes do not broadcast)
      max(v)  (builtin, 1-d array)                          -> [of_opt ValueError (py_max v)]  (empty array)
      np.interp(x, xp, fp)                                  -> [np_interp_res x xp fp]: ValueError for empty xp or len(xp) <> len(fp);
                                                               fp[0] left of xp[0], fp[-1] from xp[-1] on, otherwise on the
                                                               segment xp[j] <= x < xp[j+1]:
                                                               (fp[j+1] - fp[j]) / (xp[j+1] - xp[j]) * (x - xp[j]) + fp[j]
                                                               (xp ascending is NumPy's own precondition; not checked by it)
      int(x)  (float x)                                     -> [py_int x] (lib/PySeq.v): truncation towards zero *)
From Coq Require Import ZArith List Bool.
From EQ Require Import lib.Num lib.NpList lib.PyVal lib.PyRes lib.PySeq.
Import ListNotations.
Local Open Scope num_scope.

Definition res_bind {A B} (r : pyres A) (f : A -> pyres B) : pyres B :=
  match r with PyOk x => f x | PyRaise e => PyRaise e end.
Definition of_opt {A} (e : pyexc) (o : option A) : pyres A :=
  match o with Some x => PyOk x | None => PyRaise e end.
Fixpoint res_iter {S} (n : nat) (f : S -> pyres S) (s : S) : pyres S :=
  match n with O => PyOk s | S k => res_bind (f s) (res_iter k f) end.

(** range(lo, hi) *)
Definition py_range2 (lo hi : Z) : list Z := map (fun k => (lo + Z.of_nat k)%Z) (seq 0 (Z.to_nat (hi - lo))).

Section Generic.
Context {T : Type} `{NumOps T}.

Definition py_gather (v : list T) (lo hi : Z) : pyres (list T) :=
  of_opt IndexError (opt_all (map (py_item v) (py_range2 lo hi))).

Definition np_arange3 (lo hi step : T) : list T :=
  map (fun i => lo + nofZ (Z.of_nat i) * step) (seq 0 (Z.to_nat (- nfloor (- ((hi - lo) / step))))).
Definition np_arange1 (n : Z) : list T := map (fun i => nofZ (Z.of_nat i)) (seq 0 (Z.to_nat n)).

Definition np_select (v : list T) (m : list bool) : pyres (list T) :=
  of_opt IndexError (opt_all (map (nth_error v) (where_idx (fun b : bool => b) m))).

Definition np_trapezoid (y x : list T) : T :=
  nsum (map2 (fun d s => d * s / nofZ 2) (diff x) (map2 nadd (tl y) (removelast y))).
Definition np_trapezoid_res (y x : list T) : pyres T :=
  if Nat.eqb (length y) (length x) then PyOk (np_trapezoid y x) else PyRaise ValueError.

(** the segment search of np.interp, entered with xp[0] <= x *)
Fixpoint interp_seg (x : T) (xp fp : list T) : T :=
  match xp, fp with
  | x0 :: ((x1 :: _) as xr), f0 :: ((f1 :: _) as fr) =>
      if x <? x1 then (f1 - f0) / (x1 - x0) * (x - x0) + f0 else interp_seg x xr fr
  | _, f0 :: _ => f0
  | _, [] => n0
  end.
Definition np_interp (xp fp : list T) (x : T) : T :=
  match xp, fp with
  | x0 :: _, f0 :: _ => if x <? x0 then f0 else interp_seg x xp fp
  | _, _ => n0
  end.
Definition np_interp_res (x xp fp : list T) : pyres (list T) :=
  match xp with
  | [] => PyRaise ValueError
  | _ :: _ => if Nat.eqb (length xp) (length fp) then PyOk (map (np_interp xp fp) x) else PyRaise ValueError
  end.
End Generic.
