(** Readings of the NumPy 1-d array statements that translator/py2coq_c06.py emits into gen/Gen_c06.v
    (a complex array is carried as two lists: real parts, imaginary parts).  No proofs in this file.

      np.zeros(n, dtype=complex)      -> [zeros n] for both parts
      a[lo:hi] = v,  a[lo:] = v       -> [set_slice lo (Some hi) v a], [set_slice lo None v a]   (0 <= lo, hi; the array NumPy
                                         leaves behind when len(v) is the length of the slice -- otherwise NumPy raises)
      np.flip(v, axis=0)              -> [rev];      np.conj(re, im) -> (re, vopp im)   (lib/NpList.v)
      v[1:] -> [tl];   v[:k] -> [firstn k];   v[range(k)] -> [take n0 v (seq 0 k)]  (lib/NpList.v: fancy indexing)
      np.arange(k)                    -> [arange k]  (lib/PyVal.v)
      int(a / b) of two ints          -> [Z.quot a b] (truncation);   a // b -> [Z.div a b] (floor)
      np.ceil(np.log2(n)) of an int   -> [Z.log2_up n] (n >= 1; the float rounding of log2 is not modelled) *)
From Coq Require Import ZArith List.
From EQ Require Import lib.Num.
Import ListNotations.

Definition set_slice {A} (lo : nat) (hi : option nat) (v a : list A) : list A :=
  let h := match hi with Some h => Nat.max lo h | None => length a end in
  firstn lo a ++ v ++ skipn h a.

Section Generic.
Context {T : Type} `{NumOps T}.
Definition zeros (n : nat) : list T := repeat n0 n.
End Generic.
