(** More Q -> R transfer lemmas ([Forall2 rel], see lib/Num.v and the end of lib/NpList.v): list surgery, sums, max,
    floor, trapezoid and grid interpolation.  The Q run of a model is the R model evaluated on rational inputs. *)
From Coq Require Import ZArith QArith Qround Qreals Reals List Bool Lra Lia.
From EQ Require Import lib.Num lib.NpList lib.InterpMono model.M_im.
Import ListNotations.

Lemma Forall2_firstn {A B} (P : A -> B -> Prop) n l l' : Forall2 P l l' -> Forall2 P (firstn n l) (firstn n l').
Proof. intros HF; revert n; induction HF; intros [|n]; cbn; constructor; auto. Qed.
Lemma Forall2_skipn {A B} (P : A -> B -> Prop) n l l' : Forall2 P l l' -> Forall2 P (skipn n l) (skipn n l').
Proof. intros HF; revert n; induction HF; intros [|n]; cbn; try constructor; auto. Qed.
Lemma Forall2_tl {A B} (P : A -> B -> Prop) l l' : Forall2 P l l' -> Forall2 P (tl l) (tl l').
Proof. intros HF; destruct HF; cbn; auto. Qed.
Lemma Forall2_len {A B} (P : A -> B -> Prop) l l' : Forall2 P l l' -> length l = length l'.
Proof. intros HF; induction HF; cbn; auto. Qed.
Lemma window_transfer s len l l' : Forall2 rel l l' -> Forall2 rel (window s len l) (window s len l').
Proof. intros. unfold window. now apply Forall2_firstn, Forall2_skipn. Qed.
Lemma nth_transfer k l l' d d' : Forall2 rel l l' -> rel d d' -> rel (nth k l d) (nth k l' d').
Proof. intros HF Hd; revert k; induction HF; intros [|k]; cbn; auto. Qed.
Lemma last_transfer l l' d d' : Forall2 rel l l' -> rel d d' -> rel (last l d) (last l' d').
Proof. intros HF Hd; induction HF; cbn; auto. destruct HF; auto. Qed.
Lemma fold_add_transfer l l' acc acc' : Forall2 rel l l' -> rel acc acc' -> rel (fold_left nadd l acc) (fold_left nadd l' acc').
Proof. intros HF; revert acc acc'; induction HF; intros; cbn [fold_left]; auto with rel. Qed.
Lemma nsum_transfer l l' : Forall2 rel l l' -> rel (nsum l) (nsum l').
Proof. intros. unfold nsum. apply fold_add_transfer; auto with rel. Qed.
Lemma nmax_transfer a b x y : rel a x -> rel b y -> rel (nmax a b) (nmax x y).
Proof. intros Ha Hb. unfold nmax. rewrite (rel_ltb a b x y Ha Hb). destruct (nltb x y); auto. Qed.
Lemma fold_nmax_transfer l l' acc acc' : Forall2 rel l l' -> rel acc acc' -> rel (fold_left nmax l acc) (fold_left nmax l' acc').
Proof. intros HF; revert acc acc'; induction HF; intros; cbn [fold_left]; auto using nmax_transfer. Qed.
Lemma amax_transfer l l' : Forall2 rel l l' -> rel (amax l) (amax l').
Proof. intros HF. destruct HF; cbn [amax]; [apply rel_0|]. now apply fold_nmax_transfer. Qed.
Lemma vabs_transfer l l' : Forall2 rel l l' -> Forall2 rel (vabs l) (vabs l').
Proof. intros. unfold vabs. apply map_transfer; auto with rel. Qed.
Lemma trapz_transfer dx dx' l l' : rel dx dx' -> Forall2 rel l l' -> rel (trapz dx l) (trapz dx' l').
Proof.
  intros Hdx HF. unfold trapz. apply nsum_transfer. apply map2_transfer; auto using Forall2_tl.
  intros a x b y Ha Hb. auto 8 with rel.
Qed.

(** floor: [Qfloor q = up (Q2R q) - 1] *)
Lemma rel_floor a x : rel a x -> nfloor a = nfloor x.
Proof.
  intros Hr. symmetry. apply Rfloor_unique. unfold rel in Hr. subst x. cbn [nfloor NumQ].
  pose proof (Qfloor_le a) as H1. pose proof (Qlt_floor a) as H2.
  apply Qle_Rle in H1. apply Qlt_Rlt in H2.
  pose proof (rel_ofZ (Qfloor a)) as E1. pose proof (rel_ofZ (Qfloor a + 1)) as E2.
  unfold rel in E1, E2. cbn [nofZ NumQ NumR] in E1, E2. rewrite E1 in H1. rewrite E2, plus_IZR in H2.
  split; [exact H1|exact H2].
Qed.

Lemma interp_grid_transfer fp fp' t t' : Forall2 rel fp fp' -> rel t t' -> rel (interp_grid fp t) (interp_grid fp' t').
Proof.
  intros HF Ht. pose proof (Forall2_len _ _ _ HF) as Hlen. destruct HF as [|f0 f0' r r' Hf Hr]; [apply rel_0|].
  assert (HF : Forall2 rel (f0 :: r) (f0' :: r')) by (constructor; auto).
  unfold interp_grid. rewrite (rel_leb t n0 t' n0 Ht rel_0). destruct (nleb t' n0); [exact Hf|].
  rewrite (rel_floor t t' Ht). rewrite Hlen.
  destruct (Nat.leb _ _).
  - apply last_transfer; auto with rel.
  - apply rel_add; [|apply nth_transfer; auto with rel].
    apply rel_mul; [apply rel_sub; apply nth_transfer; auto with rel|].
    apply rel_sub; auto with rel.
Qed.
