(** Discrete Fourier transform by its defining cosine / sine sums.

    The sums are written once, generic in the number type and in the two twiddle functions
      twc N j  ~  cos (2 pi j / N)        tws N j  ~  sin (2 pi j / N)
    (indices are [Z] so that execution never builds large unary numbers).
    * At [R] the twiddles are the real [cos]/[sin] ([Rtwc], [Rtws]): this is THE model; NumPy's FFT is not
      trusted to be a DFT, it is measured against these sums.
    * At [Q] the twiddles are the table [Qtwc]/[Qtws], meaningful only where N | 4 j (value in {0, 1, -1});
      [tw_ok] says where.  proofs/P_C06.v proves Q2R (Qtwc N j) = Rtwc N j under [tw_ok].
    No proofs in this file. *)
From Coq Require Import ZArith QArith Reals List Bool.
From EQ Require Import lib.Num.
Import ListNotations.
Local Open Scope num_scope.

Section Generic.
Context {T : Type} `{NumOps T}.
Variable twc tws : Z -> Z -> T.

(** sum_{n >= i} x_n * f n   (n runs along the list, starting at index i) *)
Fixpoint wsum_from (f : Z -> T) (i : Z) (x : list T) : T :=
  match x with [] => n0 | a :: r => a * f i + wsum_from f (i + 1)%Z r end.

(** np.fft.fft(x, n=N) first truncates or zero-pads x to N points *)
Definition pad_trunc (N : nat) (x : list T) : list T := firstn N x ++ repeat n0 (N - length x).

(** X_k = sum_n x_n (cos(2 pi k n/N) - i sin(2 pi k n/N)) *)
Definition dft_re (N : Z) (x : list T) (k : Z) : T :=
  wsum_from (fun n => twc N (k * n)%Z) 0%Z (pad_trunc (Z.to_nat N) x).
Definition dft_im (N : Z) (x : list T) (k : Z) : T :=
  - wsum_from (fun n => tws N (k * n)%Z) 0%Z (pad_trunc (Z.to_nat N) x).

(** inverse transform of a complex sequence (re, im) of length N, sample n:
    s_n = (1/N) sum_k (re_k + i im_k)(cos(2 pi k n/N) + i sin(2 pi k n/N)) *)
Definition idft_re (N : Z) (re im : list T) (n : Z) : T :=
  (wsum_from (fun k => twc N (k * n)%Z) 0%Z re - wsum_from (fun k => tws N (k * n)%Z) 0%Z im) / nofZ N.
Definition idft_im (N : Z) (re im : list T) (n : Z) : T :=
  (wsum_from (fun k => tws N (k * n)%Z) 0%Z re + wsum_from (fun k => twc N (k * n)%Z) 0%Z im) / nofZ N.
End Generic.

(** ** real twiddles *)
Definition Rtwc (N j : Z) : R := cos (2 * PI * IZR j / IZR N).
Definition Rtws (N j : Z) : R := sin (2 * PI * IZR j / IZR N).

(** ** rational twiddles: exact where N divides 4 j *)
Definition tw_ok (N j : Z) : bool := (0 <? N)%Z && ((4 * j) mod N =? 0)%Z.
Definition Qtwc (N j : Z) : Q :=
  match ((4 * j / N) mod 4)%Z with 0%Z => 1%Q | 2%Z => (-1)%Q | _ => 0%Q end.
Definition Qtws (N j : Z) : Q :=
  match ((4 * j / N) mod 4)%Z with 1%Z => 1%Q | 3%Z => (-1)%Q | _ => 0%Q end.

(** ** textbook finite sum  sum_{j < n} g j  (specification side of the theorems) *)
Fixpoint rsum (g : nat -> R) (n : nat) : R :=
  match n with O => 0%R | S m => (rsum g m + g m)%R end.
