(** NumPy-style list primitives, generic in [NumOps], with characterising lemmas at R. *)
From Coq Require Import ZArith QArith Reals List Bool Lra Lia.
From EQ Require Import lib.Num.
Import ListNotations.
Local Open Scope num_scope.

Section Generic.
Context {T : Type} `{NumOps T}.

Fixpoint cumsum_from (acc : T) (l : list T) : list T :=
  match l with [] => [] | x :: r => let a := acc + x in a :: cumsum_from a r end.
(** np.cumsum *)
Definition cumsum (l : list T) : list T := cumsum_from n0 l.

(** np.diff *)
Fixpoint diff (l : list T) : list T :=
  match l with
  | x :: r => match r with y :: _ => (y - x) :: diff r | [] => [] end
  | [] => []
  end.
(** np.ediff1d(l, to_begin=b) / np.diff(l, prepend=...) style *)
Definition ediff1d (b : T) (l : list T) : list T := b :: diff l.

Fixpoint map2 {A B C} (f : A -> B -> C) (la : list A) (lb : list B) : list C :=
  match la, lb with a :: ra, b :: rb => f a b :: map2 f ra rb | _, _ => [] end.

Definition nsum (l : list T) : T := fold_left nadd l n0.
Definition scale (c : T) (l : list T) : list T := map (fun x => c * x) l.
Definition vadd (a b : list T) : list T := map2 nadd a b.
Definition vsub (a b : list T) : list T := map2 nsub a b.
Definition vmul (a b : list T) : list T := map2 nmul a b.
Definition vabs (a : list T) : list T := map nabs a.
Definition vopp (a : list T) : list T := map nopp a.
Definition vsq (a : list T) : list T := map (fun x => x * x) a.

(** scipy.integrate.cumulative_trapezoid(y, dx=dx, initial=0) *)
Fixpoint cumtrapz_from (dx acc prev : T) (l : list T) : list T :=
  match l with
  | [] => []
  | x :: r => let a := acc + dx * (x + prev) / nofZ 2 in a :: cumtrapz_from dx a x r
  end.
Definition cumtrapz (dx : T) (l : list T) : list T :=
  match l with [] => [] | x :: r => n0 :: cumtrapz_from dx n0 x r end.

Definition nmax (a b : T) : T := if a <? b then b else a.
Definition nmin (a b : T) : T := if b <? a then b else a.
(** max / min of a non-empty list (default n0 on the empty list, which numpy rejects) *)
Definition amax (l : list T) : T := match l with [] => n0 | x :: r => fold_left nmax r x end.
Definition amin (l : list T) : T := match l with [] => n0 | x :: r => fold_left nmin r x end.
Definition last0 (l : list T) : T := last l n0.

(** np.where(p)[0] *)
Fixpoint where_from {A} (p : A -> bool) (i : nat) (l : list A) : list nat :=
  match l with [] => [] | x :: r => if p x then i :: where_from p (S i) r else where_from p (S i) r end.
Definition where_idx {A} (p : A -> bool) (l : list A) : list nat := where_from p 0 l.
(** np.take *)
Definition take {A} (d : A) (l : list A) (idx : list nat) : list A := map (fun i => nth i l d) idx.

(** first index of a maximal element (np.argmax) *)
Fixpoint argmax_from (best : T) (bi i : nat) (l : list T) : nat :=
  match l with [] => bi | x :: r => if best <? x then argmax_from x i (S i) r else argmax_from best bi (S i) r end.
Definition argmax (l : list T) : nat := match l with [] => 0%nat | x :: r => argmax_from x 0 1 r end.
End Generic.

(** * Lemmas at R *)
Local Close Scope num_scope.
Local Open Scope R_scope.

Lemma cumsum_from_length (acc : R) l : length (cumsum_from acc l) = length l.
Proof. revert acc; induction l; intros; cbn; auto. Qed.
Lemma cumsum_length (l : list R) : length (cumsum l) = length l.
Proof. apply cumsum_from_length. Qed.

Lemma cumsum_from_nth_S acc (l : list R) i :
  (S i < length l)%nat ->
  nth (S i) (cumsum_from acc l) 0 = nth i (cumsum_from acc l) 0 + nth (S i) l 0.
Proof.
  revert acc i; induction l as [|x r IH]; intros acc i Hi; cbn in Hi; [lia|].
  destruct i as [|i].
  - destruct r as [|y r]; cbn in *; [lia|]. reflexivity.
  - cbn [cumsum_from nth]. apply IH. lia.
Qed.
Lemma cumsum_from_nth_0 acc (l : list R) : (0 < length l)%nat -> nth 0 (cumsum_from acc l) 0 = acc + nth 0 l 0.
Proof. destruct l; cbn; intros; [lia|reflexivity]. Qed.
Lemma cumsum_nth_S (l : list R) i : (S i < length l)%nat ->
  nth (S i) (cumsum l) 0 = nth i (cumsum l) 0 + nth (S i) l 0.
Proof. apply cumsum_from_nth_S. Qed.
Lemma cumsum_nth_0 (l : list R) : (0 < length l)%nat -> nth 0 (cumsum l) 0 = nth 0 l 0.
Proof. intros Hl. unfold cumsum. rewrite cumsum_from_nth_0 by auto. numR. lra. Qed.

Lemma cumtrapz_from_length dx acc prev (l : list R) : length (cumtrapz_from dx acc prev l) = length l.
Proof. revert acc prev; induction l; intros; cbn; auto. Qed.
Lemma cumtrapz_length dx (l : list R) : length (cumtrapz dx l) = length l.
Proof. destruct l; cbn; auto. now rewrite cumtrapz_from_length. Qed.

Lemma cumtrapz_from_nth dx acc prev (l : list R) i :
  (S i < length (acc :: cumtrapz_from dx acc prev l))%nat ->
  nth (S i) (acc :: cumtrapz_from dx acc prev l) 0 - nth i (acc :: cumtrapz_from dx acc prev l) 0
   = dx * (nth (S i) (prev :: l) 0 + nth i (prev :: l) 0) / 2.
Proof.
  revert acc prev i. induction l as [|x r IH]; intros acc prev i Hi; cbn in Hi; [lia|].
  destruct i as [|i].
  - cbn. lra.
  - cbn [cumtrapz_from]. cbn [nth] in *. apply IH. cbn. lia.
Qed.
Lemma cumtrapz_nth_S dx (l : list R) i : (S i < length l)%nat ->
  nth (S i) (cumtrapz dx l) 0 - nth i (cumtrapz dx l) 0 = dx * (nth (S i) l 0 + nth i l 0) / 2.
Proof.
  destruct l as [|x r]; cbn [length]; [lia|]. intros Hi. unfold cumtrapz.
  change (@n0 R NumR) with 0. apply cumtrapz_from_nth. cbn. rewrite cumtrapz_from_length. lia.
Qed.
Lemma cumtrapz_nth_0 dx (l : list R) : nth 0 (cumtrapz dx l) 0 = 0.
Proof. destruct l; reflexivity. Qed.

(** monotonicity helper: non-negative increments *)
Lemma incr_nonneg_monotone (l : list R) :
  (forall i, (S i < length l)%nat -> nth i l 0 <= nth (S i) l 0) ->
  forall i j, (i <= j < length l)%nat -> nth i l 0 <= nth j l 0.
Proof.
  intros Hstep i j [Hij Hj]. induction j as [|j IH].
  - assert (i = 0)%nat by lia. subst. lra.
  - destruct (Nat.eq_dec i (S j)) as [->|Hne]; [lra|].
    apply Rle_trans with (nth j l 0); [apply IH; lia | apply Hstep; lia].
Qed.

Lemma last_cons_ne {A} (a : A) l d : l <> [] -> last (a :: l) d = last l d.
Proof. destruct l; [congruence|reflexivity]. Qed.
Lemma nth_map_in {A B} (f : A -> B) l i d d' : (i < length l)%nat -> nth i (map f l) d = f (nth i l d').
Proof. revert i; induction l as [|x r IH]; intros i Hi; cbn in Hi; [lia|]. destruct i; cbn; auto. apply IH; lia. Qed.

Lemma map2_length {A B C} (f : A -> B -> C) la lb : length (map2 f la lb) = Nat.min (length la) (length lb).
Proof. revert lb; induction la; destruct lb; cbn; auto. Qed.
Lemma map2_nth {A B C} (f : A -> B -> C) la lb da db dc i :
  (i < length la)%nat -> (i < length lb)%nat -> nth i (map2 f la lb) dc = f (nth i la da) (nth i lb db).
Proof.
  revert lb i; induction la as [|a ra IH]; intros [|b rb] i Ha Hb; cbn in *; try lia.
  destruct i; auto. apply IH; lia.
Qed.

(** amax / amin *)
Lemma nmax_R a b : nmax a b = Rmax a b.
Proof. unfold nmax. numR. case_Rltb a b; unfold Rmax; destruct (Rle_dec a b); lra. Qed.
Lemma nmin_R a b : nmin a b = Rmin a b.
Proof. unfold nmin. numR. case_Rltb b a; unfold Rmin; destruct (Rle_dec a b); lra. Qed.

Lemma fold_nmax_ge (l : list R) x : x <= fold_left nmax l x /\ (forall y, In y l -> y <= fold_left nmax l x).
Proof.
  revert x; induction l as [|a r IH]; intros x; cbn; [split; [lra|tauto]|].
  destruct (IH (nmax x a)) as [H1 H2]. rewrite nmax_R in *. split.
  - eapply Rle_trans; [apply Rmax_l | exact H1].
  - intros y [<-|Hy]; [eapply Rle_trans; [apply Rmax_r | exact H1] | auto].
Qed.
Lemma fold_nmax_in (l : list R) x : fold_left nmax l x = x \/ In (fold_left nmax l x) l.
Proof.
  revert x; induction l as [|a r IH]; intros x; cbn; [auto|].
  destruct (IH (nmax x a)) as [E|E]; [|auto]. rewrite E, nmax_R.
  unfold Rmax; destruct (Rle_dec x a); auto.
Qed.
Lemma amax_ge (l : list R) y : In y l -> y <= amax l.
Proof.
  destruct l as [|x r]; [intros []|]. cbn [amax]. destruct (fold_nmax_ge r x) as [H1 H2].
  intros [<-|Hy]; auto.
Qed.
Lemma amax_in (l : list R) : l <> [] -> In (amax l) l.
Proof.
  destruct l as [|x r]; [congruence|]. intros _. cbn [amax].
  destruct (fold_nmax_in r x) as [E|E]; [rewrite E; now left | now right].
Qed.
Lemma fold_nmin_le (l : list R) x : fold_left nmin l x <= x /\ (forall y, In y l -> fold_left nmin l x <= y).
Proof.
  revert x; induction l as [|a r IH]; intros x; cbn; [split; [lra|tauto]|].
  destruct (IH (nmin x a)) as [H1 H2]. rewrite nmin_R in *. split.
  - eapply Rle_trans; [exact H1 | apply Rmin_l].
  - intros y [<-|Hy]; [eapply Rle_trans; [exact H1 | apply Rmin_r] | auto].
Qed.
Lemma fold_nmin_in (l : list R) x : fold_left nmin l x = x \/ In (fold_left nmin l x) l.
Proof.
  revert x; induction l as [|a r IH]; intros x; cbn; [auto|].
  destruct (IH (nmin x a)) as [E|E]; [|auto]. rewrite E, nmin_R.
  unfold Rmin; destruct (Rle_dec x a); auto.
Qed.
Lemma amin_le (l : list R) y : In y l -> amin l <= y.
Proof.
  destruct l as [|x r]; [intros []|]. cbn [amin]. destruct (fold_nmin_le r x) as [H1 H2].
  intros [<-|Hy]; auto.
Qed.
Lemma amin_in (l : list R) : l <> [] -> In (amin l) l.
Proof.
  destruct l as [|x r]; [congruence|]. intros _. cbn [amin].
  destruct (fold_nmin_in r x) as [E|E]; [rewrite E; now left | now right].
Qed.

(** * Transfer lemmas (Q run = R model on rational inputs) *)
Lemma cumsum_from_transfer acc acc' l l' :
  rel acc acc' -> Forall2 rel l l' -> Forall2 rel (cumsum_from acc l) (cumsum_from acc' l').
Proof.
  intros Ha HF; revert acc acc' Ha. induction HF; intros; cbn [cumsum_from]; constructor; auto with rel.
Qed.
Lemma cumsum_transfer l l' : Forall2 rel l l' -> Forall2 rel (cumsum l) (cumsum l').
Proof. apply cumsum_from_transfer; auto with rel. Qed.
Lemma cumtrapz_from_transfer dx dx' acc acc' prev prev' l l' :
  rel dx dx' -> rel acc acc' -> rel prev prev' -> Forall2 rel l l' ->
  Forall2 rel (cumtrapz_from dx acc prev l) (cumtrapz_from dx' acc' prev' l').
Proof.
  intros Hdx Hacc Hprev HF. revert acc acc' prev prev' Hacc Hprev.
  induction HF; intros; cbn [cumtrapz_from]; constructor; auto 8 with rel.
Qed.
Lemma cumtrapz_transfer dx dx' l l' : rel dx dx' -> Forall2 rel l l' -> Forall2 rel (cumtrapz dx l) (cumtrapz dx' l').
Proof.
  intros Hdx HF. destruct HF; cbn [cumtrapz]; constructor; auto with rel.
  apply cumtrapz_from_transfer; auto with rel.
Qed.
Lemma map_transfer (f : Q -> Q) (g : R -> R) l l' :
  (forall a x, rel a x -> rel (f a) (g x)) -> Forall2 rel l l' -> Forall2 rel (map f l) (map g l').
Proof. intros Hf HF; induction HF; cbn; constructor; auto. Qed.
Lemma map2_transfer (f : Q -> Q -> Q) (g : R -> R -> R) l l' m m' :
  (forall a x b y, rel a x -> rel b y -> rel (f a b) (g x y)) ->
  Forall2 rel l l' -> Forall2 rel m m' -> Forall2 rel (map2 f l m) (map2 g l' m').
Proof. intros Hf HF; revert m m'; induction HF; intros m m' HM; destruct HM; cbn; constructor; auto. Qed.
