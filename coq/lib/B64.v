(** IEEE-754 binary64 as an executable kernel (Flocq 4.1 [IEEE754.Bits]); pure Gallina, runs under vm_compute.
    Flocq is [Require]d, never [Import]ed, so that no notation or scope of Flocq leaks into the models.
    A Python float is shipped as the integer of its 64 bits ([struct.pack('<d')] read as unsigned). *)
From Coq Require Import ZArith QArith Qround.
From Flocq Require IEEE754.Binary IEEE754.Bits IEEE754.BinarySingleNaN.

Definition b64 : Set := Bits.binary64.
Definition b64_bits : Z -> b64 := Bits.b64_of_bits.
Definition bits_b64 : b64 -> Z := Bits.bits_of_b64.
(** correctly rounded (nearest-even) division and multiplication, as the hardware / NumPy do them *)
Definition fdiv : b64 -> b64 -> b64 := Bits.b64_div BinarySingleNaN.mode_NE.
Definition fmul : b64 -> b64 -> b64 := Bits.b64_mult BinarySingleNaN.mode_NE.

Lemma b64_Hprec : (0 < 53)%Z. Proof. reflexivity. Qed.
Lemma b64_Hprec_emax : (53 < 1024)%Z. Proof. reflexivity. Qed.
(** int -> float conversion (exact below 2^53, correctly rounded above) *)
Definition fofZ (z : Z) : b64 :=
  Binary.binary_normalize 53 1024 b64_Hprec b64_Hprec_emax BinarySingleNaN.mode_NE z 0 false.
Definition fone : b64 := fofZ 1.

Definition ffinite (x : b64) : bool := Binary.is_finite 53 1024 x.
(** exact rational value of a finite float (0 for infinities / NaN: guard with [ffinite]) *)
Definition fQ (x : b64) : Q :=
  match x with
  | Binary.B754_finite _ _ s m e _ =>
      let z := if s then Zneg m else Zpos m in
      match e with
      | Z0 => inject_Z z
      | Zpos p => inject_Z (z * 2 ^ Zpos p)
      | Zneg p => Qmake z (2 ^ p)
      end
  | _ => 0%Q
  end.
(** np.floor / np.ceil / int() of a finite float, as integers *)
Definition ffloor (x : b64) : Z := Qfloor (fQ x).
Definition fceil (x : b64) : Z := Qceiling (fQ x).
Definition ftrunc (x : b64) : Z := let q := fQ x in match Qcompare q 0 with Lt => Qceiling q | _ => Qfloor q end.
(** comparison of finite floats *)
Definition fcmp (x y : b64) : comparison := Qcompare (fQ x) (fQ y).
