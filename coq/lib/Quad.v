(** Quadrature lemmas at R: scaling, monotonicity, final value and zero-padding of cumsum / cumtrapz. *)
From Coq Require Import ZArith Reals List Bool Lra Lia.
From EQ Require Import lib.Num lib.NpList model.M_im.
Import ListNotations.
Local Open Scope R_scope.

Definition nondecreasing (l : list R) : Prop := forall i j, (i <= j < length l)%nat -> nth i l 0 <= nth j l 0.
Definition all_nonneg (l : list R) : Prop := forall x, In x l -> 0 <= x.

Lemma fold_plus_acc (l : list R) a : fold_left Rplus l a = a + fold_left Rplus l 0.
Proof. revert a; induction l as [|x r IH]; intros a; cbn; [lra|]. rewrite IH, (IH (0 + x)). lra. Qed.
Lemma nsum_cons x (l : list R) : nsum (x :: l) = x + nsum l.
Proof. unfold nsum. cbn. numR. rewrite fold_plus_acc. f_equal. lra. Qed.
Lemma nsum_nil : nsum (@nil R) = 0. Proof. reflexivity. Qed.
Lemma nsum_nonneg (l : list R) : all_nonneg l -> 0 <= nsum l.
Proof. induction l as [|x r IH]; intros Hl; [rewrite nsum_nil; lra|]. rewrite nsum_cons.
  assert (0 <= x) by (apply Hl; now left). assert (0 <= nsum r) by (apply IH; intros y Hy; apply Hl; now right). lra. Qed.
Lemma nsum_scale c (l : list R) : nsum (map (Rmult c) l) = c * nsum l.
Proof. induction l as [|x r IH]; cbn [map]; [rewrite !nsum_nil; lra|]. rewrite !nsum_cons, IH. lra. Qed.

(** ** scaling *)
Lemma cumsum_from_scale c acc (l : list R) : cumsum_from (c * acc) (map (Rmult c) l) = map (Rmult c) (cumsum_from acc l).
Proof. revert acc; induction l as [|x r IH]; intros acc; cbn; [reflexivity|]. numR. f_equal; [lra|].
  rewrite <- IH. f_equal. lra. Qed.
Lemma cumsum_scale c (l : list R) : cumsum (map (Rmult c) l) = map (Rmult c) (cumsum l).
Proof. unfold cumsum. rewrite <- cumsum_from_scale. f_equal. numR. lra. Qed.
Lemma cumtrapz_from_scale c dx acc prev (l : list R) :
  cumtrapz_from dx (c * acc) (c * prev) (map (Rmult c) l) = map (Rmult c) (cumtrapz_from dx acc prev l).
Proof. revert acc prev; induction l as [|x r IH]; intros acc prev; cbn; [reflexivity|]. numR. f_equal; [lra|].
  rewrite <- IH. f_equal. lra. Qed.
Lemma cumtrapz_scale c dx (l : list R) : cumtrapz dx (map (Rmult c) l) = map (Rmult c) (cumtrapz dx l).
Proof. destruct l as [|x r]; [reflexivity|]. cbn [cumtrapz map]. numR. f_equal; [lra|].
  rewrite <- cumtrapz_from_scale. f_equal. lra. Qed.

(** ** monotonicity *)
Lemma nondecreasing_step (l : list R) :
  (forall i, (S i < length l)%nat -> nth i l 0 <= nth (S i) l 0) -> nondecreasing l.
Proof. intros H i j Hij. now apply incr_nonneg_monotone. Qed.
Lemma nth_nonneg (l : list R) i : all_nonneg l -> 0 <= nth i l 0.
Proof. intros Hl. destruct (Nat.lt_ge_cases i (length l)) as [Hi|Hi]; [apply Hl, nth_In; auto | rewrite nth_overflow by auto; lra]. Qed.
Lemma cumtrapz_monotone dx (l : list R) : 0 <= dx -> all_nonneg l -> nondecreasing (cumtrapz dx l).
Proof.
  intros Hdx Hl. apply nondecreasing_step. intros i Hi. rewrite cumtrapz_length in Hi.
  pose proof (cumtrapz_nth_S dx l i Hi) as E. pose proof (nth_nonneg l i Hl). pose proof (nth_nonneg l (S i) Hl). nra.
Qed.
Lemma cumsum_monotone (l : list R) : all_nonneg l -> nondecreasing (cumsum l).
Proof.
  intros Hl. apply nondecreasing_step. intros i Hi. rewrite cumsum_length in Hi.
  rewrite (cumsum_nth_S l i Hi). pose proof (nth_nonneg l (S i) Hl). lra.
Qed.
Lemma nondecreasing_scale c (l : list R) : 0 <= c -> nondecreasing l -> nondecreasing (map (Rmult c) l).
Proof.
  intros Hc Hl i j Hij. rewrite map_length in Hij.
  rewrite !nth_map_in with (d' := 0) by lia. apply Rmult_le_compat_l; auto.
Qed.
Lemma all_nonneg_vabs (l : list R) : all_nonneg (vabs l).
Proof. intros x Hx. apply in_map_iff in Hx as (y & <- & _). numR. apply Rabs_pos. Qed.
Lemma all_nonneg_vsq (l : list R) : all_nonneg (vsq l).
Proof. intros x Hx. apply in_map_iff in Hx as (y & <- & _). numR. nra. Qed.

(** ** final value *)
Lemma last_cumsum_from acc (l : list R) : l <> [] -> last (cumsum_from acc l) 0 = acc + nsum l.
Proof.
  revert acc; induction l as [|x r IH]; intros acc Hl; [congruence|].
  destruct r as [|y r]; [rewrite nsum_cons, nsum_nil; cbn; numR; lra|].
  remember (y :: r) as r' eqn:Er. cbn [cumsum_from].
  rewrite last_cons_ne by (subst; cbn; discriminate).
  rewrite IH by (subst; discriminate). rewrite (nsum_cons x). numR. lra.
Qed.
Lemma last_cumsum (l : list R) : l <> [] -> last (cumsum l) 0 = nsum l.
Proof. intros Hl. unfold cumsum. rewrite last_cumsum_from by auto. numR. lra. Qed.
Lemma last_cumtrapz_from dx acc prev (l : list R) :
  last (acc :: cumtrapz_from dx acc prev l) 0 = acc + trapz dx (prev :: l).
Proof.
  revert acc prev; induction l as [|x r IH]; intros acc prev.
  - cbn. unfold trapz. cbn. lra.
  - cbn [cumtrapz_from]. rewrite last_cons_ne by discriminate. rewrite IH.
    unfold trapz. cbn [tl map2]. rewrite (nsum_cons (nmul dx _ / _)%num). numR. lra.
Qed.
Lemma last_cumtrapz dx (l : list R) : l <> [] -> last (cumtrapz dx l) 0 = trapz dx l.
Proof. destruct l as [|x r]; [congruence|]. intros _. cbn [cumtrapz]. rewrite last_cumtrapz_from. numR. lra. Qed.

(** ** appending zeros to a record that ends at zero *)
Lemma cumsum_from_app acc (l m : list R) :
  cumsum_from acc (l ++ m) = cumsum_from acc l ++ cumsum_from (last (acc :: cumsum_from acc l) 0) m.
Proof.
  revert acc; induction l as [|x r IH]; intros acc; [reflexivity|].
  cbn [app cumsum_from]. f_equal. rewrite IH. f_equal.
Qed.
Lemma cumsum_from_zeros acc k : cumsum_from acc (repeat 0 k) = repeat acc k.
Proof. induction k; cbn; auto. numR. replace (acc + 0) with acc by lra. now f_equal. Qed.
Lemma cumtrapz_from_app dx acc prev (l m : list R) :
  cumtrapz_from dx acc prev (l ++ m)
  = cumtrapz_from dx acc prev l ++ cumtrapz_from dx (last (acc :: cumtrapz_from dx acc prev l) 0) (last (prev :: l) 0) m.
Proof.
  revert acc prev; induction l as [|x r IH]; intros acc prev; [reflexivity|].
  cbn [app cumtrapz_from]. f_equal. rewrite IH. f_equal.
Qed.
Lemma cumtrapz_from_zeros dx acc k : cumtrapz_from dx acc 0 (repeat 0 k) = repeat acc k.
Proof. induction k; cbn; auto. numR. replace (acc + dx * (0 + 0) / 2) with acc by lra. now f_equal. Qed.
Lemma cumtrapz_zero_pad dx (l : list R) k : l <> [] -> last l 0 = 0 ->
  cumtrapz dx (l ++ repeat 0 k) = cumtrapz dx l ++ repeat (last (cumtrapz dx l) 0) k.
Proof.
  destruct l as [|x r]; [congruence|]. intros _ Hlast. cbn [app cumtrapz].
  rewrite cumtrapz_from_app. cbn [app]. f_equal. f_equal.
  change (last (x :: r) 0) with (last (x :: r) 0) in Hlast. rewrite Hlast. apply cumtrapz_from_zeros.
Qed.
Lemma cumsum_zero_pad (l : list R) k : l <> [] ->
  cumsum (l ++ repeat 0 k) = cumsum l ++ repeat (last (cumsum l) 0) k.
Proof.
  intros Hl. unfold cumsum. rewrite cumsum_from_app. f_equal. rewrite cumsum_from_zeros. f_equal.
  destruct l; [congruence|reflexivity].
Qed.
