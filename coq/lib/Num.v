(** Generic numeric interface: models are written once against [NumOps T];
    theorems are proved at [T := R], execution happens at [T := Q]. No laws in the class. *)
From Coq Require Import ZArith QArith Qabs Qround Qreals Reals List Bool Lra Lia.
Import ListNotations.

Class NumOps (T : Type) := {
  n0 : T; n1 : T;
  nadd : T -> T -> T; nsub : T -> T -> T; nmul : T -> T -> T; ndiv : T -> T -> T;
  nopp : T -> T; nabs : T -> T;
  nltb : T -> T -> bool; nleb : T -> T -> bool; neqb : T -> T -> bool;
  nofZ : Z -> T;
  nfloor : T -> Z }.

Declare Scope num_scope.
Delimit Scope num_scope with num.
Infix "+" := nadd : num_scope.
Infix "-" := nsub : num_scope.
Infix "*" := nmul : num_scope.
Infix "/" := ndiv : num_scope.
Notation "- x" := (nopp x) : num_scope.
Infix "<?" := nltb : num_scope.
Infix "<=?" := nleb : num_scope.
Infix "=?" := neqb : num_scope.

(** ** Q instance (normalised after every operation so that vm_compute stays small) *)
Definition Qltb (x y : Q) : bool := match Qcompare x y with Lt => true | _ => false end.
Definition Qleb (x y : Q) : bool := match Qcompare x y with Gt => false | _ => true end.
Definition Qeqb (x y : Q) : bool := match Qcompare x y with Eq => true | _ => false end.

#[export] Instance NumQ : NumOps Q := {|
  n0 := 0%Q; n1 := 1%Q;
  nadd x y := Qred (x + y); nsub x y := Qred (x - y); nmul x y := Qred (x * y);
  ndiv x y := Qred (x / y); nopp x := Qred (- x); nabs x := Qred (Qabs x);
  nltb := Qltb; nleb := Qleb; neqb := Qeqb; nofZ z := inject_Z z; nfloor := Qfloor |}.

(** ** R instance *)
Definition Rltb (x y : R) : bool := if Rlt_dec x y then true else false.
Definition Rleb (x y : R) : bool := if Rle_dec x y then true else false.
Definition Reqb (x y : R) : bool := if Req_EM_T x y then true else false.

#[export] Instance NumR : NumOps R := {|
  n0 := 0%R; n1 := 1%R;
  nadd := Rplus; nsub := Rminus; nmul := Rmult; ndiv := Rdiv; nopp := Ropp; nabs := Rabs;
  nltb := Rltb; nleb := Rleb; neqb := Reqb; nofZ := IZR; nfloor x := (up x - 1)%Z |}.

Lemma Rltb_true x y : Rltb x y = true <-> (x < y)%R.
Proof. unfold Rltb; destruct (Rlt_dec x y); split; intros; auto; try discriminate; contradiction. Qed.
Lemma Rltb_false x y : Rltb x y = false <-> (y <= x)%R.
Proof. unfold Rltb; destruct (Rlt_dec x y); split; intros; auto; try discriminate; lra. Qed.
Lemma Rleb_true x y : Rleb x y = true <-> (x <= y)%R.
Proof. unfold Rleb; destruct (Rle_dec x y); split; intros; auto; try discriminate; contradiction. Qed.
Lemma Rleb_false x y : Rleb x y = false <-> (y < x)%R.
Proof. unfold Rleb; destruct (Rle_dec x y); split; intros; auto; try discriminate; lra. Qed.
Lemma Reqb_true x y : Reqb x y = true <-> x = y.
Proof. unfold Reqb; destruct (Req_EM_T x y); split; intros; auto; try discriminate; contradiction. Qed.
Lemma Reqb_false x y : Reqb x y = false <-> x <> y.
Proof. unfold Reqb; destruct (Req_EM_T x y); split; intros; auto; try discriminate; contradiction. Qed.

(** unfold the R instance's operations in a goal / hypothesis *)
Ltac numR := cbn [n0 n1 nadd nsub nmul ndiv nopp nabs nltb nleb neqb nofZ nfloor NumR] in *.
Ltac numQ := cbn [n0 n1 nadd nsub nmul ndiv nopp nabs nltb nleb neqb nofZ nfloor NumQ] in *.

(** case analysis on an R comparison appearing in the goal *)
Ltac case_Rltb x y :=
  let H := fresh "Hlt" in destruct (Rltb x y) eqn:H; [apply Rltb_true in H | apply Rltb_false in H].
Ltac case_Rleb x y :=
  let H := fresh "Hle" in destruct (Rleb x y) eqn:H; [apply Rleb_true in H | apply Rleb_false in H].
Ltac case_Reqb x y :=
  let H := fresh "Heq" in destruct (Reqb x y) eqn:H; [apply Reqb_true in H | apply Reqb_false in H].

(** ** Transfer Q -> R : the Q run is an evaluation of the R model on rational inputs *)
Definition rel (q : Q) (r : R) : Prop := Q2R q = r.

Lemma Q2R_red q : Q2R (Qred q) = Q2R q. Proof. apply Qeq_eqR, Qred_correct. Qed.
Lemma Q2R_inv' q : Q2R (/ q) = (/ Q2R q)%R.
Proof.
  destruct (Qeq_dec q 0) as [E|E].
  - rewrite (Qeq_eqR _ _ E). assert (/ q == 0)%Q as ->%Qeq_eqR by (rewrite E; reflexivity).
    rewrite RMicromega.Q2R_0. now rewrite Rinv_0.
  - now apply Q2R_inv.
Qed.
Lemma Q2R_abs q : Q2R (Qabs q) = Rabs (Q2R q).
Proof.
  apply Qabs_case; intros Hq.
  - apply Qle_Rle in Hq. rewrite RMicromega.Q2R_0 in Hq. now rewrite Rabs_pos_eq.
  - apply Qle_Rle in Hq. rewrite RMicromega.Q2R_0 in Hq. rewrite Q2R_opp. rewrite Rabs_left1; auto.
Qed.

Lemma rel_0 : rel n0 n0. Proof. unfold rel; cbn. apply RMicromega.Q2R_0. Qed.
Lemma rel_1 : rel n1 n1. Proof. unfold rel; cbn. apply RMicromega.Q2R_1. Qed.
Lemma rel_add a b x y : rel a x -> rel b y -> rel (nadd a b) (nadd x y).
Proof. unfold rel; numQ; numR; intros <- <-. now rewrite Q2R_red, Q2R_plus. Qed.
Lemma rel_sub a b x y : rel a x -> rel b y -> rel (nsub a b) (nsub x y).
Proof. unfold rel; numQ; numR; intros <- <-. now rewrite Q2R_red, Q2R_minus. Qed.
Lemma rel_mul a b x y : rel a x -> rel b y -> rel (nmul a b) (nmul x y).
Proof. unfold rel; numQ; numR; intros <- <-. now rewrite Q2R_red, Q2R_mult. Qed.
Lemma rel_div a b x y : rel a x -> rel b y -> rel (ndiv a b) (ndiv x y).
Proof. unfold rel; numQ; numR; intros <- <-. unfold Qdiv, Rdiv. now rewrite Q2R_red, Q2R_mult, Q2R_inv'. Qed.
Lemma rel_opp a x : rel a x -> rel (nopp a) (nopp x).
Proof. unfold rel; numQ; numR; intros <-. now rewrite Q2R_red, Q2R_opp. Qed.
Lemma rel_abs a x : rel a x -> rel (nabs a) (nabs x).
Proof. unfold rel; numQ; numR; intros <-. now rewrite Q2R_red, Q2R_abs. Qed.
Lemma rel_ofZ z : rel (nofZ z) (nofZ z).
Proof. unfold rel; cbn [nofZ NumQ NumR]. unfold Q2R; cbn. field. Qed.
Lemma rel_ltb a b x y : rel a x -> rel b y -> nltb a b = nltb x y.
Proof.
  unfold rel; numQ; numR; intros <- <-. unfold Rltb, Qltb.
  destruct (Qcompare_spec a b) as [E|L|G]; destruct (Rlt_dec _ _) as [r|r]; auto.
  - apply Qeq_eqR in E. lra.
  - apply Qlt_Rlt in L. lra.
  - apply Qlt_Rlt in G. lra.
Qed.
Lemma rel_leb a b x y : rel a x -> rel b y -> nleb a b = nleb x y.
Proof.
  unfold rel; numQ; numR; intros <- <-. unfold Rleb, Qleb.
  destruct (Qcompare_spec a b) as [E|L|G]; destruct (Rle_dec _ _) as [r|r]; auto.
  - apply Qeq_eqR in E. lra.
  - apply Qlt_Rlt in L. lra.
  - apply Qlt_Rlt in G. lra.
Qed.
Lemma rel_eqb a b x y : rel a x -> rel b y -> neqb a b = neqb x y.
Proof.
  unfold rel; numQ; numR; intros <- <-. unfold Reqb, Qeqb.
  destruct (Qcompare_spec a b) as [E|L|G]; destruct (Req_EM_T _ _) as [r|r]; auto.
  - apply Qeq_eqR in E. lra.
  - apply Qlt_Rlt in L. lra.
  - apply Qlt_Rlt in G. lra.
Qed.
#[export] Hint Resolve rel_0 rel_1 rel_add rel_sub rel_mul rel_div rel_opp rel_abs rel_ofZ : rel.
