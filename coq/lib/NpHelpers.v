(** NumPy / Python readings used by the generated helper functions (gen/Gen_helpers.v, property C20, written by
    translator/py2coq_helpers.py).  Definitions only; the lemmas are in proofs/P_gen_helpers.v.
    Python ints are read as [Z]; a size / slice bound [k] is used as [Z.to_nat k] (numpy rejects a negative size and gives a
    negative slice bound another meaning: the theorems instantiate the int parameters with [Z.of_nat _]).
    Arrays are [list T] (1-d), [list Z] (1-d int), [list (list T)] (2-d, list of rows). *)
From Coq Require Import String.
From Coq Require Import ZArith List Bool.   (* after String: [length] is List.length *)
From EQ Require Import lib.Num lib.NpList.
Import ListNotations.
Local Open Scope num_scope.

(** [np.arange(a, b)] and [np.arange(a, b, -1)] on ints *)
Definition arange_up (a b : Z) : list Z := map (fun k => Z.add a (Z.of_nat k)) (seq 0 (Z.to_nat (Z.sub b a))).
Definition arange_down (a b : Z) : list Z := map (fun k => Z.sub a (Z.of_nat k)) (seq 0 (Z.to_nat (Z.sub a b))).
(** [s == 'lit'] for a parameter that is a str or None *)
Definition opt_str_eqb (o : option string) (s : string) : bool :=
  match o with Some t => String.eqb t s | None => false end.

Section Generic.
Context {T : Type} `{NumOps T}.

(** [x ** e] for an int e >= 0 (repeated multiplication) *)
Fixpoint npow (x : T) (e : nat) : T := match e with O => n1 | S k => x * npow x k end.
(** [np.mean] of a 1-d array *)
Definition np_mean (l : list T) : T := nsum l / nofZ (Z.of_nat (length l)).
(** [np.tril(v, k)] / [np.triu(v, k)] of a 1-d [v] of length n: v is broadcast to n x n (every row = v); row i keeps the
    entries j <= i + k (tril) resp. j >= i + k (triu) and zeroes the others *)
Definition np_tril (k : Z) (v : list T) : list (list T) :=
  map (fun i => let z := Z.to_nat (Z.add (Z.add (Z.of_nat i) k) 1) in firstn z v ++ repeat n0 (length v - z)) (seq 0 (length v)).
Definition np_triu (k : Z) (v : list T) : list (list T) :=
  map (fun i => let z := Z.to_nat (Z.add (Z.of_nat i) k) in repeat n0 (Nat.min (length v) z) ++ skipn z v) (seq 0 (length v)).
(** [np.argmin]: first index of a minimal element *)
Fixpoint np_argmin_from (best : T) (bi i : nat) (l : list T) : nat :=
  match l with
  | [] => bi
  | x :: r => if x <? best then np_argmin_from x i (S i) r else np_argmin_from best bi (S i) r
  end.
Definition np_argmin (l : list T) : nat := match l with [] => 0%nat | x :: r => np_argmin_from x 0 1 r end.
(** [np.searchsorted(x, q, side='right')] on a SORTED x: the number of leading nodes <= q *)
Fixpoint searchsorted_right (x : list T) (q : T) : nat :=
  match x with [] => 0%nat | a :: r => if a <=? q then S (searchsorted_right r q) else 0%nat end.
(** in-place slice assignments on an array the function created: [z[k:] = e], [z[:-1] = e] (numpy requires
    len e = len z - k resp. len z - 1), [z[-1] = s] (IndexError on an empty z) *)
Definition set_from (k : nat) (z e : list T) : list T := firstn k z ++ e.
Definition set_upto_last (z e : list T) : list T := e ++ skipn (length z - 1) z.
Definition set_last (z : list T) (s : T) : list T := removelast z ++ [s].
End Generic.
