(** np.where(p)[0]: membership, order, first/last characterisation, extensionality, shift. Generic in the element type. *)
From Coq Require Import ZArith List Bool Lia.
From EQ Require Import lib.Num lib.NpList.
Import ListNotations.

Section W.
Context {A : Type}.
Variable d : A.

Lemma where_from_In (p : A -> bool) s l i :
  In i (where_from p s l) <-> (s <= i < s + length l)%nat /\ p (nth (i - s) l d) = true.
Proof.
  revert s; induction l as [|x r IH]; intros s; cbn [where_from length].
  - split; [intros []| intros [? _]; lia].
  - destruct (p x) eqn:Px; cbn [In]; rewrite IH; split.
    + intros [<-|[H1 H2]]; [split; [lia|]; now rewrite Nat.sub_diag|].
      split; [lia|]. replace (i - s)%nat with (S (i - S s)) by lia. exact H2.
    + intros [H1 H2]. destruct (Nat.eq_dec s i) as [->|Hne]; [now left|right].
      split; [lia|]. replace (i - s)%nat with (S (i - S s)) in H2 by lia. exact H2.
    + intros [H1 H2]. split; [lia|]. replace (i - s)%nat with (S (i - S s)) by lia. exact H2.
    + intros [H1 H2]. destruct (Nat.eq_dec s i) as [->|Hne].
      * rewrite Nat.sub_diag in H2. cbn in H2. congruence.
      * split; [lia|]. replace (i - s)%nat with (S (i - S s)) in H2 by lia. exact H2.
Qed.
Lemma where_idx_In (p : A -> bool) l i : In i (where_idx p l) <-> (i < length l)%nat /\ p (nth i l d) = true.
Proof. unfold where_idx. rewrite where_from_In. rewrite Nat.sub_0_r. intuition lia. Qed.

(** strictly ascending: every later element is larger than the head *)
Lemma where_from_lb (p : A -> bool) s l i : In i (where_from p s l) -> (s <= i)%nat.
Proof. intros H; apply where_from_In in H; lia. Qed.
Inductive ascending : list nat -> Prop :=
| asc_nil : ascending []
| asc_cons i r : (forall j, In j r -> (i < j)%nat) -> ascending r -> ascending (i :: r).
Lemma where_from_ascending (p : A -> bool) s l : ascending (where_from p s l).
Proof.
  revert s; induction l as [|x r IH]; intros s; cbn [where_from]; [constructor|].
  destruct (p x); [|apply IH]. constructor; [|apply IH]. intros j Hj. apply where_from_lb in Hj. lia.
Qed.
Lemma ascending_head_min i r j : ascending (i :: r) -> In j (i :: r) -> (i <= j)%nat.
Proof. intros H [<-|Hj]; [lia|]. inversion H; subst. specialize (H2 j Hj). lia. Qed.
Lemma ascending_last_max l j dflt : ascending l -> In j l -> (j <= last l dflt)%nat.
Proof.
  induction l as [|i r IH]; intros Ha Hj; [destruct Hj|].
  inversion Ha as [|? ? Hlt Har]; subst. destruct r as [|i' r'].
  - destruct Hj as [<-|[]]. cbn. lia.
  - rewrite (last_cons_ne i (i' :: r') dflt) by discriminate. destruct Hj as [<-|Hj].
    + assert (i < last (i' :: r') dflt)%nat; [|lia]. apply Hlt.
      clear. generalize i'. induction r' as [|z r'' IH']; intros y; [now left|]. right. apply IH'.
    + apply IH; auto.
Qed.
Lemma last_In (l : list nat) dflt : l <> [] -> In (last l dflt) l.
Proof. induction l as [|i r IH]; [congruence|]. intros _. destruct r as [|i' r']; [now left|]. right. apply IH. discriminate. Qed.

(** the specification of (first, last) qualifying index *)
Definition first_last (p : A -> bool) (l : list A) (i j : nat) : Prop :=
  (i <= j < length l)%nat /\ p (nth i l d) = true /\ p (nth j l d) = true /\
  (forall k, (k < i)%nat -> p (nth k l d) = false) /\
  (forall k, (j < k < length l)%nat -> p (nth k l d) = false).

Lemma where_first_last (p : A -> bool) l :
  match where_idx p l with
  | [] => forall k, (k < length l)%nat -> p (nth k l d) = false
  | i :: r => first_last p l i (last (i :: r) i)
  end.
Proof.
  destruct (where_idx p l) as [|i r] eqn:E.
  - intros k Hk. destruct (p (nth k l d)) eqn:Pk; [|reflexivity].
    assert (In k (where_idx p l)) by (apply where_idx_In; auto). rewrite E in H. destruct H.
  - pose proof (where_from_ascending p 0 l) as Hasc. fold (where_idx p l) in Hasc. rewrite E in Hasc.
    assert (Hi : In i (where_idx p l)) by (rewrite E; now left).
    assert (Hj : In (last (i :: r) i) (where_idx p l)) by (rewrite E; apply last_In; discriminate).
    apply where_idx_In in Hi as [Hi1 Hi2]. apply where_idx_In in Hj as [Hj1 Hj2].
    repeat split; auto.
    + apply (ascending_head_min i r); auto. apply last_In; discriminate.
    + intros k Hk. destruct (p (nth k l d)) eqn:Pk; [|reflexivity].
      assert (Hin : In k (where_idx p l)) by (apply where_idx_In; split; [lia|auto]). rewrite E in Hin.
      pose proof (ascending_head_min i r k Hasc Hin). lia.
    + intros k Hk. destruct (p (nth k l d)) eqn:Pk; [|reflexivity].
      assert (Hin : In k (where_idx p l)) by (apply where_idx_In; split; [lia|auto]). rewrite E in Hin.
      pose proof (ascending_last_max (i :: r) k i Hasc Hin). lia.
Qed.
Lemma first_last_unique p l i j i' j' : first_last p l i j -> first_last p l i' j' -> i = i' /\ j = j'.
Proof.
  intros (H1 & H2 & H3 & H4 & H5) (G1 & G2 & G3 & G4 & G5). split.
  - destruct (Nat.lt_trichotomy i i') as [L|[E|L]]; auto.
    + specialize (G4 i L). congruence.
    + specialize (H4 i' L). congruence.
  - destruct (Nat.lt_trichotomy j j') as [L|[E|L]]; auto.
    + assert (p (nth j' l d) = false) by (apply H5; lia). congruence.
    + assert (p (nth j l d) = false) by (apply G5; lia). congruence.
Qed.
End W.

(** extensionality: same length and pointwise equal tests give the same index list *)
Lemma where_from_ext2 {A B} (p : A -> bool) (q : B -> bool) s (l : list A) (m : list B) :
  Forall2 (fun x y => p x = q y) l m -> where_from p s l = where_from q s m.
Proof. intros H; revert s; induction H as [|x y l m Hxy _ IH]; intros s; cbn; [reflexivity|]. rewrite Hxy, !IH. reflexivity. Qed.
Lemma Forall2_nth_intro {A B} (P : A -> B -> Prop) (l : list A) (m : list B) da db :
  length l = length m -> (forall k, (k < length l)%nat -> P (nth k l da) (nth k m db)) -> Forall2 P l m.
Proof.
  revert m; induction l as [|x r IH]; intros [|y m] Hlen Hk; cbn in Hlen; try lia; constructor.
  - apply (Hk 0%nat). cbn; lia.
  - apply IH; [lia|]. intros k Hlt. apply (Hk (S k)). cbn; lia.
Qed.
Lemma where_from_shift {A} (p : A -> bool) s l : where_from p s l = map (fun i => (i + s)%nat) (where_from p 0 l).
Proof.
  revert s; induction l as [|x r IH]; intros s; cbn [where_from]; [reflexivity|].
  rewrite (IH (S s)), (IH 1%nat). destruct (p x); cbn [map]; rewrite ?map_map.
  - f_equal. apply map_ext. intros; lia.
  - apply map_ext. intros; lia.
Qed.
Lemma where_from_prefix_false {A} (p : A -> bool) (z : A) k s l : p z = false ->
  where_from p s (repeat z k ++ l) = where_from p (s + k) l.
Proof.
  intros Hz. revert s; induction k as [|k IH]; intros s; cbn [repeat app where_from].
  - now rewrite Nat.add_0_r.
  - rewrite Hz, IH. f_equal. lia.
Qed.
Lemma where_idx_prefix_false {A} (p : A -> bool) (z : A) k l : p z = false ->
  where_idx p (repeat z k ++ l) = map (fun i => (i + k)%nat) (where_idx p l).
Proof. intros Hz. unfold where_idx. rewrite where_from_prefix_false by auto. cbn. apply where_from_shift. Qed.
