(** numpy / Python-list primitives used by the literal transcription model/M_peaks_pipeline.v AND by the machine translation
    gen/Gen_c11.v of eqsig/fns/peaks_and_crossings.py (properties C11, C12). Definitions only (their Gallina text is their
    specification); [ediff1d], [diff], [where_idx] = np.where(.)[0], [take], [vmul], [vabs], [amax], [argmax], [map2] are in
    lib/NpList.v. No proofs here. *)
From Coq Require Import ZArith List Bool Sorting.Mergesort.
From EQ Require Import lib.Num lib.NpList.
Import ListNotations.

(** * numpy primitives that lib/NpList.v does not have ([ediff1d], [diff], [where_idx] = np.where(.)[0], [take], [vmul] are there) *)
(** x[1:] *)
Definition sl_from1 {A} (l : list A) : list A := tl l.
(** x[:-1] *)
Definition sl_to_m1 {A} (l : list A) : list A := removelast l.
(** x[::2] and x[1::2] are [evens] and [odds] of model/M_peaks.v *)
(** np.insert(x, 0, v) *)
Definition np_insert0 {A} (v : A) (l : list A) : list A := v :: l.
(** np.insert(x, len(x), v) *)
Definition np_insert_end {A} (l : list A) (v : A) : list A := l ++ [v].
(** np.concatenate((a, b)) *)
Definition np_concatenate {A} (a b : list A) : list A := a ++ b.
(** a.sort() on an integer array: any sorting function has the same result; the standard library's merge sort is used *)
Definition np_sort (l : list nat) : list nat := NatSort.sort l.
(** np.diff / np.ediff1d(., to_begin=b) on an integer array *)
Fixpoint diffZ (l : list Z) : list Z :=
  match l with
  | x :: r => match r with y :: _ => (y - x)%Z :: diffZ r | [] => [] end
  | [] => []
  end.
Definition ediff1dZ (b : Z) (l : list Z) : list Z := b :: diffZ l.
(** [k in rem_i] for a Python list of integers *)
Definition mem_nat (k : nat) (l : list nat) : bool := existsb (Nat.eqb k) l.
(** x[a:b] *)
Definition sl_range {A} (a b : nat) (l : list A) : list A := firstn (b - a) (skipn a l).
(** np.delete(a, idx): drop the positions listed in idx *)
Definition np_delete {A} (a : list A) (idx : list nat) : list A :=
  map snd (filter (fun p => negb (mem_nat (fst p) idx)) (combine (seq 0 (length a)) a)).


(** * generic forms emitted by translator/py2coq_c11.py (offsets / bounds are taken from the source text) *)
(** x[k:]  (k >= 0 a literal) *)
Definition sl_from {A} (k : nat) (l : list A) : list A := skipn k l.
(** x[:-k]  (k >= 1 a literal) *)
Definition sl_to_m {A} (k : nat) (l : list A) : list A := firstn (length l - k) l.
(** mask.any() *)
Definition np_any (m : list bool) : bool := existsb (fun b : bool => b) m.
(** np.where(c, a, s): array [a] where the mask holds, the scalar [s] elsewhere *)
Definition np_where_vs {A} (c : list bool) (a : list A) (s : A) : list A := map2 (fun (t : bool) x => if t then x else s) c a.
(** enumerate(l) *)
Definition py_enumerate {A} (l : list A) : list (nat * A) := combine (seq 0 (length l)) l.
(** range(a, b) *)
Definition py_range2 (a b : nat) : list nat := seq a (b - a).
(** x[:k] ++ map f x[k:]   (the in-place `x[k:] += s` on a fresh array) *)
Definition sl_from_update {A} (k : nat) (f : A -> A) (l : list A) : list A := firstn k l ++ map f (skipn k l).
