(** Helpers for the correspondence check: comparisons of implementation outputs (shipped as exact
    rationals) with Q-model outputs, evaluated by vm_compute inside Coq. *)
From Coq Require Import ZArith QArith Qabs List Bool.
From EQ Require Import lib.Num.
Import ListNotations.

Definition qclose (tol a b : Q) : bool := Qleb (Qabs (a - b)) tol.
Fixpoint close_list (tol : Q) (l1 l2 : list Q) : bool :=
  match l1, l2 with
  | [], [] => true
  | a :: r1, b :: r2 => qclose tol a b && close_list tol r1 r2
  | _, _ => false
  end.
Fixpoint close_mat (tol : Q) (m1 m2 : list (list Q)) : bool :=
  match m1, m2 with
  | [], [] => true
  | a :: r1, b :: r2 => close_list tol a b && close_mat tol r1 r2
  | _, _ => false
  end.
Fixpoint eq_nat_list (l1 l2 : list nat) : bool :=
  match l1, l2 with
  | [], [] => true
  | a :: r1, b :: r2 => Nat.eqb a b && eq_nat_list r1 r2
  | _, _ => false
  end.
Fixpoint eq_Z_list (l1 l2 : list Z) : bool :=
  match l1, l2 with
  | [], [] => true
  | a :: r1, b :: r2 => Z.eqb a b && eq_Z_list r1 r2
  | _, _ => false
  end.
(** max |x| of a list, used as the scale of a relative tolerance *)
Definition qabsmax (l : list Q) : Q := fold_left (fun m x => if Qltb m (Qabs x) then Qabs x else m) l 0%Q.

(** indices (0-based) of the cases whose check returned false *)
Fixpoint failing_from (i : nat) (l : list bool) : list nat :=
  match l with [] => [] | b :: r => if b then failing_from (S i) r else i :: failing_from (S i) r end.
Definition failing (l : list bool) : list nat := failing_from 0 l.
