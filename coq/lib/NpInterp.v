(** NumPy readings used by the generated interp2d (gen/Gen_interp2d.v, property C20, written by
    translator/py2coq_interp2d.py).  Definitions only; the lemmas are in proofs/P_gen_interp2d.v.
    1-d float arrays are [list T], int arrays [list Z], bool arrays [list bool], a 2-d array is the list of its rows. *)
From Coq Require Import ZArith List Bool.
From EQ Require Import lib.Num lib.NpList lib.NpHelpers.
Import ListNotations.
Local Open Scope num_scope.

(** [np.where(c, a, b)] on three arrays of one shape *)
Definition np_where {A} (c : list bool) (a b : list A) : list A :=
  map2 (fun (t : bool) (p : A * A) => if t then fst p else snd p) c (combine a b).
(** [np.where(c, a, s)], s a scalar *)
Definition np_where_vs {A} (c : list bool) (a : list A) (s : A) : list A :=
  map2 (fun (t : bool) e => if t then e else s) c a.
(** [np.clip(k, lo, None)] / [np.clip(k, None, hi)] on an int array *)
Definition np_clip_lo_z (lo : Z) (k : list Z) : list Z := map (fun i => Z.max i lo) k.
Definition np_clip_hi_z (hi : Z) (k : list Z) : list Z := map (fun i => Z.min i hi) k.

Section Generic.
Context {T : Type} `{NumOps T}.

(** [c[:, np.newaxis] - v]: row i is [c_i - v_j] over j *)
Definition np_outer_sub (c v : list T) : list (list T) := map (fun a => map (fun b => a - b) v) c.
(** [c[:, np.newaxis] * m]: row i of m multiplied by c_i *)
Definition np_scale_rows (c : list T) (m : list (list T)) : list (list T) := map2 (fun a r => map (fun b => a * b) r) c m.
(** [m1 + m2] of two 2-d arrays of one shape *)
Definition np_madd (a b : list (list T)) : list (list T) := map2 (map2 nadd) a b.
(** [np.argmin(m, axis=1)] *)
Definition np_argmin_rows (m : list (list T)) : list Z := map (fun r => Z.of_nat (np_argmin r)) m.
(** [np.clip(v, lo, None)] = np.maximum(v, lo) *)
Definition np_clip_lo (lo : T) (v : list T) : list T := map (fun y => nmax y lo) v.
(** [m[k]], k an int array of non-negative indices: the selected rows *)
Definition np_take_rows (m : list (list T)) (k : list Z) : list (list T) := map (fun i => nth (Z.to_nat i) m []) k.
End Generic.
