(** Readings of the NumPy / SciPy 2-d statements that translator/py2coq_c15.py emits into gen/Gen_c15.v (property C15,
    eqsig/stockwell.py).  A matrix is the list of its rows; a complex matrix / vector is carried as two of them (real parts,
    imaginary parts).  Definitions only; the lemmas are in proofs/P_gen_c15.v.

      np.arange(lo, hi) / np.arange(lo, hi, 1) of ints  -> [arange_z lo hi]   (floats lo, lo+1, ..., hi-1)
      x ** k (k a literal)                              -> [npow x k]
      v[1:-1] -> [removelast (tl v)];  v[1:] -> [tl v];  np.concatenate((u, v)) -> [u ++ v];  np.flipud -> [rev]
      m[lo:hi, :] (0 <= lo, hi)                         -> [slice lo hi m]
      np.outer(u, v)                                    -> [outer u v]
      m.transpose()                                     -> [transpose m]     (m with at least one row; rows of equal length)
      scipy.linalg.toeplitz(c, r)                       -> [toeplitz c r]    (entry (i, j) = c[i-j] for j <= i, r[j-i] above;
                                                                              r[0] is ignored, as SciPy does)
      scalar-with-matrix / elementwise arithmetic, np.exp(m)  -> [mmap f m], [mmap2 f a b]
      np.sum(m, axis=1)                                 -> [sum_axis1 m]     (exact sum of each row; summation order not modelled)
      np.argmax(m, axis=0)                              -> [argmax_axis0 m]  (first maximal row of each column)
      np.take(v, idx)                                   -> [take n0 v idx]   (lib/NpList.v) *)
From Coq Require Import ZArith List.
From EQ Require Import lib.Num lib.NpList.
Import ListNotations.
Local Open Scope num_scope.

Definition slice {A} (lo hi : nat) (l : list A) : list A := firstn (hi - lo) (skipn lo l).

Section Generic.
Context {T : Type} `{NumOps T}.
Definition arange_z (lo hi : Z) : list T := map (fun i => nofZ (lo + Z.of_nat i)%Z) (seq 0 (Z.to_nat (hi - lo))).
Fixpoint npow (x : T) (k : nat) : T := match k with O => n1 | S j => x * npow x j end.
Definition outer (u v : list T) : list (list T) := map (fun a => map (fun b => a * b) v) u.
Definition transpose (m : list (list T)) : list (list T) :=
  map (fun j => map (fun row => nth j row n0) m) (seq 0 (length (hd [] m))).
Definition toeplitz (c r : list T) : list (list T) :=
  map (fun i => map (fun j => if (j <=? i)%nat then nth (i - j) c n0 else nth (j - i) r n0) (seq 0 (length r)))
      (seq 0 (length c)).
Definition mmap (f : T -> T) (m : list (list T)) : list (list T) := map (map f) m.
Definition mmap2 (f : T -> T -> T) (a b : list (list T)) : list (list T) := map2 (map2 f) a b.
Definition sum_axis1 (m : list (list T)) : list T := map (fold_right nadd n0) m.
Definition argmax_axis0 (m : list (list T)) : list nat :=
  map (fun t => argmax (map (fun row => nth t row n0) m)) (seq 0 (length (hd [] m))).
End Generic.
