(** The Q -> R transfer layer (DESIGN 2.2): generic combinators.

    [rel q r := Q2R q = r] (lib/Num.v) relates the number the Q-run computes with the real the theorems talk
    about.  This file lifts [rel] through the list / pair / option structure of the models ("relators") and proves
    that every primitive the models are built from maps related inputs to related outputs:
    the list functions of the standard library (for an arbitrary element relation), the NumPy-style primitives of
    lib/NpList.v (for [rel]), the boolean tests (equal booleans), and [nfloor] (equal integers).
    proofs/P_Transfer*.v compose them, one lemma per model function.  Nothing here is bounded: all statements are
    for all lists / all rationals, by induction on [Forall2]. *)
From Coq Require Import ZArith QArith Qabs Qround Qreals Reals List Bool Lra Lia.
From EQ Require Import lib.Num lib.NpList.
Import ListNotations.

(** * Relators *)
Definition relP {A A' B B'} (RA : A -> A' -> Prop) (RB : B -> B' -> Prop) (p : A * B) (p' : A' * B') : Prop :=
  RA (fst p) (fst p') /\ RB (snd p) (snd p').
Inductive relO {A A'} (RA : A -> A' -> Prop) : option A -> option A' -> Prop :=
| relO_none : relO RA None None
| relO_some a a' : RA a a' -> relO RA (Some a) (Some a').
(** lists of numbers, matrices (lists of rows), triples of series *)
Notation relL := (Forall2 rel).
Notation relLL := (Forall2 (Forall2 rel)).
Notation relL3 := (relP (relP (Forall2 rel) (Forall2 rel)) (Forall2 rel)).

Lemma relP_intro {A A' B B'} (RA : A -> A' -> Prop) (RB : B -> B' -> Prop) a a' b b' :
  RA a a' -> RB b b' -> relP RA RB (a, b) (a', b').
Proof. intros; split; assumption. Qed.
Lemma relP_fst {A A' B B'} (RA : A -> A' -> Prop) (RB : B -> B' -> Prop) p p' : relP RA RB p p' -> RA (fst p) (fst p').
Proof. intros [? ?]; assumption. Qed.
Lemma relP_snd {A A' B B'} (RA : A -> A' -> Prop) (RB : B -> B' -> Prop) p p' : relP RA RB p p' -> RB (snd p) (snd p').
Proof. intros [? ?]; assumption. Qed.
Lemma relO_eq {A} (o o' : option A) : relO eq o o' -> o = o'.
Proof. intros []; congruence. Qed.

(** * Control structure *)
Lemma if_transfer {A A'} (R : A -> A' -> Prop) (b b' : bool) x x' y y' :
  b = b' -> R x x' -> R y y' -> R (if b then x else y) (if b' then x' else y').
Proof. intros <- ? ?; destruct b; assumption. Qed.
Lemma list_case_transfer {A A' B B'} (RA : A -> A' -> Prop) (RB : B -> B' -> Prop) l l' n n' c c' :
  Forall2 RA l l' -> RB n n' ->
  (forall x x' r r', RA x x' -> Forall2 RA r r' -> RB (c x r) (c' x' r')) ->
  RB (match l with [] => n | x :: r => c x r end) (match l' with [] => n' | x :: r => c' x r end).
Proof. intros [|] ? Hc; auto. Qed.
Lemma option_case_transfer {A A' B B'} (RA : A -> A' -> Prop) (RB : B -> B' -> Prop) o o' n n' c c' :
  relO RA o o' -> RB n n' -> (forall x x', RA x x' -> RB (c x) (c' x')) ->
  RB (match o with None => n | Some x => c x end) (match o' with None => n' | Some x => c' x end).
Proof. intros [|] ? Hc; auto. Qed.
Lemma pair_case_transfer {A A' B B' C C'} (RA : A -> A' -> Prop) (RB : B -> B' -> Prop) (RC : C -> C' -> Prop)
  p p' (c : A -> B -> C) (c' : A' -> B' -> C') :
  relP RA RB p p' -> (forall a a' b b', RA a a' -> RB b b' -> RC (c a b) (c' a' b')) ->
  RC (let (a, b) := p in c a b) (let (a, b) := p' in c' a b).
Proof. destruct p, p'; intros [? ?] Hc; auto. Qed.

(** * Standard list functions, for an arbitrary element relation *)
Section Lists.
Context {A A' : Type} (R : A -> A' -> Prop).

Lemma F2_length l l' : Forall2 R l l' -> length l = length l'.
Proof. intros HF; induction HF; cbn; auto. Qed.
Lemma F2_nth i i' l l' d d' : i = i' -> Forall2 R l l' -> R d d' -> R (nth i l d) (nth i' l' d').
Proof. intros <- HF Hd; revert i; induction HF; intros [|i]; cbn; auto. Qed.
Lemma F2_hd l l' d d' : Forall2 R l l' -> R d d' -> R (hd d l) (hd d' l').
Proof. intros [|] ?; cbn; auto. Qed.
Lemma F2_tl l l' : Forall2 R l l' -> Forall2 R (tl l) (tl l').
Proof. intros [|]; cbn; auto. Qed.
Lemma F2_last l l' d d' : Forall2 R l l' -> R d d' -> R (last l d) (last l' d').
Proof. intros HF Hd; induction HF as [|x x' l l' Hx HF IH]; cbn; auto. destruct HF; auto. Qed.
Lemma F2_removelast l l' : Forall2 R l l' -> Forall2 R (removelast l) (removelast l').
Proof. intros HF; induction HF as [|x x' l l' Hx HF IH]; cbn; auto. destruct HF; auto. Qed.
Lemma F2_firstn n n' l l' : n = n' -> Forall2 R l l' -> Forall2 R (firstn n l) (firstn n' l').
Proof. intros <- HF; revert n; induction HF; intros [|n]; cbn; auto. Qed.
Lemma F2_skipn n n' l l' : n = n' -> Forall2 R l l' -> Forall2 R (skipn n l) (skipn n' l').
Proof. intros <- HF; revert n; induction HF; intros [|n]; cbn; auto. Qed.
Lemma F2_app l l' m m' : Forall2 R l l' -> Forall2 R m m' -> Forall2 R (l ++ m) (l' ++ m').
Proof. apply Forall2_app. Qed.
Lemma F2_cons x x' l l' : R x x' -> Forall2 R l l' -> Forall2 R (x :: l) (x' :: l').
Proof. auto. Qed.
Lemma F2_nil : Forall2 R [] [].
Proof. auto. Qed.
Lemma F2_repeat x x' n n' : n = n' -> R x x' -> Forall2 R (repeat x n) (repeat x' n').
Proof. intros <- ?; induction n; cbn; auto. Qed.
Lemma F2_rev l l' : Forall2 R l l' -> Forall2 R (rev l) (rev l').
Proof. intros HF; induction HF; cbn; auto. apply Forall2_app; auto. Qed.
Lemma F2_filter (p : A -> bool) (q : A' -> bool) l l' :
  (forall a a', R a a' -> p a = q a') -> Forall2 R l l' -> Forall2 R (filter p l) (filter q l').
Proof. intros Hp HF; induction HF as [|x x' l l' Hx HF IH]; cbn; auto. rewrite (Hp _ _ Hx). destruct (q x'); auto. Qed.
Lemma F2_existsb (p : A -> bool) (q : A' -> bool) l l' :
  (forall a a', R a a' -> p a = q a') -> Forall2 R l l' -> existsb p l = existsb q l'.
Proof. intros Hp HF; induction HF as [|x x' l l' Hx HF IH]; cbn; auto. now rewrite (Hp _ _ Hx), IH. Qed.
Lemma F2_forallb (p : A -> bool) (q : A' -> bool) l l' :
  (forall a a', R a a' -> p a = q a') -> Forall2 R l l' -> forallb p l = forallb q l'.
Proof. intros Hp HF; induction HF as [|x x' l l' Hx HF IH]; cbn; auto. now rewrite (Hp _ _ Hx), IH. Qed.
Lemma F2_find (p : A -> bool) (q : A' -> bool) l l' :
  (forall a a', R a a' -> p a = q a') -> Forall2 R l l' -> relO R (find p l) (find q l').
Proof.
  intros Hp HF; induction HF as [|x x' l l' Hx HF IH]; cbn; [constructor|].
  rewrite (Hp _ _ Hx). destruct (q x'); [now constructor | assumption].
Qed.
(** np.where(p)[0] with a test that does not distinguish related elements *)
Lemma F2_where_from (p : A -> bool) (q : A' -> bool) s s' l l' :
  (forall a a', R a a' -> p a = q a') -> s = s' -> Forall2 R l l' -> where_from p s l = where_from q s' l'.
Proof.
  intros Hp <- HF; revert s; induction HF as [|x x' l l' Hx HF IH]; intros s; cbn; auto.
  rewrite (Hp _ _ Hx), IH. reflexivity.
Qed.
Lemma F2_where_idx (p : A -> bool) (q : A' -> bool) l l' :
  (forall a a', R a a' -> p a = q a') -> Forall2 R l l' -> where_idx p l = where_idx q l'.
Proof. intros; apply F2_where_from; auto. Qed.
Lemma F2_take d d' l l' idx idx' : idx = idx' -> Forall2 R l l' -> R d d' -> Forall2 R (take d l idx) (take d' l' idx').
Proof. intros <- HF Hd. unfold take. induction idx; cbn; constructor; auto. apply F2_nth; auto. Qed.
End Lists.

Section Lists2.
Context {A A' B B' : Type} (RA : A -> A' -> Prop) (RB : B -> B' -> Prop).
Lemma F2_map (f : A -> B) (g : A' -> B') l l' :
  (forall a a', RA a a' -> RB (f a) (g a')) -> Forall2 RA l l' -> Forall2 RB (map f l) (map g l').
Proof. intros Hf HF; induction HF; cbn; auto. Qed.
(** a map over one and the same index list (seq 0 n, a list of peaks, ...) *)
Lemma F2_map_same (f : A -> B) (g : A -> B') l l' :
  (forall i, RB (f i) (g i)) -> l = l' -> Forall2 RB (map f l) (map g l').
Proof. intros Hf <-; induction l; cbn; auto. Qed.
Lemma F2_fold_left (f : A -> B -> A) (g : A' -> B' -> A') l l' a a' :
  (forall a a' b b', RA a a' -> RB b b' -> RA (f a b) (g a' b')) ->
  Forall2 RB l l' -> RA a a' -> RA (fold_left f l a) (fold_left g l' a').
Proof. intros Hf HF; revert a a'; induction HF; cbn; auto. Qed.
Lemma F2_fold_right (f : B -> A -> A) (g : B' -> A' -> A') l l' a a' :
  (forall a a' b b', RA a a' -> RB b b' -> RA (f b a) (g b' a')) ->
  Forall2 RB l l' -> RA a a' -> RA (fold_right f a l) (fold_right g a' l').
Proof. intros Hf HF Ha; induction HF; cbn; auto. Qed.
Lemma F2_combine l l' m m' : Forall2 RA l l' -> Forall2 RB m m' -> Forall2 (relP RA RB) (combine l m) (combine l' m').
Proof. intros HF; revert m m'; induction HF; intros m m' [|]; cbn; constructor; auto. split; auto. Qed.
(** a fold over one and the same index list *)
Lemma F2_fold_left_same (f : A -> B -> A) (g : A' -> B -> A') l l' a a' :
  (forall a a' b, RA a a' -> RA (f a b) (g a' b)) -> l = l' -> RA a a' -> RA (fold_left f l a) (fold_left g l' a').
Proof. intros Hf <-; revert a a'; induction l; cbn; auto. Qed.
End Lists2.

Lemma F2_map2 {A A' B B' C C'} (RA : A -> A' -> Prop) (RB : B -> B' -> Prop) (RC : C -> C' -> Prop)
  (f : A -> B -> C) (g : A' -> B' -> C') l l' m m' :
  (forall a a' b b', RA a a' -> RB b b' -> RC (f a b) (g a' b')) ->
  Forall2 RA l l' -> Forall2 RB m m' -> Forall2 RC (map2 f l m) (map2 g l' m').
Proof. intros Hf HF; revert m m'; induction HF; intros m m' [|]; cbn; constructor; auto. Qed.
(** map2 whose second list is one and the same index list *)
Lemma F2_map2_same_r {A A' B C C'} (RA : A -> A' -> Prop) (RC : C -> C' -> Prop)
  (f : A -> B -> C) (g : A' -> B -> C') l l' m m' :
  (forall a a' b, RA a a' -> RC (f a b) (g a' b)) ->
  Forall2 RA l l' -> m = m' -> Forall2 RC (map2 f l m) (map2 g l' m').
Proof. intros Hf HF <-; revert m; induction HF; intros [|]; cbn; constructor; auto. Qed.
Lemma F2_map2_same_l {A B B' C C'} (RB : B -> B' -> Prop) (RC : C -> C' -> Prop)
  (f : A -> B -> C) (g : A -> B' -> C') l l' m m' :
  (forall a b b', RB b b' -> RC (f a b) (g a b')) ->
  l = l' -> Forall2 RB m m' -> Forall2 RC (map2 f l m) (map2 g l' m').
Proof. intros Hf <- HF; revert l; induction HF; intros [|]; cbn; constructor; auto. Qed.
Lemma map_eq_transfer {A A' B} (RA : A -> A' -> Prop) (f : A -> B) (g : A' -> B) l l' :
  (forall a a', RA a a' -> f a = g a') -> Forall2 RA l l' -> map f l = map g l'.
Proof. intros Hf HF; induction HF; cbn; auto. f_equal; auto. Qed.
Lemma forallb_ext_eq {A} (p q : A -> bool) l : (forall a, p a = q a) -> forallb p l = forallb q l.
Proof. intros Hp; induction l; cbn; auto. now rewrite Hp, IHl. Qed.
Lemma F2_eq {A} (l l' : list A) : Forall2 eq l l' <-> l = l'.
Proof.
  split; [intros HF; induction HF; congruence | intros <-; induction l; auto].
Qed.

(** * Integer parts: the Q-run and the R-model take the same floor *)
Lemma Q2R_inject_Z z : Q2R (inject_Z z) = IZR z.
Proof. unfold Q2R; cbn. field. Qed.
Lemma Qfloor_up q : Qfloor q = (up (Q2R q) - 1)%Z.
Proof.
  assert (H : (Qfloor q + 1)%Z = up (Q2R q)); [|lia].
  apply tech_up.
  - pose proof (Qlt_floor q) as H. apply Qlt_Rlt in H. now rewrite Q2R_inject_Z in H.
  - pose proof (Qfloor_le q) as H. apply Qle_Rle in H. rewrite Q2R_inject_Z in H. rewrite plus_IZR. lra.
Qed.
Lemma rel_floor a x : rel a x -> nfloor a = nfloor x.
Proof. unfold rel; intros <-. cbn [nfloor NumQ NumR]. apply Qfloor_up. Qed.
(** the R instance's floor is the mathematical floor *)
Lemma nfloor_R_spec (x : R) : (IZR (nfloor x) <= x < IZR (nfloor x) + 1)%R.
Proof. cbn [nfloor NumR]. rewrite minus_IZR. destruct (archimed x). lra. Qed.
Lemma rel_ofZ_eq z z' : z = z' -> rel (nofZ z) (nofZ z').
Proof. intros <-; apply rel_ofZ. Qed.
Lemma rel_Q2R q : rel q (Q2R q).
Proof. reflexivity. Qed.
Lemma relL_map_Q2R (l : list Q) : relL l (map Q2R l).
Proof. induction l; cbn; constructor; auto. reflexivity. Qed.

Lemma relL_iff (l : list Q) (l' : list R) : relL l l' <-> l' = map Q2R l.
Proof.
  split; [|intros ->; apply relL_map_Q2R].
  intros HF; induction HF as [|a x l l' Hax HF IH]; cbn; [reflexivity|]. unfold rel in Hax. congruence.
Qed.
Lemma relLL_iff (l : list (list Q)) (l' : list (list R)) : relLL l l' <-> l' = map (map Q2R) l.
Proof.
  split.
  - intros HF; induction HF as [|a x l l' Hax HF IH]; cbn; [reflexivity|]. apply relL_iff in Hax. congruence.
  - intros ->. induction l; cbn; constructor; auto. apply relL_map_Q2R.
Qed.

(** * NumPy-style primitives of lib/NpList.v *)
Lemma rel_nmax a b x y : rel a x -> rel b y -> rel (nmax a b) (nmax x y).
Proof. intros Ha Hb. unfold nmax. apply if_transfer; auto. now apply rel_ltb. Qed.
Lemma rel_nmin a b x y : rel a x -> rel b y -> rel (nmin a b) (nmin x y).
Proof. intros Ha Hb. unfold nmin. apply if_transfer; auto. now apply rel_ltb. Qed.
Lemma rel_amax l l' : relL l l' -> rel (amax l) (amax l').
Proof. intros HF; destruct HF as [|a x r r' Hax HF]; cbn [amax]; [apply rel_0|]. apply (F2_fold_left rel rel); auto using rel_nmax. Qed.
Lemma rel_amin l l' : relL l l' -> rel (amin l) (amin l').
Proof. intros HF; destruct HF as [|a x r r' Hax HF]; cbn [amin]; [apply rel_0|]. apply (F2_fold_left rel rel); auto using rel_nmin. Qed.
Lemma rel_nsum l l' : relL l l' -> rel (nsum l) (nsum l').
Proof. intros HF. unfold nsum. apply (F2_fold_left rel rel); auto using rel_add, rel_0. Qed.
Lemma rel_last0 l l' : relL l l' -> rel (last0 l) (last0 l').
Proof. intros HF. unfold last0. apply F2_last; auto using rel_0. Qed.
Lemma relL_diff l l' : relL l l' -> relL (diff l) (diff l').
Proof.
  intros HF; induction HF as [|a x l l' Hax HF IH]; cbn [diff]; auto.
  destruct HF; constructor; auto using rel_sub.
Qed.
Lemma relL_ediff1d b b' l l' : rel b b' -> relL l l' -> relL (ediff1d b l) (ediff1d b' l').
Proof. intros; unfold ediff1d; constructor; auto using relL_diff. Qed.
Lemma relL_scale c c' l l' : rel c c' -> relL l l' -> relL (scale c l) (scale c' l').
Proof. intros; unfold scale; apply (F2_map rel rel); auto using rel_mul. Qed.
Lemma relL_vadd a a' b b' : relL a a' -> relL b b' -> relL (vadd a b) (vadd a' b').
Proof. intros; unfold vadd; apply (F2_map2 rel rel rel); auto using rel_add. Qed.
Lemma relL_vsub a a' b b' : relL a a' -> relL b b' -> relL (vsub a b) (vsub a' b').
Proof. intros; unfold vsub; apply (F2_map2 rel rel rel); auto using rel_sub. Qed.
Lemma relL_vmul a a' b b' : relL a a' -> relL b b' -> relL (vmul a b) (vmul a' b').
Proof. intros; unfold vmul; apply (F2_map2 rel rel rel); auto using rel_mul. Qed.
Lemma relL_vabs a a' : relL a a' -> relL (vabs a) (vabs a').
Proof. intros; unfold vabs; apply (F2_map rel rel); auto using rel_abs. Qed.
Lemma relL_vopp a a' : relL a a' -> relL (vopp a) (vopp a').
Proof. intros; unfold vopp; apply (F2_map rel rel); auto using rel_opp. Qed.
Lemma relL_vsq a a' : relL a a' -> relL (vsq a) (vsq a').
Proof. intros; unfold vsq; apply (F2_map rel rel); auto using rel_mul. Qed.
Lemma relL_cumsum_from acc acc' l l' : rel acc acc' -> relL l l' -> relL (cumsum_from acc l) (cumsum_from acc' l').
Proof. apply cumsum_from_transfer. Qed.
Lemma relL_cumsum l l' : relL l l' -> relL (cumsum l) (cumsum l').
Proof. apply cumsum_transfer. Qed.
Lemma relL_cumtrapz dx dx' l l' : rel dx dx' -> relL l l' -> relL (cumtrapz dx l) (cumtrapz dx' l').
Proof. apply cumtrapz_transfer. Qed.
Lemma argmax_from_transfer best best' bi bi' i i' l l' :
  rel best best' -> bi = bi' -> i = i' -> relL l l' -> argmax_from best bi i l = argmax_from best' bi' i' l'.
Proof.
  intros Hb <- <- HF; revert best best' bi i Hb. induction HF as [|a x l l' Hax HF IH]; intros; cbn [argmax_from]; auto.
  rewrite (rel_ltb _ _ _ _ Hb Hax). destruct (nltb best' x); auto.
Qed.
Lemma argmax_transfer l l' : relL l l' -> argmax l = argmax l'.
Proof. intros HF; destruct HF as [|a x r r' Hax HF]; cbn [argmax]; auto. apply argmax_from_transfer; auto. Qed.

(** * A goal-directed tactic: decompose a transfer goal along the (common) shape of its two sides.
    [relof A] is the relation used at the Q-side type [A]: [rel] at [Q], lifted through list / pair / option;
    equality at every type that does not mention [Q] (nat, Z, bool, lists of indices, ...).
    [xfer_hook] is extended by the clients with the lemmas of the functions they have already treated
    ([relof_hook] with the relations of their record types). *)
Ltac relof_hook A := fail.
Ltac relof A :=
  lazymatch A with
  | context [Q] =>
    lazymatch A with
    | Q => constr:(rel)
    | list ?B => let r := relof B in constr:(Forall2 r)
    | prod ?B ?C => let r := relof B in let s := relof C in constr:(relP r s)
    | option ?B => let r := relof B in constr:(relO r)
    | _ => relof_hook A
    end
  | _ => constr:(@eq A)
  end.
Ltac xfer_hook := fail.
(** the hook dispatches on the head constant of the Q-side term (so that [apply] never has to unfold anything) *)
Ltac xfer_head t := lazymatch t with ?f _ => xfer_head f | _ => t end.
Ltac xfer_dispatch tac := match goal with |- ?R ?x ?y => let h := xfer_head x in tac h end.
(** [xfer_align x y]: [x] and [y] are applications of the same shape; find the first pair of corresponding arguments
    of a discrete type (no [Q] inside: nat, Z, bool, index lists) that differ syntactically, ask for their equality
    and rewrite with it, so that the lemmas stated with one shared discrete argument apply. *)
Ltac xfer_align x y :=
  lazymatch x with
  | ?f ?a =>
    lazymatch y with
    | ?g ?b =>
      first
      [ xfer_align f g
      | let T := type of a in
        lazymatch T with
        | context [Q] => fail
        | forall _, _ => fail
        | _ => lazymatch type of T with Prop => fail | _ => idtac end
        end;
        lazymatch a with Q => fail | _ => idtac end;
        lazymatch T with Set => fail | Type => fail | Prop => fail | _ => idtac end;
        tryif constr_eq a b then fail else
        (let E := fresh "E" in assert (E : a = b); [ | rewrite E ]) ]
    end
  end.
Ltac xfer_step :=
  match goal with
  | |- _ => assumption
  | |- forall _, _ => intro
  | |- @eq _ ?x ?x => reflexivity
  | |- rel n0 n0 => apply rel_0
  | |- rel n1 n1 => apply rel_1
  | |- rel (nofZ _) (nofZ _) => apply rel_ofZ_eq
  | |- rel (nadd _ _) (nadd _ _) => apply rel_add
  | |- rel (nsub _ _) (nsub _ _) => apply rel_sub
  | |- rel (nmul _ _) (nmul _ _) => apply rel_mul
  | |- rel (ndiv _ _) (ndiv _ _) => apply rel_div
  | |- rel (nopp _) (nopp _) => apply rel_opp
  | |- rel (nabs _) (nabs _) => apply rel_abs
  | |- rel (nmax _ _) (nmax _ _) => apply rel_nmax
  | |- rel (nmin _ _) (nmin _ _) => apply rel_nmin
  | |- rel (amax _) (amax _) => apply rel_amax
  | |- rel (amin _) (amin _) => apply rel_amin
  | |- rel (nsum _) (nsum _) => apply rel_nsum
  | |- rel (last0 _) (last0 _) => apply rel_last0
  | |- nltb _ _ = nltb _ _ => apply rel_ltb
  | |- nleb _ _ = nleb _ _ => apply rel_leb
  | |- neqb _ _ = neqb _ _ => apply rel_eqb
  | |- nfloor _ = nfloor _ => apply rel_floor
  | |- argmax _ = argmax _ => apply argmax_transfer
  | |- relL (diff _) (diff _) => apply relL_diff
  | |- relL (ediff1d _ _) (ediff1d _ _) => apply relL_ediff1d
  | |- relL (scale _ _) (scale _ _) => apply relL_scale
  | |- relL (vadd _ _) (vadd _ _) => apply relL_vadd
  | |- relL (vsub _ _) (vsub _ _) => apply relL_vsub
  | |- relL (vmul _ _) (vmul _ _) => apply relL_vmul
  | |- relL (vabs _) (vabs _) => apply relL_vabs
  | |- relL (vopp _) (vopp _) => apply relL_vopp
  | |- relL (vsq _) (vsq _) => apply relL_vsq
  | |- relL (cumsum_from _ _) (cumsum_from _ _) => apply relL_cumsum_from
  | |- relL (cumsum _) (cumsum _) => apply relL_cumsum
  | |- relL (cumtrapz _ _) (cumtrapz _ _) => apply relL_cumtrapz
  | H : Forall2 ?R ?l ?l' |- context [length ?l] => rewrite (F2_length R l l' H)
  | |- ?R ?x ?y => xfer_align x y
  | |- _ => xfer_hook
  | H : forall _, _ |- _ => apply H
  | |- ?R (if _ then _ else _) (if _ then _ else _) => apply (if_transfer R)
  | |- ?RB (match ?l with [] => _ | _ :: _ => _ end) (match ?l' with [] => _ | _ :: _ => _ end) =>
      lazymatch type of l with
      | list ?A0 =>
        lazymatch A0 with
        | context [Q] =>
          let ra := relof A0 in
          first [ is_var l; is_var l'; let H := fresh "HF" in assert (H : Forall2 ra l l') by assumption; destruct H
                | refine (list_case_transfer ra RB _ _ _ _ _ _ _ _ _) ]
        | _ => first [ constr_eq l l'; destruct l
                     | let E := fresh "E" in assert (E : l = l'); [ | rewrite E; destruct l' ] ]
        end
      end
  | |- ?RB (match ?n with O => _ | S _ => _ end) (match ?n' with O => _ | S _ => _ end) =>
      first [ constr_eq n n'; destruct n
            | let E := fresh "E" in assert (E : n = n'); [ | rewrite E; destruct n' ] ]
  | |- ?RB (match ?o with Some _ => _ | None => _ end) (match ?o' with Some _ => _ | None => _ end) =>
      lazymatch type of o with
      | option ?A0 =>
        lazymatch A0 with
        | context [Q] => let ra := relof A0 in refine (option_case_transfer ra RB _ _ _ _ _ _ _ _ _)
        | _ => first [ constr_eq o o'; destruct o
                     | let E := fresh "E" in assert (E : o = o'); [ | rewrite E; destruct o' ] ]
        end
      end
  | |- ?RC (let (_, _) := ?p in _) (let (_, _) := ?p' in _) =>
      lazymatch type of p with
      | prod ?A0 ?B0 =>
        lazymatch constr:(prod A0 B0) with
        | context [Q] => let ra := relof A0 in let rb := relof B0 in refine (pair_case_transfer ra rb RC _ _ _ _ _ _)
        | _ => first [ constr_eq p p'; destruct p
                     | let E := fresh "E" in assert (E : p = p'); [ | rewrite E; destruct p' ] ]
        end
      end
  | |- ?RA (fst ?p) (fst ?p') =>
      lazymatch type of p with prod ?A0 ?B0 => let rb := relof B0 in apply (relP_fst RA rb) end
  | |- ?RB (snd ?p) (snd ?p') =>
      lazymatch type of p with prod ?A0 ?B0 => let ra := relof A0 in apply (relP_snd ra RB) end
  | |- Forall2 ?RB (map ?f ?l) (map ?g ?l') =>
      lazymatch type of l with
      | list ?A0 =>
        lazymatch A0 with
        | context [Q] => let ra := relof A0 in apply (F2_map ra RB)
        | _ => apply (F2_map_same RB)
        end
      end
  | |- Forall2 ?RC (map2 ?f ?l ?m) (map2 ?g ?l' ?m') =>
      lazymatch type of l with
      | list ?A0 =>
        lazymatch type of m with
        | list ?B0 =>
          lazymatch A0 with
          | context [Q] =>
            let ra := relof A0 in
            lazymatch B0 with
            | context [Q] => let rb := relof B0 in apply (F2_map2 ra rb RC)
            | _ => apply (F2_map2_same_r ra RC)
            end
          | _ => let rb := relof B0 in apply (F2_map2_same_l rb RC)
          end
        end
      end
  | |- ?RA (fold_left ?f ?l ?a) (fold_left ?g ?l' ?a') =>
      lazymatch type of l with
      | list ?B0 =>
        lazymatch B0 with
        | context [Q] => let rb := relof B0 in apply (F2_fold_left RA rb)
        | _ => apply (F2_fold_left_same RA)
        end
      end
  | |- map ?f ?l = map ?g ?l' =>
      lazymatch type of l with
      | list ?A0 => lazymatch A0 with context [Q] => let ra := relof A0 in apply (map_eq_transfer ra) end
      end
  | |- where_idx ?p ?l = where_idx ?q ?l' =>
      lazymatch type of l with list ?A0 => let ra := relof A0 in apply (F2_where_idx ra) end
  | |- where_from ?p _ ?l = where_from ?q _ ?l' =>
      lazymatch type of l with list ?A0 => let ra := relof A0 in apply (F2_where_from ra) end
  | |- existsb ?p ?l = existsb ?q ?l' =>
      lazymatch type of l with list ?A0 => let ra := relof A0 in apply (F2_existsb ra) end
  | |- relO ?R (find _ _) (find _ _) => apply (F2_find R)
  | |- Forall2 (relP ?RA ?RB) (combine _ _) (combine _ _) => apply (F2_combine RA RB)
  | |- Forall2 eq _ _ => apply F2_eq
  | |- Forall2 ?R (filter _ _) (filter _ _) => apply (F2_filter R)
  | |- Forall2 ?R (take _ _ _) (take _ _ _) => apply (F2_take R)
  | |- ?R (nth _ _ _) (nth _ _ _) => apply (F2_nth R)
  | |- ?R (hd _ _) (hd _ _) => apply (F2_hd R)
  | |- ?R (last _ _) (last _ _) => apply (F2_last R)
  | |- Forall2 ?R (tl _) (tl _) => apply (F2_tl R)
  | |- Forall2 ?R (removelast _) (removelast _) => apply (F2_removelast R)
  | |- Forall2 ?R (firstn _ _) (firstn _ _) => apply (F2_firstn R)
  | |- Forall2 ?R (skipn _ _) (skipn _ _) => apply (F2_skipn R)
  | |- Forall2 ?R (_ ++ _) (_ ++ _) => apply (F2_app R)
  | |- Forall2 ?R (_ :: _) (_ :: _) => apply (F2_cons R)
  | |- Forall2 ?R [] [] => apply (F2_nil R)
  | |- Forall2 ?R (repeat _ _) (repeat _ _) => apply (F2_repeat R)
  | |- Forall2 ?R (rev _) (rev _) => apply (F2_rev R)
  | |- relP _ _ (_, _) (_, _) => apply relP_intro
  | |- relO _ None None => constructor
  | |- relO _ (Some _) (Some _) => constructor
  | |- @length ?A ?l = @length ?B ?l' =>
      match goal with
      | H : Forall2 ?R l l' |- _ => exact (F2_length R l l' H)
      | _ => let ra := relof A in apply (F2_length ra)
      end
  | |- filter _ ?l = filter _ ?l => apply filter_ext
  | |- ?f _ _ _ = ?f _ _ _ => apply f_equal3
  | |- ?f _ _ = ?f _ _ => apply f_equal2
  | |- ?f _ = ?f _ => apply f_equal
  end.
Ltac xfer := repeat (cbv beta zeta; xfer_step).
(** [by_unfold f]: the lemma of a non-recursive definition *)
Tactic Notation "xfer_def" reference(f) := intros; unfold f; xfer.
