(** Readings of the Python / NumPy / SciPy statements that translator/py2coq_c19.py emits into gen/Gen_c19.v (property C19,
    eqsig/surface.py and eqsig/fns/time_shift.py).  A 2-d array is the list of its rows.  Definitions only (fixed, NOT
    generated from the source); the lemmas are in proofs/P_gen_c19.v.

      an argument that is a python scalar or an array          -> [pyarg]  ([hasattr(x, '__len__')] is a [match] on it)
      up_red, down_red (both scalars or both arrays)           -> [pyreds] (the mixed forms, where NumPy raises or broadcasts
                                                                  along the other axis, are not represented)
      a result that is 1-d or 2-d                              -> [pyarr]; an operation along axis=-1 -> [arr_map]
      int(x), np.array(x, dtype=int) of floats                 -> [py_int]  (truncation towards zero)
      np.max / np.min of an int array                          -> [zv_max] / [zv_min]  (ValueError on an empty array not modelled)
      v[lo:hi] (any ints, None = absent)                       -> [py_slice]      (negative bounds count from the end; clamped)
      z[lo:hi] = v                                             -> [py_set_slice]  (the array NumPy leaves behind when len(v) is
                                                                  the length of the slice; otherwise NumPy raises)
      np.zeros(k) (a row of np.zeros((r, k)))                  -> [np_zeros k]
      np.pad(v, (0, k), mode='constant', constant_values=0)    -> [np_pad_right v k]   (NumPy raises for k < 0)
      np.arange(k)                                             -> [np_arange k]  (floats 0, 1, ..., k-1)
      r[np.newaxis, :] (op) c[:, np.newaxis]                   -> [bc_row_col op r c]  (entry (i, j) = r_j op c_i)
      m (op) c[:, np.newaxis]                                  -> [bc_mat_col op m c]  (one entry of c per row of m)
      m (op) v   (v 1-d, one entry per column)                 -> [bc_mat_row op m v]
      elementwise on 2-d arrays                                -> [mmap], [mmap2]
      np.interp(x, np.arange(o.npts), o.values, left=0, right=0)  -> [np_interp_arange0 o.values x]  (o.npts = len(o.values):
                                                                  linear between the samples, the sample at an integer abscissa
                                                                  including the last one, 0 strictly outside [0, npts - 1]) *)
From Coq Require Import ZArith List Bool.
From EQ Require Import lib.Num lib.NpList.
Import ListNotations.
Local Open Scope num_scope.

Inductive pyarg (T : Type) : Type := ArgScalar (x : T) | ArgArr (l : list T).
Inductive pyreds (T : Type) : Type := RedScalars (u d : T) | RedArrays (u d : list T).
Inductive pyarr (T : Type) : Type := Arr1 (v : list T) | Arr2 (m : list (list T)).
Arguments ArgScalar {T} x.
Arguments ArgArr {T} l.
Arguments RedScalars {T} u d.
Arguments RedArrays {T} u d.
Arguments Arr1 {T} v.
Arguments Arr2 {T} m.
Definition arr_map {T} (f : list T -> list T) (a : pyarr T) : pyarr T :=
  match a with Arr1 v => Arr1 (f v) | Arr2 m => Arr2 (map f m) end.

Definition zv_max (l : list Z) : Z := match l with [] => 0%Z | x :: r => fold_left Z.max r x end.
Definition zv_min (l : list Z) : Z := match l with [] => 0%Z | x :: r => fold_left Z.min r x end.

(** a slice bound on a sequence of length n: negative counts from the end, then clamped to [0, n] *)
Definition py_bound (n dflt : nat) (b : option Z) : nat :=
  match b with
  | None => dflt
  | Some i => Z.to_nat (if (i <? 0)%Z then Z.max 0 (i + Z.of_nat n) else Z.min i (Z.of_nat n))
  end.
Definition py_slice {A} (lo hi : option Z) (l : list A) : list A :=
  let n := length l in let s := py_bound n 0 lo in let f := py_bound n n hi in firstn (f - s) (skipn s l).
Definition py_set_slice {A} (lo hi : option Z) (v z : list A) : list A :=
  let n := length z in let s := py_bound n 0 lo in let f := py_bound n n hi in
  firstn s z ++ v ++ skipn (s + (f - s)) z.

Section Generic.
Context {T : Type} `{NumOps T}.
Definition py_int (x : T) : Z := if x <? n0 then Z.opp (nfloor (- x)) else nfloor x.
Definition np_zeros (k : Z) : list T := repeat n0 (Z.to_nat k).
Definition np_pad_right (v : list T) (k : Z) : list T := v ++ repeat n0 (Z.to_nat k).
Definition np_arange (k : Z) : list T := map (fun i => nofZ (Z.of_nat i)) (seq 0 (Z.to_nat k)).
Definition bc_row_col (f : T -> T -> T) (r c : list T) : list (list T) := map (fun y => map (fun x => f x y) r) c.
Definition bc_mat_col (f : T -> T -> T) (m : list (list T)) (c : list T) : list (list T) :=
  map2 (fun row y => map (fun x => f x y) row) m c.
Definition bc_mat_row (f : T -> T -> T) (m : list (list T)) (v : list T) : list (list T) :=
  map (fun row => map2 f row v) m.
Definition mmap (f : T -> T) (m : list (list T)) : list (list T) := map (map f) m.
Definition mmap2 (f : T -> T -> T) (a b : list (list T)) : list (list T) := map2 (map2 f) a b.
Definition np_interp_arange0 (v : list T) (x : T) : T :=
  if x <? n0 then n0
  else
    let k := Z.to_nat (nfloor x) in
    let fr := x - nofZ (Z.of_nat k) in
    if (S k <? length v)%nat then (nth (S k) v n0 - nth k v n0) * fr + nth k v n0
    else if fr =? n0 then nth k v n0
    else n0.
End Generic.
