(** Python-level readings used by the generated C07 functions (gen/Gen_c07.v, written by translator/py2coq_c07.py):
    what a call returns or raises, the builtin [max] of an array, and (documentation) the 2-d NumPy statements read column
    by column.  Definitions only; the lemmas are in proofs/P_gen_c07.v.

      v[0], v[-1], np.where(..)[0][0] / [-1]   -> [py_first] / [py_last] (lib/PyVal.v); [None] = IndexError
      max(v)  (the builtin, on a 1-d array)      -> [py_max v]; [None] = ValueError (empty array), otherwise the running
                                                   maximum `if item > best: best = item` = [amax] (lib/NpList.v)
      v[k], np.take(v, (i, j)) with int indices  -> [nth_error v k]; [None] = IndexError (the indices produced by np.where are
                                                   never negative)

    A matrix of shape (n_freq, n_target) is the list of its COLUMNS (one per target frequency [fc]):
      a[:, np.newaxis] (op) b[np.newaxis, :]     -> column of fc = [map (fun x => x op fc) a], one column per fc of b
      entry-wise f(M), s * M, M ** k, M1 / M2,
        np.where(M == 0, 1, M2)                  -> the same entry-wise expression inside the [map] of every column
      np.sum(M, axis=0)                          -> [nsum] of every column (a 1-d array over the targets)
      M /= np.sum(M, axis=0)                     -> every column divided by its own sum
      a[:, np.newaxis] * M                       -> [vmul a column] for every column (NumPy needs len(a) = n_freq, or a length-1
                                                   axis that it stretches: the generated [.._shapes] predicate states the equal
                                                   lengths under which [vmul] is what NumPy computes)
      np.dot(a, M)                               -> [nsum (vmul a column)] for every column (NumPy needs len(a) = n_freq) *)
From Coq Require Import ZArith List.
From EQ Require Import lib.Num lib.NpList.
Import ListNotations.

Inductive pyexc : Type := IndexError | ValueError.

(** what a call returns: a value, or an exception that nothing caught *)
Inductive pyres (A : Type) : Type :=
| PyOk (x : A)
| PyRaise (e : pyexc).
Arguments PyOk {A} x.
Arguments PyRaise {A} e.

(** forget which exception: [None] = the call raises *)
Definition res_value {A} (r : pyres A) : option A := match r with PyOk x => Some x | PyRaise _ => None end.

Section Generic.
Context {T : Type} `{NumOps T}.
Definition py_max (l : list T) : option T := match l with [] => None | _ :: _ => Some (amax l) end.
End Generic.
