(** Python-level readings used by the generated loader functions (gen/Gen_c16.v, written by translator/py2coq_c16.py).
    Definitions only; the lemmas are in proofs/P_gen_c16.v.

      a float that is formatted     -> [fl] = (sign bit, exact value); the sign bit only matters for the float -0.0
      "%.df" % x                    -> [fmt_f d x] = [fmt_fixed_sb (fst x) d (snd x)]  (lib/DecFmt.v)
      "%i" % len(v)                 -> [dec_int (Z.of_nat (length v))]                  (lib/DecFmt.v)
      sep.join(list of str)         -> [str_join sep l]
      v[k] with a literal k >= 0    -> [nth_error v k]; [None] = IndexError
      v[i] inside `for i in range(len(v))`  -> [nth i v fl0] (the index is in range by the loop bounds)
      l.append(x) in such a loop    -> [fold_left (fun acc i => acc ++ [x]) (seq 0 (length v)) l]
      np.genfromtxt(...)            -> an oracle returning [gft_res]: the data, or TypeError (the only exception the source
                                       catches), or any other exception
      try: A  except TypeError: B   -> [try_TypeError A B]
      Signal(...) / AccSignal(...)  -> [pyobj]: the class name and the constructor arguments values, dt, label
      the `signal` argument of save_signal -> [sigobj]: its attributes .values, .dt, .label *)
From Coq Require Import ZArith QArith List Bool Ascii String.
From EQ Require Import lib.DecFmt.
Import ListNotations.

Definition fl : Type := (bool * Q)%type.
Definition fl0 : fl := (false, 0%Q).
Definition fmt_f (d : nat) (x : fl) : text := fmt_fixed_sb (fst x) d (snd x).

Fixpoint str_join (sep : text) (ls : list text) : text :=
  match ls with
  | [] => []
  | [l] => l
  | l :: r => l ++ sep ++ str_join sep r
  end.

Inductive gft_res : Type := GftOk (data : list Q) | GftTypeError | GftRaise.
Definition try_TypeError (a b : gft_res) : gft_res := match a with GftTypeError => b | _ => a end.
(** forget which exception: [None] = the statement raises *)
Definition gft_value (r : gft_res) : option (list Q) := match r with GftOk d => Some d | _ => None end.

Record sigobj : Type := { s_values : list fl; s_dt : fl; s_label : text }.
Record pyobj : Type := { o_class : text; o_values : list Q; o_dt : Q; o_label : text }.
