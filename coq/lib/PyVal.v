(** Python-level readings used by the generated duration functions (gen/Gen_durations.v, property C10):
    partial indexing of a 1-d array ([l[0]], [l[-1]] raise IndexError on an empty array), the shapes a duration function can
    return, and [np.arange(n)] as a float series.  Definitions only; the lemmas are in proofs/P_gen_durations.v. *)
From Coq Require Import ZArith List.
From EQ Require Import lib.Num.
Import ListNotations.

(** [l[0]] and [l[-1]]; [None] = IndexError *)
Definition py_first {A} (l : list A) : option A := match l with [] => None | x :: _ => Some x end.
Definition py_last {A} (l : list A) : option A := match l with [] => None | x :: r => Some (last r x) end.

(** what a call returns: [return x] | [return x, y] | [return None, None] | an IndexError that nothing caught *)
Inductive pyval (T : Type) : Type :=
| PyScalar (x : T)
| PyPair (x y : T)
| PyNonePair
| PyIndexError.
Arguments PyScalar {T} x.
Arguments PyPair {T} x y.
Arguments PyNonePair {T}.
Arguments PyIndexError {T}.

Section Generic.
Context {T : Type} `{NumOps T}.
(** an integer index used as a number ([ind[0] * dt]) *)
Definition of_idx (i : nat) : T := nofZ (Z.of_nat i).
(** np.arange(n) (used only as a factor of a float: [np.arange(n) * dt]) *)
Definition arange (n : nat) : list T := map of_idx (seq 0 n).
End Generic.
