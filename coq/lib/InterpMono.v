(** Piecewise-linear interpolation on the integer grid ([interp_grid] of model/M_im.v = np.interp(t, arange(S), fp)):
    floor at R, a closed form through clamped nodes, monotonicity in [t] for a non-decreasing node list,
    values at integer abscissae, bounds by the first/last node.  All lemmas at T := R, for every real [t]. *)
From Coq Require Import ZArith Reals List Bool Lra Lia.
From EQ Require Import lib.Num lib.NpList lib.Quad model.M_im.
Import ListNotations.
Local Open Scope R_scope.

(** ** floor at R ([nfloor x = up x - 1]) *)
Lemma Rfloor_spec (t : R) : IZR (nfloor t) <= t < IZR (nfloor t) + 1.
Proof. numR. rewrite minus_IZR. destruct (archimed t). lra. Qed.
Lemma Rfloor_unique (t : R) z : IZR z <= t < IZR z + 1 -> nfloor t = z.
Proof.
  intros Hz. pose proof (Rfloor_spec t) as Hf.
  assert (nfloor t < z + 1)%Z by (apply lt_IZR; rewrite plus_IZR; lra).
  assert (z < nfloor t + 1)%Z by (apply lt_IZR; rewrite plus_IZR; lra). lia.
Qed.
Lemma Rfloor_mono (t1 t2 : R) : t1 <= t2 -> (nfloor t1 <= nfloor t2)%Z.
Proof.
  intros Ht. pose proof (Rfloor_spec t1). pose proof (Rfloor_spec t2).
  assert (nfloor t1 < nfloor t2 + 1)%Z by (apply lt_IZR; rewrite plus_IZR; lra). lia.
Qed.
Lemma Rfloor_nonneg (t : R) : 0 <= t -> (0 <= nfloor t)%Z.
Proof.
  intros Ht. pose proof (Rfloor_spec t).
  assert (-1 < nfloor t)%Z by (apply lt_IZR; lra). lia.
Qed.
Lemma Rfloor_nat (t : R) : 0 <= t -> IZR (Z.of_nat (Z.to_nat (nfloor t))) = IZR (nfloor t).
Proof. intros Ht. rewrite Z2Nat.id; [reflexivity|]. now apply Rfloor_nonneg. Qed.
Lemma Rfloor_of_nat (k : nat) : Z.to_nat (nfloor (IZR (Z.of_nat k))) = k.
Proof. rewrite (Rfloor_unique _ (Z.of_nat k)) by lra. apply Nat2Z.id. Qed.

(** ** clamped node: fp[min k (len-1)] *)
Definition cnode (fp : list R) (k : nat) : R := nth (Nat.min k (length fp - 1)) fp 0.

Lemma last_nth_R (fp : list R) : last fp 0 = nth (length fp - 1) fp 0.
Proof.
  induction fp as [|x r IH]; [reflexivity|]. destruct r as [|y r]; [reflexivity|].
  rewrite last_cons_ne by discriminate. rewrite IH.
  replace (length (x :: y :: r) - 1)%nat with (S (length (y :: r) - 1)) by (cbn [length]; lia). reflexivity.
Qed.
Lemma cnode_nil k : cnode [] k = 0.
Proof. unfold cnode. cbn. destruct (Nat.min k 0); reflexivity. Qed.
Lemma cnode_lt fp k : (k < length fp)%nat -> cnode fp k = nth k fp 0.
Proof. intros Hk. unfold cnode. f_equal. lia. Qed.
Lemma cnode_ge fp k : (length fp - 1 <= k)%nat -> cnode fp k = last fp 0.
Proof. intros Hk. unfold cnode. rewrite last_nth_R. f_equal. lia. Qed.
Lemma cnode_0 fp : cnode fp 0 = nth 0 fp 0.
Proof. reflexivity. Qed.
Lemma cnode_mono fp k1 k2 : nondecreasing fp -> (k1 <= k2)%nat -> cnode fp k1 <= cnode fp k2.
Proof.
  intros Hnd Hk. destruct fp as [|f0 r]; [rewrite !cnode_nil; lra|].
  unfold cnode. apply Hnd. cbn [length]. lia.
Qed.
Lemma cnode_le_last fp k : nondecreasing fp -> cnode fp k <= last fp 0.
Proof.
  intros Hnd. rewrite <- (cnode_ge fp (Nat.max k (length fp))) by lia. apply cnode_mono; auto. lia.
Qed.

(** ** closed form of [interp_grid] *)
Lemma interp_grid_le0 (fp : list R) t : t <= 0 -> interp_grid fp t = nth 0 fp 0.
Proof.
  intros Ht. destruct fp as [|f0 r]; [reflexivity|]. unfold interp_grid. numR.
  replace (Rleb t 0) with true by (symmetry; now apply Rleb_true). reflexivity.
Qed.
Lemma interp_grid_char (fp : list R) t : fp <> [] -> 0 < t ->
  let k := Z.to_nat (nfloor t) in
  interp_grid fp t = (cnode fp (S k) - cnode fp k) * (t - IZR (Z.of_nat k)) + cnode fp k.
Proof.
  intros Hne Ht k. destruct fp as [|f0 r]; [congruence|]. unfold interp_grid.
  replace (nleb t n0) with false by (symmetry; numR; apply Rleb_false; lra).
  fold k. destruct (Nat.leb_spec (length (f0 :: r)) (S k)) as [Hl|Hl].
  - rewrite !cnode_ge by lia. numR. lra.
  - rewrite !cnode_lt by lia. numR. reflexivity.
Qed.
Lemma interp_grid_nil t : interp_grid (@nil R) t = 0.
Proof. reflexivity. Qed.

(** the fractional part used by the closed form *)
Lemma frac_bounds t : 0 < t -> 0 <= t - IZR (Z.of_nat (Z.to_nat (nfloor t))) < 1.
Proof. intros Ht. rewrite Rfloor_nat by lra. pose proof (Rfloor_spec t). lra. Qed.

Lemma interp_grid_bounds (fp : list R) t : nondecreasing fp -> fp <> [] -> 0 < t ->
  cnode fp (Z.to_nat (nfloor t)) <= interp_grid fp t <= cnode fp (S (Z.to_nat (nfloor t))).
Proof.
  intros Hnd Hne Ht. rewrite interp_grid_char by auto. cbv zeta.
  pose proof (frac_bounds t Ht) as Hf.
  pose proof (cnode_mono fp (Z.to_nat (nfloor t)) (S (Z.to_nat (nfloor t))) Hnd ltac:(lia)) as Hc.
  split; nra.
Qed.

(** ** monotone in [t] when the nodes are non-decreasing *)
Theorem interp_grid_mono (fp : list R) t1 t2 : nondecreasing fp -> t1 <= t2 -> interp_grid fp t1 <= interp_grid fp t2.
Proof.
  intros Hnd Ht. destruct fp as [|f0 r] eqn:E; [rewrite !interp_grid_nil; lra|]. rewrite <- E in *.
  assert (Hne : fp <> []) by (subst; discriminate).
  destruct (Rle_lt_dec t2 0) as [H2|H2].
  - rewrite !interp_grid_le0 by lra. lra.
  - destruct (Rle_lt_dec t1 0) as [H1|H1].
    + rewrite (interp_grid_le0 fp t1) by lra. rewrite <- cnode_0.
      destruct (interp_grid_bounds fp t2 Hnd Hne H2) as [Hlo _].
      eapply Rle_trans; [|exact Hlo]. apply cnode_mono; auto. lia.
    + pose proof (Rfloor_mono t1 t2 Ht) as Hk. pose proof (Rfloor_nonneg t1 ltac:(lra)) as Hk0.
      set (k1 := Z.to_nat (nfloor t1)). set (k2 := Z.to_nat (nfloor t2)).
      assert (Hk12 : (k1 <= k2)%nat) by (unfold k1, k2; lia).
      destruct (Nat.eq_dec k1 k2) as [Heq|Hneq].
      * rewrite !interp_grid_char by auto. cbv zeta. fold k1 k2. rewrite <- Heq.
        pose proof (cnode_mono fp k1 (S k1) Hnd ltac:(lia)). nra.
      * destruct (interp_grid_bounds fp t1 Hnd Hne H1) as [_ Hhi].
        destruct (interp_grid_bounds fp t2 Hnd Hne H2) as [Hlo _]. fold k1 in Hhi. fold k2 in Hlo.
        pose proof (cnode_mono fp (S k1) k2 Hnd ltac:(lia)). lra.
Qed.

Lemma interp_grid_ge_first (fp : list R) t : nondecreasing fp -> nth 0 fp 0 <= interp_grid fp t.
Proof.
  intros Hnd. destruct (Rle_lt_dec t 0) as [Ht|Ht]; [rewrite interp_grid_le0 by auto; lra|].
  destruct fp as [|f0 r] eqn:E; [rewrite interp_grid_nil; cbn; lra|]. rewrite <- E in *.
  assert (Hne : fp <> []) by (subst; discriminate).
  destruct (interp_grid_bounds fp t Hnd Hne Ht) as [Hlo _]. rewrite <- cnode_0.
  eapply Rle_trans; [|exact Hlo]. apply cnode_mono; auto. lia.
Qed.
Lemma interp_grid_le_last (fp : list R) t : nondecreasing fp -> interp_grid fp t <= last fp 0.
Proof.
  intros Hnd. destruct fp as [|f0 r] eqn:E; [rewrite interp_grid_nil; cbn; lra|]. rewrite <- E in *.
  assert (Hne : fp <> []) by (subst; discriminate).
  destruct (Rle_lt_dec t 0) as [Ht|Ht].
  - rewrite interp_grid_le0 by auto. rewrite <- cnode_0. now apply cnode_le_last.
  - destruct (interp_grid_bounds fp t Hnd Hne Ht) as [_ Hhi]. eapply Rle_trans; [exact Hhi|]. now apply cnode_le_last.
Qed.

(** ** value at abscissa k + f, 0 <= f < 1 (in particular at the integers) *)
Lemma interp_grid_at (fp : list R) (k : nat) f : 0 <= f < 1 ->
  interp_grid fp (IZR (Z.of_nat k) + f) = (cnode fp (S k) - cnode fp k) * f + cnode fp k.
Proof.
  intros Hf. destruct fp as [|f0 r] eqn:E; [rewrite interp_grid_nil, !cnode_nil; lra|]. rewrite <- E in *.
  assert (Hne : fp <> []) by (subst; discriminate).
  assert (Hk0 : 0 <= IZR (Z.of_nat k)) by (apply IZR_le; lia).
  destruct (Rle_lt_dec (IZR (Z.of_nat k) + f) 0) as [Ht|Ht].
  - assert (Hk : k = 0%nat). { destruct k; [reflexivity|]. exfalso.
      assert (1 <= IZR (Z.of_nat (S k))) by (apply IZR_le; lia). lra. }
    subst k. rewrite interp_grid_le0 by auto. cbn in Ht. replace f with 0 by lra. rewrite cnode_0. lra.
  - rewrite interp_grid_char by auto. cbv zeta.
    assert (Hfl : Z.to_nat (nfloor (IZR (Z.of_nat k) + f)) = k).
    { rewrite (Rfloor_unique _ (Z.of_nat k)) by lra. apply Nat2Z.id. }
    rewrite Hfl. lra.
Qed.
Lemma interp_grid_at_nat (fp : list R) (k : nat) : interp_grid fp (IZR (Z.of_nat k)) = cnode fp k.
Proof. replace (IZR (Z.of_nat k)) with (IZR (Z.of_nat k) + 0) by lra. rewrite interp_grid_at by lra. lra. Qed.

(** ** list level *)
Lemma nondecreasing_map (f : R -> R) (ts : list R) :
  (forall x y, x <= y -> f x <= f y) -> nondecreasing ts -> nondecreasing (map f ts).
Proof.
  intros Hf Hts i j Hij. rewrite map_length in Hij. rewrite !nth_map_in with (d' := 0) by lia. apply Hf, Hts. lia.
Qed.
Lemma nondecreasing_repeat c n : nondecreasing (repeat c n).
Proof.
  intros i j Hij. rewrite repeat_length in Hij.
  assert (Hn : forall i, (i < n)%nat -> nth i (repeat c n) 0 = c).
  { clear. induction n as [|n IH]; intros i Hi; [lia|]. destruct i; cbn; [reflexivity|]. apply IH. lia. }
  rewrite !Hn by lia. lra.
Qed.
Lemma interp_grid_zeros n t : interp_grid (repeat 0 n) t = 0.
Proof.
  pose proof (interp_grid_ge_first (repeat 0 n) t (nondecreasing_repeat 0 n)) as Hlo.
  pose proof (interp_grid_le_last (repeat 0 n) t (nondecreasing_repeat 0 n)) as Hhi.
  assert (H0 : nth 0 (repeat 0 n) 0 = 0) by (destruct n; reflexivity).
  assert (Hl : last (repeat 0 n) 0 = 0).
  { clear. induction n as [|n IH]; [reflexivity|]. destruct n; [reflexivity|].
    cbn [repeat] in *. rewrite last_cons_ne by discriminate. exact IH. }
  lra.
Qed.
