(** Proofs for C17 (butter_pass glue, detrending, adds, running average) at T := R. *)
From Coq Require Import ZArith Reals List Bool Lra Lia.
From EQ Require Import lib.Num lib.NpList lib.Quad model.M_signalops proofs.P_C08.
Import ListNotations.
Local Open Scope R_scope.

(** * small list facts *)
Lemma firstn_min_length {A} (l : list A) k : firstn (Nat.min (length l) k) l = firstn k l.
Proof.
  destruct (Nat.le_ge_cases k (length l)) as [Hk|Hk].
  - now rewrite Nat.min_r by lia.
  - rewrite Nat.min_l by lia. now rewrite !firstn_all2 by lia.
Qed.
Lemma slice_length {A} s f (l : list A) : length (slice s f l) = Nat.min (f - s) (length l - s).
Proof. unfold slice. now rewrite firstn_length, skipn_length. Qed.
Lemma nth_firstn_lt {A} k (l : list A) t d : (t < k)%nat -> nth t (firstn k l) d = nth t l d.
Proof.
  revert l t; induction k as [|k IH]; intros l t Ht; [lia|].
  destruct l as [|a r]; [reflexivity|]. destruct t; [reflexivity|]. cbn. apply IH. lia.
Qed.
Lemma nth_skipn_add {A} s (l : list A) t d : nth t (skipn s l) d = nth (s + t) l d.
Proof.
  revert l; induction s as [|s IH]; intros l; [reflexivity|].
  destruct l as [|a r]; [cbn; now destruct t|]. cbn. apply IH.
Qed.
Lemma slice_nth {A} s f (l : list A) d t : (t < f - s)%nat -> nth t (slice s f l) d = nth (s + t) l d.
Proof. intros Ht. unfold slice. rewrite nth_firstn_lt by auto. apply nth_skipn_add. Qed.
Lemma slice_clamp {A} s f (l : list A) : slice s (Nat.min (length l) f) l = slice s f l.
Proof.
  unfold slice. rewrite <- (firstn_min_length (skipn s l) (f - s)). f_equal. rewrite skipn_length. lia.
Qed.
Lemma slice_full {A} (l : list A) : slice 0 (length l) l = l.
Proof. unfold slice. cbn [skipn]. rewrite Nat.sub_0_r. apply firstn_all. Qed.
Lemma slice_app_mid {A} (p x q : list A) : slice (length p) (length p + length x) (p ++ x ++ q) = x.
Proof.
  unfold slice. rewrite skipn_app, skipn_all, Nat.sub_diag. cbn [app skipn].
  replace (length p + length x - length p)%nat with (length x + 0)%nat by lia.
  rewrite firstn_app_2. cbn. apply app_nil_r.
Qed.

(** * running average *)
Lemma running_average_length w (x : list R) : length (running_average w x) = length x.
Proof. unfold running_average. now rewrite map_length, seq_length. Qed.
(** the coded three-branch loop computes the statement's window mean at every index *)
Lemma running_average_at_window w (x : list R) i : (i < length x)%nat -> running_average_at w x i = window_mean w x i.
Proof.
  intros Hi. unfold running_average_at, window_mean. rewrite slice_clamp. set (h := (w / 2)%nat). set (n := length x).
  assert (Hh : (2 * h <= w < 2 * h + 2)%nat).
  { unfold h. pose proof (Nat.div_mod w 2 ltac:(lia)). pose proof (Nat.mod_upper_bound w 2 ltac:(lia)). lia. }
  destruct (2 * i <? w)%nat eqn:E1.
  - apply Nat.ltb_lt in E1. replace (i - h)%nat with 0%nat by lia.
    unfold slice. cbn [skipn]. now rewrite Nat.sub_0_r.
  - apply Nat.ltb_ge in E1. destruct (2 * n <? 2 * i + w)%nat eqn:E2; [|reflexivity].
    apply Nat.ltb_lt in E2. unfold slice. f_equal. symmetry. apply firstn_all2. rewrite skipn_length. fold n. lia.
Qed.
Lemma running_average_spec w (x : list R) i : (i < length x)%nat ->
  nth i (running_average w x) 0 = window_mean w x i.
Proof.
  intros Hi. unfold running_average.
  rewrite nth_map_in with (d' := 0%nat) by (now rewrite seq_length).
  rewrite seq_nth by auto. cbn [Nat.add]. now apply running_average_at_window.
Qed.
(** the window: positions j with i - h <= j <= i + h inside the record, in order *)
Lemma window_content {A} w (x : list A) i d : (i < length x)%nat ->
  let h := (w / 2)%nat in let win := slice (i - h) (Nat.min (length x) (i + h + 1)) x in
  length win = (Nat.min (length x) (i + h + 1) - (i - h))%nat /\
  forall t, (t < length win)%nat -> nth t win d = nth (i - h + t) x d.
Proof.
  intros Hi h win. assert (Hl : length win = (Nat.min (length x) (i + h + 1) - (i - h))%nat).
  { unfold win. rewrite slice_length. lia. }
  split; [exact Hl|]. intros t Ht. unfold win. apply slice_nth. lia.
Qed.
Lemma mean_const c (l : list R) : l <> [] -> (forall v, In v l -> v = c) -> mean l = c.
Proof.
  intros Hne Hc. unfold mean. numR.
  assert (E : nsum l = INR (length l) * c).
  { clear Hne. induction l as [|a r IH]; [rewrite nsum_nil; cbn; lra|].
    cbn [length]. rewrite S_INR, nsum_cons, IH by (intros v Hv; apply Hc; now right). rewrite (Hc a) by now left. lra. }
  rewrite E, <- INR_IZR_INZ. field. apply not_0_INR. destruct l; [congruence|discriminate].
Qed.

(** * adds *)
Lemma add_constant_spec c (s : @signal R) :
  s_dt (add_constant c s) = s_dt s /\ length (s_vals (add_constant c s)) = length (s_vals s) /\
  forall i, (i < length (s_vals s))%nat -> nth i (s_vals (add_constant c s)) 0 = nth i (s_vals s) 0 + c.
Proof.
  unfold add_constant; cbn [s_dt s_vals]. rewrite map_length. repeat split; auto.
  intros i Hi. rewrite nth_map_in with (d' := 0) by auto. reflexivity.
Qed.
Lemma add_series_ok series (s : @signal R) : length series = length (s_vals s) ->
  exists s', add_series series s = inr s' /\ s_dt s' = s_dt s /\ length (s_vals s') = length (s_vals s) /\
  forall i, (i < length (s_vals s))%nat -> nth i (s_vals s') 0 = nth i (s_vals s) 0 + nth i series 0.
Proof.
  intros Hl. unfold add_series. rewrite (proj2 (Nat.eqb_eq _ _) Hl). eexists; split; [reflexivity|].
  cbn [s_dt s_vals]. unfold vadd. rewrite map2_length. repeat split; [lia|].
  intros i Hi. rewrite map2_nth with (da := 0) (db := 0) by lia. reflexivity.
Qed.
Lemma add_series_rejects series (s : @signal R) : length series <> length (s_vals s) <-> add_series series s = inl ErrSeriesLen.
Proof.
  unfold add_series. destruct (Nat.eqb_spec (length series) (length (s_vals s))); split; intros; try congruence; try discriminate; auto.
Qed.
Lemma add_signal_cases (other : option (@signal R)) (s : @signal R) :
  match other with
  | None => add_signal other s = inl ErrNotSignal
  | Some o =>
      (s_dt o <> s_dt s -> add_signal other s = inl ErrDt) /\
      (s_dt o = s_dt s -> add_signal other s = add_series (s_vals o) s)
  end.
Proof.
  destruct other as [o|]; [|reflexivity]. unfold add_signal. numR. split; intros Hd.
  - apply Reqb_false in Hd. now rewrite Hd.
  - apply Reqb_true in Hd. now rewrite Hd.
Qed.
Lemma add_signal_ok_iff (other : option (@signal R)) (s : @signal R) :
  (exists s', add_signal other s = inr s') <->
  exists o, other = Some o /\ s_dt o = s_dt s /\ length (s_vals o) = length (s_vals s).
Proof.
  pose proof (add_signal_cases other s) as Hc. destruct other as [o|].
  - destruct Hc as [Hne Heq]. split.
    + intros [s' Hs']. exists o. split; [reflexivity|].
      destruct (Req_EM_T (s_dt o) (s_dt s)) as [E|E]; [|rewrite (Hne E) in Hs'; discriminate].
      split; [exact E|]. rewrite (Heq E) in Hs'.
      destruct (Nat.eq_dec (length (s_vals o)) (length (s_vals s))) as [L|L]; [exact L|].
      apply add_series_rejects in L. rewrite L in Hs'. discriminate.
    + intros (o' & [= <-] & E & L). rewrite (Heq E). destruct (add_series_ok _ _ L) as (s' & Hs' & _). eauto.
  - split; [intros [s' Hs']; rewrite Hc in Hs'; discriminate | intros (o & [=] & _)].
Qed.

(** * butter_pass glue *)
Lemma gibbs_new_len_ge n extra : (n <= gibbs_new_len n extra)%nat.
Proof.
  unfold gibbs_new_len. apply Nat2Z.inj_le. rewrite Z2Nat.id by (apply Z.pow_nonneg; lia).
  set (a := Z.of_nat n). assert (Ha : (0 <= a)%Z) by (unfold a; lia).
  apply Z.le_trans with (2 ^ Z.log2_up a)%Z.
  - destruct (Z.le_gt_cases a 1) as [H1|H1].
    + rewrite Z.log2_up_eqn0 by auto. cbn. lia.
    + apply (Z.log2_up_spec a H1).
  - apply Z.pow_le_mono_r; [lia|]. pose proof (Z.log2_up_nonneg a). lia.
Qed.
Lemma gibbs_new_len_pow2 n extra : exists k, gibbs_new_len n extra = (2 ^ k)%nat.
Proof.
  exists (Z.to_nat (Z.log2_up (Z.of_nat n) + Z.of_nat extra)). unfold gibbs_new_len.
  pose proof (Z.log2_up_nonneg (Z.of_nat n)).
  set (e := (Z.log2_up (Z.of_nat n) + Z.of_nat extra)%Z). assert (0 <= e)%Z by (unfold e; lia).
  apply Nat2Z.inj. rewrite Z2Nat.id by (apply Z.pow_nonneg; lia).
  rewrite Nat2Z.inj_pow. rewrite Z2Nat.id by auto. reflexivity.
Qed.
Lemma gibbs_layout_ok n extra g :
  let '(nl, s, f) := gibbs_layout n extra g in (f = s + n /\ f <= nl /\ (g <> GNone -> nl = gibbs_new_len n extra) /\ (g = GNone -> nl = n))%nat.
Proof.
  pose proof (gibbs_new_len_ge n extra) as Hge. destruct g; cbn [gibbs_layout].
  - repeat split; auto; congruence.
  - repeat split; auto; congruence.
  - repeat split; auto; try congruence; lia.
  - assert ((gibbs_new_len n extra - n) / 2 <= gibbs_new_len n extra - n)%nat by (apply Nat.div_le_upper_bound; lia).
    repeat split; auto; try congruence; lia.
Qed.
Lemma gibbs_pad_length grange nl s f (x : list R) : (f = s + length x)%nat -> (f <= nl)%nat -> length (gibbs_pad grange nl s f x) = nl.
Proof. intros Hf Hn. unfold gibbs_pad. rewrite !app_length, !repeat_length. lia. Qed.
Lemma gibbs_pad_trim grange nl s f (x : list R) : (f = s + length x)%nat -> slice s f (gibbs_pad grange nl s f x) = x.
Proof.
  intros ->. unfold gibbs_pad. set (p := repeat _ s). replace s with (length p) by (unfold p; apply repeat_length).
  apply slice_app_mid.
Qed.

(** the record handed to scipy has length 2^k (or is the record itself), the trimmed slice is exactly where the
    record was placed; with a length-preserving FF the output has the input's length and time step *)
Lemma butter_pass_shape FF order cont cut g extra grange (s : @signal R) bt wn :
  butter_args cont cut (s_dt s) = inr (bt, wn) ->
  exists nl sl fl padded,
    gibbs_layout (length (s_vals s)) extra g = (nl, sl, fl) /\
    butter_pass_scipy_args order cont cut g extra grange s = inr (order, bt, wn, padded) /\
    length padded = nl /\ slice sl fl padded = s_vals s /\
    butter_pass FF order cont cut g extra grange s = inr {| s_dt := s_dt s; s_vals := slice sl fl (FF order bt wn padded) |}.
Proof.
  intros Ha. unfold butter_pass, butter_pass_scipy_args. rewrite Ha.
  pose proof (gibbs_layout_ok (length (s_vals s)) extra g) as Hl.
  destruct (gibbs_layout (length (s_vals s)) extra g) as [[nl sl] fl]. destruct Hl as (Hf & Hn & Hg & Hg0).
  exists nl, sl, fl. eexists. split; [reflexivity|]. split; [reflexivity|].
  destruct g.
  - rewrite (Hg0 eq_refl). cbn [gibbs_layout] in *. split; [reflexivity|]. split; [|reflexivity].
    assert (sl = 0%nat /\ fl = length (s_vals s)) as [-> ->].
    { clear - Hf Hn Hg0. specialize (Hg0 eq_refl). subst nl. lia. }
    apply slice_full.
  - split; [now apply gibbs_pad_length|]. split; [now apply gibbs_pad_trim | reflexivity].
  - split; [now apply gibbs_pad_length|]. split; [now apply gibbs_pad_trim | reflexivity].
  - split; [now apply gibbs_pad_length|]. split; [now apply gibbs_pad_trim | reflexivity].
Qed.
Definition FF_length (FF : nat -> btype -> list R -> list R -> list R) : Prop :=
  forall o bt wn x, length (FF o bt wn x) = length x.
Lemma butter_pass_length_dt FF order cont cut g extra grange (s s' : @signal R) : FF_length FF ->
  butter_pass FF order cont cut g extra grange s = inr s' ->
  length (s_vals s') = length (s_vals s) /\ s_dt s' = s_dt s.
Proof.
  intros HF Hb. destruct (butter_args cont cut (s_dt s)) as [e|[bt wn]] eqn:Ha.
  - unfold butter_pass in Hb. rewrite Ha in Hb. discriminate.
  - destruct (butter_pass_shape FF order cont cut g extra grange s bt wn Ha) as (nl & sl & fl & padded & Hlay & _ & Hlen & Hsl & Hbp).
    rewrite Hbp in Hb. injection Hb as <-. cbn [s_vals s_dt]. split; [|reflexivity].
    pose proof (gibbs_layout_ok (length (s_vals s)) extra g) as Hl. rewrite Hlay in Hl. destruct Hl as (Hf & Hn & _).
    rewrite slice_length, HF, Hlen. lia.
Qed.

(** filter type and normalised cut-offs *)
Lemma nyquist_R dt : dt <> 0 -> nyquist dt = / (2 * dt).
Proof. intros Hd. unfold nyquist. numR. field. auto. Qed.
Lemma butter_args_spec cont (cut : list (option R)) dt : dt <> 0 ->
  match cont, cut with
  | COther, _ => butter_args cont cut dt = inl ErrNotSeq
  | _, [Some lo; Some hi] => butter_args cont cut dt = inr (Band, [2 * lo * dt; 2 * hi * dt])
  | _, [None; Some hi] => butter_args cont cut dt = inr (Low, [2 * hi * dt])
  | _, [Some lo; None] => butter_args cont cut dt = inr (High, [2 * lo * dt])
  | _, [None; None] => True
  | _, _ => butter_args cont cut dt = inl ErrLen2
  end.
Proof.
  intros Hd. assert (E : forall c, (c / nyquist dt)%num = 2 * c * dt).
  { intros c. rewrite nyquist_R by auto. numR. field. auto. }
  destruct cont; try reflexivity;
  (destruct cut as [|[lo|] [|[hi|] [|? ?]]]; cbn [butter_args]; rewrite ?E; auto).
Qed.
Lemma butter_args_container_irrelevant c1 c2 (cut : list (option R)) dt : c1 <> COther -> c2 <> COther ->
  butter_args c1 cut dt = butter_args c2 cut dt.
Proof. destruct c1, c2; intros; try congruence; reflexivity. Qed.
Lemma butter_args_rejects cont (cut : list (option R)) dt :
  (cont = COther <-> butter_args cont cut dt = inl ErrNotSeq) /\
  (cont <> COther /\ length cut <> 2%nat <-> butter_args cont cut dt = inl ErrLen2).
Proof.
  split; split.
  - intros ->. reflexivity.
  - destruct cont; auto; destruct cut as [|[lo|] [|[hi|] [|? ?]]]; cbn; discriminate.
  - intros [Hc Hl]. destruct cont; try congruence; destruct cut as [|[lo|] [|[hi|] [|? ?]]]; cbn in *; auto; lia.
  - destruct cont; try discriminate; destruct cut as [|[lo|] [|[hi|] [|? ?]]]; cbn; intros; try discriminate; split; try discriminate; lia.
Qed.

(** * detrending: least-squares algebra on lists *)
Fixpoint bigsum (f : nat -> R) (n : nat) : R := match n with O => 0 | S k => bigsum f k + f k end.
Lemma bigsum_ext f g n : (forall j, (j < n)%nat -> f j = g j) -> bigsum f n = bigsum g n.
Proof. induction n as [|n IH]; intros Hfg; [reflexivity|]. cbn. rewrite IH, Hfg by (intros; auto). reflexivity. Qed.
Lemma bigsum_0 f n : (forall j, (j < n)%nat -> f j = 0) -> bigsum f n = 0.
Proof. induction n as [|n IH]; intros Hf; [reflexivity|]. cbn. rewrite IH, Hf by auto. lra. Qed.
Lemma bigsum_plus f g n : bigsum (fun j => f j + g j) n = bigsum f n + bigsum g n.
Proof. induction n as [|n IH]; cbn; [lra|]. rewrite IH. lra. Qed.
Lemma bigsum_scal k f n : bigsum (fun j => k * f j) n = k * bigsum f n.
Proof. induction n as [|n IH]; cbn; [lra|]. rewrite IH. lra. Qed.
Lemma bigsum_shift f n : bigsum f (S n) = f 0%nat + bigsum (fun j => f (S j)) n.
Proof. induction n as [|n IH]; [cbn; lra|]. cbn [bigsum] in *. rewrite IH. lra. Qed.

Lemma dot_nil_l (v : list R) : dot [] v = 0. Proof. reflexivity. Qed.
Lemma dot_nil_r (u : list R) : dot u [] = 0. Proof. destruct u; reflexivity. Qed.
Lemma dot_cons a b (u v : list R) : dot (a :: u) (b :: v) = a * b + dot u v.
Proof. unfold dot. cbn [map2]. now rewrite nsum_cons. Qed.
Lemma dot_comm (u v : list R) : dot u v = dot v u.
Proof. revert v; induction u as [|a u IH]; intros [|b v]; try reflexivity. rewrite !dot_cons, IH. lra. Qed.
Lemma dot_vsub_r (u a b : list R) : length a = length b -> dot u (vsub a b) = dot u a - dot u b.
Proof.
  revert a b; induction u as [|x u IH]; intros a b Hl; [rewrite !dot_nil_l; lra|].
  destruct a as [|p a], b as [|q b]; cbn in Hl; try lia; [cbn [vsub map2]; rewrite !dot_nil_r; lra|].
  cbn [vsub map2]. rewrite !dot_cons. fold (vsub a b). rewrite IH by lia. numR. lra.
Qed.
Lemma dot_vadd_r (u a b : list R) : length a = length b -> dot u (vadd a b) = dot u a + dot u b.
Proof.
  revert a b; induction u as [|x u IH]; intros a b Hl; [rewrite !dot_nil_l; lra|].
  destruct a as [|p a], b as [|q b]; cbn in Hl; try lia; [cbn [vadd map2]; rewrite !dot_nil_r; lra|].
  cbn [vadd map2]. rewrite !dot_cons. fold (vadd a b). rewrite IH by lia. numR. lra.
Qed.
Lemma dot_vsub_l (u a b : list R) : length a = length b -> dot (vsub a b) u = dot a u - dot b u.
Proof. intros. rewrite !(dot_comm _ u). now apply dot_vsub_r. Qed.
Lemma dot_vadd_l (u a b : list R) : length a = length b -> dot (vadd a b) u = dot a u + dot b u.
Proof. intros. rewrite !(dot_comm _ u). now apply dot_vadd_r. Qed.
Lemma dot_self_nonneg (z : list R) : 0 <= dot z z.
Proof. induction z as [|a z IH]; [rewrite dot_nil_l; lra|]. rewrite dot_cons. nra. Qed.
Lemma dot_self_zero (z : list R) : dot z z = 0 -> forall i, nth i z 0 = 0.
Proof.
  induction z as [|a z IH]; intros Hz i; [now destruct i|]. rewrite dot_cons in Hz.
  pose proof (dot_self_nonneg z). assert (a = 0) by nra. assert (dot z z = 0) by nra.
  destruct i; cbn; auto.
Qed.
Lemma dot_bigsum (u v : list R) m : length u = m -> length v = m -> dot u v = bigsum (fun j => nth j u 0 * nth j v 0) m.
Proof.
  revert v m; induction u as [|a u IH]; intros [|b v] m Hu Hv; cbn in Hu, Hv; subst m; try discriminate; [reflexivity|].
  rewrite dot_cons, bigsum_shift. cbn [nth]. f_equal. apply IH; lia.
Qed.

Definition rows_len (m : nat) (A : list (list R)) : Prop := forall r, In r A -> length r = m.
Lemma mv_length (A : list (list R)) c : length (mv A c) = length A.
Proof. unfold mv. apply map_length. Qed.
Lemma col_length j (A : list (list R)) : length (col j A) = length A.
Proof. unfold col. apply map_length. Qed.
(** (A c) . w = sum_j c_j (A_j . w) *)
Lemma dot_mv (A : list (list R)) c w m : rows_len m A -> length c = m ->
  dot (mv A c) w = bigsum (fun j => nth j c 0 * dot (col j A) w) m.
Proof.
  intros HA Hc. revert w. induction A as [|r A IH]; intros w.
  - cbn [mv map]. rewrite dot_nil_l. symmetry. apply bigsum_0. intros. cbn [col map]. rewrite dot_nil_l. lra.
  - destruct w as [|w0 w].
    + rewrite dot_nil_r. symmetry. apply bigsum_0. intros. rewrite dot_nil_r. lra.
    + cbn [mv map]. fold (mv A c). rewrite dot_cons.
      rewrite IH by (intros r' Hr'; apply HA; now right).
      rewrite (dot_bigsum r c m) by (auto; apply HA; now left).
      rewrite (Rmult_comm _ w0), <- (bigsum_scal w0), <- bigsum_plus. apply bigsum_ext. intros j Hj.
      cbn [col map]. fold (col j A). rewrite dot_cons. numR. lra.
Qed.

(** the normal equations A^T A c = A^T y, column by column *)
Definition normal_eqs (A : list (list R)) (y c : list R) (m : nat) : Prop :=
  forall j, (j < m)%nat -> dot (col j A) (mv A c) = dot (col j A) y.
Lemma normal_okb_sound A (y c : list R) m : normal_okb A y c m = true -> normal_eqs A y c m.
Proof.
  unfold normal_okb, normal_eqs. rewrite forallb_forall. intros Hb j Hj.
  specialize (Hb j). rewrite in_seq in Hb. specialize (Hb ltac:(lia)). numR. now apply Reqb_true in Hb.
Qed.

Lemma residual_orthogonal A (y c : list R) m : length y = length A -> normal_eqs A y c m ->
  forall j, (j < m)%nat -> dot (col j A) (vsub y (mv A c)) = 0.
Proof. intros Hy Hn j Hj. rewrite dot_vsub_r by (now rewrite mv_length). rewrite (Hn j Hj). lra. Qed.

(** if a combination z = A c1 - A c2 - A c3 of fitted vectors is orthogonal to every column, it vanishes *)
Lemma span_orth_zero A (c1 c2 c3 : list R) m : rows_len m A -> length c1 = m -> length c2 = m -> length c3 = m ->
  let z := vsub (vsub (mv A c1) (mv A c2)) (mv A c3) in
  (forall j, (j < m)%nat -> dot (col j A) z = 0) -> forall i, nth i z 0 = 0.
Proof.
  intros HA H1 H2 H3 z Hz. apply dot_self_zero.
  assert (Hd : forall c, length c = m -> dot (mv A c) z = 0).
  { intros c Hc. rewrite (dot_mv A c z m HA Hc). apply bigsum_0. intros j Hj. rewrite (Hz j Hj). lra. }
  unfold z at 1. rewrite dot_vsub_l by (unfold vsub; rewrite map2_length, !mv_length; lia).
  rewrite dot_vsub_l by (now rewrite !mv_length). rewrite !Hd by auto. lra.
Qed.
Lemma vsub_nth (a b : list R) i : length a = length b -> nth i (vsub a b) 0 = nth i a 0 - nth i b 0.
Proof.
  intros Hl. destruct (Nat.lt_ge_cases i (length a)) as [Hi|Hi].
  - unfold vsub. rewrite map2_nth with (da := 0) (db := 0) by lia. reflexivity.
  - rewrite !nth_overflow; try lia; [lra|]. unfold vsub. rewrite map2_length. lia.
Qed.
Lemma vadd_nth (a b : list R) i : length a = length b -> nth i (vadd a b) 0 = nth i a 0 + nth i b 0.
Proof.
  intros Hl. destruct (Nat.lt_ge_cases i (length a)) as [Hi|Hi].
  - unfold vadd. rewrite map2_nth with (da := 0) (db := 0) by lia. reflexivity.
  - rewrite !nth_overflow; try lia; [lra|]. unfold vadd. rewrite map2_length. lia.
Qed.
Lemma vsub_length (a b : list R) : length a = length b -> length (vsub a b) = length a.
Proof. intros. unfold vsub. rewrite map2_length. lia. Qed.
Lemma vadd_length (a b : list R) : length a = length b -> length (vadd a b) = length a.
Proof. intros. unfold vadd. rewrite map2_length. lia. Qed.
Lemma list_eq_nth (a b : list R) : length a = length b -> (forall i, nth i a 0 = nth i b 0) -> a = b.
Proof. intros Hl Hn. apply (nth_ext a b 0 0); auto. Qed.

(** adding A d to the data does not change the residual, whatever solutions of the normal equations are used *)
Lemma residual_absorbs A (y c c' d : list R) m : rows_len m A -> length y = length A ->
  length c = m -> length c' = m -> length d = m ->
  normal_eqs A y c m -> normal_eqs A (vadd y (mv A d)) c' m ->
  vsub (vadd y (mv A d)) (mv A c') = vsub y (mv A c).
Proof.
  intros HA Hy Hc Hc' Hd Hn Hn'.
  assert (Hz : forall i, nth i (vsub (vsub (mv A c') (mv A c)) (mv A d)) 0 = 0).
  { apply (span_orth_zero A c' c d m); auto. intros j Hj.
    rewrite dot_vsub_r by (rewrite vsub_length; now rewrite !mv_length).
    rewrite dot_vsub_r by (now rewrite !mv_length).
    rewrite (Hn' j Hj), (Hn j Hj), dot_vadd_r by (now rewrite mv_length). lra. }
  apply list_eq_nth.
  - rewrite !vsub_length; rewrite ?vadd_length; rewrite ?mv_length; auto.
  - intros i. specialize (Hz i).
    rewrite vsub_nth in Hz by (rewrite vsub_length; now rewrite !mv_length).
    rewrite vsub_nth in Hz by (now rewrite !mv_length).
    rewrite vsub_nth by (rewrite vadd_length; now rewrite ?mv_length).
    rewrite vadd_nth by (now rewrite mv_length). rewrite vsub_nth by (now rewrite mv_length). lra.
Qed.
Lemma vsub_vadd_cancel (y p : list R) : length y = length p -> vadd (vsub y p) p = y.
Proof.
  intros Hl. apply list_eq_nth; [rewrite vadd_length; rewrite vsub_length; auto|].
  intros i. rewrite vadd_nth by (now rewrite vsub_length). rewrite vsub_nth by auto. lra.
Qed.
(** idempotence: detrending the residual again (with any solution of its normal equations) returns it unchanged *)
Lemma residual_idempotent A (y c c' : list R) m : rows_len m A -> length y = length A ->
  length c = m -> length c' = m ->
  normal_eqs A y c m -> normal_eqs A (vsub y (mv A c)) c' m ->
  vsub (vsub y (mv A c)) (mv A c') = vsub y (mv A c).
Proof.
  intros HA Hy Hc Hc' Hn Hn'. set (r := vsub y (mv A c)).
  assert (Hr : length r = length A) by (unfold r; rewrite vsub_length; now rewrite ?mv_length).
  assert (E : vadd r (mv A c) = y) by (unfold r; apply vsub_vadd_cancel; now rewrite mv_length).
  assert (Hn2 : normal_eqs A (vadd r (mv A c)) c m) by now rewrite E.
  pose proof (residual_absorbs A r c' c c m HA Hr Hc' Hc Hc Hn' Hn2) as Hab. rewrite E in Hab. symmetry. exact Hab.
Qed.
(** the residual has the smallest sum of squares among all y - A d: "best fit" *)
Lemma residual_least_squares A (y c d : list R) m : rows_len m A -> length y = length A ->
  length c = m -> length d = m -> normal_eqs A y c m ->
  dot (vsub y (mv A c)) (vsub y (mv A c)) <= dot (vsub y (mv A d)) (vsub y (mv A d)).
Proof.
  intros HA Hy Hc Hd Hn. set (r := vsub y (mv A c)). set (u := vsub (mv A c) (mv A d)).
  assert (Hr : length r = length A) by (unfold r; rewrite vsub_length; now rewrite ?mv_length).
  assert (Hu : length u = length A) by (unfold u; rewrite vsub_length; now rewrite ?mv_length).
  assert (E : vsub y (mv A d) = vadd r u).
  { apply list_eq_nth; [rewrite vsub_length, vadd_length; rewrite ?mv_length; lia|].
    intros i. rewrite vadd_nth by lia. unfold r, u. rewrite !vsub_nth by (now rewrite ?mv_length). lra. }
  rewrite E. rewrite dot_vadd_l, !dot_vadd_r by lia.
  assert (Hru : dot r u = 0).
  { unfold u. rewrite dot_vsub_r by (now rewrite !mv_length).
    assert (Hq : forall q, length q = m -> dot r (mv A q) = 0).
    { intros q Hq. rewrite dot_comm, (dot_mv A q r m HA Hq). apply bigsum_0. intros j Hj.
      unfold r. rewrite (residual_orthogonal A y c m Hy Hn j Hj). lra. }
    rewrite !Hq by auto. lra. }
  rewrite (dot_comm u r), Hru. pose proof (dot_self_nonneg u). lra.
Qed.

(** * detrending: the model *)
Lemma npow_pow (x : R) e : npow x e = x ^ e.
Proof. induction e as [|e IH]; [reflexivity|]. cbn [npow pow]. now rewrite IH. Qed.
Lemma prow_length k (x : R) : length (prow k x) = S k.
Proof. unfold prow. now rewrite map_length, rev_length, seq_length. Qed.
Lemma prow_nth k (x : R) j : (j <= k)%nat -> nth j (prow k x) 0 = x ^ (k - j).
Proof.
  intros Hj. unfold prow. rewrite nth_map_in with (d' := 0%nat) by (rewrite rev_length, seq_length; lia).
  rewrite rev_nth by (rewrite seq_length; lia). rewrite seq_length, seq_nth by lia.
  rewrite npow_pow. f_equal.
Qed.
Lemma design_rows k (xs : list R) : rows_len (S k) (design k xs).
Proof. intros r Hr. unfold design in Hr. apply in_map_iff in Hr as (x & <- & _). apply prow_length. Qed.
Lemma design_length k (xs : list R) : length (design k xs) = length xs.
Proof. unfold design. apply map_length. Qed.
Lemma col_design k (xs : list R) j : (j <= k)%nat -> col j (design k xs) = map (fun x => x ^ (k - j)) xs.
Proof. intros Hj. unfold col, design. rewrite map_map. apply map_ext. intros x. now apply prow_nth. Qed.
(** value at x of the polynomial with coefficient list c, highest power first (np.polyfit's order) *)
Definition polyval (k : nat) (c : list R) (x : R) : R := bigsum (fun j => nth j c 0 * x ^ (k - j)) (S k).
Lemma mv_design k (xs c : list R) : length c = S k -> mv (design k xs) c = map (polyval k c) xs.
Proof.
  intros Hc. unfold mv, design. rewrite map_map. apply map_ext. intros x.
  rewrite dot_comm, (dot_bigsum c (prow k x) (S k)) by (auto using prow_length).
  unfold polyval. apply bigsum_ext. intros j Hj. rewrite prow_nth by lia. reflexivity.
Qed.
Lemma linspace01_length n : length (@linspace01 R _ n) = n.
Proof. unfold linspace01. now rewrite map_length, seq_length. Qed.
Lemma linspace01_nth n i : (i < n)%nat -> nth i (@linspace01 R _ n) 0 = INR i / INR (n - 1).
Proof.
  intros Hi. unfold linspace01. rewrite nth_map_in with (d' := 0%nat) by (now rewrite seq_length).
  rewrite seq_nth by auto. numR. now rewrite <- !INR_IZR_INZ.
Qed.

(** contract of the oracle np.polyfit: it returns k+1 coefficients solving the normal equations *)
Definition polyfit_ok (polyfit : nat -> list R -> list R -> list R) : Prop :=
  forall k xs y, length xs = length y ->
    length (polyfit k xs y) = S k /\ normal_eqs (design k xs) y (polyfit k xs y) (S k).

Lemma remove_poly_with_length k c (y : list R) : length (remove_poly_with k c y) = length y.
Proof. unfold remove_poly_with, vsub. rewrite map2_length, mv_length, design_length, linspace01_length. lia. Qed.
Lemma remove_poly_length polyfit k (y : list R) : length (remove_poly polyfit k y) = length y.
Proof. apply remove_poly_with_length. Qed.

Lemma poly_subtracts_poly polyfit k (y : list R) :
  length (polyfit k (linspace01 (length y)) y) = S k ->
  let c := polyfit k (linspace01 (length y)) y in
  forall i, (i < length y)%nat ->
    nth i (remove_poly polyfit k y) 0 = nth i y 0 - polyval k c (INR i / INR (length y - 1)).
Proof.
  intros Hc c i Hi. unfold remove_poly, remove_poly_with. fold c.
  rewrite vsub_nth by (now rewrite mv_length, design_length, linspace01_length).
  rewrite mv_design by exact Hc. rewrite nth_map_in with (d' := 0) by (now rewrite linspace01_length).
  now rewrite linspace01_nth.
Qed.
Lemma poly_residual_orthogonal polyfit k (y : list R) : polyfit_ok polyfit ->
  forall e, (e <= k)%nat -> dot (map (fun x => x ^ e) (linspace01 (length y))) (remove_poly polyfit k y) = 0.
Proof.
  intros Hok e He. set (xs := linspace01 (length y)).
  destruct (Hok k xs y) as [Hc Hn]; [unfold xs; apply linspace01_length|].
  replace e with (k - (k - e))%nat by lia. rewrite <- col_design by lia.
  apply (residual_orthogonal (design k xs) y _ (S k)); auto; [|lia].
  unfold xs. now rewrite design_length, linspace01_length.
Qed.
Lemma poly_idempotent polyfit k (y : list R) : polyfit_ok polyfit ->
  remove_poly polyfit k (remove_poly polyfit k y) = remove_poly polyfit k y.
Proof.
  intros Hok. unfold remove_poly at 1. unfold remove_poly_with. rewrite remove_poly_length.
  set (xs := linspace01 (length y)). assert (Hx : length xs = length y) by apply linspace01_length.
  destruct (Hok k xs y Hx) as [Hc Hn].
  assert (Hr : length xs = length (remove_poly polyfit k y)) by now rewrite remove_poly_length.
  destruct (Hok k xs (remove_poly polyfit k y) Hr) as [Hc' Hn'].
  unfold remove_poly, remove_poly_with in *. fold xs in Hc', Hn' |- *.
  apply (residual_idempotent (design k xs) y _ _ (S k)); auto using design_rows.
  now rewrite design_length.
Qed.
Lemma poly_absorbs polyfit k (y d : list R) : polyfit_ok polyfit -> length d = S k ->
  remove_poly polyfit k (vadd y (map (polyval k d) (linspace01 (length y)))) = remove_poly polyfit k y.
Proof.
  intros Hok Hd. set (xs := linspace01 (length y)). assert (Hx : length xs = length y) by apply linspace01_length.
  set (y' := vadd y (map (polyval k d) xs)).
  assert (Hy' : length y' = length y) by (unfold y'; rewrite vadd_length; auto; now rewrite map_length).
  unfold remove_poly, remove_poly_with. rewrite Hy'. fold xs.
  destruct (Hok k xs y Hx) as [Hc Hn]. destruct (Hok k xs y' ltac:(lia)) as [Hc' Hn'].
  unfold y' in *. rewrite <- (mv_design k xs d Hd) in *.
  apply (residual_absorbs (design k xs) y _ _ d (S k)); auto using design_rows.
  now rewrite design_length.
Qed.
Lemma poly_least_squares polyfit k (y d : list R) : polyfit_ok polyfit -> length d = S k ->
  let r := remove_poly polyfit k y in
  let r' := vsub y (map (polyval k d) (linspace01 (length y))) in
  dot r r <= dot r' r'.
Proof.
  intros Hok Hd r r'. set (xs := linspace01 (length y)). assert (Hx : length xs = length y) by apply linspace01_length.
  destruct (Hok k xs y Hx) as [Hc Hn]. unfold r, r', remove_poly, remove_poly_with. fold xs.
  rewrite <- (mv_design k xs d Hd).
  apply (residual_least_squares (design k xs) y _ d (S k)); auto using design_rows.
  now rewrite design_length.
Qed.
(** the zero polynomial is a best fit of the residual *)
Lemma poly_best_fit_zero polyfit k (y : list R) : polyfit_ok polyfit ->
  normal_eqs (design k (linspace01 (length y))) (remove_poly polyfit k y) (repeat 0 (S k)) (S k).
Proof.
  intros Hok j Hj. set (xs := linspace01 (length y)).
  rewrite mv_design by apply repeat_length.
  rewrite col_design by lia. unfold xs. rewrite poly_residual_orthogonal by (auto; lia).
  assert (Hz : forall x, polyval k (repeat 0 (S k)) x = 0).
  { intros x. unfold polyval. apply bigsum_0. intros i Hi.
    replace (nth i (repeat 0 (S k)) 0) with 0; [lra|]. symmetry. apply nth_repeat. }
  set (u := map _ (linspace01 _)). clearbody u. induction (linspace01 (length y)) as [|x l IH] in u |- *.
  - cbn. apply dot_nil_r.
  - destruct u as [|a u]; [apply dot_nil_l|]. cbn [map]. rewrite dot_cons, Hz, IH. lra.
Qed.

(** * linearity of butter_pass, conditional on the oracle being linear *)
Lemma map2_firstn {A B C} (f : A -> B -> C) k u v : firstn k (map2 f u v) = map2 f (firstn k u) (firstn k v).
Proof. revert u v; induction k as [|k IH]; intros [|a u] [|b v]; cbn; auto. now rewrite IH. Qed.
Lemma map2_skipn {A B C} (f : A -> B -> C) k u v : length u = length v -> skipn k (map2 f u v) = map2 f (skipn k u) (skipn k v).
Proof. revert u v; induction k as [|k IH]; intros [|a u] [|b v] Hl; cbn in *; auto; try lia. Qed.
Lemma map2_app {A B C} (f : A -> B -> C) u v u' v' : length u = length v ->
  map2 f (u ++ u') (v ++ v') = map2 f u v ++ map2 f u' v'.
Proof. revert v; induction u as [|a u IH]; intros [|b v] Hl; cbn in *; auto; try lia. now rewrite IH by lia. Qed.
Lemma map2_repeat {A B C} (f : A -> B -> C) p q k : map2 f (repeat p k) (repeat q k) = repeat (f p q) k.
Proof. induction k; cbn; auto. now rewrite IHk. Qed.
Lemma nsum_lin a b (u v : list R) : length u = length v -> nsum (lin a b u v) = a * nsum u + b * nsum v.
Proof.
  revert v; induction u as [|x u IH]; intros [|y v] Hl; cbn in Hl; try lia; [unfold lin; cbn [map2]; rewrite !nsum_nil; lra|].
  cbn [lin map2]. fold (lin a b u v). rewrite !nsum_cons, IH by lia. lra.
Qed.
Lemma mean_lin a b (u v : list R) : length u = length v -> mean (lin a b u v) = a * mean u + b * mean v.
Proof.
  intros Hl. unfold mean. rewrite nsum_lin, lin_length by auto. rewrite <- Hl. numR. unfold Rdiv. ring.
Qed.
Lemma slice_lin a b s f (u v : list R) : length u = length v -> slice s f (lin a b u v) = lin a b (slice s f u) (slice s f v).
Proof. intros Hl. unfold slice, lin. rewrite map2_skipn by auto. now rewrite map2_firstn. Qed.
Lemma lin_firstn a b k (u v : list R) : firstn k (lin a b u v) = lin a b (firstn k u) (firstn k v).
Proof. unfold lin. apply map2_firstn. Qed.
Lemma lin_skipn a b k (u v : list R) : length u = length v -> skipn k (lin a b u v) = lin a b (skipn k u) (skipn k v).
Proof. unfold lin. apply map2_skipn. Qed.
Lemma gibbs_pad_lin a b grange nl s f (x y : list R) : length x = length y ->
  gibbs_pad grange nl s f (lin a b x y) = lin a b (gibbs_pad grange nl s f x) (gibbs_pad grange nl s f y).
Proof.
  intros Hl. unfold gibbs_pad, lastn. rewrite lin_length by auto. rewrite <- Hl.
  rewrite lin_firstn, lin_skipn by auto.
  rewrite !mean_lin by (rewrite ?firstn_length, ?skipn_length; lia).
  unfold lin. rewrite map2_app by (now rewrite !repeat_length). rewrite map2_app by auto.
  now rewrite !map2_repeat.
Qed.
Definition FF_linear (FF : nat -> btype -> list R -> list R -> list R) : Prop :=
  forall o bt wn a b x y, length x = length y -> FF o bt wn (lin a b x y) = lin a b (FF o bt wn x) (FF o bt wn y).
Lemma butter_pass_linear FF order cont cut g extra grange dt a b (x y : list R) o1 o2 :
  FF_linear FF -> FF_length FF -> length x = length y ->
  butter_pass FF order cont cut g extra grange {| s_dt := dt; s_vals := x |} = inr o1 ->
  butter_pass FF order cont cut g extra grange {| s_dt := dt; s_vals := y |} = inr o2 ->
  butter_pass FF order cont cut g extra grange {| s_dt := dt; s_vals := lin a b x y |}
    = inr {| s_dt := dt; s_vals := lin a b (s_vals o1) (s_vals o2) |}.
Proof.
  intros HL HF Hl. unfold butter_pass. cbn [s_dt s_vals]. destruct (butter_args cont cut dt) as [e|[bt wn]]; [discriminate|].
  rewrite lin_length by auto. rewrite <- Hl.
  pose proof (gibbs_layout_ok (length x) extra g) as Hlay.
  destruct (gibbs_layout (length x) extra g) as [[nl sl] fl]. destruct Hlay as (Hf & Hn & _).
  intros [= <-] [= <-]. cbn [s_vals]. do 2 f_equal.
  destruct g.
  - rewrite HL by auto. apply slice_lin. now rewrite !HF.
  - rewrite gibbs_pad_lin, HL by (auto; rewrite !gibbs_pad_length; auto; lia). apply slice_lin. rewrite !HF, !gibbs_pad_length; auto; lia.
  - rewrite gibbs_pad_lin, HL by (auto; rewrite !gibbs_pad_length; auto; lia). apply slice_lin. rewrite !HF, !gibbs_pad_length; auto; lia.
  - rewrite gibbs_pad_lin, HL by (auto; rewrite !gibbs_pad_length; auto; lia). apply slice_lin. rewrite !HF, !gibbs_pad_length; auto; lia.
Qed.

(** * zero-phase gain, conditional on the oracle's response to a sampled sinusoid *)
Definition sinusoid (amp f ph dt : R) (n : nat) : list R :=
  map (fun i => amp * sin (2 * PI * f * (INR i * dt) + ph)) (seq 0 n).
(** contract in scipy's own units: wn = fractions of the Nyquist frequency, nu = cycles per sample *)
Definition FF_gain (interior : nat -> nat -> Prop) (FF : nat -> btype -> list R -> list R -> list R) : Prop :=
  forall order bt wn amp nu ph n i, interior n i ->
    nth i (FF order bt wn (map (fun i => amp * sin (2 * PI * nu * INR i + ph)) (seq 0 n))) 0
    = butter_gain2 bt order (tan (PI * nu)) (map (fun w => tan (PI * w / 2)) wn) * (amp * sin (2 * PI * nu * INR i + ph)).
Lemma butter_pass_gain interior FF order cont cut extra grange amp f ph dt n bt wn :
  FF_length FF -> FF_gain interior FF ->
  butter_args cont cut dt = inr (bt, wn) ->
  exists s', butter_pass FF order cont cut GNone extra grange {| s_dt := dt; s_vals := sinusoid amp f ph dt n |} = inr s' /\
    s_dt s' = dt /\ length (s_vals s') = n /\
    forall i, (i < n)%nat -> interior n i ->
      nth i (s_vals s') 0 = butter_gain2 bt order (tan (PI * (f * dt))) (map (fun w => tan (PI * w / 2)) wn)
                            * nth i (sinusoid amp f ph dt n) 0.
Proof.
  intros HF HG Ha. unfold butter_pass. cbn [s_dt s_vals]. rewrite Ha. cbn [gibbs_layout].
  assert (Hn : length (sinusoid amp f ph dt n) = n) by (unfold sinusoid; now rewrite map_length, seq_length).
  eexists. split; [reflexivity|]. cbn [s_dt s_vals]. split; [reflexivity|].
  assert (Hs : forall l : list R, length l = n -> slice 0 (length (sinusoid amp f ph dt n)) l = l).
  { intros l Hl. rewrite Hn, <- Hl. apply slice_full. }
  rewrite Hs by (now rewrite HF). split; [now rewrite HF|].
  intros i Hlt Hi.
  assert (E : sinusoid amp f ph dt n = map (fun i => amp * sin (2 * PI * (f * dt) * INR i + ph)) (seq 0 n)).
  { unfold sinusoid. apply map_ext. intros j. do 2 f_equal. ring. }
  rewrite E. rewrite (HG order bt wn amp (f * dt) ph n i Hi). f_equal.
  rewrite nth_map_in with (d' := 0%nat) by (now rewrite seq_length). now rewrite seq_nth by auto.
Qed.

(** * remaining small facts and examples *)
Lemma npow_one e : npow (1:R) e = 1.
Proof. rewrite npow_pow. apply pow1. Qed.
Lemma gain_half_at_cutoff order tc : tc <> 0 ->
  butter_gain2 Low order tc [tc] = 1 / 2 /\ butter_gain2 High order tc [tc] = 1 / 2.
Proof.
  intros Ht. unfold butter_gain2. numR. replace (tc / tc) with 1 by (field; auto).
  rewrite npow_one. split; lra.
Qed.
Lemma slice_In {A} s f (l : list A) v : In v (slice s f l) -> In v l.
Proof.
  unfold slice. intros Hv.
  assert (H1 : forall k (m : list A), In v (firstn k m) -> In v m).
  { induction k; intros [|a m] H; cbn in *; auto; try tauto. destruct H; auto. }
  assert (H2 : forall k (m : list A), In v (skipn k m) -> In v m).
  { induction k; intros [|a m] H; cbn in *; auto; try tauto. }
  eauto.
Qed.
Lemma running_average_constant w c (x : list R) : (forall v, In v x -> v = c) ->
  forall i, (i < length x)%nat -> nth i (running_average w x) 0 = c.
Proof.
  intros Hc i Hi. rewrite running_average_spec by auto. unfold window_mean.
  destruct (window_content w x i 0 Hi) as [Hl Hn]. cbv zeta in Hl, Hn.
  apply mean_const.
  - intros E. rewrite E in Hl. cbn in Hl. lia.
  - intros v Hv. apply Hc. eapply slice_In; eauto.
Qed.
Lemma ex_running_average : running_average 3 [0; 1; 4; 9] = [1 / 2; 5 / 3; 14 / 3; 13 / 2].
Proof.
  unfold running_average, running_average_at, slice, mean, nsum. cbn. numR. repeat (f_equal; try lra).
Qed.
Lemma ex_normal_eqs : normal_eqs (design 1 (linspace01 3)) [0; 1; 4] [4; - (1 / 3)] 2.
Proof.
  intros j Hj. assert (E : @linspace01 R _ 3 = [0; 1 / 2; 1]).
  { unfold linspace01. cbn. numR. repeat (f_equal; try lra). }
  rewrite E. destruct j as [|[|j]]; try lia; unfold design, prow, col, mv, dot, nsum; cbn; numR; lra.
Qed.
