(** Proofs for C11, second part: the max/min parity selection returns exactly the local maxima / minima among the reported
    indices, and the cycle counter's values at the reported indices / monotonicity. Uses the alternating-chain lemmas of P_C13. *)
From Coq Require Import ZArith Reals List Bool Lra Lia.
From EQ Require Import lib.Num lib.NpList lib.Quad lib.Where model.M_peaks proofs.P_C11 proofs.P_C12 proofs.P_C13.
Import ListNotations.
Local Open Scope R_scope.

(** ** local extrema of the plateau-compressed series, for a plateau start [i]: the previous sample (if any) and the next
    different sample (if any) are both strictly lower ([d = 1], maximum) or both strictly higher ([d = -1], minimum) *)
Definition lext (d : R) (xs : list R) (i : nat) : Prop :=
  (i = 0%nat \/ d * xat xs (i - 1) < d * xat xs i) /\ (forall j, next_diff xs i = Some j -> d * xat xs j < d * xat xs i).
(** direction of the move into [q] *)
Definition inc (d : R) (xs : list R) (q : nat) : Prop := d * xat xs (q - 1) < d * xat xs q.

Lemma peaks_zigseg (xs : list R) : first_up xs <> None -> zigseg (sgn_first xs) xs (peaks xs).
Proof.
  intros Hnc. pose proof (sgn_first_sdir xs Hnc) as Hs0.
  destruct (peaks_two xs Hnc) as (q & t & Ep).
  destruct (peaks_consec xs) as [Hmono Hrep]. fold (reported_pair xs) in Hrep.
  assert (Hq : (0 < q < length xs)%nat).
  { rewrite Ep in Hrep. destruct Hrep as [(_ & Hq & Hlt & _) _]. apply P_C11.C11_exact in Hq. lia. }
  apply zigseg_of_consec; [exact Hrep|exact Hs0|]. rewrite Ep. rewrite Ep in Hmono. destruct Hmono as [[M|M] _].
  - now rewrite (first_seg_dir xs 1 q (or_introl eq_refl) Hq M).
  - now rewrite (first_seg_dir xs (-1) q (or_intror eq_refl) Hq M).
Qed.

Lemma evens_odds_In {A} (l : list A) x : In x l <-> In x (evens l) \/ In x (odds l).
Proof.
  induction l as [|a l IH]; [cbn; tauto|]. cbn [evens odds In]. rewrite IH. tauto.
Qed.

(** along an alternating chain the moves into the 1st, 3rd, ... element after the head go in direction s, the others in -s *)
Lemma zig_inc (xs : list R) l : forall s p, (forall q, In q l -> In q (peaks xs)) -> zigseg s xs (p :: l) ->
  (forall q, In q (evens l) -> inc s xs q) /\ (forall q, In q (odds l) -> inc (- s) xs q).
Proof.
  induction l as [|q t IH]; intros s p Hin Hz; [split; intros ? []|].
  destruct Hz as (Hpq & [M1 M2] & Hz).
  destruct (IH (- s) q ltac:(intros; apply Hin; now right) Hz) as [He Ho].
  assert (Hq : inc s xs q).
  { assert (HqP : In q (peaks xs)) by (apply Hin; now left).
    assert (Hne : xs <> []) by (intros ->; destruct HqP).
    pose proof (P_C11.C11_reported_are_plateau_starts xs q Hne HqP) as Hps.
    destruct q as [|q']; [lia|]. cbn [pstart] in Hps. apply negb_true_iff, neqb_R_false in Hps.
    unfold inc. replace (S q' - 1)%nat with q' by lia. specialize (M1 q' ltac:(lia)).
    destruct (Req_dec (s * xat xs q') (s * xat xs (S q'))) as [E|Hd]; [|lra].
    exfalso. apply Hps. destruct (Req_dec s 0) as [->|Hs]; [lra|]. symmetry. eapply Rmult_eq_reg_l; eauto. }
  cbn [evens odds]. split.
  - intros r [<-|Hr]; [exact Hq|]. specialize (Ho r Hr). now rewrite Ropp_involutive in Ho.
  - exact He.
Qed.

Lemma next_diff_final (xs : list R) : xs <> [] -> next_diff xs (final_start xs) = None.
Proof.
  intros Hne. destruct (next_diff xs (final_start xs)) as [j|] eqn:E; [|reflexivity].
  apply next_diff_spec in E as (Hj & Hd & _). exfalso. apply Hd. apply final_run_constant. lia.
Qed.
(** a reported index other than 0 is an extremum of the kind given by the move into it *)
Lemma lext_of_inc d (xs : list R) i : In i (peaks xs) -> i <> 0%nat -> inc d xs i -> lext d xs i.
Proof.
  intros Hi Hne0 Hinc. assert (Hne : xs <> []) by (intros ->; destruct Hi).
  split; [right; exact Hinc|]. intros j Ej.
  apply P_C11.C11_exact in Hi as (_ & [H0|[Hf|Ht]]); [contradiction| |].
  - subst i. rewrite (next_diff_final xs Hne) in Ej. discriminate.
  - apply turning_spec in Ht as (i' & j' & -> & Ej' & Hd). rewrite Ej in Ej'. inversion Ej'; subst j'.
    unfold inc in Hinc. replace (S i' - 1)%nat with i' in Hinc by lia.
    destruct Hd as [[A B]|[A B]].
    + (* up then down *) destruct (Rtotal_order d 0) as [Hd0|[Hd0|Hd0]]; nra.
    + destruct (Rtotal_order d 0) as [Hd0|[Hd0|Hd0]]; nra.
Qed.
(** the first strict move *)
Lemma first_move (xs : list R) : first_up xs <> None ->
  exists j, next_diff xs 0 = Some j /\ sgn_first xs * xat xs 0 < sgn_first xs * xat xs j.
Proof.
  intros Hnc. unfold sgn_first, first_up in *. destruct (next_diff xs 0) as [j|] eqn:Ej; [|congruence].
  exists j. split; [reflexivity|]. apply next_diff_spec in Ej as (_ & Hd & _). numR.
  case_Rltb (xat xs 0) (xat xs j); lra.
Qed.

(** the parity selection of the code: the odd positions when the first strict move goes in direction d, else the even ones *)
Definition sel (d : R) (xs : list R) : list nat :=
  if Req_EM_T (sgn_first xs) d then odds (peaks xs) else evens (peaks xs).
Lemma sel_exact d (xs : list R) : sdir d -> first_up xs <> None ->
  forall i, In i (sel d xs) <-> In i (peaks xs) /\ lext d xs i.
Proof.
  intros Hd Hnc i. pose proof (first_up_ne xs Hnc) as Hne. pose proof (sgn_first_sdir xs Hnc) as Hs0.
  pose proof (peaks_zigseg xs Hnc) as Hzig. destruct (peaks_head xs Hne) as [l El].
  destruct (first_move xs Hnc) as (j0 & Ej0 & Hm0).
  assert (Hpos : forall q, In q l -> q <> 0%nat).
  { intros q Hq ->. pose proof (P_C11.C11_ascending xs) as Ha. rewrite El in Ha. inversion Ha; subst. specialize (H1 _ Hq). lia. }
  assert (HlP : forall q, In q l -> In q (peaks xs)) by (intros q Hq; rewrite El; now right).
  rewrite El in Hzig. destruct (zig_inc xs l (sgn_first xs) 0%nat HlP Hzig) as [He Ho].
  assert (Hzero : lext d xs 0 <-> sgn_first xs = - d).
  { split.
    - intros [_ H]. specialize (H j0 Ej0). destruct Hs0 as [E|E], Hd as [-> | ->]; rewrite E in *; lra.
    - intros E. split; [now left|]. intros j Ej. rewrite Ej0 in Ej. inversion Ej; subst j. rewrite E in Hm0. lra. }
  assert (Hnot : forall q, q <> 0%nat -> inc (- d) xs q -> ~ lext d xs q).
  { intros q Hq0 Hi [[?|Hl] _]; [contradiction|]. unfold inc in Hi. lra. }
  unfold sel. rewrite El. cbn [evens odds]. destruct (Req_EM_T (sgn_first xs) d) as [E|E].
  - rewrite E in *. split.
    + intros Hi. split; [right; apply evens_odds_In; now left|]. apply lext_of_inc; [apply HlP, evens_odds_In; now left|apply Hpos, evens_odds_In; now left|now apply He].
    + intros [[<-|Hi] Hx].
      * apply Hzero in Hx. destruct Hd as [-> | ->]; lra.
      * apply evens_odds_In in Hi as [Hi|Hi]; [exact Hi|]. exfalso. apply (Hnot i); [apply Hpos, evens_odds_In; now right|now apply Ho|exact Hx].
  - assert (E' : sgn_first xs = - d) by (destruct Hs0 as [E1|E1], Hd as [-> | ->]; rewrite E1 in *; try lra; exfalso; apply E; lra).
    rewrite E' in *. rewrite Ropp_involutive in Ho. split.
    + intros [<-|Hi]; [split; [now left|now apply Hzero]|].
      split; [right; apply evens_odds_In; now right|]. apply lext_of_inc; [apply HlP, evens_odds_In; now right|apply Hpos, evens_odds_In; now right|now apply Ho].
    + intros [[<-|Hi] Hx]; [now left|right].
      apply evens_odds_In in Hi as [Hi|Hi]; [|exact Hi]. exfalso. apply (Hnot i); [apply Hpos, evens_odds_In; now left|now apply He|exact Hx].
Qed.

Lemma sgn_first_cases (xs : list R) :
  (first_up xs = Some true /\ sgn_first xs = 1) \/ (first_up xs = Some false /\ sgn_first xs = -1) \/ (first_up xs = None).
Proof. unfold sgn_first. destruct (first_up xs) as [[|]|]; numR; auto. Qed.
Lemma peaks_sel_max (xs : list R) : first_up xs <> None -> peaks_sel 1 xs = sel 1 xs.
Proof.
  intros Hnc. unfold peaks_sel, sel. destruct (sgn_first_cases xs) as [[E1 E2]|[[E1 E2]|E1]]; [| |contradiction]; rewrite E1, E2.
  - destruct (Req_EM_T 1 1); [reflexivity|lra].
  - destruct (Req_EM_T (-1) 1); [lra|reflexivity].
Qed.
Lemma peaks_sel_min (xs : list R) : first_up xs <> None -> peaks_sel 2 xs = sel (-1) xs.
Proof.
  intros Hnc. unfold peaks_sel, sel. destruct (sgn_first_cases xs) as [[E1 E2]|[[E1 E2]|E1]]; [| |contradiction]; rewrite E1, E2.
  - destruct (Req_EM_T 1 (-1)); [lra|reflexivity].
  - destruct (Req_EM_T (-1) (-1)); [reflexivity|lra].
Qed.

(** the statements with plain inequalities *)
Definition lmax (xs : list R) (i : nat) : Prop :=
  (i = 0%nat \/ xat xs (i - 1) < xat xs i) /\ (forall j, next_diff xs i = Some j -> xat xs j < xat xs i).
Definition lmin (xs : list R) (i : nat) : Prop :=
  (i = 0%nat \/ xat xs i < xat xs (i - 1)) /\ (forall j, next_diff xs i = Some j -> xat xs i < xat xs j).
Lemma lext_max xs i : lext 1 xs i <-> lmax xs i.
Proof. unfold lext, lmax. split; intros [[Ha|Ha] Hb]; (split; [try (now left); right; lra|intros j Ej; specialize (Hb j Ej); lra]). Qed.
Lemma lext_min xs i : lext (-1) xs i <-> lmin xs i.
Proof. unfold lext, lmin. split; intros [[Ha|Ha] Hb]; (split; [try (now left); right; lra|intros j Ej; specialize (Hb j Ej); lra]). Qed.
Lemma C11_sel_max (xs : list R) i : first_up xs <> None -> (In i (peaks_sel 1 xs) <-> In i (peaks xs) /\ lmax xs i).
Proof. intros Hnc. rewrite (peaks_sel_max xs Hnc), (sel_exact 1 xs (or_introl eq_refl) Hnc), lext_max. reflexivity. Qed.
Lemma C11_sel_min (xs : list R) i : first_up xs <> None -> (In i (peaks_sel 2 xs) <-> In i (peaks xs) /\ lmin xs i).
Proof. intros Hnc. rewrite (peaks_sel_min xs Hnc), (sel_exact (-1) xs (or_intror eq_refl) Hnc), lext_min. reflexivity. Qed.

(** index 0 and the final plateau are assigned by the direction of the first / last strict move *)
Lemma C11_sel_index0 (xs : list R) : first_up xs <> None ->
  (In 0%nat (peaks_sel 1 xs) <-> first_up xs = Some false) /\ (In 0%nat (peaks_sel 2 xs) <-> first_up xs = Some true).
Proof.
  intros Hnc. pose proof (first_up_ne xs Hnc) as Hne.
  assert (H0 : In 0%nat (peaks xs)) by (apply P_C11.C11_exact; split; [destruct xs; [congruence|cbn; lia]|now left]).
  destruct (first_move xs Hnc) as (j0 & Ej0 & Hm0).
  rewrite (C11_sel_max xs 0 Hnc), (C11_sel_min xs 0 Hnc). unfold lmax, lmin.
  destruct (sgn_first_cases xs) as [[E1 E2]|[[E1 E2]|E1]]; [| |contradiction]; rewrite E1, E2 in *; split; split.
  - intros [_ [_ H]]. specialize (H j0 Ej0). lra.
  - discriminate.
  - reflexivity.
  - intros _. split; [exact H0|]. split; [now left|]. intros j Ej. rewrite Ej0 in Ej. inversion Ej; subst j. lra.
  - reflexivity.
  - intros _. split; [exact H0|]. split; [now left|]. intros j Ej. rewrite Ej0 in Ej. inversion Ej; subst j. lra.
  - intros [_ [_ H]]. specialize (H j0 Ej0). lra.
  - discriminate.
Qed.
Lemma C11_sel_final (xs : list R) : first_up xs <> None ->
  (In (final_start xs) (peaks_sel 1 xs) <-> xat xs (final_start xs - 1) < xat xs (final_start xs)) /\
  (In (final_start xs) (peaks_sel 2 xs) <-> xat xs (final_start xs) < xat xs (final_start xs - 1)).
Proof.
  intros Hnc. pose proof (first_up_ne xs Hnc) as Hne.
  assert (Hf : In (final_start xs) (peaks xs)) by (apply P_C11.C11_exact; split; [now apply final_start_lt|auto]).
  destruct (sgn_final_spec xs Hnc) as (j & Ej & _).
  rewrite (C11_sel_max xs _ Hnc), (C11_sel_min xs _ Hnc). unfold lmax, lmin. rewrite (next_diff_final xs Hne).
  split; split.
  - intros [_ [[E|H] _]]; [lia|exact H].
  - intros H. split; [exact Hf|]. split; [now right|discriminate].
  - intros [_ [[E|H] _]]; [lia|exact H].
  - intros H. split; [exact Hf|]. split; [now right|discriminate].
Qed.

(** ** the cycle counter: np.interp over the reported indices *)
Fixpoint chain_le (l : list R) : Prop := match l with a :: ((b :: _) as r) => a <= b /\ chain_le r | _ => True end.
Definition lin (x0 x1 : nat) (f0 f1 : R) (i : nat) : R :=
  (f1 - f0) / (IZR (Z.of_nat x1) - IZR (Z.of_nat x0)) * (IZR (Z.of_nat i) - IZR (Z.of_nat x0)) + f0.
Lemma interp_unfold x0 xr f0 fr i : interp_pts (T:=R) (x0 :: xr) (f0 :: fr) i =
  if (i <=? x0)%nat then f0 else match xr, fr with
    | x1 :: _, f1 :: _ => if (i <? x1)%nat then lin x0 x1 f0 f1 i else interp_pts xr fr i
    | _, _ => f0 end.
Proof. reflexivity. Qed.
Lemma interp_le_head x0 xr f0 fr i : (i <= x0)%nat -> interp_pts (T:=R) (x0 :: xr) (f0 :: fr) i = f0.
Proof. intros Hi. rewrite interp_unfold. apply Nat.leb_le in Hi. now rewrite Hi. Qed.
Lemma lin_bounds x0 x1 f0 f1 i j : (x0 < x1)%nat -> f0 <= f1 -> (x0 <= i <= j)%nat -> (j <= x1)%nat ->
  f0 <= lin x0 x1 f0 f1 i /\ lin x0 x1 f0 f1 i <= lin x0 x1 f0 f1 j /\ lin x0 x1 f0 f1 j <= f1.
Proof.
  intros Hx Hf Hij Hj. unfold lin.
  assert (G1 : IZR (Z.of_nat x0) < IZR (Z.of_nat x1)) by (apply IZR_lt; lia).
  assert (G2 : IZR (Z.of_nat x0) <= IZR (Z.of_nat i)) by (apply IZR_le; lia).
  assert (G3 : IZR (Z.of_nat i) <= IZR (Z.of_nat j)) by (apply IZR_le; lia).
  assert (G4 : IZR (Z.of_nat j) <= IZR (Z.of_nat x1)) by (apply IZR_le; lia).
  assert (Hdx : 0 < IZR (Z.of_nat x1) - IZR (Z.of_nat x0)) by lra.
  assert (Ha : 0 <= IZR (Z.of_nat i) - IZR (Z.of_nat x0)) by lra.
  assert (Hb : IZR (Z.of_nat i) - IZR (Z.of_nat x0) <= IZR (Z.of_nat j) - IZR (Z.of_nat x0)) by lra.
  assert (Hc : IZR (Z.of_nat j) - IZR (Z.of_nat x0) <= IZR (Z.of_nat x1) - IZR (Z.of_nat x0)) by lra.
  clear G1 G2 G3 G4.
  set (dx := IZR (Z.of_nat x1) - IZR (Z.of_nat x0)) in *. set (a := IZR (Z.of_nat i) - IZR (Z.of_nat x0)) in *.
  set (b := IZR (Z.of_nat j) - IZR (Z.of_nat x0)) in *.
  assert (Hc0 : 0 <= (f1 - f0) / dx) by (apply Rle_mult_inv_pos; lra).
  assert (Hcd : (f1 - f0) / dx * dx = f1 - f0) by (field; lra).
  set (c := (f1 - f0) / dx) in *. split; [nra|]. split; nra.
Qed.
Lemma interp_node xp : forall fp k, ascending xp -> length xp = length fp -> (k < length xp)%nat ->
  interp_pts (T:=R) xp fp (nth k xp 0%nat) = nth k fp 0.
Proof.
  induction xp as [|x0 xr IH]; intros fp k Ha Hlen Hk; [cbn in Hk; lia|].
  destruct fp as [|f0 fr]; [discriminate|]. destruct k as [|k]; [cbn [nth]; apply interp_le_head; lia|].
  cbn [nth]. inversion Ha as [|? ? Hlt Har]; subst. cbn [length] in *.
  assert (Hin : In (nth k xr 0%nat) xr) by (apply nth_In; lia).
  pose proof (Hlt _ Hin) as Hgt. rewrite interp_unfold.
  destruct (Nat.leb_spec (nth k xr 0%nat) x0) as [?|_]; [lia|].
  destruct xr as [|x1 xr']; [cbn in Hk; lia|]. destruct fr as [|f1 fr']; [discriminate|].
  assert (x1 <= nth k (x1 :: xr') 0)%nat by (apply (ascending_head_min x1 xr'); auto).
  destruct (Nat.ltb_spec (nth k (x1 :: xr') 0%nat) x1) as [?|_]; [lia|].
  apply IH; [exact Har|cbn [length] in *; lia|cbn [length] in *; lia].
Qed.
Lemma interp_step xp : forall fp i, ascending xp -> length xp = length fp -> chain_le fp ->
  interp_pts (T:=R) xp fp i <= interp_pts xp fp (S i).
Proof.
  induction xp as [|x0 xr IH]; intros fp i Ha Hlen Hc; [cbn; numR; lra|].
  destruct fp as [|f0 fr]; [cbn; numR; lra|]. inversion Ha as [|? ? Hlt Har]; subst.
  rewrite !interp_unfold.
  destruct xr as [|x1 xr']; [destruct (i <=? x0)%nat, (S i <=? x0)%nat; lra|].
  destruct fr as [|f1 fr']; [destruct (i <=? x0)%nat, (S i <=? x0)%nat; lra|].
  assert (Hx : (x0 < x1)%nat) by (apply Hlt; now left). destruct Hc as [Hf Hc'].
  destruct (Nat.leb_spec (S i) x0) as [H1|H1].
  - destruct (Nat.leb_spec i x0) as [_|?]; [lra|lia].
  - destruct (Nat.leb_spec i x0) as [H2|H2].
    + (* i = x0 *) destruct (Nat.ltb_spec (S i) x1) as [H3|H3].
      * apply (lin_bounds x0 x1 f0 f1 (S i) (S i) Hx Hf); lia.
      * rewrite interp_le_head by lia. exact Hf.
    + destruct (Nat.ltb_spec (S i) x1) as [H3|H3].
      * destruct (Nat.ltb_spec i x1) as [_|?]; [|lia]. apply (lin_bounds x0 x1 f0 f1 i (S i) Hx Hf); lia.
      * destruct (Nat.ltb_spec i x1) as [H4|H4].
        -- rewrite interp_le_head by lia. pose proof (lin_bounds x0 x1 f0 f1 i i Hx Hf ltac:(lia) ltac:(lia)). lra.
        -- apply IH; [exact Har|cbn [length] in *; lia|exact Hc'].
Qed.
Lemma interp_after_last xp : forall fp i, ascending xp -> length xp = length fp -> xp <> [] -> (List.last xp 0%nat <= i)%nat ->
  interp_pts (T:=R) xp fp i = List.last fp 0.
Proof.
  induction xp as [|x0 xr IH]; intros fp i Ha Hlen Hne Hi; [congruence|].
  destruct fp as [|f0 fr]; [discriminate|]. inversion Ha as [|? ? Hlt Har]; subst. rewrite interp_unfold.
  destruct xr as [|x1 xr'].
  - destruct fr; [|discriminate]. cbn [List.last]. now destruct (i <=? x0)%nat.
  - destruct fr as [|f1 fr']; [discriminate|].
    change (List.last (x0 :: x1 :: xr') 0%nat) with (List.last (x1 :: xr') 0%nat) in Hi.
    change (List.last (f0 :: f1 :: fr') 0) with (List.last (f1 :: fr') 0).
    assert (Hx1 : (x1 <= List.last (x1 :: xr') 0)%nat) by (apply ascending_last_max; [exact Har|now left]).
    assert (Hx : (x0 < x1)%nat) by (apply Hlt; now left).
    destruct (Nat.leb_spec i x0) as [?|_]; [lia|]. destruct (Nat.ltb_spec i x1) as [?|_]; [lia|].
    apply IH; [exact Har|cbn [length] in *; lia|discriminate|exact Hi].
Qed.

(** the abscissae and ordinates used by [n_cyc_of] *)
Definition ncyc_ind (indys : list nat) : list nat := match indys with 0%nat :: _ => indys | _ => 0%nat :: indys end.
Definition ncyc_val (origin : bool) (k : nat) : R :=
  if Nat.eqb k 0 then 0 else / 2 * INR k + (if origin then - / 4 else 0).
Lemma ncyc_ind_ascending indys : ascending indys -> ascending (ncyc_ind indys).
Proof.
  intros Ha. destruct indys as [|[|a] r]; cbn [ncyc_ind]; [constructor; [intros ? []|constructor]|exact Ha|].
  constructor; [|exact Ha]. intros j [<-|Hj]; [lia|]. inversion Ha; subst. specialize (H1 j Hj). lia.
Qed.
Lemma nth_map_seq0 {B} (f : nat -> B) n i d : (i < n)%nat -> nth i (map f (seq 0 n)) d = f i.
Proof. intros Hi. rewrite (nth_indep _ d (f 0%nat)) by (now rewrite map_length, seq_length). rewrite map_nth, seq_nth by lia. reflexivity. Qed.
Lemma n_cyc_of_unfold indys origin n : n_cyc_of (T:=R) indys origin n =
  map (interp_pts (ncyc_ind indys) (map (ncyc_val origin) (seq 0 (length (ncyc_ind indys))))) (seq 0 n).
Proof.
  unfold n_cyc_of. fold (ncyc_ind indys). f_equal. f_equal. apply map_ext. intros k. unfold ncyc_val, half, quarter. numR.
  rewrite INR_IZR_INZ. destruct (Nat.eqb_spec k 0) as [->|_]; [cbn; lra|]. destruct origin; unfold Rdiv; lra.
Qed.
Lemma chain_le_map_seq (g : nat -> R) n : forall s, (forall k, g k <= g (S k)) -> chain_le (map g (seq s n)).
Proof.
  induction n as [|n IH]; intros s Hg; [exact I|]. cbn [seq map]. destruct n as [|n]; [exact I|].
  specialize (IH (S s) Hg). cbn [seq map] in *. split; [apply Hg|exact IH].
Qed.
Lemma ncyc_val_step origin k : ncyc_val origin k <= ncyc_val origin (S k).
Proof.
  unfold ncyc_val. cbn [Nat.eqb]. rewrite S_INR. pose proof (pos_INR k).
  destruct (Nat.eqb_spec k 0) as [->|_]; destruct origin; cbn [INR]; lra.
Qed.

Lemma C11_ncyc_at_reported indys origin n k : ascending indys -> (k < length (ncyc_ind indys))%nat ->
  (nth k (ncyc_ind indys) 0 < n)%nat ->
  nth (nth k (ncyc_ind indys) 0%nat) (n_cyc_of (T:=R) indys origin n) 0 = ncyc_val origin k.
Proof.
  intros Ha Hk Hn. rewrite n_cyc_of_unfold, nth_map_seq0 by exact Hn.
  rewrite interp_node; [|now apply ncyc_ind_ascending|now rewrite map_length, seq_length|exact Hk].
  now rewrite nth_map_seq0.
Qed.
Lemma C11_ncyc_nondecreasing indys origin n : ascending indys -> nondecreasing (n_cyc_of (T:=R) indys origin n).
Proof.
  intros Ha. apply nondecreasing_step. intros i Hi. rewrite C11_ncyc_length in Hi. rewrite n_cyc_of_unfold.
  rewrite !nth_map_seq0 by lia. apply interp_step; [now apply ncyc_ind_ascending|now rewrite map_length, seq_length|].
  apply chain_le_map_seq, ncyc_val_step.
Qed.
Lemma last_map_seq0 {B} (f : nat -> B) n d : n <> 0%nat -> List.last (map f (seq 0 n)) d = f (n - 1)%nat.
Proof.
  intros Hn. destruct n as [|n]; [congruence|]. rewrite seq_S, map_app. cbn [map plus]. rewrite last_last. f_equal. lia.
Qed.
(** after the last reported index the counter stays at its last value *)
Lemma C11_ncyc_after_last indys origin n i : ascending indys -> (List.last (ncyc_ind indys) 0 <= i < n)%nat ->
  nth i (n_cyc_of (T:=R) indys origin n) 0 = ncyc_val origin (length (ncyc_ind indys) - 1).
Proof.
  intros Ha Hi. rewrite n_cyc_of_unfold, nth_map_seq0 by lia.
  assert (Hne : ncyc_ind indys <> []) by (destruct indys as [|[|a] r]; discriminate).
  rewrite interp_after_last; [|now apply ncyc_ind_ascending|now rewrite map_length, seq_length|exact Hne|lia].
  apply last_map_seq0. destruct (ncyc_ind indys); [congruence|discriminate].
Qed.
