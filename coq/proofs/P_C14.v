(** Proofs for C14 (resampling to an approximate step) at T := R. *)
From Coq Require Import ZArith Reals List Bool Lra Lia.
From EQ Require Import lib.Num lib.NpList model.M_timestep.
Import ListNotations.
Local Open Scope R_scope.

(** ** floor / ceil / trunc at R *)
Lemma nfloor_spec (x : R) : IZR (nfloor x) <= x < IZR (nfloor x) + 1.
Proof. numR. rewrite minus_IZR. destruct (archimed x). lra. Qed.
Lemma nfloor_unique (x : R) z : IZR z <= x < IZR z + 1 -> nfloor x = z.
Proof.
  intros [H1 H2]. destruct (nfloor_spec x) as [H3 H4].
  assert (IZR z < IZR (nfloor x) + 1) by lra. assert (IZR (nfloor x) < IZR z + 1) by lra.
  rewrite <- plus_IZR in *. apply lt_IZR in H, H0. lia.
Qed.
Lemma nfloor_IZR z : nfloor (IZR z) = z.
Proof. apply nfloor_unique. lra. Qed.
Lemma nceil_spec (x : R) : x <= IZR (nceil x) < x + 1.
Proof. unfold nceil. rewrite opp_IZR. destruct (nfloor_spec (nopp x)). numR. lra. Qed.
Lemma nceil_unique (x : R) z : x <= IZR z < x + 1 -> nceil x = z.
Proof.
  intros [H1 H2]. unfold nceil. rewrite (nfloor_unique (nopp x) (- z)); [lia|]. rewrite opp_IZR. numR. lra.
Qed.
Lemma nceil_IZR z : nceil (IZR z) = z.
Proof. apply nceil_unique. lra. Qed.
Lemma ntrunc_nonneg (x : R) : 0 <= x -> ntrunc x = nfloor x.
Proof. intros Hx. unfold ntrunc. numR. case_Rltb x 0; [lra|reflexivity]. Qed.

Lemma nfloor_div a b : (0 < b)%Z -> nfloor (IZR a / IZR b) = (a / b)%Z.
Proof.
  intros Hb. apply nfloor_unique. assert (Hb' : 0 < IZR b) by now apply IZR_lt.
  pose proof (Z.mul_div_le a b Hb) as H1. pose proof (Z.mul_succ_div_gt a b Hb) as H2.
  apply IZR_le in H1. apply IZR_lt in H2. rewrite mult_IZR in H1, H2. rewrite succ_IZR in H2. split.
  - apply Rmult_le_reg_r with (IZR b); auto. unfold Rdiv. rewrite Rmult_assoc, Rinv_l by lra. lra.
  - apply Rmult_lt_reg_r with (IZR b); auto. unfold Rdiv. rewrite Rmult_assoc, Rinv_l by lra. lra.
Qed.
Lemma nceil_div a b : (0 < b)%Z -> nceil (IZR a / IZR b) = (- ((- a) / b))%Z.
Proof.
  intros Hb. unfold nceil. change (nopp (IZR a / IZR b)) with (- (IZR a / IZR b)). assert (0 < IZR b) by now apply IZR_lt.
  replace (- (IZR a / IZR b)) with (IZR (- a) / IZR b) by (rewrite opp_IZR; field; lra).
  now rewrite nfloor_div.
Qed.

(** ** the factor rule *)
Inductive factor_spec (dt tg : R) : fac -> Prop :=
| FS_same : dt = tg -> factor_spec dt tg FSame
| FS_ref k : (2 <= k)%Z -> IZR (k - 1) * tg < dt <= IZR k * tg -> factor_spec dt tg (FRef k)
| FS_dec m : (1 <= m)%Z -> dt < tg -> IZR m * dt <= tg < IZR (m + 1) * dt -> factor_spec dt tg (FDec m).

Lemma factor_kind_spec dt tg : 0 < dt -> 0 < tg -> factor_spec dt tg (factor_kind dt tg).
Proof.
  intros Hdt Htg. unfold factor_kind. cbn [n0 n1 ndiv neqb nltb NumR]. set (q := dt / tg).
  assert (Hq : dt = q * tg) by (unfold q; field; lra).
  assert (Hq0 : 0 < q) by (unfold q; apply Rdiv_lt_0_compat; lra).
  assert (Hr : 1 / q = tg / dt) by (unfold q; field; lra).
  clearbody q.
  case_Reqb q 1; [constructor; nra|].
  case_Rltb 1 q.
  - destruct (nceil_spec q) as [H1 H2]. set (k := nceil q) in *.
    assert (Hk : (2 <= k)%Z). { assert (IZR 1 < IZR k) by lra. apply lt_IZR in H. lia. }
    constructor; auto. rewrite minus_IZR. split; nra.
  - assert (Hq1 : q < 1) by lra.
    assert (Hdlt : dt < tg) by nra.
    assert (Hr1 : 1 < tg / dt). { apply Rmult_lt_reg_r with dt; auto. unfold Rdiv. rewrite Rmult_assoc, Rinv_l by lra. lra. }
    rewrite Hr. destruct (nfloor_spec (tg / dt)) as [H1 H2]. set (m := nfloor (tg / dt)) in *.
    assert (Hm : (1 <= m)%Z). { assert (IZR 1 < IZR m + 1) by lra. rewrite <- plus_IZR in H. apply lt_IZR in H. lia. }
    assert (Ht : tg = tg / dt * dt) by (field; lra).
    constructor; auto. rewrite plus_IZR. revert H1 H2 Ht. generalize (tg / dt). generalize (IZR m). intros a r H1 H2 Ht. split; nra.
Qed.

Lemma fac_val_pos dt tg f : factor_spec dt tg f -> 0 < fac_val f.
Proof.
  intros [E|k Hk _|m Hm _ _]; cbn [fac_val]; numR; [lra| |].
  - apply IZR_lt. lia.
  - apply Rdiv_lt_0_compat; [lra|]. apply IZR_lt. lia.
Qed.

(** new step = dt / factor *)
Lemma newdt_same dt : dt / fac_val FSame = dt. Proof. cbn. numR. field. Qed.
Lemma newdt_dec dt m : (1 <= m)%Z -> dt / fac_val (FDec m) = IZR m * dt.
Proof. intros Hm. cbn. numR. assert (0 < IZR m) by (apply IZR_lt; lia). field. lra. Qed.

Lemma step_le_target dt tg f : 0 < dt -> 0 < tg -> factor_spec dt tg f -> dt / fac_val f <= tg.
Proof.
  intros Hdt Htg [E|k Hk [_ H2]|m Hm _ [H1 _]].
  - rewrite newdt_same. lra.
  - cbn. numR. assert (0 < IZR k) by (apply IZR_lt; lia).
    apply Rmult_le_reg_r with (IZR k); auto. unfold Rdiv. rewrite Rmult_assoc, Rinv_l by lra. lra.
  - rewrite newdt_dec by auto. lra.
Qed.
(** ... and it is the largest admissible step: one refinement less, or one decimation more, exceeds the target *)
Lemma step_best dt tg f : 0 < dt -> 0 < tg -> factor_spec dt tg f ->
  match f with
  | FSame => dt = tg
  | FRef k => tg < dt / IZR (k - 1)
  | FDec m => tg < IZR (m + 1) * dt
  end.
Proof.
  intros Hdt Htg [E|k Hk [H1 _]|m Hm _ [_ H2]]; auto.
  assert (0 < IZR (k - 1)) by (apply IZR_lt; lia).
  apply Rmult_lt_reg_r with (IZR (k - 1)); auto. unfold Rdiv. rewrite Rmult_assoc, Rinv_l by lra. lra.
Qed.
Lemma ratio_integer dt tg f : 0 < dt -> factor_spec dt tg f ->
  exists k : Z, (1 <= k)%Z /\ (dt = IZR k * (dt / fac_val f) \/ dt / fac_val f = IZR k * dt).
Proof.
  intros Hdt [E|k Hk _|m Hm _ _].
  - exists 1%Z. split; [lia|]. left. rewrite newdt_same. lra.
  - exists k. split; [lia|]. left. cbn. numR. assert (0 < IZR k) by (apply IZR_lt; lia). field. lra.
  - exists m. split; [lia|]. right. now apply newdt_dec.
Qed.

(** ** np.interp on the integer grid *)
Lemma last_nth_R (v : list R) : last v 0 = nth (length v - 1) v 0.
Proof.
  induction v as [|x r IH]; [reflexivity|]. destruct r as [|y r]; [reflexivity|].
  rewrite last_cons_ne by discriminate. rewrite IH. cbn [length]. rewrite !Nat.sub_succ, !Nat.sub_0_r. reflexivity.
Qed.

Lemma np_interp_at_int (v : list R) i : (i < length v)%nat -> np_interp v (IZR (Z.of_nat i)) = nth i v 0.
Proof.
  intros Hi. unfold np_interp. rewrite nfloor_IZR.
  destruct (Z.ltb_spec (Z.of_nat i) 0); [lia|].
  destruct (Z.leb_spec (Z.of_nat (length v) - 1) (Z.of_nat i)).
  - rewrite last_nth_R. f_equal. lia.
  - rewrite Nat2Z.id. numR. ring.
Qed.

Lemma np_interp_clamp (v : list R) t : IZR (Z.of_nat (length v)) - 1 <= t -> v <> [] -> np_interp v t = last v 0.
Proof.
  intros Ht Hv. unfold np_interp. destruct (nfloor_spec t) as [H1 H2].
  assert (Hlen : (0 < length v)%nat) by (destruct v; [congruence|cbn; lia]).
  assert (Hfl : (Z.of_nat (length v) - 1 <= nfloor t)%Z).
  { assert (IZR (Z.of_nat (length v) - 1) < IZR (nfloor t + 1)) by (rewrite minus_IZR, plus_IZR; lra).
    apply lt_IZR in H. lia. }
  destruct (Z.ltb_spec (nfloor t) 0); [lia|].
  destruct (Z.leb_spec (Z.of_nat (length v) - 1) (nfloor t)); [reflexivity|lia].
Qed.

Lemma np_interp_range (v : list R) t : v <> [] -> amin v <= np_interp v t <= amax v.
Proof.
  intros Hv. assert (Hlen : (0 < length v)%nat) by (destruct v; [congruence|cbn; lia]).
  assert (Hin : forall i, (i < length v)%nat -> amin v <= nth i v 0 <= amax v).
  { intros i Hi. split; [apply amin_le|apply amax_ge]; now apply nth_In. }
  unfold np_interp. destruct (nfloor_spec t) as [H1 H2]. set (i := nfloor t) in *.
  destruct (Z.ltb_spec i 0); [apply Hin; lia|].
  destruct (Z.leb_spec (Z.of_nat (length v) - 1) i).
  - rewrite last_nth_R. apply Hin. lia.
  - pose proof (Hin (Z.to_nat i) ltac:(lia)) as Ha. pose proof (Hin (S (Z.to_nat i)) ltac:(lia)) as Hb.
    numR. set (a := nth (Z.to_nat i) v 0) in *. set (b := nth (S (Z.to_nat i)) v 0) in *.
    clearbody a b. revert H1 H2. generalize (IZR i). intros z H1 H2. split; nra.
Qed.

Lemma interp_at_length (f : R) v cnt : length (interp_at f v cnt) = cnt.
Proof. unfold interp_at. now rewrite map_length, seq_length. Qed.
Lemma interp_at_nth (f : R) v cnt i : (i < cnt)%nat -> nth i (interp_at f v cnt) 0 = np_interp v (IZR (Z.of_nat i) / f).
Proof.
  intros Hi. unfold interp_at.
  rewrite (nth_map_in (fun i => np_interp v (nofZ (Z.of_nat i) / f)%num) (seq 0 cnt) i 0 0%nat) by (now rewrite seq_length).
  rewrite seq_nth by auto. reflexivity.
Qed.

(** refinement by k: the sample i of the input sits at output index k*i, unchanged *)
Lemma refine_retains k (v : list R) cnt i : (1 <= k)%Z -> (i < length v)%nat -> (Z.to_nat k * i < cnt)%nat ->
  nth (Z.to_nat k * i) (interp_at (fac_val (FRef k)) v cnt) 0 = nth i v 0.
Proof.
  intros Hk Hi Hc. rewrite interp_at_nth by auto. cbn [fac_val]. numR.
  replace (IZR (Z.of_nat (Z.to_nat k * i)) / IZR k) with (IZR (Z.of_nat i)); [now apply np_interp_at_int|].
  rewrite Nat2Z.inj_mul, Z2Nat.id, mult_IZR by lia. assert (0 < IZR k) by (apply IZR_lt; lia). field. lra.
Qed.
(** same step: the output is a prefix of the input *)
Lemma same_prefix (v : list R) cnt i : (i < cnt)%nat -> (i < length v)%nat -> nth i (interp_at (fac_val FSame) v cnt) 0 = nth i v 0.
Proof.
  intros Hc Hi. rewrite interp_at_nth by auto. cbn [fac_val]. numR. unfold Rdiv. rewrite Rinv_1, Rmult_1_r.
  now apply np_interp_at_int.
Qed.
(** decimation by m: output sample i is input sample m*i *)
Lemma decimate_picks m (v : list R) cnt i : (1 <= m)%Z -> (i < cnt)%nat -> (Z.to_nat m * i < length v)%nat ->
  nth i (interp_at (fac_val (FDec m)) v cnt) 0 = nth (Z.to_nat m * i) v 0.
Proof.
  intros Hm Hc Hi. rewrite interp_at_nth by auto. cbn [fac_val]. numR.
  replace (IZR (Z.of_nat i) / (1 / IZR m)) with (IZR (Z.of_nat (Z.to_nat m * i))); [now apply np_interp_at_int|].
  rewrite Nat2Z.inj_mul, Z2Nat.id, mult_IZR by lia. assert (0 < IZR m) by (apply IZR_lt; lia). field. lra.
Qed.
(** every output value lies within the range of the input, whatever the factor and the count *)
Lemma interp_at_range (f : R) (v : list R) cnt y : v <> [] -> In y (interp_at f v cnt) -> amin v <= y <= amax v.
Proof. intros Hv Hy. unfold interp_at in Hy. apply in_map_iff in Hy as (i & <- & _). now apply np_interp_range. Qed.

(** ** output length, as integer arithmetic *)
Lemma npts_raw_same n : npts_raw FSame n = IZR (Z.of_nat n).
Proof. unfold npts_raw. cbn [fac_val n1 nmul nofZ NumR]. ring. Qed.
Lemma npts_raw_ref k n : (1 <= k)%Z -> npts_raw (FRef k) n = IZR (k * Z.of_nat n).
Proof.
  intros Hk. unfold npts_raw. cbn [fac_val nmul nofZ NumR]. now rewrite mult_IZR.
Qed.
Lemma npts_raw_dec m n : npts_raw (FDec m) n = IZR (Z.of_nat n) / IZR m.
Proof. reflexivity. Qed.
Lemma half_floor a : (0 <= a)%Z -> ntrunc (IZR a / nofZ 2) = (a / 2)%Z.
Proof.
  intros Ha. cbn [nofZ NumR]. rewrite ntrunc_nonneg; [now apply nfloor_div|].
  apply IZR_le in Ha. lra.
Qed.
Lemma new_npts_same even n :
  new_npts even FSame n = if even then (2 * (Z.of_nat n / 2))%Z else Z.of_nat n.
Proof.
  unfold new_npts. rewrite npts_raw_same. cbv zeta. destruct even.
  - f_equal. apply half_floor. lia.
  - apply nceil_IZR.
Qed.
Lemma new_npts_ref even k n : (1 <= k)%Z ->
  new_npts even (FRef k) n = if even then (2 * ((k * Z.of_nat n) / 2))%Z else (k * Z.of_nat n)%Z.
Proof.
  intros Hk. unfold new_npts. rewrite npts_raw_ref by auto. cbv zeta. destruct even.
  - f_equal. apply half_floor. lia.
  - apply nceil_IZR.
Qed.
Lemma new_npts_dec even m n : (1 <= m)%Z ->
  new_npts even (FDec m) n = if even then (2 * (Z.of_nat n / (2 * m)))%Z else (- ((- Z.of_nat n) / m))%Z.
Proof.
  intros Hm. unfold new_npts. rewrite npts_raw_dec. cbv zeta. cbn [ndiv nofZ NumR].
  assert (Hm' : 0 < IZR m) by (apply IZR_lt; lia).
  destruct even.
  - f_equal. replace (IZR (Z.of_nat n) / IZR m / 2) with (IZR (Z.of_nat n) / IZR (2 * m)) by (rewrite mult_IZR; field; lra).
    rewrite ntrunc_nonneg; [apply nfloor_div; lia|].
    apply Rmult_le_pos; [apply IZR_le; lia|]. apply Rlt_le, Rinv_0_lt_compat, IZR_lt. lia.
  - apply nceil_div. lia.
Qed.

(** a factor is well formed when its integer is at least 1 (what [factor_spec] guarantees, and what the float chain
    produces as well) *)
Definition fac_wf (f : fac) : Prop := match f with FSame => True | FRef k => (1 <= k)%Z | FDec m => (1 <= m)%Z end.
Lemma factor_spec_wf dt tg f : factor_spec dt tg f -> fac_wf f.
Proof. intros [E|k Hk _|m Hm _ _]; cbn; auto; lia. Qed.

(** the length in units of the *new* step, bracketed by the old length in the same units:
    FSame: n-1 <= n' <= n;  FRef k: k*n-1 <= n' <= k*n;  FDec m: n - 2m < m*n' < n + m  *)
Lemma new_npts_bounds even f n : fac_wf f ->
  let n' := new_npts even f n in
  match f with
  | FSame => (Z.of_nat n - 1 <= n' <= Z.of_nat n)%Z
  | FRef k => (k * Z.of_nat n - 1 <= n' <= k * Z.of_nat n)%Z
  | FDec m => (Z.of_nat n - 2 * m < m * n' < Z.of_nat n + m)%Z
  end /\ (0 <= n')%Z /\ (even = true -> Z.even n' = true).
Proof.
  intros Hwf n'. subst n'. destruct f as [|k|m]; cbn [fac_wf] in Hwf.
  - rewrite new_npts_same. destruct even.
    + pose proof (Z.mul_div_le (Z.of_nat n) 2 ltac:(lia)). pose proof (Z.mul_succ_div_gt (Z.of_nat n) 2 ltac:(lia)).
      repeat split; try lia. intros _. now rewrite Z.even_mul.
    + repeat split; try lia; try discriminate.
  - rewrite new_npts_ref by auto. destruct even.
    + pose proof (Z.mul_div_le (k * Z.of_nat n) 2 ltac:(lia)). pose proof (Z.mul_succ_div_gt (k * Z.of_nat n) 2 ltac:(lia)).
      assert (0 <= k * Z.of_nat n)%Z by nia. assert (0 <= (k * Z.of_nat n) / 2)%Z by (apply Z.div_pos; lia).
      repeat split; try lia. intros _. now rewrite Z.even_mul.
    + repeat split; try nia; try discriminate.
  - rewrite new_npts_dec by auto. destruct even.
    + pose proof (Z.mul_div_le (Z.of_nat n) (2 * m) ltac:(lia)). pose proof (Z.mul_succ_div_gt (Z.of_nat n) (2 * m) ltac:(lia)).
      assert (0 <= Z.of_nat n / (2 * m))%Z by (apply Z.div_pos; lia).
      repeat split; try nia. intros _. now rewrite Z.even_mul.
    + pose proof (Z.mul_div_le (- Z.of_nat n) m ltac:(lia)). pose proof (Z.mul_succ_div_gt (- Z.of_nat n) m ltac:(lia)).
      assert ((- Z.of_nat n) / m <= 0)%Z by (apply Z.div_le_upper_bound; lia).
      repeat split; try nia; try discriminate.
Qed.

(** ** covered duration (number of samples x step) changes by less than two steps *)
Definition len_bounds (f : fac) (n : nat) (N : Z) : Prop :=
  match f with
  | FSame => (Z.of_nat n - 1 <= N <= Z.of_nat n)%Z
  | FRef k => (k * Z.of_nat n - 1 <= N <= k * Z.of_nat n)%Z
  | FDec m => (Z.of_nat n - 2 * m < m * N < Z.of_nat n + m)%Z
  end.
Lemma duration_of_bounds f n N dt : 0 < dt -> fac_wf f -> len_bounds f n N ->
  Rabs (IZR N * (dt / fac_val f) - IZR (Z.of_nat n) * dt) < 2 * Rmax dt (dt / fac_val f).
Proof.
  intros Hdt Hwf Hb. unfold len_bounds in Hb.
  pose proof (Rmax_l dt (dt / fac_val f)) as Hl. pose proof (Rmax_r dt (dt / fac_val f)) as Hr.
  destruct f as [|k|m]; cbn [fac_wf] in Hwf.
  - rewrite newdt_same in *. destruct Hb as [H1 H2]. apply IZR_le in H1, H2. rewrite minus_IZR in H1.
    apply Rabs_def1; nra.
  - destruct Hb as [H1 H2]. apply IZR_le in H1, H2. rewrite minus_IZR, mult_IZR in H1. rewrite mult_IZR in H2.
    cbn [fac_val nofZ NumR] in *. assert (Hk : 1 <= IZR k) by (apply IZR_le; lia).
    replace (IZR N * (dt / IZR k) - IZR (Z.of_nat n) * dt) with ((IZR N - IZR k * IZR (Z.of_nat n)) * (dt / IZR k)) by (field; lra).
    assert (Hq : 0 < dt / IZR k <= dt).
    { split; [apply Rdiv_lt_0_compat; lra|]. apply Rmult_le_reg_r with (IZR k); [lra|]. unfold Rdiv. rewrite Rmult_assoc, Rinv_l by lra. nra. }
    revert Hq Hl Hr. generalize (dt / IZR k). intros e Hq Hl Hr. apply Rabs_def1; nra.
  - destruct Hb as [H1 H2]. apply IZR_lt in H1, H2. rewrite minus_IZR, !mult_IZR in H1. rewrite mult_IZR, plus_IZR in H2.
    rewrite newdt_dec in * by auto. assert (Hm : 1 <= IZR m) by (apply IZR_le; lia).
    revert H1 H2. generalize (IZR N) (IZR (Z.of_nat n)). intros a b H1 H2. apply Rabs_def1; nra.
Qed.
Lemma duration_bound even f n dt : 0 < dt -> fac_wf f ->
  Rabs (IZR (new_npts even f n) * (dt / fac_val f) - IZR (Z.of_nat n) * dt) < 2 * Rmax dt (dt / fac_val f).
Proof. intros Hdt Hwf. apply duration_of_bounds; auto. now destruct (new_npts_bounds even f n Hwf) as (Hb & _ & _). Qed.

(** a record at least two (old or target) steps long yields at least two output samples *)
Lemma nonempty_bound even dt tg f n : 0 < dt -> 0 < tg -> factor_spec dt tg f ->
  2 * Rmax dt tg <= IZR (Z.of_nat n) * dt -> (2 <= new_npts even f n)%Z.
Proof.
  intros Hdt Htg Hf Hn. pose proof (Rmax_l dt tg) as Hl. pose proof (Rmax_r dt tg) as Hr.
  assert (Hn2 : (2 <= Z.of_nat n)%Z). { apply le_IZR. nra. }
  destruct Hf as [E|k Hk _|m Hm Hlt [H1 _]].
  - rewrite new_npts_same. destruct even; [|lia]. pose proof (Z.mul_succ_div_gt (Z.of_nat n) 2 ltac:(lia)).
    assert (1 <= Z.of_nat n / 2)%Z by (apply Z.div_le_lower_bound; lia). lia.
  - destruct (new_npts_bounds even (FRef k) n) as (Hb & _ & _); [cbn; lia|]. nia.
  - assert (Hnm : (2 * m <= Z.of_nat n)%Z).
    { apply le_IZR. rewrite mult_IZR. assert (IZR m * dt <= tg) by lra.
      apply Rmult_le_reg_r with dt; auto. nra. }
    rewrite new_npts_dec by auto. destruct even.
    + assert (1 <= Z.of_nat n / (2 * m))%Z by (apply Z.div_le_lower_bound; lia). lia.
    + assert ((- Z.of_nat n) / m <= -2)%Z by (apply Z.div_le_upper_bound; lia). lia.
Qed.

(** ** the functions: interp_array_to_approx_dt / interp_to_approx_dt *)
Lemma nth_firstn_lt {A} (l : list A) i j d : (i < j)%nat -> nth i (firstn j l) d = nth i l d.
Proof. revert i j; induction l as [|x r IH]; intros i j Hij; destruct j; try lia; destruct i; cbn; auto. apply IH. lia. Qed.

Lemma out_length even v (dt tg : R) :
  length (fst (interp_approx even v dt tg)) = Z.to_nat (new_npts even (factor_kind dt tg) (length v)).
Proof. unfold interp_approx. cbn [fst]. apply interp_at_length. Qed.
Lemma out_length_Z even v (dt tg : R) : 0 < dt -> 0 < tg ->
  Z.of_nat (length (fst (interp_approx even v dt tg))) = new_npts even (factor_kind dt tg) (length v).
Proof.
  intros Hdt Htg. rewrite out_length. apply Z2Nat.id. unfold factor.
  pose proof (factor_spec_wf _ _ _ (factor_kind_spec dt tg Hdt Htg)) as Hwf.
  now destruct (new_npts_bounds even _ (length v) Hwf) as (_ & H & _).
Qed.

Lemma C14_step_le_target even v dt tg : 0 < dt -> 0 < tg -> snd (interp_approx even v dt tg) <= tg.
Proof. intros. unfold interp_approx, factor. cbn [snd]. apply step_le_target; auto. now apply factor_kind_spec. Qed.

Lemma C14_step_best even v dt tg : 0 < dt -> 0 < tg ->
  let nd := snd (interp_approx even v dt tg) in
  (dt = tg -> nd = dt) /\
  (tg < dt -> exists k, (2 <= k)%Z /\ nd = dt / IZR k /\ tg < dt / IZR (k - 1)) /\
  (dt < tg -> exists m, (1 <= m)%Z /\ nd = IZR m * dt /\ tg < IZR (m + 1) * dt).
Proof.
  intros Hdt Htg nd. subst nd. unfold interp_approx, factor. cbn [snd].
  pose proof (factor_kind_spec dt tg Hdt Htg) as Hs. pose proof (step_best dt tg _ Hdt Htg Hs) as Hb.
  destruct Hs as [E|k Hk [H1 H2]|m Hm Hlt [H1 H2]].
  - rewrite newdt_same. repeat split; auto; intros; lra.
  - assert (0 < IZR (k - 1)) by (apply IZR_lt; lia).
    assert (tg < dt). { assert (1 <= IZR (k - 1)) by (apply IZR_le; lia). nra. }
    repeat split; try (intros; lra). intros _. exists k. repeat split; auto.
  - rewrite newdt_dec by auto. repeat split; try (intros; lra). intros _. exists m. repeat split; auto.
Qed.

Lemma C14_ratio even v dt tg : 0 < dt -> 0 < tg ->
  exists k : Z, (1 <= k)%Z /\
    (dt = IZR k * snd (interp_approx even v dt tg) \/ snd (interp_approx even v dt tg) = IZR k * dt).
Proof. intros Hdt Htg. unfold interp_approx, factor. cbn [snd]. apply (ratio_integer dt tg); auto. now apply factor_kind_spec. Qed.

Lemma factor_same dt : 0 < dt -> factor_kind dt dt = FSame.
Proof.
  intros Hdt. destruct (factor_kind_spec dt dt Hdt Hdt) as [E|k Hk [H1 H2]|m Hm Hlt _]; auto; [|lra].
  assert (1 <= IZR (k - 1)) by (apply IZR_le; lia). nra.
Qed.
Lemma C14_identity_when_equal even (v : list R) dt : 0 < dt ->
  interp_approx even v dt dt = (firstn (if even then 2 * (length v / 2) else length v) v, dt).
Proof.
  intros Hdt. unfold interp_approx, factor. rewrite factor_same by auto. rewrite newdt_same. f_equal.
  rewrite new_npts_same.
  set (cnt := (if even then 2 * (length v / 2) else length v)%nat).
  assert (Hc : Z.to_nat (if even then (2 * (Z.of_nat (length v) / 2))%Z else Z.of_nat (length v)) = cnt).
  { unfold cnt. destruct even; [|apply Nat2Z.id]. rewrite <- (Nat2Z.id (2 * (length v / 2))). f_equal.
    rewrite Nat2Z.inj_mul, Nat2Z.inj_div. reflexivity. }
  rewrite Hc. assert (Hle : (cnt <= length v)%nat).
  { unfold cnt. destruct even; [|lia]. pose proof (Nat.mul_div_le (length v) 2). lia. }
  apply (nth_ext _ _ 0 0).
  - rewrite interp_at_length, firstn_length. lia.
  - intros i Hi. rewrite interp_at_length in Hi. rewrite same_prefix by lia. now rewrite nth_firstn_lt.
Qed.

Lemma C14_refine_retains even (v : list R) dt tg : 0 < tg -> tg < dt ->
  exists k, (2 <= k)%Z /\ dt = IZR k * snd (interp_approx even v dt tg) /\
    forall i, (i < length v)%nat ->
      (Z.to_nat k * i < length (fst (interp_approx even v dt tg)))%nat /\
      nth (Z.to_nat k * i) (fst (interp_approx even v dt tg)) 0 = nth i v 0.
Proof.
  intros Htg Hlt. assert (Hdt : 0 < dt) by lra.
  pose proof (out_length_Z even v dt tg Hdt Htg) as HL. unfold interp_approx, factor in *. cbn [fst snd] in *.
  destruct (factor_kind_spec dt tg Hdt Htg) as [E|k Hk _|m Hm Hlt' _]; try lra.
  exists k. split; auto. split.
  - cbn [fac_val nofZ ndiv NumR]. assert (0 < IZR k) by (apply IZR_lt; lia). field. lra.
  - intros i Hi. destruct (new_npts_bounds even (FRef k) (length v)) as (Hb & Hpos & _); [cbn; lia|]. cbn zeta in Hb.
    assert (Hc : (Z.to_nat k * i < length (interp_at (fac_val (FRef k)) v (Z.to_nat (new_npts even (FRef k) (length v)))))%nat).
    { apply Nat2Z.inj_lt. rewrite HL, Nat2Z.inj_mul, Z2Nat.id by lia. nia. }
    split; auto. rewrite interp_at_length in Hc. apply refine_retains; auto; lia.
Qed.

Lemma C14_decimate_subsequence even (v : list R) dt tg : 0 < dt -> dt < tg ->
  exists m, (1 <= m)%Z /\ snd (interp_approx even v dt tg) = IZR m * dt /\
    forall i, (i < length (fst (interp_approx even v dt tg)))%nat ->
      (Z.to_nat m * i < length v)%nat /\
      nth i (fst (interp_approx even v dt tg)) 0 = nth (Z.to_nat m * i) v 0.
Proof.
  intros Hdt Hlt. assert (Htg : 0 < tg) by lra.
  pose proof (out_length_Z even v dt tg Hdt Htg) as HL. unfold interp_approx, factor in *. cbn [fst snd] in *.
  destruct (factor_kind_spec dt tg Hdt Htg) as [E|k Hk [H1 _]|m Hm _ _]; try lra.
  { assert (1 <= IZR (k - 1)) by (apply IZR_le; lia). nra. }
  exists m. split; auto. split; [now apply newdt_dec|].
  intros i Hi. destruct (new_npts_bounds even (FDec m) (length v)) as (Hb & Hpos & _); [cbn; lia|]. cbn zeta in Hb.
  assert (Hc : (Z.to_nat m * i < length v)%nat).
  { apply Nat2Z.inj_lt. rewrite Nat2Z.inj_mul, Z2Nat.id by lia. apply Nat2Z.inj_lt in Hi. rewrite HL in Hi. nia. }
  split; auto. rewrite interp_at_length in Hi. apply decimate_picks; auto.
Qed.

Lemma C14_range even (v : list R) dt tg y : v <> [] -> In y (fst (interp_approx even v dt tg)) -> amin v <= y <= amax v.
Proof. intros Hv. unfold interp_approx. cbn [fst]. now apply interp_at_range. Qed.

Lemma C14_duration even (v : list R) dt tg : 0 < dt -> 0 < tg ->
  let out := interp_approx even v dt tg in
  Rabs (IZR (Z.of_nat (length (fst out))) * snd out - IZR (Z.of_nat (length v)) * dt) < 2 * Rmax dt (snd out).
Proof.
  intros Hdt Htg out. subst out. rewrite out_length_Z by auto. unfold interp_approx, factor. cbn [snd].
  apply duration_bound; auto. apply (factor_spec_wf dt tg). now apply factor_kind_spec.
Qed.

Lemma C14_even (v : list R) dt tg : 0 < dt -> 0 < tg ->
  Z.even (Z.of_nat (length (fst (interp_approx true v dt tg)))) = true.
Proof.
  intros Hdt Htg. rewrite out_length_Z by auto. unfold factor.
  pose proof (factor_spec_wf _ _ _ (factor_kind_spec dt tg Hdt Htg)) as Hwf.
  destruct (new_npts_bounds true _ (length v) Hwf) as (_ & _ & H). now apply H.
Qed.

Lemma C14_nonempty even (v : list R) dt tg : 0 < dt -> 0 < tg ->
  2 * Rmax dt tg <= IZR (Z.of_nat (length v)) * dt -> (2 <= length (fst (interp_approx even v dt tg)))%nat.
Proof.
  intros Hdt Htg Hn. apply Nat2Z.inj_le. rewrite out_length_Z by auto. unfold factor.
  apply (nonempty_bound even dt tg); auto. now apply factor_kind_spec.
Qed.

(** ** resample_to_approx_dt: same step rule; length rule int(.) then 2*int(./2); scipy's resample is an oracle of which
    only the output length is assumed *)
Lemma quot2 c : (0 <= c)%Z -> (c - 1 <= 2 * Z.quot c 2 <= c)%Z /\ Z.even (2 * Z.quot c 2) = true.
Proof.
  intros Hc. rewrite Z.quot_div_nonneg by lia.
  pose proof (Z.mul_div_le c 2 ltac:(lia)). pose proof (Z.mul_succ_div_gt c 2 ltac:(lia)).
  split; [lia|]. now rewrite Z.even_mul.
Qed.
(** the count handed to scipy: exactly factor * npts when that is an integer, its floor otherwise *)
Lemma rs_count_spec f n : fac_wf f ->
  let c := rs_count f n in
  (0 <= c)%Z /\ match f with FSame => c = Z.of_nat n | FRef k => c = (k * Z.of_nat n)%Z
                          | FDec m => (Z.of_nat n - m < m * c <= Z.of_nat n)%Z end.
Proof.
  intros Hwf. unfold rs_count. destruct f as [|k|m]; cbn [fac_wf] in Hwf; cbv zeta.
  - rewrite npts_raw_same. rewrite ntrunc_nonneg by (apply IZR_le; lia). rewrite nfloor_IZR. split; [lia|reflexivity].
  - rewrite npts_raw_ref by auto. rewrite ntrunc_nonneg by (apply IZR_le; nia). rewrite nfloor_IZR. split; [nia|reflexivity].
  - rewrite npts_raw_dec. assert (Hm' : 0 < IZR m) by (apply IZR_lt; lia).
    rewrite ntrunc_nonneg by (apply Rmult_le_pos; [apply IZR_le; lia|apply Rlt_le, Rinv_0_lt_compat; lra]). rewrite nfloor_div by lia.
    pose proof (Z.mul_div_le (Z.of_nat n) m ltac:(lia)). pose proof (Z.mul_succ_div_gt (Z.of_nat n) m ltac:(lia)).
    assert (0 <= Z.of_nat n / m)%Z by (apply Z.div_pos; lia). split; lia.
Qed.
Lemma new_npts_rs_bounds even f n : fac_wf f ->
  let n' := new_npts_rs even f n in
  len_bounds f n n' /\ (0 <= n')%Z /\ (even = true -> Z.even n' = true).
Proof.
  intros Hwf n'. subst n'. unfold new_npts_rs, len_bounds.
  destruct (rs_count_spec f n Hwf) as [Hc0 Hc]. set (c := rs_count f n) in *. clearbody c.
  destruct (quot2 c Hc0) as [Hq He].
  destruct even.
  - destruct f as [|k|m]; cbn [fac_wf] in Hwf; (split; [|split; [lia|auto]]); try lia. nia.
  - destruct f as [|k|m]; cbn [fac_wf] in Hwf; (split; [|split; [lia|discriminate]]); try lia.
Qed.

Section Resample.
Variable RS : list R -> nat -> list R.
Hypothesis RS_length : forall v num, length (RS v num) = num.

Lemma C14_resample_step even v dt tg :
  snd (resample_approx RS even v dt tg) = snd (interp_approx even v dt tg).
Proof. reflexivity. Qed.
Lemma rs_length_Z even v (dt tg : R) : 0 < dt -> 0 < tg ->
  Z.of_nat (length (fst (resample_approx RS even v dt tg))) = new_npts_rs even (factor_kind dt tg) (length v).
Proof.
  intros Hdt Htg. unfold resample_approx. cbn [fst].
  pose proof (factor_spec_wf _ _ _ (factor_kind_spec dt tg Hdt Htg)) as Hwf.
  destruct (rs_count_spec (factor_kind dt tg) (length v) Hwf) as [Hc0 _].
  unfold new_npts_rs. set (c := rs_count (factor_kind dt tg) (length v)) in *. clearbody c.
  destruct (quot2 c Hc0) as [Hq _]. destruct even.
  - rewrite firstn_length, RS_length. rewrite Nat2Z.inj_min, !Z2Nat.id by lia. lia.
  - rewrite RS_length. apply Z2Nat.id. lia.
Qed.
(** the count handed to the oracle is exactly factor * npts whenever that is an integer: the resampled grid then spans
    exactly the record's period npts * dt with step dt / factor (no time warp); even-trimming happens afterwards *)
Lemma C14_resample_count_exact (v : list R) dt tg : 0 < dt -> 0 < tg ->
  let k := factor_kind dt tg in let c := rs_count k (length v) in
  (match k with FDec m => (Z.of_nat (length v) mod m = 0)%Z | _ => True end) ->
  IZR c * (dt / fac_val k) = IZR (Z.of_nat (length v)) * dt.
Proof.
  intros Hdt Htg k c Hdiv. subst k c.
  pose proof (factor_spec_wf _ _ _ (factor_kind_spec dt tg Hdt Htg)) as Hwf.
  destruct (rs_count_spec (factor_kind dt tg) (length v) Hwf) as [_ Hc]. cbv zeta in Hc.
  destruct (factor_kind dt tg) as [|k|m]; cbn [fac_wf] in Hwf.
  - rewrite Hc, newdt_same. reflexivity.
  - rewrite Hc, mult_IZR. cbn [fac_val nofZ NumR]. assert (0 < IZR k) by (apply IZR_lt; lia). field. lra.
  - rewrite newdt_dec by auto. apply Z.div_exact in Hdiv; [|lia].
    assert (E : (m * rs_count (FDec m) (length v))%Z = Z.of_nat (length v)).
    { unfold rs_count. rewrite npts_raw_dec. assert (Hm' : 0 < IZR m) by (apply IZR_lt; lia).
      rewrite ntrunc_nonneg by (apply Rmult_le_pos; [apply IZR_le; lia|apply Rlt_le, Rinv_0_lt_compat; lra]).
      rewrite nfloor_div by lia. lia. }
    rewrite <- E, mult_IZR. ring.
Qed.
Lemma C14_resample_even v dt tg : 0 < dt -> 0 < tg ->
  Z.even (Z.of_nat (length (fst (resample_approx RS true v dt tg)))) = true.
Proof.
  intros Hdt Htg. rewrite rs_length_Z by auto.
  pose proof (factor_spec_wf _ _ _ (factor_kind_spec dt tg Hdt Htg)) as Hwf.
  destruct (new_npts_rs_bounds true _ (length v) Hwf) as (_ & _ & H). now apply H.
Qed.
Lemma C14_resample_duration even (v : list R) dt tg : 0 < dt -> 0 < tg ->
  let out := resample_approx RS even v dt tg in
  Rabs (IZR (Z.of_nat (length (fst out))) * snd out - IZR (Z.of_nat (length v)) * dt) < 2 * Rmax dt (snd out).
Proof.
  intros Hdt Htg out. subst out. rewrite rs_length_Z by auto. unfold resample_approx. cbn [snd].
  pose proof (factor_spec_wf _ _ _ (factor_kind_spec dt tg Hdt Htg)) as Hwf.
  apply duration_of_bounds; auto. now destruct (new_npts_rs_bounds even _ (length v) Hwf) as (H & _ & _).
Qed.
End Resample.
