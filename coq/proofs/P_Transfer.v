(** Q -> R transfer, one lemma per model function (DESIGN 2.2): the Q instance that the correspondence check executes
    and the R instance the theorems are stated about produce related results on related inputs
    ([rel q r := Q2R q = r], lifted through lists / pairs / options; equal results where the output is an index, an
    integer or a flag).  This file: M_displacements, M_im, M_sdof, M_spectra.  All statements are for all inputs.
    After each lemma the tactic hook [xfer_hook] of lib/Transfer.v is extended with it, so that later definitions
    are handled by unfolding one level and decomposing. *)
From Coq Require Import ZArith QArith Reals List Bool Lia.
From EQ Require Import lib.Num lib.NpList lib.Transfer model.M_displacements model.M_im model.M_sdof model.M_spectra.
Import ListNotations.

(** * M_displacements *)
Lemma velo_trap_transfer dt dt' a a' : rel dt dt' -> relL a a' -> relL (velo_trap dt a) (velo_trap dt' a').
Proof. xfer_def velo_trap. Qed.
Ltac hook_a1 h :=
  lazymatch h with
  | @velo_trap => apply velo_trap_transfer
  | _ => fail
  end.
Ltac xfer_hook ::= xfer_dispatch hook_a1.
Lemma disp_trap_transfer dt dt' a a' : rel dt dt' -> relL a a' -> relL (disp_trap dt a) (disp_trap dt' a').
Proof. xfer_def disp_trap. Qed.
Ltac hook_a2 h :=
  lazymatch h with
  | @disp_trap => apply disp_trap_transfer
  | _ => hook_a1 h
  end.
Ltac xfer_hook ::= xfer_dispatch hook_a2.
Lemma velo_rect_full_transfer dt dt' a a' : rel dt dt' -> relL a a' -> relL (velo_rect_full dt a) (velo_rect_full dt' a').
Proof. xfer_def velo_rect_full. Qed.
Ltac hook_a3 h :=
  lazymatch h with
  | @velo_rect_full => apply velo_rect_full_transfer
  | _ => hook_a2 h
  end.
Ltac xfer_hook ::= xfer_dispatch hook_a3.
Lemma velo_rect_transfer dt dt' a a' : rel dt dt' -> relL a a' -> relL (velo_rect dt a) (velo_rect dt' a').
Proof. xfer_def velo_rect. Qed.
Ltac hook_a4 h :=
  lazymatch h with
  | @velo_rect => apply velo_rect_transfer
  | _ => hook_a3 h
  end.
Ltac xfer_hook ::= xfer_dispatch hook_a4.
Lemma disp_rect_transfer dt dt' a a' : rel dt dt' -> relL a a' -> relL (disp_rect dt a) (disp_rect dt' a').
Proof. xfer_def disp_rect. Qed.
Ltac hook_a5 h :=
  lazymatch h with
  | @disp_rect => apply disp_rect_transfer
  | _ => hook_a4 h
  end.
Ltac xfer_hook ::= xfer_dispatch hook_a5.
Lemma velo_disp_transfer trap dt dt' a a' : rel dt dt' -> relL a a' ->
  relP relL relL (velo_disp trap dt a) (velo_disp trap dt' a').
Proof. xfer_def velo_disp. Qed.
Ltac hook_a6 h :=
  lazymatch h with
  | @velo_disp => apply velo_disp_transfer
  | _ => hook_a5 h
  end.
Ltac xfer_hook ::= xfer_dispatch hook_a6.
Lemma calc_peak_transfer m m' : relL m m' -> rel (calc_peak m) (calc_peak m').
Proof. xfer_def calc_peak. Qed.
Ltac hook_a7 h :=
  lazymatch h with
  | @calc_peak => apply calc_peak_transfer
  | _ => hook_a6 h
  end.
Ltac xfer_hook ::= xfer_dispatch hook_a7.

(** * M_im *)
Lemma trapz_transfer dx dx' l l' : rel dx dx' -> relL l l' -> rel (trapz dx l) (trapz dx' l').
Proof. xfer_def trapz. Qed.
Ltac hook_a8 h :=
  lazymatch h with
  | @trapz => apply trapz_transfer
  | _ => hook_a7 h
  end.
Ltac xfer_hook ::= xfer_dispatch hook_a8.
Lemma arias_transfer c c' dt dt' a a' : rel c c' -> rel dt dt' -> relL a a' -> relL (arias c dt a) (arias c' dt' a').
Proof. xfer_def arias. Qed.
Ltac hook_a9 h :=
  lazymatch h with
  | @arias => apply arias_transfer
  | _ => hook_a8 h
  end.
Ltac xfer_hook ::= xfer_dispatch hook_a9.
Lemma cav_transfer dt dt' a a' : rel dt dt' -> relL a a' -> relL (cav dt a) (cav dt' a').
Proof. xfer_def cav. Qed.
Ltac hook_a10 h :=
  lazymatch h with
  | @cav => apply cav_transfer
  | _ => hook_a9 h
  end.
Ltac xfer_hook ::= xfer_dispatch hook_a10.
Lemma isv_transfer dt dt' a a' : rel dt dt' -> relL a a' -> relL (isv dt a) (isv dt' a').
Proof. xfer_def isv. Qed.
Ltac hook_a11 h :=
  lazymatch h with
  | @isv => apply isv_transfer
  | _ => hook_a10 h
  end.
Ltac xfer_hook ::= xfer_dispatch hook_a11.
Lemma int_abs_transfer dt dt' x x' : rel dt dt' -> relL x x' -> relL (int_abs dt x) (int_abs dt' x').
Proof. xfer_def int_abs. Qed.
Ltac hook_a12 h :=
  lazymatch h with
  | @int_abs => apply int_abs_transfer
  | _ => hook_a11 h
  end.
Ltac xfer_hook ::= xfer_dispatch hook_a12.
Lemma int_abs_acc_transfer dt dt' a a' : rel dt dt' -> relL a a' -> relL (int_abs_acc dt a) (int_abs_acc dt' a').
Proof. xfer_def int_abs_acc. Qed.
Ltac hook_a13 h :=
  lazymatch h with
  | @int_abs_acc => apply int_abs_acc_transfer
  | _ => hook_a12 h
  end.
Ltac xfer_hook ::= xfer_dispatch hook_a13.
Lemma int_abs_vel_transfer dt dt' a a' : rel dt dt' -> relL a a' -> relL (int_abs_vel dt a) (int_abs_vel dt' a').
Proof. xfer_def int_abs_vel. Qed.
Ltac hook_a14 h :=
  lazymatch h with
  | @int_abs_vel => apply int_abs_vel_transfer
  | _ => hook_a13 h
  end.
Ltac xfer_hook ::= xfer_dispatch hook_a14.
Lemma kin_energy_transfer v v' : relL v v' -> relL (kin_energy v) (kin_energy v').
Proof. xfer_def kin_energy. Qed.
Ltac hook_a15 h :=
  lazymatch h with
  | @kin_energy => apply kin_energy_transfer
  | _ => hook_a14 h
  end.
Ltac xfer_hook ::= xfer_dispatch hook_a15.
Lemma unit_ke_transfer dt dt' a a' : rel dt dt' -> relL a a' -> relL (unit_ke dt a) (unit_ke dt' a').
Proof. xfer_def unit_ke. Qed.
Ltac hook_a16 h :=
  lazymatch h with
  | @unit_ke => apply unit_ke_transfer
  | _ => hook_a15 h
  end.
Ltac xfer_hook ::= xfer_dispatch hook_a16.
Lemma interp_grid_transfer fp fp' t t' : relL fp fp' -> rel t t' -> rel (interp_grid fp t) (interp_grid fp' t').
Proof. xfer_def interp_grid. Qed.
Ltac hook_a17 h :=
  lazymatch h with
  | @interp_grid => apply interp_grid_transfer
  | _ => hook_a16 h
  end.
Ltac xfer_hook ::= xfer_dispatch hook_a17.
Lemma window_transfer start len l l' : relL l l' -> relL (window start len l) (window start len l').
Proof. xfer_def window. Qed.
Ltac hook_a18 h :=
  lazymatch h with
  | @window => apply window_transfer
  | _ => hook_a17 h
  end.
Ltac xfer_hook ::= xfer_dispatch hook_a18.
Lemma cavdp_windows_transfer thr thr' dt dt' pps nwin start acc acc' ag ag' :
  rel thr thr' -> rel dt dt' -> rel acc acc' -> relL ag ag' ->
  relL (cavdp_windows thr dt pps nwin start acc ag) (cavdp_windows thr' dt' pps nwin start acc' ag').
Proof.
  intros Ht Hd Ha Hag. revert start acc acc' Ha. induction nwin as [|k IH]; intros; cbn [cavdp_windows]; xfer.
Qed.
Ltac hook_a19 h :=
  lazymatch h with
  | @cavdp_windows => apply cavdp_windows_transfer
  | _ => hook_a18 h
  end.
Ltac xfer_hook ::= xfer_dispatch hook_a19.
Lemma times_transfer dt dt' n : rel dt dt' -> relL (times dt n) (times dt' n).
Proof. xfer_def times. Qed.
Ltac hook_a20 h :=
  lazymatch h with
  | @times => apply times_transfer
  | _ => hook_a19 h
  end.
Ltac xfer_hook ::= xfer_dispatch hook_a20.
Lemma cav_dp_transfer g g' thr thr' dt dt' pps nwin a a' : rel g g' -> rel thr thr' -> rel dt dt' -> relL a a' ->
  relL (cav_dp g thr dt pps nwin a) (cav_dp g' thr' dt' pps nwin a').
Proof. xfer_def cav_dp. Qed.
Ltac hook_a21 h :=
  lazymatch h with
  | @cav_dp => apply cav_dp_transfer
  | _ => hook_a20 h
  end.
Ltac xfer_hook ::= xfer_dispatch hook_a21.
Lemma between_transfer lo lo' hi hi' tot tot' x x' : rel lo lo' -> rel hi hi' -> rel tot tot' -> rel x x' ->
  between lo hi tot x = between lo' hi' tot' x'.
Proof. xfer_def between. Qed.
Ltac hook_a22 h :=
  lazymatch h with
  | @between => apply between_transfer
  | _ => hook_a21 h
  end.
Ltac xfer_hook ::= xfer_dispatch hook_a22.
Lemma sig_dur_idx_transfer lo lo' hi hi' cum cum' : rel lo lo' -> rel hi hi' -> relL cum cum' ->
  sig_dur_idx lo hi cum = sig_dur_idx lo' hi' cum'.
Proof. xfer_def sig_dur_idx. Qed.
Ltac hook_a23 h :=
  lazymatch h with
  | @sig_dur_idx => apply sig_dur_idx_transfer
  | _ => hook_a22 h
  end.
Ltac xfer_hook ::= xfer_dispatch hook_a23.
Lemma sig_dur_vals_idx_transfer lo lo' hi hi' a a' : rel lo lo' -> rel hi hi' -> relL a a' ->
  sig_dur_vals_idx lo hi a = sig_dur_vals_idx lo' hi' a'.
Proof. xfer_def sig_dur_vals_idx. Qed.
Ltac hook_a24 h :=
  lazymatch h with
  | @sig_dur_vals_idx => apply sig_dur_vals_idx_transfer
  | _ => hook_a23 h
  end.
Ltac xfer_hook ::= xfer_dispatch hook_a24.
Lemma idx_time_transfer dt dt' i : rel dt dt' -> rel (idx_time dt i) (idx_time dt' i).
Proof. xfer_def idx_time. Qed.
Ltac hook_a25 h :=
  lazymatch h with
  | @idx_time => apply idx_time_transfer
  | _ => hook_a24 h
  end.
Ltac xfer_hook ::= xfer_dispatch hook_a25.
Lemma sig_dur_se_transfer dt dt' lo lo' hi hi' cum cum' : rel dt dt' -> rel lo lo' -> rel hi hi' -> relL cum cum' ->
  relO (relP rel rel) (sig_dur_se dt lo hi cum) (sig_dur_se dt' lo' hi' cum').
Proof. xfer_def sig_dur_se. Qed.
Ltac hook_a26 h :=
  lazymatch h with
  | @sig_dur_se => apply sig_dur_se_transfer
  | _ => hook_a25 h
  end.
Ltac xfer_hook ::= xfer_dispatch hook_a26.
Lemma brac_idx_transfer thr thr' a a' : rel thr thr' -> relL a a' -> brac_idx thr a = brac_idx thr' a'.
Proof. xfer_def brac_idx. Qed.
Ltac hook_a27 h :=
  lazymatch h with
  | @brac_idx => apply brac_idx_transfer
  | _ => hook_a26 h
  end.
Ltac xfer_hook ::= xfer_dispatch hook_a27.
Lemma brac_dur_se_transfer dt dt' thr thr' a a' : rel dt dt' -> rel thr thr' -> relL a a' ->
  relO (relP rel rel) (brac_dur_se dt thr a) (brac_dur_se dt' thr' a').
Proof. xfer_def brac_dur_se. Qed.
Ltac hook_a28 h :=
  lazymatch h with
  | @brac_dur_se => apply brac_dur_se_transfer
  | _ => hook_a27 h
  end.
Ltac xfer_hook ::= xfer_dispatch hook_a28.
Lemma brac_dur_transfer dt dt' thr thr' a a' : rel dt dt' -> rel thr thr' -> relL a a' ->
  rel (brac_dur dt thr a) (brac_dur dt' thr' a').
Proof. xfer_def brac_dur. Qed.
Ltac hook_a29 h :=
  lazymatch h with
  | @brac_dur => apply brac_dur_transfer
  | _ => hook_a28 h
  end.
Ltac xfer_hook ::= xfer_dispatch hook_a29.

(** * M_sdof *)
(** the eight recurrence coefficients of one oscillator *)
Definition relC (c : coeffs Q) (c' : coeffs R) : Prop :=
  rel (a11 c) (a11 c') /\ rel (a12 c) (a12 c') /\ rel (a21 c) (a21 c') /\ rel (a22 c) (a22 c') /\
  rel (b11 c) (b11 c') /\ rel (b12 c) (b12 c') /\ rel (b21 c) (b21 c') /\ rel (b22 c) (b22 c').
Ltac relof_hook A ::= lazymatch A with coeffs Q => constr:(relC) end.
Lemma relC_a11 c c' : relC c c' -> rel (a11 c) (a11 c'). Proof. unfold relC; tauto. Qed.
Lemma relC_a12 c c' : relC c c' -> rel (a12 c) (a12 c'). Proof. unfold relC; tauto. Qed.
Lemma relC_a21 c c' : relC c c' -> rel (a21 c) (a21 c'). Proof. unfold relC; tauto. Qed.
Lemma relC_a22 c c' : relC c c' -> rel (a22 c) (a22 c'). Proof. unfold relC; tauto. Qed.
Lemma relC_b11 c c' : relC c c' -> rel (b11 c) (b11 c'). Proof. unfold relC; tauto. Qed.
Lemma relC_b12 c c' : relC c c' -> rel (b12 c) (b12 c'). Proof. unfold relC; tauto. Qed.
Lemma relC_b21 c c' : relC c c' -> rel (b21 c) (b21 c'). Proof. unfold relC; tauto. Qed.
Lemma relC_b22 c c' : relC c c' -> rel (b22 c) (b22 c'). Proof. unfold relC; tauto. Qed.
Ltac hook_a30 h :=
  lazymatch h with
  | @a11 => apply relC_a11
  | @a12 => apply relC_a12
  | @a21 => apply relC_a21
  | @a22 => apply relC_a22
  | @b11 => apply relC_b11
  | @b12 => apply relC_b12
  | @b21 => apply relC_b21
  | @b22 => apply relC_b22
  | _ => hook_a29 h
  end.
Ltac xfer_hook ::= xfer_dispatch hook_a30.
Lemma relC_mkC x1 x1' x2 x2' x3 x3' x4 x4' x5 x5' x6 x6' x7 x7' x8 x8' :
  rel x1 x1' -> rel x2 x2' -> rel x3 x3' -> rel x4 x4' -> rel x5 x5' -> rel x6 x6' -> rel x7 x7' -> rel x8 x8' ->
  relC (mkC x1 x2 x3 x4 x5 x6 x7 x8) (mkC x1' x2' x3' x4' x5' x6' x7' x8').
Proof. unfold relC; cbn; tauto. Qed.
Ltac hook_a31 h :=
  lazymatch h with
  | @mkC => apply relC_mkC
  | _ => hook_a30 h
  end.
Ltac xfer_hook ::= xfer_dispatch hook_a31.
Lemma nj_step_transfer c c' s s' f0 f0' f1 f1' : relC c c' -> relP rel rel s s' -> rel f0 f0' -> rel f1 f1' ->
  relP rel rel (nj_step c s f0 f1) (nj_step c' s' f0' f1').
Proof. xfer_def nj_step. Qed.
Ltac hook_a32 h :=
  lazymatch h with
  | @nj_step => apply nj_step_transfer
  | _ => hook_a31 h
  end.
Ltac xfer_hook ::= xfer_dispatch hook_a32.
Lemma nj_run_transfer c c' s s' f0 f0' rest rest' : relC c c' -> relP rel rel s s' -> rel f0 f0' -> relL rest rest' ->
  Forall2 (relP rel rel) (nj_run c s f0 rest) (nj_run c' s' f0' rest').
Proof.
  intros Hc Hs Hf HF. revert s s' f0 f0' Hs Hf. induction HF; intros; cbn [nj_run]; xfer.
Qed.
Ltac hook_a33 h :=
  lazymatch h with
  | @nj_run => apply nj_run_transfer
  | _ => hook_a32 h
  end.
Ltac xfer_hook ::= xfer_dispatch hook_a33.
Lemma nj_series_transfer c c' rec rec' : relC c c' -> relL rec rec' ->
  Forall2 (relP rel rel) (nj_series c rec) (nj_series c' rec').
Proof. xfer_def nj_series. Qed.
Ltac hook_a34 h :=
  lazymatch h with
  | @nj_series => apply nj_series_transfer
  | _ => hook_a33 h
  end.
Ltac xfer_hook ::= xfer_dispatch hook_a34.
Lemma resp_acc_transfer xi xi' w w' s s' : rel xi xi' -> rel w w' -> relP rel rel s s' ->
  rel (resp_acc xi w s) (resp_acc xi' w' s').
Proof. xfer_def resp_acc. Qed.
Ltac hook_a35 h :=
  lazymatch h with
  | @resp_acc => apply resp_acc_transfer
  | _ => hook_a34 h
  end.
Ltac xfer_hook ::= xfer_dispatch hook_a35.
Lemma row_transfer c c' xi xi' w w' rec rec' : relC c c' -> rel xi xi' -> rel w w' -> relL rec rec' ->
  relL3 (row c xi w rec) (row c' xi' w' rec').
Proof. xfer_def row. Qed.
Ltac hook_a36 h :=
  lazymatch h with
  | @row => apply row_transfer
  | _ => hook_a35 h
  end.
Ltac xfer_hook ::= xfer_dispatch hook_a36.
Lemma zero_row_transfer rec rec' : relL rec rec' -> relL3 (zero_row rec) (zero_row rec').
Proof. xfer_def zero_row. Qed.
Ltac hook_a37 h :=
  lazymatch h with
  | @zero_row => apply zero_row_transfer
  | _ => hook_a36 h
  end.
Ltac xfer_hook ::= xfer_dispatch hook_a37.
Lemma w_of_transfer c2pi c2pi' P P' : rel c2pi c2pi' -> rel P P' -> rel (w_of c2pi P) (w_of c2pi' P').
Proof. xfer_def w_of. Qed.
Ltac hook_a38 h :=
  lazymatch h with
  | @w_of => apply w_of_transfer
  | _ => hook_a37 h
  end.
Ltac xfer_hook ::= xfer_dispatch hook_a38.
Lemma osc_periods_transfer ps ps' : relL ps ps' -> relL (osc_periods ps) (osc_periods ps').
Proof. xfer_def osc_periods. Qed.
Ltac hook_a39 h :=
  lazymatch h with
  | @osc_periods => apply osc_periods_transfer
  | _ => hook_a38 h
  end.
Ltac xfer_hook ::= xfer_dispatch hook_a39.
Lemma leading_zero_transfer ps ps' : relL ps ps' -> leading_zero ps = leading_zero ps'.
Proof. xfer_def leading_zero. Qed.
Ltac hook_a40 h :=
  lazymatch h with
  | @leading_zero => apply leading_zero_transfer
  | _ => hook_a39 h
  end.
Ltac xfer_hook ::= xfer_dispatch hook_a40.
Lemma response_with_transfer cfs cfs' c2pi c2pi' xi xi' ps ps' rec rec' :
  Forall2 relC cfs cfs' -> rel c2pi c2pi' -> rel xi xi' -> relL ps ps' -> relL rec rec' ->
  Forall2 relL3 (response_with cfs c2pi xi ps rec) (response_with cfs' c2pi' xi' ps' rec').
Proof. xfer_def response_with. Qed.
Ltac hook_a41 h :=
  lazymatch h with
  | @response_with => apply response_with_transfer
  | _ => hook_a40 h
  end.
Ltac xfer_hook ::= xfer_dispatch hook_a41.
Lemma us_transfer r r' : Forall2 relL3 r r' -> relLL (us r) (us r').
Proof. xfer_def us. Qed.
Lemma vs_transfer r r' : Forall2 relL3 r r' -> relLL (vs r) (vs r').
Proof. xfer_def vs. Qed.
Lemma accs_transfer r r' : Forall2 relL3 r r' -> relLL (accs r) (accs r').
Proof. xfer_def accs. Qed.
Ltac hook_a42 h :=
  lazymatch h with
  | @us => apply us_transfer
  | @vs => apply vs_transfer
  | @accs => apply accs_transfer
  | _ => hook_a41 h
  end.
Ltac xfer_hook ::= xfer_dispatch hook_a42.

(** * M_spectra *)
Lemma absmax_transfer l l' : relL l l' -> rel (absmax l) (absmax l').
Proof. xfer_def absmax. Qed.
Ltac hook_a43 h :=
  lazymatch h with
  | @absmax => apply absmax_transfer
  | _ => hook_a42 h
  end.
Ltac xfer_hook ::= xfer_dispatch hook_a43.
Lemma ws_pseudo_transfer pi2 pi2' ps ps' : rel pi2 pi2' -> relL ps ps' -> relL (ws_pseudo pi2 ps) (ws_pseudo pi2' ps').
Proof. xfer_def ws_pseudo. Qed.
Ltac hook_a44 h :=
  lazymatch h with
  | @ws_pseudo => apply ws_pseudo_transfer
  | _ => hook_a43 h
  end.
Ltac xfer_hook ::= xfer_dispatch hook_a44.
Lemma pga_cut_transfer dt dt' ps ps' m m' sas sas' : rel dt dt' -> relL ps ps' -> relL m m' -> relL sas sas' ->
  relL (pga_cut dt ps m sas) (pga_cut dt' ps' m' sas').
Proof. xfer_def pga_cut. Qed.
Ltac hook_a45 h :=
  lazymatch h with
  | @pga_cut => apply pga_cut_transfer
  | _ => hook_a44 h
  end.
Ltac xfer_hook ::= xfer_dispatch hook_a45.
Lemma pseudo_spectra_transfer pi2 pi2' dt dt' ps ps' m m' resp resp' :
  rel pi2 pi2' -> rel dt dt' -> relL ps ps' -> relL m m' -> Forall2 relL3 resp resp' ->
  relL3 (pseudo_spectra pi2 dt ps m resp) (pseudo_spectra pi2' dt' ps' m' resp').
Proof. xfer_def pseudo_spectra. Qed.
Ltac hook_a46 h :=
  lazymatch h with
  | @pseudo_spectra => apply pseudo_spectra_transfer
  | _ => hook_a45 h
  end.
Ltac xfer_hook ::= xfer_dispatch hook_a46.
Lemma true_spectra_transfer dt dt' ps ps' m m' resp resp' :
  rel dt dt' -> relL ps ps' -> relL m m' -> Forall2 relL3 resp resp' ->
  relL3 (true_spectra dt ps m resp) (true_spectra dt' ps' m' resp').
Proof. xfer_def true_spectra. Qed.
Ltac hook_a47 h :=
  lazymatch h with
  | @true_spectra => apply true_spectra_transfer
  | _ => hook_a46 h
  end.
Ltac xfer_hook ::= xfer_dispatch hook_a47.
Lemma min_nonzero_period_transfer ps ps' : relL ps ps' -> rel (min_nonzero_period ps) (min_nonzero_period ps').
Proof. xfer_def min_nonzero_period. Qed.
Ltac hook_a48 h :=
  lazymatch h with
  | @min_nonzero_period => apply min_nonzero_period_transfer
  | _ => hook_a47 h
  end.
Ltac xfer_hook ::= xfer_dispatch hook_a48.
Lemma target_dt_transfer dt dt' ratio ratio' ps ps' : rel dt dt' -> rel ratio ratio' -> relL ps ps' ->
  rel (target_dt dt ratio ps) (target_dt dt' ratio' ps').
Proof. xfer_def target_dt. Qed.
Ltac hook_a49 h :=
  lazymatch h with
  | @target_dt => apply target_dt_transfer
  | _ => hook_a48 h
  end.
Ltac xfer_hook ::= xfer_dispatch hook_a49.
Lemma nceil_transfer x x' : rel x x' -> nceil x = nceil x'.
Proof. xfer_def nceil. Qed.
Ltac hook_a50 h :=
  lazymatch h with
  | @nceil => apply nceil_transfer
  | _ => hook_a49 h
  end.
Ltac xfer_hook ::= xfer_dispatch hook_a50.
Lemma obj_factor_transfer dt dt' ratio ratio' ps ps' : rel dt dt' -> rel ratio ratio' -> relL ps ps' ->
  obj_factor dt ratio ps = obj_factor dt' ratio' ps'.
Proof. xfer_def obj_factor. Qed.
Ltac hook_a51 h :=
  lazymatch h with
  | @obj_factor => apply obj_factor_transfer
  | _ => hook_a50 h
  end.
Ltac xfer_hook ::= xfer_dispatch hook_a51.
Lemma interp_pos_transfer vals vals' m k : relL vals vals' -> rel (interp_pos vals m k) (interp_pos vals' m k).
Proof. xfer_def interp_pos. Qed.
Ltac hook_a52 h :=
  lazymatch h with
  | @interp_pos => apply interp_pos_transfer
  | _ => hook_a51 h
  end.
Ltac xfer_hook ::= xfer_dispatch hook_a52.
Lemma interp_record_transfer vals vals' m : relL vals vals' -> relL (interp_record vals m) (interp_record vals' m).
Proof. xfer_def interp_record. Qed.
Ltac hook_a53 h :=
  lazymatch h with
  | @interp_record => apply interp_record_transfer
  | _ => hook_a52 h
  end.
Ltac xfer_hook ::= xfer_dispatch hook_a53.
Lemma uke_row_transfer v v' : relL v v' -> rel (uke_row v) (uke_row v').
Proof. xfer_def uke_row. Qed.
Ltac hook_a54 h :=
  lazymatch h with
  | @uke_row => apply uke_row_transfer
  | _ => hook_a53 h
  end.
Ltac xfer_hook ::= xfer_dispatch hook_a54.
Lemma input_energy_series_transfer dt dt' m m' v v' : rel dt dt' -> relL m m' -> relL v v' ->
  relL (input_energy_series dt m v) (input_energy_series dt' m' v').
Proof. xfer_def input_energy_series. Qed.
Lemma input_energy_transfer dt dt' m m' v v' : rel dt dt' -> relL m m' -> relL v v' ->
  rel (input_energy dt m v) (input_energy dt' m' v').
Proof. xfer_def input_energy. Qed.
Ltac hook_a55 h :=
  lazymatch h with
  | @input_energy_series => apply input_energy_series_transfer
  | @input_energy => apply input_energy_transfer
  | _ => hook_a54 h
  end.
Ltac xfer_hook ::= xfer_dispatch hook_a55.
Ltac hook_a_final h := hook_a55 h.
