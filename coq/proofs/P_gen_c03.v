(** The generated definitions of gen/Gen_c03.v (re-translated from eqsig/sdof.py and eqsig/im.py on every run by
    translator/py2coq_c03.py) are the hand-written models of model/M_spectra.v, for ALL inputs.
    Section Generic: for every [NumOps] instance (so for the Q run of the correspondence and for the R theorems alike); no
    arithmetic law is used there, only definitional unfolding and [map_map] / [map]-of-[map2] list identities.
    Section AtR: where a ring law is needed -- `* mass` with mass = 1 and the literal 0.5 = 1/2 in calc_resp_uke_spectrum, the
    default literals 0.05, 0.01, 9.81, 0.1, 1.51, 2.51 as the fractions 5/100, 1/100, 981/100, 1/10, 151/100, 251/100 --
    and the characterising facts of the spectrum-intensity model. *)
From Coq Require Import ZArith QArith Reals List Bool Lra Lia.
From EQ Require Import lib.Num lib.NpList lib.Quad model.M_im model.M_spectra gen.Gen_c03.
Import ListNotations.
Local Open Scope num_scope.

Section Generic.
Context {T : Type} `{NumOps T}.

Lemma map_map2 {A B C D} (f : C -> D) (g : A -> B -> C) (la : list A) (lb : list B) :
  map f (map2 g la lb) = map2 (fun a b => f (g a b)) la lb.
Proof. revert lb; induction la as [|a la IH]; intros [|b lb]; cbn; try reflexivity. now rewrite IH. Qed.

(** sdof.absmax, one row *)
Lemma gen_absmax_eq (l : list T) : gen_absmax l = absmax l.
Proof. reflexivity. Qed.

(** sdof.response_series hands its four arguments, in order, to nigam_and_jennings_response *)
Lemma gen_response_series_eq {A B C D E : Type} (nj : A -> B -> C -> D -> E) m dt p xi :
  gen_response_series nj m dt p xi = nj m dt p xi.
Proof. reflexivity. Qed.

(** sdof.calc_input_energy_spectrum, one velocity row, both branches of `if series:` *)
Lemma gen_input_energy_row_series_eq (dt : T) (motion v : list T) :
  gen_input_energy_row_if_series dt motion v = input_energy_series dt motion v.
Proof. unfold gen_input_energy_row_if_series, input_energy_series, vmul. now rewrite map_map2. Qed.
Lemma gen_input_energy_row_eq (dt : T) (motion v : list T) :
  gen_input_energy_row_ifnot_series dt motion v = input_energy dt motion v.
Proof. unfold gen_input_energy_row_ifnot_series, input_energy, vmul. now rewrite map_map2. Qed.

(** the whole function: defaults, argument order of the call, the SECOND returned array, one entry per row *)
Lemma gen_calc_input_energy_spectrum_eq nj (values : list T) (dt : T) (rt : list T) periods xi (series : bool) :
  gen_calc_input_energy_spectrum nj values dt rt periods xi series =
  let v := snd (fst (nj values dt (match periods with None => rt | Some p => p end)
                                  (match xi with None => n1 / nofZ 20 | Some x => x end))) in
  if series then inl (map (input_energy_series dt values) v) else inr (map (input_energy dt values) v).
Proof.
  cbv beta delta [gen_calc_input_energy_spectrum gen_response_series] zeta.
  destruct (nj values dt _ _) as [[r0 r1] r2]. cbn [fst snd].
  destruct series; f_equal; apply map_ext; intros v; [apply gen_input_energy_row_series_eq | apply gen_input_energy_row_eq].
Qed.
Lemma gen_input_energy_default_series : gen_calc_input_energy_spectrum_default_series = false.
Proof. reflexivity. Qed.

(** sdof.calc_resp_uke_spectrum, one velocity row, without any arithmetic law: 0.5 * v**2 * mass, mass = 1 *)
Lemma gen_resp_uke_row_unfold (v : list T) :
  gen_resp_uke_row v = nsum (map nabs (diff (map (fun x => (n1 / nofZ 2) * (x * x) * n1) v))).
Proof. unfold gen_resp_uke_row, vabs, scale, vsq. now rewrite !map_map. Qed.
Lemma gen_calc_resp_uke_spectrum_eq nj (values : list T) (dt : T) (rt : list T) periods xi :
  gen_calc_resp_uke_spectrum nj values dt rt periods xi =
  map gen_resp_uke_row (snd (fst (nj values dt (match periods with None => rt | Some p => as_array p end)
                                               (match xi with None => n1 / nofZ 20 | Some x => x end)))).
Proof.
  cbv beta delta [gen_calc_resp_uke_spectrum gen_response_series] zeta.
  destruct (nj values dt _ _) as [[r0 r1] r2]. reflexivity.
Qed.

(** im.calc_asi / im.calc_vsi on the spectrum they select *)
Lemma gen_asi_of_spectrum_eq (ps : list T) :
  gen_asi_of_spectrum ps = spectrum_intensity (n1 / nofZ 100) (nofZ 981 / nofZ 100) ps.
Proof. reflexivity. Qed.
Lemma gen_vsi_of_spectrum_eq (ps : list T) : gen_vsi_of_spectrum ps = spectrum_intensity_raw (n1 / nofZ 100) ps.
Proof. reflexivity. Qed.
(** the whole functions: defaults, argument order of the call, the THIRD (asi) / SECOND (vsi) returned array *)
Lemma gen_calc_asi_eq prs arange (values : list T) (dt : T) xi periods :
  gen_calc_asi prs arange values dt xi periods =
  spectrum_intensity (n1 / nofZ 100) (nofZ 981 / nofZ 100)
    (snd (prs values dt (match periods with None => arange (n1 / nofZ 10) (nofZ 151 / nofZ 100) (n1 / nofZ 100) | Some p => p end)
                        (match xi with None => n1 / nofZ 20 | Some x => x end))).
Proof.
  cbv beta delta [gen_calc_asi] zeta. destruct (prs values dt _ _) as [[r0 r1] r2]. reflexivity.
Qed.
Lemma gen_calc_vsi_eq prs arange (values : list T) (dt : T) xi periods :
  gen_calc_vsi prs arange values dt xi periods =
  spectrum_intensity_raw (n1 / nofZ 100)
    (snd (fst (prs values dt (match periods with None => arange (n1 / nofZ 10) (nofZ 251 / nofZ 100) (n1 / nofZ 100) | Some p => p end)
                             (match xi with None => n1 / nofZ 20 | Some x => x end)))).
Proof.
  cbv beta delta [gen_calc_vsi] zeta. destruct (prs values dt _ _) as [[r0 r1] r2]. reflexivity.
Qed.
End Generic.

(** * At R *)
Local Close Scope num_scope.
Local Open Scope R_scope.

(** ** calc_resp_uke_spectrum: the ring law  1/2 * (x*x) * 1 = 1/2 * (x*x)  (mass = 1) *)
Lemma gen_resp_uke_row_R (v : list R) : gen_resp_uke_row v = uke_row v.
Proof.
  rewrite gen_resp_uke_row_unfold. unfold uke_row. do 3 f_equal. apply map_ext. intros x. numR. lra.
Qed.
Lemma default_xi_R (xi : option R) :
  match xi with None => (n1 / nofZ 20)%num | Some x => x end = match xi with None => 5 / 100 | Some x => x end.
Proof. destruct xi; [reflexivity|]. numR. lra. Qed.
Lemma gen_calc_resp_uke_spectrum_R nj (values : list R) dt rt periods xi :
  gen_calc_resp_uke_spectrum nj values dt rt periods xi =
  map uke_row (snd (fst (nj values dt (match periods with None => rt | Some p => p end)
                                      (match xi with None => 5 / 100 | Some x => x end)))).
Proof.
  rewrite gen_calc_resp_uke_spectrum_eq, default_xi_R. unfold as_array. apply map_ext. exact gen_resp_uke_row_R.
Qed.
Lemma gen_calc_input_energy_spectrum_R nj (values : list R) dt rt periods xi (series : bool) :
  gen_calc_input_energy_spectrum nj values dt rt periods xi series =
  let v := snd (fst (nj values dt (match periods with None => rt | Some p => p end)
                                  (match xi with None => 5 / 100 | Some x => x end))) in
  if series then inl (map (input_energy_series dt values) v) else inr (map (input_energy dt values) v).
Proof. rewrite gen_calc_input_energy_spectrum_eq, default_xi_R. reflexivity. Qed.

(** ** the spectrum-intensity model: max(c * cumulative_trapezoid(|ps|)) [/ g] *)
Lemma last_nth_R (l : list R) : l <> [] -> last l 0 = nth (length l - 1) l 0.
Proof.
  induction l as [|a r IH]; [congruence|]. intros _. destruct r as [|b r']; [reflexivity|].
  rewrite last_cons_ne by discriminate. rewrite IH by discriminate.
  replace (length (a :: b :: r') - 1)%nat with (S (length (b :: r') - 1)) by (cbn [length]; lia). reflexivity.
Qed.
Lemma last_map_R (f : R -> R) (l : list R) : l <> [] -> last (map f l) 0 = f (last l 0).
Proof.
  induction l as [|a r IH]; [congruence|]. intros _. destruct r as [|b r']; [reflexivity|].
  cbn [map]. rewrite !last_cons_ne by discriminate. apply IH. discriminate.
Qed.
Lemma nondecreasing_tl (l : list R) : nondecreasing l -> nondecreasing (tl l).
Proof.
  destruct l as [|a r]; [trivial|]. intros Hl i j Hij. cbn [tl] in *.
  specialize (Hl (S i) (S j)). cbn [nth length] in Hl. apply Hl. lia.
Qed.
Lemma amax_nondecreasing (l : list R) : l <> [] -> nondecreasing l -> amax l = last l 0.
Proof.
  intros Hne Hnd. assert (Hlen : (0 < length l)%nat) by (destruct l; [congruence | cbn; lia]).
  apply Rle_antisym.
  - destruct (In_nth l (amax l) 0 (amax_in l Hne)) as [i [Hi Ei]].
    rewrite <- Ei, last_nth_R by exact Hne. apply Hnd. lia.
  - apply amax_ge. rewrite last_nth_R by exact Hne. apply nth_In. lia.
Qed.
Lemma fold_nmax_scale k (l : list R) x : 0 <= k -> fold_left nmax (map (Rmult k) l) (k * x) = k * fold_left nmax l x.
Proof.
  intros Hk. revert x; induction l as [|y r IH]; intros x; [reflexivity|]. cbn [map fold_left].
  rewrite !nmax_R, RmaxRmult by exact Hk. apply IH.
Qed.
Lemma amax_scale k (l : list R) : 0 <= k -> amax (map (Rmult k) l) = k * amax l.
Proof. intros Hk. destruct l as [|x r]; cbn [map amax]; [numR; lra | now apply fold_nmax_scale]. Qed.
Lemma vabs_scale_R al (l : list R) : vabs (map (Rmult al) l) = map (Rmult (Rabs al)) (vabs l).
Proof. unfold vabs. rewrite !map_map. apply map_ext. intros x. numR. apply Rabs_mult. Qed.
Lemma tl_map {A B} (f : A -> B) (l : list A) : tl (map f l) = map f (tl l).
Proof. destruct l; reflexivity. Qed.
Lemma scale_is_map c (l : list R) : scale c l = map (Rmult c) l.
Proof. reflexivity. Qed.
Lemma trapz_nonneg_R dx (l : list R) : 0 <= dx -> all_nonneg l -> 0 <= trapz dx l.
Proof.
  intros Hdx Hl. unfold trapz. apply nsum_nonneg. intros x Hx.
  destruct l as [|y r]; [destruct Hx|]. cbn [tl] in Hx.
  assert (Hgen : forall (l1 l2 : list R), all_nonneg l1 -> all_nonneg l2 ->
            all_nonneg (map2 (fun x y => nmul dx (nadd y x) / nofZ 2)%num l1 l2)).
  { induction l1 as [|u l1 IH]; intros [|w l2] H1 H2 z Hz; cbn in Hz; try tauto.
    destruct Hz as [<-|Hz].
    - numR. assert (0 <= u) by (apply H1; now left). assert (0 <= w) by (apply H2; now left). nra.
    - eapply IH; [| |exact Hz]; intros ? ?; [apply H1|apply H2]; now right. }
  eapply Hgen; [| |exact Hx]; auto. intros z Hz; apply Hl; now right.
Qed.

(** the partial integrals of |ps| never decrease, so their maximum is the last one = the trapezoid integral of |ps| *)
Lemma intensity_raw_is_last c (ps : list R) : 0 <= c -> (2 <= length ps)%nat ->
  spectrum_intensity_raw c ps = c * last (cumtrapz 1 (vabs ps)) 0.
Proof.
  intros Hc Hlen. unfold spectrum_intensity_raw. numR. rewrite scale_is_map.
  assert (Hct : length (cumtrapz 1 (vabs ps)) = length ps) by (rewrite cumtrapz_length; apply map_length).
  set (ct := cumtrapz 1 (vabs ps)) in *.
  assert (Hnd : nondecreasing ct) by (apply cumtrapz_monotone; [lra | apply all_nonneg_vabs]).
  assert (Hne : tl ct <> []) by (destruct ct as [|a [|b r]]; cbn in *; try lia; discriminate).
  rewrite amax_nondecreasing.
  - rewrite last_map_R by exact Hne. f_equal. destruct ct as [|a [|b r]]; cbn in Hct; try lia. reflexivity.
  - intros E. apply map_eq_nil in E. contradiction.
  - apply nondecreasing_scale; [exact Hc | now apply nondecreasing_tl].
Qed.
Lemma intensity_raw_is_trapz c (ps : list R) : 0 <= c -> (2 <= length ps)%nat ->
  spectrum_intensity_raw c ps = c * trapz 1 (vabs ps).
Proof.
  intros Hc Hlen. rewrite intensity_raw_is_last by assumption. f_equal. apply last_cumtrapz.
  destruct ps; [cbn in Hlen; lia | discriminate].
Qed.
Lemma intensity_is_trapz c g (ps : list R) : 0 <= c -> (2 <= length ps)%nat ->
  spectrum_intensity c g ps = c * trapz 1 (vabs ps) / g.
Proof. intros Hc Hlen. unfold spectrum_intensity. numR. now rewrite intensity_raw_is_trapz. Qed.
Lemma intensity_raw_nonneg c (ps : list R) : 0 <= c -> 0 <= spectrum_intensity_raw c ps.
Proof.
  intros Hc. destruct (le_lt_dec 2 (length ps)) as [Hlen|Hlen].
  - rewrite intensity_raw_is_trapz by assumption.
    apply Rmult_le_pos; [exact Hc | apply trapz_nonneg_R; [lra | apply all_nonneg_vabs]].
  - destruct ps as [|a [|b r]]; cbn in Hlen; try lia; unfold spectrum_intensity_raw; cbn; numR; lra.
Qed.
Lemma intensity_nonneg c g (ps : list R) : 0 <= c -> 0 < g -> 0 <= spectrum_intensity c g ps.
Proof.
  intros Hc Hg. unfold spectrum_intensity. numR. apply Rmult_le_pos; [now apply intensity_raw_nonneg|].
  apply Rlt_le, Rinv_0_lt_compat, Hg.
Qed.
Lemma intensity_raw_scale c al (ps : list R) :
  spectrum_intensity_raw c (map (Rmult al) ps) = Rabs al * spectrum_intensity_raw c ps.
Proof.
  unfold spectrum_intensity_raw. rewrite vabs_scale_R, cumtrapz_scale, tl_map, !scale_is_map.
  rewrite <- amax_scale by apply Rabs_pos. f_equal. rewrite !map_map. apply map_ext. intros x. ring.
Qed.
Lemma intensity_scale c g al (ps : list R) :
  spectrum_intensity c g (map (Rmult al) ps) = Rabs al * spectrum_intensity c g ps.
Proof. unfold spectrum_intensity. numR. rewrite intensity_raw_scale. unfold Rdiv. ring. Qed.
(** "no division" (calc_vsi) is the divided form with g = 1 *)
Lemma intensity_g1 c (ps : list R) : spectrum_intensity c 1 ps = spectrum_intensity_raw c ps.
Proof. unfold spectrum_intensity. numR. lra. Qed.

(** ** calc_asi / calc_vsi with the literals of the source as fractions: c = 0.01, g = 9.81, xi = 0.05,
    default grids np.arange(0.1, 1.51, 0.01) / np.arange(0.1, 2.51, 0.01) *)
Lemma asi_consts_R : (n1 / nofZ 100)%num = 1 / 100 /\ (nofZ 981 / nofZ 100)%num = 981 / 100 /\
  (n1 / nofZ 10)%num = 1 / 10 /\ (nofZ 151 / nofZ 100)%num = 151 / 100 /\ (nofZ 251 / nofZ 100)%num = 251 / 100.
Proof. repeat split; reflexivity. Qed.
Lemma gen_calc_asi_R prs arange (values : list R) dt xi periods :
  gen_calc_asi prs arange values dt xi periods =
  spectrum_intensity (1 / 100) (981 / 100)
    (snd (prs values dt (match periods with None => arange (1 / 10) (151 / 100) (1 / 100) | Some p => p end)
                        (match xi with None => 5 / 100 | Some x => x end))).
Proof. rewrite gen_calc_asi_eq, default_xi_R. reflexivity. Qed.
Lemma gen_calc_vsi_R prs arange (values : list R) dt xi periods :
  gen_calc_vsi prs arange values dt xi periods =
  spectrum_intensity (1 / 100) 1
    (snd (fst (prs values dt (match periods with None => arange (1 / 10) (251 / 100) (1 / 100) | Some p => p end)
                             (match xi with None => 5 / 100 | Some x => x end)))).
Proof. rewrite gen_calc_vsi_eq, default_xi_R, intensity_g1. reflexivity. Qed.
