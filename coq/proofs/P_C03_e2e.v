(** End-to-end composition of C01 (exactness + uniqueness of the glued solution), C02 (refinement by linear
    interpolation) and C03 (spectral displacement = absmax of the u-row):
      - refining a record by linear interpolation does not change the piecewise-linear forcing function;
      - hence (uniqueness) the exact solution for the refined record at step dt/m IS the exact solution for the raw
        record at step dt, and the fine series samples that one function at the finer instants;
      - the S_d the object reports is max |u(k dt/m)| over the fine instants, u the exact continuous solution of the RAW
        record (held constant for one more step to cover np.interp's trailing clamped samples).
    All statements for every record, every refinement factor m >= 1: induction-free composition of the theorems of
    P_C01 / P_C01_glue / P_C02 / P_C03; no bounds. *)
From Coq Require Import ZArith Reals Lra Lia List Bool.
From Coquelicot Require Import Coquelicot.
From EQ Require Import lib.Num lib.NpList model.M_sdof gen.Gen_sdof_coeffs model.M_sdof_R model.M_spectra
  proofs.P_C01 proofs.P_C01_glue proofs.P_C02 proofs.P_C03.
Import ListNotations.
Local Open Scope R_scope.

(** [F] carries the factor-m linear interpolation of [rec] at its first N+1 samples (N <= m (n-1)).
    [interpolates m rec F] is the case N = m (n-1); np.interp's output with its clamped tail is the case
    N = m n - 1 of the record held constant for one more step ([hold_last]). *)
Definition interp_upto (m : nat) (rec F : list R) (N : nat) : Prop :=
  (N < length F)%nat /\ (N <= m * (length rec - 1))%nat /\
  forall i k, (S i < length rec)%nat -> (k <= m)%nat -> (m * i + k <= N)%nat ->
    nth (m * i + k) F 0 = nth i rec 0 + (nth (S i) rec 0 - nth i rec 0) * INR k / INR m.

Lemma interpolates_upto m (rec F : list R) : rec <> [] -> interpolates m rec F ->
  interp_upto m rec F (m * (length rec - 1)).
Proof.
  intros Hne [HL HF]. specialize (HL Hne). split; [lia|]. split; [lia|]. intros i k Hi Hk _. now apply HF.
Qed.

Lemma interp_upto_le m (rec F : list R) N N' : (N' <= N)%nat -> interp_upto m rec F N -> interp_upto m rec F N'.
Proof. intros Hle (H1 & H2 & H3). split; [lia|]. split; [lia|]. intros i k Hi Hk Hik. apply H3; auto; lia. Qed.

(** the raw record held at its last value for one more step *)
Definition hold_last (vals : list R) : list R := vals ++ [nth (length vals - 1) vals 0].

Lemma hold_last_length vals : length (hold_last vals) = S (length vals).
Proof. unfold hold_last. rewrite app_length. cbn [length]. lia. Qed.
Lemma hold_last_nth vals i : (i < length vals)%nat -> nth i (hold_last vals) 0 = nth i vals 0.
Proof. intros Hi. unfold hold_last. now rewrite app_nth1. Qed.
Lemma hold_last_nth_end vals : nth (length vals) (hold_last vals) 0 = nth (length vals - 1) vals 0.
Proof. unfold hold_last. rewrite app_nth2 by lia. now rewrite Nat.sub_diag. Qed.

(** np.interp's trailing samples are clamped to the last value *)
Lemma interp_record_tail (vals : list R) (m k : nat) : (1 <= m)%nat -> (1 <= length vals)%nat -> (k < m)%nat ->
  nth (m * (length vals - 1) + k) (interp_record vals (Z.of_nat m)) 0 = nth (length vals - 1) vals 0.
Proof.
  intros Hm Hn Hk. unfold interp_record. rewrite Nat2Z.id.
  assert (Hidx : (m * (length vals - 1) + k < m * length vals)%nat) by nia.
  rewrite (nth_map_in _ (seq 0 (m * length vals)) _ 0 0%nat) by (rewrite seq_length; exact Hidx).
  rewrite seq_nth by exact Hidx. rewrite Nat.add_0_l. unfold interp_pos.
  set (i := (length vals - 1)%nat) in *.
  assert (Eq : (Z.of_nat (m * i + k) / Z.of_nat m = Z.of_nat i)%Z).
  { replace (Z.of_nat (m * i + k)) with (Z.of_nat i * Z.of_nat m + Z.of_nat k)%Z by nia.
    rewrite Z.div_add_l by lia. rewrite Z.div_small by lia. lia. }
  rewrite Eq, Nat2Z.id.
  destruct (Nat.ltb_spec (S i) (length vals)) as [Hlt|Hge]; [unfold i in Hlt; lia | reflexivity].
Qed.

Lemma interp_record_length (vals : list R) (m : nat) : length (interp_record vals (Z.of_nat m)) = (m * length vals)%nat.
Proof. unfold interp_record. now rewrite Nat2Z.id, map_length, seq_length. Qed.

(** the record the object hands to the spectra carries, at ALL its m n samples, the interpolation of [hold_last vals] *)
Lemma interp_record_upto (vals : list R) (m : nat) : (1 <= m)%nat -> (1 <= length vals)%nat ->
  interp_upto m (hold_last vals) (interp_record vals (Z.of_nat m)) (m * length vals - 1).
Proof.
  intros Hm Hn. assert (HmR : 0 < INR m) by (apply lt_0_INR; lia).
  split; [rewrite interp_record_length; nia|]. split; [rewrite hold_last_length; nia|].
  intros i k Hi Hk Hik. rewrite hold_last_length in Hi.
  destruct (Nat.eq_dec (S i) (length vals)) as [E|N].
  - assert (Hk' : (k < m)%nat) by nia.
    replace i with (length vals - 1)%nat at 1 by lia. rewrite interp_record_tail by assumption.
    rewrite (hold_last_nth vals i) by lia. rewrite E, hold_last_nth_end.
    replace (length vals - 1)%nat with i by lia. field. lra.
  - rewrite !hold_last_nth by lia.
    destruct (interp_record_interpolates vals m Hm) as [_ HF]. apply HF; [lia | exact Hk].
Qed.

Lemma nth_firstn_lt {A} (l : list A) n i d : (i < n)%nat -> nth i (firstn n l) d = nth i l d.
Proof.
  revert n i; induction l as [|x l IH]; intros n i Hi; [now rewrite firstn_nil|].
  destruct n as [|n]; [lia|]. destruct i as [|i]; [reflexivity|]. cbn [firstn nth]. apply IH. lia.
Qed.

Lemma pwload_at_0 (rec : list R) d : 0 < d -> pwload rec d 0 = nth 0 rec 0.
Proof.
  intros Hd. unfold pwload. rewrite (idx_spec d Hd _ 0%nat 0); [| lia | now left | right; cbn [INR]; lra].
  unfold load, gat. cbn [INR]. field. lra.
Qed.

Section Hold.
Variables xi w dt : R.
Hypothesis Hw : 0 < w.
Hypothesis Hxi0 : 0 <= xi.
Hypothesis Hxi1 : xi < 1.
Hypothesis Hdt : 0 < dt.

(** the held record: same exact solution on the raw span, constant load on the extra step *)
Lemma solves_hold_last (vals : list R) (u v : R -> R) : solves xi w dt (hold_last vals) u v -> solves xi w dt vals u v.
Proof.
  intros (U0 & V0 & Hode). split; [exact U0|]. split; [exact V0|]. intros i Hi t Ht.
  assert (E : load vals dt i t = load (hold_last vals) dt i t)
    by (unfold load, gat; rewrite !hold_last_nth by lia; reflexivity).
  rewrite E. apply Hode; [rewrite hold_last_length; lia | exact Ht].
Qed.

Theorem hold_last_same_solution (vals : list R) : forall t, 0 <= t <= INR (length vals - 1) * dt ->
  glued_u xi w dt (hold_last vals) t = glued_u xi w dt vals t /\
  glued_v xi w dt (hold_last vals) t = glued_v xi w dt vals t.
Proof.
  intros t Ht.
  apply (solution_unique xi w dt Hw Hxi0 Hxi1 Hdt vals _ _ _ _
           (solves_hold_last vals _ _ (glued_solves xi w dt Hw Hxi0 Hxi1 Hdt (hold_last vals)))
           (glued_solves xi w dt Hw Hxi0 Hxi1 Hdt vals) t Ht).
Qed.

Theorem hold_last_load (vals : list R) : (1 <= length vals)%nat ->
  (forall t, 0 <= t <= INR (length vals - 1) * dt -> pwload (hold_last vals) dt t = pwload vals dt t) /\
  (forall t, INR (length vals - 1) * dt <= t <= INR (length vals) * dt ->
     pwload (hold_last vals) dt t = nth (length vals - 1) vals 0).
Proof.
  intros Hn. split.
  - intros t Ht. destruct (le_lt_dec 2 (length vals)) as [H2|H2].
    2:{ replace (length vals - 1)%nat with 0%nat in Ht by lia. cbn [INR] in Ht. assert (t = 0) as -> by lra.
        rewrite !pwload_at_0 by exact Hdt. apply hold_last_nth. lia. }
    destruct (step_cover dt vals t H2 Ht) as [i [Hi Hit]].
    rewrite (pwload_on_step dt Hdt vals i t Hi Hit).
    rewrite (pwload_on_step dt Hdt (hold_last vals) i t) by (rewrite ?hold_last_length; auto; lia).
    unfold load, gat. rewrite !hold_last_nth by lia. reflexivity.
  - intros t Ht. rewrite (pwload_on_step dt Hdt (hold_last vals) (length vals - 1) t).
    + unfold load, gat. replace (S (length vals - 1)) with (length vals) by lia.
      rewrite hold_last_nth_end, hold_last_nth by lia. field. lra.
    + rewrite hold_last_length. lia.
    + replace (S (length vals - 1)) with (length vals) by lia. exact Ht.
Qed.

End Hold.

Section E2E.
Variables xi w dt : R.
Hypothesis Hw : 0 < w.
Hypothesis Hxi0 : 0 <= xi.
Hypothesis Hxi1 : xi < 1.
Hypothesis Hdt : 0 < dt.
Variable m : nat.
Hypothesis Hm : (1 <= m)%nat.
Local Notation h := (dt / INR m).

Lemma HmR : 0 < INR m. Proof. apply lt_0_INR; lia. Qed.
Lemma Hh : 0 < h. Proof. apply Rdiv_lt_0_compat; [exact Hdt | exact HmR]. Qed.
Lemma INR_mul_h i : INR (m * i) * h = INR i * dt.
Proof. rewrite mult_INR. field. pose proof HmR; lra. Qed.

(** fine step j = m i + k lies inside coarse step i, and there the fine segment IS the coarse segment (same line) *)
Lemma load_fine (rec F : list R) N j : interp_upto m rec F N -> (S j <= N)%nat ->
  (S (j / m) < length rec)%nat /\ (forall t, load F h j t = load rec dt (j / m) t) /\
  INR (j / m) * dt <= INR j * h /\ INR (S j) * h <= INR (S (j / m)) * dt.
Proof.
  intros (HL & HN & HF) Hj. pose proof HmR as HmR.
  pose proof (Nat.div_mod j m ltac:(lia)) as E. pose proof (Nat.mod_upper_bound j m ltac:(lia)) as Hk.
  set (i := (j / m)%nat) in *. set (k := (j mod m)%nat) in *. clearbody i k. subst j.
  assert (Hi : (S i < length rec)%nat) by nia.
  split; [exact Hi|]. split; [|split].
  - intros t. unfold load, gat.
    replace (S (m * i + k)) with (m * i + S k)%nat by lia.
    rewrite (HF i k Hi ltac:(lia) ltac:(lia)), (HF i (S k) Hi ltac:(lia) ltac:(lia)).
    rewrite plus_INR, mult_INR, S_INR. field. lra.
  - rewrite <- INR_mul_h. apply (INR_dt_mono h Hh). lia.
  - rewrite <- (INR_mul_h (S i)). apply (INR_dt_mono h Hh). nia.
Qed.

Lemma load_fine_pwload (rec F : list R) N j t : interp_upto m rec F N -> (S j <= N)%nat ->
  INR j * h <= t <= INR (S j) * h -> load F h j t = pwload rec dt t.
Proof.
  intros HI Hj Ht. destruct (load_fine rec F N j HI Hj) as (Hi & HE & Ha & Hb).
  rewrite HE. symmetry. apply (pwload_on_step dt Hdt rec (j / m) t Hi). lra.
Qed.

Lemma fine_cover N t : (1 <= N)%nat -> 0 <= t <= INR N * h ->
  exists j, (S j <= N)%nat /\ INR j * h <= t <= INR (S j) * h.
Proof.
  intros HN [H0 H1]. exists (idx h (N - 1) t). destruct (idx_props h (N - 1) t) as (I1 & I2 & I3).
  split; [lia|]. split.
  - destruct I2 as [->|I2]; [cbn [INR]; lra | lra].
  - destruct I3 as [E|I3]; [|exact I3]. rewrite E. replace (S (N - 1)) with N by lia. exact H1.
Qed.

(** (1) the forcing function is unchanged by the refinement *)
Theorem pwload_refine_upto (rec F : list R) N : interp_upto m rec F N -> (1 <= N)%nat ->
  forall t, 0 <= t <= INR N * h -> pwload F h t = pwload rec dt t.
Proof.
  intros HI HN t Ht. destruct (fine_cover N t HN Ht) as [j [Hj Hjt]].
  destruct HI as (HL & HI'). rewrite (pwload_on_step h Hh F j t ltac:(lia) Hjt).
  apply (load_fine_pwload rec F N j t); [split; [exact HL | exact HI'] | exact Hj | exact Hjt].
Qed.

Lemma span_eq (rec : list R) : INR (m * (length rec - 1)) * h = INR (length rec - 1) * dt.
Proof. apply INR_mul_h. Qed.

Theorem pwload_refine (rec F : list R) : (2 <= length rec)%nat -> interpolates m rec F ->
  forall t, 0 <= t <= INR (length rec - 1) * dt -> pwload F h t = pwload rec dt t.
Proof.
  intros Hn HI t Ht. assert (Hne : rec <> []) by (intros ->; cbn in Hn; lia).
  apply (pwload_refine_upto rec F _ (interpolates_upto m rec F Hne HI)); [nia|]. now rewrite span_eq.
Qed.

(** for a one-sample record [interpolates] says nothing about F (only that it is not empty): the single instant t = 0
    needs the first samples to agree, and then it holds *)
Theorem pwload_refine_head (rec F : list R) : (1 <= length rec)%nat -> interpolates m rec F ->
  nth 0 F 0 = nth 0 rec 0 ->
  forall t, 0 <= t <= INR (length rec - 1) * dt -> pwload F h t = pwload rec dt t.
Proof.
  intros Hn HI H0 t Ht. destruct (le_lt_dec 2 (length rec)) as [H2|H2]; [now apply pwload_refine|].
  replace (length rec - 1)%nat with 0%nat in Ht by lia. cbn [INR] in Ht. assert (t = 0) as -> by lra.
  rewrite (pwload_at_0 F h Hh), (pwload_at_0 rec dt Hdt). exact H0.
Qed.

(** the exact solution of the RAW record also solves the refined problem on the interpolated prefix *)
Lemma firstn_load (F : list R) L j t : (S j < L)%nat -> load (firstn L F) h j t = load F h j t.
Proof. intros Hj. unfold load, gat. rewrite !nth_firstn_lt by lia. reflexivity. Qed.

Lemma solves_firstn (F : list R) L (u v : R -> R) : solves xi w h F u v -> solves xi w h (firstn L F) u v.
Proof.
  intros (U0 & V0 & Hode). split; [exact U0|]. split; [exact V0|]. intros j Hj t Ht.
  rewrite firstn_length in Hj. rewrite firstn_load by lia. apply Hode; [lia | exact Ht].
Qed.

Lemma raw_solves_fine_prefix (rec F : list R) N : interp_upto m rec F N ->
  solves xi w h (firstn (S N) F) (glued_u xi w dt rec) (glued_v xi w dt rec).
Proof.
  intros HI. destruct (glued_0 xi w dt Hw Hxi0 Hxi1 Hdt rec) as [U0 V0]. split; [exact U0|]. split; [exact V0|].
  intros j Hj t Ht. rewrite firstn_length in Hj.
  destruct (glued_deriv xi w dt Hw Hxi0 Hxi1 Hdt rec t) as [Du Dv]. split; [exact Du|].
  rewrite firstn_load by lia. rewrite (load_fine_pwload rec F N j t HI ltac:(lia) Ht). exact Dv.
Qed.

(** (2a) every exact solution of the refined problem coincides, on the interpolated span, with every exact solution of
    the raw problem *)
Theorem exact_solution_refine_upto (rec F : list R) N (u v uF vF : R -> R) : interp_upto m rec F N ->
  solves xi w dt rec u v -> solves xi w h F uF vF ->
  forall t, 0 <= t <= INR N * h -> uF t = u t /\ vF t = v t.
Proof.
  intros HI Hs HsF t Ht.
  assert (HlenF : length (firstn (S N) F) = S N) by (apply firstn_length_le; destruct HI; lia).
  destruct (solution_unique xi w h Hw Hxi0 Hxi1 Hh (firstn (S N) F) uF vF _ _
              (solves_firstn F (S N) uF vF HsF) (raw_solves_fine_prefix rec F N HI) t) as [-> ->].
  { rewrite HlenF. replace (S N - 1)%nat with N by lia. exact Ht. }
  apply (solution_unique xi w dt Hw Hxi0 Hxi1 Hdt rec _ _ u v (glued_solves xi w dt Hw Hxi0 Hxi1 Hdt rec) Hs t).
  split; [lra|]. destruct HI as (_ & HN & _). rewrite <- span_eq.
  eapply Rle_trans; [apply Ht|]. apply (INR_dt_mono h Hh). exact HN.
Qed.

(** (2) the fine series samples the raw record's exact solution at the finer instants *)
Theorem fine_series_upto (rec F : list R) N : interp_upto m rec F N ->
  forall k, (k <= N)%nat ->
    nth k (nj_series (nj_coeffs xi w h) F) (0, 0)
    = (glued_u xi w dt rec (INR k * h), glued_v xi w dt rec (INR k * h)).
Proof.
  intros HI k Hk. pose proof HI as (HL & _).
  rewrite (series_exact xi w h Hw Hxi0 Hxi1 Hh F _ _ (glued_solves xi w h Hw Hxi0 Hxi1 Hh F) k ltac:(lia)).
  destruct (exact_solution_refine_upto rec F N _ _ _ _ HI (glued_solves xi w dt Hw Hxi0 Hxi1 Hdt rec)
              (glued_solves xi w h Hw Hxi0 Hxi1 Hh F) (INR k * h)) as [-> ->]; [|reflexivity].
  split; [apply Rmult_le_pos; [apply pos_INR | pose proof Hh; lra]|]. apply (INR_dt_mono h Hh). exact Hk.
Qed.

Lemma instant_in_span (n k : nat) : INR k * h <= INR (n - 1) * dt -> (k <= m * (n - 1))%nat.
Proof.
  intros H. rewrite <- INR_mul_h in H. apply INR_le. apply (Rmult_le_reg_r h); [exact Hh | exact H].
Qed.

Theorem exact_solution_refine (rec F : list R) (u v uF vF : R -> R) : (1 <= length rec)%nat -> interpolates m rec F ->
  solves xi w dt rec u v -> solves xi w h F uF vF ->
  forall t, 0 <= t <= INR (length rec - 1) * dt -> uF t = u t /\ vF t = v t.
Proof.
  intros Hn HI Hs HsF t Ht. assert (Hne : rec <> []) by (intros ->; cbn in Hn; lia).
  apply (exact_solution_refine_upto rec F _ u v uF vF (interpolates_upto m rec F Hne HI) Hs HsF). now rewrite span_eq.
Qed.

Theorem fine_series_samples_raw_solution (rec F : list R) : (1 <= length rec)%nat -> interpolates m rec F ->
  forall k, INR k * h <= INR (length rec - 1) * dt ->
    nth k (nj_series (nj_coeffs xi w h) F) (0, 0)
    = (glued_u xi w dt rec (INR k * h), glued_v xi w dt rec (INR k * h)).
Proof.
  intros Hn HI k Hk. assert (Hne : rec <> []) by (intros ->; cbn in Hn; lia).
  apply (fine_series_upto rec F _ (interpolates_upto m rec F Hne HI)). now apply instant_in_span.
Qed.

(** (3) spectral displacement *)
Lemma u_row_upto (rec F : list R) N : interp_upto m rec F N ->
  map fst (firstn (S N) (nj_series (nj_coeffs xi w h) F)) = map (fun k => glued_u xi w dt rec (INR k * h)) (seq 0 (S N)).
Proof.
  intros HI. pose proof HI as (HL & _).
  assert (Hlen : length (firstn (S N) (nj_series (nj_coeffs xi w h) F)) = S N)
    by (apply firstn_length_le; rewrite nj_series_length; lia).
  apply (nth_ext _ _ 0 0).
  - now rewrite !map_length, Hlen, seq_length.
  - intros k Hk. rewrite map_length, Hlen in Hk.
    rewrite (nth_map_in fst _ k 0 (0, 0)) by (rewrite Hlen; exact Hk).
    rewrite nth_firstn_lt by exact Hk. rewrite (fine_series_upto rec F N HI k ltac:(lia)). cbn [fst].
    rewrite (nth_map_in _ (seq 0 (S N)) k 0 0%nat) by (rewrite seq_length; exact Hk).
    rewrite seq_nth by exact Hk. reflexivity.
Qed.
Lemma v_row_upto (rec F : list R) N : interp_upto m rec F N ->
  map snd (firstn (S N) (nj_series (nj_coeffs xi w h) F)) = map (fun k => glued_v xi w dt rec (INR k * h)) (seq 0 (S N)).
Proof.
  intros HI. pose proof HI as (HL & _).
  assert (Hlen : length (firstn (S N) (nj_series (nj_coeffs xi w h) F)) = S N)
    by (apply firstn_length_le; rewrite nj_series_length; lia).
  apply (nth_ext _ _ 0 0).
  - now rewrite !map_length, Hlen, seq_length.
  - intros k Hk. rewrite map_length, Hlen in Hk.
    rewrite (nth_map_in snd _ k 0 (0, 0)) by (rewrite Hlen; exact Hk).
    rewrite nth_firstn_lt by exact Hk. rewrite (fine_series_upto rec F N HI k ltac:(lia)). cbn [snd].
    rewrite (nth_map_in _ (seq 0 (S N)) k 0 0%nat) by (rewrite seq_length; exact Hk).
    rewrite seq_nth by exact Hk. reflexivity.
Qed.

(** prefix form, any interpolant F: the samples with k <= m (n-1) *)
Theorem sd_prefix_is_sampled_exact_peak (rec F : list R) : (1 <= length rec)%nat -> interpolates m rec F ->
  absmax (map fst (firstn (m * (length rec - 1) + 1) (nj_series (nj_coeffs xi w h) F)))
  = absmax (map (fun k => glued_u xi w dt rec (INR k * h)) (seq 0 (m * (length rec - 1) + 1))).
Proof.
  intros Hn HI. assert (Hne : rec <> []) by (intros ->; cbn in Hn; lia).
  rewrite Nat.add_1_r. now rewrite (u_row_upto rec F _ (interpolates_upto m rec F Hne HI)).
Qed.

(** full form, the object's record: ALL m n samples, against the raw record held for one more step *)
Theorem object_u_row (vals : list R) : (1 <= length vals)%nat ->
  map fst (nj_series (nj_coeffs xi w h) (interp_record vals (Z.of_nat m)))
  = map (fun k => glued_u xi w dt (hold_last vals) (INR k * h)) (seq 0 (m * length vals)).
Proof.
  intros Hn. pose proof (u_row_upto _ _ _ (interp_record_upto vals m Hm Hn)) as E.
  replace (S (m * length vals - 1)) with (m * length vals)%nat in E by nia.
  rewrite firstn_all2 in E by (rewrite nj_series_length, interp_record_length; lia). exact E.
Qed.
Theorem object_v_row (vals : list R) : (1 <= length vals)%nat ->
  map snd (nj_series (nj_coeffs xi w h) (interp_record vals (Z.of_nat m)))
  = map (fun k => glued_v xi w dt (hold_last vals) (INR k * h)) (seq 0 (m * length vals)).
Proof.
  intros Hn. pose proof (v_row_upto _ _ _ (interp_record_upto vals m Hm Hn)) as E.
  replace (S (m * length vals - 1)) with (m * length vals)%nat in E by nia.
  rewrite firstn_all2 in E by (rewrite nj_series_length, interp_record_length; lia). exact E.
Qed.

Theorem object_sd_is_sampled_exact_peak (vals : list R) : (1 <= length vals)%nat ->
  absmax (map fst (nj_series (nj_coeffs xi w h) (interp_record vals (Z.of_nat m))))
  = absmax (map (fun k => glued_u xi w dt (hold_last vals) (INR k * h)) (seq 0 (m * length vals))).
Proof. intros Hn. now rewrite object_u_row. Qed.

(** the object-level statement in one piece *)
Theorem object_sd_e2e (vals : list R) : (1 <= length vals)%nat ->
  let u := glued_u xi w dt (hold_last vals) in
  let v := glued_v xi w dt (hold_last vals) in
  solves xi w dt (hold_last vals) u v /\
  (forall u0 v0 : R -> R, solves xi w dt vals u0 v0 ->
     forall t, 0 <= t <= INR (length vals - 1) * dt -> u t = u0 t /\ v t = v0 t) /\
  (forall t, INR (length vals - 1) * dt <= t <= INR (length vals) * dt ->
     pwload (hold_last vals) dt t = nth (length vals - 1) vals 0) /\
  map fst (nj_series (nj_coeffs xi w h) (interp_record vals (Z.of_nat m)))
    = map (fun k => u (INR k * h)) (seq 0 (m * length vals)) /\
  absmax (map fst (nj_series (nj_coeffs xi w h) (interp_record vals (Z.of_nat m))))
    = absmax (map (fun k => u (INR k * h)) (seq 0 (m * length vals))).
Proof.
  intros Hn u v. pose proof (glued_solves xi w dt Hw Hxi0 Hxi1 Hdt (hold_last vals)) as Hs.
  split; [exact Hs|]. split; [|split; [|split]].
  - intros u0 v0 H0 t Ht.
    exact (solution_unique xi w dt Hw Hxi0 Hxi1 Hdt vals u v u0 v0 (solves_hold_last xi w dt vals u v Hs) H0 t Ht).
  - apply (hold_last_load dt Hdt vals Hn).
  - now apply object_u_row.
  - now apply object_sd_is_sampled_exact_peak.
Qed.

(** consequences: attained at a fine instant; below every bound of |u|; chain raw <= prefix <= object *)
Theorem object_sd_attained (vals : list R) : (1 <= length vals)%nat ->
  exists k, (k < m * length vals)%nat /\
    absmax (map fst (nj_series (nj_coeffs xi w h) (interp_record vals (Z.of_nat m))))
    = Rabs (glued_u xi w dt (hold_last vals) (INR k * h)).
Proof.
  intros Hn. rewrite object_u_row by exact Hn.
  destruct (absmax_attained (map (fun k => glued_u xi w dt (hold_last vals) (INR k * h)) (seq 0 (m * length vals))))
    as [y [Hy Ey]].
  { intros E. apply (f_equal (@length _)) in E. rewrite map_length, seq_length in E. cbn in E. nia. }
  apply in_map_iff in Hy. destruct Hy as [k [<- Hk]]. apply in_seq in Hk. exists k. split; [lia | now symmetry].
Qed.

Theorem object_sd_le_sup (vals : list R) B : (1 <= length vals)%nat ->
  (forall t, 0 <= t <= INR (length vals) * dt -> Rabs (glued_u xi w dt (hold_last vals) t) <= B) ->
  absmax (map fst (nj_series (nj_coeffs xi w h) (interp_record vals (Z.of_nat m)))) <= B.
Proof.
  intros Hn HB. destruct (object_sd_attained vals Hn) as [k [Hk ->]]. apply HB.
  split; [apply Rmult_le_pos; [apply pos_INR | pose proof Hh; lra]|].
  rewrite <- INR_mul_h. apply (INR_dt_mono h Hh). lia.
Qed.

Theorem sd_prefix_le_sup (rec F : list R) B : (1 <= length rec)%nat -> interpolates m rec F ->
  (forall t, 0 <= t <= INR (length rec - 1) * dt -> Rabs (glued_u xi w dt rec t) <= B) ->
  absmax (map fst (firstn (m * (length rec - 1) + 1) (nj_series (nj_coeffs xi w h) F))) <= B.
Proof.
  intros Hn HI HB. rewrite sd_prefix_is_sampled_exact_peak by assumption.
  destruct (absmax_attained (map (fun k => glued_u xi w dt rec (INR k * h)) (seq 0 (m * (length rec - 1) + 1))))
    as [y [Hy <-]].
  { intros E. apply (f_equal (@length _)) in E. rewrite map_length, seq_length in E. cbn [length] in E. rewrite Nat.add_1_r in E. discriminate. }
  apply in_map_iff in Hy. destruct Hy as [k [<- Hk]]. apply in_seq in Hk. apply HB.
  split; [apply Rmult_le_pos; [apply pos_INR | pose proof Hh; lra]|].
  rewrite <- span_eq. apply (INR_dt_mono h Hh). lia.
Qed.

Theorem sd_chain (rec F : list R) : (1 <= length rec)%nat -> interpolates m rec F ->
  absmax (map fst (nj_series (nj_coeffs xi w dt) rec))
  <= absmax (map fst (firstn (m * (length rec - 1) + 1) (nj_series (nj_coeffs xi w h) F)))
  /\ absmax (map fst (firstn (m * (length rec - 1) + 1) (nj_series (nj_coeffs xi w h) F)))
  <= absmax (map fst (nj_series (nj_coeffs xi w h) F)).
Proof.
  intros Hn HI. assert (Hne : rec <> []) by (intros ->; cbn in Hn; lia). split.
  - apply absmax_superset. intros y Hy. apply in_map_iff in Hy. destruct Hy as [s [<- Hs]]. apply in_map.
    destruct (In_nth _ _ (0, 0) Hs) as [i [Hi Hnth]]. rewrite nj_series_length in Hi.
    rewrite <- Hnth, <- (refinement_gen xi w Hw Hxi0 Hxi1 dt m rec F Hdt Hm HI i Hi).
    destruct HI as [HlenF _]. specialize (HlenF Hne).
    rewrite <- (nth_firstn_lt _ (m * (length rec - 1) + 1) (m * i)) by nia.
    apply nth_In. rewrite firstn_length_le by (rewrite nj_series_length; lia). nia.
  - apply absmax_superset. intros y Hy. apply in_map_iff in Hy. destruct Hy as [s [<- Hs]]. apply in_map.
    rewrite <- (firstn_skipn (m * (length rec - 1) + 1) (nj_series (nj_coeffs xi w h) F)).
    apply in_or_app. left. exact Hs.
Qed.
End E2E.

(** the one-sample edge of clause (1): [interpolates m [x] F] does not constrain F, so without the first samples agreeing
    the loads differ at t = 0 (spec-level remark; np.interp's output does start with the raw first sample) *)
Lemma pwload_refine_singleton_witness :
  interpolates 1 [1] [2] /\ pwload [2] (1 / INR 1) 0 <> pwload [1] 1 0.
Proof.
  split.
  - split; [intros _; cbn; lia | intros i k Hi; cbn in Hi; lia].
  - rewrite (pwload_at_0 [2] (1 / INR 1)) by (cbn [INR]; lra). rewrite (pwload_at_0 [1] 1) by lra. cbn [nth]. lra.
Qed.
