(** The generated reading of eqsig/im.py: calc_cav_dp (gen/Gen_cavdp.v, re-translated from the source on every run by
    translator/py2coq_cavdp.py) is the hand-written model [cav_dp] of model/M_im.v -- at T := R, for every record [a], every
    [dt] with an integer number [pps] of samples per second (dt * pps = 1: the hypothesis of the model's own theorems
    C09_cavdp_between .. C09_cavdp_final) and at least one whole second of record.  Under these hypotheses no statement of the
    source raises.  For a non-empty record shorter than one second the source raises ValueError (np.interp on an empty xp), for
    an empty record IndexError (time[-1]); both are proved below.
    What is used about R: ring laws ((s+(i+1)dt) - (s+i dt) = dt, 0 * x = 0, 1 * x = x, x / 1 = x), |(|x|)| = |x|, totality of
    the order (the `else: raise ValueError` branch of the gate is unreachable), floor of an integer. *)
From Coq Require Import ZArith Reals List Bool Lra Lia.
From EQ Require Import lib.Num lib.NpList lib.Quad lib.InterpMono lib.PyVal lib.PyRes lib.PySeq lib.NpLoop
  model.M_displacements model.M_im proofs.P_C09 proofs.P_C09_cavdp gen.Gen_cavdp.
Import ListNotations.
Local Open Scope R_scope.

(** the R instance's arithmetic, leaving [nfloor] folded (the floor lemmas of lib/InterpMono.v are stated with it) *)
Ltac numR' := cbn [n0 n1 nadd nsub nmul ndiv nopp nabs nltb nleb neqb nofZ NumR] in *.

(** ** list readings *)
Lemma map_seq_from {B} (f : nat -> B) len : forall s, map f (seq s len) = map (fun k => f (s + k)%nat) (seq 0 len).
Proof.
  induction len as [|len IH]; intros s; [reflexivity|].
  cbn [seq map]. rewrite Nat.add_0_r. f_equal.
  rewrite (IH (S s)), <- seq_shift, map_map. apply map_ext. intros k. f_equal. lia.
Qed.

Lemma skipn_nth_error {A} (l : list A) : forall s x, nth_error l s = Some x -> skipn s l = x :: skipn (S s) l.
Proof.
  induction l as [|y r IHl]; intros s x Ex; [destruct s; discriminate|].
  destruct s as [|s]; [cbn in Ex; injection Ex as ->; reflexivity|].
  cbn [nth_error] in Ex. change (skipn (S s) (y :: r)) with (skipn s r). rewrite (IHl s x Ex). reflexivity.
Qed.

Lemma opt_all_nth_error {A} (l : list A) : forall len s, (s + len <= length l)%nat ->
  opt_all (map (nth_error l) (seq s len)) = Some (firstn len (skipn s l)).
Proof.
  induction len as [|len IH]; intros s Hs; [reflexivity|].
  cbn [seq map opt_all].
  destruct (nth_error l s) as [x|] eqn:Ex; [|apply nth_error_None in Ex; lia].
  rewrite (IH (S s)) by lia. rewrite (skipn_nth_error l s x Ex). reflexivity.
Qed.

(** out = []; for j in range(s, s + len): out.append(v[j]) *)
Lemma py_gather_window (v : list R) s len : (s + len <= length v)%nat ->
  py_gather v (Z.of_nat s) (Z.of_nat (s + len)) = PyOk (window s len v).
Proof.
  intros Hs. unfold py_gather, py_range2, window.
  replace (Z.to_nat (Z.of_nat (s + len) - Z.of_nat s)) with len by lia.
  rewrite map_map.
  rewrite (map_ext _ (fun k => nth_error v (s + k))).
  - rewrite <- (map_seq_from (nth_error v)). rewrite opt_all_nth_error by lia. reflexivity.
  - intros k. unfold py_item. destruct (Z.ltb_spec (Z.of_nat s + Z.of_nat k) 0) as [Hn|Hn]; [lia|]. f_equal. lia.
Qed.

Lemma map2_map_same {A B C D} (f : B -> C -> D) (g : A -> B) (h : A -> C) (l : list A) :
  map2 f (map g l) (map h l) = map (fun x => f (g x) (h x)) l.
Proof. induction l as [|x l IH]; cbn; [reflexivity | now rewrite IH]. Qed.

Lemma map_true_repeat {A} (l : list A) : map (fun _ => true) l = repeat true (length l).
Proof. induction l as [|x l IH]; cbn; [reflexivity | now rewrite IH]. Qed.

Lemma where_from_repeat_true n : forall i, where_from (fun b : bool => b) i (repeat true n) = seq i n.
Proof. induction n as [|n IH]; intros i; [reflexivity|]. cbn. now rewrite IH. Qed.

(** v[np.where(mask)] with an all-True mask of length n <= len(v): the first n elements *)
Lemma np_select_all (v : list R) n : (n <= length v)%nat -> np_select v (repeat true n) = PyOk (firstn n v).
Proof.
  intros Hn. unfold np_select, where_idx. rewrite where_from_repeat_true, opt_all_nth_error by lia. reflexivity.
Qed.

Lemma vabs_firstn_vabs (l : list R) n : vabs (firstn n (vabs l)) = firstn n (vabs l).
Proof.
  unfold vabs. rewrite firstn_map, map_map. apply map_ext. intros x. numR'. apply Rabs_Rabsolu.
Qed.

Lemma py_max_nonempty (l : list R) : l <> [] -> py_max l = Some (amax l).
Proof. destruct l; [congruence | reflexivity]. Qed.

(** ** the time grid of one window *)
Section Second.
Variables (dt : R) (pps : nat).
Hypothesis Hp : (1 <= pps)%nat.
Hypothesis Hdt : dt * IZR (Z.of_nat pps) = 1.

Lemma dt_pos' : 0 < dt.
Proof. assert (1 <= IZR (Z.of_nat pps)) by (apply IZR_le; lia). nra. Qed.

(** np.arange(x, x + 1, dt) has exactly pps points x + i dt *)
Lemma np_arange3_second (x : R) : np_arange3 x (x + 1) dt = map (fun i => x + IZR (Z.of_nat i) * dt) (seq 0 pps).
Proof.
  pose proof dt_pos' as Hd. unfold np_arange3. numR'.
  replace (- ((x + 1 - x) / dt)) with (IZR (- Z.of_nat pps)).
  2:{ rewrite opp_IZR. apply Ropp_eq_compat. apply (Rmult_eq_reg_l dt); [|lra]. rewrite Hdt. field. lra. }
  rewrite (Rfloor_unique _ (- Z.of_nat pps)) by lra.
  replace (Z.to_nat (- - Z.of_nat pps)) with pps by lia. reflexivity.
Qed.

(** int(1 / dt) = pps *)
Lemma py_int_inv_dt : py_int (ndiv n1 dt) = Z.of_nat pps.
Proof.
  pose proof dt_pos' as Hd. unfold py_int. numR'.
  replace (1 / dt) with (IZR (Z.of_nat pps)) by (apply (Rmult_eq_reg_l dt); [rewrite Hdt; field|]; lra).
  assert (H0 : 0 <= IZR (Z.of_nat pps)) by (apply IZR_le; lia).
  destruct (Rltb _ _) eqn:E; [apply Rltb_true in E; lra|].
  apply Rfloor_unique. lra.
Qed.

(** (x_lower <= interval_time) * (interval_time <= x_upper) is True at every point of the window's grid *)
Lemma window_mask_all (s : nat) :
  let t3 := map (fun i => IZR (Z.of_nat s) * dt + IZR (Z.of_nat i) * dt) (seq 0 pps) in
  map2 andb (map (fun x => Rleb (IZR (Z.of_nat s) * dt) x) t3) (map (fun x => Rleb x (IZR (Z.of_nat s + Z.of_nat pps) * dt)) t3)
  = repeat true pps.
Proof.
  pose proof dt_pos' as Hd. cbv zeta. rewrite map2_map_same, map_map.
  rewrite (map_ext_in _ (fun _ => true)); [rewrite map_true_repeat, seq_length; reflexivity|].
  intros i Hi. apply in_seq in Hi.
  assert (Hi0 : 0 <= IZR (Z.of_nat i)) by (apply IZR_le; lia).
  assert (Hi1 : IZR (Z.of_nat i) <= IZR (Z.of_nat pps)) by (apply IZR_le; lia).
  rewrite plus_IZR. apply andb_true_intro. split; apply Rleb_true; nra.
Qed.

(** trapezoid(y, x) on the uniform grid x = c + i dt is the model's trapz dt y *)
Lemma diff_cons2 (x y : R) r : diff (x :: y :: r) = (y - x) :: diff (y :: r).
Proof. reflexivity. Qed.

Lemma np_trapezoid_panels (c : R) : forall (y : list R) k,
  map2 (fun d s => d * s / 2) (diff (map (fun i => c + IZR (Z.of_nat i) * dt) (seq k (length y)))) (map2 Rplus (tl y) (removelast y))
  = map2 (fun x y => dt * (y + x) / 2) y (tl y).
Proof.
  induction y as [|y0 r IH]; intros k; [reflexivity|].
  destruct r as [|y1 r]; [reflexivity|].
  specialize (IH (S k)).
  change (removelast (y0 :: y1 :: r)) with (y0 :: removelast (y1 :: r)).
  cbn [length seq map tl] in IH |- *. rewrite diff_cons2. cbn [map2]. f_equal; [|exact IH].
  rewrite Nat2Z.inj_succ, succ_IZR. field.
Qed.

Lemma np_trapezoid_uniform (c : R) (y : list R) :
  np_trapezoid y (map (fun i => c + IZR (Z.of_nat i) * dt) (seq 0 (length y))) = trapz dt y.
Proof. unfold np_trapezoid, trapz. numR'. now rewrite np_trapezoid_panels. Qed.

(** ** one pass of the loop = one step of [cavdp_windows] *)
Definition win_acc (thr : R) (ag : list R) (s : nat) (acc : R) : R :=
  let absw := vabs (window s (S pps) ag) in
  if Rltb (amax absw - thr) 0 then acc else acc + trapz dt (firstn pps absw).

Lemma cavdp_windows_S thr k s acc (ag : list R) :
  cavdp_windows thr dt pps (S k) s acc ag = win_acc thr ag s acc :: cavdp_windows thr dt pps k (s + pps) (win_acc thr ag s acc) ag.
Proof. reflexivity. Qed.

Lemma gen_step_eq (ag : list R) (s : nat) (pm acc : R) (ser : list R) : (s + pps < length ag)%nat ->
  exists pm', gen_cav_dp_step dt (Z.of_nat pps) ag (Z.of_nat s, pm, acc, ser)
            = PyOk (Z.of_nat (s + pps), pm', win_acc (1 / 40) ag s acc, ser ++ [win_acc (1 / 40) ag s acc]).
Proof.
  intros Hs. unfold gen_cav_dp_step. cbv zeta.
  replace (Z.of_nat s + Z.of_nat pps + 1)%Z with (Z.of_nat (s + S pps)) by lia.
  rewrite py_gather_window by lia. cbn [res_bind]. numR'.
  rewrite np_arange3_second, window_mask_all.
  set (w := window s (S pps) ag).
  assert (Hw : length w = S pps) by (apply window_length; lia).
  set (grid := map (fun i => IZR (Z.of_nat s) * dt + IZR (Z.of_nat i) * dt) (seq 0 pps)).
  assert (Hg : length grid = pps) by (unfold grid; now rewrite map_length, seq_length).
  rewrite (np_select_all grid) by lia. cbn [res_bind].
  rewrite (np_select_all (vabs w)) by (unfold vabs; rewrite map_length; lia). cbn [res_bind].
  assert (Hfg : firstn pps grid = grid) by (rewrite <- Hg; apply firstn_all).
  rewrite Hfg, vabs_firstn_vabs.
  assert (Hf : length (firstn pps (vabs w)) = pps) by (rewrite firstn_length; unfold vabs; rewrite map_length; lia).
  unfold np_trapezoid_res. rewrite Hf, Hg, Nat.eqb_refl. cbn [res_bind].
  unfold grid. replace (seq 0 pps) with (seq 0 (length (firstn pps (vabs w)))) by now rewrite Hf.
  rewrite np_trapezoid_uniform.
  assert (Hav : length (vabs w) = S pps) by (unfold vabs; now rewrite map_length).
  rewrite (py_max_nonempty (vabs w)) by (intros E0; rewrite E0 in Hav; discriminate Hav). cbn [of_opt res_bind].
  unfold win_acc. cbv zeta. fold w. numR'.
  replace (Z.of_nat s + Z.of_nat pps)%Z with (Z.of_nat (s + pps)) by lia.
  case_Rltb (amax (vabs w) - 1 / 40) 0.
  - cbn [res_bind]. numR'. eexists. do 3 f_equal; [ring | f_equal; f_equal; ring].
  - case_Rleb 0 (amax (vabs w) - 1 / 40); [|lra].
    cbn [res_bind]. numR'. eexists. do 3 f_equal; [ring | f_equal; f_equal; ring].
Qed.

Lemma gen_iter_eq (ag : list R) : forall nwin s pm acc ser, (s + nwin * pps < length ag)%nat ->
  exists s' pm' c', res_iter nwin (gen_cav_dp_step dt (Z.of_nat pps) ag) (Z.of_nat s, pm, acc, ser)
                  = PyOk (s', pm', c', ser ++ cavdp_windows (1 / 40) dt pps nwin s acc ag).
Proof.
  induction nwin as [|k IH]; intros s pm acc ser Hs.
  - cbn [res_iter cavdp_windows]. rewrite app_nil_r. now eexists _, _, _.
  - cbn [res_iter]. destruct (gen_step_eq ag s pm acc ser ltac:(nia)) as [pm' E]. rewrite E. cbn [res_bind].
    destruct (IH (s + pps)%nat pm' (win_acc (1 / 40) ag s acc) (ser ++ [win_acc (1 / 40) ag s acc]) ltac:(nia)) as (s' & pm'' & c' & E').
    rewrite E'. rewrite cavdp_windows_S, <- app_assoc. now eexists _, _, _.
Qed.
End Second.

(** ** np.interp on the integer grid = [interp_grid] *)
Lemma interp_seg_cons2 (t x0 x1 : R) xr (f0 f1 : R) fr :
  interp_seg t (x0 :: x1 :: xr) (f0 :: f1 :: fr)
  = if Rltb t x1 then (f1 - f0) / (x1 - x0) * (t - x0) + f0 else interp_seg t (x1 :: xr) (f1 :: fr).
Proof. reflexivity. Qed.

Lemma interp_seg_arange : forall (fp : list R) (s : nat) (t : R), fp <> [] -> IZR (Z.of_nat s) <= t ->
  interp_seg t (map (fun i => IZR (Z.of_nat i)) (seq s (length fp))) fp
  = let k := (Z.to_nat (nfloor t) - s)%nat in
    if (length fp <=? S k)%nat then last fp 0
    else (nth (S k) fp 0 - nth k fp 0) * (t - IZR (Z.of_nat (s + k))) + nth k fp 0.
Proof.
  induction fp as [|f0 r IH]; intros s t Hne Hst; [congruence|].
  destruct r as [|f1 r].
  - cbn [length seq map interp_seg]. cbv zeta. reflexivity.
  - cbv zeta. cbn [length seq map]. rewrite interp_seg_cons2.
    pose proof (Rfloor_spec t) as Hfl.
    assert (Hfs : (Z.of_nat s <= nfloor t)%Z).
    { assert (Z.of_nat s < nfloor t + 1)%Z by (apply lt_IZR; rewrite plus_IZR; lra). lia. }
    rewrite Nat2Z.inj_succ, succ_IZR.
    case_Rltb t (IZR (Z.of_nat s) + 1).
    + assert (Hk : nfloor t = Z.of_nat s) by (apply Rfloor_unique; lra).
      rewrite Hk, Nat2Z.id, Nat.sub_diag, Nat.add_0_r. cbn [Nat.leb nth]. field. lra.
    + assert (Hfs' : (Z.of_nat (S s) <= nfloor t)%Z).
      { assert (Z.of_nat (S s) < nfloor t + 1)%Z by (apply lt_IZR; rewrite plus_IZR, Nat2Z.inj_succ, succ_IZR; lra). lia. }
      specialize (IH (S s) t ltac:(discriminate) ltac:(rewrite Nat2Z.inj_succ, succ_IZR; lra)).
      cbv zeta in IH. cbn [length seq map] in IH. rewrite Nat2Z.inj_succ, succ_IZR in IH. rewrite IH.
      replace (Z.to_nat (nfloor t) - s)%nat with (S (Z.to_nat (nfloor t) - S s)) by lia.
      set (k := (Z.to_nat (nfloor t) - S s)%nat).
      change (S (S (length r)) <=? S (S k))%nat with (S (length r) <=? S k)%nat.
      destruct (S (length r) <=? S k)%nat; [reflexivity|].
      change (nth (S (S k)) (f0 :: f1 :: r) 0) with (nth (S k) (f1 :: r) 0).
      change (nth (S k) (f0 :: f1 :: r) 0) with (nth k (f1 :: r) 0).
      replace (s + S k)%nat with (S s + k)%nat by lia. reflexivity.
Qed.

Lemma np_arange1_nat (n : nat) : np_arange1 (Z.of_nat n) = map (fun i => IZR (Z.of_nat i)) (seq 0 n).
Proof. unfold np_arange1. now rewrite Nat2Z.id. Qed.

Lemma np_interp_arange (ws : list R) (t : R) : ws <> [] ->
  np_interp (np_arange1 (Z.of_nat (length ws))) ws t = interp_grid ws t.
Proof.
  intros Hne. rewrite np_arange1_nat.
  pose proof (interp_seg_arange ws 0 t Hne) as Hseg. cbv zeta in Hseg. rewrite Nat.sub_0_r, Nat.add_0_l in Hseg.
  destruct ws as [|f0 r]; [congruence|].
  unfold np_interp, interp_grid. cbn [length seq map] in Hseg |- *. numR'. change (IZR (Z.of_nat 0)) with 0 in *.
  case_Rltb t 0.
  - case_Rleb t 0; [reflexivity | lra].
  - rewrite Hseg by lra.
    case_Rleb t 0; [|reflexivity].
    assert (Ht : t = 0) by lra. subst t. rewrite (Rfloor_unique 0 0) by lra. cbn [Z.to_nat].
    destruct r as [|f1 r]; [reflexivity|]. cbn [length Nat.leb nth]. change (IZR (Z.of_nat 0)) with 0. ring.
Qed.

Lemma np_interp_res_ok (x xp fp : list R) : xp <> [] -> length xp = length fp ->
  np_interp_res x xp fp = PyOk (map (np_interp xp fp) x).
Proof. intros Hne Hl. unfold np_interp_res. destruct xp; [congruence|]. rewrite Hl, Nat.eqb_refl. reflexivity. Qed.

(** ** the whole function *)
Lemma py_last_some {A} (l : list A) d : l <> [] -> py_last l = Some (last l d).
Proof.
  destruct l as [|x r]; [congruence|]. intros _. cbn [py_last]. f_equal.
  revert x. induction r as [|y r IH]; intros x; [reflexivity|].
  change (last (x :: y :: r) d) with (last (y :: r) d).
  destruct r as [|z r]; [reflexivity|].
  change (last (y :: z :: r) x) with (last (z :: r) x). change (last (y :: z :: r) d) with (last (z :: r) d).
  exact (IH x).
Qed.

Section Whole.
Variables (dt : R) (pps : nat) (a : list R).
Hypothesis Hp : (1 <= pps)%nat.
Hypothesis Hdt : dt * IZR (Z.of_nat pps) = 1.
Let n := length a.
Let nwin := Z.to_nat (nfloor (last (times dt n) 0)).

Lemma last_time_nonneg : 0 <= last (times dt n) 0.
Proof.
  pose proof (dt_pos' dt pps Hp Hdt) as Hd. destruct (Nat.eq_dec n 0) as [E|E]; [rewrite E; cbn; lra|].
  rewrite last_nth_R, times_length, times_nth by lia.
  assert (0 <= IZR (Z.of_nat (n - 1))) by (apply IZR_le; lia). nra.
Qed.

(** gen_cav_dp = the model, with the source's own constants 9.81 (as 981/100) and 0.025 (as 1/40), the source's own
    pps = int(1/dt) and number of windows int(time[-1]) *)
Theorem gen_cav_dp_eq : (1 <= nwin)%nat ->
  gen_cav_dp dt (times dt n) a = PyOk (cav_dp (981 / 100) (1 / 40) dt pps nwin a).
Proof.
  intros Hw. pose proof last_time_nonneg as Hl.
  assert (Hn : (1 <= n)%nat).
  { destruct (Nat.eq_dec n 0) as [E|E]; [|lia]. exfalso. unfold nwin in Hw. rewrite E in Hw. cbn [times seq map last] in Hw.
    rewrite (Rfloor_unique 0 0) in Hw by (cbn; lra). cbn in Hw. lia. }
  destruct (cavdp_nwin_in_range dt pps n Hp Hdt Hn) as [_ Hrange]. fold nwin in Hrange.
  unfold gen_cav_dp. cbv zeta. rewrite (py_int_inv_dt dt pps Hp Hdt).
  rewrite (py_last_some (times dt n) 0) by (intros E; apply (f_equal (@length R)) in E; rewrite times_length in E; cbn in E; lia).
  cbn [of_opt res_bind].
  assert (Hint : py_int (last (times dt n) 0) = Z.of_nat nwin).
  { unfold py_int. numR'. destruct (Rltb _ _) eqn:E; [apply Rltb_true in E; lra|].
    unfold nwin. rewrite Z2Nat.id; [reflexivity | now apply Rfloor_nonneg]. }
  rewrite Hint. replace (Z.to_nat (Z.of_nat nwin - 0)) with nwin by lia. numR'.
  set (ag := map (fun x => x / (981 / 100)) a).
  assert (Hag : length ag = n) by (unfold ag; now rewrite map_length).
  destruct (gen_iter_eq dt pps Hp Hdt ag nwin 0%nat 0 0 [] ltac:(rewrite Hag; lia)) as (s' & pm' & c' & E).
  change (Z.of_nat 0) with 0%Z in E. rewrite E. cbn [res_bind app].
  set (ws := cavdp_windows (1 / 40) dt pps nwin 0 0 ag).
  assert (Hws : length ws = nwin) by apply cavdp_windows_length.
  assert (Hne : ws <> []) by (intros E0; rewrite E0 in Hws; cbn in Hws; lia).
  assert (Hxl : length (np_arange1 (T := R) (Z.of_nat nwin)) = nwin) by (rewrite np_arange1_nat; now rewrite map_length, seq_length).
  rewrite np_interp_res_ok; [| intros E0; rewrite E0 in Hxl; cbn in Hxl; lia | now rewrite Hxl, Hws].
  cbn [res_bind]. f_equal.
  unfold cav_dp. cbv zeta. fold n. change (map (fun x : R => ndiv x (981 / 100)) a) with ag. change (@n0 R NumR) with 0. fold ws.
  apply map_ext. intros t. rewrite <- Hws at 1. now apply np_interp_arange.
Qed.

(** a non-empty record shorter than one second: np.interp(time, np.arange(0), []) raises ValueError *)
Theorem gen_cav_dp_short : a <> [] -> nwin = 0%nat -> gen_cav_dp dt (times dt n) a = PyRaise ValueError.
Proof.
  intros Ha Hw. pose proof last_time_nonneg as Hl.
  unfold gen_cav_dp. cbv zeta.
  rewrite (py_last_some (times dt n) 0).
  2:{ intros E; apply (f_equal (@length R)) in E; rewrite times_length in E. unfold n in E. destruct a; [congruence | discriminate]. }
  cbn [of_opt res_bind].
  assert (Hint : py_int (last (times dt n) 0) = 0%Z).
  { unfold py_int. numR'. destruct (Rltb _ _) eqn:E; [apply Rltb_true in E; lra|].
    pose proof (Rfloor_nonneg _ Hl). unfold nwin in Hw. lia. }
  rewrite Hint. reflexivity.
Qed.
End Whole.

(** the empty record: time[-1] raises IndexError *)
Theorem gen_cav_dp_empty (dt : R) : gen_cav_dp dt [] [] = PyRaise IndexError.
Proof. reflexivity. Qed.

(** the same with the literals written as in the source *)
Theorem gen_cav_dp_eq_literals (dt : R) (pps : nat) (a : list R) : (1 <= pps)%nat -> dt * IZR (Z.of_nat pps) = 1 ->
  let nwin := Z.to_nat (nfloor (last (times dt (length a)) 0)) in (1 <= nwin)%nat ->
  gen_cav_dp dt (times dt (length a)) a = PyOk (cav_dp 9.81 0.025 dt pps nwin a).
Proof.
  intros Hp Hdt nwin Hw. replace 9.81 with (981 / 100) by lra. replace 0.025 with (1 / 40) by lra.
  now apply gen_cav_dp_eq.
Qed.

Lemma gen_cav_dp_example : let a := [9.81; 9.81; 9.81; 9.81; 9.81] in
  (1 <= 2)%nat /\ (1/2) * IZR (Z.of_nat 2) = 1 /\ Z.to_nat (nfloor (last (times (1/2) (length a)) 0)) = 2%nat /\
  gen_cav_dp (1/2) (times (1/2) (length a)) a = PyOk (cav_dp 9.81 0.025 (1/2) 2 2 a).
Proof.
  cbv zeta.
  assert (Hd : (1/2) * IZR (Z.of_nat 2) = 1) by (cbn; lra).
  assert (Hn : Z.to_nat (nfloor (last (times (1/2) (length [9.81; 9.81; 9.81; 9.81; 9.81])) 0)) = 2%nat).
  { cbn [length times seq map last]. numR'. rewrite (Rfloor_unique _ 2) by (cbn; lra). reflexivity. }
  split; [lia|]. split; [exact Hd|]. split; [exact Hn|].
  pose proof (gen_cav_dp_eq_literals (1/2) 2 [9.81; 9.81; 9.81; 9.81; 9.81] ltac:(lia) Hd) as E. cbv zeta in E.
  rewrite Hn in E. apply E. lia.
Qed.
