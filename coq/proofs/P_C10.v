(** Proofs for C10 (significant and bracketed durations) at T := R. *)
From Coq Require Import ZArith Reals List Bool Lra Lia.
From EQ Require Import lib.Num lib.NpList lib.Quad lib.Where model.M_displacements model.M_im proofs.P_C09.
Import ListNotations.
Local Open Scope R_scope.

Lemma between_R lo hi tot x : between lo hi tot x = true <-> lo * tot < x < hi * tot.
Proof. unfold between. numR. rewrite andb_true_iff, !Rltb_true. tauto. Qed.
Lemma between_R_false lo hi tot x : between lo hi tot x = false <-> ~ (lo * tot < x < hi * tot).
Proof. rewrite <- between_R. destruct (between lo hi tot x); split; intros; congruence. Qed.

(** ** definition: first and last qualifying sample *)
Definition sig_spec (lo hi : R) (cum : list R) (r : option (nat * nat)) : Prop :=
  match r with
  | None => forall k, (k < length cum)%nat -> between lo hi (last0 cum) (nth k cum 0) = false
  | Some (i, j) => first_last 0 (between lo hi (last0 cum)) cum i j
  end.
Lemma C10_sig_def lo hi (cum : list R) : sig_spec lo hi cum (sig_dur_idx lo hi cum).
Proof.
  unfold sig_dur_idx, sig_spec. pose proof (where_first_last 0 (between lo hi (last0 cum)) cum) as H.
  destruct (where_idx _ cum) as [|i r]; exact H.
Qed.
Lemma sig_spec_unique lo hi cum r r' : sig_spec lo hi cum r -> sig_spec lo hi cum r' -> r = r'.
Proof.
  destruct r as [[i j]|], r' as [[i' j']|]; cbn; intros H H'; auto.
  - destruct (first_last_unique 0 _ _ _ _ _ _ H H') as [-> ->]. reflexivity.
  - destruct H as (H1 & H2 & _). rewrite H' in H2 by lia. discriminate.
  - destruct H' as (H1 & H2 & _). rewrite H in H2 by lia. discriminate.
Qed.

(** ** 0 <= start <= end <= duration *)
Lemma idx_time_le dt i j : 0 <= dt -> (i <= j)%nat -> idx_time dt i <= idx_time dt j.
Proof. intros Hdt Hij. unfold idx_time. numR. apply Rmult_le_compat_r; auto. apply IZR_le. lia. Qed.
Lemma C10_sig_ordered dt lo hi (cum : list R) s e : 0 <= dt -> sig_dur_se dt lo hi cum = Some (s, e) ->
  0 <= s /\ s <= e /\ e <= idx_time dt (length cum - 1).
Proof.
  intros Hdt. unfold sig_dur_se. pose proof (C10_sig_def lo hi cum) as H.
  destruct (sig_dur_idx lo hi cum) as [[i j]|]; [|discriminate]. intros E; inversion E; subst; clear E.
  destruct H as (H1 & _). repeat split.
  - replace 0 with (idx_time dt 0) by (unfold idx_time; numR; cbn; lra). apply idx_time_le; auto; lia.
  - apply idx_time_le; auto; lia.
  - apply idx_time_le; auto; lia.
Qed.

(** ** invariance under amplitude scaling *)
Lemma last0_scale c (l : list R) : last0 (map (Rmult c) l) = c * last0 l.
Proof. unfold last0. destruct l as [|x r]; [cbn; numR; lra|]. apply (last_map_ne (Rmult c) (x :: r) 0). discriminate. Qed.
Lemma between_scale c lo hi tot x : 0 < c -> between lo hi (c * tot) (c * x) = between lo hi tot x.
Proof.
  intros Hc. destruct (between lo hi tot x) eqn:E.
  - apply between_R in E. apply between_R. nra.
  - apply between_R_false in E. apply between_R_false. intros H. apply E. nra.
Qed.
Lemma sig_dur_idx_scale c lo hi (cum : list R) : 0 < c -> sig_dur_idx lo hi (map (Rmult c) cum) = sig_dur_idx lo hi cum.
Proof.
  intros Hc. unfold sig_dur_idx.
  replace (where_idx (between lo hi (last0 (map (Rmult c) cum))) (map (Rmult c) cum))
    with (where_idx (between lo hi (last0 cum)) cum); [reflexivity|].
  unfold where_idx. symmetry. apply where_from_ext2. rewrite last0_scale.
  generalize (last0 cum). intros tot.
  induction cum as [|x r IH]; cbn [map]; constructor; auto. now apply between_scale.
Qed.
Lemma C10_sig_scale_invariant_vals al lo hi (a : list R) : al <> 0 ->
  sig_dur_vals_idx lo hi (map (Rmult al) a) = sig_dur_vals_idx lo hi a.
Proof.
  intros Hal. unfold sig_dur_vals_idx. rewrite vsq_scale, cumsum_scale. apply sig_dur_idx_scale. nra.
Qed.
Lemma C10_sig_scale_invariant_arias c dt al lo hi (a : list R) : al <> 0 ->
  sig_dur_idx lo hi (arias c dt (map (Rmult al) a)) = sig_dur_idx lo hi (arias c dt a).
Proof. intros Hal. destruct (C09_scaling c dt al a) as (-> & _). apply sig_dur_idx_scale. nra. Qed.

(** ** prepending k zeros shifts both indices by k *)
Definition shift_pair (k : nat) (r : option (nat * nat)) : option (nat * nat) :=
  match r with None => None | Some (i, j) => Some ((i + k)%nat, (j + k)%nat) end.
Lemma last_map_plus k (l : list nat) i : last (map (fun x => (x + k)%nat) l) (i + k)%nat = (last l i + k)%nat.
Proof. induction l as [|x r IH]; [reflexivity|]. destruct r; [reflexivity|]. cbn [map] in *. rewrite !last_cons_ne by discriminate. exact IH. Qed.
Lemma sig_dur_idx_prefix lo hi k (cum : list R) : cum <> [] -> 0 <= lo * last0 cum ->
  sig_dur_idx lo hi (repeat 0 k ++ cum) = shift_pair k (sig_dur_idx lo hi cum).
Proof.
  intros Hne Hlo. unfold sig_dur_idx.
  assert (Hlast : last0 (repeat 0 k ++ cum) = last0 cum).
  { unfold last0. clear -Hne. induction k; cbn [repeat app]; auto. rewrite last_cons_ne; auto.
    destruct (repeat 0 k); cbn; [auto|discriminate]. }
  rewrite Hlast. rewrite where_idx_prefix_false.
  - destruct (where_idx (between lo hi (last0 cum)) cum) as [|i r]; [reflexivity|].
    cbn [map shift_pair]. f_equal. f_equal.
    change ((i + k)%nat :: map (fun x => (x + k)%nat) r) with (map (fun x => (x + k)%nat) (i :: r)).
    apply last_map_plus.
  - apply between_R_false. lra.
Qed.
Lemma nsum_sq_nonneg (l : list R) : 0 <= last0 (cumsum (vsq l)).
Proof.
  destruct l as [|x r]; [cbn; lra|]. unfold last0. rewrite last_cumsum by discriminate.
  apply nsum_nonneg, all_nonneg_vsq.
Qed.
Lemma C10_sig_shift_vals lo hi k (a : list R) : a <> [] -> 0 <= lo ->
  sig_dur_vals_idx lo hi (repeat 0 k ++ a) = shift_pair k (sig_dur_vals_idx lo hi a).
Proof.
  intros Ha Hlo. unfold sig_dur_vals_idx.
  assert (E : cumsum (vsq (repeat 0 k ++ a)) = repeat 0 k ++ cumsum (vsq a)).
  { unfold vsq. rewrite map_app, map_repeat0 by (numR; ring). unfold cumsum. rewrite cumsum_from_app.
    rewrite cumsum_from_zeros. f_equal. f_equal. clear. induction k; cbn [repeat]; auto. }
  rewrite E. apply sig_dur_idx_prefix.
  - destruct a; [congruence|discriminate].
  - pose proof (nsum_sq_nonneg a). nra.
Qed.
(** Arias variant, for a record that starts at zero *)
Lemma cumtrapz_from_zero_prefix dx k (l : list R) :
  cumtrapz_from dx 0 0 (repeat 0 k ++ l) = repeat 0 k ++ cumtrapz_from dx 0 0 l.
Proof. induction k; cbn [repeat app cumtrapz_from]; auto. numR. replace (0 + dx * (0 + 0) / 2) with 0 by lra. now f_equal. Qed.
Lemma cumtrapz_zero_prefix dx k (l : list R) : nth 0 l 0 = 0 -> l <> [] ->
  cumtrapz dx (repeat 0 k ++ l) = repeat 0 k ++ cumtrapz dx l.
Proof.
  intros H0 Hne. destruct l as [|x r]; [congruence|]. cbn in H0. subst x.
  destruct k as [|k]; [reflexivity|]. cbn [repeat app cumtrapz]. numR. f_equal.
  rewrite cumtrapz_from_zero_prefix. f_equal. cbn [cumtrapz_from]. numR. f_equal. lra.
  f_equal. lra.
Qed.
Lemma C10_sig_shift_arias c dt lo hi k (a : list R) : a <> [] -> nth 0 a 0 = 0 -> 0 <= lo -> 0 <= c -> 0 <= dt ->
  sig_dur_idx lo hi (arias c dt (repeat 0 k ++ a)) = shift_pair k (sig_dur_idx lo hi (arias c dt a)).
Proof.
  intros Ha H0 Hlo Hc Hdt. unfold arias.
  assert (E : vsq (repeat 0 k ++ a) = repeat 0 k ++ vsq a) by (unfold vsq; rewrite map_app, map_repeat0; auto; numR; ring).
  rewrite E, cumtrapz_zero_prefix.
  - rewrite map_app, map_repeat0 by (numR; ring). apply sig_dur_idx_prefix.
    + destruct a; [congruence|discriminate].
    + apply Rmult_le_pos; auto. unfold last0.
      assert (Hne : cumtrapz dt (vsq a) <> []) by (destruct a; [congruence|discriminate]).
      rewrite (last_map_ne (fun x => nmul c x) _ 0) by auto. rewrite last_cumtrapz by (destruct a; [congruence|discriminate]).
      numR. apply Rmult_le_pos; auto. apply trapz_nonneg; auto using all_nonneg_vsq.
  - destruct a as [|x r]; [congruence|]. cbn in *. subst. numR. ring.
  - destruct a; [congruence|discriminate].
Qed.

(** ** widening the fraction interval never shortens the duration *)
Lemma C10_sig_widen lo hi lo' hi' (cum : list R) i j : 0 <= last0 cum -> lo' <= lo -> hi <= hi' ->
  sig_dur_idx lo hi cum = Some (i, j) ->
  exists i' j', sig_dur_idx lo' hi' cum = Some (i', j') /\ (i' <= i)%nat /\ (j <= j')%nat.
Proof.
  intros Htot Hlo Hhi E. pose proof (C10_sig_def lo hi cum) as S. rewrite E in S. cbn in S.
  destruct S as (H1 & H2 & H3 & H4 & H5).
  assert (Himp : forall x, between lo hi (last0 cum) x = true -> between lo' hi' (last0 cum) x = true).
  { intros x Hx. apply between_R in Hx. apply between_R. nra. }
  pose proof (C10_sig_def lo' hi' cum) as S'. destruct (sig_dur_idx lo' hi' cum) as [[i' j']|]; cbn in S'.
  - exists i', j'. split; auto. destruct S' as (G1 & G2 & G3 & G4 & G5). split.
    + destruct (Nat.le_gt_cases i' i); auto. specialize (G4 i H). rewrite Himp in G4; auto. discriminate.
    + destruct (Nat.le_gt_cases j j'); auto. assert (between lo' hi' (last0 cum) (nth j cum 0) = false) by (apply G5; lia).
      rewrite Himp in H0; auto. discriminate.
  - specialize (S' i ltac:(lia)). rewrite Himp in S' by auto. discriminate.
Qed.

(** ** bracketed duration *)
Definition exceeds (thr x : R) : bool := nltb thr (nabs x).
Lemma exceeds_R thr x : exceeds thr x = true <-> thr < Rabs x.
Proof. unfold exceeds. numR. apply Rltb_true. Qed.
Definition brac_spec (thr : R) (a : list R) (r : option (nat * nat)) : Prop :=
  match r with
  | None => forall k, (k < length a)%nat -> Rabs (nth k a 0) <= thr
  | Some (i, j) => first_last 0 (exceeds thr) a i j
  end.
Lemma C10_brac_def thr (a : list R) : brac_spec thr a (brac_idx thr a).
Proof.
  unfold brac_idx, brac_spec. pose proof (where_first_last 0 (exceeds thr) a) as H.
  change (fun x : R => nltb thr (nabs x)) with (exceeds thr).
  destruct (where_idx (exceeds thr) a) as [|i r]; [|exact H].
  intros k Hk. specialize (H k Hk). destruct (Rle_lt_dec (Rabs (nth k a 0)) thr); auto.
  apply exceeds_R in r. congruence.
Qed.
Lemma C10_brac_empty dt thr (a : list R) : (forall k, (k < length a)%nat -> Rabs (nth k a 0) <= thr) ->
  brac_dur_se dt thr a = None /\ brac_dur dt thr a = 0.
Proof.
  intros Hall. unfold brac_dur, brac_dur_se. pose proof (C10_brac_def thr a) as S.
  destruct (brac_idx thr a) as [[i j]|]; [|split; reflexivity].
  destruct S as (H1 & H2 & _). apply exceeds_R in H2. specialize (Hall i ltac:(lia)). lra.
Qed.
Lemma C10_brac_antitone thr thr' (a : list R) i' j' : thr <= thr' -> brac_idx thr' a = Some (i', j') ->
  exists i j, brac_idx thr a = Some (i, j) /\ (i <= i')%nat /\ (j' <= j)%nat.
Proof.
  intros Hthr E. pose proof (C10_brac_def thr' a) as S'. rewrite E in S'. destruct S' as (G1 & G2 & G3 & G4 & G5).
  assert (Himp : forall x, exceeds thr' x = true -> exceeds thr x = true) by (intros x Hx; apply exceeds_R in Hx; apply exceeds_R; lra).
  pose proof (C10_brac_def thr a) as S. destruct (brac_idx thr a) as [[i j]|]; cbn in S.
  - exists i, j. split; auto. destruct S as (H1 & H2 & H3 & H4 & H5). split.
    + destruct (Nat.le_gt_cases i i'); auto. specialize (H4 i' H). rewrite Himp in H4; auto. discriminate.
    + destruct (Nat.le_gt_cases j' j); auto. assert (exceeds thr (nth j' a 0) = false) by (apply H5; lia).
      rewrite Himp in H0; auto. discriminate.
  - apply exceeds_R in G2. specialize (S i' ltac:(lia)). lra.
Qed.
Lemma C10_brac_dur_antitone dt thr thr' (a : list R) : 0 <= dt -> thr <= thr' -> brac_dur dt thr' a <= brac_dur dt thr a.
Proof.
  intros Hdt Hthr. unfold brac_dur, brac_dur_se.
  destruct (brac_idx thr' a) as [[i' j']|] eqn:E'.
  - destruct (C10_brac_antitone thr thr' a i' j' Hthr E') as (i & j & -> & Hi & Hj).
    numR. pose proof (idx_time_le dt i i' Hdt Hi). pose proof (idx_time_le dt j' j Hdt Hj). lra.
  - pose proof (C10_brac_def thr a) as S. destruct (brac_idx thr a) as [[i j]|]; [|lra].
    destruct S as (H1 & _). numR. pose proof (idx_time_le dt i j Hdt ltac:(lia)). lra.
Qed.
Lemma C10_brac_joint_scale al thr (a : list R) : al <> 0 -> brac_idx (Rabs al * thr) (map (Rmult al) a) = brac_idx thr a.
Proof.
  intros Hal. unfold brac_idx.
  replace (where_idx (fun x => nltb (Rabs al * thr) (nabs x)) (map (Rmult al) a))
    with (where_idx (fun x => nltb thr (nabs x)) a); [reflexivity|].
  unfold where_idx. symmetry. apply where_from_ext2.
  induction a as [|x r IH]; cbn [map]; constructor; auto.
  numR. rewrite Rabs_mult. pose proof (Rabs_pos_lt al Hal).
  unfold Rltb. destruct (Rlt_dec thr (Rabs x)), (Rlt_dec (Rabs al * thr) (Rabs al * Rabs x)); auto; nra.
Qed.
