(** Q -> R transfer for model/M_peaks.v and model/M_cycles.v (see proofs/P_Transfer.v for the conventions).
    Every index-valued function (peaks, zero crossings, switched peaks, ...) returns EQUAL index lists at Q and at R;
    value-valued ones return [rel]-related lists.  For all inputs. *)
From Coq Require Import ZArith QArith Reals List Bool Lia.
From EQ Require Import lib.Num lib.NpList lib.Transfer model.M_peaks model.M_cycles.
Import ListNotations.

(** * M_peaks *)
Lemma xat_transfer xs xs' i : relL xs xs' -> rel (xat xs i) (xat xs' i).
Proof. xfer_def xat. Qed.
Ltac hook_p1 h :=
  lazymatch h with
  | @xat => apply xat_transfer
  | _ => fail
  end.
Ltac xfer_hook ::= xfer_dispatch hook_p1.
Lemma next_diff_from_transfer v v' j l l' : rel v v' -> relL l l' -> next_diff_from v j l = next_diff_from v' j l'.
Proof. intros Hv HF. revert j. induction HF; intros; cbn [next_diff_from]; xfer. Qed.
Ltac hook_p2 h :=
  lazymatch h with
  | @next_diff_from => apply next_diff_from_transfer
  | _ => hook_p1 h
  end.
Ltac xfer_hook ::= xfer_dispatch hook_p2.
Lemma next_diff_transfer xs xs' i : relL xs xs' -> next_diff xs i = next_diff xs' i.
Proof. xfer_def next_diff. Qed.
Ltac hook_p3 h :=
  lazymatch h with
  | @next_diff => apply next_diff_transfer
  | _ => hook_p2 h
  end.
Ltac xfer_hook ::= xfer_dispatch hook_p3.
Lemma pstart_transfer xs xs' i : relL xs xs' -> pstart xs i = pstart xs' i.
Proof. xfer_def pstart. Qed.
Ltac hook_p4 h :=
  lazymatch h with
  | @pstart => apply pstart_transfer
  | _ => hook_p3 h
  end.
Ltac xfer_hook ::= xfer_dispatch hook_p4.
Lemma final_start_transfer xs xs' : relL xs xs' -> final_start xs = final_start xs'.
Proof. xfer_def final_start. Qed.
Ltac hook_p5 h :=
  lazymatch h with
  | @final_start => apply final_start_transfer
  | _ => hook_p4 h
  end.
Ltac xfer_hook ::= xfer_dispatch hook_p5.
Lemma turning_transfer xs xs' i : relL xs xs' -> turning xs i = turning xs' i.
Proof. xfer_def turning. Qed.
Ltac hook_p6 h :=
  lazymatch h with
  | @turning => apply turning_transfer
  | _ => hook_p5 h
  end.
Ltac xfer_hook ::= xfer_dispatch hook_p6.
Lemma is_peak_transfer xs xs' fs i : relL xs xs' -> is_peak xs fs i = is_peak xs' fs i.
Proof. xfer_def is_peak. Qed.
Ltac hook_p7 h :=
  lazymatch h with
  | @is_peak => apply is_peak_transfer
  | _ => hook_p6 h
  end.
Ltac xfer_hook ::= xfer_dispatch hook_p7.
Lemma peaks_transfer xs xs' : relL xs xs' -> peaks xs = peaks xs'.
Proof. xfer_def peaks. Qed.
Ltac hook_p8 h :=
  lazymatch h with
  | @peaks => apply peaks_transfer
  | _ => hook_p7 h
  end.
Ltac xfer_hook ::= xfer_dispatch hook_p8.
Lemma first_up_transfer xs xs' : relL xs xs' -> first_up xs = first_up xs'.
Proof. xfer_def first_up. Qed.
Ltac hook_p9 h :=
  lazymatch h with
  | @first_up => apply first_up_transfer
  | _ => hook_p8 h
  end.
Ltac xfer_hook ::= xfer_dispatch hook_p9.
Lemma peaks_sel_transfer ptype xs xs' : relL xs xs' -> peaks_sel ptype xs = peaks_sel ptype xs'.
Proof. xfer_def peaks_sel. Qed.
Ltac hook_p10 h :=
  lazymatch h with
  | @peaks_sel => apply peaks_sel_transfer
  | _ => hook_p9 h
  end.
Ltac xfer_hook ::= xfer_dispatch hook_p10.
Lemma interp_pts_transfer xp fp fp' i : relL fp fp' -> rel (interp_pts xp fp i) (interp_pts xp fp' i).
Proof. revert fp fp'. induction xp as [|x0 xr IH]; intros fp fp' HF; destruct HF; cbn [interp_pts]; xfer. Qed.
Ltac hook_p11 h :=
  lazymatch h with
  | @interp_pts => apply interp_pts_transfer
  | _ => hook_p10 h
  end.
Ltac xfer_hook ::= xfer_dispatch hook_p11.
Lemma half_transfer : rel half half.
Proof. xfer_def half. Qed.
Lemma quarter_transfer : rel quarter quarter.
Proof. xfer_def quarter. Qed.
Ltac hook_p12 h :=
  lazymatch h with
  | @half => apply half_transfer
  | @quarter => apply quarter_transfer
  | _ => hook_p11 h
  end.
Ltac xfer_hook ::= xfer_dispatch hook_p12.
Lemma n_cyc_of_transfer indys origin n : relL (n_cyc_of indys origin n) (n_cyc_of indys origin n).
Proof. xfer_def n_cyc_of. Qed.
Ltac hook_p13 h :=
  lazymatch h with
  | @n_cyc_of => apply n_cyc_of_transfer
  | _ => hook_p12 h
  end.
Ltac xfer_hook ::= xfer_dispatch hook_p13.
Lemma zc_test_transfer keep xs xs' i : relL xs xs' -> zc_test keep xs i = zc_test keep xs' i.
Proof. xfer_def zc_test. Qed.
Ltac hook_p14 h :=
  lazymatch h with
  | @zc_test => apply zc_test_transfer
  | _ => hook_p13 h
  end.
Ltac xfer_hook ::= xfer_dispatch hook_p14.
Lemma zc0_transfer keep xs xs' : relL xs xs' -> zc0 keep xs = zc0 keep xs'.
Proof. xfer_def zc0. Qed.
Ltac hook_p15 h :=
  lazymatch h with
  | @zc0 => apply zc0_transfer
  | _ => hook_p14 h
  end.
Ltac xfer_hook ::= xfer_dispatch hook_p15.
Lemma maxabs_range_transfer xs xs' a b : relL xs xs' -> rel (maxabs_range xs a b) (maxabs_range xs' a b).
Proof. xfer_def maxabs_range. Qed.
Ltac hook_p16 h :=
  lazymatch h with
  | @maxabs_range => apply maxabs_range_transfer
  | _ => hook_p15 h
  end.
Ltac xfer_hook ::= xfer_dispatch hook_p16.
Lemma zc_prune_transfer fuel tol tol' xs xs' l : rel tol tol' -> relL xs xs' ->
  zc_prune fuel tol xs l = zc_prune fuel tol' xs' l.
Proof. intros Ht HF. revert l. induction fuel as [|f IH]; intros; cbn [zc_prune]; xfer. Qed.
Ltac hook_p17 h :=
  lazymatch h with
  | @zc_prune => apply zc_prune_transfer
  | _ => hook_p16 h
  end.
Ltac xfer_hook ::= xfer_dispatch hook_p17.
Lemma zero_crossings_transfer keep tol tol' xs xs' : rel tol tol' -> relL xs xs' ->
  zero_crossings keep tol xs = zero_crossings keep tol' xs'.
Proof. xfer_def zero_crossings. Qed.
Ltac hook_p18 h :=
  lazymatch h with
  | @zero_crossings => apply zero_crossings_transfer
  | _ => hook_p17 h
  end.
Ltac xfer_hook ::= xfer_dispatch hook_p18.
Lemma nsign_transfer x x' : rel x x' -> rel (nsign x) (nsign x').
Proof. xfer_def nsign. Qed.
Ltac hook_p19 h :=
  lazymatch h with
  | @nsign => apply nsign_transfer
  | _ => hook_p18 h
  end.
Ltac xfer_hook ::= xfer_dispatch hook_p19.
Lemma sp_loop_transfer tol tol' xs xs' lst lst' bestv bestv' besti ps out :
  rel tol tol' -> relL xs xs' -> rel lst lst' -> rel bestv bestv' ->
  sp_loop tol xs lst bestv besti ps out = sp_loop tol' xs' lst' bestv' besti ps out.
Proof.
  intros Ht HF. revert lst lst' bestv bestv' besti out. induction ps as [|p r IH]; intros; cbn [sp_loop]; xfer.
Qed.
Ltac hook_p20 h :=
  lazymatch h with
  | @sp_loop => apply sp_loop_transfer
  | _ => hook_p19 h
  end.
Ltac xfer_hook ::= xfer_dispatch hook_p20.
Lemma switched_peaks_of_transfer tol tol' xs xs' ps : rel tol tol' -> relL xs xs' ->
  switched_peaks_of tol xs ps = switched_peaks_of tol' xs' ps.
Proof. xfer_def switched_peaks_of. Qed.
Ltac hook_p21 h :=
  lazymatch h with
  | @switched_peaks_of => apply switched_peaks_of_transfer
  | _ => hook_p20 h
  end.
Ltac xfer_hook ::= xfer_dispatch hook_p21.
Lemma switched_peaks_transfer tol tol' xs xs' : rel tol tol' -> relL xs xs' ->
  switched_peaks tol xs = switched_peaks tol' xs'.
Proof. intros. unfold switched_peaks. rewrite (peaks_transfer xs xs') by assumption. xfer. Qed.
Ltac hook_p22 h :=
  lazymatch h with
  | @switched_peaks => apply switched_peaks_transfer
  | _ => hook_p21 h
  end.
Ltac xfer_hook ::= xfer_dispatch hook_p22.
Lemma place_transfer n idx vals vals' : relL vals vals' -> relL (place n idx vals) (place n idx vals').
Proof. xfer_def place. Qed.
Ltac hook_p23 h :=
  lazymatch h with
  | @place => apply place_transfer
  | _ => hook_p22 h
  end.
Ltac xfer_hook ::= xfer_dispatch hook_p23.
Lemma sgn_first_transfer xs xs' : relL xs xs' -> rel (sgn_first xs) (sgn_first xs').
Proof. xfer_def sgn_first. Qed.
Ltac hook_p24 h :=
  lazymatch h with
  | @sgn_first => apply sgn_first_transfer
  | _ => hook_p23 h
  end.
Ltac xfer_hook ::= xfer_dispatch hook_p24.
Lemma peaks_delta_transfer xs xs' : relL xs xs' -> relL (peaks_delta xs) (peaks_delta xs').
Proof. intros. unfold peaks_delta. rewrite (peaks_transfer xs xs') by assumption. xfer. Qed.
Ltac hook_p25 h :=
  lazymatch h with
  | @peaks_delta => apply peaks_delta_transfer
  | _ => hook_p24 h
  end.
Ltac xfer_hook ::= xfer_dispatch hook_p25.
Lemma alt_signs_transfer neg l l' : relL l l' -> relL (alt_signs neg l) (alt_signs neg l').
Proof. intros HF. revert neg. induction HF; intros; cbn [alt_signs]; xfer. Qed.
Ltac hook_p26 h :=
  lazymatch h with
  | @alt_signs => apply alt_signs_transfer
  | _ => hook_p25 h
  end.
Ltac xfer_hook ::= xfer_dispatch hook_p26.
Lemma pseudo_cyclic_transfer xs xs' : relL xs xs' -> relL (pseudo_cyclic xs) (pseudo_cyclic xs').
Proof. intros. unfold pseudo_cyclic. rewrite (peaks_transfer xs xs') by assumption. xfer. Qed.
Ltac hook_p27 h :=
  lazymatch h with
  | @pseudo_cyclic => apply pseudo_cyclic_transfer
  | _ => hook_p26 h
  end.
Ltac xfer_hook ::= xfer_dispatch hook_p27.
Lemma total_variation_transfer xs xs' : relL xs xs' -> rel (total_variation xs) (total_variation xs').
Proof. xfer_def total_variation. Qed.
Ltac hook_p28 h :=
  lazymatch h with
  | @total_variation => apply total_variation_transfer
  | _ => hook_p27 h
  end.
Ltac xfer_hook ::= xfer_dispatch hook_p28.
Lemma npow_transfer x x' e : rel x x' -> rel (npow x e) (npow x' e).
Proof. intros. induction e; cbn [npow]; xfer. Qed.
Ltac hook_p29 h :=
  lazymatch h with
  | @npow => apply npow_transfer
  | _ => hook_p28 h
  end.
Ltac xfer_hook ::= xfer_dispatch hook_p29.
Lemma prev_pts_transfer xp fp fp' cur cur' i : relL fp fp' -> rel cur cur' ->
  rel (prev_pts xp fp cur i) (prev_pts xp fp' cur' i).
Proof.
  intros HF. revert xp cur cur'. induction HF; intros [|x0 xr] cur cur' Hc; cbn [prev_pts]; xfer.
Qed.
Ltac hook_p30 h :=
  lazymatch h with
  | @prev_pts => apply prev_pts_transfer
  | _ => hook_p29 h
  end.
Ltac xfer_hook ::= xfer_dispatch hook_p30.
Lemma n_cyc_power_transfer e a_ref a_ref' cut cut' tiny tiny' xs xs' :
  rel a_ref a_ref' -> rel cut cut' -> rel tiny tiny' -> relL xs xs' ->
  relL (n_cyc_power e a_ref cut tiny xs) (n_cyc_power e a_ref' cut' tiny' xs').
Proof.
  intros. unfold n_cyc_power. rewrite (switched_peaks_transfer n0 n0 xs xs') by (assumption || apply rel_0). xfer.
Qed.
Ltac hook_p31 h :=
  lazymatch h with
  | @n_cyc_power => apply n_cyc_power_transfer
  | _ => hook_p30 h
  end.
Ltac xfer_hook ::= xfer_dispatch hook_p31.
Lemma cyc_amp_pow_transfer e ncyc ncyc' xs xs' : rel ncyc ncyc' -> relL xs xs' ->
  relL (cyc_amp_pow e ncyc xs) (cyc_amp_pow e ncyc' xs').
Proof.
  intros. unfold cyc_amp_pow. rewrite (switched_peaks_transfer n0 n0 xs xs') by (assumption || apply rel_0). xfer.
Qed.
Ltac hook_p32 h :=
  lazymatch h with
  | @cyc_amp_pow => apply cyc_amp_pow_transfer
  | _ => hook_p31 h
  end.
Ltac xfer_hook ::= xfer_dispatch hook_p32.
Lemma cyc_amp_combined_pow_transfer e ncyc ncyc' xs xs' ys ys' : rel ncyc ncyc' -> relL xs xs' -> relL ys ys' ->
  relL (cyc_amp_combined_pow e ncyc xs ys) (cyc_amp_combined_pow e ncyc' xs' ys').
Proof.
  intros. unfold cyc_amp_combined_pow.
  rewrite (switched_peaks_transfer n0 n0 xs xs'), (switched_peaks_transfer n0 n0 ys ys') by (assumption || apply rel_0).
  xfer.
Qed.
Ltac hook_p33 h :=
  lazymatch h with
  | @cyc_amp_combined_pow => apply cyc_amp_combined_pow_transfer
  | _ => hook_p32 h
  end.
Ltac xfer_hook ::= xfer_dispatch hook_p33.

(** * M_cycles  (the real powers enter as function parameters: any pair of [rel]-respecting functions) *)
Definition relF (f : Q -> Q) (g : R -> R) : Prop := forall a x, rel a x -> rel (f a) (g x).
Lemma scatter_transfer i n idx vals vals' : relL vals vals' -> relL (scatter i n idx vals) (scatter i n idx vals').
Proof.
  intros HF. revert i idx vals vals' HF. induction n as [|n IH]; intros i idx vals vals' HF; cbn [scatter]; [xfer|].
  destruct idx as [|p ir]; destruct HF; xfer.
Qed.
Ltac hook_p34 h :=
  lazymatch h with
  | @scatter => apply scatter_transfer
  | _ => hook_p33 h
  end.
Ltac xfer_hook ::= xfer_dispatch hook_p34.
Lemma delta_series_transfer xs xs' : relL xs xs' -> relL (delta_series xs) (delta_series xs').
Proof. intros. unfold delta_series. rewrite (peaks_transfer xs xs') by assumption. xfer. Qed.
Ltac hook_p35 h :=
  lazymatch h with
  | @delta_series => apply delta_series_transfer
  | _ => hook_p34 h
  end.
Ltac xfer_hook ::= xfer_dispatch hook_p35.
Lemma pseudo_series_transfer xs xs' : relL xs xs' -> relL (pseudo_series xs) (pseudo_series xs').
Proof. intros. unfold pseudo_series. rewrite (peaks_transfer xs xs') by assumption. xfer. Qed.
Ltac hook_p36 h :=
  lazymatch h with
  | @pseudo_series => apply pseudo_series_transfer
  | _ => hook_p35 h
  end.
Ltac xfer_hook ::= xfer_dispatch hook_p36.
Lemma tv_transfer xs xs' : relL xs xs' -> rel (tv xs) (tv xs').
Proof. xfer_def tv. Qed.
Ltac hook_p37 h :=
  lazymatch h with
  | @tv => apply tv_transfer
  | _ => hook_p36 h
  end.
Ltac xfer_hook ::= xfer_dispatch hook_p37.
Lemma sgn_final_transfer xs xs' : relL xs xs' -> rel (sgn_final xs) (sgn_final xs').
Proof. xfer_def sgn_final. Qed.
Ltac hook_p38 h :=
  lazymatch h with
  | @sgn_final => apply sgn_final_transfer
  | _ => hook_p37 h
  end.
Ltac xfer_hook ::= xfer_dispatch hook_p38.
Lemma shift_transfer c c' xs xs' : rel c c' -> relL xs xs' -> relL (shift c xs) (shift c' xs').
Proof. xfer_def shift. Qed.
Ltac hook_p39 h :=
  lazymatch h with
  | @shift => apply shift_transfer
  | _ => hook_p38 h
  end.
Ltac xfer_hook ::= xfer_dispatch hook_p39.
Lemma sw_series_transfer xs xs' : relL xs xs' -> relL (sw_series xs) (sw_series xs').
Proof.
  intros. unfold sw_series. rewrite (switched_peaks_transfer n0 n0 xs xs') by (assumption || apply rel_0). xfer.
Qed.
Ltac hook_p40 h :=
  lazymatch h with
  | @sw_series => apply sw_series_transfer
  | _ => hook_p39 h
  end.
Ltac xfer_hook ::= xfer_dispatch hook_p40.
Lemma amp_core_transfer pw pw' ncyc ncyc' xs xs' : relF pw pw' -> rel ncyc ncyc' -> relL xs xs' ->
  relL (amp_core pw ncyc xs) (amp_core pw' ncyc' xs').
Proof. unfold relF. xfer_def amp_core. Qed.
Ltac hook_p41 h :=
  lazymatch h with
  | @amp_core => apply amp_core_transfer
  | _ => hook_p40 h
  end.
Ltac xfer_hook ::= xfer_dispatch hook_p41.
Lemma cyc_amp_transfer pw pw' pwb pwb' ncyc ncyc' xs xs' : relF pw pw' -> relF pwb pwb' -> rel ncyc ncyc' -> relL xs xs' ->
  relL (cyc_amp pw pwb ncyc xs) (cyc_amp pw' pwb' ncyc' xs').
Proof. intros Hp Hb; intros. unfold cyc_amp. apply (F2_map rel rel); [exact Hb|]. xfer. Qed.
Ltac hook_p42 h :=
  lazymatch h with
  | @cyc_amp => apply cyc_amp_transfer
  | _ => hook_p41 h
  end.
Ltac xfer_hook ::= xfer_dispatch hook_p42.
Lemma comb_core_transfer pw pw' ncyc ncyc' xs xs' ys ys' : relF pw pw' -> rel ncyc ncyc' -> relL xs xs' -> relL ys ys' ->
  relL (comb_core pw ncyc xs ys) (comb_core pw' ncyc' xs' ys').
Proof. unfold relF. xfer_def comb_core. Qed.
Ltac hook_p43 h :=
  lazymatch h with
  | @comb_core => apply comb_core_transfer
  | _ => hook_p42 h
  end.
Ltac xfer_hook ::= xfer_dispatch hook_p43.
Lemma cyc_amp_combined_transfer pw pw' pwb pwb' ncyc ncyc' xs xs' ys ys' :
  relF pw pw' -> relF pwb pwb' -> rel ncyc ncyc' -> relL xs xs' -> relL ys ys' ->
  relL (cyc_amp_combined pw pwb ncyc xs ys) (cyc_amp_combined pw' pwb' ncyc' xs' ys').
Proof. intros Hp Hb; intros. unfold cyc_amp_combined. apply (F2_map rel rel); [exact Hb|]. xfer. Qed.
Ltac hook_p44 h :=
  lazymatch h with
  | @cyc_amp_combined => apply cyc_amp_combined_transfer
  | _ => hook_p43 h
  end.
Ltac xfer_hook ::= xfer_dispatch hook_p44.
Lemma cyc_amp_gm_transfer sq sq' pw pw' pwb pwb' ncyc ncyc' xs xs' ys ys' :
  relF sq sq' -> relF pw pw' -> relF pwb pwb' -> rel ncyc ncyc' -> relL xs xs' -> relL ys ys' ->
  relL (cyc_amp_gm sq pw pwb ncyc xs ys) (cyc_amp_gm sq' pw' pwb' ncyc' xs' ys').
Proof.
  intros Hs Hp Hb; intros. unfold cyc_amp_gm. apply (F2_map2 rel rel rel); [|xfer|xfer].
  intros; apply Hs; xfer.
Qed.
Ltac hook_p45 h :=
  lazymatch h with
  | @cyc_amp_gm => apply cyc_amp_gm_transfer
  | _ => hook_p44 h
  end.
Ltac xfer_hook ::= xfer_dispatch hook_p45.
Lemma peak_amps_transfer cut cut' tiny tiny' xs xs' : rel cut cut' -> rel tiny tiny' -> relL xs xs' ->
  relL (peak_amps cut tiny xs) (peak_amps cut' tiny' xs').
Proof.
  intros. unfold peak_amps. rewrite (switched_peaks_transfer n0 n0 xs xs') by (assumption || apply rel_0). xfer.
Qed.
Ltac hook_p46 h :=
  lazymatch h with
  | @peak_amps => apply peak_amps_transfer
  | _ => hook_p45 h
  end.
Ltac xfer_hook ::= xfer_dispatch hook_p46.
Lemma n_cyc_core_transfer kn kn' cut cut' tiny tiny' xs xs' : relF kn kn' -> rel cut cut' -> rel tiny tiny' -> relL xs xs' ->
  relL (n_cyc_core kn cut tiny xs) (n_cyc_core kn' cut' tiny' xs').
Proof.
  unfold relF. intros. unfold n_cyc_core.
  rewrite (switched_peaks_transfer n0 n0 xs xs') by (assumption || apply rel_0). xfer.
Qed.
Ltac hook_p47 h :=
  lazymatch h with
  | @n_cyc_core => apply n_cyc_core_transfer
  | _ => hook_p46 h
  end.
Ltac xfer_hook ::= xfer_dispatch hook_p47.
Lemma n_cyc_pl_transfer pw pw' a_ref a_ref' cut cut' tiny tiny' xs xs' :
  relF pw pw' -> rel a_ref a_ref' -> rel cut cut' -> rel tiny tiny' -> relL xs xs' ->
  relL (n_cyc_pl pw a_ref cut tiny xs) (n_cyc_pl pw' a_ref' cut' tiny' xs').
Proof. intros Hp; intros. unfold n_cyc_pl. apply n_cyc_core_transfer; auto. intros a x Hax. apply Hp. xfer. Qed.
Ltac hook_p48 h :=
  lazymatch h with
  | @n_cyc_pl => apply n_cyc_pl_transfer
  | _ => hook_p47 h
  end.
Ltac xfer_hook ::= xfer_dispatch hook_p48.
Ltac hook_p_final h := hook_p48 h.
