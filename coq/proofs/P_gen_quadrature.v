(** The generated definitions of gen/Gen_quadrature.v (re-translated from eqsig/displacements.py and eqsig/im.py on every
    run by translator/py2coq_numpy.py) are the hand-written models of model/M_displacements.v and model/M_im.v, for ALL
    inputs and for every [NumOps] instance (so for the Q run of the correspondence and for the R theorems alike).
    No arithmetic law is used anywhere: the equalities are definitional unfolding plus [map_map] / [map2]-of-[map] list
    identities, i.e. source and model perform the same operations in the same order. *)
From Coq Require Import ZArith QArith Reals List Bool.
From EQ Require Import lib.Num lib.NpList model.M_displacements model.M_im gen.Gen_quadrature.
Import ListNotations.
Local Open Scope num_scope.

Section Generic.
Context {T : Type} `{NumOps T}.

(** ** list identities *)
Lemma map2_map_same {A B C D} (f : B -> C -> D) (g : A -> B) (h : A -> C) (l : list A) :
  map2 f (map g l) (map h l) = map (fun x => f (g x) (h x)) l.
Proof. induction l as [|x l IH]; cbn; [reflexivity | now rewrite IH]. Qed.

(** ** C08: eqsig.displacements.calc_velo_and_disp_from_accel_arr, both branches, and eqsig.im.calc_peak *)
Lemma gen_velo_disp_eq (trap : bool) (dt : T) (a : list T) : gen_velo_disp trap dt a = velo_disp trap dt a.
Proof. destruct trap; reflexivity. Qed.

Lemma gen_velo_disp_alias_eq (trap : bool) (dt : T) (a : list T) : gen_velo_disp_alias trap dt a = velo_disp trap dt a.
Proof. destruct trap; reflexivity. Qed.

Lemma gen_velo_disp_trap (dt : T) (a : list T) :
  fst (gen_velo_disp true dt a) = velo_trap dt a /\ snd (gen_velo_disp true dt a) = disp_trap dt a.
Proof. split; reflexivity. Qed.

Lemma gen_velo_disp_rect (dt : T) (a : list T) :
  fst (gen_velo_disp false dt a) = velo_rect dt a /\ snd (gen_velo_disp false dt a) = disp_rect dt a.
Proof. split; reflexivity. Qed.

Lemma gen_calc_peak_eq (m : list T) : gen_calc_peak m = calc_peak m.
Proof. reflexivity. Qed.

(** ** C09: the cumulative intensity measures of eqsig.im *)
(** the constant of the source, np.pi / (2 * 9.81), with np.pi an input *)
Definition arias_const (pi : T) : T := pi / (nofZ 2 * (nofZ 981 / nofZ 100)).

Lemma gen_arias_eq (pi dt : T) (a : list T) : gen_arias pi dt a = arias (arias_const pi) dt a.
Proof. reflexivity. Qed.

Lemma gen_cav_eq (dt : T) (a : list T) : gen_cav dt a = cav dt a.
Proof. reflexivity. Qed.

(** [calc_isv], [calc_integral_of_abs_velocity] and [calc_unit_kinetic_energy] read the object's [.velocity]; the generated
    definitions take it as an input [v], and the model is the composition with the trapezoid branch of the generated
    velocity/displacement function (AccSignal.velocity calls it with trap=True; that object-level step is tied by the
    correspondence of C08). *)
Lemma gen_isv_of_velocity (dt : T) (v : list T) : gen_isv dt v = cumtrapz dt (vsq v).
Proof. reflexivity. Qed.
Lemma gen_isv_eq (dt : T) (a : list T) : gen_isv dt (fst (gen_velo_disp true dt a)) = isv dt a.
Proof. reflexivity. Qed.

Lemma gen_int_abs_of (dt : T) (x : list T) : gen_int_abs_acc dt x = int_abs dt x.
Proof. unfold gen_int_abs_acc, int_abs, vabs. now rewrite map_map. Qed.
Lemma gen_int_abs_acc_eq (dt : T) (a : list T) : gen_int_abs_acc dt a = int_abs_acc dt a.
Proof. exact (gen_int_abs_of dt a). Qed.
Lemma gen_int_abs_vel_of_velocity (dt : T) (v : list T) : gen_int_abs_vel dt v = int_abs dt v.
Proof. exact (gen_int_abs_of dt v). Qed.
Lemma gen_int_abs_vel_eq (dt : T) (a : list T) : gen_int_abs_vel dt (fst (gen_velo_disp true dt a)) = int_abs_vel dt a.
Proof. exact (gen_int_abs_of dt (velo_trap dt a)). Qed.
Lemma gen_cum_abs_disp_eq (dt : T) (a : list T) : gen_cum_abs_disp dt (fst (gen_velo_disp true dt a)) = int_abs_vel dt a.
Proof. exact (gen_int_abs_of dt (velo_trap dt a)). Qed.

(** unit kinetic energy: [kin_energy[0]] raises IndexError on an empty record; the model returns [] there, the generated
    term (with [hd n0]) a one-element list: the equality holds exactly for the non-empty records numpy accepts. *)
Lemma gen_kin_energy (v : list T) : vmul (scale (n1 / nofZ 2) v) (vabs v) = kin_energy v.
Proof. unfold vmul, scale, vabs, kin_energy. apply map2_map_same. Qed.

Lemma gen_unit_ke_of_velocity (v : list T) : v <> [] ->
  gen_unit_ke v = cumsum (vabs (match kin_energy v with [] => [] | k0 :: _ => ediff1d k0 (kin_energy v) end)).
Proof.
  intros Hv. unfold gen_unit_ke. rewrite gen_kin_energy.
  destruct v as [|x r]; [congruence|]. reflexivity.
Qed.

Lemma velo_trap_nonempty (dt : T) (a : list T) : a <> [] -> velo_trap dt a <> [].
Proof. destruct a; [congruence | discriminate]. Qed.

Lemma gen_unit_ke_eq (dt : T) (a : list T) : a <> [] -> gen_unit_ke (fst (gen_velo_disp true dt a)) = unit_ke dt a.
Proof.
  intros Ha. change (fst (gen_velo_disp true dt a)) with (velo_trap dt a).
  rewrite (gen_unit_ke_of_velocity _ (velo_trap_nonempty dt a Ha)). reflexivity.
Qed.

(** the guard cannot be dropped: on the empty record (which numpy rejects) the two differ *)
Lemma gen_unit_ke_empty_differs (dt : T) : gen_unit_ke (fst (gen_velo_disp true dt [])) <> unit_ke dt [].
Proof. discriminate. Qed.
End Generic.

(** ** defaults of the python signature *)
Lemma gen_default_trap : gen_velo_disp_default_trap = true /\ gen_velo_disp_alias_default_trap = true.
Proof. split; reflexivity. Qed.

(** ** at R: the Arias constant is pi / (2 * 9.81) *)
Lemma arias_const_R : arias_const PI = (PI / (2 * 9.81))%R.
Proof. reflexivity. Qed.
Lemma gen_arias_R (dt : R) (a : list R) : gen_arias PI dt a = arias (PI / (2 * 9.81))%R dt a.
Proof. reflexivity. Qed.
