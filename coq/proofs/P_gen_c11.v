(** The generated definitions of gen/Gen_c11.v (re-translated from eqsig/fns/peaks_and_crossings.py on every run by
    translator/py2coq_c11.py) are the hand-written statement-by-statement transcription model/M_peaks_pipeline.v, for ALL inputs.
    Part 1: for every [NumOps] instance, no arithmetic law used, axiom-free -- definitional unfolding, the slice / insert identities
    (x[1:] = tl, x[:-1] = removelast, np.insert at 0 / at the end), k + 1 = S k, and induction on the iterated list for the two loops.
    Part 2: composition with proofs/P_peaks_pipeline.v (R) and proofs/P_peaks_pipeline_transfer.v (Q): the generated source
    functions are the declarative models [peaks_sel], [zero_crossings], [switched_peaks], [n_cyc_of] under the existing guards. *)
From Coq Require Import String ZArith QArith Reals List Bool Lia Lra.
From EQ Require Import lib.Num lib.NpList lib.NpPeaks model.M_peaks model.M_cycles model.M_peaks_pipeline gen.Gen_c11.
From EQ Require Import proofs.P_C12 proofs.P_peaks_pipeline proofs.P_peaks_pipeline_transfer.
Import ListNotations.
Local Open Scope num_scope.

(** * the generic slice / insert forms the translator emits, at the offsets the source uses *)
Lemma np_insert_at0 {A} (l : list A) v : np_insert l 0 v = np_insert0 v l.
Proof. reflexivity. Qed.
Lemma np_insert_at_len {A} (l : list A) v : np_insert l (length l) v = np_insert_end l v.
Proof. unfold np_insert, np_insert_end. rewrite firstn_all, skipn_all. reflexivity. Qed.
Lemma sl_from_1 {A} (l : list A) : sl_from 1 l = sl_from1 l.
Proof. destruct l; reflexivity. Qed.
Lemma sl_to_m_1 {A} (l : list A) : sl_to_m 1 l = sl_to_m1 l.
Proof. unfold sl_to_m, sl_to_m1. rewrite removelast_firstn_len, Nat.sub_1_r. reflexivity. Qed.

(** the string argument of get_peak_array_indices as the number the transcription uses: 'min' -> 2, 'max' -> 1, anything else
    (the code falls through to `return peak_full_indices`) -> 0 *)
Definition ptype_code (s : string) : nat := if String.eqb s "min"%string then 2%nat else if String.eqb s "max"%string then 1%nat else 0%nat.

Section Generic.
Context {T : Type} `{NumOps T}.

Lemma gen_clean_out_non_changing_eq (xs : list T) : gen_clean_out_non_changing xs = clean_out_non_changing_p xs.
Proof. reflexivity. Qed.

Lemma gen_peak_indices_cleaned_eq (xs : list T) : gen_peak_indices_cleaned xs = peak_indices_cleaned_p xs.
Proof.
  unfold gen_peak_indices_cleaned. cbv zeta. rewrite np_insert_at_len, sl_from_1, sl_to_m_1. reflexivity.
Qed.

Lemma first_move_form (l : list T) : (if negb (Nat.eqb (length l) 0) then nth 0 l n0 else n0) = match l with m :: _ => m | [] => n0 end.
Proof. destruct l; reflexivity. Qed.

Lemma gen_get_peak_array_indices_eq (xs : list T) (s : string) :
  gen_get_peak_array_indices xs s = get_peak_array_indices_p (ptype_code s) xs.
Proof.
  unfold gen_get_peak_array_indices, ptype_code. cbv zeta. rewrite gen_clean_out_non_changing_eq, gen_peak_indices_cleaned_eq, first_move_form.
  destruct (String.eqb s "min"%string); [reflexivity|]. destruct (String.eqb s "max"%string); reflexivity.
Qed.

(** ** the tolerance loop of get_zero_crossings_array_indices *)
Lemma gen_zero_crossings_loop1_step_eq (all : list nat) (xs : list T) (tol : T) (rem : list nat) (k ind : nat) :
  gen_zero_crossings_loop1_step all xs tol rem (k, ind) =
    if mem_nat k rem then rem
    else if amax (vabs (sl_range ind (nth (S k) all 0%nat) xs)) <? tol then rem ++ [k; S k] else rem.
Proof. unfold gen_zero_crossings_loop1_step. rewrite Nat.add_1_r. reflexivity. Qed.

Lemma gen_zero_crossings_loop1_eq (all : list nat) (xs : list T) (tol : T) : forall (items : list nat) (k : nat) (rem : list nat),
  fold_left (gen_zero_crossings_loop1_step all xs tol) (combine (seq k (length items)) items) rem = zc_tol_loop tol xs all k items rem.
Proof.
  induction items as [|ind rest IH]; intros k rem; [reflexivity|].
  cbn [length seq combine fold_left zc_tol_loop]. rewrite gen_zero_crossings_loop1_step_eq.
  destruct (mem_nat k rem); [apply IH|].
  destruct (amax (vabs (sl_range ind (nth (S k) all 0%nat) xs)) <? tol); apply IH.
Qed.

(** the whole function: None = `raise` (tol < 0) *)
Lemma gen_zero_crossings_eq (xs : list T) (keep : bool) (tol : T) :
  gen_zero_crossings xs keep tol = if tol <? n0 then None else Some (zero_crossings_tol_p keep tol xs).
Proof.
  unfold gen_zero_crossings. cbv zeta. destruct (tol <? n0); [reflexivity|].
  rewrite !sl_from_1, !sl_to_m_1.
  match goal with |- context [np_sort ?a] => change (np_sort a) with (zc_all keep xs) end.
  unfold zero_crossings_tol_p, zero_crossings_p. cbv zeta.
  destruct (zc_all keep xs) as [|i0 r].
  - cbn [length Nat.eqb]. destruct (n0 <? tol); reflexivity.
  - cbn [length Nat.eqb]. f_equal. destruct (n0 <? tol); [|reflexivity]. f_equal.
    unfold zc_rem_i, py_enumerate. apply gen_zero_crossings_loop1_eq.
Qed.

(** ** _argmax_abs_w_sign and the loop of get_switched_peak_array_indices *)
Lemma gen_argmax_abs_w_sign_eq (pvs : list T) (last : T) : gen_argmax_abs_w_sign pvs last = argmax_abs_w_sign_p pvs last.
Proof. reflexivity. Qed.

Lemma gen_switched_peaks_loop1_step_eq (pv : list T) (tol last : T) (npi : list nat) (pvs : list T) (pis : list nat) (i : nat) :
  gen_switched_peaks_loop1_step pv tol (last, npi, pvs, pis) i =
    if (nth i pv n0 + tol * nsign last) * last <=? n0
    then (nth i pv n0, npi ++ [nth (argmax_abs_w_sign_p pvs last) pis 0%nat], [] ++ [nth i pv n0], [] ++ [i])
    else (last, npi, pvs ++ [nth i pv n0], pis ++ [i]).
Proof. reflexivity. Qed.

Lemma gen_switched_peaks_loop1_eq (pv : list T) (tol : T) : forall (range : list nat) (last : T) (npi : list nat) (pvs : list T) (pis : list nat),
  fold_left (gen_switched_peaks_loop1_step pv tol) range (last, npi, pvs, pis) = sp_for tol pv range last npi pvs pis.
Proof.
  induction range as [|i rest IH]; intros last npi pvs pis; [reflexivity|].
  cbn [fold_left]. rewrite gen_switched_peaks_loop1_step_eq. cbn [sp_for]. cbv zeta.
  destruct ((nth i pv n0 + tol * nsign last) * last <=? n0); apply IH.
Qed.

Lemma gen_switched_peaks_eq (xs : list T) (tol : T) : gen_switched_peaks xs tol = switched_peaks_p tol xs.
Proof.
  unfold gen_switched_peaks, switched_peaks_p. cbv zeta. rewrite gen_get_peak_array_indices_eq.
  change (ptype_code "all"%string) with 0%nat. unfold py_range2. rewrite gen_switched_peaks_loop1_eq.
  destruct (sp_for tol (take n0 xs (get_peak_array_indices_p 0 xs)) (seq 1 (length (take n0 xs (get_peak_array_indices_p 0 xs)) - 1))
              (nth 0 (take n0 xs (get_peak_array_indices_p 0 xs)) n0) [] [nth 0 (take n0 xs (get_peak_array_indices_p 0 xs)) n0] [0%nat])
    as [[[last npi] pvs] pis].
  destruct pvs; reflexivity.
Qed.

(** ** get_n_cyc_array: np.interp over the (possibly 0-prefixed) index list is [n_cyc_of] *)
Definition opt_indys (opt : string) (xs : list T) : option (list nat) :=
  if String.eqb opt "all"%string then Some (get_peak_array_indices_p 0 xs)
  else if String.eqb opt "switched"%string then Some (switched_peaks_p n0 xs) else None.
Definition start_origin (start : string) : option bool :=
  if String.eqb start "origin"%string then Some true else if String.eqb start "peak"%string then Some false else None.

Lemma n_cycs_form (sv : T) (n : nat) :
  sl_from_update 1 (fun x => x + sv) (map (fun x => (n1 / nofZ 2) * nofZ (Z.of_nat x)) (seq 0 n)) =
  map (fun k => let base := half * nofZ (Z.of_nat k) in if Nat.eqb k 0 then base else base + sv) (seq 0 n).
Proof.
  destruct n as [|n]; [reflexivity|]. unfold sl_from_update. cbn [seq map firstn skipn app Nat.eqb]. f_equal.
  rewrite map_map. apply map_ext_in. intros k Hk. apply in_seq in Hk. destruct k as [|k]; [lia|reflexivity].
Qed.
Lemma indys_form (indys : list nat) : indys <> [] ->
  (if negb (Nat.eqb (nth 0 indys 0%nat) 0%nat) then np_insert indys 0 0%nat else indys) = match indys with 0%nat :: _ => indys | _ => 0%nat :: indys end.
Proof. intros Hne. destruct indys as [|[|i0] r]; [contradiction|reflexivity|reflexivity]. Qed.
Lemma gen_n_cyc_core (indys : list nat) (origin : bool) (n : nat) : indys <> [] ->
  map (interp_pts (if negb (Nat.eqb (nth 0 indys 0%nat) 0%nat) then np_insert indys 0 0%nat else indys)
         (sl_from_update 1 (fun x => x + (if origin then - (n1 / nofZ 4) else n0))
            (map (fun x => (n1 / nofZ 2) * nofZ (Z.of_nat x))
               (seq 0 (length (if negb (Nat.eqb (nth 0 indys 0%nat) 0%nat) then np_insert indys 0 0%nat else indys)))))) (seq 0 n)
  = n_cyc_of indys origin n.
Proof. intros Hne. rewrite n_cycs_form, (indys_form indys Hne). reflexivity. Qed.

Lemma peak_full_indices_nonempty (xs : list T) : get_peak_array_indices_p 0 xs <> [].
Proof.
  unfold get_peak_array_indices_p, gp_peak_full_indices, gp_peak_cleaned_indices, peak_indices_cleaned_p, pk_indices2, pk_indices1,
    np_insert_end, np_insert0, take. cbn [app map]. discriminate.
Qed.

(** None = `raise ValueError` (opt / start not one of the two accepted strings) *)
Lemma gen_n_cyc_array_eq (xs : list T) (opt start : string) :
  (forall indys, opt_indys opt xs = Some indys -> indys <> []) ->
  gen_n_cyc_array xs opt start =
    match opt_indys opt xs, start_origin start with
    | Some indys, Some origin => Some (n_cyc_of indys origin (length xs))
    | _, _ => None
    end.
Proof.
  intros Hne. unfold gen_n_cyc_array. cbv zeta. rewrite gen_get_peak_array_indices_eq, gen_switched_peaks_eq.
  change (ptype_code "all"%string) with 0%nat. fold (opt_indys opt xs).
  destruct (opt_indys opt xs) as [indys|] eqn:Ei; [|reflexivity]. specialize (Hne indys eq_refl).
  unfold start_origin.
  destruct (String.eqb start "origin"%string).
  - f_equal. exact (gen_n_cyc_core indys true (length xs) Hne).
  - destruct (String.eqb start "peak"%string); [|reflexivity]. f_equal. exact (gen_n_cyc_core indys false (length xs) Hne).
Qed.
End Generic.

(** * Part 2: the generated source functions are the declarative models (composition with the pipeline theorems) *)
Section AtR.
Local Open Scope R_scope.

Lemma gen_peaks_is_model_R (s : string) (xs : list R) : first_up xs <> None ->
  gen_get_peak_array_indices xs s = peaks_sel (ptype_code s) xs.
Proof. intros Hnc. rewrite gen_get_peak_array_indices_eq. now apply pipeline_sel. Qed.
Lemma gen_peaks_constant_R (s : string) (xs : list R) : xs <> [] -> first_up xs = None ->
  gen_get_peak_array_indices xs s = match ptype_code s with O => [0; 0]%nat | _ => [0%nat] end.
Proof. intros Hne Hc. rewrite gen_get_peak_array_indices_eq. now apply pipeline_constant. Qed.
Lemma gen_clean_spec_R (xs : list R) : xs <> [] ->
  gen_clean_out_non_changing xs = if Req_EM_T (xat xs 0) 0 then (cleaned xs, pstarts xs) else (xat xs 0 :: cleaned xs, 0%nat :: pstarts xs).
Proof. intros Hne. rewrite gen_clean_out_non_changing_eq. now apply clean_out_non_changing_spec. Qed.

Lemma gen_zc_is_model_R (keep : bool) (tol : R) (xs : list R) : xs <> [] -> 0 <= tol ->
  gen_zero_crossings xs keep tol = Some (zero_crossings keep tol xs).
Proof.
  intros Hne Htol. rewrite gen_zero_crossings_eq. numR. case_Rltb tol 0; [lra|]. f_equal. now apply pipeline_zc_tol.
Qed.
Lemma gen_zc_raises_R (keep : bool) (tol : R) (xs : list R) : tol < 0 -> gen_zero_crossings xs keep tol = None.
Proof. intros Htol. rewrite gen_zero_crossings_eq. numR. case_Rltb tol 0; [reflexivity|lra]. Qed.

Lemma gen_sp_is_model_R (tol : R) (xs : list R) : first_up xs <> None -> gen_switched_peaks xs tol = switched_peaks tol xs.
Proof. intros Hnc. rewrite gen_switched_peaks_eq. now apply pipeline_sp. Qed.
Lemma gen_sp_constant_R (tol : R) (xs : list R) : xs <> [] -> first_up xs = None ->
  (xat xs 0 = 0 -> gen_switched_peaks xs tol = [0; 0]%nat) /\ (xat xs 0 <> 0 -> 0 <= tol -> gen_switched_peaks xs tol = [0%nat]).
Proof. intros Hne Hc. rewrite gen_switched_peaks_eq. now apply pipeline_sp_constant. Qed.

Lemma first_up_nonempty (xs : list R) : first_up xs <> None -> xs <> [].
Proof. intros Hnc ->. apply Hnc. reflexivity. Qed.

(** get_n_cyc_array on a non-constant series: the checker model of K_peaks ([n_cyc_of] over [peaks] / [switched_peaks 0]) *)
Lemma gen_n_cyc_is_model_R (xs : list R) (opt start : string) : first_up xs <> None ->
  gen_n_cyc_array xs opt start =
    match (if String.eqb opt "all"%string then Some (peaks xs) else if String.eqb opt "switched"%string then Some (switched_peaks 0 xs) else None),
          start_origin start with
    | Some indys, Some origin => Some (n_cyc_of indys origin (length xs))
    | _, _ => None
    end.
Proof.
  intros Hnc. assert (Hne := first_up_nonempty xs Hnc).
  assert (Esp : switched_peaks_p (T:=R) n0 xs = switched_peaks 0 xs) by (now apply pipeline_sp).
  assert (Epk : get_peak_array_indices_p 0 xs = peaks xs) by (now apply pipeline_all).
  rewrite gen_n_cyc_array_eq.
  - unfold opt_indys. rewrite Esp, Epk. reflexivity.
  - unfold opt_indys. intros indys. destruct (String.eqb opt "all"%string).
    + intros [= E']. rewrite <- E'. apply peak_full_indices_nonempty.
    + destruct (String.eqb opt "switched"%string); [|discriminate]. intros [= E']. rewrite <- E'. change (switched_peaks_p (T:=R) n0 xs <> []). rewrite Esp.
      now apply P_C12.sp_nonempty.
Qed.

(** the default arguments written in the source *)
Lemma gen_defaults_R :
  (gen_get_peak_array_indices_default_ptype = "all"%string) /\ (gen_zero_crossings_default_keep_adj_zeros = false) /\
  (gen_zero_crossings_default_tol (T:=R) = 0) /\ (gen_switched_peaks_default_tol (T:=R) = 0) /\
  (gen_n_cyc_array_default_opt = "all"%string) /\ (gen_n_cyc_array_default_start = "origin"%string).
Proof. repeat split; reflexivity. Qed.
End AtR.

(** the same at Q: the terms the correspondence run evaluates *)
Lemma gen_peaks_is_model_Q (s : string) (qs : list Q) : first_up qs <> None ->
  gen_get_peak_array_indices qs s = peaks_sel (ptype_code s) qs.
Proof. intros Hnc. rewrite gen_get_peak_array_indices_eq. now apply pipeline_sel_Q. Qed.
Lemma gen_zc_is_model_Q (keep : bool) (tol : Q) (qs : list Q) : qs <> [] -> (tol <? n0)%num = false ->
  gen_zero_crossings qs keep tol = Some (zero_crossings keep tol qs).
Proof. intros Hne Htol. rewrite gen_zero_crossings_eq, Htol. f_equal. now apply pipeline_zc_tol_Q. Qed.
Lemma gen_sp_is_model_Q (tol : Q) (qs : list Q) : first_up qs <> None -> gen_switched_peaks qs tol = switched_peaks tol qs.
Proof. intros Hnc. rewrite gen_switched_peaks_eq. now apply pipeline_sp_Q. Qed.
