(** Proofs for C03 (spectra) and the spectra clauses of C02. *)
From Coq Require Import ZArith Reals Lra Lia List Bool.
From EQ Require Import lib.Num lib.NpList lib.Quad model.M_sdof gen.Gen_sdof_coeffs model.M_sdof_R model.M_displacements
  model.M_spectra proofs.P_C08 proofs.P_C01 proofs.P_C02.
Import ListNotations.
Local Open Scope R_scope.

(** sdof.absmax is max |.| : it coincides with im.calc_peak of C08 *)
Lemma amin_le_amax (l : list R) : l <> [] -> amin l <= amax l.
Proof. intros Hl. apply amin_le. now apply amax_in. Qed.

Lemma absmax_calc_peak (l : list R) : absmax l = calc_peak l.
Proof.
  unfold absmax, calc_peak. rewrite nmax_R. numR. destruct l as [|x r].
  - cbn [amax amin]. numR. case_Rltb 0 (- 0); rewrite Rabs_R0; symmetry; apply Rmax_left; lra.
  - pose proof (amin_le_amax (x :: r) ltac:(discriminate)) as Hle.
    set (mn := amin (x :: r)) in *. set (mx := amax (x :: r)) in *.
    case_Rltb mx (- mn).
    + rewrite Rmax_left; [reflexivity|]. rewrite Rabs_left by lra. lra.
    + rewrite Rmax_right.
      * apply Rabs_pos_eq. lra.
      * unfold Rabs. destruct (Rcase_abs mn); lra.
Qed.

Lemma absmax_upper (l : list R) y : In y l -> Rabs y <= absmax l.
Proof. rewrite absmax_calc_peak. apply calc_peak_upper. Qed.
Lemma absmax_attained (l : list R) : l <> [] -> exists y, In y l /\ Rabs y = absmax l.
Proof. rewrite absmax_calc_peak. apply calc_peak_attained. Qed.
Lemma absmax_nonneg (l : list R) : 0 <= absmax l.
Proof. unfold absmax. numR. apply Rabs_pos. Qed.
Lemma absmax_scale al (l : list R) : l <> [] -> absmax (map (Rmult al) l) = Rabs al * absmax l.
Proof. rewrite !absmax_calc_peak. apply C08_peak_scales. Qed.
Lemma absmax_opp (l : list R) : l <> [] -> absmax (map Ropp l) = absmax l.
Proof. rewrite !absmax_calc_peak. apply C08_peak_sign_invariant. Qed.
Lemma absmax_zeros {A} (l : list A) : absmax (map (fun _ => 0) l) = 0.
Proof.
  destruct l as [|a r]; [unfold absmax; cbn; numR; case_Rltb 0 (-0); apply Rabs_R0|].
  destruct (absmax_attained (map (fun _ => 0) (a :: r)) ltac:(discriminate)) as [y [Hy <-]].
  apply in_map_iff in Hy. destruct Hy as [_ [<- _]]. apply Rabs_R0.
Qed.

(** max over a superset of sample values is not smaller *)
Lemma absmax_superset (l1 l2 : list R) : (forall y, In y l1 -> In y l2) -> absmax l1 <= absmax l2.
Proof.
  intros Hsub. destruct l1 as [|x r].
  - pose proof (absmax_zeros (@nil R)) as E. cbn [map] in E. rewrite E. apply absmax_nonneg.
  - destruct (absmax_attained (x :: r) ltac:(discriminate)) as [y [Hy <-]]. apply absmax_upper, Hsub, Hy.
Qed.

(** spectra scale by |al| (from linearity) *)
Lemma series_scale (c : coeffs R) al (a : list R) :
  nj_series c (map (Rmult al) a) = map (fun s => (al * fst s, al * snd s)) (nj_series c a).
Proof.
  assert (E : map (Rmult al) a = lin al 0 a a).
  { unfold lin. induction a as [|x a IH]; [reflexivity|]. cbn [map map2]. rewrite <- IH. f_equal. ring. }
  rewrite E, (series_linear c al 0 a a eq_refl).
  induction (nj_series c a) as [|s l IH]; [reflexivity|]. cbn [map2 map]. rewrite IH. f_equal.
  unfold lin2. f_equal; ring.
Qed.
Lemma spectra_scale (c : coeffs R) al (a : list R) : a <> [] ->
  absmax (map fst (nj_series c (map (Rmult al) a))) = Rabs al * absmax (map fst (nj_series c a)) /\ absmax (map snd (nj_series c (map (Rmult al) a))) = Rabs al * absmax (map snd (nj_series c a)).
Proof.
  intros Hne. rewrite series_scale, !map_map. cbn [fst snd].
  assert (Hn : forall f : R * R -> R, map f (nj_series c a) <> []).
  { intros f Hnil. apply map_eq_nil in Hnil. apply (f_equal (@length _)) in Hnil. rewrite nj_series_length in Hnil.
    destruct a; [congruence | cbn in Hnil; lia]. }
  split.
  - rewrite <- (absmax_scale al (map fst (nj_series c a))) by apply Hn. now rewrite map_map.
  - rewrite <- (absmax_scale al (map snd (nj_series c a))) by apply Hn. now rewrite map_map.
Qed.

(** * pseudo spectra *)
Section Pseudo.
Variables pi2 dt : R.
Variables periods motion : list R.
Variable resp : list (list R * list R * list R).
Hypothesis Hlen : length resp = length periods.

Lemma us_length : length (us resp) = length periods. Proof. unfold us. now rewrite map_length. Qed.
Lemma ws_pseudo_length : length (ws_pseudo pi2 periods) = length periods.
Proof.
  unfold ws_pseudo. destruct periods as [|p0 ps]; [reflexivity|]. numR.
  case_Reqb p0 0; cbn [length map]; now rewrite map_length.
Qed.

Lemma pseudo_lengths :
  let '(sds, svs, sas) := pseudo_spectra pi2 dt periods motion resp in
  length sds = length periods /\ length svs = length periods /\ length sas = length periods.
Proof.
  unfold pseudo_spectra, pga_cut. cbn zeta. rewrite !map2_length, !map_length, ws_pseudo_length, us_length.
  repeat split; lia.
Qed.

(** the angular frequency attached to entry i: 2*pi/T_i, except the placeholder 1 for a leading zero period *)
Lemma ws_pseudo_nth i : (i < length periods)%nat ->
  nth i (ws_pseudo pi2 periods) 0 = if andb (Nat.eqb i 0) (Reqb (nth 0 periods 0) 0) then 1 else pi2 / nth i periods 0.
Proof.
  intros Hi. unfold ws_pseudo. destruct periods as [|p0 ps]; [cbn in Hi; lia|]. numR. cbn [nth].
  case_Reqb p0 0.
  - destruct i as [|j]; [reflexivity|]. cbn [nth Nat.eqb andb]. cbn [length] in Hi.
    rewrite (nth_map_in (fun P => pi2 / P) ps j 0 0) by lia. reflexivity.
  - rewrite andb_false_r. rewrite (nth_map_in (fun P => pi2 / P) (p0 :: ps) i 0 0) by exact Hi. reflexivity.
Qed.

Lemma pseudo_nth i : (i < length periods)%nat ->
  let '(sds, svs, sas) := pseudo_spectra pi2 dt periods motion resp in
  let w := nth i (ws_pseudo pi2 periods) 0 in
  let sd := absmax (fst (fst (nth i resp ([], [], [])))) in
  nth i sds 0 = sd /\ nth i svs 0 = w * sd /\
  nth i sas 0 = if Rltb (nth i periods 0) (dt * 6) then absmax motion else w * w * sd.
Proof.
  intros Hi. unfold pseudo_spectra, pga_cut. cbn zeta.
  assert (Hsd : nth i (map absmax (us resp)) 0 = absmax (fst (fst (nth i resp ([], [], []))))).
  { unfold us. rewrite map_map. rewrite (nth_map_in _ resp i 0 ([], [], [])) by lia. reflexivity. }
  split; [exact Hsd|]. split.
  - rewrite (map2_nth nmul _ _ 0 0 0) by (rewrite ?map2_length, ?ws_pseudo_length, ?map_length, ?us_length; lia). now rewrite Hsd.
  - rewrite (map2_nth _ periods _ 0 0 0).
    2,3: rewrite ?map2_length, ?ws_pseudo_length, ?map_length, ?us_length; lia.
    rewrite (map2_nth _ _ _ 0 0 0) by (rewrite ?map2_length, ?ws_pseudo_length, ?map_length, ?us_length; lia).
    rewrite Hsd. numR. reflexivity.
Qed.
End Pseudo.

(** * true spectra *)
Lemma true_nth dt (periods motion : list R) (resp : list (list R * list R * list R)) i :
  length resp = length periods -> (i < length periods)%nat ->
  let '(sds, svs, sas) := true_spectra dt periods motion resp in
  let r := nth i resp ([], [], []) in
  nth i sds 0 = absmax (fst (fst r)) /\ nth i svs 0 = absmax (snd (fst r)) /\
  nth i sas 0 = if Rltb (nth i periods 0) (dt * 6) then absmax motion else absmax (snd r).
Proof.
  intros Hlen Hi. unfold true_spectra, pga_cut, us, vs, accs. rewrite !map_map.
  split; [|split].
  - now rewrite (nth_map_in _ resp i 0 ([], [], [])) by lia.
  - now rewrite (nth_map_in _ resp i 0 ([], [], [])) by lia.
  - rewrite (map2_nth _ periods _ 0 0 0) by (rewrite ?map_length; lia).
    rewrite (nth_map_in _ resp i 0 ([], [], [])) by lia. numR. reflexivity.
Qed.

(** undamped oscillator: the total acceleration is -w^2 u, so its peak is w^2 S_d (w the code's own 6.2831853/T) *)
Lemma undamped_acc (c : coeffs R) w (rec : list R) : rec <> [] ->
  absmax (snd (row c 0 w rec)) = w ^ 2 * absmax (fst (fst (row c 0 w rec))).
Proof.
  intros Hne. unfold row. cbn [fst snd].
  assert (E : map (resp_acc 0 w) (nj_series c rec) = map (Rmult (- w ^ 2)) (map fst (nj_series c rec))).
  { rewrite map_map. apply map_ext. intros s. unfold resp_acc. numR. ring. }
  rewrite E, absmax_scale.
  - rewrite Rabs_Ropp, Rabs_pos_eq by (apply pow2_ge_0). reflexivity.
  - intros Hnil. apply map_eq_nil in Hnil. apply (f_equal (@length _)) in Hnil. rewrite nj_series_length in Hnil.
    destruct rec; [congruence | cbn in Hnil; lia].
Qed.

(** * object level: the refinement factor rule of gen_response_spectrum *)
Lemma nceil_spec (x : R) : x <= IZR (nceil x) < x + 1.
Proof.
  unfold nceil. cbn [nfloor NumR nopp]. destruct (archimed (- x)) as [H1 H2].
  rewrite opp_IZR, minus_IZR. lra.
Qed.

Lemma obj_factor_rule dt ratio (periods : list R) : 0 < dt -> 0 < target_dt dt ratio periods ->
  let m := obj_factor dt ratio periods in
  (1 <= m)%Z /\ dt / IZR m <= Rmax (target_dt dt ratio periods) dt /\
  (dt <= target_dt dt ratio periods -> m = 1%Z) /\
  (target_dt dt ratio periods < dt -> dt / IZR m <= target_dt dt ratio periods).
Proof.
  intros Hdt Htd. unfold obj_factor. numR. set (td := target_dt dt ratio periods) in *.
  case_Rltb td dt.
  - pose proof (nceil_spec (dt / td)) as [Hc1 Hc2].
    assert (H1 : 1 < dt / td) by (apply (Rmult_lt_reg_r td); [lra|]; unfold Rdiv; rewrite Rmult_assoc, Rinv_l by lra; lra).
    assert (Hm : (1 <= nceil (dt / td)%R)%Z) by (apply le_IZR; lra).
    assert (HmR : 0 < IZR (nceil (dt / td))) by lra.
    assert (Hstep : dt / IZR (nceil (dt / td)) <= td).
    { apply (Rmult_le_reg_r (IZR (nceil (dt / td)))); [lra|]. unfold Rdiv at 1. rewrite Rmult_assoc, Rinv_l by lra.
      apply (Rmult_le_compat_l td) in Hc1; [|lra]. unfold Rdiv in Hc1. rewrite <- Rmult_assoc, Rinv_r_simpl_m in Hc1 by lra. lra. }
    split; [exact Hm|]. split; [eapply Rle_trans; [exact Hstep | apply Rmax_l]|]. split; [intros; lra | intros; exact Hstep].
  - split; [lia|]. split; [unfold Rdiv; rewrite Rinv_1, Rmult_1_r; apply Rmax_r|]. split; [reflexivity | intros; lra].
Qed.

(** the interpolated record handed to the spectra interpolates the raw record (np.interp at i/m, clamped at the end) *)
Lemma interp_record_interpolates (vals : list R) (m : nat) : (1 <= m)%nat ->
  interpolates m vals (interp_record vals (Z.of_nat m)).
Proof.
  intros Hm. assert (HmR : 0 < INR m) by (apply lt_0_INR; lia).
  unfold interp_record. rewrite Nat2Z.id. split.
  - intros Hne. rewrite map_length, seq_length. destruct vals; [congruence|]. cbn [length]. nia.
  - intros i k Hi Hk.
    assert (Hidx : (m * i + k < m * length vals)%nat) by nia.
    rewrite (nth_map_in _ (seq 0 (m * length vals)) (m * i + k) 0 0%nat) by (rewrite seq_length; exact Hidx).
    rewrite seq_nth by exact Hidx. rewrite Nat.add_0_l. unfold interp_pos.
    destruct (Nat.eq_dec k m) as [->|Hne].
    + assert (Eq : (Z.of_nat (m * i + m) / Z.of_nat m = Z.of_nat (S i))%Z).
      { replace (Z.of_nat (m * i + m)) with (Z.of_nat (S i) * Z.of_nat m)%Z by nia. apply Z.div_mul. lia. }
      assert (Er : (Z.of_nat (m * i + m) mod Z.of_nat m = 0)%Z).
      { replace (Z.of_nat (m * i + m)) with (Z.of_nat (S i) * Z.of_nat m)%Z by nia. apply Z.mod_mul. lia. }
      rewrite Eq, Er, Nat2Z.id. numR.
      destruct (Nat.ltb_spec (S (S i)) (length vals)) as [Hlt|Hge].
      * unfold Rdiv. rewrite Rmult_0_l, Rmult_0_r. field. lra.
      * replace (length vals - 1)%nat with (S i) by lia. field. lra.
    + assert (Hk' : (k < m)%nat) by lia.
      assert (Eq : (Z.of_nat (m * i + k) / Z.of_nat m = Z.of_nat i)%Z).
      { replace (Z.of_nat (m * i + k)) with (Z.of_nat i * Z.of_nat m + Z.of_nat k)%Z by nia.
        rewrite Z.div_add_l by lia. rewrite Z.div_small by lia. lia. }
      assert (Er : (Z.of_nat (m * i + k) mod Z.of_nat m = Z.of_nat k)%Z).
      { replace (Z.of_nat (m * i + k)) with (Z.of_nat k + Z.of_nat i * Z.of_nat m)%Z by nia.
        rewrite Z.mod_add by lia. apply Z.mod_small. lia. }
      rewrite Eq, Er, Nat2Z.id. numR.
      destruct (Nat.ltb_spec (S i) (length vals)) as [Hlt|Hge]; [|lia].
      rewrite <- !INR_IZR_INZ. field. lra.
Qed.

(** refinement never decreases the spectral displacement: the coarse samples are among the fine ones *)
Section RefineGe.
Variables xi w dt : R.
Hypothesis Hw : 0 < w.
Hypothesis Hxi0 : 0 <= xi.
Hypothesis Hxi1 : xi < 1.
Hypothesis Hdt : 0 < dt.

Lemma refine_sd_ge (m : nat) (rec F : list R) : (1 <= m)%nat -> interpolates m rec F ->
  absmax (map fst (nj_series (nj_coeffs xi w dt) rec)) <= absmax (map fst (nj_series (nj_coeffs xi w (dt / INR m)) F))
  /\ absmax (map snd (nj_series (nj_coeffs xi w dt) rec)) <= absmax (map snd (nj_series (nj_coeffs xi w (dt / INR m)) F)).
Proof.
  intros Hm HI.
  assert (Hsub : forall s, In s (nj_series (nj_coeffs xi w dt) rec) -> In s (nj_series (nj_coeffs xi w (dt / INR m)) F)).
  { intros s Hs. destruct (In_nth _ _ (0, 0) Hs) as [i [Hi Hn]]. rewrite nj_series_length in Hi.
    rewrite <- Hn, <- (refinement_gen xi w Hw Hxi0 Hxi1 dt m rec F Hdt Hm HI i Hi).
    apply nth_In. rewrite nj_series_length. destruct HI as [HlenF _].
    assert (rec <> []) by (intros ->; cbn in Hi; lia). specialize (HlenF H). nia. }
  split; apply absmax_superset; intros y Hy; apply in_map_iff in Hy; destruct Hy as [s [<- Hs]]; apply in_map, Hsub, Hs.
Qed.
End RefineGe.

(** * energy spectra: the defining sums *)
Lemma input_energy_last dt (motion v : list R) : length motion = length v -> motion <> [] ->
  last (input_energy_series dt motion v) 0 = input_energy dt motion v.
Proof.
  intros Hl Hne. unfold input_energy_series, input_energy. apply last_cumsum.
  destruct motion, v; cbn in *; congruence.
Qed.

(** * the input-energy sign clause is refuted for the rectangle-rule sum *)
From Interval Require Import Tactic.
Lemma input_energy_negative_witness : exists xi w dt (rec : list R), 0 < w /\ 0 <= xi < 1 /\ 0 < dt /\
  input_energy dt rec (map snd (nj_series (nj_coeffs xi w dt) rec)) < 0.
Proof.
  exists (1 / 20), (62831853 / 10000000 / (1 / 2)), (1 / 10), [-3; 1].
  split; [lra|]. split; [lra|]. split; [lra|].
  unfold input_energy, nj_series. cbn [map nj_run nj_step nj_coeffs fst snd a21 a22 b21 b22 a11 a12 b11 b12 map2 nsum fold_left].
  numR.
  assert (H : nj_b21 (1 / 20) (62831853 / 10000000 / (1 / 2)) (1 / 10) * 3 + nj_b22 (1 / 20) (62831853 / 10000000 / (1 / 2)) (1 / 10) * -1 < 0).
  { cbv delta [nj_b21 nj_b22] beta zeta. interval with (i_prec 100). }
  lra.
Qed.

Lemma obj_factor_example : obj_factor 1 4 [2; 5] = 4%Z.
Proof.
  unfold obj_factor, target_dt, min_nonzero_period, nceil. numR. cbn [nofZ NumR hd].
  case_Reqb 2 0; [lra|].
  assert (E : nmax (2 / 20) (1 / 4) = 1 / 4) by (rewrite nmax_R; apply Rmax_right; lra).
  rewrite E. case_Rltb (1 / 4) 1; [|lra].
  replace (1 / (1 / 4)) with 4 by field.
  pose proof (nceil_spec 4) as [H1 H2]. unfold nceil in *. cbn [nfloor NumR nopp] in *.
  match goal with |- ?z = _ => assert (Hz : (4 <= z < 5)%Z) by (split; [apply le_IZR | apply lt_IZR]; lra) end.
  lia.
Qed.
