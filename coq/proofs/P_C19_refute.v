(** C19: for trim = False, start = True the clause "the batch row is constant from the first index after the
    single-travel-time result" is FALSE of the model (and of the code: the witness below was run through
    calc_surface_energy, calc_cum_abs_surface_energy and get_time_shift_motions).  The rows of the R-model on the witness
    are obtained by running the Q-model and the Q -> R transfer theorems of proofs/P_Transfer_misc.v.

    Witness: record [1; 2; 3], dt = 1, travel times [0; 2], nodal, up_red = down_red = 1, stt = 2, row j = 1:
      energy      batch [0; 9/8; 8; 121/8; 25/2]   single [0; 9/8; 8]
      cumulative  batch [0; 9/8; 8; 121/8; 71/4]   single [0; 9/8; 8]
      motions     batch [1; 2; 3; 0; -1]           single [1; 2; 3]
    (the batch length npts + max_j(int(stt/dt) - int(tt_j/dt)) = 5 is set by the OTHER travel time, so the longer window
    shows more of the still-arriving reflected wave). *)
From Coq Require Import ZArith QArith Qreals Reals List Bool Lra Lia.
From EQ Require Import lib.Num lib.NpList lib.Transfer model.M_im model.M_surface proofs.P_C19 proofs.P_Transfer_misc.
Import ListNotations.
Local Open Scope R_scope.

Lemma rel_lit (z : Z) : rel (inject_Z z) (IZR z).
Proof. unfold rel, Q2R. cbn. field. Qed.
Lemma relL_lit (zs : list Z) : relL (map inject_Z zs) (map IZR zs).
Proof. induction zs; cbn; constructor; auto. apply rel_lit. Qed.

Definition wvals : list R := [1; 2; 3].
Definition wtts : list R := [0; 2].
Definition wred : red R := RScalar 1.

Local Ltac lits :=
  try apply (rel_lit 1); try apply (rel_lit 2);
  try apply (relL_lit [1; 2; 3]%Z); try apply (relL_lit [0; 2]%Z); try apply (relL_lit [2]%Z);
  try (apply relRed_s; apply (rel_lit 1)).
Local Ltac runQ H := apply relLL_iff in H; rewrite H; clear H;
  match goal with |- context [map (map Q2R) ?q] => let x := fresh "q" in set (x := q); vm_compute in x; subst x end;
  cbn [map nth].
Local Ltac q2r := unfold Q2R; cbn [Qnum Qden]; lra.

Lemma w_energy_batch : nth 1 (surface_energy true false true 1 wvals wtts wred wred 2) [] = [0; 9 / 8; 8; 121 / 8; 25 / 2].
Proof.
  pose proof (surface_energy_transfer true false true (inject_Z 1) 1 (map inject_Z [1; 2; 3]%Z) wvals (map inject_Z [0; 2]%Z) wtts
                (RScalar (inject_Z 1)) wred (RScalar (inject_Z 1)) wred (inject_Z 2) 2) as H.
  specialize (H ltac:(lits) ltac:(lits) ltac:(lits) ltac:(lits) ltac:(lits) ltac:(lits)).
  runQ H. repeat (apply f_equal2; [q2r|]). reflexivity.
Qed.
Lemma w_energy_single : nth 0 (surface_energy true false true 1 wvals [2] wred wred 2) [] = [0; 9 / 8; 8].
Proof.
  pose proof (surface_energy_transfer true false true (inject_Z 1) 1 (map inject_Z [1; 2; 3]%Z) wvals (map inject_Z [2]%Z) [2]
                (RScalar (inject_Z 1)) wred (RScalar (inject_Z 1)) wred (inject_Z 2) 2) as H.
  specialize (H ltac:(lits) ltac:(lits) ltac:(lits) ltac:(lits) ltac:(lits) ltac:(lits)).
  runQ H. repeat (apply f_equal2; [q2r|]). reflexivity.
Qed.
Lemma w_cum_batch : nth 1 (cum_abs_surface_energy true false true 1 wvals wtts wred wred 2) [] = [0; 9 / 8; 8; 121 / 8; 71 / 4].
Proof.
  pose proof (cum_abs_surface_energy_transfer true false true (inject_Z 1) 1 (map inject_Z [1; 2; 3]%Z) wvals (map inject_Z [0; 2]%Z) wtts
                (RScalar (inject_Z 1)) wred (RScalar (inject_Z 1)) wred (inject_Z 2) 2) as H.
  specialize (H ltac:(lits) ltac:(lits) ltac:(lits) ltac:(lits) ltac:(lits) ltac:(lits)).
  runQ H. repeat (apply f_equal2; [q2r|]). reflexivity.
Qed.
Lemma w_cum_single : nth 0 (cum_abs_surface_energy true false true 1 wvals [2] wred wred 2) [] = [0; 9 / 8; 8].
Proof.
  pose proof (cum_abs_surface_energy_transfer true false true (inject_Z 1) 1 (map inject_Z [1; 2; 3]%Z) wvals (map inject_Z [2]%Z) [2]
                (RScalar (inject_Z 1)) wred (RScalar (inject_Z 1)) wred (inject_Z 2) 2) as H.
  specialize (H ltac:(lits) ltac:(lits) ltac:(lits) ltac:(lits) ltac:(lits) ltac:(lits)).
  runQ H. repeat (apply f_equal2; [q2r|]). reflexivity.
Qed.
Lemma w_motions_batch : nth 1 (time_shift_motions true false true 1 wvals wtts wred wred 2) [] = [1; 2; 3; 0; -1].
Proof.
  pose proof (time_shift_motions_transfer true false true (inject_Z 1) 1 (map inject_Z [1; 2; 3]%Z) wvals (map inject_Z [0; 2]%Z) wtts
                (RScalar (inject_Z 1)) wred (RScalar (inject_Z 1)) wred (inject_Z 2) 2) as H.
  specialize (H ltac:(lits) ltac:(lits) ltac:(lits) ltac:(lits) ltac:(lits) ltac:(lits)).
  runQ H. repeat (apply f_equal2; [q2r|]). reflexivity.
Qed.
Lemma w_motions_single : nth 0 (time_shift_motions true false true 1 wvals [2] wred wred 2) [] = [1; 2; 3].
Proof.
  pose proof (time_shift_motions_transfer true false true (inject_Z 1) 1 (map inject_Z [1; 2; 3]%Z) wvals (map inject_Z [2]%Z) [2]
                (RScalar (inject_Z 1)) wred (RScalar (inject_Z 1)) wred (inject_Z 2) 2) as H.
  specialize (H ltac:(lits) ltac:(lits) ltac:(lits) ltac:(lits) ltac:(lits) ltac:(lits)).
  runQ H. repeat (apply f_equal2; [q2r|]). reflexivity.
Qed.

(** the witness satisfies the guards, and the tail of each of the three batch rows is not constant *)
Lemma w_guards : 0 < 1 /\ (forall t, In t wtts -> 0 <= t) /\ (1 < length wtts)%nat /\ 0 <= 2 /\
  nth 1 wtts 0 = 2 /\ red_at wred 1 = 1.
Proof. repeat split; try lra; try (cbn; lia). intros t [<-|[<-|[]]]; lra. Qed.
Lemma C19_start_untrimmed_const_tail_witness :
  ~ prefix_const (nth 1 (surface_energy true false true 1 wvals wtts wred wred 2) [])
                 (nth 0 (surface_energy true false true 1 wvals [2] wred wred 2) []) /\
  ~ prefix_const (nth 1 (cum_abs_surface_energy true false true 1 wvals wtts wred wred 2) [])
                 (nth 0 (cum_abs_surface_energy true false true 1 wvals [2] wred wred 2) []) /\
  ~ prefix_const (nth 1 (time_shift_motions true false true 1 wvals wtts wred wred 2) [])
                 (nth 0 (time_shift_motions true false true 1 wvals [2] wred wred 2) []).
Proof.
  rewrite w_energy_batch, w_energy_single, w_cum_batch, w_cum_single, w_motions_batch, w_motions_single.
  repeat split; intros [_ H]; specialize (H 4%nat ltac:(cbn; lia)); cbn in H; lra.
Qed.

(** the universally quantified clause (the start = True analogue of C19_row_eq_single_untrimmed_all) is refuted *)
Definition const_tail_clause (f : bool -> bool -> bool -> R -> list R -> list R -> red R -> red R -> R -> list (list R)) : Prop :=
  forall nodal dt (vals tts : list R) ur dr j stt,
  0 < dt -> (forall t, In t tts -> 0 <= t) -> (j < length tts)%nat -> 0 <= stt ->
  prefix_const (nth j (f nodal false true dt vals tts ur dr stt) [])
               (nth 0 (f nodal false true dt vals [nth j tts 0] (RScalar (red_at ur j)) (RScalar (red_at dr j)) stt) []).
Lemma C19_start_untrimmed_const_tail_refuted :
  ~ const_tail_clause surface_energy /\ ~ const_tail_clause cum_abs_surface_energy /\ ~ const_tail_clause time_shift_motions.
Proof.
  destruct C19_start_untrimmed_const_tail_witness as (W1 & W2 & W3).
  destruct w_guards as (G1 & G2 & G3 & G4 & _).
  repeat split; intros C; specialize (C true 1 wvals wtts wred wred 1%nat 2 G1 G2 G3 G4); cbn [nth wtts red_at wred] in C; tauto.
Qed.
