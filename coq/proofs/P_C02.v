(** Proofs for C02: the response operator of the model is linear, causal, shift invariant, row-wise independent —
    for ARBITRARY coefficient matrices — and, for the generated Nigam-Jennings coefficients, invariant under
    refinement of the time step by linear interpolation. *)
From Coq Require Import Reals Lra Lia List Permutation.
From Coquelicot Require Import Coquelicot.
From EQ Require Import lib.Num lib.NpList model.M_sdof gen.Gen_sdof_coeffs model.M_sdof_R proofs.P_C08 proofs.P_C01.
Import ListNotations.
Local Open Scope R_scope.

Definition lin2 (al be : R) (s1 s2 : R * R) : R * R := (al * fst s1 + be * fst s2, al * snd s1 + be * snd s2).

Section Any.
Variable c : coeffs R.

Lemma nj_step_lin al be s1 s2 f0 g0 f1 g1 :
  nj_step c (lin2 al be s1 s2) (al * f0 + be * g0) (al * f1 + be * g1)
  = lin2 al be (nj_step c s1 f0 f1) (nj_step c s2 g0 g1).
Proof. unfold nj_step, lin2. cbn [fst snd]. numR. f_equal; ring. Qed.

Lemma nj_run_lin al be s1 s2 f0 g0 (r1 r2 : list R) : length r1 = length r2 ->
  nj_run c (lin2 al be s1 s2) (al * f0 + be * g0) (lin al be r1 r2)
  = map2 (lin2 al be) (nj_run c s1 f0 r1) (nj_run c s2 g0 r2).
Proof.
  revert s1 s2 f0 g0 r2; induction r1 as [|f1 r1 IH]; intros s1 s2 f0 g0 [|g1 r2] Hl; cbn [length] in Hl; try lia.
  - reflexivity.
  - cbn [lin map2 nj_run]. f_equal. fold (lin al be r1 r2). rewrite nj_step_lin. apply IH. lia.
Qed.

Lemma map_nopp_lin al be (a b : list R) : map nopp (lin al be a b) = lin al be (map nopp a) (map nopp b).
Proof.
  revert b; induction a as [|x a IH]; intros [|y b]; try reflexivity.
  cbn [lin map2 map]. fold (lin al be a b). fold (lin al be (map nopp a) (map nopp b)). rewrite IH. f_equal. numR. ring.
Qed.

Theorem series_linear al be (a b : list R) : length a = length b ->
  nj_series c (lin al be a b) = map2 (lin2 al be) (nj_series c a) (nj_series c b).
Proof.
  intros Hl. unfold nj_series. rewrite map_nopp_lin.
  destruct a as [|x a], b as [|y b]; cbn [length] in Hl; try lia; [reflexivity|].
  cbn [map lin map2]. fold (lin al be (map nopp a) (map nopp b)).
  etransitivity; [| apply (nj_run_lin al be (0, 0) (0, 0)); rewrite !map_length; lia].
  f_equal. unfold lin2; cbn [fst snd]; numR; f_equal; ring.
Qed.

Lemma map_fst_lin2 al be (l1 l2 : list (R * R)) : map fst (map2 (lin2 al be) l1 l2) = lin al be (map fst l1) (map fst l2).
Proof. revert l2; induction l1 as [|s l1 IH]; intros [|t l2]; try reflexivity. cbn [map2 map lin]. fold (lin al be (map fst l1) (map fst l2)). now rewrite IH. Qed.
Lemma map_snd_lin2 al be (l1 l2 : list (R * R)) : map snd (map2 (lin2 al be) l1 l2) = lin al be (map snd l1) (map snd l2).
Proof. revert l2; induction l1 as [|s l1 IH]; intros [|t l2]; try reflexivity. cbn [map2 map lin]. fold (lin al be (map snd l1) (map snd l2)). now rewrite IH. Qed.
Lemma map_acc_lin2 xi w al be (l1 l2 : list (R * R)) :
  map (resp_acc xi w) (map2 (lin2 al be) l1 l2) = lin al be (map (resp_acc xi w) l1) (map (resp_acc xi w) l2).
Proof.
  revert l2; induction l1 as [|s l1 IH]; intros [|t l2]; try reflexivity. cbn [map2 map lin].
  fold (lin al be (map (resp_acc xi w) l1) (map (resp_acc xi w) l2)). rewrite IH. f_equal.
  unfold resp_acc, lin2. cbn [fst snd]. numR. ring.
Qed.

(** linearity of all three returned series of a row *)
Theorem row_linear xi w al be (a b : list R) : length a = length b ->
  fst (fst (row c xi w (lin al be a b))) = lin al be (fst (fst (row c xi w a))) (fst (fst (row c xi w b))) /\
  snd (fst (row c xi w (lin al be a b))) = lin al be (snd (fst (row c xi w a))) (snd (fst (row c xi w b))) /\
  snd (row c xi w (lin al be a b)) = lin al be (snd (row c xi w a)) (snd (row c xi w b)).
Proof.
  intros Hl. unfold row. cbn [fst snd]. rewrite (series_linear al be a b Hl).
  now rewrite map_fst_lin2, map_snd_lin2, map_acc_lin2.
Qed.

(** causality: the first k samples of the series depend on the first k samples of the record only *)
Lemma nj_run_causal k : forall s f0 (r r' : list R), firstn k r = firstn k r' ->
  firstn (S k) (nj_run c s f0 r) = firstn (S k) (nj_run c s f0 r').
Proof.
  induction k as [|k IH]; intros s f0 r r' Hp.
  - destruct r, r'; reflexivity.
  - destruct r as [|f1 r], r' as [|g1 r']; cbn [firstn] in Hp; try discriminate; [reflexivity|].
    injection Hp as -> Hp. cbn [nj_run]. change (firstn (S (S k)) (s :: ?l)) with (s :: firstn (S k) l).
    cbn [firstn]. f_equal. apply (IH _ _ _ _ Hp).
Qed.

Theorem series_causal k (a a' : list R) : firstn k a = firstn k a' ->
  firstn k (nj_series c a) = firstn k (nj_series c a').
Proof.
  intros Hp. destruct k as [|k]; [reflexivity|].
  unfold nj_series. destruct a as [|x a], a' as [|y a']; cbn [firstn] in Hp; try discriminate; [reflexivity|].
  injection Hp as -> Hp. cbn [map]. apply nj_run_causal.
  rewrite !firstn_map. now rewrite Hp.
Qed.

(** time shift: k leading zeros in front of a record that starts at zero delay the response by exactly k samples *)
Lemma nj_step_zero : nj_step c (0, 0) 0 0 = (0, 0).
Proof. unfold nj_step. cbn [fst snd]. numR. f_equal; ring. Qed.

Lemma nj_run_zero_prefix k (rest : list R) :
  nj_run c (0, 0) 0 (repeat 0 k ++ rest) = repeat (0, 0) k ++ nj_run c (0, 0) 0 rest.
Proof. induction k as [|k IH]; [reflexivity|]. cbn [repeat app nj_run]. rewrite nj_step_zero, IH. reflexivity. Qed.

Lemma repeat_mid {A} (x : A) j l : repeat x j ++ x :: l = x :: repeat x j ++ l.
Proof. induction j as [|j IH]; [reflexivity|]. cbn [repeat app]. now rewrite IH. Qed.

Theorem series_shift k (a : list R) : hd 0 a = 0 ->
  nj_series c (repeat 0 k ++ a) = repeat (0, 0) k ++ nj_series c a.
Proof.
  intros Hh. destruct k as [|j]; [reflexivity|].
  unfold nj_series. rewrite map_app.
  assert (Hz : forall n, map nopp (repeat 0 n) = repeat 0 n).
  { induction n as [|n IHn]; [reflexivity|]. cbn [repeat map]. rewrite IHn. f_equal. numR. ring. }
  rewrite Hz. cbn [repeat app]. rewrite nj_run_zero_prefix.
  destruct a as [|x a]; cbn [map].
  - cbn [nj_run]. rewrite app_nil_r. symmetry. apply repeat_cons.
  - cbn [hd] in Hh. subst x. assert (E0 : nopp 0 = 0) by (numR; ring). rewrite E0.
    cbn [nj_run]. rewrite repeat_mid. f_equal. f_equal.
    now rewrite nj_step_zero.
Qed.
End Any.

(** * rows are independent: each period's result depends on that period only *)
Definition osc_row (c2pi xi dt : R) (rec : list R) (P : R) : list R * list R * list R :=
  row (nj_coeffs xi (w_of c2pi P) dt) xi (w_of c2pi P) rec.

Lemma map2_map_l {A B C} (f : A -> B -> C) (g : B -> A) (l : list B) : map2 f (map g l) l = map (fun x => f (g x) x) l.
Proof. induction l as [|x l IH]; [reflexivity|]. cbn [map map2]. now rewrite IH. Qed.

Theorem response_rows c2pi xi dt (ps rec : list R) : hd 1 ps <> 0 ->
  response_R c2pi xi dt ps rec = map (osc_row c2pi xi dt rec) ps.
Proof.
  intros Hp. unfold response_R. rewrite no_leading_zero_response by exact Hp.
  assert (E : osc_periods ps = ps).
  { unfold osc_periods. destruct ps as [|p0 ps']; [reflexivity|]. cbn [hd] in Hp. numR. case_Reqb p0 0; [contradiction|reflexivity]. }
  rewrite E, map2_map_l. reflexivity.
Qed.
Theorem response_rows_leading_zero c2pi xi dt (ps rec : list R) :
  response_R c2pi xi dt (0 :: ps) rec = zero_row rec :: map (osc_row c2pi xi dt rec) ps.
Proof.
  unfold response_R. rewrite leading_zero_response.
  assert (E : osc_periods (0 :: ps) = ps) by (unfold osc_periods; numR; case_Reqb 0 0; [reflexivity|lra]).
  rewrite E, map2_map_l. reflexivity.
Qed.

(** * refinement of the time step *)
Section Refine.
Variables xi w : R.
Hypothesis Hw : 0 < w.
Hypothesis Hxi0 : 0 <= xi.
Hypothesis Hxi1 : xi < 1.

(** semigroup property of the closed form (from uniqueness) *)
Lemma flow_compose u0 v0 g0 s t1 t2 : 0 <= t2 ->
  usol xi w u0 v0 g0 s (t1 + t2) = usol xi w (usol xi w u0 v0 g0 s t1) (vsol xi w u0 v0 g0 s t1) (g0 + s * t1) s t2 /\
  vsol xi w u0 v0 g0 s (t1 + t2) = vsol xi w (usol xi w u0 v0 g0 s t1) (vsol xi w u0 v0 g0 s t1) (g0 + s * t1) s t2.
Proof.
  intros Ht2.
  apply (forced_unique xi w Hw Hxi0 Hxi1 t1 t2 (g0 + s * t1) s (usol xi w u0 v0 g0 s) (vsol xi w u0 v0 g0 s) Ht2).
  - intros t _. now apply usol_deriv.
  - intros t _. evar_last; [now apply vsol_deriv|]. ring.
  - lra.
Qed.

(** a fine record [F] interpolates [rec] with factor m on the span of the coarse record *)
Definition interpolates (m : nat) (rec F : list R) : Prop :=
  (rec <> [] -> (m * (length rec - 1) + 1 <= length F)%nat) /\
  forall i k, (S i < length rec)%nat -> (k <= m)%nat ->
    nth (m * i + k) F 0 = nth i rec 0 + (nth (S i) rec 0 - nth i rec 0) * INR k / INR m.

Theorem refinement_gen dt (m : nat) (rec F : list R) : 0 < dt -> (1 <= m)%nat -> interpolates m rec F ->
  forall i, (i < length rec)%nat ->
    nth (m * i) (nj_series (nj_coeffs xi w (dt / INR m)) F) (0, 0) = nth i (nj_series (nj_coeffs xi w dt) rec) (0, 0).
Proof.
  intros Hdt Hm [HlenF HF].
  assert (HmR : 0 < INR m) by (apply lt_0_INR; lia).
  set (h := dt / INR m). assert (Hh : 0 < h) by (unfold h; apply Rdiv_lt_0_compat; lra).
  set (cf := nj_coeffs xi w h). set (cc := nj_coeffs xi w dt).
  induction i as [|i IH]; intros Hi.
  - rewrite Nat.mul_0_r. rewrite !nj_series_0; [reflexivity| |].
    + intros ->; cbn in Hi; lia.
    + intros ->. assert (Hne : rec <> []) by (intros ->; cbn in Hi; lia). specialize (HlenF Hne). cbn in HlenF; lia.
  - specialize (IH ltac:(lia)).
    set (S0 := nth i (nj_series cc rec) (0, 0)) in *.
    set (g0 := nth i rec 0). set (g1 := nth (S i) rec 0). set (sl := (g1 - g0) / dt).
    assert (Hinner : forall k, (k <= m)%nat ->
      nth (m * i + k) (nj_series cf F) (0, 0)
      = (usol xi w (fst S0) (snd S0) g0 sl (INR k * h), vsol xi w (fst S0) (snd S0) g0 sl (INR k * h))).
    { induction k as [|k IHk]; intros Hk.
      - rewrite Nat.add_0_r, IH. cbn [INR]. rewrite Rmult_0_l, usol_0, vsol_0 by assumption. now destruct S0.
      - replace (m * i + S k)%nat with (S (m * i + k)) by lia.
        assert (Hne : rec <> []) by (intros ->; cbn in Hi; lia). specialize (HlenF Hne).
        rewrite nj_series_S by nia.
        rewrite IHk by lia. fold cf.
        rewrite (HF i k Hi ltac:(lia)). replace (S (m * i + k)) with (m * i + S k)%nat by lia.
        rewrite (HF i (S k) Hi Hk). fold g0 g1.
        unfold cf. rewrite (one_step xi w h Hw Hxi0 Hxi1 Hh). cbn [fst snd].
        assert (Esl : (g0 + (g1 - g0) * INR (S k) / INR m - (g0 + (g1 - g0) * INR k / INR m)) / h = sl).
        { unfold sl, h. rewrite S_INR. field. lra. }
        assert (Eg : g0 + (g1 - g0) * INR k / INR m = g0 + sl * (INR k * h)).
        { unfold sl, h. field. lra. }
        rewrite Esl, Eg.
        destruct (flow_compose (fst S0) (snd S0) g0 sl (INR k * h) h ltac:(lra)) as [E1 E2].
        replace (INR (S k) * h) with (INR k * h + h) by (rewrite S_INR; ring).
        now rewrite E1, E2. }
    replace (m * S i)%nat with (m * i + m)%nat by lia.
    rewrite (Hinner m (Nat.le_refl m)).
    rewrite nj_series_S by exact Hi. fold cc S0 g0 g1.
    unfold cc. rewrite (one_step xi w dt Hw Hxi0 Hxi1 Hdt). fold sl.
    replace (INR m * h) with dt by (unfold h; field; lra). reflexivity.
Qed.

(** [refine m rec] (m-1 interpolated samples between neighbours) interpolates [rec] *)
Lemma refine_from_length m x0 rest : length (refine_from m x0 rest) = (m * length rest + 1)%nat.
Proof.
  revert x0; induction rest as [|x1 r IH]; intros x0; cbn [refine_from length]; [lia|].
  rewrite app_length, map_length, seq_length, IH. lia.
Qed.
Lemma refine_from_hd m x0 rest : (1 <= m)%nat -> nth 0 (refine_from m x0 rest) 0 = x0.
Proof.
  intros Hm. destruct rest as [|x1 r]; [reflexivity|]. cbn [refine_from].
  rewrite app_nth1 by (rewrite map_length, seq_length; lia).
  rewrite (nth_map_in _ (seq 0 m) 0 0 0%nat) by (rewrite seq_length; lia). rewrite seq_nth by lia.
  cbn [INR Nat.add]. unfold Rdiv. ring.
Qed.
Lemma refine_from_nth m : (1 <= m)%nat -> forall rest x0 i k, (i < length rest)%nat -> (k <= m)%nat ->
  nth (m * i + k) (refine_from m x0 rest) 0
  = nth i (x0 :: rest) 0 + (nth (S i) (x0 :: rest) 0 - nth i (x0 :: rest) 0) * INR k / INR m.
Proof.
  intros Hm. assert (HmR : 0 < INR m) by (apply lt_0_INR; lia).
  induction rest as [|x1 r IH]; intros x0 i k Hi Hk; cbn [length] in Hi; [lia|].
  cbn [refine_from]. destruct i as [|j].
  - rewrite Nat.mul_0_r, Nat.add_0_l. cbn [nth].
    destruct (Nat.eq_dec k m) as [->|Hne].
    + rewrite app_nth2 by (rewrite map_length, seq_length; lia). rewrite map_length, seq_length, Nat.sub_diag.
      rewrite refine_from_hd by exact Hm. field. lra.
    + rewrite app_nth1 by (rewrite map_length, seq_length; lia).
      rewrite (nth_map_in _ (seq 0 m) k 0 0%nat) by (rewrite seq_length; lia). rewrite seq_nth by lia. reflexivity.
  - rewrite Nat.mul_succ_r. rewrite app_nth2 by (rewrite map_length, seq_length; lia). rewrite map_length, seq_length.
    replace (m * j + m + k - m)%nat with (m * j + k)%nat by lia.
    rewrite IH by lia. reflexivity.
Qed.
Lemma refine_interpolates m (rec : list R) : (1 <= m)%nat -> interpolates m rec (refine m rec).
Proof.
  intros Hm. destruct rec as [|x0 rest]; [split; [congruence | intros i k Hi; cbn in Hi; lia]|].
  cbn [refine]. split.
  - intros _. rewrite refine_from_length. cbn [length]. lia.
  - intros i k Hi Hk. cbn [length] in Hi. apply refine_from_nth; [exact Hm | lia | exact Hk].
Qed.

Theorem refinement dt (m : nat) (rec : list R) : 0 < dt -> (1 <= m)%nat ->
  forall i, (i < length rec)%nat ->
    nth (m * i) (nj_series (nj_coeffs xi w (dt / INR m)) (refine m rec)) (0, 0)
    = nth i (nj_series (nj_coeffs xi w dt) rec) (0, 0).
Proof. intros Hdt Hm. apply refinement_gen; [exact Hdt | exact Hm | now apply refine_interpolates]. Qed.
End Refine.
