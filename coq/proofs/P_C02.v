(** Proofs for C02: the response operator of the model is linear, causal, shift invariant, row-wise independent —
    for ARBITRARY coefficient matrices — and, for the generated Nigam-Jennings coefficients, invariant under
    refinement of the time step by linear interpolation. *)
From Coq Require Import Reals Lra Lia List Permutation.
From Coquelicot Require Import Coquelicot.
From EQ Require Import lib.Num lib.NpList model.M_sdof gen.Gen_sdof_coeffs model.M_sdof_R proofs.P_C08 proofs.P_C01.
Import ListNotations.
Local Open Scope R_scope.

Definition lin2 (al be : R) (s1 s2 : R * R) : R * R := (al * fst s1 + be * fst s2, al * snd s1 + be * snd s2).

Section Any.
Variable c : coeffs R.

Lemma nj_step_lin al be s1 s2 f0 g0 f1 g1 :
  nj_step c (lin2 al be s1 s2) (al * f0 + be * g0) (al * f1 + be * g1)
  = lin2 al be (nj_step c s1 f0 f1) (nj_step c s2 g0 g1).
Proof. unfold nj_step, lin2. cbn [fst snd]. numR. f_equal; ring. Qed.

Lemma nj_run_lin al be s1 s2 f0 g0 (r1 r2 : list R) : length r1 = length r2 ->
  nj_run c (lin2 al be s1 s2) (al * f0 + be * g0) (lin al be r1 r2)
  = map2 (lin2 al be) (nj_run c s1 f0 r1) (nj_run c s2 g0 r2).
Proof.
  revert s1 s2 f0 g0 r2; induction r1 as [|f1 r1 IH]; intros s1 s2 f0 g0 [|g1 r2] Hl; cbn [length] in Hl; try lia.
  - reflexivity.
  - cbn [lin map2 nj_run]. f_equal. fold (lin al be r1 r2). rewrite nj_step_lin. apply IH. lia.
Qed.

Lemma map_nopp_lin al be (a b : list R) : map nopp (lin al be a b) = lin al be (map nopp a) (map nopp b).
Proof.
  revert b; induction a as [|x a IH]; intros [|y b]; try reflexivity.
  cbn [lin map2 map]. fold (lin al be a b). fold (lin al be (map nopp a) (map nopp b)). rewrite IH. f_equal. numR. ring.
Qed.

Theorem series_linear al be (a b : list R) : length a = length b ->
  nj_series c (lin al be a b) = map2 (lin2 al be) (nj_series c a) (nj_series c b).
Proof.
  intros Hl. unfold nj_series. rewrite map_nopp_lin.
  destruct a as [|x a], b as [|y b]; cbn [length] in Hl; try lia; [reflexivity|].
  cbn [map lin map2]. fold (lin al be (map nopp a) (map nopp b)).
  etransitivity; [| apply (nj_run_lin al be (0, 0) (0, 0)); rewrite !map_length; lia].
  f_equal. unfold lin2; cbn [fst snd]; numR; f_equal; ring.
Qed.

Lemma map_fst_lin2 al be (l1 l2 : list (R * R)) : map fst (map2 (lin2 al be) l1 l2) = lin al be (map fst l1) (map fst l2).
Proof. revert l2; induction l1 as [|s l1 IH]; intros [|t l2]; try reflexivity. cbn [map2 map lin]. fold (lin al be (map fst l1) (map fst l2)). now rewrite IH. Qed.
Lemma map_snd_lin2 al be (l1 l2 : list (R * R)) : map snd (map2 (lin2 al be) l1 l2) = lin al be (map snd l1) (map snd l2).
Proof. revert l2; induction l1 as [|s l1 IH]; intros [|t l2]; try reflexivity. cbn [map2 map lin]. fold (lin al be (map snd l1) (map snd l2)). now rewrite IH. Qed.
Lemma map_acc_lin2 xi w al be (l1 l2 : list (R * R)) :
  map (resp_acc xi w) (map2 (lin2 al be) l1 l2) = lin al be (map (resp_acc xi w) l1) (map (resp_acc xi w) l2).
Proof.
  revert l2; induction l1 as [|s l1 IH]; intros [|t l2]; try reflexivity. cbn [map2 map lin].
  fold (lin al be (map (resp_acc xi w) l1) (map (resp_acc xi w) l2)). rewrite IH. f_equal.
  unfold resp_acc, lin2. cbn [fst snd]. numR. ring.
Qed.

(** linearity of all three returned series of a row *)
Theorem row_linear xi w al be (a b : list R) : length a = length b ->
  fst (fst (row c xi w (lin al be a b))) = lin al be (fst (fst (row c xi w a))) (fst (fst (row c xi w b))) /\
  snd (fst (row c xi w (lin al be a b))) = lin al be (snd (fst (row c xi w a))) (snd (fst (row c xi w b))) /\
  snd (row c xi w (lin al be a b)) = lin al be (snd (row c xi w a)) (snd (row c xi w b)).
Proof.
  intros Hl. unfold row. cbn [fst snd]. rewrite (series_linear al be a b Hl).
  now rewrite map_fst_lin2, map_snd_lin2, map_acc_lin2.
Qed.

(** causality: the first k samples of the series depend on the first k samples of the record only *)
Lemma nj_run_causal k : forall s f0 (r r' : list R), firstn k r = firstn k r' ->
  firstn (S k) (nj_run c s f0 r) = firstn (S k) (nj_run c s f0 r').
Proof.
  induction k as [|k IH]; intros s f0 r r' Hp.
  - destruct r, r'; reflexivity.
  - destruct r as [|f1 r], r' as [|g1 r']; cbn [firstn] in Hp; try discriminate; [reflexivity|].
    injection Hp as -> Hp. cbn [nj_run]. change (firstn (S (S k)) (s :: ?l)) with (s :: firstn (S k) l).
    cbn [firstn]. f_equal. apply (IH _ _ _ _ Hp).
Qed.

Theorem series_causal k (a a' : list R) : firstn k a = firstn k a' ->
  firstn k (nj_series c a) = firstn k (nj_series c a').
Proof.
  intros Hp. destruct k as [|k]; [reflexivity|].
  unfold nj_series. destruct a as [|x a], a' as [|y a']; cbn [firstn] in Hp; try discriminate; [reflexivity|].
  injection Hp as -> Hp. cbn [map]. apply nj_run_causal.
  rewrite !firstn_map. now rewrite Hp.
Qed.

(** time shift: k leading zeros in front of a record that starts at zero delay the response by exactly k samples *)
Lemma nj_step_zero : nj_step c (0, 0) 0 0 = (0, 0).
Proof. unfold nj_step. cbn [fst snd]. numR. f_equal; ring. Qed.

Lemma nj_run_zero_prefix k (rest : list R) :
  nj_run c (0, 0) 0 (repeat 0 k ++ rest) = repeat (0, 0) k ++ nj_run c (0, 0) 0 rest.
Proof. induction k as [|k IH]; [reflexivity|]. cbn [repeat app nj_run]. rewrite nj_step_zero, IH. reflexivity. Qed.

Lemma repeat_mid {A} (x : A) j l : repeat x j ++ x :: l = x :: repeat x j ++ l.
Proof. induction j as [|j IH]; [reflexivity|]. cbn [repeat app]. now rewrite IH. Qed.

Theorem series_shift k (a : list R) : hd 0 a = 0 ->
  nj_series c (repeat 0 k ++ a) = repeat (0, 0) k ++ nj_series c a.
Proof.
  intros Hh. destruct k as [|j]; [reflexivity|].
  unfold nj_series. rewrite map_app.
  assert (Hz : forall n, map nopp (repeat 0 n) = repeat 0 n).
  { induction n as [|n IHn]; [reflexivity|]. cbn [repeat map]. rewrite IHn. f_equal. numR. ring. }
  rewrite Hz. cbn [repeat app]. rewrite nj_run_zero_prefix.
  destruct a as [|x a]; cbn [map].
  - cbn [nj_run]. rewrite app_nil_r. symmetry. apply repeat_cons.
  - cbn [hd] in Hh. subst x. assert (E0 : nopp 0 = 0) by (numR; ring). rewrite E0.
    cbn [nj_run]. rewrite repeat_mid. f_equal. f_equal.
    now rewrite nj_step_zero.
Qed.
End Any.

(** * rows are independent: each period's result depends on that period only *)
Definition osc_row (c2pi xi dt : R) (rec : list R) (P : R) : list R * list R * list R :=
  row (nj_coeffs xi (w_of c2pi P) dt) xi (w_of c2pi P) rec.

Lemma map2_map_l {A B C} (f : A -> B -> C) (g : B -> A) (l : list B) : map2 f (map g l) l = map (fun x => f (g x) x) l.
Proof. induction l as [|x l IH]; [reflexivity|]. cbn [map map2]. now rewrite IH. Qed.

Theorem response_rows c2pi xi dt (ps rec : list R) : hd 1 ps <> 0 ->
  response_R c2pi xi dt ps rec = map (osc_row c2pi xi dt rec) ps.
Proof.
  intros Hp. unfold response_R. rewrite no_leading_zero_response by exact Hp.
  assert (E : osc_periods ps = ps).
  { unfold osc_periods. destruct ps as [|p0 ps']; [reflexivity|]. cbn [hd] in Hp. numR. case_Reqb p0 0; [contradiction|reflexivity]. }
  rewrite E, map2_map_l. reflexivity.
Qed.
Theorem response_rows_leading_zero c2pi xi dt (ps rec : list R) :
  response_R c2pi xi dt (0 :: ps) rec = zero_row rec :: map (osc_row c2pi xi dt rec) ps.
Proof.
  unfold response_R. rewrite leading_zero_response.
  assert (E : osc_periods (0 :: ps) = ps) by (unfold osc_periods; numR; case_Reqb 0 0; [reflexivity|lra]).
  rewrite E, map2_map_l. reflexivity.
Qed.
