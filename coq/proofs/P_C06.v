(** Proofs for C06 (Fourier amplitude spectrum) at T := R. *)
From Coq Require Import ZArith QArith Qreals Reals List Bool Lra Lia.
From EQ Require Import lib.Num lib.NpList lib.Dft model.M_fourier.
Import ListNotations.
Local Open Scope R_scope.

(** ** finite sums *)
Lemma rsum_ext f g n : (forall j, (j < n)%nat -> f j = g j) -> rsum f n = rsum g n.
Proof. induction n as [|n IH]; intros E; [reflexivity|]. cbn. rewrite IH, E; auto. Qed.
Lemma rsum_plus f g n : rsum (fun j => f j + g j) n = rsum f n + rsum g n.
Proof. induction n as [|n IH]; cbn; [lra|]. rewrite IH. lra. Qed.
Lemma rsum_scal c f n : rsum (fun j => c * f j) n = c * rsum f n.
Proof. induction n as [|n IH]; cbn; [lra|]. rewrite IH. lra. Qed.
Lemma rsum_0 n : rsum (fun _ => 0) n = 0.
Proof. induction n as [|n IH]; cbn; [lra|]. rewrite IH. lra. Qed.
Lemma rsum_const c n : rsum (fun _ => c) n = INR n * c.
Proof. induction n as [|n IH]; [cbn; lra|]. rewrite S_INR. cbn [rsum]. rewrite IH. lra. Qed.
Lemma rsum_swap (f : nat -> nat -> R) n m :
  rsum (fun i => rsum (fun j => f i j) m) n = rsum (fun j => rsum (fun i => f i j) n) m.
Proof.
  induction n as [|n IH]; cbn [rsum]; [now rewrite rsum_0|].
  rewrite IH. now rewrite <- rsum_plus.
Qed.
(** sum against an indicator *)
Lemma rsum_delta (f : nat -> R) c m n : (m < n)%nat ->
  rsum (fun j => f j * (if Nat.eqb j m then c else 0)) n = f m * c.
Proof.
  induction n as [|n IH]; [lia|]. intros Hm. cbn [rsum].
  destruct (Nat.eq_dec m n) as [->|Hne].
  - rewrite Nat.eqb_refl. rewrite (rsum_ext _ (fun _ => 0)).
    + rewrite rsum_0. lra.
    + intros j Hj. destruct (Nat.eqb_spec j n); [lia|]. lra.
  - rewrite IH by lia. destruct (Nat.eqb_spec n m); [lia|]. lra.
Qed.
Lemma rsum_split f n m : rsum f (n + m) = rsum f n + rsum (fun j => f (n + j)%nat) m.
Proof. induction m as [|m IH]; [rewrite Nat.add_0_r; cbn; lra|]. rewrite Nat.add_succ_r. cbn [rsum]. rewrite IH. lra. Qed.

(** ** the list sum of the model against the textbook sum *)
Lemma wsum_from_rsum (f : Z -> R) (x : list R) i :
  wsum_from f i x = rsum (fun j => nth j x 0 * f (i + Z.of_nat j)%Z) (length x).
Proof.
  revert i; induction x as [|a r IH]; intros i; [reflexivity|].
  cbn [wsum_from length]. rewrite IH. numR.
  replace (S (length r)) with (1 + length r)%nat by reflexivity. rewrite rsum_split.
  cbn [rsum nth]. rewrite Z.add_0_r.
  rewrite (rsum_ext (fun j => nth (1 + j) (a :: r) 0 * f (i + Z.of_nat (1 + j))%Z)
                    (fun j => nth j r 0 * f (i + 1 + Z.of_nat j)%Z)).
  - lra.
  - intros j _. cbn [nth Nat.add]. do 2 f_equal. lia.
Qed.

Lemma nth_firstn_lt' {A} (l : list A) d : forall N j, (j < N)%nat -> nth j (firstn N l) d = nth j l d.
Proof. induction l as [|a r IH]; intros N j Hj; [now rewrite firstn_nil|]. destruct N; [lia|]. destruct j; [reflexivity|]. cbn. apply IH. lia. Qed.

Lemma nth_pad_trunc (N : nat) (x : list R) j : (j < N)%nat -> nth j (pad_trunc N x) 0 = nth j x 0.
Proof.
  intros Hj. unfold pad_trunc. numR.
  destruct (Nat.lt_ge_cases j (length x)) as [L|G].
  - rewrite app_nth1 by (rewrite firstn_length; lia). now apply nth_firstn_lt'.
  - rewrite (nth_overflow x) by lia.
    destruct (Nat.lt_ge_cases j (length (firstn N x))) as [L'|G'].
    + rewrite firstn_length in L'. lia.
    + rewrite app_nth2 by assumption. destruct (nth_in_or_default (j - length (firstn N x)) (repeat 0 (N - length x)) 0) as [Hin|E]; [|exact E].
      now apply repeat_spec in Hin.
Qed.
Lemma pad_trunc_length (N : nat) (x : list R) : length (pad_trunc N x) = N.
Proof. unfold pad_trunc. rewrite app_length, firstn_length, repeat_length. lia. Qed.

(** ** C06 definition: the model's bins are the textbook sums over the zero-extended record
    ([nth j x 0] is 0 beyond the record: zero padding; only j < N is used: truncation) *)
Lemma dft_re_rsum (N : nat) (x : list R) k :
  dft_re_R (Z.of_nat N) x k = rsum (fun j => nth j x 0 * cos (2 * PI * IZR (k * Z.of_nat j) / IZR (Z.of_nat N))) N.
Proof.
  unfold dft_re_R, dft_re. rewrite Nat2Z.id, wsum_from_rsum, pad_trunc_length.
  apply rsum_ext. intros j Hj. rewrite nth_pad_trunc by assumption. reflexivity.
Qed.
Lemma dft_im_rsum (N : nat) (x : list R) k :
  dft_im_R (Z.of_nat N) x k = - rsum (fun j => nth j x 0 * sin (2 * PI * IZR (k * Z.of_nat j) / IZR (Z.of_nat N))) N.
Proof.
  unfold dft_im_R, dft_im. rewrite Nat2Z.id, wsum_from_rsum, pad_trunc_length. numR. f_equal.
  apply rsum_ext. intros j Hj. rewrite nth_pad_trunc by assumption. reflexivity.
Qed.

(** ** lengths and grid *)
Lemma zrange_length n : length (zrange n) = n.
Proof. unfold zrange. now rewrite map_length, seq_length. Qed.
Lemma zrange_nth n k d : (k < n)%nat -> nth k (zrange n) d = Z.of_nat k.
Proof. intros Hk. unfold zrange. rewrite (nth_indep _ d (Z.of_nat 0)) by (now rewrite map_length, seq_length).
  rewrite map_nth, seq_nth by assumption. reflexivity. Qed.
Lemma fas_lengths N dt (x : list R) :
  length (fas_re_R N dt x) = points N /\ length (fas_im_R N dt x) = points N /\ length (fa_freqs N dt) = points N.
Proof. unfold fas_re_R, fas_im_R, fas_re, fas_im, fa_freqs. now rewrite !map_length, zrange_length. Qed.
Lemma map_zrange_nth {B} (f : Z -> B) n k d : (k < n)%nat -> nth k (map f (zrange n)) d = f (Z.of_nat k).
Proof. intros Hk. rewrite (nth_indep _ d (f 0%Z)) by (now rewrite map_length, zrange_length).
  rewrite map_nth, zrange_nth by assumption. reflexivity. Qed.
Lemma fa_freqs_nth N (dt : R) k : (k < points N)%nat -> nth k (fa_freqs N dt) 0 = IZR (Z.of_nat k) / (IZR N * dt).
Proof. intros Hk. unfold fa_freqs. rewrite map_zrange_nth by assumption. reflexivity. Qed.
Lemma fas_re_nth N dt (x : list R) k : (k < points N)%nat -> nth k (fas_re_R N dt x) 0 = dft_re_R N x (Z.of_nat k) * dt.
Proof. intros Hk. unfold fas_re_R, fas_re. rewrite map_zrange_nth by assumption. reflexivity. Qed.
Lemma fas_im_nth N dt (x : list R) k : (k < points N)%nat -> nth k (fas_im_R N dt x) 0 = dft_im_R N x (Z.of_nat k) * dt.
Proof. intros Hk. unfold fas_im_R, fas_im. rewrite map_zrange_nth by assumption. reflexivity. Qed.

(** ** transform length *)
Lemma pow2_len_spec npts : (1 <= npts)%Z ->
  (0 <= Z.log2_up npts)%Z /\ pow2_len npts 0 = (2 ^ Z.log2_up npts)%Z /\ (npts <= pow2_len npts 0)%Z /\
  (forall e, (0 <= e)%Z -> (npts <= 2 ^ e)%Z -> (pow2_len npts 0 <= 2 ^ e)%Z).
Proof.
  intros H1. unfold pow2_len. rewrite Z.add_0_r.
  split; [apply Z.log2_up_nonneg|]. split; [reflexivity|]. split.
  - destruct (Z.eq_dec npts 1) as [->|Hne]; [cbn; lia|]. apply Z.log2_up_spec. lia.
  - intros e He Hle. apply Z.pow_le_mono_r; [lia|]. apply Z.log2_up_le_pow2; lia.
Qed.
Lemma pow2_len_plus npts p : (0 <= p)%Z -> pow2_len npts p = (2 ^ p * pow2_len npts 0)%Z.
Proof. intros Hp. unfold pow2_len. rewrite Z.add_0_r, Z.pow_add_r by (try apply Z.log2_up_nonneg; lia). lia. Qed.
Lemma pow2_len_pos npts p : (0 <= p)%Z -> (0 < pow2_len npts p)%Z.
Proof. intros Hp. unfold pow2_len. apply Z.pow_pos_nonneg; [lia|]. pose proof (Z.log2_up_nonneg npts). lia. Qed.
(** strictly below N lies no power of two that is >= npts: N/2 < npts (for npts >= 2) *)
Lemma pow2_len_tight npts : (2 <= npts)%Z -> (pow2_len npts 0 < 2 * npts)%Z.
Proof.
  intros H2. unfold pow2_len. rewrite Z.add_0_r. pose proof (Z.log2_up_spec npts ltac:(lia)) as [Hlo _].
  assert (Hp : (0 < Z.log2_up npts)%Z) by (apply Z.log2_up_pos; lia).
  replace (Z.log2_up npts) with (Z.succ (Z.pred (Z.log2_up npts))) at 1 by lia.
  rewrite Z.pow_succ_r by lia. lia.
Qed.

(** ** linearity *)
Definition lin (a b : R) (x y : list R) : list R := map2 (fun u v => a * u + b * v) x y.
Lemma lin_nth a b x y j : length x = length y -> nth j (lin a b x y) 0 = a * nth j x 0 + b * nth j y 0.
Proof.
  intros E. unfold lin. destruct (Nat.lt_ge_cases j (length x)) as [L|G].
  - rewrite (map2_nth (fun u v => a * u + b * v) x y 0 0 0 j) by lia. reflexivity.
  - rewrite !nth_overflow; try lia; [lra|]. rewrite map2_length. lia.
Qed.
Lemma dft_linear (N : nat) a b (x y : list R) k : length x = length y ->
  dft_re_R (Z.of_nat N) (lin a b x y) k = a * dft_re_R (Z.of_nat N) x k + b * dft_re_R (Z.of_nat N) y k /\
  dft_im_R (Z.of_nat N) (lin a b x y) k = a * dft_im_R (Z.of_nat N) x k + b * dft_im_R (Z.of_nat N) y k.
Proof.
  intros E. rewrite !dft_re_rsum, !dft_im_rsum. rewrite <- !rsum_scal. split.
  - rewrite <- rsum_plus. apply rsum_ext. intros j _. rewrite lin_nth by assumption. ring.
  - rewrite <- !Ropp_mult_distr_r, <- Ropp_plus_distr. f_equal. rewrite <- !rsum_scal, <- rsum_plus.
    apply rsum_ext. intros j _. rewrite lin_nth by assumption. ring.
Qed.
Lemma Z_nat_cases (N : Z) : (N <= 0)%Z \/ exists n, N = Z.of_nat n.
Proof. destruct (Z_le_gt_dec N 0); [now left|right]. exists (Z.to_nat N). lia. Qed.
Lemma dft_nonpos N (x : list R) k : (N <= 0)%Z -> dft_re_R N x k = 0 /\ dft_im_R N x k = 0.
Proof.
  intros HN. unfold dft_re_R, dft_im_R, dft_re, dft_im. replace (Z.to_nat N) with 0%nat by lia.
  unfold pad_trunc. cbn. numR. split; lra.
Qed.
Lemma dft_linear_Z N a b (x y : list R) k : length x = length y ->
  dft_re_R N (lin a b x y) k = a * dft_re_R N x k + b * dft_re_R N y k /\
  dft_im_R N (lin a b x y) k = a * dft_im_R N x k + b * dft_im_R N y k.
Proof.
  intros E. destruct (Z_nat_cases N) as [HN|[n ->]]; [|now apply dft_linear].
  destruct (dft_nonpos N x k HN) as [-> ->], (dft_nonpos N y k HN) as [-> ->], (dft_nonpos N (lin a b x y) k HN) as [-> ->]. lra.
Qed.
Lemma lin_length a b x y : length x = length y -> length (lin a b x y) = length x.
Proof. intros E. unfold lin. rewrite map2_length. lia. Qed.
Lemma fas_linear N dt a b (x y : list R) : length x = length y ->
  fas_re_R N dt (lin a b x y) = lin a b (fas_re_R N dt x) (fas_re_R N dt y) /\
  fas_im_R N dt (lin a b x y) = lin a b (fas_im_R N dt x) (fas_im_R N dt y).
Proof.
  intros E. unfold fas_re_R, fas_im_R, fas_re, fas_im, lin.
  assert (M2 : forall (f g h : Z -> R) l, (forall k, h k = a * f k + b * g k) ->
            map h l = map2 (fun u v => a * u + b * v) (map f l) (map g l)).
  { intros f g h l Hh. induction l as [|z l IH]; [reflexivity|]. cbn. now rewrite Hh, IH. }
  split; apply M2; intros k; numR.
  - destruct (dft_linear_Z N a b x y k E) as [H1 _]. unfold dft_re_R, lin in H1. rewrite H1. ring.
  - destruct (dft_linear_Z N a b x y k E) as [_ H2]. unfold dft_im_R, lin in H2. rewrite H2. ring.
Qed.

(** ** trailing zeros *)
Lemma nth_app_zeros (x : list R) m j : nth j (x ++ repeat 0 m) 0 = nth j x 0.
Proof.
  destruct (Nat.lt_ge_cases j (length x)) as [L|G]; [now apply app_nth1|].
  rewrite app_nth2 by assumption. rewrite (nth_overflow x) by assumption.
  destruct (nth_in_or_default (j - length x) (repeat 0 m) 0) as [Hin|E]; [|exact E]. now apply repeat_spec in Hin.
Qed.
Lemma dft_trailing_zeros N (x : list R) m k :
  dft_re_R N (x ++ repeat 0 m) k = dft_re_R N x k /\ dft_im_R N (x ++ repeat 0 m) k = dft_im_R N x k.
Proof.
  destruct (Z_nat_cases N) as [HN|[n ->]].
  - destruct (dft_nonpos N x k HN) as [-> ->], (dft_nonpos N (x ++ repeat 0 m) k HN) as [-> ->]. split; reflexivity.
  - rewrite !dft_re_rsum, !dft_im_rsum. split; [|f_equal]; apply rsum_ext; intros j _; now rewrite nth_app_zeros.
Qed.
Lemma fas_trailing_zeros N dt (x : list R) m :
  fas_re_R N dt (x ++ repeat 0 m) = fas_re_R N dt x /\ fas_im_R N dt (x ++ repeat 0 m) = fas_im_R N dt x.
Proof.
  unfold fas_re_R, fas_im_R, fas_re, fas_im. split; apply map_ext; intros k.
  - destruct (dft_trailing_zeros N x m k) as [H1 _]. unfold dft_re_R in H1. now rewrite H1.
  - destruct (dft_trailing_zeros N x m k) as [_ H2]. unfold dft_im_R in H2. now rewrite H2.
Qed.

(** ** trigonometry: whole turns, and the orthogonality of the N-th roots of unity *)
Lemma cos_sin_2PI_nat (n : nat) : cos (2 * PI * INR n) = 1 /\ sin (2 * PI * INR n) = 0.
Proof.
  replace (2 * PI * INR n) with (0 + 2 * INR n * PI) by ring. rewrite cos_period, sin_period. now rewrite cos_0, sin_0.
Qed.
Lemma cos_sin_2PI_Z (d : Z) : cos (2 * PI * IZR d) = 1 /\ sin (2 * PI * IZR d) = 0.
Proof.
  destruct (Z_le_gt_dec 0 d) as [H|H].
  - rewrite <- (Z2Nat.id d H), <- INR_IZR_INZ. apply cos_sin_2PI_nat.
  - replace (2 * PI * IZR d) with (- (2 * PI * IZR (- d))) by (rewrite opp_IZR; ring).
    rewrite cos_neg, sin_neg. rewrite <- (Z2Nat.id (- d)) by lia. rewrite <- INR_IZR_INZ.
    destruct (cos_sin_2PI_nat (Z.to_nat (- d))) as [-> ->]. split; lra.
Qed.
Lemma cos_shift_turns x (d : Z) : cos (x + 2 * PI * IZR d) = cos x.
Proof. rewrite cos_plus. destruct (cos_sin_2PI_Z d) as [-> ->]. ring. Qed.
Lemma sin_shift_turns x (d : Z) : sin (x + 2 * PI * IZR d) = sin x.
Proof. rewrite sin_plus. destruct (cos_sin_2PI_Z d) as [-> ->]. ring. Qed.

Lemma geom_cos_sin th n :
  2 * sin (th / 2) * rsum (fun k => cos (INR k * th)) n = sin (INR n * th - th / 2) + sin (th / 2) /\
  2 * sin (th / 2) * rsum (fun k => sin (INR k * th)) n = cos (th / 2) - cos (INR n * th - th / 2).
Proof.
  induction n as [|n [IHc IHs]].
  - cbn [rsum INR]. rewrite !Rmult_0_l, Rmult_0_r. replace (0 - th / 2) with (- (th / 2)) by ring.
    rewrite sin_neg, cos_neg. split; ring.
  - cbn [rsum]. rewrite !Rmult_plus_distr_l, IHc, IHs. rewrite S_INR.
    replace ((INR n + 1) * th - th / 2) with (INR n * th + th / 2) by field.
    rewrite sin_minus, sin_plus, cos_minus, cos_plus. split; ring.
Qed.

Lemma sin_half_turn_ne0 (N : nat) (d : Z) : (0 < N)%nat -> ~ (Z.of_nat N | d)%Z -> sin (2 * PI * IZR d / INR N / 2) <> 0.
Proof.
  intros HN Hnd Hs. apply sin_eq_0_0 in Hs as [k Hk]. apply Hnd. exists k.
  assert (HNr : INR N <> 0) by (apply not_0_INR; lia).
  assert (E : IZR d = IZR k * INR N).
  { pose proof PI_RGT_0 as Hpi. apply (Rmult_eq_reg_l PI); [|lra].
    transitivity (2 * PI * IZR d / INR N / 2 * INR N); [field; assumption|]. rewrite Hk. ring. }
  rewrite INR_IZR_INZ, <- mult_IZR in E. now apply eq_IZR in E.
Qed.

(** sum_{k<N} cos(2 pi k d / N) = N if N | d, else 0;  sum_{k<N} sin(2 pi k d / N) = 0 *)
Lemma orthogonality (N : nat) (d : Z) : (0 < N)%nat ->
  rsum (fun k => cos (2 * PI * IZR (Z.of_nat k * d) / IZR (Z.of_nat N))) N = (if Z.eqb (d mod Z.of_nat N) 0 then INR N else 0) /\
  rsum (fun k => sin (2 * PI * IZR (Z.of_nat k * d) / IZR (Z.of_nat N))) N = 0.
Proof.
  intros HN. assert (HNr : INR N <> 0) by (apply not_0_INR; lia).
  set (th := 2 * PI * IZR d / INR N).
  assert (Eang : forall k : nat, 2 * PI * IZR (Z.of_nat k * d) / IZR (Z.of_nat N) = INR k * th).
  { intros k. unfold th. rewrite mult_IZR, <- !INR_IZR_INZ. field. assumption. }
  rewrite (rsum_ext _ (fun k => cos (INR k * th))) by (intros; now rewrite Eang).
  rewrite (rsum_ext (fun k => sin _) (fun k => sin (INR k * th))) by (intros; now rewrite Eang).
  destruct (Z.eqb_spec (d mod Z.of_nat N) 0) as [Hdiv|Hndiv].
  - apply Z.mod_divide in Hdiv; [|lia]. destruct Hdiv as [q ->].
    assert (Eth : forall k : nat, INR k * th = 0 + 2 * PI * IZR (Z.of_nat k * q)).
    { intros k. unfold th. rewrite !mult_IZR, <- !INR_IZR_INZ. field. assumption. }
    rewrite (rsum_ext _ (fun _ => 1)) by (intros; now rewrite Eth, cos_shift_turns, cos_0).
    rewrite (rsum_ext (fun k => sin _) (fun _ => 0)) by (intros; now rewrite Eth, sin_shift_turns, sin_0).
    rewrite rsum_const, rsum_0. split; ring.
  - assert (Hnd : ~ (Z.of_nat N | d)%Z) by (intros Hd; apply Hndiv; apply Z.mod_divide; [lia|assumption]).
    pose proof (sin_half_turn_ne0 N d HN Hnd) as Hs. fold th in Hs.
    destruct (geom_cos_sin th N) as [Hc Hsn].
    assert (EN : INR N * th - th / 2 = - (th / 2) + 2 * PI * IZR d) by (unfold th; field; assumption).
    rewrite EN, sin_shift_turns, cos_shift_turns, sin_neg, cos_neg in *.
    split; apply (Rmult_eq_reg_l (2 * sin (th / 2))); try lra.
Qed.

(** ** inversion and Parseval for the full N-point transform of the model *)
Definition cs (N k j : nat) : R := cos (2 * PI * IZR (Z.of_nat k * Z.of_nat j) / IZR (Z.of_nat N)).
Definition sn (N k j : nat) : R := sin (2 * PI * IZR (Z.of_nat k * Z.of_nat j) / IZR (Z.of_nat N)).
Lemma cs_sym N k j : cs N k j = cs N j k. Proof. unfold cs. now rewrite Z.mul_comm. Qed.
Lemma sn_sym N k j : sn N k j = sn N j k. Proof. unfold sn. now rewrite Z.mul_comm. Qed.
Lemma Xre_cs (N : nat) x k : dft_re_R (Z.of_nat N) x (Z.of_nat k) = rsum (fun j => nth j x 0 * cs N k j) N.
Proof. apply dft_re_rsum. Qed.
Lemma Xim_sn (N : nat) x k : dft_im_R (Z.of_nat N) x (Z.of_nat k) = - rsum (fun j => nth j x 0 * sn N k j) N.
Proof. apply dft_im_rsum. Qed.

Lemma cs_sn_diff (N : nat) k j m : (0 < N)%nat ->
  cs N k j * cs N k m + sn N k j * sn N k m = cos (2 * PI * IZR (Z.of_nat k * (Z.of_nat j - Z.of_nat m)) / IZR (Z.of_nat N)).
Proof.
  intros HN. unfold cs, sn. rewrite <- cos_minus. f_equal.
  rewrite !mult_IZR, minus_IZR. field. apply not_0_IZR. lia.
Qed.
Lemma mod_small_diff (N j m : nat) : (j < N)%nat -> (m < N)%nat ->
  Z.eqb ((Z.of_nat j - Z.of_nat m) mod Z.of_nat N) 0 = Nat.eqb j m.
Proof.
  intros Hj Hm. destruct (Nat.eqb_spec j m) as [->|Hne].
  - rewrite Z.sub_diag, Z.mod_0_l by lia. reflexivity.
  - apply Z.eqb_neq. intros H0. apply Z.mod_divide in H0; [|lia]. destruct H0 as [q Hq].
    assert (Hc : (q <= -1 \/ q = 0 \/ 1 <= q)%Z) by lia. destruct Hc as [Hc|[Hc|Hc]].
    + assert (q * Z.of_nat N <= -1 * Z.of_nat N)%Z by (apply Z.mul_le_mono_nonneg_r; lia). lia.
    + subst q. lia.
    + assert (1 * Z.of_nat N <= q * Z.of_nat N)%Z by (apply Z.mul_le_mono_nonneg_r; lia). lia.
Qed.

Lemma dft_inversion (N : nat) (x : list R) m : (m < N)%nat ->
  rsum (fun k => dft_re_R (Z.of_nat N) x (Z.of_nat k) * cs N k m - dft_im_R (Z.of_nat N) x (Z.of_nat k) * sn N k m) N
  = INR N * nth m x 0.
Proof.
  intros Hm. assert (HN : (0 < N)%nat) by lia.
  rewrite (rsum_ext _ (fun k => rsum (fun j => nth j x 0 * cos (2 * PI * IZR (Z.of_nat k * (Z.of_nat j - Z.of_nat m)) / IZR (Z.of_nat N))) N)).
  2:{ intros k _. rewrite Xre_cs, Xim_sn.
      replace (rsum (fun j => nth j x 0 * cs N k j) N * cs N k m - - rsum (fun j => nth j x 0 * sn N k j) N * sn N k m)
        with (cs N k m * rsum (fun j => nth j x 0 * cs N k j) N + sn N k m * rsum (fun j => nth j x 0 * sn N k j) N) by ring.
      rewrite <- !rsum_scal, <- rsum_plus. apply rsum_ext. intros j _.
      rewrite <- cs_sn_diff by assumption. ring. }
  rewrite rsum_swap.
  rewrite (rsum_ext _ (fun j => nth j x 0 * (if Nat.eqb j m then INR N else 0))).
  - rewrite rsum_delta by assumption. ring.
  - intros j Hj. rewrite rsum_scal. f_equal.
    destruct (orthogonality N (Z.of_nat j - Z.of_nat m) HN) as [Hc _]. rewrite Hc. now rewrite mod_small_diff.
Qed.

Lemma dft_parseval (N : nat) (x : list R) :
  rsum (fun k => dft_re_R (Z.of_nat N) x (Z.of_nat k) * dft_re_R (Z.of_nat N) x (Z.of_nat k)
               + dft_im_R (Z.of_nat N) x (Z.of_nat k) * dft_im_R (Z.of_nat N) x (Z.of_nat k)) N
  = INR N * rsum (fun j => nth j x 0 * nth j x 0) N.
Proof.
  set (Xr := fun k => dft_re_R (Z.of_nat N) x (Z.of_nat k)). set (Xi := fun k => dft_im_R (Z.of_nat N) x (Z.of_nat k)).
  rewrite (rsum_ext _ (fun k => rsum (fun m => nth m x 0 * (Xr k * cs N k m - Xi k * sn N k m)) N)).
  2:{ intros k _. rewrite (rsum_ext _ (fun m => Xr k * (nth m x 0 * cs N k m) + (- Xi k) * (nth m x 0 * sn N k m))) by (intros; ring).
      rewrite rsum_plus, !rsum_scal. rewrite <- (Xre_cs N x k). fold (Xr k).
      replace (rsum (fun j => nth j x 0 * sn N k j) N) with (- Xi k) by (unfold Xi; rewrite Xim_sn; ring).
      fold (Xi k). ring. }
  rewrite rsum_swap. rewrite <- rsum_scal. apply rsum_ext. intros m Hm.
  rewrite rsum_scal. unfold Xr, Xi. rewrite dft_inversion by assumption. ring.
Qed.

(** ** Hermitian symmetry of the transform of a real record *)
Lemma dft_hermitian (N : nat) (x : list R) (k : Z) : (0 < N)%nat ->
  dft_re_R (Z.of_nat N) x (Z.of_nat N - k) = dft_re_R (Z.of_nat N) x k /\
  dft_im_R (Z.of_nat N) x (Z.of_nat N - k) = - dft_im_R (Z.of_nat N) x k.
Proof.
  intros HN. rewrite !dft_re_rsum, !dft_im_rsum. rewrite Ropp_involutive.
  assert (HNr : IZR (Z.of_nat N) <> 0) by (apply not_0_IZR; lia).
  assert (E : forall j : nat, 2 * PI * IZR ((Z.of_nat N - k) * Z.of_nat j) / IZR (Z.of_nat N)
                              = - (2 * PI * IZR (k * Z.of_nat j) / IZR (Z.of_nat N)) + 2 * PI * IZR (Z.of_nat j)).
  { intros j. rewrite !mult_IZR, minus_IZR. field. assumption. }
  split.
  - apply rsum_ext; intros j _; rewrite E. now rewrite cos_shift_turns, cos_neg.
  - match goal with |- - rsum ?A N = rsum ?B N =>
      transitivity (rsum (fun j => -1 * A j) N); [rewrite rsum_scal; ring|] end.
    apply rsum_ext; intros j _; cbv beta; rewrite E, sin_shift_turns, sin_neg. ring.
Qed.

(** ** argmax: first index of a maximal element *)
Lemma argmax_from_spec (l : list R) : forall best bi i (pre : list R),
  length pre = i -> (bi < i)%nat -> nth bi pre 0 = best ->
  (forall j, (j < i)%nat -> nth j pre 0 <= best) -> (forall j, (j < bi)%nat -> nth j pre 0 < best) ->
  let k := argmax_from best bi i l in
  (k < i + length l)%nat /\ (forall j, (j < i + length l)%nat -> nth j (pre ++ l) 0 <= nth k (pre ++ l) 0) /\
  (forall j, (j < k)%nat -> nth j (pre ++ l) 0 < nth k (pre ++ l) 0).
Proof.
  induction l as [|a r IH]; intros best bi i pre Hlen Hbi Hbest Hle Hlt; cbn [argmax_from length].
  - rewrite app_nil_r, Nat.add_0_r. subst best. repeat split; auto.
  - numR. case_Rltb best a.
    + specialize (IH a i (S i) (pre ++ [a])). rewrite <- app_assoc in IH. cbn [app] in IH.
      replace (i + S (length r))%nat with (S i + length r)%nat by lia. apply IH.
      * rewrite app_length. cbn. lia.
      * lia.
      * rewrite app_nth2 by lia. now rewrite Hlen, Nat.sub_diag.
      * intros j Hj. destruct (Nat.eq_dec j i) as [->|Hne].
        -- rewrite app_nth2 by lia. rewrite Hlen, Nat.sub_diag. cbn. lra.
        -- rewrite app_nth1 by lia. specialize (Hle j ltac:(lia)). lra.
      * intros j Hj. rewrite app_nth1 by lia. specialize (Hle j ltac:(lia)). lra.
    + specialize (IH best bi (S i) (pre ++ [a])). rewrite <- app_assoc in IH. cbn [app] in IH.
      replace (i + S (length r))%nat with (S i + length r)%nat by lia. apply IH.
      * rewrite app_length. cbn. lia.
      * lia.
      * rewrite app_nth1 by lia. assumption.
      * intros j Hj. destruct (Nat.eq_dec j i) as [->|Hne].
        -- rewrite app_nth2 by lia. rewrite Hlen, Nat.sub_diag. cbn. lra.
        -- rewrite app_nth1 by lia. apply Hle. lia.
      * intros j Hj. rewrite app_nth1 by lia. now apply Hlt.
Qed.
Lemma argmax_spec (l : list R) : l <> [] ->
  (argmax l < length l)%nat /\ (forall j, (j < length l)%nat -> nth j l 0 <= nth (argmax l) l 0) /\
  (forall j, (j < argmax l)%nat -> nth j l 0 < nth (argmax l) l 0).
Proof.
  destruct l as [|a r]; [congruence|]. intros _. unfold argmax.
  pose proof (argmax_from_spec r a 0%nat 1%nat [a] eq_refl ltac:(lia) eq_refl) as H. cbn [app length Nat.add] in H.
  apply H.
  - intros j Hj. replace j with 0%nat by lia. cbn. lra.
  - intros j Hj. lia.
Qed.

(** ** the rational twiddle table is the real cos / sin wherever [tw_ok] holds *)
Lemma quarter_turns (m : Z) :
  cos (IZR m * (PI / 2)) = (match (m mod 4)%Z with 0%Z => 1 | 2%Z => -1 | _ => 0 end) /\
  sin (IZR m * (PI / 2)) = (match (m mod 4)%Z with 1%Z => 1 | 3%Z => -1 | _ => 0 end).
Proof.
  pose proof (Z.div_mod m 4 ltac:(lia)) as E. pose proof (Z.mod_pos_bound m 4 ltac:(lia)) as B.
  set (r := (m mod 4)%Z) in *. set (a := (m / 4)%Z) in *.
  assert (Ea : IZR m * (PI / 2) = IZR r * (PI / 2) + 2 * PI * IZR a).
  { rewrite E, plus_IZR, mult_IZR. field. }
  rewrite Ea, cos_shift_turns, sin_shift_turns.
  assert (Hr : r = 0%Z \/ r = 1%Z \/ r = 2%Z \/ r = 3%Z) by lia.
  destruct Hr as [-> | [-> | [-> | ->]]].
  - rewrite Rmult_0_l, cos_0, sin_0. split; reflexivity.
  - rewrite Rmult_1_l, cos_PI2, sin_PI2. split; reflexivity.
  - replace (2 * (PI / 2)) with PI by field. rewrite cos_PI, sin_PI. split; reflexivity.
  - rewrite cos_3PI2, sin_3PI2. split; reflexivity.
Qed.
Lemma twiddle_table (N j : Z) : tw_ok N j = true -> Q2R (Qtwc N j) = Rtwc N j /\ Q2R (Qtws N j) = Rtws N j.
Proof.
  unfold tw_ok. intros H. apply andb_true_iff in H as [HN Hm]. apply Z.ltb_lt in HN. apply Z.eqb_eq in Hm.
  pose proof (Z.div_mod (4 * j) N ltac:(lia)) as E. rewrite Hm, Z.add_0_r in E.
  assert (HNr : IZR N <> 0) by (apply not_0_IZR; lia).
  assert (Ea : 2 * PI * IZR j / IZR N = IZR (4 * j / N) * (PI / 2)).
  { apply (f_equal IZR) in E. rewrite !mult_IZR in E.
    replace (2 * PI * IZR j / IZR N) with ((4 * IZR j) * (PI / 2) / IZR N) by (field; assumption).
    rewrite E. field. assumption. }
  unfold Rtwc, Rtws, Qtwc, Qtws. rewrite Ea. destruct (quarter_turns (4 * j / N)) as [-> ->].
  destruct ((4 * j / N) mod 4)%Z as [|[p|p|]|q]; split; try (unfold Q2R; cbn; lra).
  all: destruct p as [p|p|]; try destruct p; unfold Q2R; cbn; lra.
Qed.
Lemma tw_ok_mul (N k n : Z) : tw_ok N k = true -> tw_ok N (k * n) = true.
Proof.
  unfold tw_ok. intros H. apply andb_true_iff in H as [HN Hm]. apply andb_true_iff. split; [assumption|].
  apply Z.eqb_eq in Hm. apply Z.eqb_eq. apply Z.ltb_lt in HN.
  replace (4 * (k * n))%Z with ((4 * k) * n)%Z by ring.
  rewrite Z.mul_mod by lia. rewrite Hm. rewrite Z.mul_0_l. apply Z.mod_0_l. lia.
Qed.

(** the Q run is an evaluation of the R model: transfer of the sums *)
Lemma wsum_from_transfer (fq : Z -> Q) (fr : Z -> R) (xq : list Q) (xr : list R) i :
  (forall n, rel (fq n) (fr n)) -> Forall2 rel xq xr -> rel (wsum_from fq i xq) (wsum_from fr i xr).
Proof.
  intros Hf Hx. revert i. induction Hx as [|a b rq rr Hab Hr IH]; intros i; cbn [wsum_from]; auto with rel.
Qed.
Lemma Forall2_len {A B} (P : A -> B -> Prop) l l' : Forall2 P l l' -> length l = length l'.
Proof. induction 1; cbn; congruence. Qed.
Lemma pad_trunc_transfer (N : nat) (xq : list Q) (xr : list R) :
  Forall2 rel xq xr -> Forall2 rel (pad_trunc N xq) (pad_trunc N xr).
Proof.
  intros Hx. unfold pad_trunc. rewrite (Forall2_len _ _ _ Hx). apply Forall2_app.
  - revert N. induction Hx; intros [|N]; cbn; constructor; auto.
  - induction (N - length xr)%nat; cbn; constructor; auto with rel.
Qed.
Lemma dft_transfer (N k : Z) (xq : list Q) (xr : list R) : tw_ok N k = true -> Forall2 rel xq xr ->
  rel (dft_re Qtwc N xq k) (dft_re_R N xr k) /\ rel (dft_im Qtws N xq k) (dft_im_R N xr k).
Proof.
  intros Hk Hx. unfold dft_re_R, dft_im_R, dft_re, dft_im. split; [|apply rel_opp];
  (apply wsum_from_transfer; [|now apply pad_trunc_transfer]); intros n; unfold rel;
  apply (twiddle_table N (k * n)); now apply tw_ok_mul.
Qed.

(** ** dominant period *)
Lemma amp2_length (re im : list R) : length im = length re -> length (amp2 re im) = length re.
Proof. intros E. unfold amp2. rewrite map2_length. lia. Qed.
Lemma amp2_nth (re im : list R) j : length im = length re -> nth j (amp2 re im) 0 = nth j re 0 * nth j re 0 + nth j im 0 * nth j im 0.
Proof.
  intros E. unfold amp2. destruct (Nat.lt_ge_cases j (length re)) as [L|G].
  - rewrite (map2_nth (fun a b : R => nadd (nmul a a) (nmul b b)) re im 0 0 0 j) by lia. reflexivity.
  - rewrite !nth_overflow; try lia; [lra|]. rewrite map2_length. lia.
Qed.
Lemma max_fa_period_spec (re im fr : list R) : re <> [] -> length im = length re ->
  let P := fun j => nth j re 0 * nth j re 0 + nth j im 0 * nth j im 0 in
  let k := max_fa_bin re im in
  (k < length re)%nat /\ (forall j, (j < length re)%nat -> P j <= P k) /\ (forall j, (j < k)%nat -> P j < P k) /\
  max_fa_period re im fr = (if Req_EM_T (nth k fr 0) 0 then None else Some (1 / nth k fr 0)).
Proof.
  intros Hne E P k.
  assert (Ha : amp2 re im <> []) by (intros H0; apply (f_equal (@length R)) in H0; rewrite amp2_length in H0 by assumption; destruct re; cbn in *; congruence).
  destruct (argmax_spec (amp2 re im) Ha) as (H1 & H2 & H3). rewrite amp2_length in H1, H2 by assumption.
  fold (max_fa_bin re im) in H1, H2, H3. fold k in H1, H2, H3.
  split; [assumption|]. split; [|split].
  - intros j Hj. specialize (H2 j Hj). rewrite !amp2_nth in H2 by assumption. exact H2.
  - intros j Hj. specialize (H3 j Hj). rewrite !amp2_nth in H3 by assumption. exact H3.
  - unfold max_fa_period. fold k. numR. unfold Reqb. destruct (Req_EM_T (nth k fr 0) 0); reflexivity.
Qed.
Lemma points_pos npts : (2 <= npts)%Z -> (0 < points (pow2_len npts 0))%nat.
Proof.
  intros H2. destruct (pow2_len_spec npts ltac:(lia)) as (_ & _ & Hge & _). unfold points.
  assert (1 <= pow2_len npts 0 / 2)%Z by (apply Z.div_le_lower_bound; lia). lia.
Qed.
Lemma max_fa_period_record dt (x : list R) : 0 < dt -> (2 <= length x)%nat ->
  let N := pow2_len (Z.of_nat (length x)) 0 in
  let P := fun j => (dft_re_R N x (Z.of_nat j) * dt) * (dft_re_R N x (Z.of_nat j) * dt) + (dft_im_R N x (Z.of_nat j) * dt) * (dft_im_R N x (Z.of_nat j) * dt) in
  exists k, (k < points N)%nat /\ (forall j, (j < points N)%nat -> P j <= P k) /\ (forall j, (j < k)%nat -> P j < P k) /\
    max_fa_period_R dt x = (if Nat.eqb k 0 then None else Some (IZR N * dt / INR k)).
Proof.
  intros Hdt Hlen N P. unfold max_fa_period_R. fold N.
  pose proof (points_pos (Z.of_nat (length x)) ltac:(lia)) as Hp. fold N in Hp.
  destruct (fas_lengths N dt x) as (Lr & Li & Lf).
  assert (Hne : fas_re_R N dt x <> []) by (intros H0; rewrite H0 in Lr; cbn in Lr; lia).
  destruct (max_fa_period_spec (fas_re_R N dt x) (fas_im_R N dt x) (fa_freqs N dt) Hne ltac:(congruence)) as (H1 & H2 & H3 & H4).
  set (k := max_fa_bin (fas_re_R N dt x) (fas_im_R N dt x)) in *. rewrite Lr in H1, H2.
  exists k. split; [assumption|].
  assert (HP : forall j, (j < points N)%nat ->
     nth j (fas_re_R N dt x) 0 * nth j (fas_re_R N dt x) 0 + nth j (fas_im_R N dt x) 0 * nth j (fas_im_R N dt x) 0 = P j).
  { intros j Hj. rewrite fas_re_nth, fas_im_nth by assumption. reflexivity. }
  split; [|split].
  - intros j Hj. rewrite <- !HP by assumption. now apply H2.
  - intros j Hj. rewrite <- !HP by lia. now apply H3.
  - rewrite H4, fa_freqs_nth by assumption. clear H4.
    assert (HNpos : 0 < IZR N) by (apply IZR_lt; apply pow2_len_pos; lia).
    destruct (Nat.eqb_spec k 0) as [->|Hk].
    + destruct (Req_EM_T _ _) as [_|Hn]; [reflexivity|]. exfalso. apply Hn. cbn. unfold Rdiv. ring.
    + assert (0 < INR k) by (apply lt_0_INR; lia). rewrite <- INR_IZR_INZ.
      destruct (Req_EM_T _ _) as [E0|_].
      * exfalso. apply Rmult_integral in E0 as [E0|E0]; [lra|].
        assert (0 < / (IZR N * dt)) by (apply Rinv_0_lt_compat; nra). lra.
      * f_equal. field. repeat split; lra.
Qed.

(** ** one-sided Parseval (even N = 2M): bins M+1..2M-1 mirror bins 1..M-1 *)
Lemma rsum_rev (g : nat -> R) n : rsum (fun i => g (n - 1 - i)%nat) n = rsum g n.
Proof.
  induction n as [|n IH]; [reflexivity|].
  transitivity (rsum (fun i => g (S n - 1 - i)%nat) (1 + n)); [reflexivity|]. rewrite rsum_split. cbn [rsum].
  rewrite (rsum_ext (fun j => g (S n - 1 - (1 + j))%nat) (fun i => g (n - 1 - i)%nat)) by (intros; f_equal; lia).
  rewrite IH. replace (S n - 1 - 0)%nat with n by lia. lra.
Qed.
Lemma rsum_one_sided (P : nat -> R) (M : nat) : (1 <= M)%nat -> (forall k, (k <= 2 * M)%nat -> P (2 * M - k)%nat = P k) ->
  rsum P (2 * M) = P 0%nat + 2 * rsum (fun i => P (S i)) (M - 1) + P M.
Proof.
  intros HM Hsym.
  replace (2 * M)%nat with (S M + (M - 1))%nat at 1 by lia. rewrite rsum_split. cbn [rsum].
  replace M with (1 + (M - 1))%nat at 1 by lia. rewrite rsum_split. cbn [rsum].
  rewrite (rsum_ext (fun j => P (S M + j)%nat) (fun i => (fun i' => P (S i')) (M - 1 - 1 - i)%nat)).
  - rewrite (rsum_rev (fun i' => P (S i'))). cbn [Nat.add]. lra.
  - intros j Hj. cbv beta. rewrite <- (Hsym (S M + j)%nat) by lia. f_equal. lia.
Qed.
Lemma cos_sin_nPI (n : nat) : cos (INR n * PI) = (-1) ^ n /\ sin (INR n * PI) = 0.
Proof.
  induction n as [|n [IHc IHs]].
  - cbn. rewrite Rmult_0_l, cos_0, sin_0. split; reflexivity.
  - rewrite S_INR. replace ((INR n + 1) * PI) with (INR n * PI + PI) by ring.
    rewrite neg_cos, neg_sin, IHc, IHs. cbn [pow]. split; ring.
Qed.
(** the bins 0 and N/2 of the N = 2M point transform *)
Lemma dft_bin0 (N : nat) (x : list R) : (0 < N)%nat ->
  dft_re_R (Z.of_nat N) x 0 = rsum (fun j => nth j x 0) N /\ dft_im_R (Z.of_nat N) x 0 = 0.
Proof.
  intros HN. rewrite dft_re_rsum, dft_im_rsum. split.
  - apply rsum_ext. intros j _. rewrite Z.mul_0_l. replace (2 * PI * 0 / IZR (Z.of_nat N)) with 0 by (unfold Rdiv; ring). rewrite cos_0. ring.
  - rewrite (rsum_ext _ (fun _ => 0)); [rewrite rsum_0; ring|].
    intros j _. rewrite Z.mul_0_l. replace (2 * PI * 0 / IZR (Z.of_nat N)) with 0 by (unfold Rdiv; ring). rewrite sin_0. ring.
Qed.
Lemma half_turn_angle (M k : nat) : (0 < M)%nat ->
  2 * PI * IZR (Z.of_nat M * Z.of_nat k) / IZR (Z.of_nat (2 * M)) = INR k * PI.
Proof.
  intros HM. rewrite Nat2Z.inj_mul, !mult_IZR, <- !INR_IZR_INZ. change (INR 2) with (1 + 1). field.
  apply not_0_INR. lia.
Qed.
Lemma dft_nyquist (M : nat) (x : list R) : (0 < M)%nat ->
  dft_re_R (Z.of_nat (2 * M)) x (Z.of_nat M) = rsum (fun j => nth j x 0 * (-1) ^ j) (2 * M) /\
  dft_im_R (Z.of_nat (2 * M)) x (Z.of_nat M) = 0.
Proof.
  intros HM. rewrite dft_re_rsum, dft_im_rsum. split.
  - apply rsum_ext. intros j _. rewrite half_turn_angle by assumption. now destruct (cos_sin_nPI j) as [-> _].
  - rewrite (rsum_ext _ (fun _ => 0)); [rewrite rsum_0; ring|].
    intros j _. rewrite half_turn_angle by assumption. destruct (cos_sin_nPI j) as [_ ->]. ring.
Qed.
Lemma parseval_one_sided (M : nat) (x : list R) : (1 <= M)%nat ->
  let N := (2 * M)%nat in
  let P := fun k => dft_re_R (Z.of_nat N) x (Z.of_nat k) * dft_re_R (Z.of_nat N) x (Z.of_nat k)
                  + dft_im_R (Z.of_nat N) x (Z.of_nat k) * dft_im_R (Z.of_nat N) x (Z.of_nat k) in
  INR N * rsum (fun j => nth j x 0 * nth j x 0) N
  = P 0%nat + 2 * rsum (fun i => P (S i)) (M - 1) + rsum (fun j => nth j x 0 * (-1) ^ j) N * rsum (fun j => nth j x 0 * (-1) ^ j) N.
Proof.
  intros HM N P. subst N. rewrite <- dft_parseval. fold P. rewrite (rsum_one_sided P M HM).
  - f_equal. unfold P. destruct (dft_nyquist M x ltac:(lia)) as [-> ->]. ring.
  - intros k Hk. unfold P. destruct (dft_hermitian (2 * M) x (Z.of_nat k) ltac:(lia)) as [Hr Hi].
    rewrite Nat2Z.inj_sub by assumption. rewrite Hr, Hi. ring.
Qed.

(** ** the inverse helper: fas2values (fas x) = padded x - mean - Nyquist component (even N = 2M) *)
Lemma dft_inversion_im (N : nat) (x : list R) m : (0 < N)%nat ->
  rsum (fun k => dft_re_R (Z.of_nat N) x (Z.of_nat k) * sn N k m + dft_im_R (Z.of_nat N) x (Z.of_nat k) * cs N k m) N = 0.
Proof.
  intros HN.
  rewrite (rsum_ext _ (fun k => rsum (fun j => nth j x 0 * sin (2 * PI * IZR (Z.of_nat k * (Z.of_nat m - Z.of_nat j)) / IZR (Z.of_nat N))) N)).
  2:{ intros k _. rewrite Xre_cs, Xim_sn.
      replace (rsum (fun j => nth j x 0 * cs N k j) N * sn N k m + - rsum (fun j => nth j x 0 * sn N k j) N * cs N k m)
        with (sn N k m * rsum (fun j => nth j x 0 * cs N k j) N + (- cs N k m) * rsum (fun j => nth j x 0 * sn N k j) N) by ring.
      rewrite <- !rsum_scal, <- rsum_plus. apply rsum_ext. intros j _.
      replace (2 * PI * IZR (Z.of_nat k * (Z.of_nat m - Z.of_nat j)) / IZR (Z.of_nat N))
        with (2 * PI * IZR (Z.of_nat k * Z.of_nat m) / IZR (Z.of_nat N) - 2 * PI * IZR (Z.of_nat k * Z.of_nat j) / IZR (Z.of_nat N)).
      - rewrite sin_minus. unfold cs, sn. ring.
      - rewrite !mult_IZR, minus_IZR. field. apply not_0_IZR. lia. }
  rewrite rsum_swap. rewrite (rsum_ext _ (fun _ => 0)); [apply rsum_0|].
  intros j _. rewrite rsum_scal. destruct (orthogonality N (Z.of_nat m - Z.of_nat j) HN) as [_ ->]. ring.
Qed.

(** shape of the Hermitian completion  a0 :: tl l ++ a1 :: rev (tl l') *)
Lemma herm_nth (l l' : list R) (a0 a1 : R) (M k : nat) : length l = M -> length l' = M -> (1 <= M)%nat -> (k < 2 * M)%nat ->
  nth k (a0 :: tl l ++ a1 :: rev (tl l')) 0 =
  if Nat.eqb k 0 then a0 else if Nat.ltb k M then nth k l 0 else if Nat.eqb k M then a1 else nth (2 * M - k) l' 0.
Proof.
  intros Hl Hl' HM Hk. destruct l as [|h t]; [cbn in Hl; lia|]. destruct l' as [|h' t']; [cbn in Hl'; lia|].
  cbn [tl length] in *. destruct k as [|k]; [reflexivity|]. cbn [nth]. change (S k =? 0)%nat with false. cbv iota.
  destruct (Nat.ltb_spec (S k) M) as [L|G].
  - now rewrite app_nth1 by lia.
  - rewrite app_nth2 by lia. replace (k - length t)%nat with (S k - M)%nat by lia.
    destruct (Nat.eqb_spec (S k) M) as [E|NE].
    + replace (S k - M)%nat with 0%nat by lia. reflexivity.
    + destruct (S k - M)%nat as [|d] eqn:Ed; [lia|]. cbn [nth].
      rewrite rev_nth by lia. replace (2 * M - S k)%nat with (S (length t' - S d)) by lia. reflexivity.
Qed.
Lemma herm_length (l l' : list R) (a0 a1 : R) M : length l = M -> length l' = M -> (1 <= M)%nat ->
  length (a0 :: tl l ++ a1 :: rev (tl l')) = (2 * M)%nat.
Proof.
  intros Hl Hl' HM. destruct l as [|h t]; [cbn in Hl; lia|]. destruct l' as [|h' t']; [cbn in Hl'; lia|].
  cbn [tl length] in *. rewrite app_length. cbn [length]. rewrite rev_length. lia.
Qed.
Lemma nth_map_div (l : list R) dt k : nth k (map (fun v => v / dt) l) 0 = nth k l 0 / dt.
Proof. replace 0 with (0 / dt) at 1 by (unfold Rdiv; ring). apply (map_nth (fun v => v / dt)). Qed.

Section Inverse.
Variables (M : nat) (dt : R) (x : list R).
Hypothesis HM : (1 <= M)%nat.
Hypothesis Hdt : dt <> 0.
Let N := (2 * M)%nat.
Let NZ := Z.of_nat N.
Let re := fas_re_R NZ dt x.
Let im := fas_im_R NZ dt x.
Let Xr := fun k : nat => dft_re_R NZ x (Z.of_nat k).
Let Xi := fun k : nat => dft_im_R NZ x (Z.of_nat k).

Lemma inv_points : points NZ = M.
Proof. unfold points, NZ, N. rewrite Nat2Z.inj_mul. change (Z.of_nat 2) with 2%Z. rewrite Z.mul_comm, Z.div_mul by lia. apply Nat2Z.id. Qed.
Lemma inv_len_re : length re = M. Proof. unfold re. destruct (fas_lengths NZ dt x) as (-> & _ & _). apply inv_points. Qed.
Lemma inv_len_im : length im = M. Proof. unfold im. destruct (fas_lengths NZ dt x) as (_ & -> & _). apply inv_points. Qed.
Lemma inv_NZ : (2 * Z.of_nat (length re))%Z = NZ.
Proof. rewrite inv_len_re. unfold NZ, N. lia. Qed.

Lemma inv_hre_nth k : (k < N)%nat ->
  nth k (herm_re dt re) 0 = if (Nat.eqb k 0 || Nat.eqb k M)%bool then 0 else Xr k.
Proof.
  intros Hk. unfold herm_re. numR. rewrite nth_map_div.
  rewrite (herm_nth re re 0 0 M k inv_len_re inv_len_re HM Hk).
  destruct (Nat.eqb_spec k 0) as [E0|N0]; cbn [orb]; [unfold Rdiv; ring|].
  destruct (Nat.ltb_spec k M) as [L|G].
  - destruct (Nat.eqb_spec k M); [lia|]. unfold re. rewrite fas_re_nth by (rewrite inv_points; lia). unfold Xr. field. assumption.
  - destruct (Nat.eqb_spec k M) as [E|NE]; [unfold Rdiv; ring|].
    unfold re. rewrite fas_re_nth by (rewrite inv_points; unfold N in Hk; lia).
    destruct (dft_hermitian N x (Z.of_nat k) ltac:(unfold N; lia)) as [Hh _]. fold NZ in Hh.
    replace (Z.of_nat (2 * M - k)) with (NZ - Z.of_nat k)%Z by (unfold NZ, N in *; lia). rewrite Hh. unfold Xr. field. assumption.
Qed.
Lemma inv_him_nth k : (k < N)%nat ->
  nth k (herm_im dt im) 0 = if (Nat.eqb k 0 || Nat.eqb k M)%bool then 0 else Xi k.
Proof.
  intros Hk. unfold herm_im. numR. rewrite nth_map_div.
  assert (Lm : length (map Ropp im) = M) by (rewrite map_length; apply inv_len_im).
  replace (map Ropp (tl im)) with (tl (map Ropp im)) by (destruct im; reflexivity).
  rewrite (herm_nth im (map Ropp im) 0 0 M k inv_len_im Lm HM Hk).
  destruct (Nat.eqb_spec k 0) as [E0|N0]; cbn [orb]; [unfold Rdiv; ring|].
  destruct (Nat.ltb_spec k M) as [L|G].
  - destruct (Nat.eqb_spec k M); [lia|]. unfold im. rewrite fas_im_nth by (rewrite inv_points; lia). unfold Xi. field. assumption.
  - destruct (Nat.eqb_spec k M) as [E|NE]; [unfold Rdiv; ring|].
    replace 0 with (- 0) at 1 by ring. rewrite (map_nth Ropp).
    unfold im. rewrite fas_im_nth by (rewrite inv_points; unfold N in Hk; lia).
    destruct (dft_hermitian N x (Z.of_nat k) ltac:(unfold N; lia)) as [_ Hh]. fold NZ in Hh.
    replace (Z.of_nat (2 * M - k)) with (NZ - Z.of_nat k)%Z by (unfold NZ, N in *; lia). rewrite Hh. unfold Xi. field. assumption.
Qed.
Lemma inv_len_hre : length (herm_re dt re) = N.
Proof. unfold herm_re. rewrite map_length. apply (herm_length re re _ _ M inv_len_re inv_len_re HM). Qed.
Lemma inv_len_him : length (herm_im dt im) = N.
Proof.
  unfold herm_im. rewrite map_length. replace (map nopp (tl im)) with (tl (map Ropp im)) by (destruct im; reflexivity).
  apply (herm_length im (map Ropp im) _ _ M inv_len_im); [rewrite map_length; apply inv_len_im|exact HM].
Qed.

(** sums against the completed spectrum = full sums minus the two removed bins *)
Lemma inv_masked_sum (X : nat -> R) (w : nat -> R) :
  rsum (fun k => (if (Nat.eqb k 0 || Nat.eqb k M)%bool then 0 else X k) * w k) N = rsum (fun k => X k * w k) N - X 0%nat * w 0%nat - X M * w M.
Proof.
  rewrite (rsum_ext _ (fun k => X k * w k + (- (X k * w k) * (if Nat.eqb k 0 then 1 else 0) + - (X k * w k) * (if Nat.eqb k M then 1 else 0)))).
  - rewrite !rsum_plus. rewrite (rsum_delta (fun k => - (X k * w k)) 1 0 N) by (unfold N; lia).
    rewrite (rsum_delta (fun k => - (X k * w k)) 1 M N) by (unfold N; lia). ring.
  - intros k _. destruct (Nat.eqb_spec k 0) as [E0|N0]; destruct (Nat.eqb_spec k M) as [EM|NM]; cbn [orb]; try ring. lia.
Qed.

Lemma tw_cs k n : Rtwc NZ ((0 + Z.of_nat k) * Z.of_nat n) = cs N k n. Proof. reflexivity. Qed.
Lemma tw_sn k n : Rtws NZ ((0 + Z.of_nat k) * Z.of_nat n) = sn N k n. Proof. reflexivity. Qed.
Lemma cs_0 n : cs N 0 n = 1 /\ sn N 0 n = 0.
Proof. unfold cs, sn. cbn [Z.of_nat Z.mul]. replace (2 * PI * 0 / IZR (Z.of_nat N)) with 0 by (unfold Rdiv; ring). now rewrite cos_0, sin_0. Qed.
Lemma cs_M n : cs N M n = (-1) ^ n /\ sn N M n = 0.
Proof. unfold cs, sn, N. rewrite half_turn_angle by lia. apply cos_sin_nPI. Qed.

Lemma fas2values_re_nth n : (n < N)%nat ->
  nth n (fas2values_re_R re im dt) 0
  = nth n x 0 - rsum (fun j => nth j x 0) N / INR N - (-1) ^ n * (rsum (fun j => nth j x 0 * (-1) ^ j) N / INR N).
Proof.
  intros Hn. unfold fas2values_re_R, fas2values_re. rewrite inv_NZ.
  replace (Z.to_nat NZ) with N by (unfold NZ; now rewrite Nat2Z.id).
  rewrite map_zrange_nth by assumption. unfold idft_re. numR. rewrite !wsum_from_rsum, inv_len_hre, inv_len_him.
  rewrite (rsum_ext _ (fun k => (if (Nat.eqb k 0 || Nat.eqb k M)%bool then 0 else Xr k) * cs N k n))
    by (intros k Hk; rewrite inv_hre_nth by assumption; now rewrite tw_cs).
  rewrite (rsum_ext (fun j => nth j (herm_im dt im) 0 * _) (fun k => (if (Nat.eqb k 0 || Nat.eqb k M)%bool then 0 else Xi k) * sn N k n))
    by (intros k Hk; rewrite inv_him_nth by assumption; now rewrite tw_sn).
  rewrite !inv_masked_sum. destruct (cs_0 n) as [-> ->], (cs_M n) as [-> ->].
  pose proof (dft_inversion N x n Hn) as Hinv. fold NZ in Hinv.
  assert (Hsplit : rsum (fun k => Xr k * cs N k n) N - rsum (fun k => Xi k * sn N k n) N = INR N * nth n x 0).
  { rewrite <- Hinv. symmetry.
    rewrite (rsum_ext _ (fun k => Xr k * cs N k n + -1 * (Xi k * sn N k n))) by (intros; unfold Xr, Xi; ring).
    rewrite rsum_plus, rsum_scal. ring. }
  destruct (dft_bin0 N x ltac:(unfold N; lia)) as [Hb0 _]. destruct (dft_nyquist M x ltac:(lia)) as [HbM _].
  fold N NZ in Hb0, HbM. change (dft_re_R NZ x 0) with (Xr 0%nat) in Hb0. change (dft_re_R NZ x (Z.of_nat M)) with (Xr M) in HbM.
  rewrite <- Hb0, <- HbM. unfold NZ. rewrite <- INR_IZR_INZ.
  assert (HNr : INR N <> 0) by (apply not_0_INR; unfold N; lia).
  apply (Rmult_eq_reg_l (INR N)); [|assumption]. field_simplify; [|assumption|assumption].
  rewrite <- Hsplit. ring.
Qed.
Lemma fas2values_im_nth n : (n < N)%nat -> nth n (fas2values_im_R re im dt) 0 = 0.
Proof.
  intros Hn. unfold fas2values_im_R, fas2values_im. rewrite inv_NZ.
  replace (Z.to_nat NZ) with N by (unfold NZ; now rewrite Nat2Z.id).
  rewrite map_zrange_nth by assumption. unfold idft_im. numR. rewrite !wsum_from_rsum, inv_len_hre, inv_len_him.
  rewrite (rsum_ext _ (fun k => (if (Nat.eqb k 0 || Nat.eqb k M)%bool then 0 else Xr k) * sn N k n))
    by (intros k Hk; rewrite inv_hre_nth by assumption; now rewrite tw_sn).
  rewrite (rsum_ext (fun j => nth j (herm_im dt im) 0 * _) (fun k => (if (Nat.eqb k 0 || Nat.eqb k M)%bool then 0 else Xi k) * cs N k n))
    by (intros k Hk; rewrite inv_him_nth by assumption; now rewrite tw_cs).
  rewrite !inv_masked_sum. destruct (cs_0 n) as [-> ->], (cs_M n) as [-> ->].
  pose proof (dft_inversion_im N x n ltac:(unfold N; lia)) as Hinv. fold NZ in Hinv.
  assert (Hsplit : rsum (fun k => Xr k * sn N k n) N + rsum (fun k => Xi k * cs N k n) N = 0).
  { rewrite <- Hinv. rewrite <- rsum_plus. apply rsum_ext. intros; unfold Xr, Xi; ring. }
  destruct (dft_bin0 N x ltac:(unfold N; lia)) as [_ Hb0]. destruct (dft_nyquist M x ltac:(lia)) as [_ HbM].
  fold N NZ in Hb0, HbM. change (dft_im_R NZ x 0) with (Xi 0%nat) in Hb0. change (dft_im_R NZ x (Z.of_nat M)) with (Xi M) in HbM.
  rewrite Hb0, HbM.
  replace (rsum (fun k => Xr k * sn N k n) N - Xr 0%nat * 0 - Xr M * 0 + (rsum (fun k => Xi k * cs N k n) N - 0 * 1 - 0 * (-1) ^ n))
    with (rsum (fun k => Xr k * sn N k n) N + rsum (fun k => Xi k * cs N k n) N) by ring.
  rewrite Hsplit. unfold Rdiv. ring.
Qed.
Lemma fas2values_lengths : length (fas2values_re_R re im dt) = N /\ length (fas2values_im_R re im dt) = N.
Proof.
  unfold fas2values_re_R, fas2values_im_R, fas2values_re, fas2values_im. rewrite !map_length, !zrange_length, inv_NZ.
  unfold NZ. now rewrite Nat2Z.id.
Qed.
End Inverse.
