(** Glue between the C13 source tie (proofs/P_gen_c13.v) and the C11 pipeline theorem (model/M_peaks_pipeline.v,
    proofs/P_peaks_pipeline.v): the literal transcriptions [clean_out_non_changing_p] / [peak_indices_cleaned_p] of the two helper
    functions meet [clean_spec] / [cpk_spec], so the peak-only series theorems hold UNCONDITIONALLY of the translated source
    with those helpers plugged in. *)
From Coq Require Import Reals List Bool Lia Lra.
From EQ Require Import lib.Num lib.NpList lib.Where model.M_peaks model.M_cycles model.M_peaks_pipeline gen.Gen_c13.
From EQ Require Import proofs.P_C11 proofs.P_C13 proofs.P_peaks_pipeline proofs.P_gen_c13.
Import ListNotations.
Local Open Scope R_scope.

Lemma clean_spec_pipeline : clean_spec clean_out_non_changing_p.
Proof.
  intros v Hne H0. rewrite clean_out_non_changing_spec by exact Hne. destruct (Req_EM_T (xat v 0) 0); [reflexivity|contradiction].
Qed.
Lemma cpk_spec_pipeline : cpk_spec peak_indices_cleaned_p.
Proof.
  intros ys Hnc c. change c with (cleaned ys). change (P_gen_c13.pst ys) with (pstarts ys).
  assert (Hne : ys <> []) by (intros ->; apply Hnc; reflexivity).
  destruct (pstarts_two ys Hnc) as (q & t & Et & _).
  assert (Hlen : (2 <= length (cleaned ys))%nat) by (rewrite cleaned_length, Et; cbn [length]; lia).
  assert (Hw : forall k, In k (pk_indices0 (cleaned ys)) -> (0 < k < length (cleaned ys) - 1)%nat).
  { intros k Hk. unfold pk_indices0 in Hk. apply (where_idx_In 0) in Hk as [Hk1 Hk2]. rewrite pk_prod_length in Hk1.
    split; [|exact Hk1]. destruct k; [|lia]. rewrite pk_prod_nth in Hk2 by lia. apply lt0_R in Hk2. lra. }
  unfold peak_indices_cleaned_p, pk_indices2, pk_indices1, NpPeaks.np_insert_end, np_insert0. split; [|split].
  - cbn [app]. constructor.
    + intros j Hj. apply in_app_iff in Hj as [Hj|[<-|[]]]; [apply Hw in Hj; lia|lia].
    + apply asc_snoc; [apply (where_idx_ascending 0)|]. intros y Hy. apply Hw in Hy. lia.
  - intros k Hk. cbn [app] in Hk. destruct Hk as [<-|Hk]; [lia|]. apply in_app_iff in Hk as [Hk|[<-|[]]]; [apply Hw in Hk; lia|lia].
  - destruct (dup_index0_invisible ys Hne) as [E _]. unfold take in E.
    change (0%nat :: pk_indices0 (cleaned ys)) with (pk_indices1 (cleaned ys)).
    change (pk_indices1 (cleaned ys) ++ [(length (cleaned ys) - 1)%nat]) with (peak_indices_cleaned_p (cleaned ys)).
    rewrite <- E. exact (pipeline_all ys Hnc).
Qed.
Theorem gen_delta_series_pipeline (xs : list R) : first_up xs <> None ->
  gen_delta_series clean_out_non_changing_p peak_indices_cleaned_p xs = delta_series xs.
Proof. apply gen_delta_series_eq; [exact clean_spec_pipeline|exact cpk_spec_pipeline]. Qed.
Theorem gen_pseudo_series_pipeline (xs : list R) : first_up xs <> None ->
  gen_pseudo_series clean_out_non_changing_p peak_indices_cleaned_p xs = pseudo_series xs.
Proof. apply gen_pseudo_series_eq; [exact clean_spec_pipeline|exact cpk_spec_pipeline]. Qed.
