(** Proofs for C11 (local-peak detection) at T := R. Only the order of the samples is used. *)
From Coq Require Import ZArith Reals List Bool Lra Lia.
From EQ Require Import lib.Num lib.NpList lib.Where model.M_peaks.
Import ListNotations.
Local Open Scope R_scope.

(** ** filter over seq: ascending, membership, last = greatest *)
Lemma filter_seq_ascending (p : nat -> bool) s n : ascending (filter p (seq s n)).
Proof.
  revert s; induction n as [|n IH]; intros s; cbn [seq filter]; [constructor|].
  destruct (p s); [|apply IH]. constructor; [|apply IH].
  intros j Hj. apply filter_In in Hj as [Hj _]. apply in_seq in Hj. lia.
Qed.
Lemma filter_seq_In (p : nat -> bool) n i : In i (filter p (seq 0 n)) <-> (i < n)%nat /\ p i = true.
Proof. rewrite filter_In, in_seq. intuition lia. Qed.

(** ** plateau starts and the final constant run *)
Lemma neqb_R x y : neqb x y = true <-> x = y. Proof. numR. apply Reqb_true. Qed.
Lemma neqb_R_false x y : neqb x y = false <-> x <> y. Proof. numR. apply Reqb_false. Qed.
Lemma pstart_spec (xs : list R) i : pstart xs i = true <-> (i = 0%nat \/ exists i', i = S i' /\ xat xs i <> xat xs i').
Proof.
  destruct i as [|i']; cbn [pstart]; [intuition|]. rewrite negb_true_iff, neqb_R_false. split.
  - intros Hne. right. exists i'. auto.
  - intros [H0|(j & E & Hne)]; [discriminate|]. now inversion E; subst.
Qed.
Lemma final_start_In (xs : list R) : xs <> [] -> In (final_start xs) (filter (pstart xs) (seq 0 (length xs))).
Proof.
  intros Hne. unfold final_start. apply last_In.
  destruct xs as [|x r]; [congruence|]. cbn [length seq filter pstart]. discriminate.
Qed.
Lemma final_start_lt (xs : list R) : xs <> [] -> (final_start xs < length xs)%nat.
Proof. intros Hne. apply final_start_In in Hne. apply filter_seq_In in Hne. tauto. Qed.
Lemma final_start_pstart (xs : list R) : xs <> [] -> pstart xs (final_start xs) = true.
Proof. intros Hne. apply final_start_In in Hne. apply filter_seq_In in Hne. tauto. Qed.
Lemma final_start_greatest (xs : list R) k : (k < length xs)%nat -> pstart xs k = true -> (k <= final_start xs)%nat.
Proof.
  intros Hk Hp. unfold final_start. apply ascending_last_max; [apply filter_seq_ascending|].
  apply filter_seq_In. auto.
Qed.
(** every sample from the final start on equals it *)
Lemma final_run_constant (xs : list R) k : (final_start xs <= k < length xs)%nat -> xat xs k = xat xs (final_start xs).
Proof.
  intros [Hk1 Hk2]. induction k as [|k IH].
  - assert (final_start xs = 0)%nat by lia. now rewrite H.
  - destruct (Nat.eq_dec (final_start xs) (S k)) as [E|Hne]; [now rewrite E|].
    rewrite <- IH by lia.
    destruct (pstart xs (S k)) eqn:Hp.
    + pose proof (final_start_greatest xs (S k) Hk2 Hp). lia.
    + cbn [pstart] in Hp. apply negb_false_iff, neqb_R in Hp. exact Hp.
Qed.

(** ** membership characterisation: "every turning point and nothing else" *)
Lemma C11_exact (xs : list R) i :
  In i (peaks xs) <-> (i < length xs)%nat /\ (i = 0%nat \/ i = final_start xs \/ turning xs i = true).
Proof.
  unfold peaks. rewrite filter_seq_In. unfold is_peak. rewrite !orb_true_iff, !Nat.eqb_eq. tauto.
Qed.

(** [turning] in words *)
Lemma nth_skipn' {A} (l : list A) s k d : nth k (skipn s l) d = nth (s + k) l d.
Proof. revert l; induction s as [|s IH]; intros l; [reflexivity|]. destruct l as [|x r]; [destruct k; reflexivity|]. cbn. apply IH. Qed.
Lemma next_diff_from_spec (v : R) j l m : next_diff_from v j l = Some m ->
  (j <= m < j + length l)%nat /\ nth (m - j) l 0 <> v /\ forall k, (j <= k < m)%nat -> nth (k - j) l 0 = v.
Proof.
  revert j; induction l as [|x r IH]; intros j Hm; cbn [next_diff_from] in Hm; [discriminate|].
  change (neqb x v) with (Reqb x v) in Hm. destruct (Reqb x v) eqn:E.
  - apply Reqb_true in E. subst x. apply IH in Hm as (H1 & H2 & H3). cbn [length]. split; [lia|]. split.
    + replace (m - j)%nat with (S (m - S j)) by lia. exact H2.
    + intros k Hk. destruct (Nat.eq_dec k j) as [->|Hne]; [now rewrite Nat.sub_diag|].
      replace (k - j)%nat with (S (k - S j)) by lia. apply H3. lia.
  - inversion Hm; subst m. apply Reqb_false in E. cbn [length]. split; [lia|]. rewrite Nat.sub_diag. split; [exact E|].
    intros k Hk. lia.
Qed.
Lemma next_diff_from_none (v : R) j l : next_diff_from v j l = None -> forall x, In x l -> x = v.
Proof.
  revert j; induction l as [|x r IH]; intros j Hn y Hy; [destruct Hy|]. cbn [next_diff_from] in Hn.
  change (neqb x v) with (Reqb x v) in Hn. destruct (Reqb x v) eqn:E; [|discriminate]. apply Reqb_true in E. destruct Hy as [<-|Hy]; auto. eapply IH; eauto.
Qed.
Lemma next_diff_spec (xs : list R) i j : next_diff xs i = Some j ->
  (i < j < length xs)%nat /\ xat xs j <> xat xs i /\ forall k, (i < k < j)%nat -> xat xs k = xat xs i.
Proof.
  unfold next_diff. intros Hj. apply next_diff_from_spec in Hj as (H1 & H2 & H3).
  rewrite skipn_length in H1. rewrite nth_skipn' in H2.
  assert (Hlt : (S i < length xs)%nat \/ (length xs <= S i)%nat) by lia.
  destruct Hlt as [Hlt|Hge]; [|lia].
  split; [lia|]. split.
  - unfold xat. replace j with (S i + (j - S i))%nat at 1 by lia. exact H2.
  - intros k Hk. specialize (H3 k ltac:(lia)). rewrite nth_skipn' in H3. unfold xat.
    replace k with (S i + (k - S i))%nat at 1 by lia. exact H3.
Qed.
Lemma next_diff_none (xs : list R) i : next_diff xs i = None -> forall k, (i < k < length xs)%nat -> xat xs k = xat xs i.
Proof.
  unfold next_diff. intros Hn k Hk. apply (next_diff_from_none _ _ _ Hn).
  unfold xat. replace k with (S i + (k - S i))%nat by lia. rewrite <- nth_skipn'. apply nth_In. rewrite skipn_length. lia.
Qed.
Lemma nltb_R x y : nltb x y = true <-> x < y. Proof. numR. apply Rltb_true. Qed.
(** a turning point: enters its plateau by a strict move and leaves it by a strict move of the opposite sign *)
Lemma turning_spec (xs : list R) i : turning xs i = true <->
  exists i' j, i = S i' /\ next_diff xs i = Some j /\
    ((xat xs i' < xat xs i /\ xat xs j < xat xs i) \/ (xat xs i < xat xs i' /\ xat xs i < xat xs j)).
Proof.
  unfold turning. destruct i as [|i']; [split; [discriminate|intros (? & ? & ? & _); discriminate]|].
  destruct (next_diff xs (S i')) as [j|]; [|split; [discriminate|intros (? & ? & _ & ? & _); discriminate]].
  rewrite orb_true_iff, !andb_true_iff, !nltb_R. split.
  - intros Hd. exists i', j. auto.
  - intros (a & b & E & Ej & Hd). inversion E; inversion Ej; subst. exact Hd.
Qed.

(** ** structure of the reported list *)
Lemma C11_ascending (xs : list R) : ascending (peaks xs).
Proof. apply filter_seq_ascending. Qed.
Lemma C11_first_is_0 (xs : list R) : xs <> [] -> hd 1%nat (peaks xs) = 0%nat.
Proof. destruct xs as [|x r]; [congruence|]. intros _. unfold peaks. cbn [length seq filter is_peak Nat.eqb orb]. reflexivity. Qed.
Lemma turning_lt_final (xs : list R) i : turning xs i = true -> (i < final_start xs)%nat.
Proof.
  intros Ht. apply turning_spec in Ht as (i' & j & -> & Hj & _). apply next_diff_spec in Hj as (H1 & H2 & H3).
  (* the first index after the plateau of i that differs is a plateau start, hence <= final_start *)
  assert (Hp : pstart xs j = true).
  { destruct j as [|j']; [reflexivity|]. cbn [pstart]. apply negb_true_iff, neqb_R_false.
    destruct (Nat.eq_dec j' (S i')) as [->|Hne]; [exact H2|]. rewrite (H3 j') by lia. exact H2. }
  pose proof (final_start_greatest xs j ltac:(lia) Hp). lia.
Qed.
Lemma C11_last_is_final_plateau (xs : list R) : xs <> [] -> last (peaks xs) 0%nat = final_start xs.
Proof.
  intros Hne.
  assert (Hin : In (final_start xs) (peaks xs)) by (apply C11_exact; split; [now apply final_start_lt|auto]).
  apply Nat.le_antisymm.
  - assert (Hl : In (last (peaks xs) 0%nat) (peaks xs)) by (apply last_In; intros E; rewrite E in Hin; destruct Hin).
    apply C11_exact in Hl as (H1 & [H0|[Hf|Ht]]); [lia|lia|]. apply turning_lt_final in Ht. lia.
  - apply ascending_last_max; [apply C11_ascending|exact Hin].
Qed.
(** every reported index starts a plateau (so plateaus are reported at their first sample only) *)
Lemma C11_reported_are_plateau_starts (xs : list R) i : xs <> [] -> In i (peaks xs) -> pstart xs i = true.
Proof.
  intros Hne Hi. apply C11_exact in Hi as (H1 & [->|[->|Ht]]); [reflexivity|now apply final_start_pstart|].
  apply turning_spec in Ht as (i' & j & -> & _ & Hd). cbn [pstart]. apply negb_true_iff, neqb_R_false. lra.
Qed.

(** ** cycle counter: length *)
Lemma C11_ncyc_length (indys : list nat) origin n : length (n_cyc_of (T:=R) indys origin n) = n.
Proof. unfold n_cyc_of. now rewrite map_length, seq_length. Qed.

(** ** monotone between consecutive reported indices, with strictly alternating direction *)
Definition sdir (s : R) : Prop := s = 1 \/ s = -1.
(** [s = 1]: non-decreasing and net rise; [s = -1]: non-increasing and net fall *)
Definition mono_between (s : R) (xs : list R) (p q : nat) : Prop :=
  (forall k, (p <= k < q)%nat -> s * xat xs k <= s * xat xs (S k)) /\ s * xat xs p < s * xat xs q.
Definition no_reported_between (xs : list R) (p q : nat) : Prop := forall r, In r (peaks xs) -> ~ (p < r < q)%nat.

Lemma mono_chain s (xs : list R) a b :
  (forall m, (a < m <= b)%nat -> s * xat xs (m - 1) <= s * xat xs m) ->
  forall k, (a <= k <= b)%nat -> s * xat xs a <= s * xat xs k.
Proof.
  intros Hstep k [Hk1 Hk2]. induction k as [|k IH]; [assert (a = 0)%nat by lia; subst; lra|].
  destruct (Nat.eq_dec a (S k)) as [->|Hne]; [lra|].
  apply Rle_trans with (s * xat xs k); [apply IH; lia|].
  specialize (Hstep (S k) ltac:(lia)). replace (S k - 1)%nat with k in Hstep by lia. exact Hstep.
Qed.
Lemma next_diff_exists (xs : list R) i k : (i < k < length xs)%nat -> xat xs k <> xat xs i -> exists j, next_diff xs i = Some j.
Proof.
  intros Hk Hne. destruct (next_diff xs i) as [j|] eqn:E; [eauto|].
  exfalso. apply Hne. now apply (next_diff_none xs i E).
Qed.

Lemma steps_follow_last_move s (xs : list R) p q : sdir s -> (p < q < length xs)%nat ->
  no_reported_between xs p q -> s * xat xs (q - 1) < s * xat xs q ->
  forall d m, m = (q - d)%nat -> (p < m <= q)%nat -> s * xat xs (m - 1) <= s * xat xs m.
Proof.
  intros Hs Hpq Hnone Hlast d. induction d as [d IH] using lt_wf_ind. intros m Hm Hrange.
  destruct (Rle_lt_dec (s * xat xs (m - 1)) (s * xat xs m)) as [Hle|Hgt]; [exact Hle|exfalso].
  assert (Hmq : (m < q)%nat) by (destruct (Nat.eq_dec m q) as [->|]; [lra|lia]).
  (* all later steps up to q go in direction s *)
  assert (Hlater : forall m', (m < m' <= q)%nat -> s * xat xs (m' - 1) <= s * xat xs m').
  { intros m' Hm'. apply (IH (q - m')%nat); lia. }
  pose proof (mono_chain s xs m (q - 1) ltac:(intros; apply Hlater; lia)) as Hchain.
  assert (Hq : s * xat xs m < s * xat xs q) by (specialize (Hchain (q - 1)%nat ltac:(lia)); lra).
  assert (Hneq : xat xs q <> xat xs m) by (intros E; rewrite E in Hq; lra).
  destruct (next_diff_exists xs m q ltac:(lia) Hneq) as [j Hj].
  pose proof (next_diff_spec xs m j Hj) as (Hj1 & Hj2 & Hj3).
  assert (Hjq : (j <= q)%nat).
  { destruct (Nat.le_gt_cases j q); auto. exfalso. apply Hneq. apply Hj3. lia. }
  assert (Hmj : s * xat xs m <= s * xat xs j).
  { destruct (Nat.eq_dec j q) as [->|]; [lra|]. apply Hchain. lia. }
  (* so m is a turning point strictly between p and q *)
  apply (Hnone m); [|lia]. apply C11_exact. split; [lia|]. right; right.
  apply turning_spec. destruct m as [|m']; [lia|]. exists m', j. split; [reflexivity|]. split; [exact Hj|].
  replace (S m' - 1)%nat with m' in Hgt by lia.
  destruct Hs as [-> | ->]; [right|left]; split; lra.
Qed.

Lemma C11_monotone_between (xs : list R) p q : In p (peaks xs) -> In q (peaks xs) -> (p < q)%nat ->
  no_reported_between xs p q -> mono_between 1 xs p q \/ mono_between (-1) xs p q.
Proof.
  intros Hp Hq Hpq Hnone.
  assert (Hne : xs <> []) by (intros ->; destruct Hp).
  assert (Hql : (q < length xs)%nat) by (apply C11_exact in Hq; tauto).
  pose proof (C11_reported_are_plateau_starts xs q Hne Hq) as Hps.
  destruct q as [|q']; [lia|]. cbn [pstart] in Hps. apply negb_true_iff, neqb_R_false in Hps.
  assert (Hcase : 1 * xat xs (S q' - 1) < 1 * xat xs (S q') \/ -1 * xat xs (S q' - 1) < -1 * xat xs (S q')).
  { replace (S q' - 1)%nat with q' by lia. destruct (Rtotal_order (xat xs q') (xat xs (S q'))) as [H|[H|H]]; [left; lra|congruence|right; lra]. }
  destruct Hcase as [Hc|Hc]; [left|right].
  - pose proof (steps_follow_last_move 1 xs p (S q') (or_introl eq_refl) ltac:(lia) Hnone Hc) as Hst.
    split.
    + intros k Hk. specialize (Hst (S q' - S k)%nat (S k) ltac:(lia) ltac:(lia)). replace (S k - 1)%nat with k in Hst by lia. exact Hst.
    + pose proof (mono_chain 1 xs p (S q' - 1) ltac:(intros m Hm; apply (Hst (S q' - m)%nat); lia) (S q' - 1)%nat ltac:(lia)). lra.
  - pose proof (steps_follow_last_move (-1) xs p (S q') (or_intror eq_refl) ltac:(lia) Hnone Hc) as Hst.
    split.
    + intros k Hk. specialize (Hst (S q' - S k)%nat (S k) ltac:(lia) ltac:(lia)). replace (S k - 1)%nat with k in Hst by lia. exact Hst.
    + pose proof (mono_chain (-1) xs p (S q' - 1) ltac:(intros m Hm; apply (Hst (S q' - m)%nat); lia) (S q' - 1)%nat ltac:(lia)). lra.
Qed.

(** direction strictly alternates at every interior reported index *)
Lemma C11_alternates (xs : list R) p q r : In p (peaks xs) -> In q (peaks xs) -> In r (peaks xs) ->
  (p < q < r)%nat -> no_reported_between xs p q -> no_reported_between xs q r ->
  (mono_between 1 xs p q /\ mono_between (-1) xs q r) \/ (mono_between (-1) xs p q /\ mono_between 1 xs q r).
Proof.
  intros Hp Hq Hr Hpqr Hn1 Hn2.
  assert (Hne : xs <> []) by (intros ->; destruct Hp).
  assert (Hrl : (r < length xs)%nat) by (apply C11_exact in Hr; tauto).
  (* q is neither 0 nor the final start, hence a turning point *)
  assert (Hrf : (r <= final_start xs)%nat).
  { rewrite <- (C11_last_is_final_plateau xs Hne). apply ascending_last_max; [apply C11_ascending|exact Hr]. }
  assert (Htq : turning xs q = true).
  { apply C11_exact in Hq as (_ & [H0|[Hf|Ht]]); [lia|lia|exact Ht]. }
  apply turning_spec in Htq as (q' & j & -> & Hj & Hd).
  pose proof (next_diff_spec xs (S q') j Hj) as (Hj1 & Hj2 & Hj3).
  (* j <= r because r starts a plateau *)
  pose proof (C11_reported_are_plateau_starts xs r Hne Hr) as Hpr.
  destruct r as [|r']; [lia|]. cbn [pstart] in Hpr. apply negb_true_iff, neqb_R_false in Hpr.
  assert (Hjr : (j <= S r')%nat).
  { destruct (Nat.le_gt_cases j (S r')); auto. exfalso. apply Hpr.
    rewrite (Hj3 (S r')) by lia. destruct (Nat.eq_dec r' (S q')) as [->|]; [reflexivity|]. symmetry. apply Hj3. lia. }
  destruct (C11_monotone_between xs p (S q') Hp Hq ltac:(lia) Hn1) as [[M1 M2]|[M1 M2]];
  destruct (C11_monotone_between xs (S q') (S r') Hq Hr ltac:(lia) Hn2) as [[N1 N2]|[N1 N2]].
  - (* up then up: contradiction with turning *)
    exfalso. specialize (M1 q' ltac:(lia)).
    assert (1 * xat xs (S q') <= 1 * xat xs j).
    { pose proof (mono_chain 1 xs (S q') j ltac:(intros m Hm; specialize (N1 (m - 1)%nat ltac:(lia)); replace (S (m - 1)) with m in N1 by lia; exact N1) j ltac:(lia)). lra. }
    lra.
  - left. split; split; auto.
  - right. split; split; auto.
  - exfalso. specialize (M1 q' ltac:(lia)).
    assert (-1 * xat xs (S q') <= -1 * xat xs j).
    { pose proof (mono_chain (-1) xs (S q') j ltac:(intros m Hm; specialize (N1 (m - 1)%nat ltac:(lia)); replace (S (m - 1)) with m in N1 by lia; exact N1) j ltac:(lia)). lra. }
    lra.
Qed.
