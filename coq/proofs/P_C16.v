(** Proofs for C16 (text codec of the eqsig format). Everything is over Z, Q and lists of bytes; closed under the global context. *)
From Coq Require Import ZArith QArith Qround Qabs Qpower List Bool Ascii String Lia Lqa.
From EQ Require Import lib.DecFmt model.M_loader.
Import ListNotations.
Local Open Scope Z_scope.

(** * A. digits *)
Lemma char_digit_char k : 0 <= k < 10 -> char_digit (digit_char k) = Some k.
Proof.
  intros H. assert (E : k = 0 \/ k = 1 \/ k = 2 \/ k = 3 \/ k = 4 \/ k = 5 \/ k = 6 \/ k = 7 \/ k = 8 \/ k = 9) by lia.
  repeat (destruct E as [-> | E]; [reflexivity|]). subst; reflexivity.
Qed.

Lemma val_from_app s t a :
  val_from a (s ++ t) = match val_from a s with Some b => val_from b t | None => None end.
Proof.
  revert a; induction s as [|c s IH]; intros a; cbn; [reflexivity|].
  destruct (char_digit c); [apply IH|reflexivity].
Qed.

Lemma pow10_S w : pow10 (S w) = 10 * pow10 w.
Proof. unfold pow10. rewrite Nat2Z.inj_succ, Z.pow_succ_r by lia. reflexivity. Qed.
Lemma pow10_pos w : 0 < pow10 w.
Proof. unfold pow10. apply Z.pow_pos_nonneg; lia. Qed.

Lemma val_digits_w w : forall n a, 0 <= n -> val_from a (digits_w w n) = Some (a * pow10 w + n mod pow10 w).
Proof.
  induction w as [|w IH]; intros n a Hn.
  - cbn. unfold pow10; cbn. rewrite Z.mod_1_r. f_equal; lia.
  - cbn [digits_w]. rewrite val_from_app, IH by (apply Z.div_pos; lia).
    cbn [val_from]. rewrite char_digit_char by (apply Z.mod_pos_bound; lia).
    f_equal. rewrite pow10_S. pose proof (pow10_pos w).
    rewrite (Z.rem_mul_r n 10 (pow10 w)) by lia. ring.
Qed.

Lemma length_digits_w w n : List.length (digits_w w n) = w.
Proof. revert n; induction w; intros; cbn; [reflexivity|]. rewrite app_length, IHw; cbn; lia. Qed.

Lemma ndig_from_spec f : forall w n, let r := ndig_from f w n in (w <= r)%nat /\ (n < pow10 r \/ r = (w + f)%nat).
Proof.
  induction f as [|f IH]; intros w n; cbn.
  - split; [lia|right; lia].
  - destruct (n <? pow10 w) eqn:E.
    + apply Z.ltb_lt in E. split; [lia|now left].
    + destruct (IH (S w) n) as [H1 H2]. split; [lia|]. destruct H2; [now left|right; lia].
Qed.

Lemma ndig_ge1 n : (1 <= ndig n)%nat.
Proof. unfold ndig. apply (ndig_from_spec _ 1%nat n). Qed.

Lemma pow2_le_pow10 k : 0 <= k -> 2 ^ k <= 10 ^ k.
Proof. intros. apply Z.pow_le_mono_l; lia. Qed.

Lemma ndig_bound n : 0 <= n -> n < pow10 (ndig n).
Proof.
  intros Hn. unfold ndig. destruct (ndig_from_spec (Z.to_nat (Z.log2 n)) 1%nat n) as [_ [H|H]]; [exact H|].
  rewrite H. unfold pow10. destruct (Z.eq_dec n 0) as [->|Hz]; [cbn; lia|].
  assert (Hp : 0 < n) by lia. pose proof (Z.log2_spec n Hp) as [_ Hl]. pose proof (Z.log2_nonneg n).
  rewrite Nat2Z.inj_add, Z2Nat.id by lia. change (Z.of_nat 1) with 1.
  replace (1 + Z.log2 n) with (Z.succ (Z.log2 n)) by lia.
  eapply Z.lt_le_trans; [exact Hl|]. apply pow2_le_pow10; lia.
Qed.

Lemma val_dec_int n : 0 <= n -> val_from 0 (dec_int n) = Some n.
Proof.
  intros Hn. unfold dec_int. rewrite val_digits_w by exact Hn. f_equal.
  rewrite Z.mod_small by (split; [exact Hn|apply ndig_bound; exact Hn]). ring.
Qed.

Definition is_digit (c : ascii) : bool := match char_digit c with Some _ => true | None => false end.
Lemma digits_w_digits w : forall n, Forall (fun c => is_digit c = true) (digits_w w n).
Proof.
  induction w; intros n; cbn; [constructor|]. apply Forall_app; split; [apply IHw|].
  constructor; [|constructor]. unfold is_digit. rewrite char_digit_char; [reflexivity|apply Z.mod_pos_bound; lia].
Qed.
Lemma dec_int_nonempty n : dec_int n <> [].
Proof.
  unfold dec_int. intros H. apply (f_equal (@List.length _)) in H. rewrite length_digits_w in H.
  pose proof (ndig_ge1 n). cbn in H. lia.
Qed.

(** * B. rounding to an integer, ties to even; decimal rounding *)
Local Open Scope Q_scope.
Lemma Qltb'_true x y : Qltb' x y = true <-> x < y.
Proof. unfold Qltb'. rewrite Qlt_alt. destruct (x ?= y); split; intros; congruence. Qed.
Lemma Qltb'_false x y : Qltb' x y = false <-> y <= x.
Proof.
  unfold Qltb'. destruct (x ?= y) eqn:E; split; intros H; try congruence.
  - apply Qeq_alt in E. rewrite E. apply Qle_refl.
  - apply Qlt_alt in E. exfalso. apply (Qlt_irrefl x). eapply Qlt_le_trans; eauto.
  - apply Qgt_alt in E. apply Qlt_le_weak. exact E.
Qed.

Lemma rhe_spec q : Qabs (inject_Z (round_half_even q) - q) <= 1 # 2.
Proof.
  unfold round_half_even. pose proof (Qfloor_le q) as H1. pose proof (Qlt_floor q) as H2.
  set (f := Qfloor q) in *. rewrite inject_Z_plus in H2. change (inject_Z 1) with 1 in H2.
  apply Qabs_Qle_condition.
  destruct (q - inject_Z f ?= 1 # 2) eqn:E.
  - apply Qeq_alt in E. destruct (Z.even f); [|rewrite inject_Z_plus; change (inject_Z 1) with 1]; split; lra.
  - apply Qlt_alt in E. split; lra.
  - apply Qgt_alt in E. rewrite inject_Z_plus; change (inject_Z 1) with 1. split; lra.
Qed.

Lemma rhe_nonneg q : 0 <= q -> (0 <= round_half_even q)%Z.
Proof.
  intros H. unfold round_half_even. assert (Hf : (0 <= Qfloor q)%Z).
  { change 0%Z with (Qfloor 0). apply Qfloor_resp_le. exact H. }
  destruct (q - inject_Z (Qfloor q) ?= 1 # 2); [destruct (Z.even (Qfloor q))| |]; lia.
Qed.

Lemma div_close a b P h : 0 < P -> Qabs (a - b * P) <= h -> Qabs (a / P - b) <= h / P.
Proof.
  intros HP H. apply Qabs_Qle_condition in H. destruct H as [Hl Hu]. apply Qabs_Qle_condition.
  assert (E : a == (a / P) * P) by (field; lra).
  set (t := a / P) in *. split.
  - setoid_replace (- (h / P)) with ((- h) / P) by (field; lra). apply Qle_shift_div_r; [exact HP|].
    rewrite E in Hl. lra.
  - apply Qle_shift_div_l; [exact HP|]. rewrite E in Hu. lra.
Qed.

Lemma pow10_Qpos d : 0 < inject_Z (pow10 d).
Proof. change 0 with (inject_Z 0). rewrite <- Zlt_Qlt. apply pow10_pos. Qed.

Lemma Qmake_pow10 n d : n # Z.to_pos (pow10 d) == inject_Z n / inject_Z (pow10 d).
Proof. rewrite Qmake_Qdiv. rewrite Z2Pos.id by apply pow10_pos. reflexivity. Qed.

Lemma dec_scaled_nonneg d x : (0 <= dec_scaled d x)%Z.
Proof.
  apply rhe_nonneg. apply Qmult_le_0_compat; [apply Qabs_nonneg|]. apply Qlt_le_weak, pow10_Qpos.
Qed.

(** [dec_round d x] is within half a unit of the d-th decimal of x *)
Lemma dec_round_close d x : Qabs (dec_round d x - x) <= (1 # 2) / inject_Z (pow10 d).
Proof.
  unfold dec_round. rewrite Qred_correct. pose proof (pow10_Qpos d) as HP.
  pose proof (rhe_spec (Qabs x * inject_Z (pow10 d))) as H. fold (dec_scaled d x) in H.
  apply div_close in H; [|exact HP]. rewrite <- Qmake_pow10 in H.
  set (r := dec_scaled d x # Z.to_pos (pow10 d)) in *.
  apply Qabs_Qle_condition in H. destruct H as [Hl Hu]. apply Qabs_Qle_condition.
  destruct (Qltb' x 0) eqn:E.
  - apply Qltb'_true in E. rewrite (Qabs_neg x) in Hl, Hu by lra. split; lra.
  - apply Qltb'_false in E. rewrite (Qabs_pos x) in Hl, Hu by lra. split; lra.
Qed.

(** * C. parsing what was printed *)
Ltac ascii_cases c := destruct c as [[] [] [] [] [] [] [] []]; vm_compute; try congruence; try reflexivity.

Lemma digit_not c d : is_digit c = true -> In d ["."; "-"; "+"; ","; "#"; "e"; "E"; " "]%char -> Ascii.eqb c d = false.
Proof.
  intros H Hd. cbn in Hd.
  repeat (destruct Hd as [<- | Hd]; [revert H; ascii_cases c|]). contradiction.
Qed.

Lemma break_at_none c s : Forall (fun a => Ascii.eqb a c = false) s -> break_at c s = (s, None).
Proof. induction 1 as [|a s Ha _ IH]; cbn; [reflexivity|]. rewrite Ha, IH. reflexivity. Qed.
Lemma break_at_app c s t : Forall (fun a => Ascii.eqb a c = false) s -> break_at c (s ++ c :: t) = (s, Some t).
Proof.
  induction 1 as [|a s Ha _ IH]; cbn.
  - rewrite Ascii.eqb_refl. reflexivity.
  - rewrite Ha, IH. reflexivity.
Qed.

Lemma digits_no c s : In c ["."; "-"; "+"; ","; "#"; "e"; "E"; " "]%char ->
  Forall (fun a => is_digit a = true) s -> Forall (fun a => Ascii.eqb a c = false) s.
Proof. intros Hc H. eapply Forall_impl; [|exact H]. intros a Ha. apply digit_not; assumption. Qed.

Lemma dec_int_digits n : Forall (fun c => is_digit c = true) (dec_int n).
Proof. apply digits_w_digits. Qed.

Definition unsigned_text (d : nat) (N : Z) : text :=
  dec_int (N / pow10 d) ++ match d with O => [] | _ => "."%char :: digits_w d (N mod pow10 d) end.

Lemma parse_unsigned_fmt d N : (0 <= N)%Z ->
  parse_unsigned (unsigned_text d N) = Some (Qred (N # Z.to_pos (pow10 d))).
Proof.
  intros HN. unfold parse_unsigned, unsigned_text. pose proof (pow10_pos d) as HP.
  assert (HI : (0 <= N / pow10 d)%Z) by (apply Z.div_pos; lia).
  assert (HF : (0 <= N mod pow10 d < pow10 d)%Z) by (apply Z.mod_pos_bound; lia).
  assert (Hdot : Forall (fun a => Ascii.eqb a "."%char = false) (dec_int (N / pow10 d))).
  { apply digits_no; [cbn; tauto|apply dec_int_digits]. }
  destruct d as [|d'].
  - rewrite app_nil_r, (break_at_none _ _ Hdot).
    destruct (dec_int (N / pow10 0)) eqn:E; [exfalso; eapply dec_int_nonempty; eauto|]. rewrite <- E.
    rewrite val_dec_int by exact HI. cbn [val_from List.length]. f_equal. apply Qred_complete.
    unfold pow10 in *. cbn in *. rewrite Z.div_1_r. unfold Qeq; cbn. ring.
  - rewrite (break_at_app _ _ _ Hdot).
    destruct (dec_int (N / pow10 (S d'))) eqn:E; [exfalso; eapply dec_int_nonempty; eauto|]. rewrite <- E.
    rewrite val_dec_int by exact HI. rewrite val_digits_w by lia. rewrite length_digits_w.
    f_equal. apply Qred_complete. rewrite Z.mul_0_l, Z.add_0_l, Z.mod_mod by lia.
    set (P := pow10 (S d')) in *. rewrite !Qmake_Qdiv, Z2Pos.id by exact HP.
    rewrite (Z.div_mod N P) at 3 by lia. rewrite inject_Z_plus, inject_Z_mult.
    assert (0 < inject_Z P) by (change 0 with (inject_Z 0); rewrite <- Zlt_Qlt; exact HP).
    field. lra.
Qed.

Lemma unsigned_text_first d N : exists c r, unsigned_text d N = c :: r /\ is_digit c = true.
Proof.
  unfold unsigned_text. pose proof (dec_int_digits (N / pow10 d)) as H.
  destruct (dec_int (N / pow10 d)) as [|c r] eqn:E; [exfalso; eapply dec_int_nonempty; eauto|].
  exists c, (r ++ match d with O => [] | _ => "."%char :: digits_w d (N mod pow10 d) end). split; [reflexivity|].
  inversion H; assumption.
Qed.

Lemma parse_dec_fmt_sb sb d x :
  parse_dec (fmt_fixed_sb sb d x) =
  Some (if sb then Qred (- Qred (dec_scaled d x # Z.to_pos (pow10 d))) else Qred (dec_scaled d x # Z.to_pos (pow10 d))).
Proof.
  unfold fmt_fixed_sb. fold (unsigned_text d (dec_scaled d x)). pose proof (dec_scaled_nonneg d x) as HN.
  destruct sb; cbn [app].
  - cbn [parse_dec]. rewrite Ascii.eqb_refl. rewrite parse_unsigned_fmt by exact HN. reflexivity.
  - destruct (unsigned_text_first d (dec_scaled d x)) as (c & r & E & Hc). rewrite E. cbn [parse_dec].
    rewrite (digit_not c "-"%char Hc), (digit_not c "+"%char Hc) by (cbn; tauto).
    rewrite <- E. apply parse_unsigned_fmt. exact HN.
Qed.

Lemma sb_ok_with_sign x : sb_ok (Qltb' x 0) x.
Proof.
  split; intros H; [apply Qltb'_true; exact H|]. apply Qltb'_false. apply Qlt_le_weak; exact H.
Qed.

#[local] Instance rhe_comp : Proper (Qeq ==> eq) round_half_even.
Proof.
  intros a b E. unfold round_half_even. rewrite (Qfloor_comp _ _ E).
  assert (E2 : (a - inject_Z (Qfloor b) ?= 1 # 2) = (b - inject_Z (Qfloor b) ?= 1 # 2)) by (rewrite E; reflexivity).
  rewrite E2. reflexivity.
Qed.

Lemma dec_scaled_zero d x : x == 0 -> dec_scaled d x = 0%Z.
Proof.
  intros E. unfold dec_scaled. assert (E2 : Qabs x * inject_Z (pow10 d) == 0) by (rewrite E; cbn; ring).
  rewrite E2. reflexivity.
Qed.

(** C16_parse_fmt : reading back a printed value gives exactly the value rounded to d decimals *)
Lemma parse_fmt_sb sb d x : sb_ok sb x -> parse_dec (fmt_fixed_sb sb d x) = Some (dec_round d x).
Proof.
  intros [H1 H2]. rewrite parse_dec_fmt_sb. f_equal. unfold dec_round.
  destruct (Qltb' x 0) eqn:E.
  - apply Qltb'_true in E. rewrite (H1 E). apply Qred_complete. rewrite Qred_correct. reflexivity.
  - apply Qltb'_false in E. destruct sb; [|reflexivity].
    assert (Hz : x == 0).
    { destruct (Qlt_le_dec 0 x) as [Hp|Hn]; [specialize (H2 Hp); discriminate|]. apply Qle_antisym; assumption. }
    rewrite (dec_scaled_zero d x Hz). apply Qred_complete. rewrite Qred_correct. unfold Qeq; cbn. reflexivity.
Qed.
Lemma parse_fmt d x : parse_dec (fmt_fixed d x) = Some (dec_round d x).
Proof. apply parse_fmt_sb, sb_ok_with_sign. Qed.

(** * D. lines, tokens, and the loader on a saved text *)
Definition numcharb (c : ascii) : bool := is_digit c || Ascii.eqb c "-"%char || Ascii.eqb c "."%char.
Definition hdrcharb (c : ascii) : bool := numcharb c || Ascii.eqb c " "%char.

Lemma numchar_props c : numcharb c = true ->
  is_break c = false /\ is_fbreak c = false /\ is_ws c = false /\ Ascii.eqb c ","%char = false /\
  Ascii.eqb c "#"%char = false /\ is_e c = false.
Proof. ascii_cases c; intros; repeat split; reflexivity. Qed.
Lemma hdrchar_props c : hdrcharb c = true ->
  is_break c = false /\ is_fbreak c = false /\ Ascii.eqb c "#"%char = false.
Proof. ascii_cases c; intros; repeat split; reflexivity. Qed.
Lemma break_fbreak c : is_break c = false -> is_fbreak c = false.
Proof. ascii_cases c. Qed.
Lemma digit_numchar c : is_digit c = true -> numcharb c = true.
Proof. unfold numcharb. intros ->. reflexivity. Qed.
Lemma numchar_hdrchar c : numcharb c = true -> hdrcharb c = true.
Proof. unfold hdrcharb. intros ->. reflexivity. Qed.

Lemma fmt_numchars sb d x : Forall (fun c => numcharb c = true) (fmt_fixed_sb sb d x).
Proof.
  unfold fmt_fixed_sb. apply Forall_app; split; [|apply Forall_app; split].
  - destruct sb; constructor; [reflexivity|constructor].
  - eapply Forall_impl; [|apply dec_int_digits]. apply digit_numchar.
  - destruct d; [constructor|]. constructor; [reflexivity|].
    eapply Forall_impl; [|apply digits_w_digits]. apply digit_numchar.
Qed.
Lemma fmt_nonempty sb d x : fmt_fixed_sb sb d x <> [].
Proof.
  unfold fmt_fixed_sb. destruct sb; cbn; [discriminate|].
  intros H. apply app_eq_nil in H. destruct H as [H _]. eapply dec_int_nonempty; eauto.
Qed.

(** generic split / join *)
Lemma split_by_clean p l : Forall (fun a => p a = false) l -> split_by p l = [l].
Proof. induction 1 as [|a l Ha _ IH]; cbn; [reflexivity|]. rewrite Ha, IH. reflexivity. Qed.
Lemma split_by_app p c l rest : p c = true -> Forall (fun a => p a = false) l ->
  split_by p (l ++ c :: rest) = l :: split_by p rest.
Proof.
  intros Hc. induction 1 as [|a l Ha _ IH]; cbn.
  - rewrite Hc. reflexivity.
  - rewrite Ha, IH. reflexivity.
Qed.
Lemma split_by_join p c ls : p c = true -> ls <> [] -> Forall (Forall (fun a => p a = false)) ls ->
  split_by p (join_with c ls) = ls.
Proof.
  intros Hc. induction ls as [|l r IH]; intros Hne H; [congruence|].
  inversion H as [|? ? Hl Hr]; subst. destruct r as [|l2 r2].
  - cbn. apply split_by_clean; assumption.
  - change (join_with c (l :: l2 :: r2)) with (l ++ c :: join_with c (l2 :: r2)).
    rewrite split_by_app by assumption. f_equal. apply IH; [discriminate|assumption].
Qed.

Lemma dle_cons l r : r <> [] -> drop_last_empty (l :: r) = l :: drop_last_empty r.
Proof. intros H. destruct l, r; try congruence; reflexivity. Qed.
Lemma dle_id ls : Forall (fun l => l <> []) ls -> drop_last_empty ls = ls.
Proof.
  induction 1 as [|l r Hl _ IH]; [reflexivity|]. destruct l; [congruence|].
  cbn [drop_last_empty]. rewrite IH. reflexivity.
Qed.

Lemma filter_all {A} (f : A -> bool) l : Forall (fun a => f a = true) l -> filter f l = l.
Proof. induction 1 as [|a l Ha _ IH]; cbn; [reflexivity|]. rewrite Ha, IH. reflexivity. Qed.

Lemma header_chars n dt : Forall (fun c => hdrcharb c = true) (header_line n dt).
Proof.
  unfold header_line. apply Forall_app; split.
  - eapply Forall_impl; [|apply dec_int_digits]. intros a Ha. apply numchar_hdrchar, digit_numchar, Ha.
  - constructor; [reflexivity|]. eapply Forall_impl; [|apply fmt_numchars]. apply numchar_hdrchar.
Qed.
Lemma header_nonempty n dt : header_line n dt <> [].
Proof. unfold header_line. intros H. apply app_eq_nil in H. destruct H as [_ H]. discriminate. Qed.

Definition value_lines (vals : list (bool * Q)) : list text := map (fun v => fmt_fixed_sb (fst v) 6 (snd v)) vals.

Lemma Forall_impl' {A} (P Q : A -> Prop) l : Forall P l -> (forall a, P a -> Q a) -> Forall Q l.
Proof. intros H HI. eapply Forall_impl; eauto. Qed.

Lemma value_lines_chars vals : Forall (Forall (fun c => numcharb c = true)) (value_lines vals).
Proof. unfold value_lines. apply Forall_map. apply Forall_forall. intros; apply fmt_numchars. Qed.
Lemma value_lines_nonempty vals : Forall (fun l => l <> []) (value_lines vals).
Proof. unfold value_lines. apply Forall_map. apply Forall_forall. intros; apply fmt_nonempty. Qed.

Lemma save_lines_clean p label dt vals :
  Forall (fun c => p c = false) label -> (forall c, hdrcharb c = true -> p c = false) ->
  Forall (Forall (fun a => p a = false)) (save_lines_sb label dt vals).
Proof.
  intros Hl Hp. unfold save_lines_sb. constructor; [exact Hl|]. constructor.
  - eapply Forall_impl'; [apply header_chars|]. exact Hp.
  - fold (value_lines vals). eapply Forall_impl'; [apply value_lines_chars|]. intros l H.
    eapply Forall_impl'; [exact H|]. intros c Hc. apply Hp, numchar_hdrchar, Hc.
Qed.

Lemma nl_break : is_break nl = true. Proof. reflexivity. Qed.
Lemma nl_fbreak : is_fbreak nl = true. Proof. reflexivity. Qed.

(** C16_lines: the saved text splits back into exactly the lines that were written *)
Lemma splitlines_save label dt vals : no_break label ->
  splitlines (save_sb label dt vals) = save_lines_sb label dt vals.
Proof.
  intros Hl. unfold splitlines, save_sb. rewrite (split_by_join is_break nl) ;
    [|apply nl_break|discriminate|apply save_lines_clean; [exact Hl|intros c Hc; apply hdrchar_props, Hc]].
  unfold save_lines_sb. rewrite dle_cons by discriminate. f_equal. apply dle_id.
  constructor; [apply header_nonempty|apply value_lines_nonempty].
Qed.

Lemma file_lines_save label dt vals : no_break label ->
  split_by is_fbreak (save_sb label dt vals) = save_lines_sb label dt vals.
Proof.
  intros Hl. unfold save_sb. apply (split_by_join is_fbreak nl); [apply nl_fbreak|discriminate|].
  apply save_lines_clean; [|intros c Hc; apply hdrchar_props, Hc].
  eapply Forall_impl'; [exact Hl|]. apply break_fbreak.
Qed.

Lemma load_label_save label dt vals : no_break label -> load_label (save_sb label dt vals) = label.
Proof. intros Hl. unfold load_label. rewrite splitlines_save by exact Hl. reflexivity. Qed.

Lemma break_e_none s : Forall (fun a => is_e a = false) s -> break_e s = (s, None).
Proof. induction 1 as [|a s Ha _ IH]; cbn; [reflexivity|]. rewrite Ha, IH. reflexivity. Qed.
Lemma parse_float_fmt sb d x : sb_ok sb x -> parse_float (fmt_fixed_sb sb d x) = Some (dec_round d x).
Proof.
  intros H. unfold parse_float. rewrite break_e_none.
  - apply parse_fmt_sb; exact H.
  - eapply Forall_impl'; [apply fmt_numchars|]. intros c Hc. apply numchar_props, Hc.
Qed.

Lemma tokens_header n dt : tokens (header_line n dt) = [dec_int (Z.of_nat n); fmt_fixed 4 dt].
Proof.
  unfold tokens, header_line. rewrite (split_by_app is_ws sp); [|reflexivity|].
  - rewrite split_by_clean.
    + cbn [filter]. destruct (dec_int (Z.of_nat n)) eqn:E; [exfalso; eapply dec_int_nonempty; eauto|].
      cbn [nonempty]. destruct (fmt_fixed 4 dt) eqn:E2; [exfalso; eapply fmt_nonempty; eauto|]. reflexivity.
    + eapply Forall_impl'; [apply fmt_numchars|]. intros c Hc. apply numchar_props, Hc.
  - eapply Forall_impl'; [apply dec_int_digits|]. intros c Hc. apply numchar_props, digit_numchar, Hc.
Qed.

(** C16_dt_all: for EVERY dt (no range restriction, in particular dt >= 1) the loaded time step is the nearest
    binary64 to dt rounded to 4 decimals *)
Lemma load_dt_save label dt vals : no_break label ->
  load_dt (save_sb label dt vals) = Some (round_b64 (dec_round 4 dt)).
Proof.
  intros Hl. unfold load_dt. rewrite splitlines_save by exact Hl. unfold save_lines_sb.
  rewrite tokens_header. unfold fmt_fixed. rewrite parse_float_fmt by apply sb_ok_with_sign. reflexivity.
Qed.

Lemma drop_ws_clean s : Forall (fun a => is_ws a = false) s -> drop_ws s = s.
Proof. destruct 1 as [|a s Ha _]; cbn; [reflexivity|]. rewrite Ha. reflexivity. Qed.
Lemma strip_clean s : Forall (fun a => is_ws a = false) s -> strip s = s.
Proof.
  intros H. unfold strip. rewrite (drop_ws_clean s H). rewrite drop_ws_clean; [apply rev_involutive|].
  apply Forall_rev. exact H.
Qed.

Lemma field0_value l : Forall (fun c => numcharb c = true) l -> field0 l = l.
Proof.
  intros H. unfold field0. rewrite break_at_none; cbn [fst].
  - rewrite split_by_clean; cbn [hd].
    + apply strip_clean. eapply Forall_impl'; [exact H|]. intros c Hc. apply numchar_props, Hc.
    + eapply Forall_impl'; [exact H|]. intros c Hc. apply numchar_props, Hc.
  - eapply Forall_impl'; [exact H|]. intros c Hc. apply numchar_props, Hc.
Qed.

Lemma not_blank_line l : l <> [] -> Forall (fun c => hdrcharb c = true) l -> (exists c r, l = c :: r /\ is_ws c = false) ->
  negb (is_blank (fst (break_at "#"%char l))) = true.
Proof.
  intros _ H (c & r & -> & Hc). rewrite break_at_none.
  - cbn. rewrite Hc. reflexivity.
  - eapply Forall_impl'; [exact H|]. intros a Ha. apply hdrchar_props, Ha.
Qed.

Lemma first_nonws_num l : l <> [] -> Forall (fun c => numcharb c = true) l -> exists c r, l = c :: r /\ is_ws c = false.
Proof.
  intros Hne H. destruct l as [|c r]; [congruence|]. exists c, r. split; [reflexivity|].
  inversion H; subst. apply numchar_props. assumption.
Qed.

Lemma data_lines_save label dt vals : no_break label ->
  data_lines (save_sb label dt vals) = value_lines vals.
Proof.
  intros Hl. unfold data_lines. rewrite file_lines_save by exact Hl. unfold save_lines_sb. cbn [tl].
  fold (value_lines vals). rewrite filter_all; [reflexivity|]. constructor.
  - apply not_blank_line; [apply header_nonempty|apply header_chars|].
    unfold header_line. pose proof (dec_int_digits (Z.of_nat (List.length vals))) as Hd.
    destruct (dec_int (Z.of_nat (List.length vals))) as [|c r] eqn:E; [exfalso; eapply dec_int_nonempty; eauto|].
    exists c, (r ++ sp :: fmt_fixed 4 dt). split; [reflexivity|]. inversion Hd; subst.
    apply numchar_props, digit_numchar. assumption.
  - pose proof (value_lines_chars vals) as H1. pose proof (value_lines_nonempty vals) as H2.
    induction (value_lines vals) as [|l ls IH]; [constructor|].
    inversion H1; inversion H2; subst. constructor; [|apply IH; assumption].
    apply not_blank_line; [assumption| |apply first_nonws_num; assumption].
    eapply Forall_impl'; [eassumption|]. apply numchar_hdrchar.
Qed.

(** C16_values: every loaded value is the nearest binary64 to the written value rounded to 6 decimals; same count *)
Lemma load_values_save label dt vals : no_break label -> Forall (fun v => sb_ok (fst v) (snd v)) vals ->
  load_values (save_sb label dt vals) = Some (map (fun v => round_b64 (dec_round 6 (snd v))) vals).
Proof.
  intros Hl Hs. unfold load_values. rewrite data_lines_save by exact Hl. unfold value_lines.
  induction Hs as [|v vals Hv _ IH]; [reflexivity|]. cbn [map sequence].
  rewrite field0_value by apply fmt_numchars. rewrite parse_float_fmt by exact Hv. cbn [option_map].
  rewrite IH. reflexivity.
Qed.

(** * E. nearest binary64: error bound of [round_b64] *)
Lemma pow2_pos s : 0 < Qpower 2 s.
Proof. apply Qpower_0_lt. reflexivity. Qed.
Lemma pow2_plus a b : Qpower 2 (a + b) == Qpower 2 a * Qpower 2 b.
Proof. apply Qpower_plus. intros H; discriminate. Qed.
Lemma pow2_inj k : (0 <= k)%Z -> inject_Z (2 ^ k) == Qpower 2 k.
Proof. intros H. rewrite Zpower_Qpower by exact H. reflexivity. Qed.

Lemma Qmake_div (y : Q) : y == inject_Z (Qnum y) / inject_Z (Zpos (Qden y)).
Proof. destruct y as [n d]. cbn [Qnum Qden]. apply Qmake_Qdiv. Qed.

Lemma ilog2_lower y : 0 < y -> Qpower 2 (ilog2 y) <= y.
Proof.
  intros Hy. unfold ilog2. set (a := Z.log2 (Qnum y)). set (b := Z.log2 (Zpos (Qden y))).
  destruct (Qle_bool (Qpower 2 (a - b)) y) eqn:E; [apply Qle_bool_iff; exact E|].
  assert (Hn : (0 < Qnum y)%Z). { destruct y as [n d]. unfold Qlt in Hy; cbn in *. lia. }
  pose proof (Z.log2_spec _ Hn) as [Ha _]. fold a in Ha.
  assert (Hdp : (0 < Zpos (Qden y))%Z) by lia.
  pose proof (Z.log2_spec _ Hdp) as [_ Hb]. fold b in Hb.
  assert (Ha0 : (0 <= a)%Z) by apply Z.log2_nonneg. assert (Hb0 : (0 <= b)%Z) by apply Z.log2_nonneg.
  rewrite (Qmake_div y) at 1. set (n := Qnum y) in *. set (d := Zpos (Qden y)) in *.
  assert (Hd : 0 < inject_Z d) by (change 0 with (inject_Z 0); rewrite <- Zlt_Qlt; exact Hdp).
  apply Qle_shift_div_l; [exact Hd|].
  apply Qle_trans with (Qpower 2 (a - b - 1) * Qpower 2 (Z.succ b)).
  - apply Qmult_le_l; [apply pow2_pos|]. rewrite <- pow2_inj by lia. rewrite <- Zle_Qle. lia.
  - rewrite <- pow2_plus. replace (a - b - 1 + Z.succ b)%Z with a by lia. rewrite <- pow2_inj by lia.
    rewrite <- Zle_Qle. exact Ha.
Qed.

Lemma mul_close m y P h : 0 < P -> Qabs (m - y / P) <= h -> Qabs (m * P - y) <= h * P.
Proof.
  intros HP H. apply Qabs_Qle_condition in H. destruct H as [Hl Hu]. apply Qabs_Qle_condition.
  assert (E : y == (y / P) * P) by (field; lra). set (t := y / P) in *.
  assert (HP0 : 0 <= P) by lra.
  pose proof (Qmult_le_compat_r _ _ P Hl HP0) as H1. pose proof (Qmult_le_compat_r _ _ P Hu HP0) as H2.
  split.
  - setoid_replace (m * P - y) with ((m - t) * P) by (rewrite E; ring).
    setoid_replace (- (h * P)) with (- h * P) by ring. exact H1.
  - setoid_replace (m * P - y) with ((m - t) * P) by (rewrite E; ring). exact H2.
Qed.

Definition u53 : Q := Qpower 2 (-53).
Definition tiny : Q := Qpower 2 (-1075).

Lemma half_step_bound y : 0 < y ->
  (1 # 2) * Qpower 2 (Z.max (ilog2 y - 52) (-1074)) <= y * u53 + tiny.
Proof.
  intros Hy. pose proof (ilog2_lower y Hy) as Hl. set (e := ilog2 y) in *.
  assert (Hu : 0 < u53) by apply pow2_pos. assert (Ht : 0 < tiny) by apply pow2_pos.
  destruct (Z.max_spec (e - 52) (-1074)) as [[_ ->]|[_ ->]].
  - assert (E : (1 # 2) * Qpower 2 (-1074) == tiny) by (vm_compute; reflexivity).
    rewrite E. assert (0 <= y * u53) by (apply Qmult_le_0_compat; lra). lra.
  - replace (e - 52)%Z with (e + -52)%Z by lia. rewrite pow2_plus.
    assert (E : forall t, (1 # 2) * (t * Qpower 2 (-52)) == t * u53).
    { intros t. assert (E' : (1 # 2) * Qpower 2 (-52) == u53) by (vm_compute; reflexivity). rewrite <- E'. ring. }
    rewrite E. assert (Qpower 2 e * u53 <= y * u53) by (apply Qmult_le_compat_r; lra). lra.
Qed.

(** |round_b64 x - x| <= 2^-53 |x| + 2^-1075  (the second term only matters on the subnormal grid) *)
Lemma round_b64_close x : Qabs (round_b64 x - x) <= Qabs x * u53 + tiny.
Proof.
  unfold round_b64. destruct (Qeq_bool x 0) eqn:Ez.
  - apply Qeq_bool_iff in Ez. rewrite Ez. vm_compute. discriminate.
  - assert (Hx : ~ x == 0) by (apply Qeq_bool_neq; exact Ez).
    assert (Hy : 0 < Qabs x).
    { destruct (Qlt_le_dec x 0) as [H|H].
      - rewrite Qabs_neg by lra. lra.
      - rewrite Qabs_pos by exact H. apply Qle_lteq in H. destruct H as [H|H]; [exact H|].
        exfalso; apply Hx; symmetry; exact H. }
    rewrite Qred_correct. set (y := Qabs x) in *. set (s := Z.max (ilog2 y - 52) (-1074)).
    pose proof (rhe_spec (y * Qpower 2 (- s))) as H. set (m := round_half_even (y * Qpower 2 (- s))) in *.
    pose proof (pow2_pos s) as HP.
    assert (E : y * Qpower 2 (- s) == y / Qpower 2 s) by (rewrite Qpower_opp; reflexivity).
    rewrite E in H. apply mul_close in H; [|exact HP].
    pose proof (half_step_bound y Hy) as Hb. fold s in Hb.
    set (P := Qpower 2 s) in *. set (r := inject_Z m * P) in *.
    apply Qabs_Qle_condition in H. destruct H as [H1 H2]. apply Qabs_Qle_condition.
    generalize dependent u53. generalize dependent tiny. intros tn u Hb.
    destruct (Qltb' x 0) eqn:Es.
    + apply Qltb'_true in Es. assert (Ey : y == - x) by (unfold y; apply Qabs_neg; lra). split; lra.
    + apply Qltb'_false in Es. assert (Ey : y == x) by (unfold y; apply Qabs_pos; lra). split; lra.
Qed.

(** * F. the entry points on a saved text, and the resulting error bounds *)
Lemma with_sign_ok xs : Forall (fun v => sb_ok (fst v) (snd v)) (map with_sign xs).
Proof. apply Forall_map. apply Forall_forall. intros x _. apply sb_ok_with_sign. Qed.

Definition rt_val (x : Q) : Q := round_b64 (dec_round 6 x).
Definition rt_dt (dt : Q) : Q := round_b64 (dec_round 4 dt).

Lemma lvd_save_sb label dt vals : no_break label -> Forall (fun v => sb_ok (fst v) (snd v)) vals ->
  load_values_and_dt (save_sb label dt vals) = Some (map (fun v => rt_val (snd v)) vals, rt_dt dt).
Proof.
  intros Hl Hs. unfold load_values_and_dt. rewrite load_values_save, load_dt_save by assumption. reflexivity.
Qed.
Lemma lvd_save label dt xs : no_break label ->
  load_values_and_dt (save label dt xs) = Some (map rt_val xs, rt_dt dt).
Proof.
  intros Hl. unfold save. rewrite lvd_save_sb by (exact Hl || apply with_sign_ok).
  rewrite map_map. reflexivity.
Qed.
Lemma load_sig_save m label dt xs : no_break label ->
  load_sig m (save label dt xs) =
  Some {| l_kind := KSignal; l_vals := scale m (map rt_val xs); l_dt := rt_dt dt; l_label := default_label |}.
Proof. intros Hl. unfold load_sig. rewrite lvd_save by exact Hl. reflexivity. Qed.
Lemma load_asig_save wl m label dt xs : no_break label ->
  load_asig wl m (save label dt xs) =
  Some {| l_kind := KAccSignal; l_vals := scale m (map rt_val xs); l_dt := rt_dt dt;
          l_label := if wl then label else default_label |}.
Proof.
  intros Hl. unfold load_asig. rewrite lvd_save by exact Hl. cbn [option_map fst snd].
  unfold save. rewrite load_label_save by exact Hl. reflexivity.
Qed.
Lemma load_signal_save astype label dt xs : no_break label ->
  load_signal astype (save label dt xs) =
  Some (option_map (fun k => {| l_kind := k; l_vals := map rt_val xs; l_dt := rt_dt dt; l_label := default_label |})
                   (astype_kind astype)).
Proof. intros Hl. unfold load_signal. rewrite lvd_save by exact Hl. reflexivity. Qed.

Lemma u53_pos : 0 < u53. Proof. apply pow2_pos. Qed.
Lemma tiny_pos : 0 < tiny. Proof. apply pow2_pos. Qed.

Lemma Qabs_le_add a b e : Qabs (a - b) <= e -> Qabs a <= Qabs b + e.
Proof.
  intros H. apply Qabs_Qle_condition in H. destruct H as [H1 H2].
  apply Qabs_case; intros; revert H1 H2; apply (Qabs_case b); intros; lra.
Qed.

(** a value / a time step read back after rounding to [d] decimals (half unit [h]) and to binary64 *)
Lemma rt_close d h x : (1 # 2) / inject_Z (pow10 d) == h ->
  Qabs (round_b64 (dec_round d x) - x) <= h + (Qabs x + h) * u53 + tiny.
Proof.
  intros Eh. pose proof (dec_round_close d x) as H1. rewrite Eh in H1.
  pose proof (round_b64_close (dec_round d x)) as H2. set (D := dec_round d x) in *.
  pose proof (Qabs_le_add _ _ _ H1) as H3.
  assert (H4 : Qabs D * u53 <= (Qabs x + h) * u53).
  { apply Qmult_le_compat_r; [exact H3|]. apply Qlt_le_weak, u53_pos. }
  apply Qabs_Qle_condition in H1. apply Qabs_Qle_condition in H2. apply Qabs_Qle_condition.
  generalize dependent u53. intros u H2 H4. generalize dependent tiny. intros tn H2.
  destruct H1, H2. split; lra.
Qed.

Definition E6 (x : Q) : Q := (1 # 2000000) + (Qabs x + (1 # 2000000)) * u53 + tiny.
Definition E4 (x : Q) : Q := (1 # 20000) + (Qabs x + (1 # 20000)) * u53 + tiny.
Lemma rt_val_close x : Qabs (rt_val x - x) <= E6 x.
Proof. apply (rt_close 6). reflexivity. Qed.
Lemma rt_dt_close dt : Qabs (rt_dt dt - dt) <= E4 dt.
Proof. apply (rt_close 4). reflexivity. Qed.

(** the scaled value: one more binary64 rounding of the product *)
Lemma scaled_close x m : Qabs (round_b64 (rt_val x * m) - x * m) <= Qabs m * E6 x + (Qabs m * (Qabs x + E6 x)) * u53 + tiny.
Proof.
  pose proof (rt_val_close x) as H1. set (y := rt_val x) in *. set (E := E6 x) in *.
  pose proof (round_b64_close (y * m)) as H2. rewrite Qabs_Qmult in H2.
  pose proof (Qabs_le_add _ _ _ H1) as H3. pose proof (Qabs_nonneg m) as Hm.
  assert (H4 : Qabs y * Qabs m <= (Qabs x + E) * Qabs m) by (apply Qmult_le_compat_r; assumption).
  assert (H5 : Qabs y * Qabs m * u53 <= (Qabs x + E) * Qabs m * u53).
  { apply Qmult_le_compat_r; [exact H4|]. apply Qlt_le_weak, u53_pos. }
  assert (H6 : Qabs (y * m - x * m) <= E * Qabs m).
  { setoid_replace (y * m - x * m) with ((y - x) * m) by ring. rewrite Qabs_Qmult.
    apply Qmult_le_compat_r; assumption. }
  set (z := round_b64 (y * m)) in *.
  setoid_replace (z - x * m) with ((z - y * m) + (y * m - x * m)) by ring.
  eapply Qle_trans; [apply Qabs_triangle|].
  generalize dependent (Qabs (z - y * m)). generalize dependent (Qabs (y * m - x * m)). intros q1 H6 q2 H2.
  generalize dependent u53. intros u H2 H5. 
  setoid_replace (Qabs m * (Qabs x + E) * u) with ((Qabs x + E) * Qabs m * u) by ring.
  setoid_replace (Qabs m * E) with (E * Qabs m) by ring.
  generalize dependent ((Qabs x + E) * Qabs m * u). generalize dependent (E * Qabs m).
  generalize dependent (Qabs y * Qabs m * u). intros. lra.
Qed.

Lemma length_scale m v : List.length (scale m v) = List.length v.
Proof. apply map_length. Qed.
Lemma nth_scale m v i : (i < List.length v)%nat -> nth i (scale m v) 0 = round_b64 (nth i v 0 * m).
Proof.
  intros H. unfold scale. rewrite (nth_indep _ 0 (round_b64 (0 * m))) by (rewrite map_length; exact H).
  apply (map_nth (fun y => round_b64 (y * m))).
Qed.
Lemma nth_rt xs i : (i < List.length xs)%nat -> nth i (map rt_val xs) 0 = rt_val (nth i xs 0).
Proof.
  intros H. rewrite (nth_indep _ 0 (rt_val 0)) by (rewrite map_length; exact H). apply (map_nth rt_val).
Qed.

(** * G. [round_b64 x] is a nearest point of the binary64 grid *)
Lemma ilog2_upper y : 0 < y -> y < Qpower 2 (ilog2 y + 1).
Proof.
  intros Hy. unfold ilog2. set (a := Z.log2 (Qnum y)). set (b := Z.log2 (Zpos (Qden y))).
  destruct (Qle_bool (Qpower 2 (a - b)) y) eqn:E.
  - assert (Hn : (0 < Qnum y)%Z). { destruct y as [n d]. unfold Qlt in Hy; cbn in *. lia. }
    pose proof (Z.log2_spec _ Hn) as [_ Ha]. fold a in Ha.
    assert (Hdp : (0 < Zpos (Qden y))%Z) by lia.
    pose proof (Z.log2_spec _ Hdp) as [Hb _]. fold b in Hb.
    assert (Ha0 : (0 <= a)%Z) by apply Z.log2_nonneg. assert (Hb0 : (0 <= b)%Z) by apply Z.log2_nonneg.
    rewrite (Qmake_div y) at 1. set (n := Qnum y) in *. set (d := Zpos (Qden y)) in *.
    assert (Hd : 0 < inject_Z d) by (change 0 with (inject_Z 0); rewrite <- Zlt_Qlt; exact Hdp).
    apply Qlt_shift_div_r; [exact Hd|].
    apply Qlt_le_trans with (Qpower 2 (Z.succ a)).
    + rewrite <- pow2_inj by lia. rewrite <- Zlt_Qlt. exact Ha.
    + replace (Z.succ a) with ((a - b + 1) + b)%Z by lia. rewrite pow2_plus.
      apply Qmult_le_l; [apply pow2_pos|]. rewrite <- pow2_inj by lia. rewrite <- Zle_Qle. exact Hb.
  - replace (a - b - 1 + 1)%Z with (a - b)%Z by lia.
    destruct (Qlt_le_dec y (Qpower 2 (a - b))) as [H|H]; [exact H|].
    apply Qle_bool_iff in H. congruence.
Qed.

Lemma rhe_le q k : q < inject_Z k -> (round_half_even q <= k)%Z.
Proof.
  intros H. pose proof (Qfloor_le q) as H1. assert (Hf : (Qfloor q < k)%Z).
  { rewrite Zlt_Qlt. eapply Qle_lt_trans; eauto. }
  unfold round_half_even. destruct (q - inject_Z (Qfloor q) ?= 1 # 2); [destruct (Z.even (Qfloor q))| |]; lia.
Qed.

(** [round_b64 x] lies on the binary64 grid: an integer of at most 53 bits times 2^s with s >= -1074,
    and it is within half a grid step of x, i.e. it is a nearest grid point (ties resolved to even by [round_half_even]) *)
Lemma round_b64_grid x : ~ x == 0 ->
  exists m s, round_b64 x == inject_Z m * Qpower 2 s /\ (Z.abs m <= 2 ^ 53)%Z /\ (-1074 <= s)%Z /\
              Qabs (round_b64 x - x) <= (1 # 2) * Qpower 2 s.
Proof.
  intros Hx. unfold round_b64. destruct (Qeq_bool x 0) eqn:Ez; [apply Qeq_bool_iff in Ez; contradiction|].
  assert (Hy : 0 < Qabs x).
  { destruct (Qlt_le_dec x 0) as [H|H].
    - rewrite Qabs_neg by lra. lra.
    - rewrite Qabs_pos by exact H. apply Qle_lteq in H. destruct H as [H|H]; [exact H|].
      exfalso; apply Hx; symmetry; exact H. }
  set (y := Qabs x) in *. set (e := ilog2 y). set (s := Z.max (e - 52) (-1074)).
  set (m := round_half_even (y * Qpower 2 (- s))).
  assert (Hm0 : (0 <= m)%Z).
  { apply rhe_nonneg. apply Qmult_le_0_compat; [lra|apply Qlt_le_weak, pow2_pos]. }
  assert (Hm : (m <= 2 ^ 53)%Z).
  { apply rhe_le. apply Qlt_le_trans with (Qpower 2 (e + 1) * Qpower 2 (- s)).
    - apply Qmult_lt_r; [apply pow2_pos|]. apply ilog2_upper. exact Hy.
    - rewrite <- pow2_plus. rewrite pow2_inj by lia. apply Qpower_le_compat_l; [lia|lra]. }
  pose proof (rhe_spec (y * Qpower 2 (- s))) as H. fold m in H.
  pose proof (pow2_pos s) as HP.
  assert (E : y * Qpower 2 (- s) == y / Qpower 2 s) by (rewrite Qpower_opp; reflexivity).
  rewrite E in H. apply mul_close in H; [|exact HP].
  exists (if Qltb' x 0 then (- m)%Z else m), s. rewrite Qred_correct.
  set (P := Qpower 2 s) in *. split; [|split; [|split]].
  - destruct (Qltb' x 0); [rewrite inject_Z_opp; ring|reflexivity].
  - destruct (Qltb' x 0); lia.
  - unfold s. lia.
  - apply Qabs_Qle_condition in H. destruct H as [H1 H2]. apply Qabs_Qle_condition.
    destruct (Qltb' x 0) eqn:Es.
    + apply Qltb'_true in Es. assert (Ey : y == - x) by (unfold y; apply Qabs_neg; lra). split; lra.
    + apply Qltb'_false in Es. assert (Ey : y == x) by (unfold y; apply Qabs_pos; lra). split; lra.
Qed.
