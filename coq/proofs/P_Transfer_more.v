(** Q -> R transfer for the generic layers of model/M_smooth.v, model/M_multiple.v and the list-level functions of
    model/M_signalops.v (see proofs/P_Transfer.v for the conventions).  The kernels that exist only at R
    (Konno-Ohmachi window, cos/sin of an angle) and the scipy oracles enter as [rel]-respecting function pairs.
    For all inputs. *)
From Coq Require Import ZArith QArith Reals List Bool Lia.
From EQ Require Import lib.Num lib.NpList lib.Dft lib.Transfer model.M_smooth model.M_multiple model.M_fourier.
Import ListNotations.

(** * M_smooth (generic in the window function [w]) *)
Definition relF2 (w : Q -> Q -> Q) (w' : R -> R -> R) : Prop := forall a x b y, rel a x -> rel b y -> rel (w a b) (w' x y).
Lemma drop_zero_f_transfer fr fr' : relL fr fr' -> relL (drop_zero_f fr) (drop_zero_f fr').
Proof. xfer_def drop_zero_f. Qed.
Ltac hook_x1 h :=
  lazymatch h with
  | @drop_zero_f => apply drop_zero_f_transfer
  | _ => fail
  end.
Ltac xfer_hook ::= xfer_dispatch hook_x1.
Lemma drop_zero_a_transfer fr fr' am am' : relL fr fr' -> relL am am' -> relL (drop_zero_a fr am) (drop_zero_a fr' am').
Proof. xfer_def drop_zero_a. Qed.
Ltac hook_x2 h :=
  lazymatch h with
  | @drop_zero_a => apply drop_zero_a_transfer
  | _ => hook_x1 h
  end.
Ltac xfer_hook ::= xfer_dispatch hook_x2.
Lemma raw_col_transfer w w' fr fr' fc fc' : relF2 w w' -> relL fr fr' -> rel fc fc' -> relL (raw_col w fr fc) (raw_col w' fr' fc').
Proof. unfold relF2. xfer_def raw_col. Qed.
Ltac hook_x3 h :=
  lazymatch h with
  | @raw_col => apply raw_col_transfer
  | _ => hook_x2 h
  end.
Ltac xfer_hook ::= xfer_dispatch hook_x3.
Lemma norm_col_transfer col col' : relL col col' -> relL (norm_col col) (norm_col col').
Proof. xfer_def norm_col. Qed.
Ltac hook_x4 h :=
  lazymatch h with
  | @norm_col => apply norm_col_transfer
  | _ => hook_x3 h
  end.
Ltac xfer_hook ::= xfer_dispatch hook_x4.
Lemma ko_col_transfer w w' fr fr' fc fc' : relF2 w w' -> relL fr fr' -> rel fc fc' -> relL (ko_col w fr fc) (ko_col w' fr' fc').
Proof. xfer_def ko_col. Qed.
Ltac hook_x5 h :=
  lazymatch h with
  | @ko_col => apply ko_col_transfer
  | _ => hook_x4 h
  end.
Ltac xfer_hook ::= xfer_dispatch hook_x5.
Lemma wmean_transfer am am' col col' : relL am am' -> relL col col' -> rel (wmean am col) (wmean am' col').
Proof. xfer_def wmean. Qed.
Ltac hook_x6 h :=
  lazymatch h with
  | @wmean => apply wmean_transfer
  | _ => hook_x5 h
  end.
Ltac xfer_hook ::= xfer_dispatch hook_x6.
Lemma smooth_gen_transfer w w' fr fr' am am' tg tg' : relF2 w w' -> relL fr fr' -> relL am am' -> relL tg tg' ->
  relL (smooth_gen w fr am tg) (smooth_gen w' fr' am' tg').
Proof. xfer_def smooth_gen. Qed.
Ltac hook_x7 h :=
  lazymatch h with
  | @smooth_gen => apply smooth_gen_transfer
  | _ => hook_x6 h
  end.
Ltac xfer_hook ::= xfer_dispatch hook_x7.
Lemma smooth_gen_default_transfer w w' fr fr' am am' : relF2 w w' -> relL fr fr' -> relL am am' ->
  relL (smooth_gen_default w fr am) (smooth_gen_default w' fr' am').
Proof. xfer_def smooth_gen_default. Qed.
Ltac hook_x8 h :=
  lazymatch h with
  | @smooth_gen_default => apply smooth_gen_default_transfer
  | _ => hook_x7 h
  end.
Ltac xfer_hook ::= xfer_dispatch hook_x8.
Lemma matrix_gen_transfer w w' fr fr' tg tg' : relF2 w w' -> relL fr fr' -> relL tg tg' ->
  relLL (matrix_gen w fr tg) (matrix_gen w' fr' tg').
Proof. xfer_def matrix_gen. Qed.
Ltac hook_x9 h :=
  lazymatch h with
  | @matrix_gen => apply matrix_gen_transfer
  | _ => hook_x8 h
  end.
Ltac xfer_hook ::= xfer_dispatch hook_x9.
Lemma smooth_w_matrix_transfer am am' cols cols' : relL am am' -> relLL cols cols' ->
  relL (smooth_w_matrix am cols) (smooth_w_matrix am' cols').
Proof. xfer_def smooth_w_matrix. Qed.
Ltac hook_x10 h :=
  lazymatch h with
  | @smooth_w_matrix => apply smooth_w_matrix_transfer
  | _ => hook_x9 h
  end.
Ltac xfer_hook ::= xfer_dispatch hook_x10.
Lemma first_last_above_transfer lim lim' s s' : rel lim lim' -> relL s s' -> first_last_above lim s = first_last_above lim' s'.
Proof. xfer_def first_last_above. Qed.
Ltac hook_x11 h :=
  lazymatch h with
  | @first_last_above => apply first_last_above_transfer
  | _ => hook_x10 h
  end.
Ltac xfer_hook ::= xfer_dispatch hook_x11.
Lemma bw_idx_transfer r r' s s' : rel r r' -> relL s s' -> bw_idx r s = bw_idx r' s'.
Proof. xfer_def bw_idx. Qed.
Ltac hook_x12 h :=
  lazymatch h with
  | @bw_idx => apply bw_idx_transfer
  | _ => hook_x11 h
  end.
Ltac xfer_hook ::= xfer_dispatch hook_x12.
Lemma sig_idx_range_transfer r r' s s' : rel r r' -> relL s s' -> sig_idx_range r s = sig_idx_range r' s'.
Proof. xfer_def sig_idx_range. Qed.
Ltac hook_x13 h :=
  lazymatch h with
  | @sig_idx_range => apply sig_idx_range_transfer
  | _ => hook_x12 h
  end.
Ltac xfer_hook ::= xfer_dispatch hook_x13.
Lemma take_pair_transfer fr fr' r : relL fr fr' -> relO (relP rel rel) (take_pair fr r) (take_pair fr' r).
Proof. xfer_def take_pair. Qed.
Ltac hook_x14 h :=
  lazymatch h with
  | @take_pair => apply take_pair_transfer
  | _ => hook_x13 h
  end.
Ltac xfer_hook ::= xfer_dispatch hook_x14.
Lemma bandwidth_freqs_transfer r r' s s' fr fr' : rel r r' -> relL s s' -> relL fr fr' ->
  relO (relP rel rel) (bandwidth_freqs r s fr) (bandwidth_freqs r' s' fr').
Proof. xfer_def bandwidth_freqs. Qed.
Ltac hook_x15 h :=
  lazymatch h with
  | @bandwidth_freqs => apply bandwidth_freqs_transfer
  | _ => hook_x14 h
  end.
Ltac xfer_hook ::= xfer_dispatch hook_x15.
Lemma sig_freq_range_transfer r r' s s' fr fr' : rel r r' -> relL s s' -> relL fr fr' ->
  relO (relP rel rel) (sig_freq_range r s fr) (sig_freq_range r' s' fr').
Proof. xfer_def sig_freq_range. Qed.
Ltac hook_x16 h :=
  lazymatch h with
  | @sig_freq_range => apply sig_freq_range_transfer
  | _ => hook_x15 h
  end.
Ltac xfer_hook ::= xfer_dispatch hook_x16.

(** * M_multiple *)
(** a signal's values with the ndarray tag *)
Notation relTag := (relP relL (@eq bool)).
Ltac relof_hook A ::= lazymatch A with tagged => constr:(relTag) | @tagged Q => constr:(relTag) end.
(** the measure applied at each angle / the (cos, sin) kernel *)
Definition relM (m : list Q -> Q) (m' : list R -> R) : Prop := forall l l', relL l l' -> rel (m l) (m' l').
Definition relK (k : Q -> Q * Q) (k' : R -> R * R) : Prop := forall a x, rel a x -> relP rel rel (k a) (k' x).
Lemma mapi_from_transfer {A A' B B'} (RA : A -> A' -> Prop) (RB : B -> B' -> Prop) (f : nat -> A -> B) (g : nat -> A' -> B')
  i l l' : (forall i a a', RA a a' -> RB (f i a) (g i a')) -> Forall2 RA l l' ->
  Forall2 RB (mapi_from f i l) (mapi_from g i l').
Proof. intros Hf HF. revert i. induction HF; intros; cbn [mapi_from]; constructor; auto. Qed.
Lemma mapi_transfer {A A' B B'} (RA : A -> A' -> Prop) (RB : B -> B' -> Prop) (f : nat -> A -> B) (g : nat -> A' -> B')
  l l' : (forall i a a', RA a a' -> RB (f i a) (g i a')) -> Forall2 RA l l' -> Forall2 RB (mapi f l) (mapi g l').
Proof. apply mapi_from_transfer. Qed.
Ltac mapi_rule :=
  match goal with
  | |- Forall2 ?RB (mapi ?f ?l) (mapi ?g ?l') =>
      lazymatch type of l with list ?A0 => let ra := relof A0 in apply (mapi_transfer ra RB) end
  end.
Lemma combine_transfer c c' s s' ns ns' we we' : rel c c' -> rel s s' -> relL ns ns' -> relL we we' ->
  relL (combine c s ns we) (combine c' s' ns' we').
Proof. xfer_def combine. Qed.
Ltac hook_x17 h :=
  lazymatch h with
  | @combine => apply combine_transfer
  | _ => hook_x16 h
  end.
Ltac xfer_hook ::= first [ mapi_rule | xfer_dispatch hook_x17 ].
Lemma linspace_transfer a a' b b' points : rel a a' -> rel b b' -> relL (linspace a b points) (linspace a' b' points).
Proof. xfer_def linspace. Qed.
Ltac hook_x18 h :=
  lazymatch h with
  | @linspace => apply linspace_transfer
  | _ => hook_x17 h
  end.
Ltac xfer_hook ::= first [ mapi_rule | xfer_dispatch hook_x18 ].
Lemma mod360_transfer x x' : rel x x' -> rel (mod360 x) (mod360 x').
Proof. xfer_def mod360. Qed.
Ltac hook_x19 h :=
  lazymatch h with
  | @mod360 => apply mod360_transfer
  | _ => hook_x18 h
  end.
Ltac xfer_hook ::= first [ mapi_rule | xfer_dispatch hook_x19 ].
Lemma scan_angles_transfer off off' points : rel off off' -> relL (scan_angles off points) (scan_angles off' points).
Proof. xfer_def scan_angles. Qed.
Ltac hook_x20 h :=
  lazymatch h with
  | @scan_angles => apply scan_angles_transfer
  | _ => hook_x19 h
  end.
Ltac xfer_hook ::= first [ mapi_rule | xfer_dispatch hook_x20 ].
Lemma scan_values_transfer m m' ks ks' ns ns' we we' : relM m m' -> Forall2 (relP rel rel) ks ks' -> relL ns ns' -> relL we we' ->
  relL (scan_values m ks ns we) (scan_values m' ks' ns' we').
Proof. unfold relM. xfer_def scan_values. Qed.
Ltac hook_x21 h :=
  lazymatch h with
  | @scan_values => apply scan_values_transfer
  | _ => hook_x20 h
  end.
Ltac xfer_hook ::= first [ mapi_rule | xfer_dispatch hook_x21 ].
Lemma rotated_scan_transfer k k' m m' off off' points ns ns' we we' :
  relK k k' -> relM m m' -> rel off off' -> relL ns ns' -> relL we we' ->
  relP relL relL (rotated_scan k m off points ns we) (rotated_scan k' m' off' points ns' we').
Proof. unfold relK, relM. xfer_def rotated_scan. Qed.
Ltac hook_x22 h :=
  lazymatch h with
  | @rotated_scan => apply rotated_scan_transfer
  | _ => hook_x21 h
  end.
Ltac xfer_hook ::= first [ mapi_rule | xfer_dispatch hook_x22 ].
Lemma pyslice_transfer a b l l' : relL l l' -> relL (pyslice a b l) (pyslice a b l').
Proof. xfer_def pyslice. Qed.
Ltac hook_x23 h :=
  lazymatch h with
  | @pyslice => apply pyslice_transfer
  | _ => hook_x22 h
  end.
Ltac xfer_hook ::= first [ mapi_rule | xfer_dispatch hook_x23 ].
Lemma sqdiff_transfer x x' y y' : relL x x' -> relL y y' -> rel (sqdiff x y) (sqdiff x' y').
Proof. xfer_def sqdiff. Qed.
Ltac hook_x24 h :=
  lazymatch h with
  | @sqdiff => apply sqdiff_transfer
  | _ => hook_x23 h
  end.
Ltac xfer_hook ::= first [ mapi_rule | xfer_dispatch hook_x24 ].
Lemma prof_pos_transfer steps bm bm' om om' i : relL bm bm' -> relL om om' -> rel (prof_pos steps bm om i) (prof_pos steps bm' om' i).
Proof. xfer_def prof_pos. Qed.
Lemma prof_neg_transfer steps bm bm' om om' i : relL bm bm' -> relL om om' -> rel (prof_neg steps bm om i) (prof_neg steps bm' om' i).
Proof. xfer_def prof_neg. Qed.
Lemma prof_init_transfer steps bm bm' om om' : relL bm bm' -> relL om om' -> rel (prof_init steps bm om) (prof_init steps bm' om').
Proof. xfer_def prof_init. Qed.
Ltac hook_x25 h :=
  lazymatch h with
  | @prof_pos => apply prof_pos_transfer
  | @prof_neg => apply prof_neg_transfer
  | @prof_init => apply prof_init_transfer
  | _ => hook_x24 h
  end.
Ltac xfer_hook ::= first [ mapi_rule | xfer_dispatch hook_x25 ].
Lemma lag_candidates_transfer steps bm bm' om om' : relL bm bm' -> relL om om' ->
  Forall2 (relP eq rel) (lag_candidates steps bm om) (lag_candidates steps bm' om').
Proof. xfer_def lag_candidates. Qed.
Ltac hook_x26 h :=
  lazymatch h with
  | @lag_candidates => apply lag_candidates_transfer
  | _ => hook_x25 h
  end.
Ltac xfer_hook ::= first [ mapi_rule | xfer_dispatch hook_x26 ].
Lemma lag_upd_transfer st st' c c' : relP eq rel st st' -> relP eq rel c c' -> relP eq rel (lag_upd st c) (lag_upd st' c').
Proof. xfer_def lag_upd. Qed.
Ltac hook_x27 h :=
  lazymatch h with
  | @lag_upd => apply lag_upd_transfer
  | _ => hook_x26 h
  end.
Ltac xfer_hook ::= first [ mapi_rule | xfer_dispatch hook_x27 ].
Lemma find_lag_st_transfer steps bm bm' om om' : relL bm bm' -> relL om om' ->
  relP eq rel (find_lag_st steps bm om) (find_lag_st steps bm' om').
Proof. xfer_def find_lag_st. Qed.
Ltac hook_x28 h :=
  lazymatch h with
  | @find_lag_st => apply find_lag_st_transfer
  | _ => hook_x27 h
  end.
Ltac xfer_hook ::= first [ mapi_rule | xfer_dispatch hook_x28 ].
Lemma find_lag_transfer steps bm bm' om om' : relL bm bm' -> relL om om' -> find_lag steps bm om = find_lag steps bm' om'.
Proof. xfer_def find_lag. Qed.
Ltac hook_x29 h :=
  lazymatch h with
  | @find_lag => apply find_lag_transfer
  | _ => hook_x28 h
  end.
Ltac xfer_hook ::= first [ mapi_rule | xfer_dispatch hook_x29 ].
Lemma all_candidates_transfer steps bm bm' om om' : relL bm bm' -> relL om om' ->
  Forall2 (relP eq rel) (all_candidates steps bm om) (all_candidates steps bm' om').
Proof. xfer_def all_candidates. Qed.
Ltac hook_x30 h :=
  lazymatch h with
  | @all_candidates => apply all_candidates_transfer
  | _ => hook_x29 h
  end.
Ltac xfer_hook ::= first [ mapi_rule | xfer_dispatch hook_x30 ].
Lemma apply_lag_transfer lag om om' : relL om om' -> relL (apply_lag lag om) (apply_lag lag om').
Proof. xfer_def apply_lag. Qed.
Ltac hook_x31 h :=
  lazymatch h with
  | @apply_lag => apply apply_lag_transfer
  | _ => hook_x30 h
  end.
Ltac xfer_hook ::= first [ mapi_rule | xfer_dispatch hook_x31 ].
Lemma reset_values_transfer v v' : relL v v' -> relTag (reset_values v) (reset_values v').
Proof. xfer_def reset_values. Qed.
Ltac hook_x32 h :=
  lazymatch h with
  | @reset_values => apply reset_values_transfer
  | _ => hook_x31 h
  end.
Ltac xfer_hook ::= first [ mapi_rule | xfer_dispatch hook_x32 ].
Lemma length_check_transfer sigs sigs' : relLL sigs sigs' -> length_check sigs = length_check sigs'.
Proof. xfer_def length_check. Qed.
Ltac hook_x33 h :=
  lazymatch h with
  | @length_check => apply length_check_transfer
  | _ => hook_x32 h
  end.
Ltac xfer_hook ::= first [ mapi_rule | xfer_dispatch hook_x33 ].
Lemma tm_one_transfer steps master sigs sigs' s v v' : relLL sigs sigs' -> relL v v' ->
  relP relTag eq (tm_one steps master sigs s v) (tm_one steps master sigs' s v').
Proof. xfer_def tm_one. Qed.
Ltac hook_x34 h :=
  lazymatch h with
  | @tm_one => apply tm_one_transfer
  | _ => hook_x33 h
  end.
Ltac xfer_hook ::= first [ mapi_rule | xfer_dispatch hook_x34 ].
Lemma time_match_transfer steps master sigs sigs' : relLL sigs sigs' ->
  relP (Forall2 relTag) eq (time_match steps master sigs) (time_match steps master sigs').
Proof. xfer_def time_match. Qed.
Ltac hook_x35 h :=
  lazymatch h with
  | @time_match => apply time_match_transfer
  | _ => hook_x34 h
  end.
Ltac xfer_hook ::= first [ mapi_rule | xfer_dispatch hook_x35 ].
Lemma time_match_vals_transfer steps master sigs sigs' : relLL sigs sigs' ->
  relLL (time_match_vals steps master sigs) (time_match_vals steps master sigs').
Proof. xfer_def time_match_vals. Qed.
Ltac hook_x36 h :=
  lazymatch h with
  | @time_match_vals => apply time_match_vals_transfer
  | _ => hook_x35 h
  end.
Ltac xfer_hook ::= first [ mapi_rule | xfer_dispatch hook_x36 ].
Lemma trunc_transfer x x' : rel x x' -> trunc x = trunc x'.
Proof. xfer_def trunc. Qed.
Ltac hook_x37 h :=
  lazymatch h with
  | @trunc => apply trunc_transfer
  | _ => hook_x36 h
  end.
Ltac xfer_hook ::= first [ mapi_rule | xfer_dispatch hook_x37 ].
Lemma time_indices_transfer dt dt' start start' stop stop' : rel dt dt' -> rel start start' -> rel stop stop' ->
  time_indices dt start stop = time_indices dt' start' stop'.
Proof. xfer_def time_indices. Qed.
Ltac hook_x38 h :=
  lazymatch h with
  | @time_indices => apply time_indices_transfer
  | _ => hook_x37 h
  end.
Ltac xfer_hook ::= first [ mapi_rule | xfer_dispatch hook_x38 ].
Lemma section_transfer si ei l l' : relL l l' -> relL (section si ei l) (section si ei l').
Proof. xfer_def section. Qed.
Ltac hook_x39 h :=
  lazymatch h with
  | @section => apply section_transfer
  | _ => hook_x38 h
  end.
Ltac xfer_hook ::= first [ mapi_rule | xfer_dispatch hook_x39 ].
Lemma mean_transfer l l' : relL l l' -> rel (mean l) (mean l').
Proof. xfer_def mean. Qed.
Ltac hook_x40 h :=
  lazymatch h with
  | @mean => apply mean_transfer
  | _ => hook_x39 h
  end.
Ltac xfer_hook ::= first [ mapi_rule | xfer_dispatch hook_x40 ].
Lemma section_average_transfer si ei l l' : relL l l' -> rel (section_average si ei l) (section_average si ei l').
Proof. xfer_def section_average. Qed.
Ltac hook_x41 h :=
  lazymatch h with
  | @section_average => apply section_average_transfer
  | _ => hook_x40 h
  end.
Ltac xfer_hook ::= first [ mapi_rule | xfer_dispatch hook_x41 ].
Lemma indices_ok_transfer ei l l' : relL l l' -> indices_ok ei l = indices_ok ei l'.
Proof. xfer_def indices_ok. Qed.
Ltac hook_x42 h :=
  lazymatch h with
  | @indices_ok => apply indices_ok_transfer
  | _ => hook_x41 h
  end.
Ltac xfer_hook ::= first [ mapi_rule | xfer_dispatch hook_x42 ].
Lemma same_start_transfer master si ei sigs sigs' : relLL sigs sigs' ->
  relLL (same_start master si ei sigs) (same_start master si ei sigs').
Proof. xfer_def same_start. Qed.
Ltac hook_x43 h :=
  lazymatch h with
  | @same_start => apply same_start_transfer
  | _ => hook_x42 h
  end.
Ltac xfer_hook ::= first [ mapi_rule | xfer_dispatch hook_x43 ].
Lemma same_start_time_transfer master dt dt' start start' stop stop' sigs sigs' :
  rel dt dt' -> rel start start' -> rel stop stop' -> relLL sigs sigs' ->
  relLL (same_start_time master dt start stop sigs) (same_start_time master dt' start' stop' sigs').
Proof. xfer_def same_start_time. Qed.
Ltac hook_x44 h :=
  lazymatch h with
  | @same_start_time => apply same_start_time_transfer
  | _ => hook_x43 h
  end.
Ltac xfer_hook ::= first [ mapi_rule | xfer_dispatch hook_x44 ].

(** * M_fourier and lib/Dft.v *)
(** The twiddle-free functions transfer unconditionally.  The DFT sums are generic in the twiddle functions; they
    transfer for any pair of pointwise related twiddles ([relTw]).  NOTE: the table [Qtwc]/[Qtws] that the Q-run
    uses is related to the real [Rtwc]/[Rtws] only where [tw_ok N j] (N | 4 j); the transfer of the DFT under
    that side condition is proofs/P_C06.v [dft_transfer], not repeated here. *)
Definition relTw (tw : Z -> Z -> Q) (tw' : Z -> Z -> R) : Prop := forall N j, rel (tw N j) (tw' N j).
Lemma wsum_from_transfer f f' i x x' : (forall n, rel (f n) (f' n)) -> relL x x' -> rel (wsum_from f i x) (wsum_from f' i x').
Proof. intros Hf HF. revert i. induction HF; intros; cbn [wsum_from]; xfer. Qed.
Ltac hook_x45 h :=
  lazymatch h with
  | @wsum_from => apply wsum_from_transfer
  | _ => hook_x44 h
  end.
Ltac xfer_hook ::= first [ mapi_rule | xfer_dispatch hook_x45 ].
Lemma pad_trunc_transfer N x x' : relL x x' -> relL (pad_trunc N x) (pad_trunc N x').
Proof. xfer_def pad_trunc. Qed.
Ltac hook_x46 h :=
  lazymatch h with
  | @pad_trunc => apply pad_trunc_transfer
  | _ => hook_x45 h
  end.
Ltac xfer_hook ::= first [ mapi_rule | xfer_dispatch hook_x46 ].
Lemma dft_re_transfer twc twc' N x x' k : relTw twc twc' -> relL x x' -> rel (dft_re twc N x k) (dft_re twc' N x' k).
Proof. unfold relTw. xfer_def dft_re. Qed.
Lemma dft_im_transfer tws tws' N x x' k : relTw tws tws' -> relL x x' -> rel (dft_im tws N x k) (dft_im tws' N x' k).
Proof. unfold relTw. xfer_def dft_im. Qed.
Lemma idft_re_transfer twc twc' tws tws' N re re' im im' n : relTw twc twc' -> relTw tws tws' -> relL re re' -> relL im im' ->
  rel (idft_re twc tws N re im n) (idft_re twc' tws' N re' im' n).
Proof. unfold relTw. xfer_def idft_re. Qed.
Lemma idft_im_transfer twc twc' tws tws' N re re' im im' n : relTw twc twc' -> relTw tws tws' -> relL re re' -> relL im im' ->
  rel (idft_im twc tws N re im n) (idft_im twc' tws' N re' im' n).
Proof. unfold relTw. xfer_def idft_im. Qed.
Ltac hook_x47 h :=
  lazymatch h with
  | @dft_re => apply dft_re_transfer
  | @dft_im => apply dft_im_transfer
  | @idft_re => apply idft_re_transfer
  | @idft_im => apply idft_im_transfer
  | _ => hook_x46 h
  end.
Ltac xfer_hook ::= first [ mapi_rule | xfer_dispatch hook_x47 ].
Lemma fas_re_transfer twc twc' N dt dt' x x' : relTw twc twc' -> rel dt dt' -> relL x x' ->
  relL (fas_re twc N dt x) (fas_re twc' N dt' x').
Proof. xfer_def fas_re. Qed.
Lemma fas_im_transfer tws tws' N dt dt' x x' : relTw tws tws' -> rel dt dt' -> relL x x' ->
  relL (fas_im tws N dt x) (fas_im tws' N dt' x').
Proof. xfer_def fas_im. Qed.
Lemma fa_freqs_transfer N dt dt' : rel dt dt' -> relL (fa_freqs N dt) (fa_freqs N dt').
Proof. xfer_def fa_freqs. Qed.
Ltac hook_x48 h :=
  lazymatch h with
  | @fas_re => apply fas_re_transfer
  | @fas_im => apply fas_im_transfer
  | @fa_freqs => apply fa_freqs_transfer
  | _ => hook_x47 h
  end.
Ltac xfer_hook ::= first [ mapi_rule | xfer_dispatch hook_x48 ].
Lemma spectrum_transfer twc twc' tws tws' N dt dt' x x' : relTw twc twc' -> relTw tws tws' -> rel dt dt' -> relL x x' ->
  relL3 (spectrum twc tws N dt x) (spectrum twc' tws' N dt' x').
Proof. xfer_def spectrum. Qed.
Ltac hook_x49 h :=
  lazymatch h with
  | @spectrum => apply spectrum_transfer
  | _ => hook_x48 h
  end.
Ltac xfer_hook ::= first [ mapi_rule | xfer_dispatch hook_x49 ].
Lemma npts_of_transfer x x' : relL x x' -> npts_of x = npts_of x'.
Proof. xfer_def npts_of. Qed.
Ltac hook_x50 h :=
  lazymatch h with
  | @npts_of => apply npts_of_transfer
  | _ => hook_x49 h
  end.
Ltac xfer_hook ::= first [ mapi_rule | xfer_dispatch hook_x50 ].
Lemma sig_spectrum_transfer twc twc' tws tws' p2 nopt dt dt' x x' : relTw twc twc' -> relTw tws tws' -> rel dt dt' -> relL x x' ->
  relL3 (sig_spectrum twc tws p2 nopt dt x) (sig_spectrum twc' tws' p2 nopt dt' x').
Proof. xfer_def sig_spectrum. Qed.
Lemma calc_spectrum_transfer twc twc' tws tws' nopt p2opt dt dt' x x' : relTw twc twc' -> relTw tws tws' -> rel dt dt' -> relL x x' ->
  relL3 (calc_spectrum twc tws nopt p2opt dt x) (calc_spectrum twc' tws' nopt p2opt dt' x').
Proof. xfer_def calc_spectrum. Qed.
Lemma gen_spectrum_transfer twc twc' tws tws' n_pad dt dt' x x' : relTw twc twc' -> relTw tws tws' -> rel dt dt' -> relL x x' ->
  relL3 (gen_spectrum twc tws n_pad dt x) (gen_spectrum twc' tws' n_pad dt' x').
Proof. xfer_def gen_spectrum. Qed.
Ltac hook_x51 h :=
  lazymatch h with
  | @sig_spectrum => apply sig_spectrum_transfer
  | @calc_spectrum => apply calc_spectrum_transfer
  | @gen_spectrum => apply gen_spectrum_transfer
  | _ => hook_x50 h
  end.
Ltac xfer_hook ::= first [ mapi_rule | xfer_dispatch hook_x51 ].
Lemma herm_re_transfer dt dt' re re' : rel dt dt' -> relL re re' -> relL (herm_re dt re) (herm_re dt' re').
Proof. xfer_def herm_re. Qed.
Lemma herm_im_transfer dt dt' im im' : rel dt dt' -> relL im im' -> relL (herm_im dt im) (herm_im dt' im').
Proof. xfer_def herm_im. Qed.
Ltac hook_x52 h :=
  lazymatch h with
  | @herm_re => apply herm_re_transfer
  | @herm_im => apply herm_im_transfer
  | _ => hook_x51 h
  end.
Ltac xfer_hook ::= first [ mapi_rule | xfer_dispatch hook_x52 ].
Lemma fas2values_re_transfer twc twc' tws tws' re re' im im' dt dt' : relTw twc twc' -> relTw tws tws' ->
  relL re re' -> relL im im' -> rel dt dt' -> relL (fas2values_re twc tws re im dt) (fas2values_re twc' tws' re' im' dt').
Proof. xfer_def fas2values_re. Qed.
Lemma fas2values_im_transfer twc twc' tws tws' re re' im im' dt dt' : relTw twc twc' -> relTw tws tws' ->
  relL re re' -> relL im im' -> rel dt dt' -> relL (fas2values_im twc tws re im dt) (fas2values_im twc' tws' re' im' dt').
Proof. xfer_def fas2values_im. Qed.
Ltac hook_x53 h :=
  lazymatch h with
  | @fas2values_re => apply fas2values_re_transfer
  | @fas2values_im => apply fas2values_im_transfer
  | _ => hook_x52 h
  end.
Ltac xfer_hook ::= first [ mapi_rule | xfer_dispatch hook_x53 ].
Lemma amp2_transfer re re' im im' : relL re re' -> relL im im' -> relL (amp2 re im) (amp2 re' im').
Proof. xfer_def amp2. Qed.
Ltac hook_x54 h :=
  lazymatch h with
  | @amp2 => apply amp2_transfer
  | _ => hook_x53 h
  end.
Ltac xfer_hook ::= first [ mapi_rule | xfer_dispatch hook_x54 ].
Lemma max_fa_bin_transfer re re' im im' : relL re re' -> relL im im' -> max_fa_bin re im = max_fa_bin re' im'.
Proof. xfer_def max_fa_bin. Qed.
Ltac hook_x55 h :=
  lazymatch h with
  | @max_fa_bin => apply max_fa_bin_transfer
  | _ => hook_x54 h
  end.
Ltac xfer_hook ::= first [ mapi_rule | xfer_dispatch hook_x55 ].
Lemma max_fa_period_transfer re re' im im' fr fr' : relL re re' -> relL im im' -> relL fr fr' ->
  relO rel (max_fa_period re im fr) (max_fa_period re' im' fr').
Proof. xfer_def max_fa_period. Qed.
Ltac hook_x56 h :=
  lazymatch h with
  | @max_fa_period => apply max_fa_period_transfer
  | _ => hook_x55 h
  end.
Ltac xfer_hook ::= first [ mapi_rule | xfer_dispatch hook_x56 ].
Ltac hook_x_final h := hook_x56 h.
