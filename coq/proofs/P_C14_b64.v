(** C14: the executable binary64 kernel ([lib/B64.v], [factor_b64] / [newdt_b64] in model/M_timestep.v) IS the rounded
    chain [newdt_rnd rnd53] of model/M_timestep_fl.v on the normal range.
    - [fQ_B2R]: the rational value [fQ] used by the kernel is Flocq's [B2R];
    - [b64_div_is_rnd53]: Flocq's executable [b64_div mode_NE] is [rnd53] of the exact quotient away from the
      subnormal / overflow range (Bdiv_correct + round_FLT_FLX);
    - [fofZ_exact]: int -> float conversion of an integer that is a 53-bit number is exact; the ceiling / floor of a
      53-bit number >= 1 is such an integer (so NO bound on k, m is needed);
    - [newdt_b64_is_rnd53]: the whole chain;  [b64_step_le_target]: the step bound for [newdt_b64] itself. *)
From Coq Require Import ZArith QArith Qreals Qround Qabs Reals List Bool Lra Lia.
From EQ Require Import lib.Num lib.B64 model.M_timestep model.M_timestep_fl proofs.P_C14 proofs.P_C14_fl.
From Flocq Require Import Core IEEE754.Binary IEEE754.Bits.
Local Open Scope R_scope.

Notation bR := (B2R 53 1024).
Notation FLT64 := (FLT_exp (-1074) 53).

(** * [fQ] is [B2R] *)
Lemma Q2R_inject_Z z : Q2R (inject_Z z) = IZR z.
Proof. unfold Q2R; cbn. field. Qed.

Lemma fQ_B2R (x : b64) : Q2R (fQ x) = bR x.
Proof.
  destruct x as [s|s|s pl H|s m e H]; try (cbn; unfold Q2R; cbn; lra).
  cbn [fQ B2R]. unfold F2R; cbn [Fnum Fexp].
  replace (cond_Zopp s (Z.pos m)) with (if s then Z.neg m else Z.pos m) by (destruct s; reflexivity).
  set (z := if s then Z.neg m else Z.pos m).
  destruct e as [|p|p].
  - rewrite Q2R_inject_Z. cbn. ring.
  - rewrite Q2R_inject_Z, mult_IZR. f_equal.
  - unfold Q2R; cbn [Qnum Qden]. f_equal.
    rewrite Pos2Z.inj_pow. change (Z.pos 2 ^ Z.pos p)%Z with (Zpower radix2 (Z.pos p)).
    rewrite IZR_Zpower by lia. now rewrite <- bpow_opp.
Qed.

Lemma ffinite_is_finite (x : b64) : ffinite x = is_finite 53 1024 x.
Proof. reflexivity. Qed.

(** * one division *)
Lemma fmt_bpow e : generic_format radix2 (FLX_exp 53) (bpow radix2 e).
Proof. apply generic_format_bpow. unfold FLX_exp. lia. Qed.
Global Instance prec53_gt_0 : Prec_gt_0 53.
Proof. reflexivity. Qed.
Global Instance flx53_valid : Valid_exp (FLX_exp 53).
Proof. apply FLX_exp_valid. reflexivity. Qed.

Lemma rnd53_range a b x : bpow radix2 a <= x <= bpow radix2 b -> bpow radix2 a <= rnd53 x <= bpow radix2 b.
Proof.
  intros [H1 H2]. unfold rnd53. split.
  - apply round_ge_generic; auto with typeclass_instances. apply fmt_bpow.
  - apply round_le_generic; auto with typeclass_instances. apply fmt_bpow.
Qed.

Lemma rnd53_format x : generic_format radix2 (FLX_exp 53) (rnd53 x).
Proof. unfold rnd53. apply generic_format_round; auto with typeclass_instances. Qed.

Lemma b64_div_is_rnd53 (a b : b64) :
  is_finite 53 1024 a = true -> bR b <> 0 ->
  bpow radix2 (-1022) <= Rabs (bR a / bR b) <= bpow radix2 1023 ->
  bR (fdiv a b) = rnd53 (bR a / bR b) /\ is_finite 53 1024 (fdiv a b) = true.
Proof.
  intros Ha Hb [Hlo Hhi].
  pose proof (Bdiv_correct 53 1024 (eq_refl : (0 < 53)%Z) (eq_refl : (53 < 1024)%Z) binop_nan_pl64 BinarySingleNaN.mode_NE a b Hb) as H.
  change (SpecFloat.fexp 53 1024) with FLT64 in H.
  change (BinarySingleNaN.round_mode BinarySingleNaN.mode_NE) with ZnearestE in H.
  change (Bdiv 53 1024 _ _ binop_nan_pl64 BinarySingleNaN.mode_NE a b) with (fdiv a b) in H.
  rewrite (round_FLT_FLX radix2 (-1074) 53) in H by exact Hlo.
  rewrite Rlt_bool_true in H.
  - destruct H as (H1 & H2 & _). split; [exact H1|]. now rewrite <- Ha.
  - apply Rle_lt_trans with (bpow radix2 1023); [|apply bpow_lt; lia].
    apply abs_round_le_generic; auto with typeclass_instances. apply fmt_bpow.
Qed.

(** * int -> float conversion; ceiling and floor of a 53-bit number *)
Lemma fofZ_exact k : generic_format radix2 (FLX_exp 53) (IZR k) -> 1 <= Rabs (IZR k) < bpow radix2 1024 ->
  bR (fofZ k) = IZR k /\ is_finite 53 1024 (fofZ k) = true.
Proof.
  intros Hf [H1 H2].
  pose proof (binary_normalize_correct 53 1024 b64_Hprec b64_Hprec_emax BinarySingleNaN.mode_NE k 0 false) as H.
  change (SpecFloat.fexp 53 1024) with FLT64 in H.
  change (BinarySingleNaN.round_mode BinarySingleNaN.mode_NE) with ZnearestE in H.
  change (binary_normalize 53 1024 b64_Hprec b64_Hprec_emax BinarySingleNaN.mode_NE k 0 false) with (fofZ k) in H.
  replace (F2R (Float radix2 k 0)) with (IZR k) in H by (unfold F2R; cbn; ring).
  rewrite round_generic in H; auto with typeclass_instances.
  - rewrite Rlt_bool_true in H by exact H2. destruct H as (A & B & _). now split.
  - apply generic_format_FLT_FLX; [|exact Hf]. apply Rle_trans with (2 := H1).
    change 1 with (bpow radix2 0). apply bpow_le. lia.
Qed.

Lemma fmt_small_int n : (0 <= n <= 2 ^ 53)%Z -> generic_format radix2 (FLX_exp 53) (IZR n).
Proof.
  intros [H0 H1]. destruct (Z.eq_dec n (2 ^ 53)) as [->|Hn].
  - change (2 ^ 53)%Z with (Zpower radix2 53). rewrite IZR_Zpower by lia. apply fmt_bpow.
  - apply generic_format_FLX. apply (FLX_spec radix2 53 _ (Float radix2 n 0)).
    + unfold F2R; cbn; ring.
    + cbn [Fnum]. change (Zpower radix2 53) with (2 ^ 53)%Z. lia.
Qed.

Lemma fmt_big_is_int x : generic_format radix2 (FLX_exp 53) x -> bpow radix2 53 <= x -> exists n, x = IZR n.
Proof.
  intros Hf Hx. destruct (FLX_format_generic radix2 53 x Hf) as [[m e] Hm Hb].
  cbn [Fnum] in Hb. unfold F2R in Hm; cbn [Fnum Fexp] in Hm.
  destruct (Z_lt_le_dec e 0) as [He|He].
  - exfalso. assert (Hp : bpow radix2 e <= 1) by (change 1 with (bpow radix2 0); apply bpow_le; lia).
    pose proof (bpow_gt_0 radix2 e) as Hp0.
    assert (Hm53 : IZR m < bpow radix2 53).
    { rewrite <- IZR_Zpower by lia. apply IZR_lt. lia. }
    pose proof (bpow_gt_0 radix2 53). destruct (Rle_lt_dec (IZR m) 0); nra.
  - exists (m * Zpower radix2 e)%Z. rewrite mult_IZR, IZR_Zpower by lia. exact Hm.
Qed.

Lemma floor_fmt x : generic_format radix2 (FLX_exp 53) x -> 1 <= x -> generic_format radix2 (FLX_exp 53) (IZR (Zfloor x)).
Proof.
  intros Hf H1. destruct (Rlt_le_dec x (bpow radix2 53)) as [Hs|Hb].
  - apply fmt_small_int. split.
    + apply Zfloor_lub. lra.
    + assert (IZR (Zfloor x) < IZR (2 ^ 53)).
      { change (2 ^ 53)%Z with (Zpower radix2 53). rewrite IZR_Zpower by lia. pose proof (Zfloor_lb x). lra. }
      apply lt_IZR in H. lia.
  - destruct (fmt_big_is_int x Hf Hb) as [n ->]. now rewrite Zfloor_IZR.
Qed.
Lemma ceil_fmt x : generic_format radix2 (FLX_exp 53) x -> 1 <= x -> generic_format radix2 (FLX_exp 53) (IZR (Zceil x)).
Proof.
  intros Hf H1. destruct (Rlt_le_dec x (bpow radix2 53)) as [Hs|Hb].
  - apply fmt_small_int. split.
    + assert (IZR 0 < IZR (Zceil x)) by (pose proof (Zceil_ub x); lra). apply lt_IZR in H. lia.
    + apply Zceil_glb. change (2 ^ 53)%Z with (Zpower radix2 53). rewrite IZR_Zpower by lia. lra.
  - destruct (fmt_big_is_int x Hf Hb) as [n ->]. now rewrite Zceil_IZR.
Qed.

(** the integer parts the kernel takes (on exact rationals) are those of the real value *)
Lemma Qfloor_Zfloor q : Qfloor q = Zfloor (Q2R q).
Proof.
  symmetry. apply Zfloor_imp. rewrite plus_IZR. split.
  - pose proof (Qfloor_le q) as H. apply Qle_Rle in H. now rewrite Q2R_inject_Z in H.
  - pose proof (Qlt_floor q) as H. apply Qlt_Rlt in H. rewrite Q2R_inject_Z, plus_IZR in H. exact H.
Qed.
Lemma ffloor_Zfloor (x : b64) : ffloor x = Zfloor (bR x).
Proof. unfold ffloor. now rewrite Qfloor_Zfloor, fQ_B2R. Qed.
Lemma fceil_Zceil (x : b64) : fceil x = Zceil (bR x).
Proof. unfold fceil, Qceiling, Zceil. now rewrite Qfloor_Zfloor, Q2R_opp, fQ_B2R. Qed.
Lemma nfloor_Zfloor (x : R) : nfloor x = Zfloor x.
Proof. reflexivity. Qed.
Lemma nceil_Zceil (x : R) : nceil x = Zceil x.
Proof. reflexivity. Qed.

Lemma fcmp_Rcompare (a b : b64) : fcmp a b = Rcompare (bR a) (bR b).
Proof.
  unfold fcmp. rewrite <- !fQ_B2R. symmetry. destruct (Qcompare_spec (fQ a) (fQ b)) as [H|H|H].
  - apply Rcompare_Eq. now apply Qeq_eqR.
  - apply Rcompare_Lt. now apply Qlt_Rlt.
  - apply Rcompare_Gt. now apply Qlt_Rlt.
Qed.

Lemma fone_1 : bR fone = 1 /\ is_finite 53 1024 fone = true.
Proof.
  apply (fofZ_exact 1).
  - apply (fmt_small_int 1). lia.
  - rewrite Rabs_R1. split; [lra|]. change 1 with (bpow radix2 0). apply bpow_lt. lia.
Qed.

(** * the chain dt/target -> factor -> new_dt *)
Definition Lo : R := bpow radix2 (-1000).
Definition Hi : R := bpow radix2 1000.
Definition u53 : R := / 9007199254740992.

Lemma LoHi : 0 < Lo /\ Lo <= 1 /\ 1 <= Hi /\ Lo * Hi = 1 /\ bpow radix2 (-1022) <= Lo / 4 /\ 4 * Hi <= bpow radix2 1023.
Proof.
  unfold Lo, Hi. repeat split.
  - apply bpow_gt_0.
  - change 1 with (bpow radix2 0). apply bpow_le. lia.
  - change 1 with (bpow radix2 0). apply bpow_le. lia.
  - rewrite <- bpow_plus. reflexivity.
  - replace (bpow radix2 (-1000) / 4) with (bpow radix2 (-1000 + -2)).
    + apply bpow_le. lia.
    + rewrite bpow_plus. change (bpow radix2 (-2)) with (/ 4). lra.
  - replace (4 * bpow radix2 1000) with (bpow radix2 (2 + 1000)).
    + apply bpow_le. lia.
    + rewrite bpow_plus. change (bpow radix2 2) with 4. lra.
Qed.

Lemma r53_bounds t : 0 < t -> t * (1 - u53) <= rnd53 t <= t * (1 + u53).
Proof. exact (rnd_pos_bounds u53 rnd53 rnd53_err t). Qed.

Lemma div_ok (a b : b64) : is_finite 53 1024 a = true -> 0 < bR b -> Lo / 4 <= bR a / bR b <= 4 * Hi ->
  bR (fdiv a b) = rnd53 (bR a / bR b) /\ is_finite 53 1024 (fdiv a b) = true.
Proof.
  intros Ha Hb [H1 H2]. destruct LoHi as (L0 & _ & _ & _ & L4 & L5).
  apply b64_div_is_rnd53; auto; [lra|]. rewrite Rabs_pos_eq by lra. lra.
Qed.

Lemma div_ge_l a b c : 0 < b -> c * b <= a -> c <= a / b.
Proof. intros Hb H. apply Rmult_le_reg_r with b; auto. unfold Rdiv. rewrite Rmult_assoc, Rinv_l by lra. lra. Qed.

Section Chain.
Variables dt tg : b64.
Hypothesis Hfx : is_finite 53 1024 dt = true.
(* no finiteness hypothesis on tg: [bR] of an infinity / NaN is 0, excluded by [Lo <= y] *)
Let x := bR dt.
Let y := bR tg.
Hypothesis Hx : Lo <= x <= Hi.
Hypothesis Hy : Lo <= y <= Hi.
Hypothesis Hq : Lo <= x / y <= Hi.

Lemma factor_b64_link :
  let q := rnd53 (x / y) in let kf := factor_b64 dt tg in
  is_finite 53 1024 (snd kf) = true /\ bR (snd kf) = factor_rnd rnd53 x y /\ 0 < bR (snd kf) /\
  Lo / 4 <= x / bR (snd kf) <= 4 * Hi /\
  match fst kf with
  | FSame => q = 1 /\ bR (snd kf) = 1
  | FRef k => 1 < q /\ k = Zceil q /\ (2 <= k)%Z /\ bR (snd kf) = IZR k
  | FDec m => q < 1 /\ m = Zfloor (rnd53 (1 / q)) /\ (1 <= m)%Z /\ bR (fofZ m) = IZR m /\
              snd kf = fdiv fone (fofZ m) /\ bR (snd kf) = rnd53 (1 / IZR m)
  end.
Proof.
  destruct LoHi as (L0 & L1 & L2 & L3 & L4 & L5). destruct fone_1 as [F1 F1f].
  assert (Hu : u53 = / 9007199254740992) by reflexivity.
  assert (Hx0 : 0 < x) by lra. assert (Hy0 : 0 < y) by lra.
  destruct (div_ok dt tg Hfx Hy0 ltac:(fold x y; lra)) as [Eq Fq]. fold x y in Eq.
  pose proof (rnd53_range (-1000) 1000 (x / y) Hq) as Rq. fold Lo Hi in Rq.
  assert (Hq0 : 0 < x / y) by lra. pose proof (r53_bounds _ Hq0) as Bq.
  assert (Exy : x = x / y * y) by (field; lra).
  intros q kf. subst kf. unfold factor_b64, factor_rnd. cbv zeta.
  set (qb := fdiv dt tg) in *. rewrite fcmp_Rcompare, Eq, F1. fold q in Eq, Rq, Bq |- *.
  set (q0 := x / y) in *.
  destruct (Rcompare_spec q 1) as [Hlt|Heq|Hgt]; cbn [fst snd].
  - (* decimation *)
    assert (Hq1 : 0 < q) by lra.
    assert (Hr1 : 1 <= 1 / q) by (apply div_ge_l; lra).
    assert (Hr2 : 1 / q <= Hi) by (apply div_le_l; nra).
    destruct (div_ok fone qb F1f ltac:(lra) ltac:(rewrite F1, Eq; lra)) as [Er Fr]. rewrite F1, Eq in Er.
    pose proof (rnd53_range 0 1000 (1 / q) (conj Hr1 Hr2)) as Rr. change (bpow radix2 0) with 1 in Rr. fold Hi in Rr.
    pose proof (r53_bounds (1 / q) ltac:(lra)) as Br.
    set (rb := fdiv fone qb) in *. set (r := rnd53 (1 / q)) in *.
    rewrite ffloor_Zfloor, Er.
    pose proof (Zfloor_lb r) as M1. pose proof (Zfloor_ub r) as M2.
    assert (Hm : (1 <= Zfloor r)%Z) by (apply Zfloor_lub; lra).
    assert (HM : 1 <= IZR (Zfloor r)) by (apply IZR_le; exact Hm).
    destruct (fofZ_exact (Zfloor r)) as [Em Fm].
    { apply floor_fmt; [apply rnd53_format | lra]. }
    { rewrite Rabs_pos_eq by lra. split; [lra|]. apply Rle_lt_trans with (bpow radix2 1023); [lra|apply bpow_lt; lia]. }
    set (m := Zfloor r) in *. set (M := IZR m) in *.
    assert (Hi1 : Lo <= 1 / M) by (apply div_ge_l; nra).
    assert (Hi2 : 1 / M <= 1) by (apply div_le_l; lra).
    destruct (div_ok fone (fofZ m) F1f ltac:(rewrite Em; lra) ltac:(rewrite F1, Em; lra)) as [Ef Ff]. rewrite F1, Em in Ef.
    pose proof (rnd53_range (-1000) 0 (1 / M) (conj Hi1 Hi2)) as Rf. change (bpow radix2 0) with 1 in Rf. fold Lo in Rf.
    pose proof (r53_bounds (1 / M) ltac:(lra)) as Bf.
    set (fb := fdiv fone (fofZ m)) in *. set (f := rnd53 (1 / M)) in *.
    case_Reqb q 1; [lra|]. case_Rltb 1 q; [lra|].
    assert (Hf0 : 0 < f) by lra.
    split; [exact Ff|]. split; [rewrite Ef; reflexivity|]. split; [lra|]. rewrite Ef.
    split; [|repeat split; auto; lra].
    split.
    + apply div_ge_l; auto. nra.
    + apply div_le_l; auto.
      assert (HMf : 1 - u53 <= M * f).
      { replace (1 - u53) with (M * (1 / M * (1 - u53))) by (field; lra). apply Rmult_le_compat_l; lra. }
      assert (HMq : M * q <= 1 + u53).
      { replace (1 + u53) with (1 / q * (1 + u53) * q) by (field; lra). apply Rmult_le_compat_r; lra. }
      assert (A : q0 * (1 - u53) * M <= 1 + u53).
      { apply Rle_trans with (q * M); [apply Rmult_le_compat_r; lra|lra]. }
      assert (B : q0 * (1 - u53) * (1 - u53) <= q0 * (1 - u53) * (M * f)).
      { apply Rmult_le_compat_l; [|lra]. apply Rmult_le_pos; lra. }
      assert (C : q0 * (1 - u53) * M * f <= (1 + u53) * f) by (apply Rmult_le_compat_r; lra).
      assert (D : q0 <= 4 * f) by (unfold u53 in B, C; lra).
      rewrite Exy. apply Rle_trans with (q0 * Hi); [apply Rmult_le_compat_l; lra|].
      replace (4 * Hi * f) with (4 * f * Hi) by ring. apply Rmult_le_compat_r; lra.
  - (* same step *)
    case_Reqb q 1; [|lra].
    split; [exact Fq|]. split; [exact Eq|]. rewrite Eq, Heq. split; [lra|].
    split; [|split; reflexivity]. replace (x / 1) with x by field. lra.
  - (* refinement *)
    case_Reqb q 1; [lra|]. case_Rltb 1 q; [|lra].
    rewrite fceil_Zceil, Eq. change (nceil q) with (Zceil q).
    pose proof (nceil_spec q) as [K1 K2]. change (nceil q) with (Zceil q) in K1, K2.
    assert (Hk : (2 <= Zceil q)%Z).
    { assert (IZR 1 < IZR (Zceil q)) by lra. apply lt_IZR in H. lia. }
    destruct (fofZ_exact (Zceil q)) as [Ek Fk].
    { apply ceil_fmt; [apply rnd53_format | lra]. }
    { rewrite Rabs_pos_eq by lra. split; [lra|]. apply Rle_lt_trans with (bpow radix2 1023); [lra|apply bpow_lt; lia]. }
    set (k := Zceil q) in *. set (K := IZR k) in *.
    split; [exact Fk|]. split; [exact Ek|]. rewrite Ek. split; [lra|].
    split; [|repeat split; auto].
    split.
    + apply div_ge_l; [lra|]. assert (K4 : K <= 4 * q0) by (unfold u53 in Bq; lra).
      rewrite Exy. apply Rle_trans with (Lo * q0); [nra|]. rewrite (Rmult_comm q0 y). apply Rmult_le_compat_r; lra.
    + apply div_le_l; [lra|]. nra.
Qed.

Theorem newdt_b64_is_rnd53 :
  bR (newdt_b64 dt tg) = newdt_rnd rnd53 x y /\ is_finite 53 1024 (newdt_b64 dt tg) = true.
Proof.
  destruct factor_b64_link as (Ff & Ef & Hf0 & Hr & _).
  unfold newdt_b64, newdt_rnd. destruct (div_ok dt (snd (factor_b64 dt tg)) Hfx Hf0 Hr) as [E F].
  split; [|exact F]. rewrite E, Ef. reflexivity.
Qed.

Theorem b64_step_le_target_R : bR (newdt_b64 dt tg) <= y * (1 + / 1125899906842624).
Proof.
  destruct LoHi as (L0 & _). rewrite (proj1 newdt_b64_is_rnd53). apply flx53_step_le_target; lra.
Qed.
End Chain.

(** * the same facts on the kernel's own observables ([fQ], [ffinite]; rationals) *)
Lemma Q2R_lo : Q2R (1 # 2 ^ 1000) = Lo.
Proof.
  unfold Q2R; cbn [Qnum Qden]. rewrite Pos2Z.inj_pow. change (Z.pos 2 ^ Z.pos 1000)%Z with (Zpower radix2 1000).
  rewrite IZR_Zpower by lia. unfold Lo. change (-1000)%Z with (- (1000))%Z. rewrite bpow_opp. lra.
Qed.
Lemma Q2R_hi : Q2R (inject_Z (2 ^ 1000)) = Hi.
Proof. rewrite Q2R_inject_Z. change (2 ^ 1000)%Z with (Zpower radix2 1000). now rewrite IZR_Zpower by lia. Qed.
Lemma qrange (q : Q) : (1 # 2 ^ 1000 <= q <= inject_Z (2 ^ 1000))%Q -> Lo <= Q2R q <= Hi.
Proof. intros [H1 H2]. apply Qle_Rle in H1, H2. now rewrite Q2R_lo in H1; rewrite Q2R_hi in H2. Qed.

Lemma Q2R_div_total (a b : Q) : Q2R (a / b) = Q2R a / Q2R b.
Proof.
  destruct (Qeq_dec b 0) as [e|n].
  - assert (E : (a / b == 0)%Q) by (rewrite e; unfold Qdiv, Qinv; cbn; ring).
    apply Qeq_eqR in E, e. rewrite E, e. replace (Q2R 0) with 0 by (unfold Q2R; cbn; lra). unfold Rdiv. rewrite Rinv_0. ring.
  - now apply Q2R_div.
Qed.
Lemma Q2R_Qabs (q : Q) : Q2R (Qabs q) = Rabs (Q2R q).
Proof.
  apply Qabs_case; intros H; apply Qle_Rle in H; replace (Q2R 0) with 0 in H by (unfold Q2R; cbn; lra).
  - now rewrite Rabs_pos_eq.
  - rewrite Q2R_opp. destruct H as [H|H]; [now rewrite Rabs_left | rewrite H, Rabs_R0; lra].
Qed.

(** [fQ] is 0 on infinities and NaN: a nonzero value means a finite float *)
Lemma fQ_nonzero_finite (x : b64) : ~ (fQ x == 0)%Q -> ffinite x = true.
Proof. destruct x; cbn; auto; intros H; exfalso; apply H; reflexivity. Qed.
Lemma fQ_pos_finite (x : b64) l : (1 # l <= fQ x)%Q -> ffinite x = true.
Proof. intros H. apply fQ_nonzero_finite. intros E. rewrite E in H. revert H. unfold Qle; cbn. lia. Qed.

Theorem b64_div_is_rnd53_Q (a b : b64) :
  (1 # 2 ^ 1022 <= Qabs (fQ a / fQ b) <= inject_Z (2 ^ 1023))%Q ->
  Q2R (fQ (fdiv a b)) = rnd53 (Q2R (fQ a) / Q2R (fQ b)) /\ ffinite (fdiv a b) = true.
Proof.
  intros [H1 H2].
  assert (Ha : ffinite a = true).
  { apply fQ_nonzero_finite. intros E. rewrite E in H1. revert H1. unfold Qle; cbn. lia. }
  apply Qle_Rle in H1, H2. rewrite Q2R_Qabs, Q2R_div_total, !fQ_B2R in H1, H2.
  assert (L : Q2R (1 # 2 ^ 1022) = bpow radix2 (-1022)).
  { unfold Q2R; cbn [Qnum Qden]. rewrite Pos2Z.inj_pow. change (Z.pos 2 ^ Z.pos 1022)%Z with (Zpower radix2 1022).
    rewrite IZR_Zpower by lia. change (-1022)%Z with (- (1022))%Z. rewrite bpow_opp. lra. }
  assert (U : Q2R (inject_Z (2 ^ 1023)) = bpow radix2 1023).
  { rewrite Q2R_inject_Z. change (2 ^ 1023)%Z with (Zpower radix2 1023). now rewrite IZR_Zpower by lia. }
  rewrite L in H1. rewrite U in H2. rewrite !fQ_B2R. unfold ffinite in *.
  apply b64_div_is_rnd53; auto.
  intros Hb. rewrite Hb in H1. unfold Rdiv in H1. rewrite Rinv_0, Rmult_0_r, Rabs_R0 in H1.
  pose proof (bpow_gt_0 radix2 (-1022)). lra.
Qed.

Section ChainQ.
Variables dt tg : b64.
Hypothesis Hx : (1 # 2 ^ 1000 <= fQ dt <= inject_Z (2 ^ 1000))%Q.
Hypothesis Hy : (1 # 2 ^ 1000 <= fQ tg <= inject_Z (2 ^ 1000))%Q.
Hypothesis Hq : (1 # 2 ^ 1000 <= fQ dt / fQ tg <= inject_Z (2 ^ 1000))%Q.

Let Hfx : ffinite dt = true.
Proof. exact (fQ_pos_finite dt _ (proj1 Hx)). Qed.
Let HxR : Lo <= bR dt <= Hi.
Proof. rewrite <- fQ_B2R. now apply qrange. Qed.
Let HyR : Lo <= bR tg <= Hi.
Proof. rewrite <- fQ_B2R. now apply qrange. Qed.
Let HqR : Lo <= bR dt / bR tg <= Hi.
Proof. rewrite <- !fQ_B2R, <- Q2R_div_total. now apply qrange. Qed.

Theorem newdt_b64_is_rnd53_Q :
  Q2R (fQ (newdt_b64 dt tg)) = newdt_rnd rnd53 (Q2R (fQ dt)) (Q2R (fQ tg)) /\ ffinite (newdt_b64 dt tg) = true.
Proof. rewrite !fQ_B2R. exact (newdt_b64_is_rnd53 dt tg Hfx HxR HyR HqR). Qed.

Theorem b64_step_le_target :
  ffinite (newdt_b64 dt tg) = true /\ (fQ (newdt_b64 dt tg) <= fQ tg * (1 + (1 # 2 ^ 50)))%Q.
Proof.
  split; [exact (proj2 (newdt_b64_is_rnd53 dt tg Hfx HxR HyR HqR))|].
  apply Rle_Qle. rewrite Q2R_mult, Q2R_plus, !fQ_B2R.
  change (2 ^ 50)%positive with 1125899906842624%positive.
  replace (Q2R 1) with 1 by (unfold Q2R; cbn; lra).
  replace (Q2R (1 # 1125899906842624)) with (/ 1125899906842624) by (unfold Q2R; cbn; lra).
  exact (b64_step_le_target_R dt tg Hfx HxR HyR HqR).
Qed.

(** the factor the kernel returns is 1, an integer k >= 2, or the binary64 reciprocal of an integer m >= 1
    (and k, m are the ceiling / floor the rounded chain takes) *)
Theorem b64_factor_shape :
  let q := rnd53 (Q2R (fQ dt) / Q2R (fQ tg)) in
  ffinite (snd (factor_b64 dt tg)) = true /\
  Q2R (fQ (snd (factor_b64 dt tg))) = factor_rnd rnd53 (Q2R (fQ dt)) (Q2R (fQ tg)) /\
  match fst (factor_b64 dt tg) with
  | FSame => q = 1 /\ (fQ (snd (factor_b64 dt tg)) == 1)%Q
  | FRef k => 1 < q /\ k = nceil q /\ (2 <= k)%Z /\ (fQ (snd (factor_b64 dt tg)) == inject_Z k)%Q
  | FDec m => q < 1 /\ m = nfloor (rnd53 (1 / q)) /\ (1 <= m)%Z /\ (fQ (fofZ m) == inject_Z m)%Q /\
              snd (factor_b64 dt tg) = fdiv fone (fofZ m) /\
              Q2R (fQ (snd (factor_b64 dt tg))) = rnd53 (1 / IZR m)
  end.
Proof.
  rewrite !fQ_B2R. intros q.
  destruct (factor_b64_link dt tg Hfx HxR HyR HqR) as (Ff & Ef & _ & _ & Hm).
  split; [exact Ff|]. split; [exact Ef|].
  destruct (fst (factor_b64 dt tg)) as [|k|m].
  - destruct Hm as [A B]. split; [exact A|]. apply eqR_Qeq. rewrite fQ_B2R, B. unfold Q2R; cbn; lra.
  - destruct Hm as (A & B & C & D). repeat split; auto. apply eqR_Qeq. now rewrite fQ_B2R, D, Q2R_inject_Z.
  - destruct Hm as (A & B & C & D & E & F). repeat split; auto. apply eqR_Qeq. now rewrite fQ_B2R, D, Q2R_inject_Z.
Qed.
End ChainQ.
