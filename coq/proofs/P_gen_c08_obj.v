(** The generated definitions of gen/Gen_c08_obj.v (re-translated from eqsig/single.py:
    AccSignal.generate_displacement_and_velocity_series, the lazy getters velocity / displacement and the memo getters
    pga / pgv / pgd on every run by translator/py2coq_objlayer.py) say which series each quantity is computed from.
    VD = displacements.calc_velo_and_disp_from_accel_arr(acc, dt, trap) and PK = im.calc_peak(motion) are parameters (their
    own tie is gen/Gen_quadrature.v: C08_model_is_source, C08_peak_is_source); instantiated with the model
    ([velo_disp], [calc_peak] of model/M_displacements.v) the getters are the quantities the correspondence of C08 compares:
    pga = calc_peak(values), pgv = calc_peak(velocity), pgd = calc_peak(displacement), the two series being
    velo_disp true dt values when not cached.  For every [NumOps] instance; no arithmetic law is used. *)
From Coq Require Import String.
From Coq Require Import ZArith List Bool.
From EQ Require Import lib.Num lib.NpList lib.PyRes model.M_displacements gen.Gen_c08_obj.
Import ListNotations.
Local Open Scope num_scope.

Section Generic.
Context {T : Type} `{NumOps T}.
Variable VD : list T -> T -> bool -> list T * list T.
Variable PK : list T -> T.

(** the hand model of the object layer: the integration step stores (velocity, displacement) = VD(values, dt, trap) in this
    order and sets the flag; a lazy read integrates with the default trap=True only when the flag is clear *)
Definition dv_step (trap : bool) (st : @obj T) : @obj T :=
  let r := VD (o_values st) (o_dt st) trap in mk_obj (o_values st) (o_dt st) (fst r) (snd r) true.
Definition dv_lazy (st : @obj T) : @obj T := if o_cached_dv st then st else dv_step true st.

Lemma obj_eta (st : @obj T) : mk_obj (o_values st) (o_dt st) (o_velocity st) (o_displacement st) (o_cached_dv st) = st.
Proof. destruct st; reflexivity. Qed.

Theorem gen_generate_dv_eq (trap : bool) (st : @obj T) : gen_generate_dv VD trap st = PyOk (dv_step trap st).
Proof. reflexivity. Qed.
Theorem gen_velocity_eq (st : @obj T) : gen_velocity VD st = PyOk (dv_lazy st, o_velocity (dv_lazy st)).
Proof. unfold gen_velocity, dv_lazy. destruct (o_cached_dv st) eqn:E; [|reflexivity]. now rewrite <- E, obj_eta. Qed.
Theorem gen_displacement_eq (st : @obj T) : gen_displacement VD st = PyOk (dv_lazy st, o_displacement (dv_lazy st)).
Proof. unfold gen_displacement, dv_lazy. destruct (o_cached_dv st) eqn:E; [|reflexivity]. now rewrite <- E, obj_eta. Qed.
Theorem gen_pga_eq (st : @obj T) : gen_pga PK st = PyOk (st, PK (o_values st)).
Proof. unfold gen_pga. now rewrite obj_eta. Qed.
Theorem gen_pgv_eq (st : @obj T) : gen_pgv VD PK st = PyOk (dv_lazy st, PK (o_velocity (dv_lazy st))).
Proof. unfold gen_pgv, dv_lazy. destruct (o_cached_dv st) eqn:E; [|reflexivity]. now rewrite <- E, obj_eta. Qed.
Theorem gen_pgd_eq (st : @obj T) : gen_pgd VD PK st = PyOk (dv_lazy st, PK (o_displacement (dv_lazy st))).
Proof. unfold gen_pgd, dv_lazy. destruct (o_cached_dv st) eqn:E; [|reflexivity]. now rewrite <- E, obj_eta. Qed.
End Generic.

(** ** with the model of displacements.py / im.calc_peak as VD and PK: the quantities of K_C08.model_out *)
Section Model.
Context {T : Type} `{NumOps T}.
Definition VDm (a : list T) (dt : T) (trap : bool) : list T * list T := velo_disp trap dt a.

Theorem peaks_are_model (a v d : list T) (dt : T) :
  let fresh := mk_obj a dt v d false in
  let cached := mk_obj a dt v d true in
  res_value (gen_pga calc_peak fresh) = Some (fresh, calc_peak a) /\
  option_map snd (res_value (gen_pgv VDm calc_peak fresh)) = Some (calc_peak (fst (velo_disp true dt a))) /\
  option_map snd (res_value (gen_pgd VDm calc_peak fresh)) = Some (calc_peak (snd (velo_disp true dt a))) /\
  option_map snd (res_value (gen_velocity VDm fresh)) = Some (fst (velo_disp true dt a)) /\
  option_map snd (res_value (gen_displacement VDm fresh)) = Some (snd (velo_disp true dt a)) /\
  option_map snd (res_value (gen_pgv VDm calc_peak cached)) = Some (calc_peak v) /\
  option_map snd (res_value (gen_pgd VDm calc_peak cached)) = Some (calc_peak d) /\
  res_value (gen_generate_dv VDm false fresh) = Some (mk_obj a dt (fst (velo_disp false dt a)) (snd (velo_disp false dt a)) true).
Proof. repeat split. Qed.
End Model.

Lemma gen_c08_obj_constants :
  gen_generate_dv_default_trap = true /\ gen_pga_memo_key = "pga"%string /\ gen_pgv_memo_key = "pgv"%string /\
  gen_pgd_memo_key = "pgd"%string.
Proof. repeat split. Qed.
