(** The generated definitions of gen/Gen_c07_obj.v (re-translated from eqsig/single.py: Signal.gen_smooth_fa_spectrum,
    generate_smooth_fa_spectrum, the lazy getter smooth_fa_spectrum, the getters / setters of the smoothing frequencies and
    set_smooth_fa_frequecies_by_range on every run by translator/py2coq_objlayer.py) against the hand model of the object
    layer below: which arrays go to calc_smooth_fa_spectrum (SM; its own tie is gen/Gen_c07.v), in which order, with which
    band, where the result is stored, what the setters store and which flag they clear.  o_fa_freqs / o_fa_spectrum stand
    for what the properties fa_freqs / fa_spectrum return (property C06).  np.log10 / np.logspace are parameters.
    For every [NumOps] instance; no arithmetic law is used. *)
From Coq Require Import String.
From Coq Require Import ZArith List Bool.
From EQ Require Import lib.Num lib.NpList lib.PyRes gen.Gen_c07_obj.
Import ListNotations.
Local Open Scope num_scope.

Section Generic.
Context {T : Type} `{NumOps T}.
Variable SM : list T -> list T -> list T -> T -> list T.
Variable LOG10 : list T -> list T.
Variable LOGSPACE : T -> T -> Z -> list T.

(** hand model: the targets are the argument if given (stored first) else the stored ones; the spectrum is
    SM(fa_freqs, fa_spectrum, targets, band); it is stored and the flag set *)
Definition smooth_step (targets : option (list T)) (band : T) (st : @obj T) : @obj T :=
  let fs := match targets with Some f => f | None => o_smooth_fa_freqs st end in
  mk_obj (o_fa_freqs st) (o_fa_spectrum st) fs (SM (o_fa_freqs st) (o_fa_spectrum st) fs band) (o_smooth_freq_range st) true.
(** hand model of the setters: new targets, flag cleared, the stored spectrum left as it is *)
Definition set_targets (fs : list T) (st : @obj T) : @obj T :=
  mk_obj (o_fa_freqs st) (o_fa_spectrum st) fs (o_smooth_fa_spectrum st) (o_smooth_freq_range st) false.

Lemma obj_eta (st : @obj T) :
  mk_obj (o_fa_freqs st) (o_fa_spectrum st) (o_smooth_fa_freqs st) (o_smooth_fa_spectrum st) (o_smooth_freq_range st) (o_cached_smooth_fa st) = st.
Proof. destruct st; reflexivity. Qed.

Theorem gen_gen_smooth_eq (targets : option (list T)) (band : T) (st : @obj T) :
  gen_gen_smooth_fa_spectrum SM targets band st = PyOk (smooth_step targets band st).
Proof. destruct targets; reflexivity. Qed.
Theorem gen_generate_smooth_eq (band : T) (st : @obj T) :
  gen_generate_smooth_fa_spectrum SM band st = PyOk (smooth_step None band st).
Proof. reflexivity. Qed.
Theorem gen_smooth_get_eq (st : @obj T) :
  gen_smooth_fa_spectrum_get SM st
  = let st' := if o_cached_smooth_fa st then st else smooth_step None (nofZ 40) st in PyOk (st', o_smooth_fa_spectrum st').
Proof. unfold gen_smooth_fa_spectrum_get. destruct (o_cached_smooth_fa st) eqn:E; [|reflexivity]. cbv zeta. now rewrite <- E, obj_eta. Qed.
Theorem gen_freqs_get_eq (st : @obj T) :
  gen_smooth_fa_freqs_get st = PyOk (st, o_smooth_fa_freqs st) /\ gen_smooth_fa_frequencies_get st = PyOk (st, o_smooth_fa_freqs st).
Proof. unfold gen_smooth_fa_freqs_get, gen_smooth_fa_frequencies_get. now rewrite obj_eta. Qed.
Theorem gen_setters_eq (fs : list T) (st : @obj T) :
  gen_set_smooth_fa_freqs fs st = PyOk (set_targets fs st) /\ gen_set_smooth_fa_frequencies fs st = PyOk (set_targets fs st).
Proof. split; reflexivity. Qed.
(** by range: targets = logspace(log10(limits)[0], log10(limits)[1], n_points, base=10), the range is remembered, the flag
    cleared; IndexError when log10(limits) has fewer than two entries *)
Theorem gen_by_range_eq (limits : list T) (n : Z) (st : @obj T) :
  gen_set_smooth_fa_frequecies_by_range LOG10 LOGSPACE limits n st
  = match LOG10 limits with
    | a :: b :: _ => PyOk (mk_obj (o_fa_freqs st) (o_fa_spectrum st) (LOGSPACE a b n) (o_smooth_fa_spectrum st) limits false)
    | _ => PyRaise IndexError
    end.
Proof. unfold gen_set_smooth_fa_frequecies_by_range. destruct (LOG10 limits) as [|a [|b r]]; reflexivity. Qed.
End Generic.

Lemma gen_c07_obj_defaults :
  gen_gen_smooth_fa_spectrum_default_smooth_fa_freqs_is_none = true /\ gen_gen_smooth_fa_spectrum_default_band = 40%Z /\
  gen_generate_smooth_fa_spectrum_default_band = 40%Z.
Proof. repeat split. Qed.
