(** Q -> R transfer for the standardised CAV: the Q run used by the correspondence check is the R model of the
    theorems evaluated on the rational inputs. *)
From Coq Require Import ZArith QArith Reals List Bool.
From EQ Require Import lib.Num lib.NpList lib.InterpMono lib.NpTransfer model.M_im.
Import ListNotations.

Lemma cavdp_windows_transfer thr thr' dt dt' pps ag ag' : rel thr thr' -> rel dt dt' -> Forall2 rel ag ag' ->
  forall nwin start acc acc', rel acc acc' ->
  Forall2 rel (cavdp_windows thr dt pps nwin start acc ag) (cavdp_windows thr' dt' pps nwin start acc' ag').
Proof.
  intros Hthr Hdt Hag. induction nwin as [|k IH]; intros start acc acc' Hacc; cbn [cavdp_windows]; [constructor|].
  assert (Hw : Forall2 rel (vabs (window start (S pps) ag)) (vabs (window start (S pps) ag')))
    by now apply vabs_transfer, window_transfer.
  assert (Hb : nltb (nsub (amax (vabs (window start (S pps) ag))) thr) n0
             = nltb (nsub (amax (vabs (window start (S pps) ag'))) thr') n0).
  { apply rel_ltb; auto using rel_0. apply rel_sub; auto. now apply amax_transfer. }
  assert (Hi : rel (trapz dt (firstn pps (vabs (window start (S pps) ag))))
                   (trapz dt' (firstn pps (vabs (window start (S pps) ag')))))
    by (apply trapz_transfer; auto; now apply Forall2_firstn).
  rewrite Hb. clear Hb. destruct (nltb _ _).
  - constructor; [exact Hacc|]. apply IH. exact Hacc.
  - constructor; [now apply rel_add|]. apply IH. now apply rel_add.
Qed.
Lemma times_transfer dt dt' n : rel dt dt' -> Forall2 rel (times dt n) (times dt' n).
Proof.
  intros Hdt. unfold times. induction (seq 0 n) as [|i l IH]; cbn [map]; constructor; auto.
  apply rel_mul; auto using rel_ofZ.
Qed.
Theorem cav_dp_transfer g g' thr thr' dt dt' pps nwin a a' :
  rel g g' -> rel thr thr' -> rel dt dt' -> Forall2 rel a a' ->
  Forall2 rel (cav_dp g thr dt pps nwin a) (cav_dp g' thr' dt' pps nwin a').
Proof.
  intros Hg Hthr Hdt Ha. unfold cav_dp. cbv zeta. rewrite (Forall2_len _ _ _ Ha).
  assert (Hag : Forall2 rel (map (fun x => ndiv x g) a) (map (fun x => ndiv x g') a'))
    by (apply map_transfer; auto using rel_div).
  pose proof (cavdp_windows_transfer thr thr' dt dt' pps _ _ Hthr Hdt Hag nwin 0%nat n0 n0 rel_0) as Hws.
  generalize (times_transfer dt dt' (length a') Hdt).
  generalize (times dt (length a')) (times dt' (length a')). intros ts ts' Hts.
  induction Hts; cbn [map]; constructor; auto. now apply interp_grid_transfer.
Qed.
Lemma Forall2_rel_Q2R (l : list Q) : Forall2 rel l (map Q2R l).
Proof. induction l; cbn; constructor; auto. reflexivity. Qed.
Corollary cav_dp_transfer_Q2R (g thr dt : Q) pps nwin (a : list Q) :
  Forall2 rel (cav_dp g thr dt pps nwin a) (cav_dp (Q2R g) (Q2R thr) (Q2R dt) pps nwin (map Q2R a)).
Proof. apply cav_dp_transfer; try reflexivity. apply Forall2_rel_Q2R. Qed.
