(** Proofs for C15 (Stockwell transform) at T := R, on top of the DFT lemmas of P_C06. *)
From Coq Require Import ZArith QArith Qreals Reals List Bool Lra Lia.
From EQ Require Import lib.Num lib.NpList lib.Dft model.M_fourier model.M_stockwell proofs.P_C06.
Import ListNotations.
Local Open Scope R_scope.

(** ** more about the DFT sums: evenness, periodicity in the bin index *)
Lemma dft_neg (N : nat) (x : list R) (z : Z) :
  dft_re_R (Z.of_nat N) x (- z) = dft_re_R (Z.of_nat N) x z /\ dft_im_R (Z.of_nat N) x (- z) = - dft_im_R (Z.of_nat N) x z.
Proof.
  rewrite !dft_re_rsum, !dft_im_rsum.
  assert (E : forall j : nat, 2 * PI * IZR (- z * Z.of_nat j) / IZR (Z.of_nat N) = - (2 * PI * IZR (z * Z.of_nat j) / IZR (Z.of_nat N))).
  { intros j. rewrite Z.mul_opp_l, opp_IZR. unfold Rdiv. ring. }
  split.
  - apply rsum_ext; intros j _. now rewrite E, cos_neg.
  - rewrite Ropp_involutive.
    rewrite (rsum_ext _ (fun j => -1 * (nth j x 0 * sin (2 * PI * IZR (z * Z.of_nat j) / IZR (Z.of_nat N)))))
      by (intros j _; rewrite E, sin_neg; ring).
    rewrite rsum_scal. ring.
Qed.
Lemma dft_period (N : nat) (x : list R) (z q : Z) : (0 < N)%nat ->
  dft_re_R (Z.of_nat N) x (z + q * Z.of_nat N) = dft_re_R (Z.of_nat N) x z /\
  dft_im_R (Z.of_nat N) x (z + q * Z.of_nat N) = dft_im_R (Z.of_nat N) x z.
Proof.
  intros HN. rewrite !dft_re_rsum, !dft_im_rsum.
  assert (HNr : IZR (Z.of_nat N) <> 0) by (apply not_0_IZR; lia).
  assert (E : forall j : nat, 2 * PI * IZR ((z + q * Z.of_nat N) * Z.of_nat j) / IZR (Z.of_nat N)
                              = 2 * PI * IZR (z * Z.of_nat j) / IZR (Z.of_nat N) + 2 * PI * IZR (q * Z.of_nat j)).
  { intros j. rewrite !mult_IZR, plus_IZR, !mult_IZR. field. assumption. }
  split; [|f_equal]; apply rsum_ext; intros j _; rewrite E.
  - now rewrite cos_shift_turns.
  - now rewrite sin_shift_turns.
Qed.
Lemma dft_mod (N : nat) (x : list R) (z : Z) : (0 < N)%nat ->
  dft_re_R (Z.of_nat N) x (z mod Z.of_nat N) = dft_re_R (Z.of_nat N) x z /\
  dft_im_R (Z.of_nat N) x (z mod Z.of_nat N) = dft_im_R (Z.of_nat N) x z.
Proof.
  intros HN. replace (z mod Z.of_nat N)%Z with (z + (- (z / Z.of_nat N)) * Z.of_nat N)%Z.
  - now apply dft_period.
  - pose proof (Z.div_mod z (Z.of_nat N) ltac:(lia)). lia.
Qed.

(** ** index reflection of a finite sum: j -> (N - j) mod N *)
Definition refl (N m : nat) : nat := if Nat.eqb m 0 then 0%nat else (N - m)%nat.
Lemma rsum_reflect (f : nat -> R) (N : nat) : rsum f N = rsum (fun m => f (refl N m)) N.
Proof.
  destruct N as [|n]; [reflexivity|].
  change (S n) with (1 + n)%nat at 1 3. rewrite !rsum_split. cbn [rsum]. unfold refl at 1. cbn [Nat.eqb].
  f_equal.
  rewrite (rsum_ext (fun j => f (refl (S n) (1 + j))) (fun i => (fun i' => f (1 + i')%nat) (n - 1 - i)%nat)).
  - now rewrite (rsum_rev (fun i' => f (1 + i')%nat)).
  - intros j Hj. unfold refl. cbn [Nat.add Nat.eqb]. f_equal. lia.
Qed.
Lemma refl_Z (N m : nat) : (m < N)%nat ->
  Z.of_nat (refl N m) = ((if Nat.eqb m 0 then 0 else 1) * Z.of_nat N - Z.of_nat m)%Z.
Proof. intros Hm. unfold refl. destruct (Nat.eqb_spec m 0); lia. Qed.

(** ** the Gaussian kernel *)
Lemma gauss_0 k : Rgauss k 0 = 1.
Proof. unfold Rgauss. replace (- (2 * (PI * PI) * (0 * 0)) / (IZR k * IZR k)) with 0 by (unfold Rdiv; ring). apply exp_0. Qed.
Lemma gauss_even k m : Rgauss k (- m) = Rgauss k m.
Proof. unfold Rgauss. rewrite opp_IZR. replace (- IZR m * - IZR m) with (IZR m * IZR m) by ring. reflexivity. Qed.
Lemma gauss_pos k m : 0 < Rgauss k m.
Proof. apply exp_pos. Qed.
Lemma sidx_refl (n2 m : nat) : (m < 2 * n2)%nat ->
  sidx n2 (Z.of_nat (refl (2 * n2) m)) = sidx n2 (Z.of_nat m) \/ sidx n2 (Z.of_nat (refl (2 * n2) m)) = (- sidx n2 (Z.of_nat m))%Z.
Proof.
  intros Hm. unfold sidx, st_N, refl.
  destruct (Nat.eqb_spec m 0) as [->|Hne]; [now left|].
  destruct (Z.leb_spec (Z.of_nat (2 * n2 - m)) (Z.of_nat n2)), (Z.leb_spec (Z.of_nat m) (Z.of_nat n2)); lia.
Qed.
Lemma gauss_refl (n2 m : nat) k : (m < 2 * n2)%nat ->
  Rgauss k (sidx n2 (Z.of_nat (refl (2 * n2) m))) = Rgauss k (sidx n2 (Z.of_nat m)).
Proof. intros Hm. destruct (sidx_refl n2 m Hm) as [->| ->]; [reflexivity|apply gauss_even]. Qed.

(** ** the Toeplitz matrix of a REAL record is the shifted spectrum:  conj X[k-j] = X[j-k] *)
Lemma toep_real (N : nat) (x : list R) (k j : Z) :
  toep_re Rtwc (Z.of_nat N) x k j = dft_re_R (Z.of_nat N) x (j - k) /\
  toep_im Rtws (Z.of_nat N) x k j = dft_im_R (Z.of_nat N) x (j - k).
Proof.
  unfold toep_re, toep_im. destruct (Z.leb_spec j k) as [L|G]; [|split; reflexivity].
  replace (j - k)%Z with (- (k - j))%Z by lia. destruct (dft_neg N x (k - j)) as [-> ->]. numR. split; reflexivity.
Qed.

(** ** one cell as a textbook sum over the columns of the Toeplitz row *)
Lemma st_N_nat n2 : st_N n2 = Z.of_nat (2 * n2).
Proof. unfold st_N. lia. Qed.
Lemma st_row_length n2 (x : list R) k :
  length (st_row_re Rtwc Rgauss n2 x k) = (2 * n2)%nat /\ length (st_row_im Rtws Rgauss n2 x k) = (2 * n2)%nat.
Proof. unfold st_row_re, st_row_im. now rewrite !map_length, !zrange_length. Qed.
Definition ang (n2 : nat) (j : nat) (t : Z) : R := 2 * PI * IZR (Z.of_nat j * t) / IZR (st_N n2).
Lemma st_cell_rsum n2 (x : list R) k t :
  st_cell_re_R n2 x k t
  = rsum (fun j => Rgauss k (sidx n2 (Z.of_nat j)) *
                   (toep_re Rtwc (st_N n2) x k (Z.of_nat j) * cos (ang n2 j t) - toep_im Rtws (st_N n2) x k (Z.of_nat j) * sin (ang n2 j t)))
         (2 * n2) / IZR (st_N n2) /\
  st_cell_im_R n2 x k t
  = rsum (fun j => Rgauss k (sidx n2 (Z.of_nat j)) *
                   (toep_re Rtwc (st_N n2) x k (Z.of_nat j) * sin (ang n2 j t) + toep_im Rtws (st_N n2) x k (Z.of_nat j) * cos (ang n2 j t)))
         (2 * n2) / IZR (st_N n2).
Proof.
  unfold st_cell_re_R, st_cell_im_R, st_cell_re, st_cell_im, idft_re, idft_im. numR.
  rewrite !wsum_from_rsum. destruct (st_row_length n2 x k) as [-> ->].
  assert (Er : forall j, (j < 2 * n2)%nat -> nth j (st_row_re Rtwc Rgauss n2 x k) 0
                = toep_re Rtwc (st_N n2) x k (Z.of_nat j) * Rgauss k (sidx n2 (Z.of_nat j)))
    by (intros j Hj; unfold st_row_re; now rewrite map_zrange_nth).
  assert (Ei : forall j, (j < 2 * n2)%nat -> nth j (st_row_im Rtws Rgauss n2 x k) 0
                = toep_im Rtws (st_N n2) x k (Z.of_nat j) * Rgauss k (sidx n2 (Z.of_nat j)))
    by (intros j Hj; unfold st_row_im; now rewrite map_zrange_nth).
  split; f_equal.
  - rewrite <- (Rplus_0_r (rsum _ _ - rsum _ _)). unfold Rminus at 1. rewrite <- (Rmult_1_l (rsum (fun j => nth j (st_row_im _ _ _ _ _) 0 * _) _)).
    rewrite Ropp_mult_distr_l, <- rsum_scal, <- rsum_plus, Rplus_0_r.
    apply rsum_ext. intros j Hj. rewrite Er, Ei by assumption. unfold Rtwc, Rtws, ang. rewrite Z.add_0_l. numR. ring.
  - rewrite <- rsum_plus. apply rsum_ext. intros j Hj. rewrite Er, Ei by assumption. unfold Rtwc, Rtws, ang. rewrite Z.add_0_l. numR. ring.
Qed.

(** ** specification side: the discrete S-transform (Stockwell, Mansinha & Lowe 1996) of a record with spectrum X,
       voice k, time t:   S[k,t] = (1/N) sum_{m<N} X[(m+k) mod N] exp(-2 pi^2 ms^2 / k^2) e^{+2 pi i m t/N}
    (ms = signed index of m; the Gaussian is the Fourier transform of a time window of standard deviation 1/f) *)
Definition Strans_re (n2 : nat) (x : list R) (k t : Z) : R :=
  rsum (fun m => Rgauss k (sidx n2 (Z.of_nat m)) *
                 (dft_re_R (st_N n2) x ((Z.of_nat m + k) mod st_N n2) * cos (ang n2 m t)
                  - dft_im_R (st_N n2) x ((Z.of_nat m + k) mod st_N n2) * sin (ang n2 m t))) (2 * n2) / IZR (st_N n2).
Definition Strans_im (n2 : nat) (x : list R) (k t : Z) : R :=
  rsum (fun m => Rgauss k (sidx n2 (Z.of_nat m)) *
                 (dft_re_R (st_N n2) x ((Z.of_nat m + k) mod st_N n2) * sin (ang n2 m t)
                  + dft_im_R (st_N n2) x ((Z.of_nat m + k) mod st_N n2) * cos (ang n2 m t))) (2 * n2) / IZR (st_N n2).

Lemma ang_refl (n2 m : nat) (t : Z) : (m < 2 * n2)%nat ->
  cos (ang n2 (refl (2 * n2) m) t) = cos (ang n2 m t) /\ sin (ang n2 (refl (2 * n2) m) t) = - sin (ang n2 m t).
Proof.
  intros Hm. unfold ang. rewrite (refl_Z _ _ Hm). set (q := (if Nat.eqb m 0 then 0 else 1)%Z).
  assert (HNr : IZR (st_N n2) <> 0) by (apply not_0_IZR; unfold st_N; lia).
  replace (2 * PI * IZR ((q * Z.of_nat (2 * n2) - Z.of_nat m) * t) / IZR (st_N n2))
    with (- (2 * PI * IZR (Z.of_nat m * t) / IZR (st_N n2)) + 2 * PI * IZR (q * t)).
  - rewrite cos_shift_turns, sin_shift_turns, cos_neg, sin_neg. split; reflexivity.
  - rewrite <- st_N_nat. rewrite !mult_IZR, minus_IZR, !mult_IZR. field. assumption.
Qed.
Lemma spec_refl (n2 m : nat) (x : list R) (k : Z) : (m < 2 * n2)%nat ->
  dft_re_R (st_N n2) x (Z.of_nat (refl (2 * n2) m) - k) = dft_re_R (st_N n2) x ((Z.of_nat m + k) mod st_N n2) /\
  dft_im_R (st_N n2) x (Z.of_nat (refl (2 * n2) m) - k) = - dft_im_R (st_N n2) x ((Z.of_nat m + k) mod st_N n2).
Proof.
  intros Hm. rewrite (refl_Z _ _ Hm). set (q := (if Nat.eqb m 0 then 0 else 1)%Z). rewrite st_N_nat.
  assert (HN : (0 < 2 * n2)%nat) by lia.
  destruct (dft_mod (2 * n2) x (Z.of_nat m + k) HN) as [-> ->].
  replace (q * Z.of_nat (2 * n2) - Z.of_nat m - k)%Z with (- (Z.of_nat m + k) + q * Z.of_nat (2 * n2))%Z by lia.
  destruct (dft_period (2 * n2) x (- (Z.of_nat m + k)) q HN) as [-> ->].
  apply dft_neg.
Qed.
Lemma st_is_conj_S (n2 : nat) (x : list R) (k t : Z) :
  st_cell_re_R n2 x k t = Strans_re n2 x k t /\ st_cell_im_R n2 x k t = - Strans_im n2 x k t.
Proof.
  destruct (st_cell_rsum n2 x k t) as [-> ->]. unfold Strans_re, Strans_im.
  split.
  - f_equal. rewrite rsum_reflect. apply rsum_ext. intros m Hm.
    rewrite gauss_refl by assumption. destruct (ang_refl n2 m t Hm) as [-> ->].
    rewrite st_N_nat at 1 2. destruct (toep_real (2 * n2) x k (Z.of_nat (refl (2 * n2) m))) as [-> ->].
    rewrite <- st_N_nat. destruct (spec_refl n2 m x k Hm) as [-> ->]. ring.
  - unfold Rdiv. rewrite Ropp_mult_distr_l. f_equal. rewrite rsum_reflect.
    rewrite <- (Rmult_1_l (rsum (fun m => Rgauss k (sidx n2 (Z.of_nat m)) * _) _)), Ropp_mult_distr_l, <- rsum_scal.
    apply rsum_ext. intros m Hm.
    rewrite gauss_refl by assumption. destruct (ang_refl n2 m t Hm) as [-> ->].
    rewrite st_N_nat at 1 2. destruct (toep_real (2 * n2) x k (Z.of_nat (refl (2 * n2) m))) as [-> ->].
    rewrite <- st_N_nat. destruct (spec_refl n2 m x k Hm) as [-> ->]. ring.
Qed.

(** ** linearity *)
Lemma toep_linear N a b (x y : list R) k j : length x = length y ->
  toep_re Rtwc N (lin a b x y) k j = a * toep_re Rtwc N x k j + b * toep_re Rtwc N y k j /\
  toep_im Rtws N (lin a b x y) k j = a * toep_im Rtws N x k j + b * toep_im Rtws N y k j.
Proof.
  intros E. unfold toep_re, toep_im. numR.
  destruct (Z.leb_spec j k) as [L|G].
  - destruct (dft_linear_Z N a b x y (k - j) E) as [H1 H2]. unfold dft_re_R, dft_im_R in H1, H2. rewrite H1, H2. split; ring.
  - destruct (dft_linear_Z N a b x y (j - k) E) as [H1 H2]. unfold dft_re_R, dft_im_R in H1, H2. rewrite H1, H2. split; ring.
Qed.
Lemma st_cell_linear n2 a b (x y : list R) k t : length x = length y ->
  st_cell_re_R n2 (lin a b x y) k t = a * st_cell_re_R n2 x k t + b * st_cell_re_R n2 y k t /\
  st_cell_im_R n2 (lin a b x y) k t = a * st_cell_im_R n2 x k t + b * st_cell_im_R n2 y k t.
Proof.
  intros E.
  destruct (st_cell_rsum n2 (lin a b x y) k t) as [-> ->], (st_cell_rsum n2 x k t) as [-> ->], (st_cell_rsum n2 y k t) as [-> ->].
  unfold Rdiv. rewrite <- !Rmult_assoc, <- !rsum_scal, <- !Rmult_plus_distr_r, <- !rsum_plus.
  split; f_equal; apply rsum_ext; intros j _; destruct (toep_linear (st_N n2) a b x y k (Z.of_nat j) E) as [-> ->]; ring.
Qed.
Lemma half_len_lin a b (x y : list R) : length x = length y -> half_len (lin a b x y) = half_len x.
Proof. intros E. unfold half_len. now rewrite lin_length. Qed.
Lemma map_lin {A} (f g h : A -> R) a b l : (forall k, h k = a * f k + b * g k) ->
  map h l = map2 (fun u v => a * u + b * v) (map f l) (map g l).
Proof. intros Hh. induction l as [|z l IH]; [reflexivity|]. cbn. now rewrite Hh, IH. Qed.
Lemma map_lin2 {A} (f g h : A -> list R) a b l : (forall k, h k = map2 (fun u v => a * u + b * v) (f k) (g k)) ->
  map h l = map2 (map2 (fun u v => a * u + b * v)) (map f l) (map g l).
Proof. intros Hh. induction l as [|z l IH]; [reflexivity|]. cbn. now rewrite Hh, IH. Qed.
Lemma st_linear a b (x y : list R) : length x = length y ->
  st_re_R (lin a b x y) = map2 (map2 (fun u v => a * u + b * v)) (st_re_R x) (st_re_R y) /\
  st_im_R (lin a b x y) = map2 (map2 (fun u v => a * u + b * v)) (st_im_R x) (st_im_R y).
Proof.
  intros E. unfold st_re_R, st_im_R, st_re, st_im. rewrite (half_len_lin a b x y E).
  assert (E2 : half_len y = half_len x) by (unfold half_len; now rewrite E). rewrite E2.
  split; apply map_lin2; intros k; apply map_lin; intros t.
  - apply (st_cell_linear (half_len x) a b x y k t E).
  - apply (st_cell_linear (half_len x) a b x y k t E).
Qed.

(** ** shape: n/2 rows of 2(n/2) cells, row r is voice k = n/2 - r (Nyquist first, first harmonic last) *)
Lemma st_ks_length n2 : length (st_ks n2) = n2.
Proof. unfold st_ks. now rewrite rev_length, map_length, zrange_length. Qed.
Lemma st_ks_nth n2 r : (r < n2)%nat -> nth r (st_ks n2) 0%Z = Z.of_nat (n2 - r).
Proof.
  intros Hr. unfold st_ks. rewrite rev_nth by (now rewrite map_length, zrange_length).
  rewrite map_length, zrange_length. rewrite map_zrange_nth by lia. lia.
Qed.
Lemma st_rows (x : list R) :
  length (st_re_R x) = half_len x /\ length (st_im_R x) = half_len x /\
  forall r, (r < half_len x)%nat ->
    nth r (st_re_R x) [] = map (fun t => st_cell_re_R (half_len x) x (Z.of_nat (half_len x - r)) t) (zrange (2 * half_len x)) /\
    nth r (st_im_R x) [] = map (fun t => st_cell_im_R (half_len x) x (Z.of_nat (half_len x - r)) t) (zrange (2 * half_len x)).
Proof.
  unfold st_re_R, st_im_R, st_re, st_im. rewrite !map_length, st_ks_length. split; [reflexivity|]. split; [reflexivity|].
  intros r Hr. split.
  - rewrite (nth_map_in _ (st_ks (half_len x)) r [] 0%Z) by (now rewrite st_ks_length). now rewrite st_ks_nth.
  - rewrite (nth_map_in _ (st_ks (half_len x)) r [] 0%Z) by (now rewrite st_ks_length). now rewrite st_ks_nth.
Qed.
Lemma st_shape (x : list R) r t : (r < half_len x)%nat -> (t < 2 * half_len x)%nat ->
  length (nth r (st_re_R x) []) = (2 * half_len x)%nat /\ length (nth r (st_im_R x) []) = (2 * half_len x)%nat /\
  nth t (nth r (st_re_R x) []) 0 = st_cell_re_R (half_len x) x (Z.of_nat (half_len x - r)) (Z.of_nat t) /\
  nth t (nth r (st_im_R x) []) 0 = st_cell_im_R (half_len x) x (Z.of_nat (half_len x - r)) (Z.of_nat t).
Proof.
  intros Hr Ht. destruct (st_rows x) as (_ & _ & H). destruct (H r Hr) as [-> ->].
  rewrite !map_length, !zrange_length. split; [reflexivity|]. split; [reflexivity|].
  now rewrite !map_zrange_nth by assumption.
Qed.

(** ** Fourier marginal: summing a voice over time leaves only column j = 0 of its Toeplitz row, conj X[k] *)
Lemma ang_orth (n2 j : nat) : (1 <= n2)%nat -> (j < 2 * n2)%nat ->
  rsum (fun t => cos (ang n2 j (Z.of_nat t))) (2 * n2) = (if Nat.eqb j 0 then INR (2 * n2) else 0) /\
  rsum (fun t => sin (ang n2 j (Z.of_nat t))) (2 * n2) = 0.
Proof.
  intros Hn Hj. destruct (orthogonality (2 * n2) (Z.of_nat j) ltac:(lia)) as [Hc Hs].
  unfold ang. rewrite st_N_nat.
  rewrite (rsum_ext _ (fun t => cos (2 * PI * IZR (Z.of_nat t * Z.of_nat j) / IZR (Z.of_nat (2 * n2)))))
    by (intros t _; now rewrite Z.mul_comm).
  rewrite (rsum_ext (fun t => sin _) (fun t => sin (2 * PI * IZR (Z.of_nat t * Z.of_nat j) / IZR (Z.of_nat (2 * n2)))))
    by (intros t _; now rewrite Z.mul_comm).
  rewrite Hc, Hs. split; [|reflexivity].
  rewrite Z.mod_small by lia. destruct (Nat.eqb_spec j 0) as [->|Hne]; [reflexivity|].
  destruct (Z.eqb_spec (Z.of_nat j) 0); [lia|reflexivity].
Qed.
Lemma st_marginal (n2 : nat) (x : list R) (k : Z) : (1 <= n2)%nat -> (0 <= k)%Z ->
  rsum (fun t => st_cell_re_R n2 x k (Z.of_nat t)) (2 * n2) = dft_re_R (st_N n2) x k /\
  rsum (fun t => st_cell_im_R n2 x k (Z.of_nat t)) (2 * n2) = - dft_im_R (st_N n2) x k.
Proof.
  intros Hn Hk.
  assert (HNr : INR (2 * n2) <> 0) by (apply not_0_INR; lia).
  assert (EN : IZR (st_N n2) = INR (2 * n2)) by (rewrite st_N_nat; now rewrite <- INR_IZR_INZ).
  set (G := fun j : nat => Rgauss k (sidx n2 (Z.of_nat j))).
  set (A := fun j : nat => toep_re Rtwc (st_N n2) x k (Z.of_nat j)).
  set (B := fun j : nat => toep_im Rtws (st_N n2) x k (Z.of_nat j)).
  assert (A0 : A 0%nat = dft_re_R (st_N n2) x k).
  { unfold A, toep_re. cbn [Z.of_nat]. destruct (Z.leb_spec 0 k); [|lia]. now rewrite Z.sub_0_r. }
  assert (B0 : B 0%nat = - dft_im_R (st_N n2) x k).
  { unfold B, toep_im. cbn [Z.of_nat]. destruct (Z.leb_spec 0 k); [|lia]. now rewrite Z.sub_0_r. }
  assert (G0 : G 0%nat = 1) by (unfold G, sidx; cbn [Z.of_nat]; destruct (Z.leb_spec 0 (Z.of_nat n2)); [apply gauss_0|lia]).
  split.
  - rewrite (rsum_ext _ (fun t => / IZR (st_N n2) * rsum (fun j => G j * (A j * cos (ang n2 j (Z.of_nat t)) - B j * sin (ang n2 j (Z.of_nat t)))) (2 * n2))).
    2:{ intros t _. destruct (st_cell_rsum n2 x k (Z.of_nat t)) as [-> _]. unfold Rdiv. apply Rmult_comm. }
    rewrite rsum_scal, rsum_swap.
    rewrite (rsum_ext _ (fun j => (G j * A j) * (if Nat.eqb j 0 then INR (2 * n2) else 0))).
    + rewrite rsum_delta by lia. rewrite G0, A0, EN. field. assumption.
    + intros j Hj. destruct (ang_orth n2 j Hn Hj) as [Hc Hs]. rewrite <- Hc.
      rewrite (rsum_ext _ (fun t => (G j * A j) * cos (ang n2 j (Z.of_nat t)) + (- (G j * B j)) * sin (ang n2 j (Z.of_nat t)))) by (intros; ring).
      rewrite rsum_plus, !rsum_scal, Hs. ring.
  - rewrite (rsum_ext _ (fun t => / IZR (st_N n2) * rsum (fun j => G j * (A j * sin (ang n2 j (Z.of_nat t)) + B j * cos (ang n2 j (Z.of_nat t)))) (2 * n2))).
    2:{ intros t _. destruct (st_cell_rsum n2 x k (Z.of_nat t)) as [_ ->]. unfold Rdiv. apply Rmult_comm. }
    rewrite rsum_scal, rsum_swap.
    rewrite (rsum_ext _ (fun j => (G j * B j) * (if Nat.eqb j 0 then INR (2 * n2) else 0))).
    + rewrite rsum_delta by lia. rewrite G0, B0, EN. field. assumption.
    + intros j Hj. destruct (ang_orth n2 j Hn Hj) as [Hc Hs]. rewrite <- Hc.
      rewrite (rsum_ext _ (fun t => (G j * A j) * sin (ang n2 j (Z.of_nat t)) + (G j * B j) * cos (ang n2 j (Z.of_nat t)))) by (intros; ring).
      rewrite rsum_plus, !rsum_scal, Hs. ring.
Qed.

(** row sums of the model's output (as itransform forms them) *)
Lemma lsum_app (l l' : list R) : lsum (l ++ l') = lsum l + lsum l'.
Proof. unfold lsum. induction l as [|a l IH]; cbn [app fold_right]; numR; [lra|]. unfold lsum in IH. rewrite IH. lra. Qed.
Lemma lsum_map_zrange (f : Z -> R) n : lsum (map f (zrange n)) = rsum (fun t => f (Z.of_nat t)) n.
Proof.
  induction n as [|n IH]; [reflexivity|]. unfold zrange in *. rewrite seq_S, !map_app, lsum_app, IH.
  cbn [rsum map Nat.add]. unfold lsum. cbn [fold_right]. numR. lra.
Qed.
Lemma st_row_sums (x : list R) : (1 <= half_len x)%nat ->
  row_sums (st_re_R x) = map (fun k => dft_re_R (st_N (half_len x)) x k) (st_ks (half_len x)) /\
  row_sums (st_im_R x) = map (fun k => - dft_im_R (st_N (half_len x)) x k) (st_ks (half_len x)).
Proof.
  intros Hn. unfold row_sums, st_re_R, st_im_R, st_re, st_im. rewrite !map_map.
  assert (Hk : forall k, In k (st_ks (half_len x)) -> (0 <= k)%Z).
  { intros k Hin. unfold st_ks in Hin. apply in_rev in Hin. apply in_map_iff in Hin as (i & <- & Hi).
    unfold zrange in Hi. apply in_map_iff in Hi as (j & <- & _). lia. }
  split; apply map_ext_in; intros k Hin; rewrite lsum_map_zrange.
  - apply (st_marginal (half_len x) x k Hn (Hk k Hin)).
  - apply (st_marginal (half_len x) x k Hn (Hk k Hin)).
Qed.

(** ** exact inverse: itransform of the transform = record (truncated to even length) - mean - Nyquist component.
       The row sums are the conjugate half spectrum (marginal); itransform's Hermitian completion of them is the
       completion fas2values builds from the half spectrum, so C06's inverse theorem applies. *)
Lemma ist_spec_nth (ss ss' : list R) (a0 a1 : R) (M k : nat) : length ss = M -> length ss' = M -> (1 <= M)%nat -> (k < 2 * M)%nat ->
  nth k (a0 :: rev (tl ss) ++ a1 :: tl ss') 0 =
  if Nat.eqb k 0 then a0 else if Nat.ltb k M then nth (M - k) ss 0 else if Nat.eqb k M then a1 else nth (k - M) ss' 0.
Proof.
  intros Hl Hl' HM Hk. destruct ss as [|h t]; [cbn in Hl; lia|]. destruct ss' as [|h' t']; [cbn in Hl'; lia|].
  cbn [tl length] in *. destruct k as [|k]; [reflexivity|]. cbn [nth]. change (S k =? 0)%nat with false. cbv iota.
  destruct (Nat.ltb_spec (S k) M) as [L|G].
  - rewrite app_nth1 by (rewrite rev_length; lia). rewrite rev_nth by lia.
    replace (M - S k)%nat with (S (length t - S k)) by lia. reflexivity.
  - rewrite app_nth2 by (rewrite rev_length; lia). rewrite rev_length.
    destruct (Nat.eqb_spec (S k) M) as [E|NE].
    + replace (k - length t)%nat with 0%nat by lia. reflexivity.
    + destruct (k - length t)%nat as [|d] eqn:Ed; [lia|]. cbn [nth]. replace (S k - M)%nat with (S d) by lia. reflexivity.
Qed.
Lemma ist_spec_length (ss ss' : list R) (a0 a1 : R) (M : nat) : length ss = M -> length ss' = M -> (1 <= M)%nat ->
  length (a0 :: rev (tl ss) ++ a1 :: tl ss') = (2 * M)%nat.
Proof.
  intros Hl Hl' HM. destruct ss as [|h t]; [cbn in Hl; lia|]. destruct ss' as [|h' t']; [cbn in Hl'; lia|].
  cbn [tl length] in *. rewrite app_length, rev_length. cbn [length]. lia.
Qed.

Section Inverse15.
Variable x : list R.
Let M := half_len x.
Hypothesis HM : (1 <= M)%nat.
Local Notation NZ := (Z.of_nat (2 * M)).
Let sre := map (fun k => dft_re_R (st_N M) x k) (st_ks M).
Let sim := map (fun k => - dft_im_R (st_N M) x k) (st_ks M).

Lemma inv15_len : length sre = M /\ length sim = M.
Proof. unfold sre, sim. now rewrite !map_length, st_ks_length. Qed.
Lemma inv15_sre_nth r : (r < M)%nat -> nth r sre 0 = dft_re_R NZ x (Z.of_nat (M - r)).
Proof.
  intros Hr. unfold sre. rewrite (nth_map_in _ (st_ks M) r 0 0%Z) by (now rewrite st_ks_length).
  now rewrite st_ks_nth, st_N_nat.
Qed.
Lemma inv15_sim_nth r : (r < M)%nat -> nth r sim 0 = - dft_im_R NZ x (Z.of_nat (M - r)).
Proof.
  intros Hr. unfold sim. rewrite (nth_map_in _ (st_ks M) r 0 0%Z) by (now rewrite st_ks_length).
  now rewrite st_ks_nth, st_N_nat.
Qed.
Lemma inv15_spec_re : ist_spec_re sre = herm_re 1 (fas_re_R NZ 1 x).
Proof.
  destruct inv15_len as [Lr Li].
  apply (nth_ext _ _ 0 0).
  - unfold ist_spec_re. numR. rewrite (ist_spec_length sre sre 0 0 M Lr Lr HM). symmetry. apply (inv_len_hre M 1 x HM).
  - unfold ist_spec_re at 1. numR. rewrite (ist_spec_length sre sre 0 0 M Lr Lr HM). intros k Hk.
    rewrite (inv_hre_nth M 1 x HM ltac:(lra) k Hk). unfold ist_spec_re. numR.
    rewrite (ist_spec_nth sre sre 0 0 M k Lr Lr HM Hk).
    destruct (Nat.eqb_spec k 0) as [E0|N0]; cbn [orb]; [reflexivity|].
    destruct (Nat.ltb_spec k M) as [L|G].
    + destruct (Nat.eqb_spec k M); [lia|]. rewrite inv15_sre_nth by lia. do 2 f_equal. lia.
    + destruct (Nat.eqb_spec k M) as [E|NE]; [reflexivity|]. rewrite inv15_sre_nth by lia.
      destruct (dft_hermitian (2 * M) x (Z.of_nat k) ltac:(lia)) as [Hh _]. rewrite <- Hh. f_equal. lia.
Qed.
Lemma inv15_spec_im : ist_spec_im sim = herm_im 1 (fas_im_R NZ 1 x).
Proof.
  destruct inv15_len as [Lr Li].
  assert (Lm : length (map Ropp sim) = M) by (now rewrite map_length).
  assert (Etl : map Ropp (tl sim) = tl (map Ropp sim)) by (destruct sim; reflexivity).
  apply (nth_ext _ _ 0 0).
  - unfold ist_spec_im. numR. rewrite Etl, (ist_spec_length (map Ropp sim) sim 0 0 M Lm Li HM). symmetry. apply (inv_len_him M 1 x HM).
  - unfold ist_spec_im at 1. numR. rewrite Etl, (ist_spec_length (map Ropp sim) sim 0 0 M Lm Li HM). intros k Hk.
    rewrite (inv_him_nth M 1 x HM ltac:(lra) k Hk). unfold ist_spec_im. numR.
    rewrite Etl, (ist_spec_nth (map Ropp sim) sim 0 0 M k Lm Li HM Hk).
    destruct (Nat.eqb_spec k 0) as [E0|N0]; cbn [orb]; [reflexivity|].
    destruct (Nat.ltb_spec k M) as [L|G].
    + destruct (Nat.eqb_spec k M); [lia|]. replace 0 with (- 0) at 1 by ring. rewrite (map_nth Ropp).
      rewrite inv15_sim_nth by lia. rewrite Ropp_involutive. do 2 f_equal. lia.
    + destruct (Nat.eqb_spec k M) as [E|NE]; [reflexivity|]. rewrite inv15_sim_nth by lia.
      destruct (dft_hermitian (2 * M) x (Z.of_nat k) ltac:(lia)) as [_ Hh].
      replace (Z.of_nat (M - (k - M))) with (Z.of_nat (2 * M) - Z.of_nat k)%Z by lia. rewrite Hh. ring.
Qed.
Lemma inv15_is_fas2values : ist_R (st_re_R x) (st_im_R x) = fas2values_re_R (fas_re_R NZ 1 x) (fas_im_R NZ 1 x) 1.
Proof.
  unfold ist_R, ist. destruct (st_row_sums x HM) as [-> ->]. fold M. fold sre sim.
  unfold ist_of_sums, fas2values_re_R, fas2values_re. rewrite inv15_spec_re, inv15_spec_im.
  destruct inv15_len as [-> _]. rewrite (inv_len_re M 1 x HM). reflexivity.
Qed.
Lemma ist_st_length : length (ist_R (st_re_R x) (st_im_R x)) = (2 * M)%nat.
Proof. rewrite inv15_is_fas2values. apply (fas2values_lengths M 1 x HM). Qed.
Lemma ist_st_nth n : (n < 2 * M)%nat ->
  nth n (ist_R (st_re_R x) (st_im_R x)) 0
  = nth n x 0 - rsum (fun j => nth j x 0) (2 * M) / INR (2 * M) - (-1) ^ n * (rsum (fun j => nth j x 0 * (-1) ^ j) (2 * M) / INR (2 * M)).
Proof. intros Hn. rewrite inv15_is_fas2values. apply (fas2values_re_nth M 1 x HM ltac:(lra) n Hn). Qed.
End Inverse15.

(** ** dominant-frequency trace: frequency axis and argmax *)
Lemma column_length (m : list (list R)) t : length (column m t) = length m.
Proof. unfold column. apply map_length. Qed.
Lemma column_nth (m : list (list R)) t r : (r < length m)%nat -> nth r (column m t) 0 = nth t (nth r m []) 0.
Proof. intros Hr. unfold column. now rewrite (nth_map_in _ m r 0 []). Qed.
Lemma st_freqs_nth (P : nat) (dt : R) r : (r < P)%nat ->
  nth r (st_freqs P dt) 0 = INR (P - r) / (INR (2 * P) * dt).
Proof.
  intros Hr. unfold st_freqs. rewrite map_zrange_nth by assumption. numR.
  rewrite !INR_IZR_INZ. do 2 f_equal; [f_equal; lia|]. f_equal. lia.
Qed.
Lemma max_freq_spec (re im : list (list R)) (dt : R) (t : nat) : re <> [] -> length im = length re -> (t < length (nth 0 re []))%nat ->
  let P := fun r => nth t (nth r re []) 0 * nth t (nth r re []) 0 + nth t (nth r im []) 0 * nth t (nth r im []) 0 in
  let r := max_row re im t in
  (r < length re)%nat /\ (forall j, (j < length re)%nat -> P j <= P r) /\ (forall j, (j < r)%nat -> P j < P r) /\
  nth t (max_freq re im dt) 0 = INR (length re - r) / (INR (2 * length re) * dt).
Proof.
  intros Hne E Ht P r.
  assert (Lc : length (column im t) = length (column re t)) by (now rewrite !column_length).
  assert (Ha : amp2 (column re t) (column im t) <> []).
  { intros H0. apply (f_equal (@length R)) in H0. rewrite amp2_length, column_length in H0 by assumption. destruct re; cbn in *; congruence. }
  destruct (argmax_spec _ Ha) as (H1 & H2 & H3). rewrite amp2_length, column_length in H1, H2 by assumption.
  fold (max_row re im t) in H1, H2, H3. fold r in H1, H2, H3.
  assert (HP : forall j, (j < length re)%nat -> nth j (amp2 (column re t) (column im t)) 0 = P j).
  { intros j Hj. rewrite amp2_nth by assumption. rewrite !column_nth by lia. reflexivity. }
  split; [assumption|]. split; [|split].
  - intros j Hj. rewrite <- !HP by assumption. now apply H2.
  - intros j Hj. rewrite <- !HP by lia. now apply H3.
  - unfold max_freq. rewrite (nth_map_in _ (seq 0 (length (nth 0 re []))) t 0 0%nat) by (now rewrite seq_length).
    rewrite seq_nth by assumption. cbn [Nat.add]. fold r. now apply st_freqs_nth.
Qed.

(** ** the Q run of itransform is an evaluation of the R model (samples whose twiddles are representable) *)
Lemma Forall2_rev' {A B} (P : A -> B -> Prop) l l' : Forall2 P l l' -> Forall2 P (rev l) (rev l').
Proof. induction 1; cbn; [constructor|]. apply Forall2_app; [assumption|]. constructor; [assumption|constructor]. Qed.
Lemma Forall2_tl {A B} (P : A -> B -> Prop) l l' : Forall2 P l l' -> Forall2 P (tl l) (tl l').
Proof. destruct 1; cbn; [constructor|assumption]. Qed.
Lemma lsum_transfer (l : list Q) (l' : list R) : Forall2 rel l l' -> rel (lsum l) (lsum l').
Proof. induction 1; cbn [lsum fold_right]; auto with rel. Qed.
Lemma row_sums_transfer (m : list (list Q)) (m' : list (list R)) :
  Forall2 (Forall2 rel) m m' -> Forall2 rel (row_sums m) (row_sums m').
Proof. induction 1; cbn; constructor; [now apply lsum_transfer|assumption]. Qed.
Lemma ist_spec_transfer (s : list Q) (s' : list R) : Forall2 rel s s' ->
  Forall2 rel (ist_spec_re s) (ist_spec_re s') /\ Forall2 rel (ist_spec_im s) (ist_spec_im s').
Proof.
  intros Hs. pose proof (Forall2_tl _ _ _ Hs) as Ht. unfold ist_spec_re, ist_spec_im. split.
  - constructor; [apply rel_0|]. apply Forall2_app; [now apply Forall2_rev'|]. constructor; [apply rel_0|assumption].
  - constructor; [apply rel_0|]. apply Forall2_app.
    + apply Forall2_rev'. apply map_transfer; [|assumption]. intros a r Ha. now apply rel_opp.
    + constructor; [apply rel_0|assumption].
Qed.
Lemma idft_re_transfer (N n : Z) (re im : list Q) (re' im' : list R) : tw_ok N n = true ->
  Forall2 rel re re' -> Forall2 rel im im' ->
  rel (idft_re Qtwc Qtws N re im n) (idft_re Rtwc Rtws N re' im' n).
Proof.
  intros Hn Hre Him. unfold idft_re.
  assert (Htw : forall k, Q2R (Qtwc N (k * n)) = Rtwc N (k * n) /\ Q2R (Qtws N (k * n)) = Rtws N (k * n)).
  { intros k. apply twiddle_table. rewrite Z.mul_comm. now apply tw_ok_mul. }
  apply rel_div; [|apply rel_ofZ]. apply rel_sub; apply wsum_from_transfer; try assumption; intros k; unfold rel; apply Htw.
Qed.
Lemma ist_sample_transfer (re im : list (list Q)) (re' im' : list (list R)) (n : Z) :
  Forall2 (Forall2 rel) re re' -> Forall2 (Forall2 rel) im im' ->
  let N := (2 * Z.of_nat (length (row_sums re)))%Z in
  tw_ok N n = true ->
  rel (idft_re Qtwc Qtws N (ist_spec_re (row_sums re)) (ist_spec_im (row_sums im)) n)
      (idft_re Rtwc Rtws N (ist_spec_re (row_sums re')) (ist_spec_im (row_sums im')) n).
Proof.
  intros Hre Him N Hn. apply idft_re_transfer; [assumption| |].
  - apply ist_spec_transfer. now apply row_sums_transfer.
  - apply ist_spec_transfer. now apply row_sums_transfer.
Qed.

(** ** the trace of the record's own transform: at every time the reported frequency is k/(N dt) for a voice k of largest
       amplitude, the highest such voice when several tie *)
Lemma max_stockwell_freq_record (x : list R) (dt : R) (t : nat) : (1 <= half_len x)%nat -> (t < 2 * half_len x)%nat ->
  let n2 := half_len x in
  let A := fun k : nat => st_cell_re_R n2 x (Z.of_nat k) (Z.of_nat t) * st_cell_re_R n2 x (Z.of_nat k) (Z.of_nat t)
                        + st_cell_im_R n2 x (Z.of_nat k) (Z.of_nat t) * st_cell_im_R n2 x (Z.of_nat k) (Z.of_nat t) in
  exists k, (1 <= k <= n2)%nat /\ (forall k', (1 <= k' <= n2)%nat -> A k' <= A k) /\ (forall k', (k < k' <= n2)%nat -> A k' < A k) /\
    nth t (max_stockwell_freq_R x dt) 0 = INR k / (INR (2 * n2) * dt).
Proof.
  intros Hn Ht n2 A. unfold max_stockwell_freq_R.
  destruct (st_rows x) as (Lr & Li & Hrows).
  assert (Hne : st_re_R x <> []) by (intros H0; rewrite H0 in Lr; cbn [length] in Lr; lia).
  assert (Hw : (t < length (nth 0 (st_re_R x) []))%nat).
  { destruct (st_shape x 0 t ltac:(lia) Ht) as (-> & _). exact Ht. }
  destruct (max_freq_spec (st_re_R x) (st_im_R x) dt t Hne ltac:(congruence) Hw) as (H1 & H2 & H3 & H4).
  set (r := max_row (st_re_R x) (st_im_R x) t) in *. rewrite Lr in H1, H2, H4. fold n2 in H1, H2, H4.
  assert (HA : forall j, (j < n2)%nat ->
     nth t (nth j (st_re_R x) []) 0 * nth t (nth j (st_re_R x) []) 0 + nth t (nth j (st_im_R x) []) 0 * nth t (nth j (st_im_R x) []) 0 = A (n2 - j)%nat).
  { intros j Hj. destruct (st_shape x j t Hj Ht) as (_ & _ & -> & ->). reflexivity. }
  exists (n2 - r)%nat. split; [lia|]. split; [|split].
  - intros k' Hk'. specialize (H2 (n2 - k')%nat ltac:(lia)). rewrite !HA in H2 by lia.
    replace (n2 - (n2 - k'))%nat with k' in H2 by lia. exact H2.
  - intros k' Hk'. specialize (H3 (n2 - k')%nat ltac:(lia)). rewrite !HA in H3 by lia.
    replace (n2 - (n2 - k'))%nat with k' in H3 by lia. exact H3.
  - exact H4.
Qed.

(** ** the Q run of the dominant-frequency trace is an evaluation of the R model *)
Lemma nth_transfer (l : list Q) (l' : list R) t : Forall2 rel l l' -> rel (nth t l n0) (nth t l' n0).
Proof. intros H. revert t. induction H; intros [|t]; cbn [nth]; auto with rel. Qed.
Lemma column_transfer (m : list (list Q)) (m' : list (list R)) t :
  Forall2 (Forall2 rel) m m' -> Forall2 rel (column m t) (column m' t).
Proof. induction 1; cbn; constructor; [now apply nth_transfer|assumption]. Qed.
Lemma argmax_from_transfer (l : list Q) (l' : list R) : Forall2 rel l l' ->
  forall best best' bi i, rel best best' -> argmax_from best bi i l = argmax_from best' bi i l'.
Proof.
  induction 1 as [|a b r r' Hab Hr IH]; intros best best' bi i Hb; cbn [argmax_from]; [reflexivity|].
  rewrite (rel_ltb best a best' b Hb Hab). destruct (nltb best' b); now apply IH.
Qed.
Lemma argmax_transfer (l : list Q) (l' : list R) : Forall2 rel l l' -> argmax l = argmax l'.
Proof. destruct 1; cbn [argmax]; [reflexivity|]. now apply argmax_from_transfer. Qed.
Lemma amp2_transfer (re im : list Q) (re' im' : list R) : Forall2 rel re re' -> Forall2 rel im im' ->
  Forall2 rel (amp2 re im) (amp2 re' im').
Proof. intros H1 H2. unfold amp2. apply map2_transfer; auto with rel. Qed.
Lemma max_row_transfer (re im : list (list Q)) (re' im' : list (list R)) t :
  Forall2 (Forall2 rel) re re' -> Forall2 (Forall2 rel) im im' -> max_row re im t = max_row re' im' t.
Proof. intros H1 H2. unfold max_row. apply argmax_transfer. apply amp2_transfer; now apply column_transfer. Qed.
Lemma st_freqs_transfer P (dt : Q) (dt' : R) : rel dt dt' -> Forall2 rel (st_freqs P dt) (st_freqs P dt').
Proof.
  intros Hdt. unfold st_freqs. induction (zrange P) as [|z l IH]; cbn [map]; constructor; [|assumption].
  apply rel_div; [apply rel_ofZ|]. apply rel_mul; [apply rel_ofZ|assumption].
Qed.
Lemma max_freq_transfer (re im : list (list Q)) (re' im' : list (list R)) (dt : Q) (dt' : R) :
  Forall2 (Forall2 rel) re re' -> Forall2 (Forall2 rel) im im' -> rel dt dt' ->
  Forall2 rel (max_freq re im dt) (max_freq re' im' dt').
Proof.
  intros H1 H2 Hdt. unfold max_freq.
  rewrite <- (Forall2_len _ _ _ H1).
  assert (Hw : length (nth 0 re []) = length (nth 0 re' [])).
  { destruct H1 as [|a b r r' Hab _]; [reflexivity|]. cbn [nth]. apply (Forall2_len _ _ _ Hab). }
  rewrite <- Hw. induction (seq 0 (length (nth 0 re []))) as [|t l IH]; cbn [map]; constructor; [|assumption].
  rewrite (max_row_transfer re im re' im' t H1 H2). apply nth_transfer. now apply st_freqs_transfer.
Qed.
