(** C01 — the statements of eqsig/sdof.py:nigam_and_jennings_response around compute_a_and_b, as re-translated on every
    run into gen/Gen_sdof_loop.v (load sign, w constant, zero initial state, the two loop assignments, the third series,
    the T = 0 row), ARE the corresponding pieces of the hand model model/M_sdof.v — for all arguments.
    The pointwise lemmas are ring identities between the generated text and the model definitions; the series-level
    theorems (induction over the record) say that the model series is the unique list satisfying the source loop read
    index-wise. *)
From Coq Require Import Reals List Lia Lra.
From Interval Require Import Tactic.
From EQ Require Import lib.Num lib.NpList model.M_sdof gen.Gen_sdof_loop proofs.P_C01.
Import ListNotations.
Local Open Scope R_scope.

(** * pointwise: generated definition = model definition *)

(** the load: acc = -np.array(acc) *)
Lemma load_is_source (a : R) : gen_load a = nopp a.
Proof. unfold gen_load. numR. ring. Qed.
Lemma record_sign_is_source : gen_record_sign = -1.
Proof. unfold gen_record_sign, gen_load. ring. Qed.
Lemma load_is_sign_times (a : R) : gen_load a = gen_record_sign * a.
Proof. unfold gen_record_sign, gen_load. ring. Qed.

(** w = 6.2831853 / periods[s:] *)
Lemma c2pi_is_source : gen_c2pi = 62831853 / 10000000.
Proof. unfold gen_c2pi. lra. Qed.
Lemma w_is_source (P : R) : w_of gen_c2pi P = gen_w P.
Proof. unfold w_of, gen_w, gen_c2pi. numR. reflexivity. Qed.
Lemma c2pi_near_2pi : Rabs (gen_c2pi - 2 * PI) <= 72 / 10000000000.
Proof. unfold gen_c2pi. interval with (i_prec 60). Qed.

(** zero initial state *)
Lemma init_is_source : (gen_init_u, gen_init_v) = ((n0, n0) : R * R).
Proof. unfold gen_init_u, gen_init_v. numR. reflexivity. Qed.

(** the loop body, one oscillator, one sample *)
Definition gen_step (c : coeffs R) (s : R * R) (f0 f1 : R) : R * R :=
  (gen_step_u (a11 c) (a12 c) (a21 c) (a22 c) (b11 c) (b12 c) (b21 c) (b22 c) (fst s) (snd s) f0 f1,
   gen_step_v (a11 c) (a12 c) (a21 c) (a22 c) (b11 c) (b12 c) (b21 c) (b22 c) (fst s) (snd s) f0 f1).

Lemma step_is_source (c : coeffs R) (s : R * R) (f0 f1 : R) : nj_step c s f0 f1 = gen_step c s f0 f1.
Proof. unfold nj_step, gen_step, gen_step_u, gen_step_v. numR. f_equal; ring. Qed.

(** third series, both branches of `if s:` *)
Lemma resp_acc_is_source (xi w : R) (s : R * R) : resp_acc xi w s = gen_resp_acc xi w (fst s) (snd s).
Proof. unfold resp_acc, gen_resp_acc. numR. cbv zeta. ring. Qed.
Lemma resp_acc_lead0_is_source (xi w : R) (s : R * R) : resp_acc xi w s = gen_resp_acc_lead0 xi w (fst s) (snd s).
Proof. unfold resp_acc, gen_resp_acc_lead0. numR. cbv zeta. ring. Qed.

(** * series level *)
Section Series.
Variable c : coeffs R.

(** the model series satisfies the source loop read index-wise: with acc_i = gen_load rec_i,
    x_0 = (gen_init_u, gen_init_v) and x_{i+1} = (gen_step_u .. x_i acc_i acc_{i+1}, gen_step_v .. x_i acc_i acc_{i+1}) *)
Theorem loop_is_source (rec : list R) :
  length (nj_series c rec) = length rec /\
  (rec <> [] -> nth 0 (nj_series c rec) (0, 0) = (gen_init_u, gen_init_v)) /\
  forall i, (S i < length rec)%nat ->
    nth (S i) (nj_series c rec) (0, 0)
    = gen_step c (nth i (nj_series c rec) (0, 0)) (gen_load (nth i rec 0)) (gen_load (nth (S i) rec 0)).
Proof.
  split; [apply nj_series_length|]. split.
  - intros Hne. rewrite (nj_series_0 c rec (0, 0) Hne). reflexivity.
  - intros i Hi. rewrite (nj_series_S c rec i (0, 0) Hi), step_is_source. unfold gen_load. reflexivity.
Qed.

(** ... and it is the ONLY such list: whatever arrays a run of the source loop leaves behind (they satisfy these
    equations by the meaning of the two assignments), they are the model series *)
Theorem loop_characterises (rec : list R) (L : list (R * R)) :
  length L = length rec ->
  (rec <> [] -> nth 0 L (0, 0) = (gen_init_u, gen_init_v)) ->
  (forall i, (S i < length rec)%nat ->
     nth (S i) L (0, 0) = gen_step c (nth i L (0, 0)) (gen_load (nth i rec 0)) (gen_load (nth (S i) rec 0))) ->
  L = nj_series c rec.
Proof.
  intros Hlen H0 HS. destruct (loop_is_source rec) as (Ml & M0 & MS).
  apply (nth_ext _ _ (0, 0) (0, 0)); [now rewrite Ml|].
  intros i Hi. rewrite Hlen in Hi. induction i as [|j IH].
  - assert (Hne : rec <> []) by (destruct rec; [cbn in Hi; lia | discriminate]).
    now rewrite H0, M0.
  - rewrite HS, MS by exact Hi. rewrite IH by lia. reflexivity.
Qed.

(** the load is the record times the source's sign, the start is the source's zero state *)
Lemma series_sign_is_source (rec : list R) :
  nj_series c rec
  = match map (fun a => gen_record_sign * a) rec with [] => [] | f0 :: r => nj_run c (gen_init_u, gen_init_v) f0 r end.
Proof.
  unfold nj_series. rewrite init_is_source.
  replace (map (fun a => gen_record_sign * a) rec) with (map nopp rec); [reflexivity|].
  apply map_ext. intros a. rewrite <- load_is_sign_times. symmetry. apply load_is_source.
Qed.
End Series.

(** the third returned series of a row is the source expression of the sample's state *)
Lemma row_third_is_source (c : coeffs R) xi w (rec : list R) i : (i < length rec)%nat ->
  nth i (snd (row c xi w rec)) 0
  = gen_resp_acc xi w (nth i (fst (fst (row c xi w rec))) 0) (nth i (snd (fst (row c xi w rec))) 0) /\
  nth i (snd (row c xi w rec)) 0
  = gen_resp_acc_lead0 xi w (nth i (fst (fst (row c xi w rec))) 0) (nth i (snd (fst (row c xi w rec))) 0).
Proof.
  intros Hi. unfold row. cbn [fst snd].
  rewrite (nth_map_in (resp_acc xi w) _ i 0 (0, 0)) by (rewrite nj_series_length; exact Hi).
  rewrite (nth_map_in snd _ i 0 (0, 0)) by (rewrite nj_series_length; exact Hi).
  rewrite (nth_map_in fst _ i 0 (0, 0)) by (rewrite nj_series_length; exact Hi).
  split; [apply resp_acc_is_source | apply resp_acc_lead0_is_source].
Qed.

(** the T = 0 row: u, v keep the np.zeros value, the third series is `sdof_acc[0] = acc` (the load) *)
Lemma zero_row_is_source (rec : list R) i : (i < length rec)%nat ->
  nth i (fst (fst (zero_row rec))) 0 = gen_init_u /\ nth i (snd (fst (zero_row rec))) 0 = gen_init_v /\
  nth i (snd (zero_row rec)) 0 = gen_zero_row_acc (gen_load (nth i rec 0)).
Proof.
  intros Hi. destruct (zero_row_spec rec i Hi) as (E1 & E2 & E3). rewrite E1, E2, E3.
  unfold gen_init_u, gen_init_v, gen_zero_row_acc, gen_load. repeat split; ring.
Qed.
