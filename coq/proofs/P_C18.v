(** Proofs for C18 (rotation, lag matching, same-start alignment) at T := R. *)
From Coq Require Import ZArith Reals List Bool Lra Lia.
From EQ Require Import lib.Num lib.NpList lib.Quad model.M_multiple.
Import ListNotations.
Local Open Scope R_scope.

(** * rotation *)
Lemma combine_length c s (ns we : list R) : length ns = length we -> length (combine c s ns we) = length ns.
Proof. intros Hl. unfold combine. rewrite map2_length. lia. Qed.
Lemma combine_nth c s (ns we : list R) i : (i < length ns)%nat -> length ns = length we ->
  nth i (combine c s ns we) 0 = nth i ns 0 * c + nth i we 0 * s.
Proof. intros Hi Hl. unfold combine. rewrite (map2_nth _ ns we 0 0 0) by lia. reflexivity. Qed.

Lemma map2_fst_id (f : R -> R -> R) (a b : list R) : length a = length b -> (forall x y, f x y = x) -> map2 f a b = a.
Proof. revert b; induction a as [|x r IH]; intros [|y rb] Hl Hf; cbn in *; try lia; auto. rewrite Hf, IH; auto. Qed.
Lemma map2_snd_id (f : R -> R -> R) (a b : list R) : length a = length b -> (forall x y, f x y = y) -> map2 f a b = b.
Proof. revert b; induction a as [|x r IH]; intros [|y rb] Hl Hf; cbn in *; try lia; auto. rewrite Hf, IH; auto. Qed.
Lemma map2_ext {A B C} (f g : A -> B -> C) a b : (forall x y, f x y = g x y) -> map2 f a b = map2 g a b.
Proof. intros E. revert b; induction a as [|x r IH]; intros [|y rb]; cbn; auto. now rewrite E, IH. Qed.
Lemma map_map2 {A B C D} (h : C -> D) (f : A -> B -> C) a b : map h (map2 f a b) = map2 (fun x y => h (f x y)) a b.
Proof. revert b; induction a as [|x r IH]; intros [|y rb]; cbn; auto. now rewrite IH. Qed.

Lemma radians_0 : radians 0 = 0. Proof. unfold radians. lra. Qed.
Lemma radians_90 : radians 90 = PI / 2. Proof. unfold radians. lra. Qed.
Lemma radians_plus_180 d : radians (d + 180) = radians d + PI. Proof. unfold radians. lra. Qed.

Lemma angle_0 (ns we : list R) : length ns = length we -> combine_at_angle ns we 0 = ns.
Proof.
  intros Hl. unfold combine_at_angle, kernR, combine. cbn [fst snd]. rewrite radians_0, cos_0, sin_0.
  apply map2_fst_id; auto. intros; numR; ring.
Qed.
Lemma angle_90 (ns we : list R) : length ns = length we -> combine_at_angle ns we 90 = we.
Proof.
  intros Hl. unfold combine_at_angle, kernR, combine. cbn [fst snd]. rewrite radians_90, cos_PI2, sin_PI2.
  apply map2_snd_id; auto. intros; numR; ring.
Qed.
Lemma angle_plus_180 (ns we : list R) d : combine_at_angle ns we (d + 180) = map Ropp (combine_at_angle ns we d).
Proof.
  unfold combine_at_angle, kernR, combine. cbn [fst snd]. rewrite radians_plus_180, neg_cos, neg_sin.
  rewrite map_map2. apply map2_ext. intros; numR; ring.
Qed.
Lemma angle_formula (ns we : list R) d i : length ns = length we -> (i < length ns)%nat ->
  nth i (combine_at_angle ns we d) 0 = nth i ns 0 * cos (d * PI / 180) + nth i we 0 * sin (d * PI / 180).
Proof. intros Hl Hi. unfold combine_at_angle, kernR. cbn [fst snd]. now apply combine_nth. Qed.

(** periodicity, so that reducing the angle mod 360 does not change the combination *)
Lemma cos_period_Z x k : cos (x + 2 * IZR k * PI) = cos x.
Proof.
  destruct (Z_le_gt_dec 0 k) as [Hk|Hk].
  - rewrite <- (Z2Nat.id k) by lia. rewrite <- INR_IZR_INZ. apply cos_period.
  - rewrite <- (cos_period (x + 2 * IZR k * PI) (Z.to_nat (- k))). f_equal.
    rewrite INR_IZR_INZ, Z2Nat.id by lia. rewrite opp_IZR. ring.
Qed.
Lemma sin_period_Z x k : sin (x + 2 * IZR k * PI) = sin x.
Proof.
  destruct (Z_le_gt_dec 0 k) as [Hk|Hk].
  - rewrite <- (Z2Nat.id k) by lia. rewrite <- INR_IZR_INZ. apply sin_period.
  - rewrite <- (sin_period (x + 2 * IZR k * PI) (Z.to_nat (- k))). f_equal.
    rewrite INR_IZR_INZ, Z2Nat.id by lia. rewrite opp_IZR. ring.
Qed.
Lemma floorR_spec x : IZR (nfloor x) <= x < IZR (nfloor x) + 1.
Proof. numR. rewrite minus_IZR. destruct (archimed x). lra. Qed.
Lemma mod360_spec (x : R) : 0 <= mod360 x < 360 /\ mod360 x = x - 360 * IZR (nfloor (x / 360)).
Proof.
  split; [|reflexivity]. unfold mod360. pose proof (floorR_spec (x / 360)) as Hf.
  cbn [n0 n1 nadd nsub nmul ndiv nofZ NumR] in *. set (k := IZR (nfloor (x / 360))) in *.
  assert (x = x / 360 * 360) by (field). lra.
Qed.
Lemma kernR_mod360 d : kernR (mod360 d) = kernR d.
Proof.
  unfold kernR, radians. destruct (mod360_spec d) as [_ ->].
  set (k := nfloor (d / 360)).
  replace ((d - 360 * IZR k) * PI / 180) with (d * PI / 180 + 2 * IZR (- k) * PI) by (rewrite opp_IZR; field).
  now rewrite cos_period_Z, sin_period_Z.
Qed.
Lemma combine_at_angle_mod360 ns we d : combine_at_angle ns we (mod360 d) = combine_at_angle ns we d.
Proof. unfold combine_at_angle. now rewrite kernR_mod360. Qed.

(** the scan *)
Lemma linspace_length (a b : R) p : length (linspace a b p) = p.
Proof. destruct p as [|[|p]]; cbn [linspace length]; auto. now rewrite map_length, seq_length. Qed.
Lemma linspace_nth (a b : R) p i : (2 <= p)%nat -> (i < p)%nat ->
  nth i (linspace a b p) 0 = a + INR i * ((b - a) / INR (p - 1)).
Proof.
  intros Hp Hi. destruct p as [|[|p]]; try lia. unfold linspace.
  rewrite (nth_map_in _ _ _ _ 0%nat) by (rewrite seq_length; lia). rewrite seq_nth by lia.
  numR. rewrite <- !INR_IZR_INZ. cbn [Nat.add]. replace (S (S p) - 1)%nat with (S p) by lia. reflexivity.
Qed.
Lemma scan_angles_length (off : R) p : length (scan_angles off p) = p.
Proof. unfold scan_angles. now rewrite map_length, linspace_length. Qed.
Lemma scan_angles_nth (off : R) p i : (2 <= p)%nat -> (i < p)%nat ->
  nth i (scan_angles off p) 0 = mod360 (- off + INR i * (180 / INR (p - 1))).
Proof.
  intros Hp Hi. unfold scan_angles. rewrite (nth_map_in _ _ _ _ 0) by (rewrite linspace_length; lia).
  rewrite linspace_nth by auto. numR. f_equal. unfold Rdiv. ring.
Qed.
Lemma scan_angles_1 (off : R) : scan_angles off 1 = [mod360 (- off)].
Proof. unfold scan_angles, linspace. cbn [map]. numR. do 2 f_equal. ring. Qed.
Lemma scan_is_measure measure off p (ns we : list R) :
  snd (compute_rotated measure off p ns we) = map (fun d => measure (combine_at_angle ns we d)) (fst (compute_rotated measure off p ns we)).
Proof. unfold compute_rotated, rotated_scan, scan_values. cbn [fst snd]. rewrite map_map. reflexivity. Qed.
Lemma scan_value_nth measure off p (ns we : list R) i : (2 <= p)%nat -> (i < p)%nat ->
  nth i (snd (compute_rotated measure off p ns we)) 0 = measure (combine_at_angle ns we (- off + INR i * (180 / INR (p - 1)))).
Proof.
  intros Hp Hi. rewrite scan_is_measure. unfold compute_rotated, rotated_scan. cbn [fst].
  rewrite (nth_map_in _ _ _ _ 0) by (rewrite scan_angles_length; lia).
  rewrite scan_angles_nth by auto. now rewrite combine_at_angle_mod360.
Qed.

(** * lag matching *)
(** ** the strict-< scan returns the FIRST minimal candidate *)
Lemma lag_upd_scan (cs : list (Z * R)) (st : Z * R) :
  (fold_left lag_upd cs st = st /\ forall c, In c cs -> snd st <= snd c) \/
  (exists pre post, cs = pre ++ fold_left lag_upd cs st :: post /\ snd (fold_left lag_upd cs st) < snd st /\
                    (forall c, In c pre -> snd (fold_left lag_upd cs st) < snd c) /\
                    (forall c, In c post -> snd (fold_left lag_upd cs st) <= snd c)).
Proof.
  revert st; induction cs as [|c cs IH]; intros st; cbn [fold_left].
  - left. split; auto. intros c [].
  - assert (Hu : lag_upd st c = if Rltb (snd c) (snd st) then c else st) by reflexivity. rewrite Hu. clear Hu.
    case_Rltb (snd c) (snd st).
    + specialize (IH c). set (r := fold_left lag_upd cs c) in *.
      destruct IH as [[E Hall]|(pre & post & E & Hlt' & Hpre & Hpost)].
      * right. exists [], cs. cbn [app]. rewrite E. repeat split; auto. intros ? [].
      * right. exists (c :: pre), post. cbn [app]. split; [f_equal; exact E|]. repeat split; auto; try lra.
        intros c' [<-|Hc']; auto.
    + specialize (IH st). set (r := fold_left lag_upd cs st) in *.
      destruct IH as [[E Hall]|(pre & post & E & Hlt' & Hpre & Hpost)].
      * left. split; auto. intros c' [<-|Hc']; auto.
      * right. exists (c :: pre), post. cbn [app]. split; [f_equal; exact E|]. repeat split; auto.
        intros c' [<-|Hc']; auto. lra.
Qed.

Lemma find_lag_first_min steps (bm om : list R) :
  exists pre post, all_candidates steps bm om = pre ++ find_lag_st steps bm om :: post /\
    (forall c, In c pre -> snd (find_lag_st steps bm om) < snd c) /\
    (forall c, In c post -> snd (find_lag_st steps bm om) <= snd c).
Proof.
  unfold find_lag_st, all_candidates.
  destruct (lag_upd_scan (lag_candidates steps bm om) (0%Z, prof_init steps bm om)) as [[E Hall]|(pre & post & E & Hlt & Hpre & Hpost)].
  - exists [], (lag_candidates steps bm om). cbn [app]. rewrite E. repeat split; auto. intros ? [].
  - exists ((0%Z, prof_init steps bm om) :: pre), post. cbn [app]. rewrite E at 1. repeat split; auto.
    intros c [<-|Hc]; auto.
Qed.
Lemma find_lag_argmin steps (bm om : list R) :
  In (find_lag_st steps bm om) (all_candidates steps bm om) /\
  forall c, In c (all_candidates steps bm om) -> snd (find_lag_st steps bm om) <= snd c.
Proof.
  destruct (find_lag_first_min steps bm om) as (pre & post & E & Hpre & Hpost). rewrite E. split.
  - apply in_or_app. right. now left.
  - intros c Hc. apply in_app_or in Hc as [Hc|[<-|Hc]]; [apply Rlt_le; auto|lra|auto].
Qed.

(** ** slices and squared error *)
Lemma pyslice_length a b (l : list R) : length (pyslice a b l) = Nat.min (b - a) (length l - a).
Proof. unfold pyslice. now rewrite firstn_length, skipn_length. Qed.
Lemma nth_skipn_R k (l : list R) i : nth i (skipn k l) 0 = nth (k + i) l 0.
Proof. revert l; induction k as [|k IH]; intros l; [reflexivity|]. destruct l as [|x r]; [now destruct i|]. cbn [skipn]. rewrite IH. reflexivity. Qed.
Lemma nth_firstn_R k (l : list R) i : (i < k)%nat -> nth i (firstn k l) 0 = nth i l 0.
Proof. revert l i; induction k as [|k IH]; intros l i Hi; [lia|]. destruct l as [|x r]; [now destruct i|]. destruct i; cbn; auto. apply IH; lia. Qed.
Lemma pyslice_nth a b (l : list R) i : (i < b - a)%nat -> nth i (pyslice a b l) 0 = nth (a + i) l 0.
Proof. intros Hi. unfold pyslice. rewrite nth_firstn_R by auto. apply nth_skipn_R. Qed.

Lemma sqdiff_nonneg (x y : list R) : 0 <= sqdiff x y.
Proof.
  unfold sqdiff. apply nsum_nonneg. unfold all_nonneg. revert y; induction x as [|a r IH]; intros [|b rb]; cbn [map2]; intros z Hz; try (now destruct Hz).
  destruct Hz as [<-|Hz]; [numR; apply Rle_0_sqr|]. eapply IH; eauto.
Qed.
Lemma sqdiff_zero (x y : list R) :
  (forall i, (i < length x)%nat -> (i < length y)%nat -> nth i x 0 = nth i y 0) -> sqdiff x y = 0.
Proof.
  unfold sqdiff. revert y; induction x as [|a r IH]; intros [|b rb] Hxy; cbn [map2]; try apply nsum_nil.
  rewrite nsum_cons. rewrite IH.
  - specialize (Hxy 0%nat). cbn in Hxy. rewrite Hxy by lia. numR. ring.
  - intros i H1 H2. apply (Hxy (S i)); cbn; lia.
Qed.
Lemma sqdiff_nil_r (x : list R) : sqdiff x [] = 0.
Proof. unfold sqdiff. destruct x; apply nsum_nil. Qed.
Lemma sqdiff_nil_l (y : list R) : sqdiff [] y = 0.
Proof. unfold sqdiff. apply nsum_nil. Qed.

(** ** what the candidates are *)
Lemma in_candidates steps (bm om : list R) c : In c (all_candidates steps bm om) <->
  c = (0%Z, prof_init steps bm om) \/
  (exists i, (i < steps)%nat /\ c = (Z.of_nat i, prof_pos steps bm om i)) \/
  (exists i, (i < steps)%nat /\ c = ((- Z.of_nat i)%Z, prof_neg steps bm om i)).
Proof.
  unfold all_candidates, lag_candidates. cbn [In]. rewrite in_app_iff, !in_map_iff. split.
  - intros [E|[(i & E & Hi)|(i & E & Hi)]]; [left; auto|right; left|right; right]; exists i; apply in_seq in Hi; split; auto; lia.
  - intros [E|[(i & Hi & E)|(i & Hi & E)]]; [left; auto|right; left|right; right]; exists i; split; auto; apply in_seq; lia.
Qed.
Lemma candidates_nonneg steps (bm om : list R) c : In c (all_candidates steps bm om) -> 0 <= snd c.
Proof.
  intros Hc. apply in_candidates in Hc as [->|[(i & _ & ->)|(i & _ & ->)]]; cbn [snd]; apply sqdiff_nonneg.
Qed.
Lemma find_lag_range steps (bm om : list R) : (Z.abs (find_lag steps bm om) < Z.of_nat steps)%Z \/ find_lag steps bm om = 0%Z.
Proof.
  unfold find_lag. destruct (find_lag_argmin steps bm om) as [Hin _].
  apply in_candidates in Hin as [->|[(i & Hi & ->)|(i & Hi & ->)]]; cbn [fst]; [right; auto|left; lia|left; lia].
Qed.

(** when the window is not smaller than the record every slice is empty and the lag is 0 *)
Lemma neg_stop_le n k : (neg_stop n k <= n)%nat. Proof. destruct k; cbn; lia. Qed.
Lemma find_lag_window_too_large steps (bm om : list R) :
  (length bm <= steps)%nat -> (length om <= steps)%nat -> find_lag steps bm om = 0%Z.
Proof.
  intros Hb Ho. unfold find_lag.
  assert (Hn : forall n, (n <= steps)%nat -> neg_stop n steps = 0%nat) by (intros n Hn; destruct steps; cbn; lia).
  assert (Hz : forall c, In c (all_candidates steps bm om) -> snd c = 0).
  { intros c Hc. apply in_candidates in Hc as [->|[(i & _ & ->)|(i & _ & ->)]]; cbn [snd]; unfold prof_init, prof_pos, prof_neg;
      rewrite ?Hn by auto; unfold pyslice at 2; cbn [Nat.sub firstn]; apply sqdiff_nil_r. }
  destruct (find_lag_first_min steps bm om) as (pre & post & E & Hpre & _).
  destruct pre as [|p pre].
  - cbn [app] in E. unfold all_candidates in E. injection E as E _. now rewrite <- E.
  - exfalso. assert (Hp : In p (all_candidates steps bm om)) by (rewrite E; now left).
    assert (Hr : In (find_lag_st steps bm om) (all_candidates steps bm om)) by (rewrite E; apply in_or_app; right; now left).
    specialize (Hpre p (or_introl eq_refl)). rewrite (Hz _ Hp), (Hz _ Hr) in Hpre. lra.
Qed.

(** ** applying a lag keeps the length and moves the samples *)
Lemma apply_lag_length lag (om : list R) : (Z.abs lag <= Z.of_nat (length om))%Z -> length (apply_lag lag om) = length om.
Proof.
  intros Hl. unfold apply_lag. destruct (lag <? 0)%Z eqn:E1; [|destruct (0 <? lag)%Z eqn:E2]; auto.
  - rewrite app_length, repeat_length, firstn_length. lia.
  - rewrite app_length, repeat_length, skipn_length. lia.
Qed.
Lemma apply_lag_pos_nth (L : nat) (om : list R) k : (k + L < length om)%nat ->
  nth k (apply_lag (Z.of_nat L) om) 0 = nth (k + L) om 0.
Proof.
  intros Hk. unfold apply_lag. destruct (Z.of_nat L <? 0)%Z eqn:E1; [apply Z.ltb_lt in E1; lia|].
  destruct (0 <? Z.of_nat L)%Z eqn:E2.
  - rewrite Zabs2Nat.id. rewrite app_nth1 by (rewrite skipn_length; lia). rewrite nth_skipn_R. f_equal. lia.
  - apply Z.ltb_ge in E2. assert (L = 0%nat) by lia. subst. now rewrite Nat.add_0_r.
Qed.
Lemma apply_lag_neg_nth (L : nat) (om : list R) k : (k + L < length om)%nat ->
  nth (k + L) (apply_lag (- Z.of_nat L) om) 0 = nth k om 0.
Proof.
  intros Hk. unfold apply_lag. destruct (- Z.of_nat L <? 0)%Z eqn:E1.
  - replace (Z.abs_nat (- Z.of_nat L)) with L by lia.
    rewrite app_nth2 by (rewrite repeat_length; lia). rewrite repeat_length.
    replace (k + L - L)%nat with k by lia. apply nth_firstn_R. lia.
  - apply Z.ltb_ge in E1. assert (L = 0%nat) by lia. subst. cbn. now rewrite Nat.add_0_r.
Qed.

(** ** planted lags are found and removed *)
Lemma find_lag_unique_zero steps (bm om : list R) L d :
  In (L, d) (all_candidates steps bm om) -> d = 0 -> nondegenerate steps L bm om -> find_lag steps bm om = L.
Proof.
  intros Hin Hd Hnd. unfold find_lag. destruct (find_lag_argmin steps bm om) as [Hr Hmin].
  destruct (Z.eq_dec (fst (find_lag_st steps bm om)) L) as [E|E]; auto.
  specialize (Hnd _ Hr E). specialize (Hmin _ Hin). cbn [snd] in Hmin. lra.
Qed.

Lemma prof_pos_delayed steps L (bm om : list R) : delayed_by L bm om -> prof_pos steps bm om L = 0.
Proof.
  intros [Hl Hs]. unfold prof_pos. apply sqdiff_zero. intros i H1 H2.
  rewrite pyslice_length in H1, H2. pose proof (neg_stop_le (length bm) steps).
  rewrite !pyslice_nth by lia. cbn [Nat.add]. rewrite Nat.add_comm. apply Hs. lia.
Qed.
Lemma prof_neg_advanced steps L (bm om : list R) : advanced_by L bm om -> prof_neg steps bm om L = 0.
Proof.
  intros [Hl Hs]. unfold prof_neg. apply sqdiff_zero. intros i H1 H2.
  rewrite pyslice_length in H1, H2. pose proof (neg_stop_le (length om) steps).
  rewrite !pyslice_nth by lia. cbn [Nat.add]. rewrite (Nat.add_comm L i). symmetry. apply Hs. lia.
Qed.

Lemma finds_delay steps L (bm om : list R) :
  (L < steps)%nat -> delayed_by L bm om -> nondegenerate steps (Z.of_nat L) bm om ->
  find_lag steps bm om = Z.of_nat L.
Proof.
  intros HL Hd Hnd. apply (find_lag_unique_zero steps bm om _ (prof_pos steps bm om L)); auto.
  - apply in_candidates. right. left. exists L. auto.
  - now apply prof_pos_delayed.
Qed.
Lemma finds_advance steps L (bm om : list R) :
  (L < steps)%nat -> advanced_by L bm om -> nondegenerate steps (- Z.of_nat L) bm om ->
  find_lag steps bm om = (- Z.of_nat L)%Z.
Proof.
  intros HL Hd Hnd. apply (find_lag_unique_zero steps bm om _ (prof_neg steps bm om L)); auto.
  - apply in_candidates. right. right. exists L. auto.
  - now apply prof_neg_advanced.
Qed.
(** an already matched pair is left alone, with no non-degeneracy hypothesis *)
Lemma finds_zero steps (bm om : list R) : delayed_by 0 bm om -> find_lag steps bm om = 0%Z.
Proof.
  intros [Hl Hs]. unfold find_lag.
  assert (Hi : prof_init steps bm om = 0).
  { unfold prof_init. apply sqdiff_zero. intros i H1 H2. rewrite pyslice_length in H1, H2.
    pose proof (neg_stop_le (length bm) steps). rewrite !pyslice_nth by lia. cbn [Nat.add].
    symmetry. rewrite <- (Nat.add_0_r i) at 1. apply Hs. lia. }
  destruct (find_lag_first_min steps bm om) as (pre & post & E & Hpre & _).
  destruct pre as [|p pre].
  - cbn [app] in E. unfold all_candidates in E. injection E as E _. now rewrite <- E.
  - exfalso. unfold all_candidates in E. cbn [app] in E. injection E as Ep E.
    specialize (Hpre p (or_introl eq_refl)). rewrite <- Ep in Hpre. cbn [snd] in Hpre. rewrite Hi in Hpre.
    assert (Hr : In (find_lag_st steps bm om) (all_candidates steps bm om)) by apply find_lag_argmin.
    apply candidates_nonneg in Hr. lra.
Qed.

(** ** the cluster method *)
Lemma mapi_from_length {A B} (f : nat -> A -> B) s l : length (mapi_from f s l) = length l.
Proof. revert s; induction l; intros s; cbn; auto. Qed.
Lemma mapi_from_nth {A B} (f : nat -> A -> B) s l i d d' : (i < length l)%nat ->
  nth i (mapi_from f s l) d' = f (s + i)%nat (nth i l d).
Proof.
  revert s i; induction l as [|x r IH]; intros s i Hi; cbn in Hi; [lia|].
  destruct i; cbn [mapi_from nth]; [now rewrite Nat.add_0_r|]. rewrite IH by lia. f_equal. lia.
Qed.
Lemma mapi_length {A B} (f : nat -> A -> B) l : length (mapi f l) = length l.
Proof. apply mapi_from_length. Qed.
Lemma mapi_nth {A B} (f : nat -> A -> B) l i d d' : (i < length l)%nat -> nth i (mapi f l) d' = f i (nth i l d).
Proof. intros Hi. unfold mapi. now rewrite (mapi_from_nth f 0 l i d d'). Qed.

Lemma apply_lag_0 (om : list R) : apply_lag 0 om = om. Proof. reflexivity. Qed.

Lemma time_match_vals_length steps master (sigs : list (list R)) : length (time_match_vals steps master sigs) = length sigs.
Proof. unfold time_match_vals, time_match. cbn [fst]. now rewrite !map_length, mapi_length. Qed.
Lemma time_match_vals_nth steps master (sigs : list (list R)) i : (i < length sigs)%nat ->
  nth i (time_match_vals steps master sigs) [] = fst (fst (tm_one steps master sigs i (nth i sigs []))).
Proof.
  intros Hi. unfold time_match_vals, time_match. cbv zeta. cbn [fst]. rewrite map_map.
  rewrite (nth_map_in _ _ _ _ ((@nil R, true), @None Z)) by (now rewrite mapi_length).
  now rewrite (mapi_nth _ _ _ []).
Qed.
Lemma time_match_tags steps master (sigs : list (list R)) t : In t (fst (time_match steps master sigs)) -> snd t = true.
Proof.
  unfold time_match. cbv zeta. cbn [fst]. intros Ht. apply in_map_iff in Ht as (x & <- & Hx).
  apply (In_nth _ _ ((@nil R, true), @None Z)) in Hx as (i & Hi & <-). rewrite mapi_length in Hi.
  rewrite (mapi_nth _ _ _ []) by auto. unfold tm_one, reset_values.
  destruct (Nat.eqb i master); [reflexivity|]. destruct (Z.eqb _ 0); reflexivity.
Qed.

Section EqualLengths.
Variables (steps master n : nat) (sigs : list (list R)).
Hypothesis Hlen2 : (2 <= length sigs)%nat.
Hypothesis Hn : forall v, In v sigs -> length v = n.

Lemma nth_sig_length i : (i < length sigs)%nat -> length (nth i sigs []) = n.
Proof. intros Hi. apply Hn, nth_In, Hi. Qed.
Lemma length_check_eq : length_check sigs = n.
Proof. unfold length_check. rewrite !nth_sig_length by lia. apply Nat.min_id. Qed.
Lemma firstn_sig i : (i < length sigs)%nat -> firstn n (nth i sigs []) = nth i sigs [].
Proof. intros Hi. apply firstn_all2. rewrite nth_sig_length; auto. Qed.

Lemma time_match_master : (master < length sigs)%nat -> nth master (time_match_vals steps master sigs) [] = nth master sigs [].
Proof. intros Hm. rewrite time_match_vals_nth by auto. unfold tm_one. now rewrite Nat.eqb_refl. Qed.
Lemma time_match_slave i : (master < length sigs)%nat -> (i < length sigs)%nat -> i <> master ->
  nth i (time_match_vals steps master sigs) [] =
  apply_lag (find_lag steps (nth master sigs []) (nth i sigs [])) (nth i sigs []).
Proof.
  intros Hm Hi Hne. rewrite time_match_vals_nth by auto. unfold tm_one.
  apply Nat.eqb_neq in Hne. rewrite Hne. rewrite length_check_eq, !firstn_sig by auto.
  destruct (Z.eqb_spec (find_lag steps (nth master sigs []) (nth i sigs [])) 0) as [E|E]; cbn [fst reset_values]; auto.
  now rewrite E, apply_lag_0.
Qed.
Lemma find_lag_abs_le (bm om : list R) : length bm = n -> length om = n -> (Z.abs (find_lag steps bm om) <= Z.of_nat n)%Z.
Proof.
  intros Hb Ho. destruct (le_lt_dec n steps) as [Hs|Hs].
  - rewrite find_lag_window_too_large by lia. lia.
  - destruct (find_lag_range steps bm om) as [H|H]; [lia|rewrite H; lia].
Qed.
Lemma time_match_lengths i : (master < length sigs)%nat -> (i < length sigs)%nat ->
  length (nth i (time_match_vals steps master sigs) []) = n.
Proof.
  intros Hm Hi. destruct (Nat.eq_dec i master) as [->|Hne].
  - rewrite time_match_master by auto. now apply nth_sig_length.
  - rewrite time_match_slave by auto. rewrite apply_lag_length; [now apply nth_sig_length|].
    rewrite nth_sig_length by auto. apply find_lag_abs_le; now apply nth_sig_length.
Qed.
Lemma time_match_removes_delay i L : (master < length sigs)%nat -> (i < length sigs)%nat -> i <> master -> (L < steps)%nat ->
  delayed_by L (nth master sigs []) (nth i sigs []) -> nondegenerate steps (Z.of_nat L) (nth master sigs []) (nth i sigs []) ->
  forall k, (k + L < n)%nat -> nth k (nth i (time_match_vals steps master sigs) []) 0 = nth k (nth master sigs []) 0.
Proof.
  intros Hm Hi Hne HL Hd Hnd k Hk. rewrite time_match_slave by auto. rewrite (finds_delay steps L) by auto.
  rewrite apply_lag_pos_nth by (rewrite nth_sig_length; auto). apply Hd. rewrite nth_sig_length; auto.
Qed.
Lemma time_match_removes_advance i L : (master < length sigs)%nat -> (i < length sigs)%nat -> i <> master -> (L < steps)%nat ->
  advanced_by L (nth master sigs []) (nth i sigs []) -> nondegenerate steps (- Z.of_nat L) (nth master sigs []) (nth i sigs []) ->
  forall k, (k + L < n)%nat -> nth (k + L) (nth i (time_match_vals steps master sigs) []) 0 = nth (k + L) (nth master sigs []) 0.
Proof.
  intros Hm Hi Hne HL Hd Hnd k Hk. rewrite time_match_slave by auto. rewrite (finds_advance steps L) by auto.
  rewrite apply_lag_neg_nth by (rewrite nth_sig_length; auto). apply Hd. rewrite nth_sig_length; auto.
Qed.
End EqualLengths.

(** * same-start alignment *)
Lemma nsum_map_sub d (l : list R) : nsum (map (fun x => nsub x d) l) = nsum l - INR (length l) * d.
Proof.
  induction l as [|x r IH]; [cbn [map length]; rewrite nsum_nil; cbn; lra|].
  cbn [map]. rewrite !nsum_cons, IH. change (length (x :: r)) with (S (length r)). rewrite S_INR. numR. lra.
Qed.
Lemma mean_shift d (l : list R) : l <> [] -> mean (map (fun x => nsub x d) l) = mean l - d.
Proof.
  intros Hl. unfold mean. rewrite map_length, nsum_map_sub. numR. rewrite <- INR_IZR_INZ.
  assert (0 < INR (length l)) by (apply lt_0_INR; destruct l; [congruence|cbn; lia]). field. lra.
Qed.
Lemma section_map (f : R -> R) si ei (l : list R) : section si ei (map f l) = map f (section si ei l).
Proof. unfold section, pyslice. rewrite map_length. now rewrite skipn_map, firstn_map. Qed.

Lemma same_start_length master si ei (sigs : list (list R)) : length (same_start master si ei sigs) = length sigs.
Proof. unfold same_start. apply mapi_length. Qed.
Lemma same_start_nth master si ei (sigs : list (list R)) i : (i < length sigs)%nat ->
  nth i (same_start master si ei sigs) [] =
  if Nat.eqb i master then nth i sigs []
  else map (fun x => x - (section_average si ei (nth i sigs []) - section_average si ei (nth master sigs []))) (nth i sigs []).
Proof. intros Hi. unfold same_start. rewrite (mapi_nth _ _ _ []) by auto. reflexivity. Qed.
Lemma same_start_master master si ei (sigs : list (list R)) : (master < length sigs)%nat ->
  nth master (same_start master si ei sigs) [] = nth master sigs [].
Proof. intros Hm. rewrite same_start_nth by auto. now rewrite Nat.eqb_refl. Qed.
Lemma same_start_sig_length master si ei (sigs : list (list R)) i : (i < length sigs)%nat ->
  length (nth i (same_start master si ei sigs) []) = length (nth i sigs []).
Proof. intros Hi. rewrite same_start_nth by auto. destruct (Nat.eqb i master); auto. now rewrite map_length. Qed.
Lemma same_start_aligns master si ei (sigs : list (list R)) i : (i < length sigs)%nat ->
  section si ei (nth i sigs []) <> [] ->
  section_average si ei (nth i (same_start master si ei sigs) []) = section_average si ei (nth master sigs []).
Proof.
  intros Hi Hne. rewrite same_start_nth by auto. destruct (Nat.eqb_spec i master) as [->|Hn]; auto.
  unfold section_average at 1. rewrite section_map.
  rewrite (mean_shift _ _ Hne). unfold section_average. lra.
Qed.

(** what the window is *)
Lemma trunc_nonneg (x : R) : 0 <= x -> trunc x = nfloor x.
Proof. intros Hx. unfold trunc. cbn [nltb n0 NumR]. case_Rltb x 0; [lra|reflexivity]. Qed.
Lemma time_indices_spec (dt start stop : R) : 0 <= start / dt -> 0 <= stop / dt -> stop <> -1 ->
  time_indices dt start stop = (nfloor (start / dt), Z.succ (nfloor (stop / dt))).
Proof.
  intros Hs He Hne. unfold time_indices. cbn [ndiv neqb nopp n1 NumR]. rewrite !trunc_nonneg by auto.
  case_Reqb stop (- (1)); [lra|reflexivity].
Qed.
Lemma time_indices_end_m1 (dt start : R) : snd (time_indices dt start (-1)) = (-1)%Z.
Proof. unfold time_indices. cbn [ndiv neqb nopp n1 NumR snd]. case_Reqb (-1) (- (1)); [reflexivity|lra]. Qed.
Lemma section_nth (a b : nat) (l : list R) k : (a <= b <= length l)%nat -> (k < b - a)%nat ->
  length (section (Z.of_nat a) (Z.of_nat b) l) = (b - a)%nat /\ nth k (section (Z.of_nat a) (Z.of_nat b) l) 0 = nth (a + k) l 0.
Proof.
  intros Hab Hk. unfold section, resolve.
  destruct (Z.ltb_spec (Z.of_nat a) 0); [lia|]. destruct (Z.ltb_spec (Z.of_nat b) 0); [lia|].
  rewrite !Nat2Z.id. rewrite !Nat.min_l by lia. split; [rewrite pyslice_length; lia|now apply pyslice_nth].
Qed.
Lemma section_to_end_m1 (a : nat) (l : list R) k : (a + k + 1 < length l)%nat ->
  length (section (Z.of_nat a) (-1) l) = (length l - 1 - a)%nat /\ nth k (section (Z.of_nat a) (-1) l) 0 = nth (a + k) l 0.
Proof.
  intros Hk. unfold section, resolve.
  destruct (Z.ltb_spec (Z.of_nat a) 0); [lia|]. destruct (Z.ltb_spec (-1) 0); [|lia].
  rewrite !Nat2Z.id. rewrite Nat.min_l by lia.
  replace (Z.to_nat (Z.max 0 (Z.of_nat (length l) + -1))) with (length l - 1)%nat by lia.
  split; [rewrite pyslice_length; lia|apply pyslice_nth; lia].
Qed.

(** * lag removal without the non-degeneracy hypothesis: the residual over the search window is zero *)
Lemma sqdiff_zero_inv (x y : list R) : sqdiff x y = 0 ->
  forall i, (i < length x)%nat -> (i < length y)%nat -> nth i x 0 = nth i y 0.
Proof.
  revert y; induction x as [|a r IH]; intros [|b rb] Hs i H1 H2; cbn in H1, H2; try lia.
  unfold sqdiff in Hs. cbn [map2] in Hs. rewrite nsum_cons in Hs. fold (sqdiff r rb) in Hs.
  pose proof (sqdiff_nonneg r rb) as Hr. numR. assert (Hsq : 0 <= (a - b) * (a - b)) by apply Rle_0_sqr.
  assert (Ha : (a - b) * (a - b) = 0) by lra. assert (Hrr : sqdiff r rb = 0) by lra.
  destruct i; cbn [nth].
  - apply Rmult_integral in Ha. lra.
  - apply IH; auto; lia.
Qed.
Lemma residual_zero steps L (bm om : list R) : (L < steps)%nat ->
  delayed_by L bm om \/ advanced_by L bm om -> snd (find_lag_st steps bm om) = 0.
Proof.
  intros HL Hp. destruct (find_lag_argmin steps bm om) as [Hin Hmin].
  pose proof (candidates_nonneg _ _ _ _ Hin) as Hge.
  assert (Hle : snd (find_lag_st steps bm om) <= 0).
  { destruct Hp as [Hd|Ha].
    - rewrite <- (prof_pos_delayed steps L bm om Hd).
      apply (Hmin (Z.of_nat L, prof_pos steps bm om L)). apply in_candidates. right. left. exists L. auto.
    - rewrite <- (prof_neg_advanced steps L bm om Ha).
      apply (Hmin ((- Z.of_nat L)%Z, prof_neg steps bm om L)). apply in_candidates. right. right. exists L. auto. }
  lra.
Qed.
Lemma neg_stop_lt n steps k : (k < neg_stop n steps)%nat -> (1 <= steps)%nat /\ (k + steps < n + 0)%nat.
Proof. destruct steps; cbn; lia. Qed.
Lemma window_coincides steps n (bm om : list R) : length bm = n -> length om = n ->
  snd (find_lag_st steps bm om) = 0 ->
  forall k, (k < neg_stop n steps)%nat ->
    ((0 <= find_lag steps bm om)%Z -> nth k (apply_lag (find_lag steps bm om) om) 0 = nth k bm 0) /\
    ((find_lag steps bm om < 0)%Z ->
       nth (k + Z.abs_nat (find_lag steps bm om)) (apply_lag (find_lag steps bm om) om) 0 =
       nth (k + Z.abs_nat (find_lag steps bm om)) bm 0).
Proof.
  intros Hb Ho Hz k Hk. apply neg_stop_lt in Hk as Hk'. destruct Hk' as [Hs1 Hks].
  destruct (find_lag_argmin steps bm om) as [Hin _]. unfold find_lag.
  destruct (find_lag_st steps bm om) as [l d] eqn:E. cbn [fst snd] in *. subst d.
  apply in_candidates in Hin as [Hc|[(i & Hi & Hc)|(i & Hi & Hc)]]; injection Hc as -> Hd; symmetry in Hd.
  - (* lag 0: the initial error *)
    split; [intros _|lia]. rewrite apply_lag_0. unfold prof_init in Hd.
    pose proof (sqdiff_zero_inv _ _ Hd k) as Hn. rewrite !pyslice_length, Hb, Ho in Hn.
    rewrite !pyslice_nth in Hn by (rewrite ?Hb, ?Ho; lia). cbn [Nat.add] in Hn. symmetry. apply Hn; lia.
  - (* slave lags the master by i *)
    split; [intros _|lia]. rewrite apply_lag_pos_nth by lia. unfold prof_pos in Hd.
    pose proof (sqdiff_zero_inv _ _ Hd k) as Hn. rewrite !pyslice_length, Hb, Ho in Hn.
    rewrite !pyslice_nth in Hn by (rewrite ?Hb, ?Ho; lia). cbn [Nat.add] in Hn.
    rewrite (Nat.add_comm k i). apply Hn; lia.
  - (* master lags the slave by i *)
    destruct i as [|i].
    + cbn [Z.of_nat Z.opp]. split; [intros _|lia]. rewrite apply_lag_0. unfold prof_neg in Hd.
      pose proof (sqdiff_zero_inv _ _ Hd k) as Hn. rewrite !pyslice_length, Hb, Ho in Hn.
      rewrite !pyslice_nth in Hn by (rewrite ?Hb, ?Ho; lia). cbn [Nat.add] in Hn. symmetry. apply Hn; lia.
    + split; [lia|intros _]. replace (Z.abs_nat (- Z.of_nat (S i))) with (S i) by lia.
      rewrite apply_lag_neg_nth by lia. unfold prof_neg in Hd.
      pose proof (sqdiff_zero_inv _ _ Hd k) as Hn. rewrite !pyslice_length, Hb, Ho in Hn.
      rewrite !pyslice_nth in Hn by (rewrite ?Hb, ?Ho; lia). cbn [Nat.add] in Hn.
      rewrite (Nat.add_comm k (S i)). symmetry. apply Hn; lia.
Qed.
