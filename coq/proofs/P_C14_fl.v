(** C14: the step bound for rounded arithmetic (any monotone rounding with relative error u that fixes 1), and its
    instance for round-to-nearest-even with 53 significant bits (Flocq FLX format: binary64 without exponent bounds). *)
From Coq Require Import ZArith Reals List Bool Lra Lia.
From EQ Require Import lib.Num lib.NpList model.M_timestep model.M_timestep_fl proofs.P_C14.
From Flocq Require Import Core.
From Flocq.Prop Require Import Relative.
Local Open Scope R_scope.

Section Rounded.
Variable u : R.
Hypothesis Hu : 0 <= u <= 1 / 16.
Variable rnd : R -> R.
Hypothesis rnd_err : forall x, Rabs (rnd x - x) <= u * Rabs x.
Hypothesis rnd_mono : forall x y, x <= y -> rnd x <= rnd y.
Hypothesis rnd_1 : rnd 1 = 1.

Lemma rnd_pos_bounds x : 0 < x -> x * (1 - u) <= rnd x <= x * (1 + u).
Proof.
  intros Hx. pose proof (rnd_err x) as H. rewrite (Rabs_pos_eq x) in H by lra.
  unfold Rabs at 1 in H. destruct (Rcase_abs (rnd x - x)); split; nra.
Qed.

Lemma slack_bound a : 0 <= a -> a * ((1 + u) * (1 + u)) <= a * (1 + 8 * u) * ((1 - u) * (1 - u)).
Proof. intros Ha. assert ((1 + u) * (1 + u) <= (1 + 8 * u) * ((1 - u) * (1 - u))) by nra. nra. Qed.

Lemma fin_a x tg : 0 <= tg -> 0 <= x -> x * (1 - u) <= tg -> x * (1 + u) <= tg * (1 + 8 * u).
Proof.
  intros Ht Hx H. assert (A : (1 + u) <= (1 + 8 * u) * (1 - u)) by nra.
  apply Rmult_le_reg_r with (1 - u); [lra|].
  apply Rle_trans with (tg * (1 + u)); [nra|]. rewrite Rmult_assoc. apply Rmult_le_compat_l; lra.
Qed.
Lemma fin_b x tg : 0 <= tg -> 0 <= x -> x * ((1 - u) * (1 - u)) <= tg * (1 + u) -> x * (1 + u) <= tg * (1 + 8 * u).
Proof.
  intros Ht Hx H. pose proof (slack_bound tg Ht) as Hs.
  apply Rmult_le_reg_r with ((1 - u) * (1 - u)); [nra|].
  apply Rle_trans with (tg * ((1 + u) * (1 + u))); [|lra].
  replace (x * (1 + u) * ((1 - u) * (1 - u))) with (x * ((1 - u) * (1 - u)) * (1 + u)) by ring.
  replace (tg * ((1 + u) * (1 + u))) with (tg * (1 + u) * (1 + u)) by ring. apply Rmult_le_compat_r; lra.
Qed.

Lemma div_le_l a b c : 0 < b -> a <= c * b -> a / b <= c.
Proof. intros Hb H. apply Rmult_le_reg_r with b; auto. unfold Rdiv. rewrite Rmult_assoc, Rinv_l by lra. lra. Qed.

Theorem rounded_step_le_target dt tg : 0 < dt -> 0 < tg -> newdt_rnd rnd dt tg <= tg * (1 + 8 * u).
Proof.
  intros Hdt Htg. unfold newdt_rnd, factor_rnd. cbv zeta.
  assert (Hx : 0 < dt / tg) by (apply Rdiv_lt_0_compat; lra).
  destruct (rnd_pos_bounds _ Hx) as [Hq1 Hq2]. set (q := rnd (dt / tg)) in *.
  assert (Hdtq : dt * (1 - u) <= q * tg).
  { replace dt with (dt / tg * tg) at 1 by (field; lra). nra. }
  pose proof (slack_bound tg ltac:(lra)) as Hs.
  case_Reqb q 1.
  - (* same *) rewrite Heq. replace (dt / 1) with dt by field.
    destruct (rnd_pos_bounds _ Hdt) as [_ H2]. rewrite Heq in Hdtq. pose proof (fin_a dt tg ltac:(lra) ltac:(lra) ltac:(lra)). lra.
  - case_Rltb 1 q.
    + (* refine *) destruct (nceil_spec q) as [Hk _]. set (k := IZR (nceil q)) in *. clearbody k.
      assert (Hk0 : 0 < k) by lra. assert (Hd : 0 < dt / k) by (apply Rdiv_lt_0_compat; lra).
      destruct (rnd_pos_bounds _ Hd) as [_ H2].
      assert (Hdk : dt / k * (1 - u) <= tg). { apply Rmult_le_reg_r with k; auto. replace (dt / k * (1 - u) * k) with (dt * (1 - u)) by (field; lra). nra. }
      pose proof (fin_a (dt / k) tg ltac:(lra) ltac:(lra) Hdk). lra.
    + (* decimate *) assert (Hq0 : 0 < q) by nra. assert (Hql : q < 1) by lra.
      assert (Hr1 : 1 <= 1 / q). { apply Rmult_le_reg_r with q; auto. unfold Rdiv. rewrite Rmult_assoc, Rinv_l by lra. lra. }
      pose proof (rnd_mono _ _ Hr1) as Hr. rewrite rnd_1 in Hr.
      destruct (rnd_pos_bounds (1 / q) ltac:(lra)) as [_ Hr2]. set (r := rnd (1 / q)) in *.
      destruct (nfloor_spec r) as [Hm1 Hm2].
      assert (Hm : 1 <= IZR (nfloor r)). { assert (IZR 1 < IZR (nfloor r + 1)) by (rewrite plus_IZR; lra). apply lt_IZR in H. apply IZR_le. lia. }
      set (m := IZR (nfloor r)) in *. clearbody m r.
      assert (Hi : 0 < 1 / m) by (apply Rdiv_lt_0_compat; lra).
      destruct (rnd_pos_bounds _ Hi) as [Hf1 _]. set (f := rnd (1 / m)) in *.
      assert (Hmf : 1 - u <= f * m). { replace (1 - u) with (1 / m * (1 - u) * m) by (field; lra). nra. }
      assert (Hf0 : 0 < f) by nra. clearbody f.
      assert (Hd : 0 < dt / f) by (apply Rdiv_lt_0_compat; lra).
      destruct (rnd_pos_bounds _ Hd) as [_ H2].
      (* m*q <= 1+u ;  dt(1-u) <= q tg ; (1-u) <= f m *)
      assert (Hmq : m * q <= 1 + u). { assert (r * q <= 1 + u). { replace (1 + u) with (1 / q * (1 + u) * q) by (field; lra). nra. } nra. }
      (* dt/f * (1-u)^2 <= tg (1+u) *)
      assert (Hkey : dt / f * ((1 - u) * (1 - u)) <= tg * (1 + u)).
      { apply Rmult_le_reg_r with f; auto. replace (dt / f * ((1 - u) * (1 - u)) * f) with (dt * (1 - u) * (1 - u)) by (field; lra).
        (* dt(1-u)(1-u) <= q tg (1-u) <= q tg f m <= (1+u) tg f *)
        assert (dt * (1 - u) * (1 - u) <= q * tg * (1 - u)) by (apply Rmult_le_compat_r; lra).
        assert (0 <= q * tg) by (apply Rmult_le_pos; lra).
        assert (q * tg * (1 - u) <= q * tg * (f * m)) by (apply Rmult_le_compat_l; lra).
        assert (q * tg * (f * m) = (m * q) * (tg * f)) by ring.
        assert ((m * q) * (tg * f) <= (1 + u) * (tg * f)) by (apply Rmult_le_compat_r; [apply Rmult_le_pos; lra|lra]). lra. }
      pose proof (fin_b (dt / f) tg ltac:(lra) ltac:(lra) Hkey). lra.
Qed.
End Rounded.

(** ** instance: nearest-even, 53 bits *)
Definition rnd53 (x : R) : R := round radix2 (FLX_exp 53) ZnearestE x.
Lemma rnd53_err x : Rabs (rnd53 x - x) <= / 9007199254740992 * Rabs x.
Proof.
  unfold rnd53. pose proof (relative_error_N_FLX radix2 53 ltac:(lia) (fun z => negb (Z.even z)) x) as H.
  replace (/ 2 * bpow radix2 (- (53) + 1)) with (/ 9007199254740992) in H; [exact H|].
  simpl. lra.
Qed.
Lemma rnd53_mono x y : x <= y -> rnd53 x <= rnd53 y.
Proof. intros H. unfold rnd53. apply round_le; auto with typeclass_instances. apply FLX_exp_valid. reflexivity. Qed.
Lemma rnd53_1 : rnd53 1 = 1.
Proof.
  unfold rnd53. apply round_generic; auto with typeclass_instances.
  change 1 with (bpow radix2 0). apply generic_format_bpow. unfold FLX_exp. lia.
Qed.

Lemma flx53_step_le_target dt tg : 0 < dt -> 0 < tg ->
  newdt_rnd rnd53 dt tg <= tg * (1 + / 1125899906842624).
Proof.
  intros Hdt Htg.
  pose proof (rounded_step_le_target (/ 9007199254740992) ltac:(lra) rnd53 rnd53_err rnd53_mono rnd53_1 dt tg Hdt Htg) as H.
  replace (1 + / 1125899906842624) with (1 + 8 * / 9007199254740992) by lra. exact H.
Qed.
