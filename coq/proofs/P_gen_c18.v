(** The generated definitions of gen/Gen_c18.v (re-translated from eqsig/multiple.py, eqsig/fns/time_shift.py and
    eqsig/fns/average.py on every run by translator/py2coq_c18.py) are the corresponding pieces of the hand-written model
    model/M_multiple.v, for ALL inputs.

    np.cos / np.sin / the pi of np.radians, eqsig.im.calc_arias_intensity and getattr are Section variables of the generated
    file.  Generic part (every [NumOps] instance; no arithmetic law used, only list identities and integer arithmetic):
      combine_at_angle = combine with the kernel values (cos_ (radians d), sin_ (radians d)),
      the scanned angles = scan_angles, compute_rotated = rotated_scan for each of the three ways the measure is selected
      (and the two ways the call raises), the common length / master slice / slave slice of time_match, the initial error and
      the two candidate loops = find_lag_st (same candidates, same order, same strict comparison), the padding = apply_lag,
      one pass of the signal loop = tm_one, int() = trunc, the section slice and mean of get_section_average.
    At R (arithmetic needed: end == -1 gives the index -1): time_indices, the section average, one pass of same_start. *)
From Coq Require Import String ZArith QArith Reals List Bool Lia Lra.
From EQ Require Import lib.Num lib.NpList lib.PySeq model.M_multiple gen.Gen_c18 proofs.P_C18.
Import ListNotations.
Local Open Scope num_scope.

(** ** list and integer facts *)
Lemma map2_map_lr {A A' B B' C} (f : A' -> B' -> C) (g : A -> A') (h : B -> B') a b :
  map2 f (map g a) (map h b) = map2 (fun x y => f (g x) (h y)) a b.
Proof. revert b; induction a as [|x a IH]; intros [|y b]; cbn; try reflexivity. now rewrite IH. Qed.

Lemma firstn_min {A} k (l : list A) : firstn (Nat.min k (length l)) l = firstn k l.
Proof.
  destruct (Nat.le_ge_cases k (length l)) as [Hk|Hk].
  - now rewrite Nat.min_l.
  - rewrite Nat.min_r by auto. now rewrite !firstn_all2 by lia.
Qed.
Lemma skipn_min {A} k (l : list A) : skipn (Nat.min k (length l)) l = skipn k l.
Proof.
  destruct (Nat.le_ge_cases k (length l)) as [Hk|Hk].
  - now rewrite Nat.min_l.
  - rewrite Nat.min_r by auto. now rewrite !skipn_all2 by lia.
Qed.
Lemma firstn_skipn_min {A} b k (l : list A) : firstn (b - Nat.min k (length l)) (skipn (Nat.min k (length l)) l) = firstn (b - k) (skipn k l).
Proof.
  destruct (Nat.le_ge_cases k (length l)) as [Hk|Hk].
  - now rewrite Nat.min_l.
  - rewrite Nat.min_r by auto. rewrite !skipn_all2 by lia. now rewrite !firstn_nil.
Qed.

Lemma py_slice_firstn {A} k (l : list A) : py_slice None (Some (Z.of_nat k)) l = firstn k l.
Proof.
  unfold py_slice, py_bound. destruct (Z.ltb_spec (Z.of_nat k) 0); [lia|].
  rewrite Nat2Z.id, Nat.sub_0_r. cbn [skipn]. apply firstn_min.
Qed.

Lemma opt_all_some {A B} (g : A -> B) l : opt_all (map (fun d => Some (g d)) l) = Some (map g l).
Proof. induction l as [|a l IH]; cbn; [reflexivity|]. now rewrite IH. Qed.
Lemma opt_all_none {A B} (l : list A) : l <> [] -> opt_all (map (fun _ => @None B) l) = None.
Proof. destruct l; [congruence|reflexivity]. Qed.

Lemma py_item_last {A} (l : list A) d : l <> [] -> py_item l (-1) = Some (last l d).
Proof.
  intros Hl. unfold py_item. cbn [Z.ltb Z.compare].
  destruct (Z.ltb_spec (Z.of_nat (length l) + -1) 0) as [Hn|Hn]; [destruct l; [congruence|cbn [length] in Hn; lia]|].
  replace (Z.to_nat (Z.of_nat (length l) + -1)) with (length l - 1)%nat by lia.
  destruct (@exists_last _ l Hl) as [l' [a ->]]. rewrite last_last, app_length. cbn [length].
  replace (length l' + 1 - 1)%nat with (length l') by lia. rewrite nth_error_app2 by lia. now rewrite Nat.sub_diag.
Qed.

Lemma fold_left_map {A B C} (f : A -> B -> A) (g : C -> B) l a : fold_left f (map g l) a = fold_left (fun a x => f a (g x)) l a.
Proof. revert a; induction l as [|x l IH]; intros a; cbn; [reflexivity|apply IH]. Qed.
Lemma fold_left_ext_in {A B} (f g : A -> B -> A) l a : (forall a x, In x l -> f a x = g a x) -> fold_left f l a = fold_left g l a.
Proof.
  revert a; induction l as [|x l IH]; intros a Hfg; cbn; [reflexivity|]. rewrite Hfg by (now left). apply IH.
  intros; apply Hfg; now right.
Qed.

Section Generic.
Context {T : Type} `{NumOps T}.
Variable cos_ sin_ : T -> T.
Variable pi_ : T.
Variable arias_ : list T * T -> list T.
Variable getattr_ : list T * T -> string -> T.

(** ** rotation *)
Definition gen_kern (d : T) : T * T := (cos_ (np_radians pi_ d), sin_ (np_radians pi_ d)).

Lemma gen_combine_eq ns dt_ns we dt_we angle :
  gen_combine_at_angle cos_ sin_ pi_ ns dt_ns we dt_we angle = (combine (fst (gen_kern angle)) (snd (gen_kern angle)) ns we, dt_ns).
Proof. unfold gen_combine_at_angle, combine, vadd, gen_kern. cbn [fst snd]. now rewrite map2_map_lr. Qed.

Lemma np_linspace_eq (a b : T) n : np_linspace a b n = linspace a b n.
Proof. reflexivity. Qed.
Lemma gen_degrees_eq off (points : nat) : gen_rotated_degrees off (Z.of_nat points) = scan_angles off points.
Proof. unfold gen_rotated_degrees, scan_angles. rewrite Nat2Z.id. reflexivity. Qed.

Lemma gen_guard_true ns dt_ns we dt_we :
  gen_rotated_guard ns dt_ns we dt_we = true <-> (dt_ns =? dt_we) = true /\ length ns = length we.
Proof.
  unfold gen_rotated_guard. rewrite andb_true_iff, Z.eqb_eq. split; intros [A B]; split; auto; lia.
Qed.

(** whatever selects the measure: if every pass of the loop appends [m (combination)], the call returns the model's scan *)
Lemma gen_rotated_scan parameter func (m : list T -> T) ns dt_ns we dt_we off (points : nat) :
  gen_rotated_guard ns dt_ns we dt_we = true ->
  (forall d, gen_rotated_item cos_ sin_ pi_ arias_ getattr_ parameter func ns dt_ns we dt_we d
             = Some (m (fst (gen_combine_at_angle cos_ sin_ pi_ ns dt_ns we dt_we d)))) ->
  gen_compute_rotated cos_ sin_ pi_ arias_ getattr_ parameter func ns dt_ns we dt_we off (Z.of_nat points)
  = Some (rotated_scan gen_kern m off points ns we).
Proof.
  intros Hg Hitem. unfold gen_compute_rotated. rewrite Hg, gen_degrees_eq.
  rewrite (map_ext _ _ Hitem), (opt_all_some (fun d => m (fst (gen_combine_at_angle cos_ sin_ pi_ ns dt_ns we dt_we d)))).
  unfold rotated_scan, scan_values. rewrite map_map. do 2 f_equal. apply map_ext. intros d. now rewrite gen_combine_eq.
Qed.

(** parameter == "arias_intensity": the last value of calc_arias_intensity(new_sig) (guard: it is not the empty array) *)
Lemma gen_item_arias func ns dt_ns we dt_we d : arias_ (gen_combine_at_angle cos_ sin_ pi_ ns dt_ns we dt_we d) <> [] ->
  gen_rotated_item cos_ sin_ pi_ arias_ getattr_ (Some "arias_intensity"%string) func ns dt_ns we dt_we d
  = Some (last (arias_ (gen_combine_at_angle cos_ sin_ pi_ ns dt_ns we dt_we d)) n0).
Proof. intros Hne. unfold gen_rotated_item. cbn [py_opt_streq]. rewrite String.eqb_refl. now apply py_item_last. Qed.
(** any other parameter string, func None: the attribute of that name *)
Lemma gen_item_attr p ns dt_ns we dt_we d : p <> "arias_intensity"%string ->
  gen_rotated_item cos_ sin_ pi_ arias_ getattr_ (Some p) None ns dt_ns we dt_we d
  = Some (getattr_ (gen_combine_at_angle cos_ sin_ pi_ ns dt_ns we dt_we d) p).
Proof. intros Hp. unfold gen_rotated_item. cbn [py_opt_streq]. apply String.eqb_neq in Hp. now rewrite Hp. Qed.
(** ... with a func as well: `assert func is None` fails *)
Lemma gen_item_attr_and_func p f ns dt_ns we dt_we d : p <> "arias_intensity"%string ->
  gen_rotated_item cos_ sin_ pi_ arias_ getattr_ (Some p) (Some f) ns dt_ns we dt_we d = None.
Proof. intros Hp. unfold gen_rotated_item. cbn [py_opt_streq]. apply String.eqb_neq in Hp. now rewrite Hp. Qed.
(** parameter None, func given: its value, or the last item when it has a length *)
Lemma gen_item_func f ns dt_ns we dt_we d :
  gen_rotated_item cos_ sin_ pi_ arias_ getattr_ None (Some f) ns dt_ns we dt_we d
  = match f (gen_combine_at_angle cos_ sin_ pi_ ns dt_ns we dt_we d) with inr l => py_item l (-1) | inl x => Some x end.
Proof. reflexivity. Qed.
(** neither: ValueError *)
Lemma gen_item_neither ns dt_ns we dt_we d : gen_rotated_item cos_ sin_ pi_ arias_ getattr_ None None ns dt_ns we dt_we d = None.
Proof. reflexivity. Qed.

Definition measure_arias (dt : T) (v : list T) : T := last (arias_ (v, dt)) n0.
Definition measure_attr (p : string) (dt : T) (v : list T) : T := getattr_ (v, dt) p.
Definition measure_func (f : list T * T -> T + list T) (dt : T) (v : list T) : T :=
  match f (v, dt) with inl x => x | inr l => last l n0 end.

Lemma gen_rotated_arias func ns dt_ns we dt_we off (points : nat) :
  gen_rotated_guard ns dt_ns we dt_we = true -> (forall v, arias_ (v, dt_ns) <> []) ->
  gen_compute_rotated cos_ sin_ pi_ arias_ getattr_ (Some "arias_intensity"%string) func ns dt_ns we dt_we off (Z.of_nat points)
  = Some (rotated_scan gen_kern (measure_arias dt_ns) off points ns we).
Proof.
  intros Hg Hne. apply gen_rotated_scan; auto. intros d. rewrite gen_item_arias; rewrite gen_combine_eq; [reflexivity|apply Hne].
Qed.
Lemma gen_rotated_attr p ns dt_ns we dt_we off (points : nat) :
  gen_rotated_guard ns dt_ns we dt_we = true -> p <> "arias_intensity"%string ->
  gen_compute_rotated cos_ sin_ pi_ arias_ getattr_ (Some p) None ns dt_ns we dt_we off (Z.of_nat points)
  = Some (rotated_scan gen_kern (measure_attr p dt_ns) off points ns we).
Proof. intros Hg Hp. apply gen_rotated_scan; auto. intros d. rewrite gen_item_attr by auto. now rewrite gen_combine_eq. Qed.
Lemma gen_rotated_func f ns dt_ns we dt_we off (points : nat) :
  gen_rotated_guard ns dt_ns we dt_we = true -> (forall v l, f (v, dt_ns) = inr l -> l <> []) ->
  gen_compute_rotated cos_ sin_ pi_ arias_ getattr_ None (Some f) ns dt_ns we dt_we off (Z.of_nat points)
  = Some (rotated_scan gen_kern (measure_func f dt_ns) off points ns we).
Proof.
  intros Hg Hne. apply gen_rotated_scan; auto. intros d. rewrite gen_item_func, gen_combine_eq. cbn [fst]. unfold measure_func.
  destruct (f _) as [x|l] eqn:E; [reflexivity|]. apply py_item_last. now apply (Hne _ _ E).
Qed.
(** the two ways the call raises once the loop is entered *)
Lemma gen_rotated_neither ns dt_ns we dt_we off (points : nat) : (1 <= points)%nat ->
  gen_compute_rotated cos_ sin_ pi_ arias_ getattr_ None None ns dt_ns we dt_we off (Z.of_nat points) = None.
Proof.
  intros Hp. unfold gen_compute_rotated. destruct (gen_rotated_guard _ _ _ _); [|reflexivity].
  rewrite (map_ext _ (fun _ => None) (gen_item_neither ns dt_ns we dt_we)), opt_all_none; [reflexivity|].
  rewrite gen_degrees_eq. unfold scan_angles, linspace. destruct points as [|[|p]]; [lia|discriminate|discriminate].
Qed.
Lemma gen_rotated_guard_fails parameter func ns dt_ns we dt_we off points : gen_rotated_guard ns dt_ns we dt_we = false ->
  gen_compute_rotated cos_ sin_ pi_ arias_ getattr_ parameter func ns dt_ns we dt_we off points = None.
Proof. intros Hg. unfold gen_compute_rotated. now rewrite Hg. Qed.

(** ** time_match *)
Lemma gen_length_check_eq (sigs : list (list T)) : gen_tm_length_check sigs = Z.of_nat (length_check sigs).
Proof. unfold gen_tm_length_check, length_check. now rewrite Nat2Z.inj_min. Qed.
Lemma gen_bm_eq master (sigs : list (list T)) : gen_tm_bm master sigs = firstn (length_check sigs) (nth master sigs []).
Proof. unfold gen_tm_bm. rewrite gen_length_check_eq. apply py_slice_firstn. Qed.
Lemma gen_om_eq (sigs : list (list T)) v : gen_tm_om sigs v = firstn (length_check sigs) v.
Proof. unfold gen_tm_om. rewrite gen_length_check_eq. apply py_slice_firstn. Qed.

Lemma slice_0_negsteps (steps : nat) (l : list T) :
  py_slice (Some 0%Z) (Some (- Z.of_nat steps)%Z) l = pyslice 0 (neg_stop (length l) steps) l.
Proof.
  unfold py_slice, pyslice, py_bound. cbn [Z.ltb Z.compare Z.to_nat Nat.min skipn]. rewrite !Nat.sub_0_r.
  destruct steps as [|k]; [reflexivity|]. cbn [neg_stop].
  destruct (Z.ltb_spec (- Z.of_nat (S k)) 0); [|lia]. f_equal. lia.
Qed.
Lemma slice_i_negsteps (steps i : nat) (l : list T) : (i < steps)%nat ->
  py_slice (Some (Z.of_nat i)) (Some (- Z.of_nat steps + Z.of_nat i)%Z) l = pyslice i (length l - (steps - i)) l.
Proof.
  intros Hi. unfold py_slice, pyslice, py_bound.
  destruct (Z.ltb_spec (Z.of_nat i) 0); [lia|]. destruct (Z.ltb_spec (- Z.of_nat steps + Z.of_nat i) 0); [|lia].
  rewrite Nat2Z.id. replace (Z.to_nat (Z.max 0 (Z.of_nat (length l) + (- Z.of_nat steps + Z.of_nat i)))) with (length l - (steps - i))%nat by lia.
  apply firstn_skipn_min.
Qed.
Lemma sq_err (x y : list T) : nsum (vsq (vsub x y)) = sqdiff x y.
Proof. unfold vsq, vsub, sqdiff. now rewrite map_map2. Qed.

Lemma gen_init_eq (steps : nat) bm om : gen_tm_init (Z.of_nat steps) bm om = (0%Z, prof_init steps bm om).
Proof. unfold gen_tm_init, prof_init. now rewrite sq_err, !slice_0_negsteps. Qed.
Lemma gen_step1_eq (steps i : nat) bm om st : (i < steps)%nat ->
  gen_tm_step1 (Z.of_nat steps) bm om st (Z.of_nat i) = lag_upd st (Z.of_nat i, prof_pos steps bm om i).
Proof.
  intros Hi. unfold gen_tm_step1, lag_upd, prof_pos. cbn [fst snd].
  rewrite sq_err, slice_0_negsteps, slice_i_negsteps by auto. now rewrite Z.add_0_r.
Qed.
Lemma gen_step2_eq (steps i : nat) bm om st : (i < steps)%nat ->
  gen_tm_step2 (Z.of_nat steps) bm om st (Z.of_nat i) = lag_upd st ((- Z.of_nat i)%Z, prof_neg steps bm om i).
Proof.
  intros Hi. unfold gen_tm_step2, lag_upd, prof_neg. cbn [fst snd].
  rewrite sq_err, slice_0_negsteps, slice_i_negsteps by auto. now rewrite Z.sub_0_r.
Qed.
(** the initial error and the two candidate loops: same candidates, same order, same strict comparison as the model *)
Lemma gen_search_eq (steps : nat) bm om : gen_tm_search (Z.of_nat steps) bm om = find_lag_st steps bm om.
Proof.
  unfold gen_tm_search, find_lag_st, lag_candidates, py_range. rewrite Nat2Z.id, fold_left_app, !fold_left_map, gen_init_eq.
  rewrite (fold_left_ext_in (fun a x => gen_tm_step1 (Z.of_nat steps) bm om a (Z.of_nat x))
             (fun a x => lag_upd a (Z.of_nat x, prof_pos steps bm om x))) by (intros a x Hx; apply in_seq in Hx; apply gen_step1_eq; lia).
  apply fold_left_ext_in. intros a x Hx. apply in_seq in Hx. apply gen_step2_eq. lia.
Qed.

Lemma py_get_0 (l : list T) : py_get l 0 = hd n0 l.
Proof. destruct l; reflexivity. Qed.
Lemma py_get_m1 (l : list T) : py_get l (-1) = last l n0.
Proof. unfold py_get. destruct l as [|a l]; [reflexivity|]. now rewrite (py_item_last (a :: l) n0). Qed.
(** the padding: nothing when the lag is 0, otherwise reset_values(apply_lag) *)
Lemma gen_after_eq lag (om : list T) : gen_tm_after lag om = if (lag =? 0)%Z then None else Some (apply_lag lag om).
Proof.
  unfold gen_tm_after, apply_lag. rewrite Z.gtb_ltb.
  destruct (Z.ltb_spec lag 0) as [Hn|Hn].
  - destruct (Z.eqb_spec lag 0); [lia|]. f_equal. rewrite py_get_0. unfold py_rep. rewrite <- Zabs2Nat.abs_nat_spec. f_equal.
    unfold py_slice, py_bound. destruct (Z.ltb_spec lag 0); [|lia]. cbn [skipn]. f_equal. lia.
  - destruct (Z.ltb_spec 0 lag) as [Hp|Hp].
    + destruct (Z.eqb_spec lag 0); [lia|]. f_equal. rewrite py_get_m1. unfold py_rep. rewrite <- Zabs2Nat.abs_nat_spec. f_equal.
      unfold py_slice, py_bound. destruct (Z.ltb_spec lag 0); [lia|].
      replace (Z.to_nat lag) with (Z.abs_nat lag) by lia. rewrite skipn_min.
      apply firstn_all2. rewrite skipn_length. lia.
    + destruct (Z.eqb_spec lag 0); [reflexivity|lia].
Qed.

(** one pass of the signal loop: values afterwards (stored as an array either way) and the lag that is returned *)
Lemma gen_iter_eq (steps master : nat) (sigs : list (list T)) s v :
  tm_one steps master sigs s v
  = let g := gen_tm_iter (Z.of_nat steps) master sigs s v in ((match fst g with Some m => m | None => v end, true), snd g).
Proof.
  unfold tm_one, gen_tm_iter, find_lag. cbv zeta. destruct (Nat.eqb s master); cbn [negb fst snd]; [reflexivity|].
  rewrite gen_bm_eq, gen_om_eq, gen_search_eq, gen_after_eq.
  destruct (Z.eqb_spec (fst (find_lag_st steps (firstn (length_check sigs) (nth master sigs [])) (firstn (length_check sigs) v))) 0);
    reflexivity.
Qed.

(** ** section average *)
Lemma py_int_eq (x : T) : py_int x = trunc x. Proof. reflexivity. Qed.
Lemma py_slice_section (a b : Z) (l : list T) : py_slice (Some a) (Some b) l = section a b l. Proof. reflexivity. Qed.
Lemma np_mean_eq (l : list T) : np_mean l = mean l. Proof. reflexivity. Qed.
End Generic.

(** the outer signal loop as the model reads it (mapi over the signals, the returned variable keeps the last lag assigned):
    every pass is the generated pass *)
Lemma mapi_from_ext_map {A B C} (f : nat -> A -> B) (g : B -> C) (h : nat -> A -> C) k l :
  (forall i x, g (f i x) = h i x) -> map g (mapi_from f k l) = mapi_from h k l.
Proof. intros E. revert k; induction l as [|x l IH]; intros k; cbn; [reflexivity|]. now rewrite E, IH. Qed.

Section GenericLoop.
Context {T : Type} `{NumOps T}.
Lemma gen_time_match_eq (steps master : nat) (sigs : list (list T)) :
  time_match steps master sigs
  = (mapi (fun s v => (match fst (gen_tm_iter (Z.of_nat steps) master sigs s v) with Some m => m | None => v end, true)) sigs,
     last_some (mapi (fun s v => snd (gen_tm_iter (Z.of_nat steps) master sigs s v)) sigs)).
Proof.
  unfold time_match, mapi. cbv zeta. f_equal.
  - apply mapi_from_ext_map. intros i x. now rewrite gen_iter_eq.
  - f_equal. apply mapi_from_ext_map. intros i x. now rewrite gen_iter_eq.
Qed.
End GenericLoop.

(** ** at R *)
Section AtR.
Local Open Scope R_scope.

Lemma gen_combine_R (ns we : list R) dt_ns dt_we d :
  gen_combine_at_angle cos sin PI ns dt_ns we dt_we d = (combine_at_angle ns we d, dt_ns).
Proof. rewrite gen_combine_eq. reflexivity. Qed.
Lemma gen_kern_R d : gen_kern cos sin PI d = kernR d.
Proof. reflexivity. Qed.
Lemma gen_rotated_scan_R (arias_ : list R * R -> list R) (getattr_ : list R * R -> string -> R) parameter func (m : list R -> R)
  (ns we : list R) dt_ns dt_we off (points : nat) :
  gen_rotated_guard ns dt_ns we dt_we = true ->
  (forall d, gen_rotated_item cos sin PI arias_ getattr_ parameter func ns dt_ns we dt_we d = Some (m (combine_at_angle ns we d))) ->
  gen_compute_rotated cos sin PI arias_ getattr_ parameter func ns dt_ns we dt_we off (Z.of_nat points)
  = Some (compute_rotated m off points ns we).
Proof.
  intros Hg Hi. rewrite (gen_rotated_scan cos sin PI arias_ getattr_ parameter func m); auto.
  intros d. rewrite Hi. now rewrite gen_combine_R.
Qed.

Lemma up_1 : up 1 = 2%Z.
Proof. symmetry. apply tech_up; lra. Qed.
Lemma py_int_m1 : py_int (-1 : R) = (-1)%Z.
Proof.
  unfold py_int. numR. case_Rltb (-1) 0; [|lra]. replace (- -1) with 1 by lra. rewrite up_1. reflexivity.
Qed.

(** time_indices(npts, dt, start, end, index=False): the model's pair, or the exception when e_index > npts *)
Lemma gen_time_indices_R npts (dt start stop : R) :
  gen_time_indices npts dt start stop
  = if (snd (time_indices dt start stop) >? npts)%Z then None else Some (time_indices dt start stop).
Proof.
  unfold gen_time_indices, time_indices. cbn [snd]. rewrite !py_int_eq.
  assert (E : (if negb (neqb stop (nopp n1)) then (trunc (ndiv stop dt) + 1)%Z else py_int stop)
              = (if neqb stop (nopp n1) then (-1)%Z else (trunc (ndiv stop dt) + 1)%Z)).
  { destruct (neqb stop (nopp n1)) eqn:He; cbn [negb]; [|reflexivity].
    numR. apply Reqb_true in He. subst stop. apply py_int_m1. }
  rewrite E. reflexivity.
Qed.
Lemma gtb_indices_ok ei (v : list R) : (ei >? Z.of_nat (length v))%Z = negb (indices_ok ei v).
Proof. unfold indices_ok. rewrite Z.gtb_ltb. apply Z.ltb_antisym. Qed.
(** get_section_average(series, start, end): the mean of the model's section, under the model's guard *)
Lemma gen_section_average_R (v : list R) dt start stop :
  gen_section_average v dt start stop
  = if indices_ok (snd (time_indices dt start stop)) v
    then Some (section_average (fst (time_indices dt start stop)) (snd (time_indices dt start stop)) v) else None.
Proof.
  unfold gen_section_average. rewrite gen_time_indices_R, gtb_indices_ok.
  destruct (indices_ok _ v); cbn [negb]; [|reflexivity]. destruct (time_indices dt start stop) as [si ei]. reflexivity.
Qed.
(** one pass of the same_start loop *)
Lemma gen_ss_iter_R master dt start stop ma i (v : list R) :
  gen_ss_iter master dt start stop ma i v
  = if Nat.eqb i master then Some None
    else if indices_ok (snd (time_indices dt start stop)) v
         then Some (Some (map (fun x => x - (section_average (fst (time_indices dt start stop)) (snd (time_indices dt start stop)) v - ma)) v))
         else None.
Proof.
  unfold gen_ss_iter. destruct (Nat.eqb i master); cbn [negb]; [reflexivity|]. rewrite gen_section_average_R.
  destruct (indices_ok _ v); reflexivity.
Qed.
(** Cluster.same_start: the master average, then every pass, give the model's same_start_time (guard: no signal is shorter
    than the end index, otherwise time_indices raises) *)
Lemma gen_same_start_R master dt start stop (sigs : list (list R)) : (master < length sigs)%nat ->
  (forall v, In v sigs -> indices_ok (snd (time_indices dt start stop)) v = true) ->
  let ma := section_average (fst (time_indices dt start stop)) (snd (time_indices dt start stop)) (nth master sigs []) in
  gen_ss_master_average master dt start stop sigs = Some ma /\
  forall i, (i < length sigs)%nat ->
    gen_ss_iter master dt start stop ma i (nth i sigs [])
    = Some (if Nat.eqb i master then None else Some (nth i (same_start_time master dt start stop sigs) [])).
Proof.
  intros Hm Hok ma. split.
  - unfold gen_ss_master_average. rewrite gen_section_average_R, Hok by (apply nth_In; auto). reflexivity.
  - intros i Hi. rewrite gen_ss_iter_R, Hok by (apply nth_In; auto). unfold same_start_time.
    destruct (time_indices dt start stop) as [si ei] eqn:Eti. cbn [fst snd] in *.
    rewrite same_start_nth by auto. destruct (Nat.eqb i master); reflexivity.
Qed.
Lemma gen_ss_raises master dt start stop ma i (v : list R) : i <> master ->
  indices_ok (snd (time_indices dt start stop)) v = false -> gen_ss_iter master dt start stop ma i v = None.
Proof. intros Hi Hok. rewrite gen_ss_iter_R, Hok. apply Nat.eqb_neq in Hi. now rewrite Hi. Qed.

(** time_match at R: signal i afterwards, through the generated pass *)
Lemma gen_time_match_vals_R (steps master : nat) (sigs : list (list R)) i : (i < length sigs)%nat ->
  nth i (time_match_vals steps master sigs) []
  = match fst (gen_tm_iter (Z.of_nat steps) master sigs i (nth i sigs [])) with Some m => m | None => nth i sigs [] end.
Proof. intros Hi. rewrite time_match_vals_nth by auto. now rewrite gen_iter_eq. Qed.

(** the items om[0] / om[-1] of the padding are read with a default; they are never taken from an empty array: the search
    on an empty slave returns lag 0 (every candidate error is the empty sum), and lag 0 pads nothing *)
Lemma fold_lag_upd_zero (cs : list (Z * R)) st : snd st = 0 -> (forall c, In c cs -> snd c = 0) -> fold_left lag_upd cs st = st.
Proof.
  revert st; induction cs as [|c cs IH]; intros st Hs Hc; [reflexivity|]. cbn [fold_left].
  assert (E : lag_upd st c = st).
  { unfold lag_upd. rewrite (Hc c) by (now left). rewrite Hs. numR. case_Rltb 0 0; [lra|reflexivity]. }
  rewrite E. apply IH; auto. intros; apply Hc; now right.
Qed.
Lemma pyslice_nil a b : pyslice a b (@nil R) = [].
Proof. unfold pyslice. rewrite skipn_nil. apply firstn_nil. Qed.
Lemma find_lag_empty_slave steps (bm : list R) : find_lag steps bm [] = 0%Z.
Proof.
  unfold find_lag, find_lag_st. rewrite fold_lag_upd_zero; [reflexivity| |].
  - cbn [snd]. unfold prof_init. rewrite pyslice_nil. apply sqdiff_nil_r.
  - intros c Hc. unfold lag_candidates in Hc. apply in_app_or in Hc. destruct Hc as [Hc|Hc]; apply in_map_iff in Hc;
      destruct Hc as [i [<- _]]; cbn [snd].
    + unfold prof_pos. rewrite pyslice_nil. apply sqdiff_nil_l.
    + unfold prof_neg. rewrite pyslice_nil. apply sqdiff_nil_r.
Qed.
Lemma gen_after_empty_slave steps (bm : list R) : gen_tm_after (fst (gen_tm_search (Z.of_nat steps) bm [])) [] = None.
Proof. rewrite gen_search_eq, gen_after_eq. fold (find_lag steps bm []). now rewrite find_lag_empty_slave. Qed.
End AtR.
