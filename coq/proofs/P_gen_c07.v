(** The generated definitions of gen/Gen_c07.v (re-translated from eqsig/fns/frequency.py and eqsig/im.py on every run by
    translator/py2coq_c07.py) are the hand-written models of model/M_smooth.v, for ALL inputs (the empty frequency array, the
    empty spectrum and the no-qualifying-sample case included: an exception on the one side is [None] / the stated guard on the
    other) and for every [NumOps] instance and every pair of kernel functions [sin], [log10] (so for the Q run of the
    correspondence and for the R theorems of Prop_C07 alike).
    No arithmetic or order law is used: the equalities are unfolding plus list identities, i.e. source and model perform the same
    comparisons and the same arithmetic in the same order.  At R the kernel is instantiated with the real sine and
    [M_smooth.log10]; the generic window then IS [ko_w] (by computation: [npow x 4] unfolds to [x ^ 4]). *)
From Coq Require Import ZArith QArith Reals List Bool Lia Lra.
From EQ Require Import lib.Num lib.NpList lib.Where lib.PyVal lib.NpHelpers lib.PyRes model.M_smooth gen.Gen_c07.
Import ListNotations.
Local Open Scope num_scope.

(** ** list facts (any element type) *)
Lemma last_cons_default {A} (x : A) r d : last (x :: r) d = last r x.
Proof.
  revert x d; induction r as [|y r IH]; intros x d; [reflexivity|].
  change (last (x :: y :: r) d) with (last (y :: r) d). rewrite (IH y d), (IH y x). reflexivity.
Qed.
Lemma map2_map_l {A A' B C} (f : A' -> B -> C) (g : A -> A') la lb :
  map2 f (map g la) lb = map2 (fun a b => f (g a) b) la lb.
Proof. revert lb; induction la as [|a la IH]; intros [|b lb]; cbn [map map2]; try reflexivity. now rewrite IH. Qed.
Lemma where_idx_lt {A} (p : A -> bool) l i : In i (where_idx p l) -> (i < length l)%nat.
Proof. destruct l as [|d r]; [intros []|]. intros Hi. apply (where_idx_In d) in Hi. tauto. Qed.
Lemma nth_error_nth_lt {A} (l : list A) i d : (i < length l)%nat -> nth_error l i = Some (nth i l d).
Proof. revert i; induction l as [|a l IH]; intros [|i] Hi; cbn in *; try lia; [reflexivity|]. apply IH. lia. Qed.
Lemma last_in_cons {A} (r : list A) x : In (last r x) (x :: r).
Proof.
  revert x; induction r as [|y r IH]; intros x; [now left|]. right.
  rewrite last_cons_default. apply IH.
Qed.
Lemma py_last_in {A} (l : list A) j : py_last l = Some j -> In j l.
Proof. destruct l as [|x r]; [discriminate|]. cbn [py_last]. intros [= <-]. apply last_in_cons. Qed.
Lemma py_first_in {A} (l : list A) j : py_first l = Some j -> In j l.
Proof. destruct l as [|x r]; [discriminate|]. intros [= <-]. now left. Qed.

Section Generic.
Context {T : Type} `{NumOps T}.
Variable sin log10 : T -> T.

(** ** the window as the source computes it, over the kernel functions *)
Definition ko_arg_gen (band f fc : T) : T := band * log10 (f / fc).
Definition ko_w_gen (band f fc : T) : T :=
  if ko_arg_gen band f fc =? n0 then n1 else npow (sin (ko_arg_gen band f fc) / ko_arg_gen band f fc) 4.

(** the weighted sum of the source ([np.sum(abs(a)[:, np.newaxis] * wb, axis=0)], [np.dot(abs(a), M)]) is the model's *)
Lemma gen_wmean_eq (am col : list T) : nsum (vmul (vabs am) col) = wmean am col.
Proof. unfold wmean, vmul, vabs. now rewrite map2_map_l. Qed.

(** what the smoothing functions return, from the model's value *)
Definition guard_nonempty {A} (freqs : list T) (v : A) : pyres A :=
  match freqs with [] => PyRaise IndexError | _ :: _ => PyOk v end.
Definition smooth_model (band : T) (freqs amps : list T) (targets : option (list T)) : list T :=
  match targets with
  | Some t => smooth_gen (ko_w_gen band) freqs amps t
  | None => smooth_gen_default (ko_w_gen band) freqs amps
  end.
Definition matrix_model (band : T) (freqs : list T) (targets : option (list T)) : list (list T) :=
  matrix_gen (ko_w_gen band) freqs (match targets with Some t => t | None => drop_zero_f freqs end).

Lemma gen_smooth_fa_eq band freqs amps targets :
  gen_smooth_fa sin log10 band freqs amps targets = guard_nonempty freqs (smooth_model band freqs amps targets).
Proof.
  destruct freqs as [|f0 fr]; [reflexivity|].
  unfold gen_smooth_fa, guard_nonempty, smooth_model, smooth_gen_default, smooth_gen, drop_zero_f, drop_zero_a.
  cbn [py_first tl]. cbv zeta.
  destruct (f0 =? n0); destruct targets as [t|]; f_equal; apply map_ext; intros fc; apply gen_wmean_eq.
Qed.
Lemma gen_smooth_fa_alias_eq band freqs amps targets :
  gen_smooth_fa_alias sin log10 band freqs amps targets = gen_smooth_fa sin log10 band freqs amps targets.
Proof. reflexivity. Qed.
Lemma gen_smoothing_matrix_eq band freqs targets :
  gen_smoothing_matrix sin log10 band freqs targets = guard_nonempty freqs (matrix_model band freqs targets).
Proof.
  destruct freqs as [|f0 fr]; [reflexivity|].
  unfold gen_smoothing_matrix, guard_nonempty, matrix_model, matrix_gen, drop_zero_f. cbn [py_first tl]. cbv zeta.
  destruct (f0 =? n0); destruct targets as [t|]; reflexivity.
Qed.
Lemma gen_smooth_w_matrix_eq (amps : list T) cols : gen_smooth_w_matrix amps cols = PyOk (smooth_w_matrix amps cols).
Proof. unfold gen_smooth_w_matrix, smooth_w_matrix. f_equal. apply map_ext; intros col; apply gen_wmean_eq. Qed.

(** the shape conditions: the two operands of the weighted sum have the same length *)
Lemma gen_smooth_fa_shapes_eq band freqs amps targets :
  gen_smooth_fa_shapes band freqs amps targets =
  match freqs with [] => true | _ :: _ => Nat.eqb (length (drop_zero_a freqs amps)) (length (drop_zero_f freqs)) end.
Proof.
  destruct freqs as [|f0 fr]; [reflexivity|].
  unfold gen_smooth_fa_shapes, drop_zero_a, drop_zero_f, vabs. cbn [py_first tl].
  destruct (f0 =? n0); destruct targets; now rewrite map_length.
Qed.
Lemma gen_smooth_w_matrix_shapes_eq (amps : list T) cols :
  gen_smooth_w_matrix_shapes amps cols = forallb (fun col => Nat.eqb (length (tl amps)) (length col)) cols.
Proof. unfold gen_smooth_w_matrix_shapes, vabs. induction cols as [|c cols IH]; cbn [forallb]; [reflexivity|]. now rewrite IH, map_length. Qed.

(** ** bandwidth limits *)
(** the model's optional index pair, and the frequency look-up, as the call's result *)
Definition idx_result (s : list T) (r : option (nat * nat)) : pyres (nat * nat) :=
  match s with
  | [] => PyRaise ValueError
  | _ :: _ => match r with None => PyRaise IndexError | Some p => PyOk p end
  end.
Definition lookup2 {A} (mk : T -> T -> A) (freqs : list T) (i j : nat) : pyres A :=
  match nth_error freqs i with
  | None => PyRaise IndexError
  | Some a => match nth_error freqs j with None => PyRaise IndexError | Some b => PyOk (mk a b) end
  end.
Definition freq_result {A} (mk : T -> T -> A) (s freqs : list T) (r : option (nat * nat)) : pyres A :=
  match s with
  | [] => PyRaise ValueError
  | _ :: _ => match r with None => PyRaise IndexError | Some (i, j) => lookup2 mk freqs i j end
  end.
Definition freq_result1 (s freqs : list T) (r : option nat) : pyres T :=
  match s with
  | [] => PyRaise ValueError
  | _ :: _ => match r with
              | None => PyRaise IndexError
              | Some i => match nth_error freqs i with None => PyRaise IndexError | Some a => PyOk a end
              end
  end.

Lemma first_last_above_py lim (s : list T) :
  first_last_above lim s =
  match py_first (where_idx (fun x => lim <? x) s) with
  | None => None
  | Some i => match py_last (where_idx (fun x => lim <? x) s) with None => None | Some j => Some (i, j) end
  end.
Proof.
  unfold first_last_above. cbv zeta. destruct (where_idx _ s) as [|i r]; [reflexivity|].
  cbn [py_first py_last]. now rewrite last_cons_default.
Qed.
Lemma py_last_none_first {A} (l : list A) : py_last l = None -> py_first l = None.
Proof. destruct l; [reflexivity|discriminate]. Qed.

Lemma gen_sig_idx_range_eq ratio (s : list T) : gen_sig_idx_range ratio s = idx_result s (sig_idx_range ratio s).
Proof.
  unfold gen_sig_idx_range, idx_result, sig_idx_range. rewrite first_last_above_py.
  destruct s as [|x r]; [reflexivity|]. cbn [py_max].
  destruct (py_first _) as [i|]; [|reflexivity]. destruct (py_last _) as [j|]; reflexivity.
Qed.
Lemma gen_sig_freq_range_eq ratio (s freqs : list T) :
  gen_sig_freq_range ratio s freqs = freq_result (fun a b => [a; b]) s freqs (sig_idx_range ratio s).
Proof.
  unfold gen_sig_freq_range, freq_result, lookup2, sig_idx_range. rewrite first_last_above_py.
  destruct s as [|x r]; [reflexivity|]. cbn [py_max].
  destruct (py_first _) as [i|]; [|reflexivity]. destruct (py_last _) as [j|]; reflexivity.
Qed.
(** calc_bandwidth_freqs looks the first frequency up BEFORE it takes the last index; both index reads fail together (the index
    array is empty or not), so the order does not show in the result *)
Lemma gen_bandwidth_freqs_eq ratio (s freqs : list T) :
  gen_bandwidth_freqs ratio s freqs = freq_result (fun a b => (a, b)) s freqs (bw_idx ratio s).
Proof.
  unfold gen_bandwidth_freqs, freq_result, lookup2, bw_idx. rewrite first_last_above_py.
  destruct s as [|x r]; [reflexivity|]. cbn [py_max].
  destruct (py_first _) as [i|] eqn:Hf; [|reflexivity].
  destruct (py_last _) as [j|] eqn:Hl; [reflexivity|].
  apply py_last_none_first in Hl. congruence.
Qed.
Lemma gen_bandwidth_f_min_eq ratio (s freqs : list T) :
  gen_bandwidth_f_min ratio s freqs = freq_result1 s freqs (option_map fst (bw_idx ratio s)).
Proof.
  unfold gen_bandwidth_f_min, freq_result1, bw_idx. rewrite first_last_above_py.
  destruct s as [|x r]; [reflexivity|]. cbn [py_max].
  destruct (py_first _) as [i|] eqn:Hf; [|reflexivity].
  destruct (py_last _) as [j|] eqn:Hl; [reflexivity|].
  apply py_last_none_first in Hl. congruence.
Qed.
Lemma py_first_none_last {A} (l : list A) : py_first l = None -> py_last l = None.
Proof. destruct l; [reflexivity|discriminate]. Qed.
Lemma gen_bandwidth_f_max_eq ratio (s freqs : list T) :
  gen_bandwidth_f_max ratio s freqs = freq_result1 s freqs (option_map snd (bw_idx ratio s)).
Proof.
  unfold gen_bandwidth_f_max, freq_result1, bw_idx. rewrite first_last_above_py.
  destruct s as [|x r]; [reflexivity|]. cbn [py_max].
  destruct (py_first _) as [i|] eqn:Hf.
  - destruct (py_last _) as [j|]; reflexivity.
  - apply py_first_none_last in Hf. rewrite Hf. reflexivity.
Qed.

(** ** under the object invariant len(smooth_fa_frequencies) >= len(smooth_fa_spectrum) the look-ups cannot fail: the value of
    the call is the model's optional pair *)
Lemma first_last_above_bounds lim (s : list T) i j : first_last_above lim s = Some (i, j) -> (i < length s /\ j < length s)%nat.
Proof.
  rewrite first_last_above_py.
  destruct (py_first _) as [i'|] eqn:Hf; [|discriminate]. destruct (py_last _) as [j'|] eqn:Hl; [|discriminate].
  intros [= <- <-]. split; eapply where_idx_lt; [eapply py_first_in | eapply py_last_in]; eassumption.
Qed.
Lemma lookup2_in_range {A} (mk : T -> T -> A) freqs i j : (i < length freqs)%nat -> (j < length freqs)%nat ->
  lookup2 mk freqs i j = PyOk (mk (nth i freqs n0) (nth j freqs n0)).
Proof. intros Hi Hj. unfold lookup2. now rewrite (nth_error_nth_lt freqs i n0 Hi), (nth_error_nth_lt freqs j n0 Hj). Qed.

Lemma freq_result_value {A} (mk : T -> T -> A) lim (s freqs : list T) : (length s <= length freqs)%nat ->
  res_value (freq_result mk s freqs (first_last_above lim s)) =
  option_map (fun p => mk (fst p) (snd p)) (take_pair freqs (first_last_above lim s)).
Proof.
  intros Hlen. unfold freq_result, take_pair.
  destruct s as [|x r]; [reflexivity|].
  destruct (first_last_above lim (x :: r)) as [[i j]|] eqn:E; [|reflexivity].
  apply first_last_above_bounds in E. rewrite lookup2_in_range by lia. reflexivity.
Qed.
Lemma gen_bandwidth_freqs_value ratio (s freqs : list T) : (length s <= length freqs)%nat ->
  res_value (gen_bandwidth_freqs ratio s freqs) = bandwidth_freqs ratio s freqs.
Proof.
  intros Hlen. rewrite gen_bandwidth_freqs_eq. unfold bw_idx, bandwidth_freqs, bw_idx.
  rewrite (freq_result_value (fun a b => (a, b)) _ s freqs Hlen).
  destruct (take_pair _ _) as [[a b]|]; reflexivity.
Qed.
Lemma gen_sig_freq_range_value ratio (s freqs : list T) : (length s <= length freqs)%nat ->
  res_value (gen_sig_freq_range ratio s freqs) = option_map (fun p => [fst p; snd p]) (sig_freq_range ratio s freqs).
Proof.
  intros Hlen. rewrite gen_sig_freq_range_eq. unfold sig_idx_range, sig_freq_range, sig_idx_range.
  exact (freq_result_value (fun a b => [a; b]) _ s freqs Hlen).
Qed.
Lemma gen_bandwidth_f_min_value ratio (s freqs : list T) : (length s <= length freqs)%nat ->
  res_value (gen_bandwidth_f_min ratio s freqs) = option_map fst (bandwidth_freqs ratio s freqs).
Proof.
  intros Hlen. rewrite gen_bandwidth_f_min_eq. unfold bandwidth_freqs, take_pair, bw_idx, freq_result1.
  destruct s as [|x r]; [reflexivity|].
  destruct (first_last_above _ (x :: r)) as [[i j]|] eqn:E; [|reflexivity].
  apply first_last_above_bounds in E. cbn [option_map fst]. rewrite (nth_error_nth_lt freqs i n0) by lia. reflexivity.
Qed.
Lemma gen_bandwidth_f_max_value ratio (s freqs : list T) : (length s <= length freqs)%nat ->
  res_value (gen_bandwidth_f_max ratio s freqs) = option_map snd (bandwidth_freqs ratio s freqs).
Proof.
  intros Hlen. rewrite gen_bandwidth_f_max_eq. unfold bandwidth_freqs, take_pair, bw_idx, freq_result1.
  destruct s as [|x r]; [reflexivity|].
  destruct (first_last_above _ (x :: r)) as [[i j]|] eqn:E; [|reflexivity].
  apply first_last_above_bounds in E. cbn [option_map snd]. rewrite (nth_error_nth_lt freqs j n0) by lia. reflexivity.
Qed.
End Generic.

(** ** at R: the kernel functions are the real sine and log10 = ln / ln 10, and the generic window is [ko_w] *)
Lemma ko_w_gen_R (b f fc : R) : ko_w_gen Rtrigo_def.sin M_smooth.log10 b f fc = ko_w b f fc.
Proof. reflexivity. Qed.
Lemma gen_smooth_fa_R (b : R) freqs amps targets :
  gen_smooth_fa Rtrigo_def.sin M_smooth.log10 b freqs amps (Some targets) = guard_nonempty freqs (smooth b freqs amps targets).
Proof. rewrite gen_smooth_fa_eq. reflexivity. Qed.
Lemma gen_smooth_fa_default_R (b : R) freqs amps :
  gen_smooth_fa Rtrigo_def.sin M_smooth.log10 b freqs amps None = guard_nonempty freqs (smooth_default b freqs amps).
Proof. rewrite gen_smooth_fa_eq. reflexivity. Qed.
Lemma gen_smoothing_matrix_R (b : R) freqs targets :
  gen_smoothing_matrix Rtrigo_def.sin M_smooth.log10 b freqs (Some targets) = guard_nonempty freqs (smoothing_matrix b freqs targets).
Proof. rewrite gen_smoothing_matrix_eq. reflexivity. Qed.
Lemma gen_smoothing_matrix_default_R (b : R) freqs :
  gen_smoothing_matrix Rtrigo_def.sin M_smooth.log10 b freqs None = guard_nonempty freqs (smoothing_matrix b freqs (drop_zero_f freqs)).
Proof. rewrite gen_smoothing_matrix_eq. reflexivity. Qed.

(** ** the defaults of the Python signatures *)
Local Open Scope R_scope.
Lemma gen_c07_defaults_R :
  @gen_smooth_fa_default_band R _ = 40 /\ @gen_smooth_fa_alias_default_band R _ = 40 /\ @gen_smoothing_matrix_default_band R _ = 40 /\
  @gen_smooth_fa_default_smooth_fa_frequencies R = None /\ @gen_smoothing_matrix_default_smooth_fa_frequencies R = None /\
  @gen_sig_idx_range_default_ratio R _ = 15 /\ @gen_sig_freq_range_default_ratio R _ = 15 /\
  @gen_bandwidth_freqs_default_ratio R _ = 0.707 /\ @gen_bandwidth_f_min_default_ratio R _ = 0.707 /\
  @gen_bandwidth_f_max_default_ratio R _ = 0.707.
Proof.
  unfold gen_smooth_fa_default_band, gen_smooth_fa_alias_default_band, gen_smoothing_matrix_default_band,
    gen_sig_idx_range_default_ratio, gen_sig_freq_range_default_ratio, gen_bandwidth_freqs_default_ratio,
    gen_bandwidth_f_min_default_ratio, gen_bandwidth_f_max_default_ratio. numR.
  repeat split; try reflexivity; lra.
Qed.

(** ** statements used by Prop_C07 *)
Lemma gen_smooth_fa_shapes_iff {T} `{NumOps T} (band : T) freqs amps targets : freqs <> [] ->
  (gen_smooth_fa_shapes band freqs amps targets = true <-> length (drop_zero_a freqs amps) = length (drop_zero_f freqs)).
Proof.
  intros Hne. rewrite gen_smooth_fa_shapes_eq. destruct freqs as [|f0 fr]; [congruence|]. apply Nat.eqb_eq.
Qed.

(** end to end at R: what the source returns (when it returns, with operands of equal length and non-vanishing columns) lies
    between the smallest and the largest |amplitude| that remain after the zero-bin drop *)
From EQ Require Import proofs.P_C07.
Lemma source_between_min_max (b : R) freqs amps targets out :
  gen_smooth_fa Rtrigo_def.sin M_smooth.log10 b freqs amps (Some targets) = PyOk out ->
  gen_smooth_fa_shapes b freqs amps (Some targets) = true ->
  (forall fc, In fc targets -> 0 < nsum (ko_raw b (drop_zero_f freqs) fc)) ->
  forall y, In y out -> amin (vabs (drop_zero_a freqs amps)) <= y <= amax (vabs (drop_zero_a freqs amps)).
Proof.
  intros Hout Hsh Hpos y Hy. rewrite gen_smooth_fa_R in Hout.
  destruct freqs as [|f0 fr]; [discriminate|]. cbn [guard_nonempty] in Hout. injection Hout as <-.
  apply gen_smooth_fa_shapes_iff in Hsh; [|discriminate].
  exact (P_C07.C07_between_min_max b (f0 :: fr) amps targets Hsh Hpos y Hy).
Qed.
