(** Proofs for C19 at T := R. *)
From Coq Require Import ZArith Reals List Bool Lra Lia.
From EQ Require Import lib.Num lib.NpList lib.Quad model.M_displacements model.M_im model.M_surface proofs.P_C09.
Import ListNotations.
Local Open Scope R_scope.

(** ** floor on R *)
Lemma Rfloor_spec (x : R) : IZR (nfloor x) <= x < IZR (nfloor x) + 1.
Proof. numR. destruct (archimed x) as [H1 H2]. rewrite minus_IZR. lra. Qed.
Lemma Rfloor_unique (x : R) (k : Z) : IZR k <= x < IZR k + 1 -> nfloor x = k.
Proof.
  intros [H1 H2]. destruct (Rfloor_spec x) as [H3 H4].
  assert (A : (nfloor x < k + 1)%Z) by (apply lt_IZR; rewrite plus_IZR; lra).
  assert (B : (k < nfloor x + 1)%Z) by (apply lt_IZR; rewrite plus_IZR; lra).
  lia.
Qed.
Lemma Rfloor_IZR (z : Z) : nfloor (IZR z) = z.
Proof. apply Rfloor_unique. lra. Qed.
Lemma Rfloor_mono (x y : R) : x <= y -> (nfloor x <= nfloor y)%Z.
Proof.
  intros Hxy. destruct (Rfloor_spec x), (Rfloor_spec y).
  assert (A : (nfloor x < nfloor y + 1)%Z) by (apply lt_IZR; rewrite plus_IZR; lra). lia.
Qed.
Lemma Rtrunc_nonneg (x : R) : 0 <= x -> ntrunc x = nfloor x /\ (0 <= nfloor x)%Z.
Proof.
  intros Hx. unfold ntrunc. numR. replace (Rltb x 0) with false by (symmetry; apply Rltb_false; lra).
  split; [reflexivity|]. rewrite <- (Rfloor_IZR 0). now apply Rfloor_mono.
Qed.
Lemma ofnat_R (i : nat) : @ofnat R _ i = INR i.
Proof. unfold ofnat. numR. now rewrite INR_IZR_INZ. Qed.

(** ** small list facts *)
Lemma nth_repeat0 {A} (d : A) k i : nth i (repeat d k) d = d.
Proof. revert i; induction k; destruct i; cbn; auto. Qed.
Lemma nth_nil {A} (d : A) i : nth i [] d = d. Proof. destruct i; reflexivity. Qed.
Lemma nth_map_scale c (l : list R) i : nth i (map (Rmult c) l) 0 = c * nth i l 0.
Proof. rewrite <- (Rmult_0_r c) at 1. apply map_nth. Qed.
Lemma nth_map0 (f : R -> R) (l : list R) i : f 0 = 0 -> nth i (map f l) 0 = f (nth i l 0).
Proof. intros Hf. rewrite <- Hf at 1. apply map_nth. Qed.
Lemma map2_map_map {A B C D} (f : B -> C -> D) (g : A -> B) (h : A -> C) l :
  map2 f (map g l) (map h l) = map (fun x => f (g x) (h x)) l.
Proof. induction l; cbn; [reflexivity|]. now rewrite IHl. Qed.
Lemma nth_tab {A} (f : nat -> A) n i d : (i < n)%nat -> nth i (map f (seq 0 n)) d = f i.
Proof.
  intros Hi. rewrite nth_indep with (d' := f 0%nat) by now rewrite map_length, seq_length.
  rewrite map_nth, seq_nth by auto. reflexivity.
Qed.
Lemma tab_self (v : list R) : v = map (fun i => nth i v 0) (seq 0 (length v)).
Proof.
  apply nth_ext with (d := 0) (d' := 0); [now rewrite map_length, seq_length|].
  intros i Hi. now rewrite nth_tab.
Qed.
Lemma tab_app_zeros (v : list R) m : v ++ repeat 0 m = map (fun i => nth i v 0) (seq 0 (length v + m)).
Proof.
  apply nth_ext with (d := 0) (d' := 0).
  - now rewrite app_length, repeat_length, map_length, seq_length.
  - intros i Hi. rewrite app_length, repeat_length in Hi. rewrite nth_tab by auto.
    destruct (Nat.lt_ge_cases i (length v)) as [H|H].
    + now rewrite app_nth1.
    + rewrite app_nth2 by auto. rewrite nth_repeat0. now rewrite nth_overflow.
Qed.

(** ** np.interp(., arange(n), v, left=0, right=0) *)
Lemma interp_neg (v : list R) x : x < 0 -> interp_grid0 v x = 0.
Proof. intros Hx. unfold interp_grid0. numR. now replace (Rltb x 0) with true by (symmetry; apply Rltb_true; lra). Qed.
Lemma interp_int (v : list R) (z : Z) :
  interp_grid0 v (IZR z) = if (z <? 0)%Z then 0 else nth (Z.to_nat z) v 0.
Proof.
  destruct (Z.ltb_spec z 0) as [Hz|Hz].
  - apply interp_neg. now apply IZR_lt.
  - unfold interp_grid0. numR. replace (Rltb (IZR z) 0) with false by (symmetry; apply Rltb_false; now apply IZR_le).
    change (up (IZR z) - 1)%Z with (@nfloor R _ (IZR z)). rewrite Rfloor_IZR. unfold ofnat. numR. rewrite Z2Nat.id by auto.
    replace (IZR z - IZR z) with 0 by lra.
    destruct (Nat.ltb _ _); [lra|]. now replace (Reqb 0 0) with true by (symmetry; now apply Reqb_true).
Qed.
Lemma interp_between (v : list R) (k : nat) (f : R) : (S k < length v)%nat -> 0 <= f < 1 ->
  interp_grid0 v (INR k + f) = (1 - f) * nth k v 0 + f * nth (S k) v 0.
Proof.
  intros Hk Hf. unfold interp_grid0. numR. pose proof (pos_INR k).
  replace (Rltb (INR k + f) 0) with false by (symmetry; apply Rltb_false; lra).
  replace (up (INR k + f) - 1)%Z with (Z.of_nat k).
  2:{ symmetry. apply (Rfloor_unique (INR k + f)). rewrite <- INR_IZR_INZ. lra. }
  rewrite Nat2Z.id. apply Nat.ltb_lt in Hk. rewrite Hk. rewrite ofnat_R. lra.
Qed.
Lemma interp_right (v : list R) x : INR (length v) - 1 < x -> interp_grid0 v x = 0.
Proof.
  intros Hx. unfold interp_grid0. numR. case_Rltb x 0; [reflexivity|].
  set (k := Z.to_nat (up x - 1)).
  destruct (Rfloor_spec x) as [F1 F2]. numR.
  assert (F0 : (0 <= up x - 1)%Z).
  { assert (-1 < up x - 1)%Z; [|lia]. apply lt_IZR. lra. }
  assert (Hk : INR k = IZR (up x - 1)) by (unfold k; rewrite INR_IZR_INZ, Z2Nat.id; auto).
  assert (Hn : (length v <= S k)%nat).
  { assert (length v < S (S k))%nat; [|lia]. apply INR_lt. rewrite !S_INR. lra. }
  replace (S k <? length v)%nat with false by (symmetry; apply Nat.ltb_ge; lia).
  rewrite ofnat_R. case_Reqb (x - INR k) 0; [|reflexivity].
  apply nth_overflow. assert (length v < S k)%nat; [|lia]. apply INR_lt. rewrite S_INR. lra.
Qed.
Lemma interp_scale c (v : list R) x : interp_grid0 (map (Rmult c) v) x = c * interp_grid0 v x.
Proof.
  unfold interp_grid0. rewrite map_length, !nth_map_scale. numR.
  destruct (Rltb x 0); [lra|]. destruct (Nat.ltb _ _); [lra|]. destruct (Reqb _ _); lra.
Qed.

(** the interpolant is the piecewise-linear function through the samples, zero outside the record *)
Lemma interp_at_sample (v : list R) (i : nat) : interp_grid0 v (INR i) = nth i v 0.
Proof. rewrite INR_IZR_INZ, interp_int. destruct (Z.ltb_spec (Z.of_nat i) 0); [lia|]. now rewrite Nat2Z.id. Qed.
(** integer delay d: the delayed wave at sample i is sample i - d *)
Lemma interp_delay_int (v : list R) (i d : nat) :
  interp_grid0 v (INR i - INR d) = if (i <? d)%nat then 0 else nth (i - d) v 0.
Proof.
  rewrite !INR_IZR_INZ, <- minus_IZR, interp_int.
  destruct (Z.ltb_spec (Z.of_nat i - Z.of_nat d) 0), (Nat.ltb_spec i d); try lia; auto.
  f_equal. lia.
Qed.

(** ** rows of the acceleration series as tabulated functions of the sample index *)
Definition accf (nodal : bool) (vals : list R) (ur dr s : R) (i : nat) : R :=
  (if nodal then - (interp_grid0 vals (INR i - s) * dr) else interp_grid0 vals (INR i - s) * dr) + nth i vals 0 * ur.
Lemma acc_row_tab nodal (vals : list R) m ur dr s :
  acc_row nodal vals m ur dr s = map (accf nodal vals ur dr s) (seq 0 (length vals + m)).
Proof.
  unfold acc_row, up_padded, down_wave, vopp. rewrite tab_app_zeros, !map_map.
  destruct nodal; rewrite map2_map_map; apply map_ext; intros i; unfold accf;
    rewrite ofnat_R; numR; reflexivity.
Qed.
Lemma map_idx_from_length {A B} (f : nat -> A -> B) j0 l : length (map_idx_from f j0 l) = length l.
Proof. revert j0; induction l; intros; cbn; auto. Qed.
Lemma map_idx_from_nth {A B} (f : nat -> A -> B) j0 l j dA dB : (j < length l)%nat ->
  nth j (map_idx_from f j0 l) dB = f (j0 + j)%nat (nth j l dA).
Proof.
  revert j0 j; induction l as [|x r IH]; intros j0 j Hj; cbn in Hj; [lia|].
  destruct j; cbn [map_idx_from nth]; [now rewrite Nat.add_0_r|].
  rewrite IH by lia. f_equal. lia.
Qed.
Lemma map_idx_from_ext {A B} (f g : nat -> A -> B) j0 l : (forall j x, f j x = g j x) ->
  map_idx_from f j0 l = map_idx_from g j0 l.
Proof. intros E. revert j0; induction l; intros; cbn; [reflexivity|]. now rewrite E, IHl. Qed.
Lemma map_map_idx_from {A B C} (h : B -> C) (f : nat -> A -> B) j0 l :
  map h (map_idx_from f j0 l) = map_idx_from (fun j x => h (f j x)) j0 l.
Proof. revert j0; induction l; intros; cbn; [reflexivity|]. now rewrite IHl. Qed.

Lemma shifts_of_length dt (tts : list R) : length (shifts_of dt tts) = length tts.
Proof. apply map_length. Qed.
Lemma shifts_of_nth dt (tts : list R) j : (j < length tts)%nat -> nth j (shifts_of dt tts) 0 = 2 * nth j tts 0 / dt.
Proof. intros Hj. unfold shifts_of. rewrite nth_map_in with (d' := 0) by auto. reflexivity. Qed.
Lemma acc_rows_length nodal dt (vals tts : list R) ur dr : length (acc_rows nodal dt vals tts ur dr) = length tts.
Proof. unfold acc_rows. now rewrite map_idx_from_length, shifts_of_length. Qed.
Lemma acc_rows_nth nodal dt (vals tts : list R) ur dr j : (j < length tts)%nat ->
  nth j (acc_rows nodal dt vals tts ur dr) [] =
  map (accf nodal vals (red_at ur j) (red_at dr j) (2 * nth j tts 0 / dt)) (seq 0 (length vals + max_shift dt tts)).
Proof.
  intros Hj. unfold acc_rows. rewrite map_idx_from_nth with (dA := 0) by now rewrite shifts_of_length.
  cbn [Nat.add]. now rewrite acc_row_tab, shifts_of_nth.
Qed.
Lemma energy_rows_length nodal dt (vals tts : list R) ur dr : length (energy_rows nodal dt vals tts ur dr) = length tts.
Proof. unfold energy_rows. now rewrite map_length, acc_rows_length. Qed.
Lemma energy_rows_nth nodal dt (vals tts : list R) ur dr j : (j < length tts)%nat ->
  nth j (energy_rows nodal dt vals tts ur dr) [] =
  kin_energy (cumtrapz dt (map (accf nodal vals (red_at ur j) (red_at dr j) (2 * nth j tts 0 / dt))
                               (seq 0 (length vals + max_shift dt tts)))).
Proof.
  intros Hj. unfold energy_rows. rewrite nth_map_in with (d' := []) by now rewrite acc_rows_length.
  now rewrite acc_rows_nth.
Qed.
Lemma kin_energy_nth (v : list R) i : nth i (kin_energy v) 0 = 1 / 2 * nth i v 0 * Rabs (nth i v 0).
Proof. unfold kin_energy. rewrite nth_map0; [reflexivity|]. numR. rewrite Rabs_R0. lra. Qed.
Lemma kin_energy_length (v : list R) : length (kin_energy v) = length v.
Proof. apply map_length. Qed.

Lemma C19_energy_def nodal dt (vals tts : list R) ur dr j : (j < length tts)%nat ->
  let L := (length vals + max_shift dt tts)%nat in
  let a := accf nodal vals (red_at ur j) (red_at dr j) (2 * nth j tts 0 / dt) in
  let row := nth j (energy_rows nodal dt vals tts ur dr) [] in
  length (energy_rows nodal dt vals tts ur dr) = length tts /\ length row = L /\
  exists v : list R, length v = L /\ nth 0 v 0 = 0 /\
    (forall i, (S i < L)%nat -> nth (S i) v 0 - nth i v 0 = dt * (a (S i) + a i) / 2) /\
    (forall i, (i < L)%nat -> nth i row 0 = 1 / 2 * nth i v 0 * Rabs (nth i v 0)).
Proof.
  intros Hj L a row. split; [apply energy_rows_length|].
  unfold row. rewrite energy_rows_nth by auto. fold L. fold a.
  assert (HL : length (cumtrapz dt (map a (seq 0 L))) = L) by now rewrite cumtrapz_length, map_length, seq_length.
  split; [now rewrite kin_energy_length|].
  exists (cumtrapz dt (map a (seq 0 L))). repeat split; auto.
  - apply cumtrapz_nth_0.
  - intros i Hi. rewrite cumtrapz_nth_S by now rewrite map_length, seq_length.
    rewrite !nth_tab by lia. reflexivity.
  - intros i Hi. apply kin_energy_nth.
Qed.

(** ** cumulative absolute change never decreases and starts >= 0 *)
Lemma cumsum_from_ge acc (l : list R) : all_nonneg l -> forall x, In x (cumsum_from acc l) -> acc <= x.
Proof.
  revert acc; induction l as [|y r IH]; intros acc Hl x Hx; [destruct Hx|]. cbn in Hx.
  assert (0 <= y) by (apply Hl; now left). numR.
  destruct Hx as [<-|Hx]; [lra|]. apply IH in Hx; [lra|]. intros z Hz; apply Hl; now right.
Qed.
Lemma cum_abs_row_monotone (e : list R) : nondecreasing (cum_abs_row e) /\ all_nonneg (cum_abs_row e).
Proof.
  unfold cum_abs_row. split; [apply cumsum_monotone, all_nonneg_vabs|].
  intros x Hx. apply (cumsum_from_ge 0 _ (all_nonneg_vabs _) x Hx).
Qed.
Lemma C19_cum_monotone nodal trim start dt (vals tts : list R) ur dr stt row :
  In row (cum_abs_surface_energy nodal trim start dt vals tts ur dr stt) -> nondecreasing row /\ all_nonneg row.
Proof. unfold cum_abs_surface_energy. intros (e & <- & _)%in_map_iff. apply cum_abs_row_monotone. Qed.
Lemma cum_abs_row_length (e : list R) : length (cum_abs_row e) = length e.
Proof.
  unfold cum_abs_row, vabs. rewrite cumsum_length, map_length.
  assert (G : forall (x : R) r, length (diff (x :: r)) = length r).
  { intros x r; revert x; induction r as [|y r IH]; intros x; [reflexivity|]. cbn [diff length]. f_equal. apply IH. }
  apply G.
Qed.

(** ** trim_to_length commutes with any row-wise map fixing 0, and keeps zero rows zero *)
Lemma map2_map_r {A B B' C C'} (g : A -> B -> C) (g' : A -> B' -> C') (h : B -> B') (h' : C -> C') l m :
  (forall a b, g' a (h b) = h' (g a b)) -> map2 g' l (map h m) = map h' (map2 g l m).
Proof. intros E. revert m; induction l as [|a l IH]; intros [|b m]; cbn; auto. now rewrite E, IH. Qed.
Lemma in_map2 {A B C} (g : A -> B -> C) l m c : In c (map2 g l m) -> exists a b, In a l /\ In b m /\ c = g a b.
Proof.
  revert m; induction l as [|a l IH]; intros [|b m] Hc; cbn in Hc; try tauto.
  destruct Hc as [<-|Hc]; [exists a, b; cbn; auto|].
  destruct (IH m Hc) as (a' & b' & Ha & Hb & E). exists a', b'; cbn; auto.
Qed.
Lemma trim_row_map (f : R -> R) npts si (row : list R) : f 0 = 0 ->
  trim_row npts si (map f row) = map f (trim_row npts si row).
Proof.
  intros Hf. unfold trim_row, slice. destruct (si <? 0)%Z.
  - now rewrite skipn_map, firstn_map.
  - rewrite map_app, firstn_map. f_equal. change (@n0 R _) with 0. now rewrite map_repeat', Hf.
Qed.
Lemma trim_to_length_map (f : R -> R) npts sds ss trim start (vals : list (list R)) : f 0 = 0 ->
  trim_to_length npts sds ss trim start (map (map f) vals) = map (map f) (trim_to_length npts sds ss trim start vals).
Proof.
  intros Hf. unfold trim_to_length. destruct start; [|destruct trim; [|reflexivity]];
    apply map2_map_r; intros; now apply trim_row_map.
Qed.
Definition allzero (l : list R) : Prop := forall x, In x l -> x = 0.
Lemma In_skipn {A} (l : list A) n x : In x (skipn n l) -> In x l.
Proof. intros Hx. rewrite <- (firstn_skipn n l). apply in_or_app. now right. Qed.
Lemma trim_row_allzero npts si (row : list R) : allzero row -> allzero (trim_row npts si row).
Proof.
  intros Hz x Hx. unfold trim_row, slice in Hx. destruct (si <? 0)%Z.
  - apply Hz. eapply In_skipn, In_firstn; eauto.
  - apply in_app_or in Hx as [Hx|Hx]; [now apply repeat_spec in Hx | apply Hz; eapply In_firstn; eauto].
Qed.
Lemma trim_to_length_allzero npts sds ss trim start (vals : list (list R)) :
  (forall row, In row vals -> allzero row) ->
  forall row, In row (trim_to_length npts sds ss trim start vals) -> allzero row.
Proof.
  intros Hz row Hrow. unfold trim_to_length in Hrow.
  destruct start; [|destruct trim; [|now apply Hz]];
    apply in_map2 in Hrow as (a & b & _ & Hb & ->); apply trim_row_allzero, Hz, Hb.
Qed.
Lemma allzero_scale0 (l : list R) : allzero l -> l = map (Rmult 0) l.
Proof. intros Hz. rewrite <- (map_id l) at 1. apply map_ext_in. intros x Hx. rewrite (Hz x Hx). lra. Qed.
Lemma scale0_allzero (l : list R) : allzero (map (Rmult 0) l).
Proof. intros x (y & <- & _)%in_map_iff. lra. Qed.
Lemma cum_abs_row_scale k (e : list R) : cum_abs_row (map (Rmult k) e) = map (Rmult (Rabs k)) (cum_abs_row e).
Proof.
  unfold cum_abs_row. change (@n0 R _) with 0.
  replace (0 :: map (Rmult k) e) with (map (Rmult k) (0 :: e)) by (cbn; f_equal; lra).
  now rewrite diff_scale, vabs_scale, cumsum_scale.
Qed.
Lemma cum_abs_row_allzero (e : list R) : allzero e -> allzero (cum_abs_row e).
Proof.
  intros Hz. rewrite (allzero_scale0 e Hz), cum_abs_row_scale, Rabs_R0. apply scale0_allzero.
Qed.

(** ** zero travel time at a nodal surface (equal reductions): identically zero *)
Lemma ntrunc_0 : @ntrunc R _ 0 = 0%Z.
Proof. destruct (Rtrunc_nonneg 0) as [-> _]; [lra|]. apply (Rfloor_IZR 0). Qed.
Lemma max_shift_zero dt (tts : list R) : (forall t, In t tts -> t = 0) -> max_shift dt tts = 0%nat.
Proof.
  intros Hz. unfold max_shift.
  assert (E : amax (shifts_of dt tts) = 0).
  { destruct tts as [|t r]; [reflexivity|].
    assert (Hin : In (amax (shifts_of dt (t :: r))) (shifts_of dt (t :: r))) by (apply amax_in; discriminate).
    unfold shifts_of in Hin at 2. apply in_map_iff in Hin as (y & <- & Hy). rewrite (Hz y Hy). numR. unfold Rdiv. ring. }
  rewrite E. now rewrite ntrunc_0.
Qed.
Lemma energy_rows_zero_tt dt (vals tts : list R) ur dr :
  (forall t, In t tts -> t = 0) -> (forall j, red_at ur j = red_at dr j) ->
  forall row, In row (energy_rows true dt vals tts ur dr) -> allzero row.
Proof.
  intros Hz Hred row Hrow. apply In_nth with (d := []) in Hrow as (j & Hj & <-).
  rewrite energy_rows_length in Hj. rewrite energy_rows_nth by auto.
  rewrite (Hz (nth j tts 0)) by now apply nth_In. rewrite max_shift_zero by auto.
  set (a := accf _ _ _ _ _).
  assert (E : map a (seq 0 (length vals + 0)) = map (Rmult 0) (map a (seq 0 (length vals + 0)))).
  { rewrite map_map. apply map_ext. intros i. unfold a, accf. rewrite Hred.
    replace (INR i - 2 * 0 / dt) with (INR i) by (unfold Rdiv; ring). rewrite interp_at_sample. ring. }
  rewrite E, cumtrapz_scale, kin_energy_scale. replace (0 * Rabs 0) with 0 by ring. apply scale0_allzero.
Qed.
Lemma C19_zero_tt_nodal trim start dt (vals tts : list R) ur dr stt :
  (forall t, In t tts -> t = 0) -> (forall j, red_at ur j = red_at dr j) ->
  (forall row, In row (surface_energy true trim start dt vals tts ur dr stt) -> allzero row) /\
  (forall row, In row (cum_abs_surface_energy true trim start dt vals tts ur dr stt) -> allzero row).
Proof.
  intros Hz Hred.
  assert (A : forall row, In row (surface_energy true trim start dt vals tts ur dr stt) -> allzero row).
  { unfold surface_energy. apply trim_to_length_allzero. now apply energy_rows_zero_tt. }
  split; [exact A|]. unfold cum_abs_surface_energy. intros row (e & <- & He)%in_map_iff.
  apply cum_abs_row_allzero, A, He.
Qed.

(** ** amplitude scaling: alpha|alpha| for the energy, alpha^2 for its cumulative absolute change, alpha for the motions *)
Lemma acc_rows_scale al nodal dt (vals tts : list R) ur dr :
  acc_rows nodal dt (map (Rmult al) vals) tts ur dr = map (map (Rmult al)) (acc_rows nodal dt vals tts ur dr).
Proof.
  unfold acc_rows. rewrite map_map_idx_from. apply map_idx_from_ext. intros j s.
  rewrite !acc_row_tab, map_length, map_map. apply map_ext. intros i. unfold accf.
  rewrite interp_scale, nth_map_scale. destruct nodal; ring.
Qed.
Lemma energy_rows_scale al nodal dt (vals tts : list R) ur dr :
  energy_rows nodal dt (map (Rmult al) vals) tts ur dr
  = map (map (Rmult (al * Rabs al))) (energy_rows nodal dt vals tts ur dr).
Proof.
  unfold energy_rows. rewrite acc_rows_scale, !map_map. apply map_ext. intros a.
  now rewrite cumtrapz_scale, kin_energy_scale.
Qed.
Lemma C19_alpha_sq al nodal trim start dt (vals tts : list R) ur dr stt :
  surface_energy nodal trim start dt (map (Rmult al) vals) tts ur dr stt
    = map (map (Rmult (al * Rabs al))) (surface_energy nodal trim start dt vals tts ur dr stt) /\
  cum_abs_surface_energy nodal trim start dt (map (Rmult al) vals) tts ur dr stt
    = map (map (Rmult (al * al))) (cum_abs_surface_energy nodal trim start dt vals tts ur dr stt) /\
  time_shift_motions nodal trim start dt (map (Rmult al) vals) tts ur dr stt
    = map (map (Rmult al)) (time_shift_motions nodal trim start dt vals tts ur dr stt).
Proof.
  assert (A : surface_energy nodal trim start dt (map (Rmult al) vals) tts ur dr stt
    = map (map (Rmult (al * Rabs al))) (surface_energy nodal trim start dt vals tts ur dr stt)).
  { unfold surface_energy. rewrite energy_rows_scale, map_length. apply trim_to_length_map. lra. }
  split; [exact A|]. split.
  - unfold cum_abs_surface_energy. rewrite A, !map_map. apply map_ext. intros e.
    rewrite cum_abs_row_scale. f_equal. f_equal.
    rewrite Rabs_mult, Rabs_Rabsolu. unfold Rabs; destruct (Rcase_abs al); lra.
  - unfold time_shift_motions. rewrite acc_rows_scale, map_length. apply trim_to_length_map. lra.
Qed.

(** ** integer max / min of a list *)
Lemma fold_zmax_ge l x : (x <= fold_left Z.max l x)%Z /\ (forall y, In y l -> (y <= fold_left Z.max l x)%Z).
Proof.
  revert x; induction l as [|a r IH]; intros x; cbn; [split; [lia|tauto]|].
  destruct (IH (Z.max x a)) as [H1 H2]. split; [lia|]. intros y [<-|Hy]; [lia|auto].
Qed.
Lemma fold_zmax_in l x : fold_left Z.max l x = x \/ In (fold_left Z.max l x) l.
Proof.
  revert x; induction l as [|a r IH]; intros x; cbn; [auto|].
  destruct (IH (Z.max x a)) as [E|E]; [|auto]. rewrite E. destruct (Z.max_spec x a) as [[_ ->]|[_ ->]]; auto.
Qed.
Lemma fold_zmin_le l x : (fold_left Z.min l x <= x)%Z /\ (forall y, In y l -> (fold_left Z.min l x <= y)%Z).
Proof.
  revert x; induction l as [|a r IH]; intros x; cbn; [split; [lia|tauto]|].
  destruct (IH (Z.min x a)) as [H1 H2]. split; [lia|]. intros y [<-|Hy]; [lia|auto].
Qed.
Lemma fold_zmin_in l x : fold_left Z.min l x = x \/ In (fold_left Z.min l x) l.
Proof.
  revert x; induction l as [|a r IH]; intros x; cbn; [auto|].
  destruct (IH (Z.min x a)) as [E|E]; [|auto]. rewrite E. destruct (Z.min_spec x a) as [[_ ->]|[_ ->]]; auto.
Qed.
Lemma zmax_ge l y : In y l -> (y <= zmax l)%Z.
Proof. destruct l as [|x r]; [intros []|]. cbn [zmax]. destruct (fold_zmax_ge r x). intros [<-|Hy]; auto. Qed.
Lemma zmin_le l y : In y l -> (zmin l <= y)%Z.
Proof. destruct l as [|x r]; [intros []|]. cbn [zmin]. destruct (fold_zmin_le r x). intros [<-|Hy]; auto. Qed.
Lemma zmax_in l : l <> [] -> In (zmax l) l.
Proof. destruct l as [|x r]; [congruence|]. intros _. cbn [zmax]. destruct (fold_zmax_in r x) as [->|E]; [now left|now right]. Qed.
Lemma zmin_in l : l <> [] -> In (zmin l) l.
Proof. destruct l as [|x r]; [congruence|]. intros _. cbn [zmin]. destruct (fold_zmin_in r x) as [->|E]; [now left|now right]. Qed.
Lemma zmin_lb l c : (c <= 0)%Z -> (forall y, In y l -> (c <= y)%Z) -> (c <= zmin l)%Z.
Proof. intros Hc Hl. destruct l as [|x r]; [exact Hc|]. apply Hl, zmin_in. discriminate. Qed.

(** ** put_array_in_2d_array *)
Definition vatR (vals : list R) (z : Z) : R := if (z <? 0)%Z then 0 else nth (Z.to_nat z) vals 0.
Lemma nth_skipn' {A} n (l : list A) c d : nth c (skipn n l) d = nth (n + c) l d.
Proof. revert l; induction n; intros [|x l]; cbn; auto. now destruct c. Qed.
Lemma nth_firstn' {A} n (l : list A) c d : (c < n)%nat -> nth c (firstn n l) d = nth c l d.
Proof. revert l c; induction n; intros [|x l] c Hc; cbn; auto; try lia. destruct c; auto. apply IHn. lia. Qed.
Lemma put_row_length width off (vals : list R) : (off + length vals <= width)%nat -> length (put_row width off vals) = width.
Proof. intros Hw. unfold put_row. rewrite firstn_length, !app_length, !repeat_length. lia. Qed.
Lemma put_row_nth width off (vals : list R) c : (off + length vals <= width)%nat -> (c < width)%nat ->
  nth c (put_row width off vals) 0 = if (c <? off)%nat then 0 else nth (c - off) vals 0.
Proof.
  intros Hw Hc. unfold put_row. rewrite nth_firstn' by auto. change (@n0 R _) with 0.
  destruct (Nat.ltb_spec c off) as [H|H].
  - rewrite app_nth1 by now rewrite repeat_length. apply nth_repeat0.
  - rewrite app_nth2 by now rewrite repeat_length. rewrite repeat_length.
    destruct (Nat.lt_ge_cases (c - off) (length vals)) as [H2|H2].
    + now rewrite app_nth1.
    + rewrite app_nth2 by auto. rewrite nth_repeat0. now rewrite nth_overflow.
Qed.
Lemma put_row_vat width off (vals : list R) c (z : Z) : (off + length vals <= width)%nat -> (c < width)%nat ->
  z = (Z.of_nat c - Z.of_nat off)%Z -> nth c (put_row width off vals) 0 = vatR vals z.
Proof.
  intros Hw Hc ->. rewrite put_row_nth by auto. unfold vatR.
  destruct (Nat.ltb_spec c off), (Z.ltb_spec (Z.of_nat c - Z.of_nat off) 0); try lia; auto. f_equal. lia.
Qed.
Lemma C19_put_exact (vals : list R) shifts clip j : (j < length shifts)%nat ->
  let lo := if clip_start clip then 0%Z else Z.min (zmin shifts) 0 in
  let hi := if clip_end clip then Z.of_nat (length vals) else (Z.of_nat (length vals) + Z.max (zmax shifts) 0)%Z in
  let row := nth j (put_in_2d vals shifts clip) [] in
  length (put_in_2d vals shifts clip) = length shifts /\
  Z.of_nat (length row) = (hi - lo)%Z /\
  forall c, (c < length row)%nat -> nth c row 0 = vatR vals (Z.of_nat c + lo - nth j shifts 0%Z).
Proof.
  intros Hj lo hi row.
  assert (Hs1 : (nth j shifts 0 <= zmax shifts)%Z) by (apply zmax_ge, nth_In, Hj).
  assert (Hs2 : (zmin shifts <= nth j shifts 0)%Z) by (apply zmin_le, nth_In, Hj).
  set (s := nth j shifts 0%Z) in *.
  unfold put_in_2d in row. unfold end_extras, start_extras in row.
  set (ee := Z.to_nat (Z.max (zmax shifts) 0)) in *. set (se := Z.to_nat (- Z.min (zmin shifts) 0)) in *.
  set (width := (length vals + se + ee)%nat) in *.
  set (off := Z.to_nat (Z.of_nat se + s)).
  assert (Hoff : (off + length vals <= width)%nat) by (unfold off, width, ee, se; lia).
  assert (Hoffz : Z.of_nat off = (Z.of_nat se + s)%Z) by (unfold off, se; lia).
  split.
  { unfold put_in_2d. destruct (clip_end clip && _); destruct (clip_start clip); now rewrite ?map_length. }
  set (r0 := put_row width off vals).
  assert (Hr0 : length r0 = width) by now apply put_row_length.
  assert (Hrow : row = (if clip_start clip then skipn se else fun l => l)
                       ((if clip_end clip && (0 <? ee)%nat then firstn (width - ee) else fun l => l) r0)).
  { unfold row, r0, off, s. destruct (clip_end clip && (0 <? ee)%nat); destruct (clip_start clip);
      repeat (rewrite nth_map_in with (d' := []) by now rewrite ?map_length);
      rewrite nth_map_in with (d' := 0%Z) by auto; reflexivity. }
  rewrite Hrow. unfold lo, hi.
  destruct (clip_end clip) eqn:Ce; cbn [andb].
  - destruct (Nat.ltb_spec 0 ee) as [He|He].
    + destruct (clip_start clip) eqn:Cs.
      * split; [rewrite skipn_length, firstn_length, Hr0; unfold width, ee, se in *; lia|].
        intros c Hc. rewrite skipn_length, firstn_length, Hr0 in Hc.
        rewrite nth_skipn', nth_firstn' by lia. apply put_row_vat; auto; unfold width, se in *; lia.
      * split; [rewrite firstn_length, Hr0; unfold width, ee, se in *; lia|].
        intros c Hc. rewrite firstn_length, Hr0 in Hc.
        rewrite nth_firstn' by lia. apply put_row_vat; auto; unfold width, se in *; lia.
    + destruct (clip_start clip) eqn:Cs.
      * split; [rewrite skipn_length, Hr0; unfold width, ee, se in *; lia|].
        intros c Hc. rewrite skipn_length, Hr0 in Hc.
        rewrite nth_skipn'. apply put_row_vat; auto; unfold width, se in *; lia.
      * split; [rewrite Hr0; unfold width, ee, se in *; lia|].
        intros c Hc. rewrite Hr0 in Hc. apply put_row_vat; auto; unfold width, se in *; lia.
  - destruct (clip_start clip) eqn:Cs.
    + split; [rewrite skipn_length, Hr0; unfold width, ee, se in *; lia|].
      intros c Hc. rewrite skipn_length, Hr0 in Hc.
      rewrite nth_skipn'. apply put_row_vat; auto; unfold width, se in *; lia.
    + split; [rewrite Hr0; unfold width, ee, se in *; lia|].
      intros c Hc. rewrite Hr0 in Hc. apply put_row_vat; auto; unfold width, se in *; lia.
Qed.

(** ** join_values_w_shifts (every shift >= 0: otherwise the widths of a0 and a1 differ and numpy raises) *)
Lemma pad_vat (vals : list R) m c : nth c (vals ++ repeat 0 m) 0 = vatR vals (Z.of_nat c).
Proof.
  unfold vatR. destruct (Z.ltb_spec (Z.of_nat c) 0); [lia|]. rewrite Nat2Z.id.
  destruct (Nat.lt_ge_cases c (length vals)) as [H1|H1]; [now rewrite app_nth1|].
  rewrite app_nth2 by auto. rewrite nth_repeat0. now rewrite nth_overflow.
Qed.
Lemma C19_join add (vals : list R) shifts j : (j < length shifts)%nat -> (forall s, In s shifts -> (0 <= s)%Z) ->
  let row := nth j (join_w_shifts add vals shifts) [] in
  length (join_w_shifts add vals shifts) = length shifts /\
  length row = (length vals + Z.to_nat (zmax shifts))%nat /\
  forall c, (c < length row)%nat ->
    nth c row 0 = (if add then 1 else -1) * vatR vals (Z.of_nat c - nth j shifts 0%Z) + vatR vals (Z.of_nat c).
Proof.
  intros Hj Hpos row.
  destruct (C19_put_exact vals shifts 0 j Hj) as (L1 & L2 & L3). cbn [clip_start clip_end Nat.eqb orb] in L2, L3.
  assert (Hne : shifts <> []) by (destruct shifts; [cbn in Hj; lia|discriminate]).
  assert (Hmin : (0 <= zmin shifts)%Z) by (apply zmin_lb; [lia|auto]).
  assert (Hmax : (0 <= zmax shifts)%Z) by (apply Hpos, zmax_in, Hne).
  rewrite Z.min_r in L2, L3 by lia. rewrite Z.max_l in L2 by lia.
  set (a1 := nth j (put_in_2d vals shifts 0) []) in *.
  set (a0 := vals ++ repeat 0 (Z.to_nat (zmax shifts))).
  assert (La0 : length a0 = (length vals + Z.to_nat (zmax shifts))%nat) by (unfold a0; now rewrite app_length, repeat_length).
  assert (La1 : length a1 = (length vals + Z.to_nat (zmax shifts))%nat) by lia.
  unfold join_w_shifts in *. change (@n0 R _) with 0 in *. fold a0 in row |- *.
  split; [now rewrite map_length|].
  assert (Hrow : row = if add then map2 Rplus a1 a0 else map2 Rplus (vopp a1) a0).
  { unfold row. rewrite nth_map_in with (d' := []) by now rewrite L1. reflexivity. }
  rewrite Hrow. destruct add.
  - split; [rewrite map2_length; lia|]. intros c Hc. rewrite map2_length in Hc.
    rewrite map2_nth with (da := 0) (db := 0) by lia. rewrite L3 by lia. unfold a0. rewrite pad_vat.
    replace (Z.of_nat c + 0 - nth j shifts 0)%Z with (Z.of_nat c - nth j shifts 0)%Z by lia. lra.
  - unfold vopp. split; [rewrite map2_length, map_length; lia|]. intros c Hc. rewrite map2_length, map_length in Hc.
    rewrite map2_nth with (da := 0) (db := 0) by (rewrite ?map_length; lia).
    rewrite nth_map0 by (numR; lra). rewrite L3 by lia. unfold a0. rewrite pad_vat.
    replace (Z.of_nat c + 0 - nth j shifts 0)%Z with (Z.of_nat c - nth j shifts 0)%Z by lia. numR. lra.
Qed.

(** ** output lengths of trim_to_length *)
Lemma trim_row_length npts si (row : list R) :
  ((si < 0)%Z -> (npts + Z.to_nat (- si) <= length row)%nat) ->
  ((0 <= si)%Z -> (npts - Z.to_nat si <= length row)%nat) ->
  length (trim_row npts si row) = npts.
Proof.
  intros H1 H2. unfold trim_row, slice. destruct (Z.ltb_spec si 0) as [Hs|Hs].
  - rewrite firstn_length, skipn_length. specialize (H1 Hs). lia.
  - rewrite app_length, repeat_length, firstn_length. specialize (H2 Hs). lia.
Qed.
(** length of every output row, per option combination *)
Definition out_len (npts M : nat) (sds : list Z) (ss : Z) (trim start : bool) : nat :=
  if trim then npts
  else if start then (npts + Z.to_nat (Z.max (zmax (map (fun d => ss - d)%Z sds)) 0))%nat
  else (npts + M)%nat.
Lemma trim_to_length_lengths npts M sds ss trim start (rows : list (list R)) :
  length rows = length sds -> (forall r, In r rows -> length r = (npts + M)%nat) ->
  (forall d, In d sds -> (0 <= d <= Z.of_nat M)%Z) -> (0 <= ss)%Z ->
  length (trim_to_length npts sds ss trim start rows) = length sds /\
  forall r, In r (trim_to_length npts sds ss trim start rows) -> length r = out_len npts M sds ss trim start.
Proof.
  intros Hlen Hrows Hsds Hss. unfold trim_to_length, out_len. destruct start.
  - split; [rewrite map2_length, map_length; lia|].
    intros r (si & row & Hsi & Hrow & ->)%in_map2. apply in_map_iff in Hsi as (d & <- & Hd).
    pose proof (Hsds d Hd) as Hd'. pose proof (Hrows row Hrow) as Hr.
    unfold trim_npts. destruct trim; cbn [andb negb].
    + apply trim_row_length; lia.
    + assert (Hmin : (0 <= zmin (map (Z.mul 2) sds))%Z).
      { apply zmin_lb; [lia|]. intros y (d2 & <- & Hd2)%in_map_iff. specialize (Hsds d2 Hd2). lia. }
      rewrite Z.min_r by lia. rewrite Z.sub_0_r.
      set (sis := map (fun d => (ss - d)%Z) sds) in *.
      assert (Hmx : (zmax sis <= 0)%Z \/ exists d', In d' sds /\ zmax sis = (ss - d')%Z).
      { right. assert (Hin : In (zmax sis) sis) by (apply zmax_in; unfold sis; destruct sds; [destruct Hd|discriminate]).
        apply in_map_iff in Hin as (d' & E & Hd2). eauto. }
      assert (Hge : (ss - d <= zmax sis)%Z) by (apply zmax_ge; unfold sis; apply in_map; auto).
      destruct Hmx as [Hmx|(d' & Hd2 & Hmx)].
      * apply trim_row_length; lia.
      * pose proof (Hsds d' Hd2). apply trim_row_length; lia.
  - destruct trim.
    + split; [rewrite map2_length, map_length; lia|].
      intros r (si & row & Hsi & Hrow & ->)%in_map2. apply in_map_iff in Hsi as (d & <- & Hd).
      pose proof (Hrows row Hrow) as Hr. apply trim_row_length; lia.
    + split; auto.
Qed.

Lemma div_nonneg t dt : 0 < dt -> 0 <= t -> 0 <= t / dt /\ t / dt <= 2 * t / dt.
Proof. intros Hdt Ht. pose proof (Rinv_0_lt_compat dt Hdt). unfold Rdiv. split; nra. Qed.
Lemma depth_shifts_bounds dt (tts : list R) : 0 < dt -> (forall t, In t tts -> 0 <= t) ->
  forall d, In d (depth_shifts dt tts) -> (0 <= d <= Z.of_nat (max_shift dt tts))%Z.
Proof.
  intros Hdt Htt d (t & <- & Ht)%in_map_iff. numR.
  destruct (div_nonneg t dt Hdt (Htt t Ht)) as [D1 D2].
  destruct (Rtrunc_nonneg (t / dt) D1) as [-> F0]. split; [exact F0|].
  unfold max_shift.
  assert (Hin : In (2 * t / dt) (shifts_of dt tts)).
  { unfold shifts_of. apply in_map_iff. exists t. split; auto. }
  pose proof (amax_ge _ _ Hin) as Hmax.
  destruct (Rtrunc_nonneg (amax (shifts_of dt tts))) as [-> F1]; [lra|].
  rewrite Z2Nat.id by auto. apply Rfloor_mono. lra.
Qed.
Lemma start_shift_nonneg dt stt : 0 < dt -> 0 <= stt -> (0 <= start_shift dt stt)%Z.
Proof. intros Hdt Hs. unfold start_shift. numR. destruct (div_nonneg stt dt Hdt Hs) as [D _]. now destruct (Rtrunc_nonneg _ D) as [-> ?]. Qed.
Lemma acc_rows_row_length nodal dt (vals tts : list R) ur dr r :
  In r (acc_rows nodal dt vals tts ur dr) -> length r = (length vals + max_shift dt tts)%nat.
Proof.
  intros Hr. apply In_nth with (d := []) in Hr as (j & Hj & <-). rewrite acc_rows_length in Hj.
  rewrite acc_rows_nth by auto. now rewrite map_length, seq_length.
Qed.
Lemma energy_rows_row_length nodal dt (vals tts : list R) ur dr r :
  In r (energy_rows nodal dt vals tts ur dr) -> length r = (length vals + max_shift dt tts)%nat.
Proof.
  unfold energy_rows. intros (a & <- & Ha)%in_map_iff.
  rewrite kin_energy_length, cumtrapz_length. eapply acc_rows_row_length; eauto.
Qed.
Lemma C19_lengths nodal trim start dt (vals tts : list R) ur dr stt :
  0 < dt -> (forall t, In t tts -> 0 <= t) -> 0 <= stt ->
  (trim = true -> start = true ->
     forall d, In d (depth_shifts dt tts) -> (start_shift dt stt - d <= Z.of_nat (length vals))%Z) ->
  let L := out_len (length vals) (max_shift dt tts) (depth_shifts dt tts) (start_shift dt stt) trim start in
  (length (surface_energy nodal trim start dt vals tts ur dr stt) = length tts /\
   forall r, In r (surface_energy nodal trim start dt vals tts ur dr stt) -> length r = L) /\
  (length (cum_abs_surface_energy nodal trim start dt vals tts ur dr stt) = length tts /\
   forall r, In r (cum_abs_surface_energy nodal trim start dt vals tts ur dr stt) -> length r = L) /\
  (length (time_shift_motions nodal trim start dt vals tts ur dr stt) = length tts /\
   forall r, In r (time_shift_motions nodal trim start dt vals tts ur dr stt) -> length r = L).
Proof.
  intros Hdt Htt Hstt _ L.
  assert (Hds : length (depth_shifts dt tts) = length tts) by apply map_length.
  pose proof (depth_shifts_bounds dt tts Hdt Htt) as Hb. pose proof (start_shift_nonneg dt stt Hdt Hstt) as Hss.
  assert (A : length (surface_energy nodal trim start dt vals tts ur dr stt) = length tts /\
   forall r, In r (surface_energy nodal trim start dt vals tts ur dr stt) -> length r = L).
  { unfold surface_energy. rewrite <- Hds.
    apply trim_to_length_lengths; auto.
    - now rewrite energy_rows_length.
    - apply energy_rows_row_length. }
  split; [exact A|]. split.
  - unfold cum_abs_surface_energy. split; [rewrite map_length; apply A|].
    intros r (e & <- & He)%in_map_iff. rewrite cum_abs_row_length. now apply A.
  - unfold time_shift_motions. rewrite <- Hds. apply trim_to_length_lengths; auto.
    + now rewrite acc_rows_length.
    + apply acc_rows_row_length.
Qed.

Lemma trim_to_length_length npts sds ss trim start (rows : list (list R)) : length rows = length sds ->
  length (trim_to_length npts sds ss trim start rows) = length sds.
Proof.
  intros E. unfold trim_to_length. destruct start; [|destruct trim]; rewrite ?map2_length, ?map_length; lia.
Qed.
Lemma surface_energy_length nodal trim start dt (vals tts : list R) ur dr stt :
  length (surface_energy nodal trim start dt vals tts ur dr stt) = length tts.
Proof.
  unfold surface_energy. rewrite trim_to_length_length; unfold depth_shifts; rewrite map_length; auto.
  apply energy_rows_length.
Qed.

(** ** each row of a batch against the single-travel-time result *)
Lemma cumtrapz_app_prefix dx (l m : list R) : exists tl, cumtrapz dx (l ++ m) = cumtrapz dx l ++ tl.
Proof.
  destruct l as [|x r]; [exists (cumtrapz dx m); reflexivity|].
  cbn [app cumtrapz]. rewrite cumtrapz_from_app. eexists. cbn [app]. reflexivity.
Qed.
Lemma max_shift_single dt t : 0 < dt -> 0 <= t -> Z.of_nat (max_shift dt [t]) = nfloor (2 * t / dt).
Proof.
  intros Hdt Ht. unfold max_shift, shifts_of. cbn [map amax fold_left]. numR.
  destruct (div_nonneg t dt Hdt Ht). destruct (Rtrunc_nonneg (2 * t / dt)) as [-> F]; [lra|]. now rewrite Z2Nat.id.
Qed.
Lemma max_shift_ge_single dt (tts : list R) j : 0 < dt -> (forall t, In t tts -> 0 <= t) -> (j < length tts)%nat ->
  (max_shift dt [nth j tts 0%R] <= max_shift dt tts)%nat.
Proof.
  intros Hdt Htt Hj. assert (Ht : 0 <= nth j tts 0) by (apply Htt, nth_In, Hj).
  apply Nat2Z.inj_le. rewrite max_shift_single by auto.
  destruct (div_nonneg _ dt Hdt Ht).
  assert (Hin : In (2 * nth j tts 0 / dt) (shifts_of dt tts)).
  { unfold shifts_of. apply in_map_iff. exists (nth j tts 0). split; [reflexivity|]. now apply nth_In. }
  pose proof (amax_ge _ _ Hin) as Hmax. unfold max_shift.
  destruct (Rtrunc_nonneg (amax (shifts_of dt tts))) as [-> F1]; [lra|].
  rewrite Z2Nat.id by auto. apply Rfloor_mono. lra.
Qed.
(** beyond the single result's length both waves are zero *)
Lemma accf_tail_zero nodal (vals : list R) u d dt t i : 0 < dt -> 0 <= t ->
  (length vals + max_shift dt [t] <= i)%nat -> accf nodal vals u d (2 * t / dt) i = 0.
Proof.
  intros Hdt Ht Hi. unfold accf. rewrite nth_overflow by lia.
  rewrite interp_right; [destruct nodal; ring|].
  pose proof (max_shift_single dt t Hdt Ht) as E. destruct (Rfloor_spec (2 * t / dt)) as [_ F]. rewrite <- E in F.
  rewrite <- INR_IZR_INZ in F. apply le_INR in Hi. rewrite plus_INR in Hi. lra.
Qed.
Lemma seq_split a b : (a <= b)%nat -> seq 0 b = seq 0 a ++ seq a (b - a).
Proof. intros H. replace b with (a + (b - a))%nat at 1 by lia. apply seq_app. Qed.
(** ** the cumulative absolute change of a row: step relation, prefixes, constant tails *)
Lemma diff_cons2 (x y : R) r : diff (x :: y :: r) = (y - x) :: diff (y :: r).
Proof. reflexivity. Qed.
Lemma diff_length_cons (x : R) r : length (diff (x :: r)) = length r.
Proof. revert x; induction r as [|y r IH]; intros x; [reflexivity|]. rewrite diff_cons2. cbn [length]. f_equal. apply IH. Qed.
Lemma diff_nth (l : list R) i : (S i < length l)%nat -> nth i (diff l) 0 = nth (S i) l 0 - nth i l 0.
Proof.
  revert i; induction l as [|x r IH]; intros i Hi; cbn [length] in Hi; [lia|].
  destruct r as [|y r]; [cbn in Hi; lia|]. rewrite diff_cons2. destruct i as [|i]; [reflexivity|].
  change (nth (S i) ((y - x) :: diff (y :: r)) 0) with (nth i (diff (y :: r)) 0).
  change (nth (S (S i)) (x :: y :: r) 0) with (nth (S i) (y :: r) 0).
  change (nth (S i) (x :: y :: r) 0) with (nth i (y :: r) 0).
  apply IH. cbn [length] in *. lia.
Qed.
Lemma diff_app_prefix (l m : list R) : exists tl, diff (l ++ m) = diff l ++ tl.
Proof.
  induction l as [|x r IH]; [eexists; reflexivity|].
  destruct r as [|y r]; [eexists; reflexivity|].
  destruct IH as (tl & E). exists tl. change ((x :: y :: r) ++ m) with (x :: y :: (r ++ m)).
  rewrite !diff_cons2. change (y :: r ++ m) with ((y :: r) ++ m). now rewrite E.
Qed.
Lemma cum_abs_row_nth_S (e : list R) i : (S i < length e)%nat ->
  nth (S i) (cum_abs_row e) 0 = nth i (cum_abs_row e) 0 + Rabs (nth (S i) e 0 - nth i e 0).
Proof.
  intros Hi. unfold cum_abs_row. change (@n0 R _) with 0.
  assert (L : length (vabs (diff (0 :: e))) = length e) by (unfold vabs; rewrite map_length; apply diff_length_cons).
  rewrite cumsum_nth_S by lia. f_equal.
  unfold vabs. rewrite nth_map0 by (numR; apply Rabs_R0). numR. f_equal.
  rewrite diff_nth by (cbn [length]; lia). reflexivity.
Qed.
Lemma cum_abs_row_app_prefix (l m : list R) : exists tl, cum_abs_row (l ++ m) = cum_abs_row l ++ tl.
Proof.
  unfold cum_abs_row. change (@n0 R _) with 0. destruct (diff_app_prefix (0 :: l) m) as (tl & E).
  change (0 :: l ++ m) with ((0 :: l) ++ m). rewrite E. unfold vabs. rewrite map_app. unfold cumsum.
  rewrite cumsum_from_app. eexists. reflexivity.
Qed.
Lemma cum_abs_row_const_tail (e : list R) L i : (forall k, (L <= k < length e)%nat -> nth k e 0 = nth L e 0) ->
  (L <= i < length e)%nat -> nth i (cum_abs_row e) 0 = nth L (cum_abs_row e) 0.
Proof.
  intros He Hi.
  assert (Hk : forall k, (L + k < length e)%nat -> nth (L + k) (cum_abs_row e) 0 = nth L (cum_abs_row e) 0).
  { induction k as [|k IH]; intros Hk; [now rewrite Nat.add_0_r|]. replace (L + S k)%nat with (S (L + k)) by lia.
    rewrite cum_abs_row_nth_S by lia. rewrite IH by lia. rewrite (He (S (L + k))), (He (L + k)%nat) by lia.
    replace (nth L e 0 - nth L e 0) with 0 by lra. rewrite Rabs_R0. lra. }
  replace i with (L + (i - L))%nat by lia. apply Hk. lia.
Qed.
Section RowSingle.
Variables (nodal : bool) (dt : R) (vals tts : list R) (ur dr : red R) (j : nat).
Hypothesis Hdt : 0 < dt.
Hypothesis Htt : forall t, In t tts -> 0 <= t.
Hypothesis Hj : (j < length tts)%nat.
Let t := nth j tts 0.
Let ur1 := RScalar (red_at ur j).
Let dr1 := RScalar (red_at dr j).
Let Ls := (length vals + max_shift dt [t])%nat.
Let Lb := (length vals + max_shift dt tts)%nat.

Lemma acc_rows_single_prefix : exists tl,
  nth j (acc_rows nodal dt vals tts ur dr) [] = nth 0 (acc_rows nodal dt vals [t] ur1 dr1) [] ++ tl.
Proof.
  rewrite acc_rows_nth by auto. rewrite acc_rows_nth by (cbn; lia). cbn [nth red_at ur1 dr1]. fold t.
  pose proof (max_shift_ge_single dt tts j Hdt Htt Hj) as Hge. fold t in Hge.
  rewrite (seq_split (length vals + max_shift dt [t]) (length vals + max_shift dt tts)) by lia.
  rewrite map_app. eexists. reflexivity.
Qed.
Lemma energy_rows_single_prefix : exists tl,
  nth j (energy_rows nodal dt vals tts ur dr) [] = nth 0 (energy_rows nodal dt vals [t] ur1 dr1) [] ++ tl.
Proof.
  destruct acc_rows_single_prefix as (tl & E).
  unfold energy_rows. rewrite nth_map_in with (d' := []) by now rewrite acc_rows_length.
  rewrite nth_map_in with (d' := []) by (rewrite acc_rows_length; cbn; lia).
  rewrite E. destruct (cumtrapz_app_prefix dt (nth 0 (acc_rows nodal dt vals [t] ur1 dr1) []) tl) as (tl2 & ->).
  unfold kin_energy. rewrite map_app. eexists. reflexivity.
Qed.
(** untrimmed, start = False: the single result is a prefix of the batch row, which is constant from the first index
    after it *)
Lemma energy_row_const_tail i : (Ls <= i < Lb)%nat ->
  nth i (nth j (energy_rows nodal dt vals tts ur dr) []) 0 = nth Ls (nth j (energy_rows nodal dt vals tts ur dr) []) 0.
Proof.
  intros Hi. rewrite energy_rows_nth by auto. fold t. fold Lb. rewrite !kin_energy_nth.
  set (a := accf _ _ _ _ _). set (v := cumtrapz dt (map a (seq 0 Lb))).
  assert (Hv : forall k, (Ls + k < Lb)%nat -> nth (Ls + k) v 0 = nth Ls v 0).
  { induction k as [|k IH]; intros Hk; [now rewrite Nat.add_0_r|].
    rewrite <- IH by lia. replace (Ls + S k)%nat with (S (Ls + k)) by lia.
    pose proof (cumtrapz_nth_S dt (map a (seq 0 Lb)) (Ls + k)) as E. fold v in E.
    rewrite map_length, seq_length in E. specialize (E ltac:(lia)). rewrite !nth_tab in E by lia.
    unfold a in E. rewrite !accf_tail_zero in E; auto; try (fold Ls; lia); try (apply Htt, nth_In, Hj). lra. }
  replace i with (Ls + (i - Ls))%nat by lia. rewrite Hv by lia. reflexivity.
Qed.

(** trimmed: the batch row equals the single-travel-time result *)
Lemma trim_row_app npts si (l tl : list R) :
  ((si < 0)%Z -> (npts + Z.to_nat (- si) <= length l)%nat) ->
  ((0 <= si)%Z -> (npts - Z.to_nat si <= length l)%nat) ->
  trim_row npts si (l ++ tl) = trim_row npts si l.
Proof.
  intros H1 H2. unfold trim_row, slice. destruct (Z.ltb_spec si 0) as [Hs|Hs].
  - specialize (H1 Hs). rewrite skipn_app. replace (Z.to_nat (- si) - length l)%nat with 0%nat by lia.
    cbn [skipn]. rewrite firstn_app, skipn_length.
    replace (npts + Z.to_nat (- si) - Z.to_nat (- si) - (length l - Z.to_nat (- si)))%nat with 0%nat by lia.
    cbn [firstn]. now rewrite app_nil_r.
  - specialize (H2 Hs). f_equal. rewrite firstn_app.
    replace (npts - Z.to_nat si - length l)%nat with 0%nat by lia. cbn [firstn]. now rewrite app_nil_r.
Qed.
Variables (start : bool) (stt : R).
Hypothesis Hstt : 0 <= stt.
Lemma trimmed_row_generic (rows_b rows_s : list (list R)) :
  length rows_b = length tts -> length rows_s = 1%nat ->
  length (nth 0 rows_s []) = Ls ->
  (exists tl, nth j rows_b [] = nth 0 rows_s [] ++ tl) ->
  nth j (trim_to_length (length vals) (depth_shifts dt tts) (start_shift dt stt) true start rows_b) [] =
  nth 0 (trim_to_length (length vals) (depth_shifts dt [t]) (start_shift dt stt) true start rows_s) [].
Proof.
  intros Lb' Ls' Hlen (tl & E).
  assert (Hd : nth j (depth_shifts dt tts) 0%Z = ntrunc (t / dt)).
  { unfold depth_shifts. rewrite nth_map_in with (d' := 0) by auto. reflexivity. }
  assert (Hb : (0 <= ntrunc (t / dt)%R <= Z.of_nat (max_shift dt [t]))%Z).
  { apply (depth_shifts_bounds dt [t] Hdt); [intros x [<-|[]]; apply Htt, nth_In, Hj | now left]. }
  pose proof (start_shift_nonneg dt stt Hdt Hstt) as Hss.
  assert (Hds : length (depth_shifts dt tts) = length tts) by apply map_length.
  unfold trim_to_length. destruct start.
  - unfold trim_npts. cbn [andb negb].
    rewrite map2_nth with (da := 0%Z) (db := []) by (rewrite ?map_length; lia).
    rewrite map2_nth with (da := 0%Z) (db := []) by (cbn; lia).
    rewrite nth_map_in with (d' := 0%Z) by lia. rewrite Hd. cbn [depth_shifts map nth].
    rewrite E. apply trim_row_app; unfold Ls in Hlen; numR; lia.
  - rewrite map2_nth with (da := 0%Z) (db := []) by (rewrite ?map_length; lia).
    rewrite map2_nth with (da := 0%Z) (db := []) by (cbn; lia).
    rewrite nth_map_in with (d' := 0%Z) by lia. cbn [depth_shifts map nth].
    rewrite E. apply trim_row_app; unfold Ls in Hlen; numR; lia.
Qed.
Lemma C19_row_eq_single_trimmed :
  nth j (surface_energy nodal true start dt vals tts ur dr stt) [] =
    nth 0 (surface_energy nodal true start dt vals [t] ur1 dr1 stt) [] /\
  nth j (cum_abs_surface_energy nodal true start dt vals tts ur dr stt) [] =
    nth 0 (cum_abs_surface_energy nodal true start dt vals [t] ur1 dr1 stt) [] /\
  nth j (time_shift_motions nodal true start dt vals tts ur dr stt) [] =
    nth 0 (time_shift_motions nodal true start dt vals [t] ur1 dr1 stt) [].
Proof.
  assert (A : nth j (surface_energy nodal true start dt vals tts ur dr stt) [] =
    nth 0 (surface_energy nodal true start dt vals [t] ur1 dr1 stt) []).
  { unfold surface_energy. apply trimmed_row_generic.
    - apply energy_rows_length.
    - apply energy_rows_length.
    - apply energy_rows_row_length with (nodal := nodal) (ur := ur1) (dr := dr1). apply nth_In. rewrite energy_rows_length. cbn; lia.
    - apply energy_rows_single_prefix. }
  split; [exact A|]. split.
  - unfold cum_abs_surface_energy.
    rewrite nth_map_in with (d' := []) by (rewrite surface_energy_length; auto).
    rewrite nth_map_in with (d' := []) by (rewrite surface_energy_length; cbn; lia).
    now rewrite A.
  - unfold time_shift_motions. apply trimmed_row_generic.
    + apply acc_rows_length.
    + apply acc_rows_length.
    + apply acc_rows_row_length with (nodal := nodal) (ur := ur1) (dr := dr1). apply nth_In. rewrite acc_rows_length. cbn; lia.
    + apply acc_rows_single_prefix.
Qed.
(** untrimmed with start = True: the rows are cut out of the untrimmed rows with the batch-wide length
    npts + max(0, max_j (int(stt/dt) - int(tt_j/dt))); the single result (length npts + max(0, int(stt/dt) - int(tt/dt)))
    is a prefix of the batch row *)
Lemma firstn_le_prefix {A} a b (X : list A) : (a <= b)%nat -> exists tl, firstn b X = firstn a X ++ tl.
Proof.
  intros Hab. exists (skipn a (firstn b X)). rewrite <- (firstn_skipn a (firstn b X)) at 1. f_equal.
  rewrite firstn_firstn. f_equal. lia.
Qed.
Lemma firstn_app_le {A} n (X tl : list A) : (n <= length X)%nat -> firstn n (X ++ tl) = firstn n X.
Proof. intros Hn. rewrite firstn_app. replace (n - length X)%nat with 0%nat by lia. cbn [firstn]. now rewrite app_nil_r. Qed.
Lemma trim_row_prefix n1 n2 si (l tl : list R) : (n1 <= n2)%nat ->
  ((si < 0)%Z -> (n1 + Z.to_nat (- si) <= length l)%nat) ->
  ((0 <= si)%Z -> (Z.to_nat si <= n1)%nat /\ (n1 - Z.to_nat si <= length l)%nat) ->
  exists tl', trim_row n2 si (l ++ tl) = trim_row n1 si l ++ tl'.
Proof.
  intros Hn H1 H2. unfold trim_row, slice. destruct (Z.ltb_spec si 0) as [Hs|Hs].
  - specialize (H1 Hs). set (a := Z.to_nat (- si)) in *.
    rewrite skipn_app. replace (a - length l)%nat with 0%nat by lia. cbn [skipn].
    replace (n2 + a - a)%nat with n2 by lia. replace (n1 + a - a)%nat with n1 by lia.
    destruct (firstn_le_prefix n1 n2 (skipn a l ++ tl) Hn) as (tl' & ->).
    rewrite firstn_app_le by (rewrite skipn_length; lia). eexists; reflexivity.
  - destruct (H2 Hs) as [H3 H4]. set (s := Z.to_nat si) in *.
    rewrite !Nat.min_l by lia.
    destruct (firstn_le_prefix (n1 - s) (n2 - s) (l ++ tl) ltac:(lia)) as (tl' & ->).
    rewrite firstn_app_le by lia. exists tl'. now rewrite app_assoc.
Qed.
Lemma start_untrimmed_row_generic (rows_b rows_s : list (list R)) :
  length rows_b = length tts -> length rows_s = 1%nat ->
  length (nth 0 rows_s []) = Ls ->
  (exists tl, nth j rows_b [] = nth 0 rows_s [] ++ tl) ->
  exists tl',
  nth j (trim_to_length (length vals) (depth_shifts dt tts) (start_shift dt stt) false true rows_b) [] =
  nth 0 (trim_to_length (length vals) (depth_shifts dt [t]) (start_shift dt stt) false true rows_s) [] ++ tl'.
Proof.
  intros Lb' Ls' Hlen (tl & E).
  assert (Hd : nth j (depth_shifts dt tts) 0%Z = ntrunc (t / dt)).
  { unfold depth_shifts. rewrite nth_map_in with (d' := 0) by auto. reflexivity. }
  assert (Hb : (0 <= ntrunc (t / dt)%R <= Z.of_nat (max_shift dt [t]))%Z).
  { apply (depth_shifts_bounds dt [t] Hdt); [intros x [<-|[]]; apply Htt, nth_In, Hj | now left]. }
  pose proof (start_shift_nonneg dt stt Hdt Hstt) as Hss.
  pose proof (depth_shifts_bounds dt tts Hdt Htt) as Hsds.
  assert (Hds : length (depth_shifts dt tts) = length tts) by apply map_length.
  unfold trim_to_length.
  rewrite map2_nth with (da := 0%Z) (db := []) by (rewrite ?map_length; lia).
  rewrite map2_nth with (da := 0%Z) (db := []) by (cbn; lia).
  rewrite nth_map_in with (d' := 0%Z) by lia. rewrite Hd. cbn [depth_shifts map nth].
  unfold trim_npts. cbn [andb negb zmax zmin fold_left map].
  set (ss := start_shift dt stt) in *. set (d := ntrunc (t / dt)%R) in *. set (sds := depth_shifts dt tts) in *.
  assert (Hmin : (0 <= zmin (map (Z.mul 2) sds))%Z).
  { apply zmin_lb; [lia|]. intros y (d2 & <- & Hd2)%in_map_iff. specialize (Hsds d2 Hd2). lia. }
  assert (Hge : (ss - d <= zmax (map (fun d0 => ss - d0) sds))%Z).
  { apply zmax_ge. apply in_map_iff. exists d. split; [reflexivity|]. rewrite <- Hd. apply nth_In. lia. }
  rewrite E. apply trim_row_prefix; unfold Ls in Hlen; numR; lia.
Qed.
Lemma C19_row_single_prefix_start :
  (exists tl, nth j (surface_energy nodal false true dt vals tts ur dr stt) [] =
     nth 0 (surface_energy nodal false true dt vals [t] ur1 dr1 stt) [] ++ tl) /\
  (exists tl, nth j (cum_abs_surface_energy nodal false true dt vals tts ur dr stt) [] =
     nth 0 (cum_abs_surface_energy nodal false true dt vals [t] ur1 dr1 stt) [] ++ tl) /\
  (exists tl, nth j (time_shift_motions nodal false true dt vals tts ur dr stt) [] =
     nth 0 (time_shift_motions nodal false true dt vals [t] ur1 dr1 stt) [] ++ tl).
Proof.
  assert (A : exists tl, nth j (surface_energy nodal false true dt vals tts ur dr stt) [] =
     nth 0 (surface_energy nodal false true dt vals [t] ur1 dr1 stt) [] ++ tl).
  { unfold surface_energy. apply start_untrimmed_row_generic.
    - apply energy_rows_length.
    - apply energy_rows_length.
    - apply energy_rows_row_length with (nodal := nodal) (ur := ur1) (dr := dr1). apply nth_In. rewrite energy_rows_length. cbn; lia.
    - apply energy_rows_single_prefix. }
  split; [exact A|]. split.
  - destruct A as (tl & A). unfold cum_abs_surface_energy.
    rewrite nth_map_in with (d' := []) by (rewrite surface_energy_length; auto).
    rewrite nth_map_in with (d' := []) by (rewrite surface_energy_length; cbn; lia).
    rewrite A. apply cum_abs_row_app_prefix.
  - unfold time_shift_motions. apply start_untrimmed_row_generic.
    + apply acc_rows_length.
    + apply acc_rows_length.
    + apply acc_rows_row_length with (nodal := nodal) (ur := ur1) (dr := dr1). apply nth_In. rewrite acc_rows_length. cbn; lia.
    + apply acc_rows_single_prefix.
Qed.
End RowSingle.

Lemma C19_row_eq_single_untrimmed nodal dt (vals tts : list R) ur dr j stt :
  0 < dt -> (forall t, In t tts -> 0 <= t) -> (j < length tts)%nat ->
  let rb := nth j (surface_energy nodal false false dt vals tts ur dr stt) [] in
  let rs := nth 0 (surface_energy nodal false false dt vals [nth j tts 0] (RScalar (red_at ur j)) (RScalar (red_at dr j)) stt) [] in
  (exists tl, rb = rs ++ tl) /\
  forall i, (length rs <= i < length rb)%nat -> nth i rb 0 = nth (length rs) rb 0.
Proof.
  intros Hdt Htt Hj rb rs. unfold surface_energy, trim_to_length in rb, rs.
  split; [now apply energy_rows_single_prefix|].
  assert (Lrs : length rs = (length vals + max_shift dt [nth j tts 0%R])%nat).
  { unfold rs. apply energy_rows_row_length with (nodal := nodal) (ur := RScalar (red_at ur j)) (dr := RScalar (red_at dr j)).
    apply nth_In. rewrite energy_rows_length. cbn; lia. }
  assert (Lrb : length rb = (length vals + max_shift dt tts)%nat).
  { unfold rb. apply energy_rows_row_length with (nodal := nodal) (ur := ur) (dr := dr).
    apply nth_In. now rewrite energy_rows_length. }
  intros i Hi. rewrite Lrs, Lrb in *. unfold rb. now apply energy_row_const_tail.
Qed.

(** the same for the cumulative absolute change and for the motions (untrimmed, start = False); the tail of a motion row
    is identically zero *)
Definition prefix_const (rb rs : list R) : Prop :=
  (exists tl, rb = rs ++ tl) /\ forall i, (length rs <= i < length rb)%nat -> nth i rb 0 = nth (length rs) rb 0.
Lemma C19_row_eq_single_untrimmed_all nodal dt (vals tts : list R) ur dr j stt :
  0 < dt -> (forall t, In t tts -> 0 <= t) -> (j < length tts)%nat ->
  let t := nth j tts 0 in let ur1 := RScalar (red_at ur j) in let dr1 := RScalar (red_at dr j) in
  prefix_const (nth j (surface_energy nodal false false dt vals tts ur dr stt) [])
               (nth 0 (surface_energy nodal false false dt vals [t] ur1 dr1 stt) []) /\
  prefix_const (nth j (cum_abs_surface_energy nodal false false dt vals tts ur dr stt) [])
               (nth 0 (cum_abs_surface_energy nodal false false dt vals [t] ur1 dr1 stt) []) /\
  prefix_const (nth j (time_shift_motions nodal false false dt vals tts ur dr stt) [])
               (nth 0 (time_shift_motions nodal false false dt vals [t] ur1 dr1 stt) []) /\
  (forall i, (length (nth 0 (time_shift_motions nodal false false dt vals [t] ur1 dr1 stt) []) <= i)%nat ->
     nth i (nth j (time_shift_motions nodal false false dt vals tts ur dr stt) []) 0 = 0).
Proof.
  intros Hdt Htt Hj t ur1 dr1.
  pose proof (C19_row_eq_single_untrimmed nodal dt vals tts ur dr j stt Hdt Htt Hj) as A. cbv zeta in A.
  fold t ur1 dr1 in A. split; [exact A|].
  assert (Ht : 0 <= t) by (apply Htt, nth_In, Hj).
  assert (Z : forall i, (length (nth 0 (time_shift_motions nodal false false dt vals [t] ur1 dr1 stt) []) <= i)%nat ->
     nth i (nth j (time_shift_motions nodal false false dt vals tts ur dr stt) []) 0 = 0).
  { unfold time_shift_motions, trim_to_length. intros i.
    rewrite acc_rows_nth by auto. rewrite acc_rows_nth by (cbn; lia). rewrite map_length, seq_length. intros Hi.
    destruct (Nat.lt_ge_cases i (length vals + max_shift dt tts)) as [H|H].
    - rewrite nth_tab by auto. fold t. apply accf_tail_zero; auto.
    - apply nth_overflow. now rewrite map_length, seq_length. }
  split; [|split; [|exact Z]].
  - destruct A as [(tl & A1) A2]. unfold cum_abs_surface_energy.
    rewrite nth_map_in with (d' := []) by (rewrite surface_energy_length; auto).
    rewrite nth_map_in with (d' := []) by (rewrite surface_energy_length; cbn; lia).
    split; [rewrite A1; apply cum_abs_row_app_prefix|].
    intros i Hi. rewrite !cum_abs_row_length in *. now apply cum_abs_row_const_tail.
  - split; [unfold time_shift_motions, trim_to_length; now apply acc_rows_single_prefix|].
    intros i Hi. rewrite !Z by lia. reflexivity.
Qed.
Lemma C19_row_single_prefix_start' nodal dt (vals tts : list R) ur dr j stt :
  0 < dt -> (forall t, In t tts -> 0 <= t) -> (j < length tts)%nat -> 0 <= stt ->
  let t := nth j tts 0 in let ur1 := RScalar (red_at ur j) in let dr1 := RScalar (red_at dr j) in
  (exists tl, nth j (surface_energy nodal false true dt vals tts ur dr stt) [] =
     nth 0 (surface_energy nodal false true dt vals [t] ur1 dr1 stt) [] ++ tl) /\
  (exists tl, nth j (cum_abs_surface_energy nodal false true dt vals tts ur dr stt) [] =
     nth 0 (cum_abs_surface_energy nodal false true dt vals [t] ur1 dr1 stt) [] ++ tl) /\
  (exists tl, nth j (time_shift_motions nodal false true dt vals tts ur dr stt) [] =
     nth 0 (time_shift_motions nodal false true dt vals [t] ur1 dr1 stt) [] ++ tl).
Proof. intros. now apply C19_row_single_prefix_start. Qed.

(** a scalar reduction factor is an array of equal entries *)
Lemma map_idx_from_ext_in {A B} (f g : nat -> A -> B) j0 l :
  (forall j x, (j0 <= j < j0 + length l)%nat -> f j x = g j x) -> map_idx_from f j0 l = map_idx_from g j0 l.
Proof.
  revert j0; induction l as [|a l IH]; intros j0 E; cbn; [reflexivity|].
  rewrite E by (cbn; lia). f_equal. apply IH. intros j x Hj. apply E. cbn. lia.
Qed.
Lemma nth_repeat_lt {A} (x d : A) n i : (i < n)%nat -> nth i (repeat x n) d = x.
Proof. revert i; induction n; intros i Hi; [lia|]. destruct i; cbn; auto. apply IHn. lia. Qed.
Lemma scalar_red_array nodal dt (vals tts : list R) u d :
  acc_rows nodal dt vals tts (RScalar u) (RScalar d) =
  acc_rows nodal dt vals tts (RArr (repeat u (length tts))) (RArr (repeat d (length tts))).
Proof.
  unfold acc_rows. apply map_idx_from_ext_in. intros j s Hj. rewrite shifts_of_length in Hj.
  cbn [red_at]. now rewrite !nth_repeat_lt by lia.
Qed.
